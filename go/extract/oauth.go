package main

import (
	"fmt"
	"go/ast"
	"go/token"
	"sort"
	"strconv"
	"strings"
)

// E11 (C15): the small predicate functions of the OAuth client flow, regenerated through a tiny
// expression translator (string comparison with constants, && || !, if-return chains), the
// well-known path literals with their candidate order, and structural facts about the order of the
// checks. Anything that leaves the translatable subset is reported as an extraction error.
func init() {
	reg(func(c *Ctx) {
		var b strings.Builder
		required := map[string]bool{}
		b.WriteString("namespace Generated.OAuth\n")

		// ---- oauthex.checkURLScheme: the list of disallowed schemes -------------------------------
		if fd := c.Func("oauthex", "", "checkURLScheme"); fd == nil {
			c.Errf("oauth: checkURLScheme not found")
		} else {
			conds := ifConds(c, fd.Body)
			c.Fact("oauth.checkURLScheme.conds", conds)
			c.Fact("oauth.checkURLScheme.scheme_expr", assignOf(c, fd.Body, "scheme"))
			var list []string
			ok := false
			if len(conds) > 0 {
				if ifs := lastIf(fd.Body); ifs != nil {
					list, ok = eqChain(ifs.Cond, "scheme")
					ok = ok && returnsError(ifs.Body)
				}
			}
			if !ok {
				c.Errf("oauth: checkURLScheme's final condition is not an ||-chain of scheme == \"lit\" guarding an error return")
			}
			fmt.Fprintf(&b, "/-- oauthex/oauth2.go `checkURLScheme`: schemes (after `strings.ToLower`) that are refused. -/\ndef scriptSchemes : List String := %s\n", LeanStrList(list))
		}

		// ---- oauthex.checkHTTPSOrLoopback: the final (rejecting) condition ------------------------
		if fd := c.Func("oauthex", "", "checkHTTPSOrLoopback"); fd == nil {
			c.Errf("oauth: checkHTTPSOrLoopback not found")
		} else {
			c.Fact("oauth.checkHTTPSOrLoopback.conds", ifConds(c, fd.Body))
			expr := "false"
			if ifs := lastIf(fd.Body); ifs == nil || !returnsError(ifs.Body) {
				c.Errf("oauth: checkHTTPSOrLoopback has no final rejecting if")
			} else {
				tr := &xlat{c: c, env: map[string]string{"util.IsLoopback(u.Host)": "isLoopback", "u.Scheme": "scheme"}, lit: LeanStr}
				e, err := tr.expr(ifs.Cond)
				if err != nil {
					c.Errf("oauth: checkHTTPSOrLoopback: %v", err)
				} else {
					expr = e
				}
			}
			fmt.Fprintf(&b, "/-- oauthex/oauth2.go `checkHTTPSOrLoopback`: the condition under which a parsed, non-empty URL is REFUSED. -/\ndef holReject (isLoopback : Bool) (scheme : String) : Bool := %s\n", expr)
		}

		// ---- auth.validateIssuerResponse (RFC 9207) ----------------------------------------------
		if fd := c.Func("auth", "", "validateIssuerResponse"); fd == nil {
			c.Errf("oauth: validateIssuerResponse not found")
		} else {
			params := []string{}
			for _, f := range fd.Type.Params.List {
				for _, n := range f.Names {
					params = append(params, n.Name)
				}
			}
			c.Fact("oauth.validateIssuerResponse.params", params)
			tr := &xlat{c: c, env: map[string]string{"iss": "iss", "expectedIssuer": "expectedIssuer", "issParameterSupported": "issParameterSupported"},
				lit: func(s string) string {
					if s == "" {
						return "empty"
					}
					return "(unsupported_literal " + LeanStr(s) + ")"
				}}
			body, err := tr.chain(fd.Body.List)
			if err != nil {
				c.Errf("oauth: validateIssuerResponse: %v", err)
				body = "0"
			}
			c.Fact("oauth.validateIssuerResponse.errors", tr.nerr)
			fmt.Fprintf(&b, "/-- auth/authorization_code.go `validateIssuerResponse`: 0 = nil, k = the k-th error return in source order\n(1 advertised but absent, 2 mismatch, 3 not advertised but present). `empty` stands for the Go literal \"\". -/\ndef validateIssuerResponse {α : Type} [DecidableEq α] (empty iss expectedIssuer : α) (issParameterSupported : Bool) : Nat :=\n  %s\n", body)
		}

		// ---- authutil.IssuersEqual ------------------------------------------------------------------
		if fd := c.Func("internal/authutil", "", "IssuersEqual"); fd == nil {
			c.Errf("oauth: IssuersEqual not found")
		} else if len(fd.Body.List) == 1 {
			c.Fact("oauth.IssuersEqual.body", c.Src(fd.Body.List[0]))
		} else {
			c.Fact("oauth.IssuersEqual.body", "other")
		}

		// ---- well-known locations and their candidate order --------------------------------------
		prmLits := stringLits(c.Func("auth", "", "protectedResourceMetadataURLs"))
		asLits := stringLits(c.Func("auth", "", "authorizationServerMetadataURLs"))
		c.Fact("oauth.prm_wellknown_literals", prmLits)
		c.Fact("oauth.as_wellknown_literals", asLits)
		// split the AS literals at the first `return urls` (Path == "" branch)
		noPath, withPath := splitAtReturn(c, c.Func("auth", "", "authorizationServerMetadataURLs"))
		fmt.Fprintf(&b, "/-- auth/authorization_code.go `protectedResourceMetadataURLs`: path literals, in candidate order (after the challenge's URL). -/\ndef prmWellKnown : List String := %s\n", LeanStrList(prmLits))
		fmt.Fprintf(&b, "/-- auth/shared.go `authorizationServerMetadataURLs`: path literals for an issuer WITHOUT a path, in order. -/\ndef asWellKnownNoPath : List String := %s\n", LeanStrList(noPath))
		fmt.Fprintf(&b, "/-- …and for an issuer WITH a path (insertion, insertion, appending: prefix and suffix literal). -/\ndef asWellKnownWithPath : List String := %s\n", LeanStrList(withPath))
		// 2025-03-26 fall-back endpoints in Authorize
		fb := map[string]string{}
		var fbOrder []string
		if fd := c.Func("auth", "AuthorizationCodeHandler", "Authorize"); fd != nil {
			ast.Inspect(fd, func(n ast.Node) bool {
				kv, ok := n.(*ast.KeyValueExpr)
				if !ok {
					return true
				}
				if be, ok := kv.Value.(*ast.BinaryExpr); ok && be.Op == token.ADD {
					if lit, ok := be.Y.(*ast.BasicLit); ok && lit.Kind == token.STRING {
						s, _ := strconv.Unquote(lit.Value)
						fb[c.Src(kv.Key)] = c.Src(be.X) + "+" + s
						fbOrder = append(fbOrder, s)
					}
				}
				return true
			})
		}
		c.Fact("oauth.fallback_endpoints", fb)
		fmt.Fprintf(&b, "/-- `Authorize`: suffixes of the 2025-03-26 fall-back endpoints (authorization, token, registration). -/\ndef fallbackSuffixes : List String := %s\n", LeanStrList(fbOrder))
		leanHead := b.String()

		// ---- structural facts: order of checks and calls -----------------------------------------
		c.Fact("oauth.Authorize.calls", callOrder(c, c.Func("auth", "AuthorizationCodeHandler", "Authorize"),
			"ParseWWWAuthenticate", "errorFromChallenges", "getProtectedResourceMetadata", "GetAuthServerMetadata", "handleRegistration",
			"getAuthorizationCode", "validateIssuerResponse", "exchangeAuthorizationCode", "updateGrantedScopes"))
		c.Fact("oauth.Authorize.checks", checkSeq(c, c.Func("auth", "AuthorizationCodeHandler", "Authorize")))
		c.Fact("oauth.exchangeAuthorizationCode.checks", checkSeq(c, c.Func("auth", "AuthorizationCodeHandler", "exchangeAuthorizationCode")))
		c.Fact("oauth.updateGrantedScopes.checks", checkSeq(c, c.Func("auth", "AuthorizationCodeHandler", "updateGrantedScopes")))
		c.Fact("oauth.GetProtectedResourceMetadata.checks", checkSeq(c, c.Func("oauthex", "", "GetProtectedResourceMetadata")))
		c.Fact("oauth.GetAuthServerMeta.checks", checkSeq(c, c.Func("oauthex", "", "GetAuthServerMeta")))
		c.Fact("oauth.getProtectedResourceMetadata.checks", checkSeq(c, c.Func("auth", "AuthorizationCodeHandler", "getProtectedResourceMetadata")))
		c.Fact("oauth.GetAuthServerMetadata.checks", checkSeq(c, c.Func("auth", "", "GetAuthServerMetadata")))
		c.Fact("oauth.handleRegistration.checks", checkSeq(c, c.Func("auth", "AuthorizationCodeHandler", "handleRegistration")))
		c.Fact("oauth.getAuthorizationCode.checks", checkSeq(c, c.Func("auth", "AuthorizationCodeHandler", "getAuthorizationCode")))
		c.Fact("oauth.getJSON.checks", checkSeq(c, c.Func("oauthex", "", "getJSON")))
		// the two builders of the candidate lists: branch and append order (the challenge's URL first if there is one,
		// then the path variant, then the root; issuer without / with a path)
		c.Fact("oauth.protectedResourceMetadataURLs.checks", checkSeq(c, c.Func("auth", "", "protectedResourceMetadataURLs")))
		c.Fact("oauth.authorizationServerMetadataURLs.checks", checkSeq(c, c.Func("auth", "", "authorizationServerMetadataURLs")))
		c.Fact("oauth.RegisterClient.checks", checkSeq(c, c.Func("oauthex", "", "RegisterClient")))
		// validateAuthServerMetaURLs: which fields get which check
		if fd := c.Func("oauthex", "", "validateAuthServerMetaURLs"); fd != nil {
			// REQUIRED endpoints: top-level `if asm.X == "" { return <error> }`
			req := map[string]bool{}
			for _, st := range fd.Body.List {
				if ifs, ok := st.(*ast.IfStmt); ok && ifs.Init == nil && returnsError(ifs.Body) {
					switch c.Src(ifs.Cond) {
					case `asm.TokenEndpoint == ""`:
						req["token"] = true
					case `asm.AuthorizationEndpoint == ""`:
						req["authorization"] = true
					}
				}
			}
			required = req
			var groups [][]string
			var checks []string
			ast.Inspect(fd, func(n ast.Node) bool {
				switch x := n.(type) {
				case *ast.CompositeLit:
					if _, ok := x.Type.(*ast.ArrayType); ok {
						var g []string
						for _, el := range x.Elts {
							if cl, ok := el.(*ast.CompositeLit); ok && len(cl.Elts) == 2 {
								g = append(g, c.Src(cl.Elts[1]))
							}
						}
						groups = append(groups, g)
					}
				case *ast.CallExpr:
					if id, ok := x.Fun.(*ast.Ident); ok && strings.HasPrefix(id.Name, "check") {
						checks = append(checks, id.Name)
					}
				}
				return true
			})
			m := map[string][]string{}
			for i, g := range groups {
				if i < len(checks) {
					m[checks[i]] = g
				}
			}
			c.Fact("oauth.validateAuthServerMetaURLs.fields", m)
		} else {
			c.Errf("oauth: validateAuthServerMetaURLs not found")
		}
		leanHead += fmt.Sprintf("/-- oauthex/auth_meta.go `validateAuthServerMetaURLs`: does it refuse metadata whose token_endpoint / authorization_endpoint is empty?\n(not in the pinned tree: known finding C15-empty-token-endpoint; true once the candidate fix is applied) -/\ndef tokenEndpointRequired : Bool := %v\ndef authorizationEndpointRequired : Bool := %v\n", required["token"], required["authorization"])
		c.Lean["OAuthGen"] = leanHead + "end Generated.OAuth\n"
		// the only assignments to h.tokenSource
		sites := []string{}
		for _, f := range c.load("auth") {
			for _, d := range f.Decls {
				fd, ok := d.(*ast.FuncDecl)
				if !ok || fd.Body == nil {
					continue
				}
				ast.Inspect(fd.Body, func(n ast.Node) bool {
					if as, ok := n.(*ast.AssignStmt); ok {
						for _, l := range as.Lhs {
							if c.Src(l) == "h.tokenSource" && recvName(fd) == "AuthorizationCodeHandler" {
								sites = append(sites, fd.Name.Name+": "+c.Src(as))
							}
						}
					}
					return true
				})
			}
		}
		sort.Strings(sites)
		c.Fact("oauth.tokenSource.assignments", sites)
		// what ONE handler carries from one Authorize call to another (and between calls in flight together):
		// the fields of the struct, and every statement of a method that assigns to one of them (directly or
		// to an element of a map field). The concurrent model (`CHandler`) has exactly: the fixed configuration,
		// the token source served; grantedScopes is the declared abstraction (scopes are not modelled).
		fields := []string{}
		writes := []string{}
		for _, f := range c.load("auth") {
			for _, d := range f.Decls {
				switch x := d.(type) {
				case *ast.GenDecl:
					for _, sp := range x.Specs {
						ts, ok := sp.(*ast.TypeSpec)
						if !ok || ts.Name.Name != "AuthorizationCodeHandler" {
							continue
						}
						if st, ok := ts.Type.(*ast.StructType); ok {
							for _, fl := range st.Fields.List {
								for _, n := range fl.Names {
									fields = append(fields, n.Name+" "+c.Src(fl.Type))
								}
								if len(fl.Names) == 0 {
									fields = append(fields, "(embedded) "+c.Src(fl.Type))
								}
							}
						}
					}
				case *ast.FuncDecl:
					if x.Body == nil || recvName(x) != "AuthorizationCodeHandler" {
						continue
					}
					ast.Inspect(x.Body, func(n ast.Node) bool {
						switch y := n.(type) {
						case *ast.AssignStmt:
							for _, l := range y.Lhs {
								if t := c.Src(l); strings.HasPrefix(t, "h.") {
									writes = append(writes, x.Name.Name+": "+t+" "+y.Tok.String())
								}
							}
						case *ast.IncDecStmt:
							if t := c.Src(y.X); strings.HasPrefix(t, "h.") {
								writes = append(writes, x.Name.Name+": "+t+" "+y.Tok.String())
							}
						case *ast.CallExpr:
							if id, ok := y.Fun.(*ast.Ident); ok && (id.Name == "delete" || id.Name == "clear") && len(y.Args) > 0 && strings.HasPrefix(c.Src(y.Args[0]), "h.") {
								writes = append(writes, x.Name.Name+": "+id.Name+" "+c.Src(y.Args[0]))
							}
						}
						return true
					})
				}
			}
		}
		sort.Strings(writes)
		c.Fact("oauth.handler.fields", fields)
		c.Fact("oauth.handler.writes", writes)
	})
}

// ---------------------------------------------------------------- tiny translator

type xlat struct {
	c    *Ctx
	env  map[string]string
	lit  func(string) string
	nerr int
}

func (t *xlat) expr(e ast.Expr) (string, error) {
	if v, ok := t.env[t.c.Src(e)]; ok {
		return v, nil
	}
	switch x := e.(type) {
	case *ast.ParenExpr:
		return t.expr(x.X)
	case *ast.BasicLit:
		if x.Kind == token.STRING {
			s, err := strconv.Unquote(x.Value)
			if err != nil {
				return "", err
			}
			return t.lit(s), nil
		}
	case *ast.UnaryExpr:
		if x.Op == token.NOT {
			a, err := t.expr(x.X)
			if err != nil {
				return "", err
			}
			return "(!" + a + ")", nil
		}
	case *ast.BinaryExpr:
		op := map[token.Token]string{token.LAND: "&&", token.LOR: "||", token.EQL: "==", token.NEQ: "!="}[x.Op]
		if op != "" {
			a, err := t.expr(x.X)
			if err != nil {
				return "", err
			}
			b, err := t.expr(x.Y)
			if err != nil {
				return "", err
			}
			return "(" + a + " " + op + " " + b + ")", nil
		}
	}
	return "", fmt.Errorf("expression outside the translatable subset: %s", t.c.Src(e))
}

// chain translates an if/return chain into a Lean expression of type Nat (0 = return nil).
func (t *xlat) chain(l []ast.Stmt) (string, error) {
	if len(l) == 0 {
		return "", fmt.Errorf("statement list falls off the end")
	}
	switch s := l[0].(type) {
	case *ast.ReturnStmt:
		if len(s.Results) != 1 {
			return "", fmt.Errorf("return with %d results", len(s.Results))
		}
		if id, ok := s.Results[0].(*ast.Ident); ok && id.Name == "nil" {
			return "0", nil
		}
		if ce, ok := s.Results[0].(*ast.CallExpr); ok && strings.HasSuffix(t.c.Src(ce.Fun), "Errorf") {
			t.nerr++
			return strconv.Itoa(t.nerr), nil
		}
		return "", fmt.Errorf("unsupported return: %s", t.c.Src(s))
	case *ast.IfStmt:
		if s.Init != nil {
			return "", fmt.Errorf("if with init statement")
		}
		cond, err := t.expr(s.Cond)
		if err != nil {
			return "", err
		}
		rest := l[1:]
		// source order of error numbering: then-branch first
		th, err := t.chain(append(append([]ast.Stmt{}, s.Body.List...), rest...))
		if err != nil {
			return "", err
		}
		var el []ast.Stmt
		switch e := s.Else.(type) {
		case *ast.BlockStmt:
			el = e.List
		case *ast.IfStmt:
			el = []ast.Stmt{e}
		}
		els, err := t.chain(append(append([]ast.Stmt{}, el...), rest...))
		if err != nil {
			return "", err
		}
		return "(if " + cond + " then " + th + " else " + els + ")", nil
	}
	return "", fmt.Errorf("statement outside the translatable subset: %s", t.c.Src(l[0]))
}

// ---------------------------------------------------------------- helpers

func ifConds(c *Ctx, body *ast.BlockStmt) []string {
	var out []string
	for _, s := range body.List {
		if ifs, ok := s.(*ast.IfStmt); ok {
			out = append(out, c.Src(ifs.Cond))
		}
	}
	return out
}

func lastIf(body *ast.BlockStmt) *ast.IfStmt {
	var last *ast.IfStmt
	for _, s := range body.List {
		if ifs, ok := s.(*ast.IfStmt); ok {
			last = ifs
		}
	}
	return last
}

func returnsError(b *ast.BlockStmt) bool {
	if len(b.List) != 1 {
		return false
	}
	r, ok := b.List[0].(*ast.ReturnStmt)
	if !ok || len(r.Results) != 1 {
		return false
	}
	id, isIdent := r.Results[0].(*ast.Ident)
	return !(isIdent && id.Name == "nil")
}

func assignOf(c *Ctx, body *ast.BlockStmt, name string) string {
	for _, s := range body.List {
		if as, ok := s.(*ast.AssignStmt); ok && len(as.Lhs) == 1 && c.Src(as.Lhs[0]) == name {
			return c.Src(as.Rhs[0])
		}
	}
	return ""
}

// eqChain: e is `v == "a" || v == "b" || …` → ["a","b",…].
func eqChain(e ast.Expr, v string) ([]string, bool) {
	switch x := e.(type) {
	case *ast.ParenExpr:
		return eqChain(x.X, v)
	case *ast.BinaryExpr:
		if x.Op == token.LOR {
			a, ok1 := eqChain(x.X, v)
			b, ok2 := eqChain(x.Y, v)
			return append(a, b...), ok1 && ok2
		}
		if x.Op == token.EQL {
			id, ok := x.X.(*ast.Ident)
			lit, ok2 := x.Y.(*ast.BasicLit)
			if ok && ok2 && id.Name == v && lit.Kind == token.STRING {
				s, err := strconv.Unquote(lit.Value)
				return []string{s}, err == nil
			}
		}
	}
	return nil, false
}

func stringLits(fd *ast.FuncDecl) []string {
	out := []string{}
	if fd == nil {
		return out
	}
	// literals that are cutset arguments of strings.Trim* are not path literals
	skip := map[*ast.BasicLit]bool{}
	ast.Inspect(fd.Body, func(n ast.Node) bool {
		if ce, ok := n.(*ast.CallExpr); ok {
			if se, ok := ce.Fun.(*ast.SelectorExpr); ok && strings.HasPrefix(se.Sel.Name, "Trim") {
				for _, a := range ce.Args {
					if lit, ok := a.(*ast.BasicLit); ok {
						skip[lit] = true
					}
				}
			}
		}
		return true
	})
	ast.Inspect(fd.Body, func(n ast.Node) bool {
		if lit, ok := n.(*ast.BasicLit); ok && lit.Kind == token.STRING && !skip[lit] {
			if s, err := strconv.Unquote(lit.Value); err == nil && s != "" {
				out = append(out, s)
			}
		}
		return true
	})
	return out
}

// splitAtReturn: literals assigned to baseURL.Path inside the `if baseURL.Path == ""` block / after it.
func splitAtReturn(c *Ctx, fd *ast.FuncDecl) (inIf, after []string) {
	inIf, after = []string{}, []string{}
	if fd == nil {
		return
	}
	for _, s := range fd.Body.List {
		ifs, ok := s.(*ast.IfStmt)
		if ok && c.Src(ifs.Cond) == `baseURL.Path == ""` {
			inIf = stringLits(&ast.FuncDecl{Body: ifs.Body})
			continue
		}
		if as, ok := s.(*ast.AssignStmt); ok && len(as.Lhs) == 1 && c.Src(as.Lhs[0]) == "baseURL.Path" {
			tmp := &ast.FuncDecl{Body: &ast.BlockStmt{List: []ast.Stmt{as}}}
			after = append(after, stringLits(tmp)...)
		}
	}
	return
}

// callOrder: which of the named functions are called in fd, in source order.
func callOrder(c *Ctx, fd *ast.FuncDecl, names ...string) []string {
	out := []string{}
	if fd == nil {
		return out
	}
	want := map[string]bool{}
	for _, n := range names {
		want[n] = true
	}
	ast.Inspect(fd.Body, func(n ast.Node) bool {
		if ce, ok := n.(*ast.CallExpr); ok {
			name := ""
			switch f := ce.Fun.(type) {
			case *ast.Ident:
				name = f.Name
			case *ast.SelectorExpr:
				name = f.Sel.Name
			}
			if want[name] {
				out = append(out, name)
			}
		}
		return true
	})
	return out
}

// checkSeq: the skeleton of a function — every if-condition, the calls it guards on, and what each
// branch does (return nil / return error / continue), in source order.
func checkSeq(c *Ctx, fd *ast.FuncDecl) []string {
	out := []string{}
	if fd == nil {
		return []string{"<missing>"}
	}
	var walk func(l []ast.Stmt, depth int)
	walk = func(l []ast.Stmt, depth int) {
		ind := strings.Repeat(">", depth)
		for _, s := range l {
			switch x := s.(type) {
			case *ast.IfStmt:
				h := "if "
				if x.Init != nil {
					h += c.Src(x.Init) + "; "
				}
				out = append(out, ind+h+c.Src(x.Cond))
				walk(x.Body.List, depth+1)
				switch e := x.Else.(type) {
				case *ast.BlockStmt:
					out = append(out, ind+"else")
					walk(e.List, depth+1)
				case *ast.IfStmt:
					out = append(out, ind+"else")
					walk([]ast.Stmt{e}, depth+1)
				}
			case *ast.ForStmt:
				out = append(out, ind+"for")
				walk(x.Body.List, depth+1)
			case *ast.RangeStmt:
				out = append(out, ind+"range "+c.Src(x.X))
				walk(x.Body.List, depth+1)
			case *ast.ReturnStmt:
				r := []string{}
				for _, e := range x.Results {
					t := c.Src(e)
					switch {
					case strings.Contains(t, "Errorf") || strings.Contains(t, "errors.New"):
						t = "error"
					case strings.HasPrefix(t, "&"):
						t = "value"
					}
					r = append(r, t)
				}
				out = append(out, ind+"return "+strings.Join(r, ", "))
			case *ast.BranchStmt:
				out = append(out, ind+x.Tok.String())
			case *ast.AssignStmt:
				for _, r := range x.Rhs {
					if ce, ok := r.(*ast.CallExpr); ok {
						out = append(out, ind+"call "+c.Src(ce.Fun))
					}
				}
			case *ast.ExprStmt:
				if ce, ok := x.X.(*ast.CallExpr); ok {
					out = append(out, ind+"call "+c.Src(ce.Fun))
				}
			}
		}
	}
	walk(fd.Body.List, 0)
	return out
}
