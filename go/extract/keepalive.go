package main

import (
	"fmt"
	"go/ast"
	"go/token"
	"sort"
	"strings"
)

// E9 (C13): regenerate what the Lean model of mcp.startKeepalive depends on — the threshold
// normalisation, the per-ping timeout as a function of the interval, the tolerance test on the
// failure counter — through the tiny expression translator (bearer.go: trExpr), and record the
// structural facts the model relies on: the shape of the goroutine (ticker created and stopped by
// defer, two select cases, the order of the tests on a ping result, every exit is a return), the stop
// sentinel, and where keep-alive is started and cancelled.
func init() { reg(keepaliveExtract) }

func keepaliveExtract(c *Ctx) {
	bad := func(format string, a ...any) { c.Errf("keepalive: "+format, a...) }
	normCond, normVal, normSrc := "decide (t < 1)", "1", "if failureThreshold < 1 { failureThreshold = 1 }"
	timeout, timeoutSrc := "(interval / 2)", "interval/2"
	tolerate, tolerateSrc := "decide (fails < thr)", "consecutiveFailures < failureThreshold"
	sentinel := "jsonrpc2.ErrMethodNotFound"

	fd := c.Func("mcp", "", "startKeepalive")
	if fd == nil || fd.Body == nil {
		bad("mcp.startKeepalive not found")
	} else {
		var params []string
		for _, f := range fd.Type.Params.List {
			for _, n := range f.Names {
				params = append(params, n.Name+" "+c.Src(f.Type))
			}
		}
		c.Fact("keepalive.signature", params)
		outer := []string{}
		var gofn *ast.FuncLit
		for _, st := range fd.Body.List {
			switch s := st.(type) {
			case *ast.IfStmt:
				// threshold normalisation: if COND(failureThreshold) { failureThreshold = VAL }
				ok := false
				if s.Else == nil && s.Init == nil && len(s.Body.List) == 1 {
					if as, isas := s.Body.List[0].(*ast.AssignStmt); isas && as.Tok == token.ASSIGN && len(as.Lhs) == 1 && c.Src(as.Lhs[0]) == "failureThreshold" {
						env := map[string]string{"failureThreshold": "t"}
						t1, ok1 := trExpr(c, env, s.Cond)
						t2, ok2 := trExpr(c, env, as.Rhs[0])
						if ok1 && ok2 {
							normCond, normVal, normSrc, ok = t1, t2, c.Src(s), true
						}
					}
				}
				if ok {
					outer = append(outer, "normalise-threshold")
				} else {
					outer = append(outer, "?"+c.Src(s))
					bad("unexpected if-statement before the goroutine: %s", c.Src(s))
				}
			case *ast.GoStmt:
				outer = append(outer, "go func() {…}()")
				if fl, ok := s.Call.Fun.(*ast.FuncLit); ok && len(s.Call.Args) == 0 {
					gofn = fl
				}
			default:
				outer = append(outer, c.Src(st))
			}
		}
		c.Fact("keepalive.prologue", outer)
		if gofn == nil {
			bad("goroutine literal not found")
		} else {
			c.Fact("keepalive.goroutine", kaGoroutine(c, gofn, bad, &timeout, &timeoutSrc, &tolerate, &tolerateSrc, &sentinel))
		}
	}

	// where keep-alive is started and cancelled
	var starts, cancels []string
	for _, f := range c.load("mcp") {
		for _, d := range f.Decls {
			fn, ok := d.(*ast.FuncDecl)
			if !ok || fn.Body == nil {
				continue
			}
			name := fn.Name.Name
			if r := recvName(fn); r != "" {
				name = r + "." + name
			}
			ast.Inspect(fn.Body, func(n ast.Node) bool {
				ce, ok := n.(*ast.CallExpr)
				if !ok {
					return true
				}
				switch fun := ce.Fun.(type) {
				case *ast.Ident:
					if fun.Name == "startKeepalive" {
						starts = append(starts, name+": "+c.Src(ce))
					}
				case *ast.SelectorExpr:
					if fun.Sel.Name == "startKeepalive" {
						// the guard around the call: find it by source text of the enclosing if
						starts = append(starts, name+": "+c.Src(ce))
					}
					if fun.Sel.Name == "keepaliveCancel" {
						cancels = append(cancels, name+": "+c.Src(ce))
					}
				}
				return true
			})
		}
	}
	sort.Strings(starts)
	sort.Strings(cancels)
	c.Fact("keepalive.started_from", starts)
	c.Fact("keepalive.cancelled_from", cancels)
	// the guards `if X.opts.KeepAlive > 0 { …startKeepalive(…) }`
	var guards []string
	for _, f := range c.load("mcp") {
		ast.Inspect(f, func(n ast.Node) bool {
			is, ok := n.(*ast.IfStmt)
			if ok && len(is.Body.List) == 1 && strings.Contains(c.Src(is.Body.List[0]), ".startKeepalive(") {
				guards = append(guards, c.Src(is))
			}
			return true
		})
	}
	sort.Strings(guards)
	c.Fact("keepalive.start_guards", guards)

	// the order of the statements of the two Close methods: keep-alive must be cancelled before
	// anything that can fail or leave the function (KeepAlive.close_cancels_keepalive)
	clientPath, clientDesc := kaClosePath(c, "ClientSession", bad)
	serverPath, serverDesc := kaClosePath(c, "ServerSession", bad)
	c.Fact("keepalive.close_path.client", clientDesc)
	c.Fact("keepalive.close_path.server", serverDesc)

	var b strings.Builder
	w := func(format string, a ...any) { fmt.Fprintf(&b, format, a...) }
	w("namespace Generated.KeepAlive\n")
	w("/-- mcp/shared.go startKeepalive: `%s` -/\n", normSrc)
	w("def normThreshold (t : Int) : Int := if %s then %s else t\n", normCond, normVal)
	w("/-- the per-ping deadline `context.WithTimeout(context.Background(), %s)` (ns) -/\n", timeoutSrc)
	w("def pingTimeout (interval : Nat) : Nat := %s\n", timeout)
	w("/-- a failed ping is tolerated (the loop continues) when `%s` holds after the increment -/\n", tolerateSrc)
	w("def tolerated (fails thr : Int) : Bool := %s\n", tolerate)
	w("/-- the error on which the loop stops silently: `errors.Is(err, %s)` -/\n", sentinel)
	w("def stopSentinel : String := %s\n", LeanStr(sentinel))
	w("/-- top-level statements of (*ClientSession).Close, classified -/\n")
	w("def clientClosePath : List String := %s\n", LeanStrList(clientPath))
	w("/-- top-level statements of (*ServerSession).Close, classified -/\n")
	w("def serverClosePath : List String := %s\n", LeanStrList(serverPath))
	w("end Generated.KeepAlive\n")
	c.Lean["KeepAliveGen"] = b.String()
}

// kaGoroutine describes the goroutine body statement by statement (logger calls elided) and pulls
// out the translatable expressions.
func kaGoroutine(c *Ctx, fl *ast.FuncLit, bad func(string, ...any), timeout, timeoutSrc, tolerate, tolerateSrc, sentinel *string) []string {
	isLog := func(st ast.Stmt) bool {
		es, ok := st.(*ast.ExprStmt)
		return ok && strings.HasPrefix(c.Src(es.X), "logger.")
	}
	var out []string
	var tick *ast.CommClause
	for _, st := range fl.Body.List {
		fs, ok := st.(*ast.ForStmt)
		if !ok {
			out = append(out, c.Src(st))
			continue
		}
		// `for { select {…} }`, optionally with the cancellation test in front of the select
		// (`if ctx.Err() != nil { return }`: the cancellation wins over a tick that is pending)
		body := fs.Body.List
		pre := false
		if len(body) == 2 {
			if is, isif := body[0].(*ast.IfStmt); isif && is.Init == nil && is.Else == nil && c.Src(is.Cond) == "ctx.Err() != nil" && len(is.Body.List) == 1 {
				if rs, isret := is.Body.List[0].(*ast.ReturnStmt); isret && len(rs.Results) == 0 {
					pre, body = true, body[1:]
				}
			}
		}
		if fs.Init != nil || fs.Cond != nil || fs.Post != nil || len(body) != 1 {
			bad("loop is not `for { [if ctx.Err() != nil { return }] select {…} }`")
			out = append(out, "?"+c.Src(st))
			continue
		}
		sel, ok := body[0].(*ast.SelectStmt)
		if !ok {
			bad("loop body is not a select")
			out = append(out, "?"+c.Src(st))
			continue
		}
		if pre {
			out = append(out, "for { if ctx.Err() != nil { return }; select {")
		} else {
			out = append(out, "for { select {")
		}
		for _, cl := range sel.Body.List {
			cc := cl.(*ast.CommClause)
			if cc.Comm == nil {
				out = append(out, "default:")
				bad("select has a default case")
				continue
			}
			comm := c.Src(cc.Comm)
			out = append(out, "case "+comm+":")
			if comm == "<-ticker.C" {
				tick = cc
				continue
			}
			for _, b := range cc.Body {
				out = append(out, "  "+c.Src(b))
			}
		}
		out = append(out, "} }")
	}
	// no break/goto anywhere: every exit of the loop is a return (so the deferred ticker.Stop runs)
	ast.Inspect(fl.Body, func(n ast.Node) bool {
		if bs, ok := n.(*ast.BranchStmt); ok && bs.Tok != token.CONTINUE {
			bad("loop contains %s", bs.Tok)
		}
		return true
	})
	if tick == nil {
		bad("no `case <-ticker.C`")
		return out
	}
	out = append(out, "on tick:")
	env := map[string]string{"interval": "interval", "consecutiveFailures": "fails", "failureThreshold": "thr"}
	for _, st := range tick.Body {
		src := c.Src(st)
		switch s := st.(type) {
		case *ast.AssignStmt:
			if strings.HasPrefix(src, "pingCtx, pingCancel := context.WithTimeout(context.Background(), ") {
				ce := s.Rhs[0].(*ast.CallExpr)
				if t, ok := trExpr(c, env, ce.Args[1]); ok {
					*timeout, *timeoutSrc = t, c.Src(ce.Args[1])
				} else {
					bad("ping timeout not translatable: %s", c.Src(ce.Args[1]))
				}
				out = append(out, "  pingCtx, pingCancel := context.WithTimeout(context.Background(), <pingTimeout>)")
			} else {
				out = append(out, "  "+src)
			}
		case *ast.IfStmt:
			cond := c.Src(s.Cond)
			var body []string
			for _, b := range s.Body.List {
				if isLog(b) {
					continue
				}
				body = append(body, c.Src(b))
			}
			switch {
			case strings.HasPrefix(cond, "errors.Is(err, ") && s.Else == nil:
				*sentinel = strings.TrimSuffix(strings.TrimPrefix(cond, "errors.Is(err, "), ")")
				out = append(out, "  if errors.Is(err, <stopSentinel>) { "+strings.Join(body, "; ")+" }")
			case cond == "err == nil":
				out = append(out, "  if err == nil { "+strings.Join(body, "; ")+" }")
			default:
				if t, ok := trExpr(c, env, s.Cond); ok && s.Else == nil && strings.Contains(cond, "consecutiveFailures") {
					*tolerate, *tolerateSrc = t, cond
					out = append(out, "  if <tolerated> { "+strings.Join(body, "; ")+" }")
				} else {
					bad("unexpected test on the ping result: %s", cond)
					out = append(out, "  ?if "+cond+" { "+strings.Join(body, "; ")+" }")
				}
			}
		default:
			if isLog(st) {
				continue
			}
			out = append(out, "  "+src)
		}
	}
	return out
}

// kaClosePath classifies the top-level statements of (*recv).Close for KeepAlive.execClose:
// cancelKeepalive (`if x.keepaliveCancel != nil { x.keepaliveCancel() }`), connClose
// (`err := x.conn.Close()`), returnIfErr (`if err != nil { …return… }`), ret, mayReturn (any other
// statement with a return/goto/panic outside function literals), plain.
func kaClosePath(c *Ctx, recv string, bad func(string, ...any)) (acts, desc []string) {
	fd := c.Func("mcp", recv, "Close")
	if fd == nil || fd.Body == nil || fd.Recv == nil || len(fd.Recv.List) == 0 || len(fd.Recv.List[0].Names) == 0 {
		bad("mcp.(*%s).Close not found", recv)
		return []string{"ret"}, []string{"?"}
	}
	x := fd.Recv.List[0].Names[0].Name
	leaves := func(n ast.Node) bool {
		out := false
		ast.Inspect(n, func(m ast.Node) bool {
			switch v := m.(type) {
			case *ast.FuncLit:
				return false
			case *ast.ReturnStmt:
				out = true
			case *ast.BranchStmt:
				if v.Tok == token.GOTO {
					out = true
				}
			case *ast.CallExpr:
				switch c.Src(v.Fun) {
				case "panic", "os.Exit", "runtime.Goexit", "log.Fatal", "log.Fatalf":
					out = true
				}
			}
			return true
		})
		return out
	}
	for _, st := range fd.Body.List {
		src := c.Src(st)
		kind := "plain"
		switch s := st.(type) {
		case *ast.ReturnStmt:
			kind = "ret"
		case *ast.AssignStmt:
			if src == "err := "+x+".conn.Close()" || src == "err = "+x+".conn.Close()" {
				kind = "connClose"
			} else if leaves(st) {
				kind = "mayReturn"
			}
		case *ast.IfStmt:
			cond := c.Src(s.Cond)
			switch {
			case s.Init == nil && s.Else == nil && cond == x+".keepaliveCancel != nil" && len(s.Body.List) == 1 && c.Src(s.Body.List[0]) == x+".keepaliveCancel()":
				kind = "cancelKeepalive"
			case s.Init == nil && cond == "err != nil" && leaves(st):
				kind = "returnIfErr"
			case leaves(st):
				kind = "mayReturn"
			}
		default:
			if leaves(st) {
				kind = "mayReturn"
			}
		}
		if kind != "cancelKeepalive" && strings.Contains(src, "keepaliveCancel") {
			bad("(*%s).Close touches keepaliveCancel in an unexpected shape: %s", recv, src)
		}
		acts = append(acts, kind)
		if len(src) > 90 {
			src = src[:90] + "…"
		}
		desc = append(desc, kind+": "+src)
	}
	return acts, desc
}

// Lock discipline behind "the keep-alive of one session does not depend on what the handlers of another session
// do" (KeepAlive.ping_never_waits_for_a_handler): Server.mu / Client.mu is the one lock shared by ALL sessions of a
// Server / Client value, and every keep-alive ping takes it (handleSend -> sendingMethodHandler) AFTER its deadline
// has started to run. Recorded: the statements of the ping path's critical section, and every call made while the
// shared lock is held that reaches a user-supplied function (an option `opts.…Handler`, a feature's `handler`),
// directly or through functions of the package (by name, transitively).
func init() { reg(keepaliveLockExtract) }

func keepaliveLockExtract(c *Ctx) {
	shared := map[string]bool{"s.mu": true, "ss.server.mu": true, "c.mu": true, "cs.client.mu": true}
	owners := map[string]bool{"Server": true, "ServerSession": true, "Client": true, "ClientSession": true}
	isUser := func(fun ast.Expr) bool {
		e := c.Src(fun)
		return (strings.Contains(e, "opts.") && strings.HasSuffix(e, "Handler")) || e == "handler" || strings.HasSuffix(e, ".handler")
	}
	calleeName := func(fun ast.Expr) string {
		switch f := fun.(type) {
		case *ast.Ident:
			return f.Name
		case *ast.SelectorExpr:
			return f.Sel.Name
		case *ast.IndexExpr:
			if id, ok := f.X.(*ast.Ident); ok {
				return id.Name
			}
		}
		return ""
	}
	var decls []*ast.FuncDecl
	for _, f := range c.load("mcp") {
		for _, d := range f.Decls {
			if fd, ok := d.(*ast.FuncDecl); ok && fd.Body != nil {
				decls = append(decls, fd)
			}
		}
	}
	// functions of the package that reach a user-supplied function
	reaches := map[string]bool{}
	for changed := true; changed; {
		changed = false
		for _, fd := range decls {
			if reaches[fd.Name.Name] {
				continue
			}
			ast.Inspect(fd.Body, func(n ast.Node) bool {
				if ce, ok := n.(*ast.CallExpr); ok && (isUser(ce.Fun) || reaches[calleeName(ce.Fun)]) {
					reaches[fd.Name.Name] = true
				}
				return !reaches[fd.Name.Name]
			})
			changed = changed || reaches[fd.Name.Name]
		}
	}
	lockCall := func(st ast.Stmt, method string) (string, bool) {
		var ce *ast.CallExpr
		switch s := st.(type) {
		case *ast.ExprStmt:
			ce, _ = s.X.(*ast.CallExpr)
		case *ast.DeferStmt:
			ce = s.Call
		}
		if ce == nil {
			return "", false
		}
		sel, ok := ce.Fun.(*ast.SelectorExpr)
		if !ok || sel.Sel.Name != method || !shared[c.Src(sel.X)] {
			return "", false
		}
		return c.Src(sel.X), true
	}
	var userCalls []string
	regions := 0
	var scan func(name string, stmts []ast.Stmt, held bool) bool
	scan = func(name string, stmts []ast.Stmt, held bool) bool {
		for _, st := range stmts {
			if _, ok := lockCall(st, "Lock"); ok {
				if _, isDefer := st.(*ast.DeferStmt); !isDefer {
					held = true
					regions++
				}
				continue
			}
			if _, ok := lockCall(st, "Unlock"); ok {
				if _, isDefer := st.(*ast.DeferStmt); !isDefer {
					held = false
				}
				continue
			}
			if held {
				ast.Inspect(st, func(n ast.Node) bool {
					if _, ok := n.(*ast.FuncLit); ok {
						return false // defined here, not called here (a literal called at once is not used in these files)
					}
					if _, ok := n.(*ast.GoStmt); ok {
						return false // runs in another goroutine, without the lock
					}
					if ce, ok := n.(*ast.CallExpr); ok && (isUser(ce.Fun) || reaches[calleeName(ce.Fun)]) {
						userCalls = append(userCalls, name+": "+c.Src(ce.Fun))
					}
					return true
				})
				continue
			}
			// not held: lock regions may be nested in compound statements
			switch s := st.(type) {
			case *ast.BlockStmt:
				scan(name, s.List, false)
			case *ast.IfStmt:
				scan(name, s.Body.List, false)
				if b, ok := s.Else.(*ast.BlockStmt); ok {
					scan(name, b.List, false)
				}
			case *ast.ForStmt:
				scan(name, s.Body.List, false)
			case *ast.RangeStmt:
				scan(name, s.Body.List, false)
			case *ast.SwitchStmt:
				for _, cc := range s.Body.List {
					scan(name, cc.(*ast.CaseClause).Body, false)
				}
			case *ast.TypeSwitchStmt:
				for _, cc := range s.Body.List {
					scan(name, cc.(*ast.CaseClause).Body, false)
				}
			case *ast.SelectStmt:
				for _, cc := range s.Body.List {
					scan(name, cc.(*ast.CommClause).Body, false)
				}
			}
		}
		return held
	}
	for _, fd := range decls {
		file := c.Fset.Position(fd.Pos()).Filename
		if r := recvName(fd); owners[r] || strings.HasSuffix(file, "/server.go") || strings.HasSuffix(file, "/client.go") {
			scan(r+"."+fd.Name.Name, fd.Body.List, false)
			ast.Inspect(fd.Body, func(n ast.Node) bool { // closures of these methods are scanned as functions of their own
				if fl, ok := n.(*ast.FuncLit); ok {
					scan(r+"."+fd.Name.Name+".func", fl.Body.List, false)
				}
				return true
			})
		}
	}
	sort.Strings(userCalls)
	if userCalls == nil {
		userCalls = []string{}
	}
	c.Fact("keepalive.shared_mu.user_calls_under_lock", userCalls)
	c.Fact("keepalive.shared_mu.regions", regions)
	// the critical section of the ping path
	for _, r := range []string{"ServerSession", "ClientSession"} {
		var body []string
		if fd := c.Func("mcp", r, "sendingMethodHandler"); fd != nil && fd.Body != nil {
			for _, st := range fd.Body.List {
				body = append(body, c.Src(st))
			}
		} else {
			c.Errf("keepalive: %s.sendingMethodHandler not found", r)
		}
		c.Fact("keepalive.ping_path.lock."+r, body)
	}
	// and who calls it on the way of a ping: handleSend
	var hs []string
	for _, fd := range decls {
		if fd.Name.Name != "handleSend" {
			continue
		}
		ast.Inspect(fd.Body, func(n ast.Node) bool {
			if ce, ok := n.(*ast.CallExpr); ok && strings.HasSuffix(c.Src(ce.Fun), "sendingMethodHandler") {
				hs = append(hs, c.Src(ce))
			}
			return true
		})
	}
	c.Fact("keepalive.ping_path.handleSend", hs)

	var b strings.Builder
	fmt.Fprintf(&b, "namespace Generated.KeepAlive\n")
	fmt.Fprintf(&b, "/-- calls made while Server.mu / Client.mu (shared by all sessions, taken by every keep-alive ping) is held that reach a\nuser-supplied function, `<function>: <callee>`; %d lock regions of mcp/server.go and mcp/client.go scanned -/\n", regions)
	fmt.Fprintf(&b, "def userCallsUnderSharedLock : List String := %s\n", LeanStrList(userCalls))
	fmt.Fprintf(&b, "end Generated.KeepAlive\n")
	c.Lean["KeepAliveLockGen"] = b.String()
}
