package main

import (
	"fmt"
	"go/ast"
	"strings"
)

// Session-level close protocol (C05; Lean: McpModel/SessClose). Regenerates the two flags the theorems are
// conditional on — does the subscriptions/listen handler consult ss.closing under ss.mu, does Subscribe
// consult resourceSubsClosed under resourceSubsMu — and pins the statement order of the Close paths.
func init() { reg(sesscloseExtract) }

func sesscloseExtract(c *Ctx) {
	bad := func(format string, a ...any) { c.Errf("sessclose: "+format, a...) }
	norm := func(s string) string {
		lines := strings.Split(s, "\n")
		for i, l := range lines {
			lines[i] = strings.TrimSpace(l)
		}
		return strings.Join(lines, " ")
	}
	stmts := func(recv, name string) []string {
		fd := c.Func("mcp", recv, name)
		if fd == nil || fd.Body == nil {
			bad("%s.%s not found", recv, name)
			return nil
		}
		var out []string
		for _, st := range fd.Body.List {
			out = append(out, norm(c.Src(st)))
		}
		return out
	}
	// ---- server
	srvClose := stmts("ServerSession", "Close")
	c.Fact("sessclose.server_close", srvClose)
	// inside Close: closing = true precedes the hand-over of listenIDs, both between Lock and Unlock
	idx := func(l []string, sub string) int {
		for i, s := range l {
			if strings.Contains(s, sub) {
				return i
			}
		}
		return -1
	}
	closeSets := false
	{
		lk, cl, ids, nl, ul := idx(srvClose, "ss.mu.Lock()"), idx(srvClose, "ss.closing = true"), idx(srvClose, "ids := ss.listenIDs"),
			idx(srvClose, "ss.listenIDs = nil"), idx(srvClose, "ss.mu.Unlock()")
		closeSets = lk >= 0 && lk < cl && cl < ids && ids < nl && nl < ul
	}
	// the listen block of handle
	listenBlock := ""
	handlerChecks := false
	if fd := c.Func("mcp", "ServerSession", "handle"); fd != nil && fd.Body != nil {
		ast.Inspect(fd.Body, func(n ast.Node) bool {
			is, ok := n.(*ast.IfStmt)
			if !ok || listenBlock != "" {
				return true
			}
			if norm(c.Src(is.Cond)) != "req.Method == methodSubscriptionsListen" {
				return true
			}
			var b []string
			for _, st := range is.Body.List {
				b = append(b, norm(c.Src(st)))
			}
			listenBlock = strings.Join(b, " ; ")
			lk, rd, ap, ul, rt := idx(b, "ss.mu.Lock()"), idx(b, "closing := ss.closing"), idx(b, "if !closing { ss.listenIDs = append(ss.listenIDs, req.ID) }"),
				idx(b, "ss.mu.Unlock()"), idx(b, "if closing { return")
			handlerChecks = lk >= 0 && lk < rd && rd < ap && ap < ul && ul < rt
			return false
		})
	} else {
		bad("ServerSession.handle not found")
	}
	c.Fact("sessclose.server_listen_block", listenBlock)
	// ---- client
	cliClose := stmts("ClientSession", "Close")
	c.Fact("sessclose.client_close", cliClose)
	cancelAll := stmts("ClientSession", "cancelAllResourceSubscriptions")
	c.Fact("sessclose.client_cancel_all", cancelAll)
	cancelSets := false
	{
		lk, sb, nl, cl, ul := idx(cancelAll, "cs.resourceSubsMu.Lock()"), idx(cancelAll, "subs := cs.resourceSubs"), idx(cancelAll, "cs.resourceSubs = nil"),
			idx(cancelAll, "cs.resourceSubsClosed = true"), idx(cancelAll, "cs.resourceSubsMu.Unlock()")
		cancelSets = lk >= 0 && lk < sb && sb < nl && nl < cl && cl < ul
	}
	var locked []string
	subscribeChecks := false
	if fd := c.Func("mcp", "ClientSession", "Subscribe"); fd != nil && fd.Body != nil {
		in := false
		for _, st := range fd.Body.List {
			s := norm(c.Src(st))
			if s == "cs.resourceSubsMu.Lock()" {
				in = true
				continue
			}
			if s == "cs.resourceSubsMu.Unlock()" {
				break
			}
			if in {
				locked = append(locked, s)
			}
		}
		ck, ins := idx(locked, "if cs.resourceSubsClosed { cs.resourceSubsMu.Unlock() return"), idx(locked, "cs.resourceSubs[uri] = cancel")
		subscribeChecks = ck >= 0 && ck < ins
	} else {
		bad("ClientSession.Subscribe not found")
	}
	c.Fact("sessclose.client_subscribe_locked", locked)
	serverFlag, clientFlag := closeSets && handlerChecks, cancelSets && subscribeChecks
	c.Fact("sessclose.flags", map[string]bool{"close_sets_closing_before_handover": closeSets, "listen_handler_checks_closing": handlerChecks,
		"cancelAll_sets_closed": cancelSets, "subscribe_checks_closed": subscribeChecks})
	c.Lean["SessCloseGen"] = fmt.Sprintf(`namespace Generated.SessClose
/-- mcp/server.go: ServerSession.Close sets ss.closing under ss.mu before it takes ss.listenIDs, and the
subscriptions/listen block of ServerSession.handle reads ss.closing under the same lock and does not register
(it returns an error) when it is set. -/
def serverChecksClosing : Bool := %v
/-- mcp/client.go: cancelAllResourceSubscriptions sets cs.resourceSubsClosed under cs.resourceSubsMu, and
ClientSession.Subscribe returns an error under the same lock, before it adds a subscription, when it is set. -/
def clientChecksClosed : Bool := %v
end Generated.SessClose
`, serverFlag, clientFlag)
}
