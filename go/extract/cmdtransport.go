package main

import (
	"fmt"
	"go/ast"
	"strings"
)

// Engine cmdtransport (C05, stdio side): the constants and the statement order of pipeRWC.Close
// (mcp/cmd.go), CommandTransport.Connect's defaulting of TerminateDuration, and the select of Server.Run.
func init() {
	reg(func(c *Ctx) {
		ns, ok := c.ConstInt("mcp", "defaultTerminateDuration")
		if !ok {
			c.Errf("cmdtransport: defaultTerminateDuration is not a constant expression")
		}
		var stmts, labels []string
		termSkips, killReturns := false, false
		if fd := c.Func("mcp", "pipeRWC", "Close"); fd != nil && fd.Body != nil {
			for _, st := range fd.Body.List {
				src := c.Src(st)
				stmts = append(stmts, src)
				switch x := st.(type) {
				case *ast.GoStmt:
					if strings.Contains(src, "s.cmd.Wait()") {
						labels = append(labels, "spawnWait")
					} else {
						labels = append(labels, "go?")
					}
				case *ast.IfStmt:
					init := ""
					if x.Init != nil {
						init = c.Src(x.Init)
					}
					cond := c.Src(x.Cond)
					switch {
					case strings.Contains(init, "s.stdin.Close()"):
						labels = append(labels, "closeStdin")
					case strings.Contains(init, "wait()") && cond == "ok":
						labels = append(labels, "wait")
					case strings.Contains(init, "Signal(syscall.SIGTERM)"):
						labels = append(labels, "sigterm")
						termSkips = cond == "err == nil"
						for _, in := range x.Body.List {
							if is, ok := in.(*ast.IfStmt); ok && is.Init != nil && strings.Contains(c.Src(is.Init), "wait()") && c.Src(is.Cond) == "ok" {
								labels = append(labels, "wait")
							} else {
								labels = append(labels, "?"+c.Src(in))
							}
						}
					case strings.Contains(init, "Process.Kill()"):
						labels = append(labels, "kill")
						killReturns = cond == "err != nil" && len(x.Body.List) == 1 && c.Src(x.Body.List[0]) == "return err"
					default:
						labels = append(labels, "?"+src)
					}
				case *ast.ReturnStmt:
					if strings.Contains(src, "unresponsive subprocess") {
						labels = append(labels, "unresponsive")
					} else {
						labels = append(labels, "?"+src)
					}
				case *ast.AssignStmt:
					// resChan := make(chan error, 1) ; wait := func() (error, bool) {...}: no label of their own
					if !strings.HasPrefix(src, "resChan := make(chan error, 1)") && !strings.HasPrefix(src, "wait := func() (error, bool)") {
						labels = append(labels, "?"+src)
					}
				default:
					labels = append(labels, "?"+src)
				}
			}
		} else {
			c.Errf("cmdtransport: pipeRWC.Close not found")
		}
		c.Fact("cmdtransport.close_statements", stmts)
		c.Fact("cmdtransport.close_labels", labels)
		b := func(x bool) string {
			if x {
				return "true"
			}
			return "false"
		}
		c.Lean["CmdTransportGen"] = fmt.Sprintf("namespace Generated.CmdTransport\n/-- mcp/cmd.go `defaultTerminateDuration`, in nanoseconds -/\ndef defaultTerminateNanos : Nat := %d\n/-- the atomic sections of pipeRWC.Close in statement order -/\ndef closeLabels : List String := %s\n/-- `if err := Signal(SIGTERM); err == nil { wait }`: a failed SIGTERM skips the second wait -/\ndef termErrorSkipsWait : Bool := %s\n/-- `if err := Kill(); err != nil { return err }` -/\ndef killErrorReturns : Bool := %s\nend Generated.CmdTransport\n",
			ns, LeanStrList(labels), b(termSkips), b(killReturns))

		// CommandTransport.Connect: stdout wrapped in NopCloser, stdin pipe, Start, `if td <= 0 { td = default }`
		if fd := c.Func("mcp", "CommandTransport", "Connect"); fd != nil && fd.Body != nil {
			res := map[string]any{"stdout_nopcloser": false, "default_if": "", "returns": ""}
			for _, st := range fd.Body.List {
				src := c.Src(st)
				if src == "stdout = io.NopCloser(stdout)" {
					res["stdout_nopcloser"] = true
				}
				if is, ok := st.(*ast.IfStmt); ok && strings.Contains(src, "defaultTerminateDuration") {
					res["default_if"] = c.Src(is.Cond) + " {" + joinStmts(c, is.Body.List) + "}"
				}
				if rs, ok := st.(*ast.ReturnStmt); ok {
					res["returns"] = c.Src(rs)
				}
			}
			c.Fact("cmdtransport.connect", res)
		} else {
			c.Errf("cmdtransport: CommandTransport.Connect not found")
		}
		// the wait closure: one select over resChan and time.After(s.terminateDuration)
		if fd := c.Func("mcp", "pipeRWC", "Close"); fd != nil && fd.Body != nil {
			var cases []string
			ast.Inspect(fd.Body, func(n ast.Node) bool {
				if sel, ok := n.(*ast.SelectStmt); ok {
					for _, cl := range sel.Body.List {
						cc := cl.(*ast.CommClause)
						if cc.Comm == nil {
							cases = append(cases, "default")
						} else {
							cases = append(cases, c.Src(cc.Comm)+" {"+joinStmts(c, cc.Body)+"}")
						}
					}
				}
				return true
			})
			c.Fact("cmdtransport.wait_select", cases)
		}
		// Server.Run: the select between ctx.Done and the session's Wait
		if fd := c.Func("mcp", "Server", "Run"); fd != nil && fd.Body != nil {
			var cases []string
			ast.Inspect(fd.Body, func(n ast.Node) bool {
				if sel, ok := n.(*ast.SelectStmt); ok {
					for _, cl := range sel.Body.List {
						cc := cl.(*ast.CommClause)
						var body []string
						for _, st := range cc.Body {
							s := c.Src(st)
							if strings.Contains(s, "Logger") {
								continue
							}
							if is, ok := st.(*ast.IfStmt); ok && strings.Contains(c.Src(is.Body), "Logger") {
								continue
							}
							body = append(body, s)
						}
						if cc.Comm == nil {
							cases = append(cases, "default")
						} else {
							cases = append(cases, c.Src(cc.Comm)+" {"+strings.Join(body, "; ")+"}")
						}
					}
				}
				return true
			})
			c.Fact("cmdtransport.server_run_select", cases)
		} else {
			c.Errf("cmdtransport: Server.Run not found")
		}
		// StdioTransport.Connect: stdin / stdout with a no-op closer for stdout
		if fd := c.Func("mcp", "StdioTransport", "Connect"); fd != nil && fd.Body != nil {
			c.Fact("cmdtransport.stdio_connect", joinStmts(c, fd.Body.List))
		}
	})
}
