package main

import (
	"fmt"
	"go/ast"
	"go/token"
	"sort"
	"strconv"
	"strings"
)

// E6 `write` stream (C01, client side): streamableClientConn.Write — the statuses that start the authorization
// flow, the context every request of Write is bound to (the first POST and the one retried after a granted
// authorization), the context Authorize is given, and the order of the tests of checkResponse.
func init() {
	reg(func(c *Ctx) {
		var b strings.Builder
		b.WriteString("namespace Generated.ClientWrite\n")
		norm := func(n ast.Node) string { return strings.Join(strings.Fields(c.Src(n)), " ") }
		codes := map[string]int{"StatusUnauthorized": 401, "StatusForbidden": 403, "StatusProxyAuthRequired": 407, "StatusNotFound": 404,
			"StatusTooManyRequests": 429, "StatusInternalServerError": 500, "StatusBadGateway": 502, "StatusServiceUnavailable": 503, "StatusGatewayTimeout": 504}
		var auth []int
		var newReqCtx, doReqArgs, authorizeCtx []string
		doReqParam := ""
		fd := c.Func("mcp", "streamableClientConn", "Write")
		if fd == nil {
			c.Errf("clientstream: streamableClientConn.Write not found")
		} else {
			ast.Inspect(fd.Body, func(n ast.Node) bool {
				switch x := n.(type) {
				case *ast.IfStmt:
					if strings.Contains(norm(x.Cond), "oauthHandler != nil") {
						ast.Inspect(x.Cond, func(m ast.Node) bool {
							be, ok := m.(*ast.BinaryExpr)
							if ok && be.Op == token.EQL && strings.HasSuffix(c.Src(be.X), ".StatusCode") {
								if se, ok := be.Y.(*ast.SelectorExpr); ok {
									if v, ok := codes[se.Sel.Name]; ok {
										auth = append(auth, v)
									} else {
										c.Errf("clientstream: Write: unknown status name %s in the authorization test", se.Sel.Name)
									}
								}
							}
							return true
						})
					}
				case *ast.AssignStmt:
					// doRequest := func(<params>) ...
					if len(x.Lhs) == 1 && len(x.Rhs) == 1 && norm(x.Lhs[0]) == "doRequest" {
						if fl, ok := x.Rhs[0].(*ast.FuncLit); ok && fl.Type.Params != nil {
							for _, f := range fl.Type.Params.List {
								for _, nm := range f.Names {
									doReqParam = nm.Name
								}
							}
						}
					}
				case *ast.CallExpr:
					switch fn := norm(x.Fun); {
					case fn == "http.NewRequestWithContext" && len(x.Args) > 0:
						newReqCtx = append(newReqCtx, norm(x.Args[0]))
					case fn == "doRequest":
						var as []string
						for _, a := range x.Args {
							as = append(as, norm(a))
						}
						doReqArgs = append(doReqArgs, strings.Join(as, ", "))
					case strings.HasSuffix(fn, ".oauthHandler.Authorize") && len(x.Args) > 0:
						authorizeCtx = append(authorizeCtx, norm(x.Args[0]))
					}
				}
				return true
			})
		}
		sort.Ints(auth)
		as := make([]string, len(auth))
		for i, v := range auth {
			as[i] = strconv.Itoa(v)
		}
		if len(auth) == 0 {
			c.Errf("clientstream: Write: no `StatusCode == http.StatusX` test next to `oauthHandler != nil`")
		}
		fmt.Fprintf(&b, "/-- mcp/streamable.go streamableClientConn.Write: the statuses that start the authorization flow when an OAuthHandler is set -/\ndef authStatuses : List Nat := [%s]\n", strings.Join(as, ", "))
		// every request of Write is bound to the caller's ctx: either NewRequestWithContext names `ctx` itself (and
		// doRequest takes no context), or it names doRequest's parameter and every call of doRequest passes `ctx`
		bound := len(newReqCtx) > 0 && len(doReqArgs) > 0
		for _, x := range newReqCtx {
			if x == "ctx" && doReqParam != "ctx" {
				continue
			}
			if doReqParam != "" && x == doReqParam {
				for _, a := range doReqArgs {
					if a != "ctx" {
						bound = false
					}
				}
				continue
			}
			bound = false
		}
		fmt.Fprintf(&b, "/-- Write: every request it makes (`http.NewRequestWithContext` in doRequest, every call of doRequest) is bound to the\ncaller's `ctx` -/\ndef retryBoundToCaller : Bool := %v\n", bound)
		c.Fact("clientstream.write_request_contexts", map[string]any{"new_request": newReqCtx, "doRequest_param": doReqParam, "doRequest_args": doReqArgs})
		c.Fact("clientstream.write_authorize_ctx", authorizeCtx)

		// checkResponse: the order of its tests
		var order []string
		if cr := c.Func("mcp", "streamableClientConn", "checkResponse"); cr != nil {
			for _, st := range cr.Body.List {
				if is, ok := st.(*ast.IfStmt); ok {
					order = append(order, norm(is.Cond))
				}
			}
		} else {
			c.Errf("clientstream: checkResponse not found")
		}
		c.Fact("clientstream.checkResponse_tests", order)
		// connectStandaloneSSE: the status that means "no standalone stream here", and the order of its tests
		notOffered := 0
		var openTests []string
		if cs := c.Func("mcp", "streamableClientConn", "connectStandaloneSSE"); cs != nil {
			for _, st := range cs.Body.List {
				is, ok := st.(*ast.IfStmt)
				if !ok {
					continue
				}
				cond := norm(is.Cond)
				if is.Init != nil {
					cond = norm(is.Init) + "; " + cond
				}
				openTests = append(openTests, cond)
				if be, ok := is.Cond.(*ast.BinaryExpr); ok && be.Op == token.EQL && strings.HasSuffix(c.Src(be.X), ".StatusCode") && notOffered == 0 {
					if se, ok := be.Y.(*ast.SelectorExpr); ok && se.Sel.Name == "StatusMethodNotAllowed" {
						notOffered = 405
					}
				}
			}
		} else {
			c.Errf("clientstream: connectStandaloneSSE not found")
		}
		if notOffered == 0 {
			c.Errf("clientstream: connectStandaloneSSE has no `StatusCode == http.StatusMethodNotAllowed` test")
		}
		fmt.Fprintf(&b, "/-- connectStandaloneSSE: the status that means that the server does not offer the standalone stream -/\ndef standaloneNotOffered : Nat := %d\n", notOffered)
		c.Fact("clientstream.standalone_open_tests", openTests)
		// Close: the guards under which no DELETE is sent
		var closeGuards []string
		if cl := c.Func("mcp", "streamableClientConn", "Close"); cl != nil {
			ast.Inspect(cl.Body, func(n ast.Node) bool {
				is, ok := n.(*ast.IfStmt)
				if !ok || len(closeGuards) > 0 {
					return true
				}
				for cur := is; cur != nil; {
					closeGuards = append(closeGuards, norm(cur.Cond))
					next, ok := cur.Else.(*ast.IfStmt)
					if !ok {
						if cur.Else != nil {
							hasDelete := strings.Contains(c.Src(cur.Else), "http.MethodDelete")
							closeGuards = append(closeGuards, fmt.Sprintf("else: delete=%v", hasDelete))
						}
						break
					}
					cur = next
				}
				return false
			})
		} else {
			c.Errf("clientstream: Close not found")
		}
		c.Fact("clientstream.close_delete_guards", closeGuards)
		b.WriteString("end Generated.ClientWrite\n")
		c.Lean["ClientWriteGen"] = b.String()
	})
}
