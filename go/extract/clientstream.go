package main

import (
	"fmt"
	"go/ast"
	"go/constant"
	"go/token"
	"sort"
	"strconv"
	"strings"
)

// E6 (C09): SSE field names, the "message" event name, reconnect constants, the MaxRetries defaulting,
// the isTransientHTTPStatus table, and the shape of the consumer loop (which scanner processStream ranges
// over; whether handleSSE hands the previous cursor to processStream).
func init() {
	reg(func(c *Ctx) {
		var b strings.Builder
		b.WriteString("namespace Generated.ClientStream\n")
		bytesLit := func(s string) string {
			p := make([]string, len(s))
			for i := 0; i < len(s); i++ {
				p[i] = strconv.Itoa(int(s[i]))
			}
			return "[" + strings.Join(p, ", ") + "]"
		}

		// --- SSE field keys: the []byte("...") locals of scanEvents / scanEventsT
		keys := map[string]string{}
		for _, fn := range []string{"scanEventsT", "scanEvents"} {
			fd := c.Func("mcp", "", fn)
			if fd == nil {
				continue
			}
			ast.Inspect(fd.Body, func(n ast.Node) bool {
				vs, ok := n.(*ast.ValueSpec)
				if !ok {
					return true
				}
				for i, nm := range vs.Names {
					if i >= len(vs.Values) || !strings.HasSuffix(nm.Name, "Key") {
						continue
					}
					if ce, ok := vs.Values[i].(*ast.CallExpr); ok && len(ce.Args) == 1 {
						if lit, ok := ce.Args[0].(*ast.BasicLit); ok && lit.Kind == token.STRING {
							if s, err := strconv.Unquote(lit.Value); err == nil {
								if _, dup := keys[nm.Name]; !dup {
									keys[nm.Name] = s
								}
							}
						}
					}
				}
				return true
			})
		}
		for _, k := range []string{"eventKey", "idKey", "dataKey", "retryKey"} {
			v, ok := keys[k]
			if !ok {
				c.Errf("clientstream: scanEvents has no %s", k)
			}
			fmt.Fprintf(&b, "/-- mcp/event.go scanEvents `%s = []byte(%q)` -/\ndef %s : List UInt8 := %s\n", k, v, k, bytesLit(v))
		}
		c.Fact("clientstream.sse_keys", keys)

		// --- writeEvent: the literal pieces it writes (structural fact; the Lean writer is `key ++ \": \" ++ value`)
		var pieces []string
		if fd := c.Func("mcp", "", "writeEvent"); fd != nil {
			ast.Inspect(fd.Body, func(n ast.Node) bool {
				ce, ok := n.(*ast.CallExpr)
				if !ok {
					return true
				}
				name := ""
				switch f := ce.Fun.(type) {
				case *ast.SelectorExpr:
					name = f.Sel.Name
				}
				if name != "Fprintf" && name != "WriteString" {
					return true
				}
				for _, a := range ce.Args {
					if lit, ok := a.(*ast.BasicLit); ok && lit.Kind == token.STRING {
						if s, err := strconv.Unquote(lit.Value); err == nil {
							pieces = append(pieces, s)
						}
					}
				}
				return true
			})
		} else {
			c.Errf("clientstream: writeEvent not found")
		}
		c.Fact("clientstream.writeEvent_literals", pieces)

		// --- processStream: which scanner it ranges over; the default event name; order of the per-event steps
		scanner, msgName := "", ""
		var order []string
		psFn := c.Func("mcp", "streamableClientConn", "processStreamFrom") // after the cursor fix: the loop lives here
		if psFn == nil {
			psFn = c.Func("mcp", "streamableClientConn", "processStream")
		}
		if fd := psFn; fd != nil {
			ast.Inspect(fd.Body, func(n ast.Node) bool {
				switch x := n.(type) {
				case *ast.RangeStmt:
					if ce, ok := x.X.(*ast.CallExpr); ok {
						if id, ok := ce.Fun.(*ast.Ident); ok && scanner == "" {
							scanner = id.Name
						}
					}
				case *ast.BinaryExpr:
					if x.Op == token.NEQ && strings.HasSuffix(c.Src(x.X), ".Name") {
						if lit, ok := x.Y.(*ast.BasicLit); ok && lit.Kind == token.STRING {
							if s, err := strconv.Unquote(lit.Value); err == nil && s != "" {
								msgName = s
							}
						}
					}
				case *ast.AssignStmt:
					if len(x.Lhs) == 1 && c.Src(x.Lhs[0]) == "lastEventID" && strings.HasSuffix(c.Src(x.Rhs[0]), ".ID") {
						order = append(order, "set-last-id")
					}
					if len(x.Lhs) == 1 && c.Src(x.Lhs[0]) == "reconnectDelay" {
						order = append(order, "set-retry")
					}
				case *ast.CallExpr:
					if strings.HasSuffix(c.Src(x.Fun), "DecodeMessage") {
						order = append(order, "decode")
					}
				case *ast.SendStmt:
					if strings.HasSuffix(c.Src(x.Chan), ".incoming") {
						if strings.Contains(c.Src(x.Value), "errmsg") {
							order = append(order, "send-synthetic")
						} else {
							order = append(order, "forward")
						}
					}
				case *ast.UnaryExpr:
					if x.Op == token.NOT && strings.HasSuffix(c.Src(x.X), ".terminated") {
						order = append(order, "check-terminated")
					}
				}
				return true
			})
		} else {
			c.Errf("clientstream: processStream not found")
		}
		if msgName == "" {
			c.Errf("clientstream: default event name not found in processStream")
		}
		fmt.Fprintf(&b, "/-- mcp/streamable.go processStream: `evt.Name != %q` -/\ndef messageName : List UInt8 := %s\n", msgName, bytesLit(msgName))
		c.Fact("clientstream.process_scanner", scanner)
		c.Fact("clientstream.process_order", order)

		// --- handleSSE: does it hand the previous cursor to processStream? (resume cursor survives an event-less body)
		keep := false
		var hsOrder []string
		if fd := c.Func("mcp", "streamableClientConn", "handleSSE"); fd != nil {
			ast.Inspect(fd.Body, func(n ast.Node) bool {
				if ce, ok := n.(*ast.CallExpr); ok {
					switch {
					case strings.HasSuffix(c.Src(ce.Fun), ".processStream") || strings.HasSuffix(c.Src(ce.Fun), ".processStreamFrom"):
						hsOrder = append(hsOrder, "processStream")
						for _, a := range ce.Args {
							if c.Src(a) == "prevLastEventID" {
								keep = true
							}
						}
					case strings.HasSuffix(c.Src(ce.Fun), ".connectSSE"):
						hsOrder = append(hsOrder, "connectSSE")
					case strings.HasSuffix(c.Src(ce.Fun), ".checkResponse"):
						hsOrder = append(hsOrder, "checkResponse")
					}
				}
				return true
			})
		} else {
			c.Errf("clientstream: handleSSE not found")
		}
		c.Fact("clientstream.handleSSE_calls", hsOrder)
		fmt.Fprintf(&b, "/-- mcp/streamable.go handleSSE: processStream is given `prevLastEventID` (a resumed body without any\ncomplete event keeps the resume cursor) -/\ndef resumeKeepsCursor : Bool := %v\n", keep)

		// --- reconnect constants
		grow := c.ValueExpr("mcp", "reconnectGrowFactor")
		num, den := int64(0), int64(1)
		if grow == nil {
			c.Errf("clientstream: reconnectGrowFactor not found")
		} else if v, ok := c.Const("mcp", grow); ok {
			r := constant.ToFloat(v)
			n, d := constant.Num(r), constant.Denom(r)
			num, _ = constant.Int64Val(n)
			den, _ = constant.Int64Val(d)
		} else {
			c.Errf("clientstream: reconnectGrowFactor not constant")
		}
		maxDelay, ok := c.ConstInt("mcp", "reconnectMaxDelay")
		if !ok {
			c.Errf("clientstream: reconnectMaxDelay not constant")
		}
		initDelay := int64(-1)
		for _, f := range c.load("mcp") {
			for _, d := range f.Decls {
				fd, ok := d.(*ast.FuncDecl)
				if !ok || fd.Name.Name != "init" || fd.Recv != nil {
					continue
				}
				ast.Inspect(fd.Body, func(n ast.Node) bool {
					ce, ok := n.(*ast.CallExpr)
					if !ok || c.Src(ce.Fun) != "reconnectInitialDelay.Store" || len(ce.Args) != 1 {
						return true
					}
					arg := ce.Args[0]
					if conv, ok := arg.(*ast.CallExpr); ok && len(conv.Args) == 1 { // int64(...)
						arg = conv.Args[0]
					}
					if v, ok := c.Const("mcp", arg); ok {
						initDelay, _ = constant.Int64Val(constant.ToInt(v))
					}
					return true
				})
			}
		}
		if initDelay < 0 {
			c.Errf("clientstream: reconnectInitialDelay.Store(<const>) not found in init()")
		}
		fmt.Fprintf(&b, "/-- reconnectGrowFactor = %d/%d -/\ndef growNum : Nat := %d\ndef growDen : Nat := %d\n", num, den, num, den)
		fmt.Fprintf(&b, "/-- reconnectMaxDelay, ns -/\ndef maxDelayNs : Nat := %d\n/-- reconnectInitialDelay (init()), ns -/\ndef initialDelayNs : Nat := %d\n", maxDelay, initDelay)

		// --- MaxRetries defaulting in StreamableClientTransport.Connect:
		//     if maxRetries == 0 { maxRetries = D } else if maxRetries < 0 { maxRetries = Z }
		defD, defZ, shape := int64(-1), int64(-1), false
		if fd := c.Func("mcp", "StreamableClientTransport", "Connect"); fd != nil {
			ast.Inspect(fd.Body, func(n ast.Node) bool {
				is, ok := n.(*ast.IfStmt)
				if !ok || c.Src(is.Cond) != "maxRetries == 0" || len(is.Body.List) != 1 {
					return true
				}
				lit := func(s ast.Stmt) (int64, bool) {
					as, ok := s.(*ast.AssignStmt)
					if !ok || len(as.Lhs) != 1 || c.Src(as.Lhs[0]) != "maxRetries" || as.Tok != token.ASSIGN {
						return 0, false
					}
					v, ok := c.Const("mcp", as.Rhs[0])
					if !ok {
						return 0, false
					}
					return constant.Int64Val(constant.ToInt(v))
				}
				d, ok1 := lit(is.Body.List[0])
				els, ok2 := is.Else.(*ast.IfStmt)
				if !ok1 || !ok2 || c.Src(els.Cond) != "maxRetries < 0" || len(els.Body.List) != 1 || els.Else != nil {
					return true
				}
				z, ok3 := lit(els.Body.List[0])
				if ok3 {
					defD, defZ, shape = d, z, true
				}
				return true
			})
		}
		if !shape || defD < 0 || defZ < 0 {
			c.Errf("clientstream: MaxRetries defaulting in Connect has an unexpected shape")
			defD, defZ = 0, 0
		}
		fmt.Fprintf(&b, "/-- StreamableClientTransport.Connect: `if maxRetries == 0 { maxRetries = %d } else if maxRetries < 0 { maxRetries = %d }` -/\n", defD, defZ)
		fmt.Fprintf(&b, "def maxRetriesOf (field : Int) : Nat := if field = 0 then %d else if field < 0 then %d else field.toNat\n", defD, defZ)

		// --- isTransientHTTPStatus
		codes := map[string]int{"StatusInternalServerError": 500, "StatusNotImplemented": 501, "StatusBadGateway": 502, "StatusServiceUnavailable": 503,
			"StatusGatewayTimeout": 504, "StatusTooManyRequests": 429, "StatusRequestTimeout": 408, "StatusNotFound": 404, "StatusConflict": 409,
			"StatusTooEarly": 425, "StatusMethodNotAllowed": 405, "StatusBadRequest": 400, "StatusUnauthorized": 401, "StatusForbidden": 403}
		var trans []int
		if fd := c.Func("mcp", "", "isTransientHTTPStatus"); fd != nil {
			ast.Inspect(fd.Body, func(n ast.Node) bool {
				cc, ok := n.(*ast.CaseClause)
				if !ok {
					return true
				}
				for _, e := range cc.List {
					switch x := e.(type) {
					case *ast.SelectorExpr:
						if v, ok := codes[x.Sel.Name]; ok {
							trans = append(trans, v)
						} else {
							c.Errf("clientstream: isTransientHTTPStatus: unknown status name %s", x.Sel.Name)
						}
					case *ast.BasicLit:
						if v, err := strconv.Atoi(x.Value); err == nil {
							trans = append(trans, v)
						}
					default:
						c.Errf("clientstream: isTransientHTTPStatus: unexpected case %s", c.Src(e))
					}
				}
				return true
			})
		} else {
			c.Errf("clientstream: isTransientHTTPStatus not found")
		}
		sort.Ints(trans)
		ts := make([]string, len(trans))
		for i, v := range trans {
			ts[i] = strconv.Itoa(v)
		}
		fmt.Fprintf(&b, "/-- mcp/streamable.go isTransientHTTPStatus -/\ndef transientStatuses : List Nat := [%s]\n", strings.Join(ts, ", "))

		// --- checkResponse: the status that means "session gone"
		gone := 0
		if fd := c.Func("mcp", "streamableClientConn", "checkResponse"); fd != nil {
			ast.Inspect(fd.Body, func(n ast.Node) bool {
				be, ok := n.(*ast.BinaryExpr)
				if ok && be.Op == token.EQL && strings.HasSuffix(c.Src(be.X), ".StatusCode") {
					if se, ok := be.Y.(*ast.SelectorExpr); ok {
						if v, ok := codes[se.Sel.Name]; ok {
							gone = v
						}
					}
				}
				return true
			})
		}
		if gone == 0 {
			c.Errf("clientstream: checkResponse has no `StatusCode == http.StatusX` test")
		}
		fmt.Fprintf(&b, "/-- checkResponse: status reported as ErrSessionMissing -/\ndef sessionGoneStatus : Nat := %d\n", gone)
		// --- connectSSE: what ends the retry loop. The loop's select has the arms `<-c.done`, `<-ctx.Done()` (the
		//     CALLER's context) and `<-time.After(delay)`; the branch taken when `c.client.Do(req)` fails must not
		//     leave the loop on a property of the attempt's ERROR (every timeout of net and net/http answers
		//     errors.Is(err, context.DeadlineExceeded) while the caller's context is live).
		stopCanceled, stopDeadline, stopTimeout, stopOther := false, false, false, false
		var errBranch, errExits, selArms []string
		ctxArmReturns := ""
		foundDo := false
		norm := func(n ast.Node) string { return strings.Join(strings.Fields(c.Src(n)), " ") }
		var atoms func(e ast.Expr) []ast.Expr
		atoms = func(e ast.Expr) []ast.Expr {
			switch x := e.(type) {
			case *ast.ParenExpr:
				return atoms(x.X)
			case *ast.BinaryExpr:
				if x.Op == token.LOR {
					return append(atoms(x.X), atoms(x.Y)...)
				}
			}
			return []ast.Expr{e}
		}
		classify := func(cond ast.Expr) {
			for _, a := range atoms(cond) {
				switch src := norm(a); {
				case src == "errors.Is(err, context.Canceled)":
					stopCanceled = true
				case src == "errors.Is(err, context.DeadlineExceeded)":
					stopDeadline = true
				case strings.Contains(src, ".Timeout()") || strings.Contains(src, "os.IsTimeout("):
					stopTimeout = true
				case src == "ctx.Err() != nil":
					// the caller's context itself: a stop condition of the loop, not a property of the error
				default:
					stopOther = true
				}
			}
		}
		exits := func(n ast.Node) bool { // does n contain a return / break / goto?
			found := false
			ast.Inspect(n, func(m ast.Node) bool {
				switch y := m.(type) {
				case *ast.ReturnStmt:
					found = true
				case *ast.BranchStmt:
					if y.Tok == token.BREAK || y.Tok == token.GOTO {
						found = true
					}
				case *ast.FuncLit:
					return false
				}
				return true
			})
			return found
		}
		if fd := c.Func("mcp", "streamableClientConn", "connectSSE"); fd != nil {
			ast.Inspect(fd.Body, func(n ast.Node) bool {
				switch x := n.(type) {
				case *ast.SelectStmt:
					for _, st := range x.Body.List {
						cc, ok := st.(*ast.CommClause)
						if !ok || cc.Comm == nil {
							selArms = append(selArms, "default")
							continue
						}
						arm := norm(cc.Comm)
						selArms = append(selArms, arm)
						if arm == "<-ctx.Done()" {
							for _, b := range cc.Body {
								if r, ok := b.(*ast.ReturnStmt); ok {
									var rs []string
									for _, e := range r.Results {
										rs = append(rs, norm(e))
									}
									ctxArmReturns = strings.Join(rs, ", ")
								}
							}
						}
					}
				case *ast.BlockStmt, *ast.CommClause:
					var list []ast.Stmt
					if b, ok := x.(*ast.BlockStmt); ok {
						list = b.List
					} else {
						list = x.(*ast.CommClause).Body
					}
					for i := 0; i+1 < len(list); i++ {
						as, ok := list[i].(*ast.AssignStmt)
						if !ok || len(as.Rhs) != 1 {
							continue
						}
						ce, ok := as.Rhs[0].(*ast.CallExpr)
						if !ok || !strings.HasSuffix(c.Src(ce.Fun), ".client.Do") {
							continue
						}
						is, ok := list[i+1].(*ast.IfStmt)
						if !ok || norm(is.Cond) != "err != nil" {
							c.Errf("clientstream: connectSSE: `client.Do` is not followed by `if err != nil`")
							continue
						}
						foundDo = true
						for _, st := range is.Body.List {
							errBranch = append(errBranch, norm(st))
							switch y := st.(type) {
							case *ast.IfStmt:
								if exits(y) {
									errExits = append(errExits, norm(y.Cond))
									classify(y.Cond)
									if y.Else != nil {
										stopOther = true
									}
								}
							case *ast.BranchStmt:
								if y.Tok != token.CONTINUE {
									errExits = append(errExits, "unconditional "+y.Tok.String())
									stopOther = true
								}
							default:
								if exits(st) {
									errExits = append(errExits, "unconditional: "+norm(st))
									stopOther = true
								}
							}
						}
					}
				}
				return true
			})
		} else {
			c.Errf("clientstream: connectSSE not found")
		}
		if !foundDo {
			c.Errf("clientstream: connectSSE: `resp, err := c.client.Do(req)` followed by `if err != nil` not found")
			stopOther = true
		}
		if errExits == nil {
			errExits = []string{}
		}
		c.Fact("clientstream.connectSSE_err_branch", errBranch)
		c.Fact("clientstream.connectSSE_err_exits", errExits)
		c.Fact("clientstream.connectSSE_select", map[string]any{"arms": selArms, "ctx_done_returns": ctxArmReturns})
		// handleSSE: a failed connectSSE fails the connection iff the caller's context is live
		guard := ""
		if fd := c.Func("mcp", "streamableClientConn", "handleSSE"); fd != nil {
			ast.Inspect(fd.Body, func(n ast.Node) bool {
				b, ok := n.(*ast.BlockStmt)
				if !ok {
					return true
				}
				for i := 0; i+1 < len(b.List); i++ {
					as, ok := b.List[i].(*ast.AssignStmt)
					if !ok || len(as.Rhs) != 1 || !strings.HasSuffix(c.Src(as.Rhs[0].(ast.Expr)), ")") {
						continue
					}
					ce, ok := as.Rhs[0].(*ast.CallExpr)
					if !ok || !strings.HasSuffix(c.Src(ce.Fun), ".connectSSE") {
						continue
					}
					if is, ok := b.List[i+1].(*ast.IfStmt); ok && norm(is.Cond) == "err != nil" {
						var parts []string
						for _, st := range is.Body.List {
							if in, ok := st.(*ast.IfStmt); ok {
								callsFail := false
								ast.Inspect(in.Body, func(m ast.Node) bool {
									if c2, ok := m.(*ast.CallExpr); ok && strings.HasSuffix(c.Src(c2.Fun), ".fail") {
										callsFail = true
									}
									return true
								})
								if callsFail {
									parts = append(parts, "if "+norm(in.Cond)+" { c.fail }")
									continue
								}
							}
							parts = append(parts, norm(st))
						}
						guard = strings.Join(parts, "; ")
					}
				}
				return true
			})
		}
		c.Fact("clientstream.handleSSE_reconnect_failure", guard)
		fmt.Fprintf(&b, "/-- mcp/streamable.go connectSSE, the branch taken when `c.client.Do(req)` fails: the tests of the attempt's ERROR\nunder which the branch leaves the retry loop at once (as built: none — the loop stops on the CALLER's context,\n`c.done` and the budget only). `stopOnOtherTest`: an early exit the extractor cannot classify. -/\n")
		fmt.Fprintf(&b, "def stopOnIsCanceled : Bool := %v\ndef stopOnIsDeadline : Bool := %v\ndef stopOnTimeout : Bool := %v\ndef stopOnOtherTest : Bool := %v\n", stopCanceled, stopDeadline, stopTimeout, stopOther)
		hdr, _ := c.ConstString("mcp", "lastEventIDHeader")
		c.Fact("clientstream.last_event_id_header", hdr)
		b.WriteString("end Generated.ClientStream\n")
		c.Lean["ClientStreamGen"] = b.String()
	})
}
