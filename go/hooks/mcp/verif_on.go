// Copyright 2025 The Go MCP SDK Authors. All rights reserved.
// Use of this source code is governed by the license
// that can be found in the LICENSE file.

//go:build verif

package mcp

import "sync/atomic"

// verifYieldHook, when set, is called at the instrumented schedule points of
// the package (build tag "verif" only). It lets a verification harness hold a
// goroutine at a point that cannot be reached from outside, e.g. between a
// debounce timer firing and its callback taking the server lock.
var verifYieldHook atomic.Pointer[func(site, detail string)]

func verifYield(site, detail string) {
	if h := verifYieldHook.Load(); h != nil {
		(*h)(site, detail)
	}
}
