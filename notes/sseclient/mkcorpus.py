#!/usr/bin/env python3
"""Writes the hand-made corpus cases of engine sseclient (corpus/sseclient/*.ops).
One case per file: `scn ...` then the operations (see go/harness/mcp/zz_verif_sseclient_test.go)."""
import binascii, os, sys
hx = lambda s: binascii.hexlify(s.encode()).decode()
BASE = "http://verif.invalid/sse"
INIT = '{"jsonrpc":"2.0","id":1,"result":{"protocolVersion":"2024-11-05","capabilities":{"tools":{},"logging":{}},"serverInfo":{"name":"foreign","version":"0.1"}}}'
def payload(label):
    if label == "r0.ok": return INIT
    if label.startswith("r"):
        k = int(label[1:].split(".")[0])
        return '{"jsonrpc":"2.0","id":%d,"result":{"tools":[{"name":"t%d","inputSchema":{"type":"object"}}]}}' % (k + 1, k)
    if label.startswith("qi"):
        i, m = label[2:].split(".")
        meth = {"ping": "ping", "roots": "roots/list"}[m]
        return '{"jsonrpc":"2.0","id":%s,"method":"%s"}' % (i, meth)
    if label.startswith("n"):
        return '{"jsonrpc":"2.0","method":"notifications/message","params":{"level":"info","data":%s}}' % label[1:]
    raise SystemExit(label)
def item(label, lines, end="l"):
    return label + "~" + end + "~" + "|".join(hx(k) + "." + hx(p) + "." + hx(v) + "." + e for (k, p, v, e) in lines)
def size(lines, end="l"):
    return sum(len(k) + 1 + len(p) + len(v) + (2 if e == "c" else 1) for (k, p, v, e) in lines) + (2 if end == "c" else 1)
def ev(label, typ, data=None):
    ls = []
    if typ is not None: ls.append(("event", " ", typ, "l"))
    if data is None: data = payload(label)
    if data != "": ls.append(("data", " ", data, "l"))
    return (label, ls)
def case(name, comment, items, ops, term="eof"):
    """ops: 'connect' | ('feed', nItems) | ('feedbytes', n) | 'call k m' ..."""
    sizes = [size(ls) for (_, ls) in items]
    out, idx = [], 0
    for o in ops:
        if isinstance(o, tuple) and o[0] == "feed":
            n = sum(sizes[idx:idx + o[1]]); idx += o[1]
            out.append("feed %d %d" % (n, n))
        elif isinstance(o, tuple) and o[0] == "bytes":
            out.append("feed %d %d" % (o[1], o[1]))
        else:
            out.append(o)
    stream = ";".join(item(lb, ls) for (lb, ls) in items)
    text = "# %s\n# %s\nreset\nscn base=%s get=ok term=%s ok2xx=202 pst=- stream=%s\n%s\n" % (name, comment, hx(BASE), term, stream, "\n".join(out))
    open(os.path.join(sys.argv[1], name + ".ops"), "w").write(text)
EP = ev("ep", "endpoint", "/m")
R0 = ev("r0.ok", "message")
case("F40-ping-event", "F41 (sseclient-F40): a legal `event: ping` keep-alive with text data while a call is outstanding; before the repair the text reached DecodeMessage and the session was torn down",
     [EP, R0, ev("j", "ping", "keep-alive 17"), ev("r1.ok", "message")],
     ["connect", ("feed", 1), ("feed", 1), "call 1 list", ("feed", 1), ("feed", 1), "call 2 ping", "fin"])
case("F40-retry-only-event", "F41 (sseclient-F40): an event that only sets the reconnection time (`retry: 3000`): no data, not dispatched; before the repair an empty payload reached DecodeMessage",
     [EP, R0, ("c", [("retry", " ", "3000", "l")]), ev("r1.ok", None)],
     ["connect", ("feed", 1), ("feed", 1), "call 1 list", ("feed", 1), ("feed", 1), "fin"])
case("F40-id-only-before-initialize-response", "F41 (sseclient-F40): a priming event (`id: 7` alone) between the endpoint event and the initialize response; before the repair Client.Connect failed",
     [EP, ("c", [("id", " ", "7", "l")]), R0, ev("r1.ok", "message")],
     ["connect", ("feed", 1), ("feed", 1), ("feed", 1), "call 1 list", ("feed", 1), "fin"])
case("F40-request-inside-other-event-type", "F41 (sseclient-F40): JSON-RPC text inside an event of another type (`event: log`) is not a message; before the repair the request in it was answered and the notification handled",
     [EP, R0, ev("qi55.ping", "log"), ev("n5", "log"), ev("c", "endpoint", "/elsewhere"), ev("qi56.ping", "message")],
     ["connect", ("feed", 1), ("feed", 1), ("feed", 3), ("feed", 1), "fin"])
n_ep, n_q = size(EP[1]), size(ev("qi7.ping", None)[1])
case("F41-endpoint-and-request-in-one-read", "F42 (sseclient-F41): the endpoint event and a server ping arrive in ONE network read; before the repair the second scanner never saw the ping: unanswered on a usable connection",
     [EP, ev("qi7.ping", None), R0],
     ["connect", ("feed", 2), ("feed", 1), "fin"])
case("F41-request-split-by-the-endpoint-read", "F42 (sseclient-F41): the read that completes the endpoint event also carries the first 10 bytes of the next event; before the repair the pump saw the event without its head",
     [EP, ev("qi7.ping", None), R0],
     ["connect", ("bytes", n_ep + 10), ("bytes", n_q - 10), ("feed", 1), "fin"])
case("m11-unnamed-events", "seeded C01-m11 / C02-m11: a foreign server that relies on the SSE default event type (no `event:` line): its responses must complete the calls, its requests must be answered",
     [EP, ev("r0.ok", None), ev("qi3.roots", None), ev("r1.ok", None), ev("n1", None), ev("r2.ok", "message")],
     ["connect", ("feed", 1), ("feed", 1), "call 1 list", "call 2 ping", ("feed", 1), ("feed", 2), ("feed", 1), "fin"])
