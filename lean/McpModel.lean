-- Root of the `McpModel` library: imports every engine so `lake build` checks all theorems.
import McpModel.Base.Proto
import McpModel.EventStore.Props
import McpModel.EventStore.Driver
import McpModel.ClientStream.Props
import McpModel.ClientStream.AsBuilt
-- (McpModel.ClientStream.Driver defines its own top-level `main`; it is built by the lean_exe drv_clientstream)
