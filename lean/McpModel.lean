-- Root of the `McpModel` library: imports every engine's theorems so `lake build` checks them all.
-- (Driver modules define `main` and are built as lean_exe targets; they are not imported here.)
import McpModel.Base.Proto
import McpModel.EventStore.Props
import McpModel.Conn.Props
import McpModel.Conn.Deadlock
import McpModel.Conn.Variant
import McpModel.Conn.Bridge
import McpModel.Conn.Sound
import McpModel.SessClose.Props
import McpModel.Bearer.Props
import McpModel.KeepAlive.Props
import McpModel.KeepAlive.CloseProps
import McpModel.OAuth.Props
import McpModel.OAuth.Bridge
import McpModel.OAuth.Sound
import McpModel.OAuth.Challenge
import McpModel.Paginate.Props
import McpModel.Negotiate.Props
-- (Paginate/Negotiate drivers are roots of their own executables; two `main`s cannot be imported together)
import McpModel.TypedTool.Props
import McpModel.TypedTool.Bridge
import McpModel.TypedTool.Sound
import McpModel.Preflight.Props
import McpModel.Preflight.Sound
import McpModel.Preflight.Bridge
import McpModel.Notify.Props
import McpModel.ClientStream.Props
import McpModel.ClientStream.AsBuilt
import McpModel.ClientStream.Bridge
import McpModel.ClientStream.Sound
-- (McpModel.ClientStream.Driver defines its own top-level `main`; it is built by the lean_exe drv_clientstream)
import McpModel.Sessions.Props
import McpModel.Wire.Props
import McpModel.Gate.Props
import McpModel.Resume.Props
import McpModel.Resume.Witness
import McpModel.Resume.Accept08
import McpModel.Resume.Sound08
import McpModel.Resume.Purge
import McpModel.Resume.Window
import McpModel.Resume.Accept10
import McpModel.Resume.Sound10
import McpModel.Resume.WitnessBridge
import McpModel.Resume.HoldBridge
import McpModel.Resume.BatchBridge
import McpModel.Resume.Witness2
import McpModel.Order.Props
