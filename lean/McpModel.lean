-- Root of the `McpModel` library: imports every engine so `lake build` checks all theorems.
import McpModel.Base.Proto
import McpModel.EventStore.Props
import McpModel.EventStore.Driver
import McpModel.Paginate.Props
import McpModel.Negotiate.Props
-- (Paginate/Negotiate drivers are roots of their own executables; two `main`s cannot be imported together)
