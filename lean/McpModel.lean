-- Root of the `McpModel` library: imports every engine so `lake build` checks all theorems.
import McpModel.Base.Proto
import McpModel.EventStore.Props
import McpModel.EventStore.Driver
import McpModel.Resume.Props
import McpModel.Resume.Witness
import McpModel.Resume.Driver
