import McpModel.SessClose.Monitor
import McpModel.SessClose.Props
/-!
Theorems about the typed monitor of stream `sess` (lifecycle clauses of C05, `SessClose/Monitor.lean`):

* `sessMon_sound` — every clause the monitor reports is a real violation: the clause of the property
  it names is false on the record, with the numbers it quotes (per clause: `sound_s…`);
* `sessMon_complete` — the monitor reports nothing exactly when the record satisfies the whole
  lifecycle part of the property (`SessOK`): no clause is missed;
* `onClose_clauses_accept_model` — the two onClose clauses never fire on a record whose onClose
  counters are those of ANY run of the session-close model (`SessClose.srun`), i.e. on any behaviour
  the model allows (the other counters of the record have no counterpart in that model).
-/
namespace SessMon

theorem mem_sideChecks {hang pipe : Bool} {sd sd' : Side} {o : SideObs} {c : SClause}
    (h : c ∈ sideChecks hang pipe sd o) :
    o.connected = true ∧
    ((c = .tcNotOnce sd o.tc ∧ hang = false ∧ o.tc ≠ 1) ∨
     (c = .closedRunning sd o.runAtClose ∧ o.runAtClose ≠ 0) ∨
     (c = .halfOpen sd o.rc o.wc ∧ pipe = true ∧ hang = false ∧ o.tc ≠ 0 ∧ (o.rc = 0 ∨ o.wc = 0)) ∨
     (c = .onCloseTwice sd o.onClose ∧ 1 < o.onClose) ∨
     (c = .onCloseMissed sd ∧ o.closeReturned = true ∧ o.onClose = 0)) := by
  unfold sideChecks at h
  by_cases hc : o.connected = true
  · refine ⟨hc, ?_⟩
    simp only [hc, Bool.not_true, Bool.false_eq_true, if_false, List.mem_append] at h
    rcases h with (((h | h) | h) | h) | h
    · split at h
      · rename_i hx; simp at h hx; exact .inl ⟨h, hx.1, hx.2⟩
      · simp at h
    · split at h
      · rename_i hx; simp at h hx; exact .inr (.inl ⟨h, hx⟩)
      · simp at h
    · split at h
      · rename_i hx; simp at h hx; exact .inr (.inr (.inl ⟨h, hx.1.1.1, hx.1.1.2, hx.1.2, hx.2⟩))
      · simp at h
    · split at h
      · rename_i hx; simp at h; exact .inr (.inr (.inr (.inl ⟨h, hx⟩)))
      · simp at h
    · split at h
      · rename_i hx; simp at h hx; exact .inr (.inr (.inr (.inr ⟨h, hx.1, hx.2⟩)))
      · simp at h
  · simp [hc] at h

theorem sideChecks_holds {o : SessObs} {sd : Side} {c : SClause}
    (h : c ∈ sideChecks o.hang o.pipe sd (o.side sd)) : c.holdsOf o := by
  obtain ⟨hc, h⟩ := mem_sideChecks (sd' := sd) h
  rcases h with ⟨rfl, hh, hn⟩ | ⟨rfl, hn⟩ | ⟨rfl, hp, hh, ht, hr⟩ | ⟨rfl, hn⟩ | ⟨rfl, hr, hn⟩
  · exact ⟨fun P => hn (P hc hh), rfl⟩
  · exact ⟨fun P => hn (P hc), rfl⟩
  · refine ⟨fun P => ?_, rfl, rfl⟩
    have := P hc hp hh (Nat.pos_of_ne_zero ht)
    omega
  · exact ⟨fun P => by have := P hc; omega, rfl⟩
  · exact fun P => by have := P hc hr; omega

theorem mem_globalChecks {o : SessObs} {c : SClause} (h : c ∈ globalChecks o) :
    o.hang = false ∧
    ((c = .serverSessionsLeft o.serverSessions ∧ o.serverSessions ≠ 0) ∨
     (c = .clientSessionsLeft o.clientSessions ∧ o.clientSessions ≠ 0) ∨
     (c = .subsLeft o.subsLeft ∧ o.subsLeft ≠ 0)) := by
  unfold globalChecks at h
  by_cases hh : o.hang = true
  · simp [hh] at h
  · have hh' : o.hang = false := by simpa using hh
    refine ⟨hh', ?_⟩
    simp only [hh', Bool.false_eq_true, if_false, List.mem_append] at h
    rcases h with (h | h) | h
    · split at h
      · rename_i hx; simp at h hx; exact .inl ⟨h, hx⟩
      · simp at h
    · split at h
      · rename_i hx; simp at h hx; exact .inr (.inl ⟨h, hx⟩)
      · simp at h
    · split at h
      · rename_i hx; simp at h hx; exact .inr (.inr ⟨h, hx⟩)
      · simp at h

/-- **sessMon_sound.** Every clause the monitor reports holds of the record: the property clause it
names is violated, with the quoted numbers. -/
theorem sessMon_sound (o : SessObs) (c : SClause) (h : c ∈ sessMon o) : c.holdsOf o := by
  unfold sessMon at h
  simp only [List.mem_append] at h
  rcases h with ((h | h) | h) | h
  · exact sideChecks_holds h
  · exact sideChecks_holds h
  · obtain ⟨hh, h⟩ := mem_globalChecks h
    rcases h with ⟨rfl, hn⟩ | ⟨rfl, hn⟩ | ⟨rfl, hn⟩
    · exact ⟨fun P => hn (P hh).1, rfl, hn⟩
    · exact ⟨fun P => hn (P hh).2.1, rfl, hn⟩
    · exact ⟨fun P => hn (P hh).2.2, rfl, hn⟩
  · unfold runChecks at h
    split at h
    · rename_i hx
      simp only [Bool.and_eq_true, Bool.not_eq_true'] at hx
      simp only [List.mem_singleton] at h
      subst h
      intro P
      have := P hx.1.1 hx.1.2
      rw [hx.2] at this; cases this
    · simp at h

/-! per-clause corollaries (the form registered in engines/conn.json) -/

theorem sound_sClosedRunning (o : SessObs) (sd : Side) (n : Nat) (h : .closedRunning sd n ∈ sessMon o) :
    ¬ P_closedIdle (o.side sd) := (sessMon_sound o _ h).1
theorem sound_sTcNotOnce (o : SessObs) (sd : Side) (n : Nat) (h : .tcNotOnce sd n ∈ sessMon o) :
    ¬ P_tcOnce o.hang (o.side sd) := (sessMon_sound o _ h).1
theorem sound_sHalfOpen (o : SessObs) (sd : Side) (rc wc : Nat) (h : .halfOpen sd rc wc ∈ sessMon o) :
    ¬ P_bothHalves o.hang o.pipe (o.side sd) := (sessMon_sound o _ h).1
theorem sound_sOnCloseTwice (o : SessObs) (sd : Side) (n : Nat) (h : .onCloseTwice sd n ∈ sessMon o) :
    ¬ P_onCloseOnce (o.side sd) := (sessMon_sound o _ h).1
theorem sound_sOnCloseMissed (o : SessObs) (sd : Side) (h : .onCloseMissed sd ∈ sessMon o) :
    ¬ P_onCloseRan (o.side sd) := sessMon_sound o _ h
theorem sound_sRunNotReturned (o : SessObs) (h : .runNotReturned ∈ sessMon o) : ¬ P_runReturns o :=
  sessMon_sound o _ h
theorem sound_sNotRemoved (o : SessObs) (n : Nat)
    (h : .serverSessionsLeft n ∈ sessMon o ∨ .clientSessionsLeft n ∈ sessMon o ∨ .subsLeft n ∈ sessMon o) :
    ¬ P_removed o := by
  rcases h with h | h | h <;> exact (sessMon_sound o _ h).1

theorem ite_single_nil {α : Type} {c : Prop} [Decidable c] {x : α} : (if c then [x] else []) = [] ↔ ¬ c := by
  split <;> simp [*]

theorem sideChecks_nil_iff (hang pipe : Bool) (sd : Side) (o : SideObs) :
    sideChecks hang pipe sd o = [] ↔ SideOK hang pipe o := by
  unfold sideChecks SideOK P_tcOnce P_closedIdle P_bothHalves P_onCloseOnce P_onCloseRan
  by_cases hc : o.connected = true
  · simp only [hc, Bool.not_true, Bool.false_eq_true, if_false, List.append_eq_nil_iff, forall_const, ite_single_nil]
    cases hang <;> cases pipe <;> cases hr : o.closeReturned <;> simp <;> omega
  · have hc' : o.connected = false := by simpa using hc
    simp [hc']

theorem globalChecks_nil_iff (o : SessObs) : globalChecks o = [] ↔ P_removed o := by
  unfold globalChecks P_removed
  cases hh : o.hang
  · simp only [Bool.false_eq_true, if_false, List.append_eq_nil_iff, forall_const, ite_single_nil]
    simp; omega
  · simp

theorem runChecks_nil_iff (o : SessObs) : runChecks o = [] ↔ P_runReturns o := by
  unfold runChecks P_runReturns
  cases o.viaRun <;> cases o.hang <;> cases o.runReturned <;> simp

/-- **sessMon_complete.** The monitor is silent exactly on the records that satisfy the lifecycle part
of the property: it neither misses a violated clause nor invents one. -/
theorem sessMon_complete (o : SessObs) : sessMon o = [] ↔ SessOK o := by
  unfold sessMon SessOK
  simp only [List.append_eq_nil_iff, sideChecks_nil_iff, globalChecks_nil_iff, runChecks_nil_iff, SessObs.side, and_assoc]

/-- Non-vacuity: a clean record, and one record per clause on which exactly that clause fires. -/
def okSide : SideObs := { connected := true, tc := 1, rc := 1, wc := 1, onClose := 1, closeReturned := true }
example : sessMon { pipe := true, client := okSide, server := okSide } = [] := by decide
example : SessOK { pipe := true, client := okSide, server := okSide } := (sessMon_complete _).mp (by decide)
example : sessMon { client := okSide, server := { okSide with runAtClose := 1 } } = [.closedRunning .server 1] := by decide
example : sessMon { pipe := true, client := okSide, server := { okSide with rc := 0 } } = [.halfOpen .server 0 1] := by decide
example : sessMon { client := { okSide with tc := 2 }, server := okSide } = [.tcNotOnce .client 2] := by decide
example : sessMon { client := okSide, server := { okSide with onClose := 2 } } = [.onCloseTwice .server 2] := by decide
example : sessMon { client := okSide, server := { okSide with onClose := 0 } } = [.onCloseMissed .server] := by decide
example : sessMon { client := okSide, server := okSide, serverSessions := 1 } = [.serverSessionsLeft 1] := by decide
example : sessMon { client := okSide, server := okSide, viaRun := true } = [.runNotReturned] := by decide
example : sessMon { client := okSide, server := okSide, viaRun := true, runReturned := true } = [] := by decide

/-- **onClose_clauses_accept_model.** On any record whose server-side onClose counters are those of a
state the session-close model reaches (`SessClose.srun`, any number of concurrent Close calls, with or
without the closing check), neither onClose clause fires. -/
theorem onClose_clauses_accept_model (checks : Bool) (ls : List SessClose.SLabel) (s : SessClose.Srv)
    (h : SessClose.srun checks {} ls = some s) (o : SessObs)
    (h1 : o.server.onClose = s.onCloseCalls) (h2 : o.server.closeReturned = s.calledOnClose) (n : Nat) :
    SClause.onCloseTwice .server n ∉ sessMon o ∧ SClause.onCloseMissed .server ∉ sessMon o := by
  have once := (SessClose.sinv_run ls (SessClose.sinv_init checks) h).once
  constructor
  · intro hm
    have := (sessMon_sound o _ hm).1
    apply this
    intro _
    show o.server.onClose ≤ 1
    rw [h1, once]; split <;> omega
  · intro hm
    have := sessMon_sound o _ hm
    apply this
    intro _ hr
    show 0 < o.server.onClose
    have hr' : o.server.closeReturned = true := hr
    rw [h2] at hr'
    rw [h1, once, hr']; simp

end SessMon
