/-
Session-level close protocol of `mcp.ServerSession` and `mcp.ClientSession` (C05 mechanism "session
Close: stop keepalive, cancel listens/subscriptions, close conn, onClose once"): what must be cancelled
*before* `conn.Close()` so that the jsonrpc2 drain (modelled in `McpModel.Conn`) can finish, and why a
long-parked `subscriptions/listen` can neither survive nor slip in behind a Close.

One label = one critical section under `ss.mu` / `cs.resourceSubsMu`, or one lock-free step between them.
The two flags `serverChecksClosing` / `clientChecksClosed` are REGENERATED from the source
(`Generated/SessCloseGen.lean`): they say whether the handler / Subscribe consult the closing flag under
the same lock in which Close sets it (the F25 / F24 repairs). Core Lean only.
-/
namespace SessClose

/-! ## server side: `ServerSession.handle` (listen registration) against `ServerSession.Close` -/

structure Srv where
  closing : Bool := false            -- ss.closing (set by Close under ss.mu)
  listenIDs : List Nat := []         -- ss.listenIDs: parked listens a future Close must cancel
  queued : List Nat := []            -- listen requests read but not yet dispatched to `handle`
  parked : List Nat := []            -- listen handlers blocked on <-ctx.Done()
  refused : List Nat := []           -- listen requests answered "session is closing"
  toCancel : List (List Nat) := []   -- per Close call that passed its critical section: ids still to cancel
  cancelled : List Nat := []         -- ids whose context was cancelled (conn.Cancel)
  returned : List Nat := []          -- listen handlers that have returned
  keepaliveStops : Nat := 0
  connCloseCalls : Nat := 0          -- Close calls that have reached conn.Close()
  onCloseCalls : Nat := 0
  calledOnClose : Bool := false
deriving Repr, Inhabited, DecidableEq

inductive SLabel where
  | arrive (id : Nat)        -- the reader accepts a subscriptions/listen call
  | dispatch                 -- the dispatcher hands the oldest queued listen to `handle` (critical section under ss.mu)
  | closeBegin               -- Close: keepaliveCancel(); lock; closing := true; ids := listenIDs; listenIDs := nil; unlock
  | closeCancel (k : Nat)    -- Close number k: conn.Cancel(id) for its first remaining id
  | ctxDone (id : Nat)       -- a parked handler sees its cancelled context and returns
  | connClose (k : Nat)      -- Close number k has cancelled all its ids and calls conn.Close()
  | onClose                  -- after conn.Close() returned: CompareAndSwap(false,true) then onClose()
deriving Repr, DecidableEq

/-- `checks` = the handler consults `ss.closing` under `ss.mu` (regenerated flag). -/
def sstep (checks : Bool) (s : Srv) : SLabel → Option Srv
  | .arrive id =>
    if id ∈ s.queued ∨ id ∈ s.parked ∨ id ∈ s.refused ∨ id ∈ s.returned then none
    else some { s with queued := s.queued ++ [id] }
  | .dispatch =>
    match s.queued with
    | [] => none
    | id :: rest =>
      if checks && s.closing then some { s with queued := rest, refused := s.refused ++ [id] }
      else if id ∈ s.cancelled then
        -- registered, but its context is already cancelled: the handler returns at once
        some { s with queued := rest, listenIDs := s.listenIDs ++ [id], returned := s.returned ++ [id] }
      else some { s with queued := rest, listenIDs := s.listenIDs ++ [id], parked := s.parked ++ [id] }
  | .closeBegin =>
    some { s with closing := true, keepaliveStops := s.keepaliveStops + 1,
                  toCancel := s.toCancel ++ [s.listenIDs], listenIDs := [] }
  | .closeCancel k =>
    match s.toCancel[k]? with
    | some (id :: rest) => some { s with toCancel := s.toCancel.set k rest, cancelled := s.cancelled ++ [id] }
    | _ => none
  | .ctxDone id =>
    if id ∈ s.parked ∧ id ∈ s.cancelled then
      some { s with parked := s.parked.erase id, returned := s.returned ++ [id] }
    else none
  | .connClose k =>
    match s.toCancel[k]? with
    | some [] => some { s with connCloseCalls := s.connCloseCalls + 1 }
    | _ => none
  | .onClose =>
    -- conn.Close() returns only when nothing is in flight: no parked and no queued listen
    if s.connCloseCalls = 0 ∨ s.parked ≠ [] ∨ s.queued ≠ [] then none
    else if s.calledOnClose then some s
    else some { s with calledOnClose := true, onCloseCalls := s.onCloseCalls + 1 }

def srun (checks : Bool) (s : Srv) : List SLabel → Option Srv
  | [] => some s
  | l :: ls => match sstep checks s l with
    | none => none
    | some s' => srun checks s' ls

/-! ## client side: `ClientSession.Subscribe` (2026-07-28: opens a listen stream) against `ClientSession.Close` -/

structure Cli where
  closed : Bool := false              -- cs.resourceSubsClosed
  subs : List (Nat × Nat) := []       -- cs.resourceSubs: uri ↦ the listen stream (its cancel func) that Close must cancel
  streams : List Nat := []            -- listen goroutines (callSubscriptionsListen) that are running, by stream number
  next : Nat := 0                     -- next stream number
  refused : List Nat := []            -- uris whose Subscribe was refused because the session is closed
  toCancel : List (List Nat) := []    -- per Close call: streams still to cancel
  cancelled : List Nat := []          -- streams whose context was cancelled
  ended : List Nat := []
  connCloseCalls : Nat := 0
deriving Repr, Inhabited, DecidableEq

inductive CLabel where
  | subscribe (uri : Nat)     -- critical section of Subscribe under resourceSubsMu (+ spawn of the listen stream)
  | unsubscribe (uri : Nat)   -- critical section of Unsubscribe, then cancel()
  | closeBegin                -- cancelAllResourceSubscriptions: lock; subs := nil; closed := true; unlock
  | closeCancel (k : Nat)     -- Close number k: cancel() of its first remaining stream
  | streamEnds (sid : Nat)    -- the listen goroutine sees its cancelled context, retires its call and exits
  | connClose (k : Nat)       -- Close number k has cancelled everything and calls conn.Close()
deriving Repr, DecidableEq

/-- `checks` = Subscribe consults `resourceSubsClosed` under `resourceSubsMu` (regenerated flag). -/
def cstep (checks : Bool) (s : Cli) : CLabel → Option Cli
  | .subscribe u =>
    if checks && s.closed then some { s with refused := s.refused ++ [u] }
    else if (s.subs.lookup u).isSome then some s            -- already subscribed: no new stream
    else some { s with subs := s.subs ++ [(u, s.next)], streams := s.streams ++ [s.next], next := s.next + 1 }
  | .unsubscribe u =>
    match s.subs.lookup u with
    | some sid => some { s with subs := s.subs.filter (fun p => !decide (p.1 = u)), cancelled := s.cancelled ++ [sid] }
    | none => some s
  | .closeBegin => some { s with closed := true, toCancel := s.toCancel ++ [s.subs.map (·.2)], subs := [] }
  | .closeCancel k =>
    match s.toCancel[k]? with
    | some (sid :: rest) => some { s with toCancel := s.toCancel.set k rest, cancelled := s.cancelled ++ [sid] }
    | _ => none
  | .streamEnds sid =>
    if sid ∈ s.streams ∧ sid ∈ s.cancelled then some { s with streams := s.streams.erase sid, ended := s.ended ++ [sid] }
    else none
  | .connClose k =>
    match s.toCancel[k]? with
    | some [] => some { s with connCloseCalls := s.connCloseCalls + 1 }
    | _ => none

def crun (checks : Bool) (s : Cli) : List CLabel → Option Cli
  | [] => some s
  | l :: ls => match cstep checks s l with
    | none => none
    | some s' => crun checks s' ls

end SessClose
