import McpModel.SessClose.Model
import McpModel.Generated.SessCloseGen
/-!
Theorems about the session-level close protocol (C05): for ALL label lists.
The flags `Generated.SessClose.serverChecksClosing` / `clientChecksClosed` are regenerated from the source;
the theorems need them to be `true` (`decide` on the regenerated constant): remove the check from the code
and these proofs no longer check.
-/
namespace SessClose

def inSome (ll : List (List Nat)) (id : Nat) : Prop := ∃ (k : Nat) (l : List Nat), ll[k]? = some l ∧ id ∈ l

theorem inSome_append {ll : List (List Nat)} {l : List Nat} {id : Nat} :
    inSome (ll ++ [l]) id ↔ inSome ll id ∨ id ∈ l := by
  constructor
  · rintro ⟨k, l', hk, hm⟩
    by_cases h : k < ll.length
    · rw [List.getElem?_append_left h] at hk; exact Or.inl ⟨k, l', hk, hm⟩
    · have hk' := (List.getElem?_eq_some_iff.mp hk).1
      simp at hk'
      have : k = ll.length := by omega
      subst this; simp at hk; subst hk; exact Or.inr hm
  · rintro (⟨k, l', hk, hm⟩ | hm)
    · have := (List.getElem?_eq_some_iff.mp hk).1
      exact ⟨k, l', by rw [List.getElem?_append_left this]; exact hk, hm⟩
    · exact ⟨ll.length, l, by simp, hm⟩

theorem inSome_set_tail {ll : List (List Nat)} {k : Nat} {x : Nat} {rest : List Nat} (hk : ll[k]? = some (x :: rest))
    {id : Nat} (h : inSome ll id) : inSome (ll.set k rest) id ∨ id = x := by
  obtain ⟨j, l, hj, hm⟩ := h
  by_cases hjk : j = k
  · subst hjk
    rw [hk] at hj; cases hj
    rcases List.mem_cons.mp hm with rfl | hm
    · exact Or.inr rfl
    · refine Or.inl ⟨j, rest, ?_, hm⟩
      have := (List.getElem?_eq_some_iff.mp hk).1
      simp [List.getElem?_set, this]
  · refine Or.inl ⟨j, l, ?_, hm⟩
    rw [List.getElem?_set]; simp [Ne.symm hjk, hj]

/-! ## server -/

structure SInv (checks : Bool) (s : Srv) : Prop where
  /-- every parked listen is tracked: a future Close will pick it up, a Close in progress will cancel it,
  or it has been cancelled already -/
  tracked : ∀ id ∈ s.parked, id ∈ s.listenIDs ∨ id ∈ s.cancelled ∨ inSome s.toCancel id
  /-- with the closing check, nothing registers after Close's critical section -/
  none_after : checks = true → s.closing = true → s.listenIDs = []
  once : s.onCloseCalls = if s.calledOnClose then 1 else 0

theorem sinv_init (checks : Bool) : SInv checks {} := ⟨by simp, by simp, by simp⟩

theorem sinv_step {checks : Bool} {s s' : Srv} {l : SLabel} (i : SInv checks s) (h : sstep checks s l = some s') :
    SInv checks s' := by
  cases l <;> simp only [sstep] at h
  case arrive id =>
    split at h
    · cases h
    · cases h; exact ⟨i.tracked, i.none_after, i.once⟩
  case dispatch =>
    split at h
    · cases h
    · rename_i id rest hq
      split at h
      · cases h; exact ⟨i.tracked, i.none_after, i.once⟩
      · rename_i hc
        have hnc : checks = true → s.closing = false := by
          intro hch; cases hcl : s.closing
          · rfl
          · simp [hch, hcl] at hc
        split at h <;> cases h
        · refine ⟨fun x hx => ?_, fun hch hcl => ?_, i.once⟩
          · rcases i.tracked x hx with h1 | h1 | h1
            · exact Or.inl (by simp [h1])
            · exact Or.inr (Or.inl h1)
            · exact Or.inr (Or.inr h1)
          · have := hnc hch; simp [this] at hcl
        · refine ⟨fun x hx => ?_, fun hch hcl => ?_, i.once⟩
          · simp only [List.mem_append, List.mem_singleton] at hx
            rcases hx with hx | rfl
            · rcases i.tracked x hx with h1 | h1 | h1
              · exact Or.inl (by simp [h1])
              · exact Or.inr (Or.inl h1)
              · exact Or.inr (Or.inr h1)
            · exact Or.inl (by simp)
          · have := hnc hch; simp [this] at hcl
  case closeBegin =>
    cases h
    refine ⟨fun x hx => ?_, fun _ _ => rfl, i.once⟩
    rcases i.tracked x hx with h1 | h1 | h1
    · exact Or.inr (Or.inr (inSome_append.mpr (Or.inr h1)))
    · exact Or.inr (Or.inl h1)
    · exact Or.inr (Or.inr (inSome_append.mpr (Or.inl h1)))
  case closeCancel k =>
    split at h
    · rename_i id rest hk
      cases h
      refine ⟨fun x hx => ?_, i.none_after, i.once⟩
      rcases i.tracked x hx with h1 | h1 | h1
      · exact Or.inl h1
      · exact Or.inr (Or.inl (by simp [h1]))
      · rcases inSome_set_tail hk h1 with h2 | rfl
        · exact Or.inr (Or.inr h2)
        · exact Or.inr (Or.inl (by simp))
    · cases h
  case ctxDone id =>
    split at h
    · cases h
      exact ⟨fun x hx => i.tracked x (List.mem_of_mem_erase hx), i.none_after, i.once⟩
    · cases h
  case connClose k =>
    split at h
    · cases h; exact ⟨i.tracked, i.none_after, i.once⟩
    · cases h
  case onClose =>
    split at h
    · cases h
    · split at h <;> cases h
      · exact i
      · rename_i hc
        refine ⟨i.tracked, i.none_after, ?_⟩
        have := i.once
        simp only [Bool.not_eq_true] at hc
        simp [hc] at this ⊢; omega

theorem sinv_run {checks : Bool} {s s' : Srv} (ls : List SLabel) (i : SInv checks s) (h : srun checks s ls = some s') :
    SInv checks s' := by
  induction ls generalizing s with
  | nil => simp [srun] at h; exact h ▸ i
  | cons l ls ih =>
    simp only [srun] at h
    split at h
    · cases h
    · rename_i s1 h1; exact ih (sinv_step i h1) h

/-- The regenerated flags: the handler checks `ss.closing`, Subscribe checks `resourceSubsClosed`. -/
theorem server_checks_closing : Generated.SessClose.serverChecksClosing = true := by decide
theorem client_checks_closed : Generated.SessClose.clientChecksClosed = true := by decide

/-- **close_unblocks_every_listen.** After `ServerSession.Close` has passed its critical section, every
parked `subscriptions/listen` handler has been cancelled or is in the list some Close call is still
working through — so each of them returns, for ALL interleavings of arrivals, dispatches and Close calls
(also several concurrent Close calls, also listens that were queued behind another handler when Close
began: those are refused at dispatch). -/
theorem close_unblocks_every_listen (ls : List SLabel) (s : Srv)
    (h : srun Generated.SessClose.serverChecksClosing {} ls = some s) (hc : s.closing = true) :
    ∀ id ∈ s.parked, id ∈ s.cancelled ∨ inSome s.toCancel id := by
  have i := sinv_run ls (sinv_init _) h
  intro id hid
  have hnil := i.none_after server_checks_closing hc
  rcases i.tracked id hid with h1 | h1
  · rw [hnil] at h1; cases h1
  · exact h1

/-- **close_drain_progress.** While Close is in progress and a listen is still parked or queued, one of the
steps that empties them is enabled: the drain that `conn.Close()` waits for cannot get stuck. -/
theorem close_drain_progress (ls : List SLabel) (s : Srv)
    (h : srun Generated.SessClose.serverChecksClosing {} ls = some s) (hc : s.closing = true)
    (hw : s.parked ≠ [] ∨ s.queued ≠ []) :
    (sstep Generated.SessClose.serverChecksClosing s .dispatch).isSome = true ∨
    (∃ k, (sstep Generated.SessClose.serverChecksClosing s (.closeCancel k)).isSome = true) ∨
    (∃ id, (sstep Generated.SessClose.serverChecksClosing s (.ctxDone id)).isSome = true) := by
  by_cases hq : s.queued = []
  · have hp : s.parked ≠ [] := by rcases hw with h1 | h1; exact h1; exact absurd hq h1
    obtain ⟨id, hid⟩ := List.exists_mem_of_ne_nil _ hp
    rcases close_unblocks_every_listen ls s h hc id hid with h1 | ⟨k, l, hk, hm⟩
    · exact Or.inr (Or.inr ⟨id, by simp [sstep, hid, h1]⟩)
    · refine Or.inr (Or.inl ⟨k, ?_⟩)
      cases l with
      | nil => cases hm
      | cons x rest => simp [sstep, hk]
  · left
    cases hqq : s.queued with
    | nil => exact absurd hqq hq
    | cons id rest =>
      simp only [sstep, hqq]
      split
      · rfl
      · split <;> rfl

theorem sum_set_tail (ll : List (List Nat)) (k : Nat) (x : Nat) (rest : List Nat) (hk : ll[k]? = some (x :: rest)) :
    (List.map List.length (ll.set k rest)).sum + 1 = (List.map List.length ll).sum := by
  induction ll generalizing k with
  | nil => simp at hk
  | cons a t ih =>
    cases k with
    | zero => simp at hk; subst hk; simp [List.set]; omega
    | succ k =>
      simp at hk
      have := ih k hk
      simp [List.set] at this ⊢; omega

/-- Measure of the work Close still has to wait for. -/
def smu (s : Srv) : Nat := 2 * s.queued.length + s.parked.length + (s.toCancel.map List.length).sum

/-- **close_drain_terminates.** With the closing check, while Close is in progress each of the draining
steps strictly decreases the measure (a dispatched listen is refused, not parked). -/
theorem close_drain_decreases (s s' : Srv) (l : SLabel) (hc : s.closing = true)
    (hl : l = .dispatch ∨ (∃ k, l = .closeCancel k) ∨ (∃ id, l = .ctxDone id))
    (h : sstep true s l = some s') : smu s' < smu s ∧ s'.closing = true := by
  rcases hl with rfl | ⟨k, rfl⟩ | ⟨id, rfl⟩ <;> simp only [sstep] at h
  · split at h
    · cases h
    · rename_i id rest hq
      simp [hc] at h; subst h
      refine ⟨?_, rfl⟩
      simp [smu, hq]
  · split at h
    · rename_i id rest hk
      cases h
      refine ⟨?_, hc⟩
      have hlen := (List.getElem?_eq_some_iff.mp hk).1
      have : (List.map List.length (s.toCancel.set k rest)).sum + 1 = (List.map List.length s.toCancel).sum :=
        sum_set_tail s.toCancel k id rest hk
      simp only [smu]; omega
    · cases h
  · split at h
    · rename_i hm
      cases h
      refine ⟨?_, hc⟩
      have := List.length_erase_of_mem hm.1
      have hpos : 0 < s.parked.length := List.length_pos_of_mem hm.1
      simp only [smu]; omega
    · cases h

/-- **onClose_at_most_once.** However many Close calls run concurrently, the session's `onClose` hook
(which removes the session from its Server) runs at most once. -/
theorem onClose_at_most_once (checks : Bool) (ls : List SLabel) (s : Srv) (h : srun checks {} ls = some s) :
    s.onCloseCalls ≤ 1 := by
  have := (sinv_run ls (sinv_init checks) h).once
  split at this <;> omega

/-- **F25 (unrepaired code).** Without the closing check a listen that was queued when Close began registers
itself after Close emptied the list: it is parked, nobody will cancel it, and `conn.Close()` waits for ever. -/
theorem f25_unrepaired_parks_forever :
    ∃ s, srun false {} [.arrive 8, .closeBegin, .dispatch] = some s ∧ s.closing = true ∧ s.parked = [8] ∧
      sstep false s (.ctxDone 8) = none ∧ (∀ k, sstep false s (.closeCancel k) = none) ∧ sstep false s .dispatch = none := by
  refine ⟨_, rfl, rfl, rfl, rfl, ?_, rfl⟩
  intro k
  cases k with
  | zero => rfl
  | succ k => rfl

/-- … and the same schedule with the check: the listen is refused. -/
example : ∃ s, srun true {} [.arrive 8, .closeBegin, .dispatch] = some s ∧ s.parked = [] ∧ s.refused = [8] := ⟨_, rfl, rfl, rfl⟩

/-- Non-vacuity: Close with a parked listen — cancelled, returns, conn.Close, onClose. -/
example : ∃ s, srun true {} [.arrive 3, .dispatch, .closeBegin, .closeCancel 0, .ctxDone 3, .connClose 0, .onClose, .closeBegin, .connClose 1, .onClose] = some s ∧
    s.closing = true ∧ s.parked = [] ∧ s.onCloseCalls = 1 := ⟨_, rfl, rfl, rfl, rfl⟩

end SessClose

namespace SessClose

/-! ## client -/

theorem lookup_of_mem_nodup {l : List (Nat × Nat)} (hn : (l.map (·.1)).Nodup) {u x : Nat} (hm : (u, x) ∈ l) :
    l.lookup u = some x := by
  induction l with
  | nil => cases hm
  | cons p t ih =>
    obtain ⟨a, b⟩ := p
    simp only [List.map_cons, List.nodup_cons] at hn
    rcases List.mem_cons.mp hm with h | h
    · cases h; simp [List.lookup]
    · have hne : u ≠ a := by
        intro e; subst e
        exact hn.1 (List.mem_map.mpr ⟨(u, x), h, rfl⟩)
      have : (u == a) = false := by simpa using hne
      simp [List.lookup, this, ih hn.2 h]

theorem lookup_none_not_key {l : List (Nat × Nat)} {u : Nat} (h : (l.lookup u).isSome = false) : u ∉ l.map (·.1) := by
  induction l with
  | nil => simp
  | cons p t ih =>
    obtain ⟨a, b⟩ := p
    by_cases e : u = a
    · subst e; simp [List.lookup] at h
    · have : (u == a) = false := by simpa using e
      simp only [List.lookup, this] at h
      simp only [List.map_cons, List.mem_cons, not_or]
      exact ⟨e, ih h⟩

structure CInv (checks : Bool) (s : Cli) : Prop where
  /-- every running listen stream is tracked: in the subscription table (a future Close or Unsubscribe cancels
  it), in the list of a Close in progress, or already cancelled -/
  tracked : ∀ sid ∈ s.streams, (∃ u, (u, sid) ∈ s.subs) ∨ sid ∈ s.cancelled ∨ inSome s.toCancel sid
  none_after : checks = true → s.closed = true → s.subs = []
  keys : (s.subs.map (·.1)).Nodup

theorem cinv_init (checks : Bool) : CInv checks {} := ⟨by simp, by simp, by simp⟩

theorem cinv_step {checks : Bool} {s s' : Cli} {l : CLabel} (i : CInv checks s) (h : cstep checks s l = some s') :
    CInv checks s' := by
  cases l <;> simp only [cstep] at h
  case subscribe u =>
    split at h
    · cases h; exact ⟨i.tracked, i.none_after, i.keys⟩
    · rename_i hc
      have hnc : checks = true → s.closed = false := by
        intro hch; cases hcl : s.closed
        · rfl
        · simp [hch, hcl] at hc
      split at h <;> cases h
      · exact i
      · rename_i hl
        refine ⟨fun x hx => ?_, fun hch hcl => ?_, ?_⟩
        · simp only [List.mem_append, List.mem_singleton] at hx
          rcases hx with hx | rfl
          · rcases i.tracked x hx with ⟨u', h1⟩ | h1 | h1
            · exact Or.inl ⟨u', by simp [h1]⟩
            · exact Or.inr (Or.inl h1)
            · exact Or.inr (Or.inr h1)
          · exact Or.inl ⟨u, by simp⟩
        · have := hnc hch; simp [this] at hcl
        · have hnk := lookup_none_not_key (l := s.subs) (u := u) (by
            cases hx : (List.lookup u s.subs).isSome
            · rfl
            · exact absurd hx hl)
          rw [List.map_append, List.nodup_append]
          refine ⟨i.keys, by simp, ?_⟩
          intro a ha b hb
          simp at hb; subst hb
          intro e; subst e; exact hnk ha
  case unsubscribe u =>
    split at h
    · rename_i sid hl
      cases h
      refine ⟨fun x hx => ?_, fun hch hcl => ?_, ?_⟩
      · rcases i.tracked x hx with ⟨u', h1⟩ | h1 | h1
        · by_cases hu : u' = u
          · subst hu
            have := lookup_of_mem_nodup i.keys h1
            rw [hl] at this; cases this
            exact Or.inr (Or.inl (by simp))
          · exact Or.inl ⟨u', by simp [List.mem_filter, h1, hu]⟩
        · exact Or.inr (Or.inl (by simp [h1]))
        · exact Or.inr (Or.inr h1)
      · have := i.none_after hch hcl; simp [this]
      · exact (List.Nodup.sublist (List.Sublist.map _ (List.filter_sublist)) i.keys)
    · cases h; exact i
  case closeBegin =>
    cases h
    refine ⟨fun x hx => ?_, fun _ _ => rfl, by simp⟩
    rcases i.tracked x hx with ⟨u', h1⟩ | h1 | h1
    · exact Or.inr (Or.inr (inSome_append.mpr (Or.inr (List.mem_map.mpr ⟨(u', x), h1, rfl⟩))))
    · exact Or.inr (Or.inl h1)
    · exact Or.inr (Or.inr (inSome_append.mpr (Or.inl h1)))
  case closeCancel k =>
    split at h
    · rename_i sid rest hk
      cases h
      refine ⟨fun x hx => ?_, i.none_after, i.keys⟩
      rcases i.tracked x hx with h1 | h1 | h1
      · exact Or.inl h1
      · exact Or.inr (Or.inl (by simp [h1]))
      · rcases inSome_set_tail hk h1 with h2 | rfl
        · exact Or.inr (Or.inr h2)
        · exact Or.inr (Or.inl (by simp))
    · cases h
  case streamEnds sid =>
    split at h
    · cases h
      exact ⟨fun x hx => i.tracked x (List.mem_of_mem_erase hx), i.none_after, i.keys⟩
    · cases h
  case connClose k =>
    split at h
    · cases h; exact ⟨i.tracked, i.none_after, i.keys⟩
    · cases h

theorem cinv_run {checks : Bool} {s s' : Cli} (ls : List CLabel) (i : CInv checks s) (h : crun checks s ls = some s') :
    CInv checks s' := by
  induction ls generalizing s with
  | nil => simp [crun] at h; exact h ▸ i
  | cons l ls ih =>
    simp only [crun] at h
    split at h
    · cases h
    · rename_i s1 h1; exact ih (cinv_step i h1) h

/-- **close_cancels_every_listen_stream.** After `ClientSession.Close` has run `cancelAllResourceSubscriptions`,
every listen stream that is still running has been cancelled or is in the list a Close call is still working
through — for ALL interleavings of Subscribe, Unsubscribe and (several) Close calls: a Subscribe that comes
after Close is refused and opens no stream. -/
theorem close_cancels_every_listen_stream (ls : List CLabel) (s : Cli)
    (h : crun Generated.SessClose.clientChecksClosed {} ls = some s) (hc : s.closed = true) :
    ∀ sid ∈ s.streams, sid ∈ s.cancelled ∨ inSome s.toCancel sid := by
  have i := cinv_run ls (cinv_init _) h
  intro sid hs
  have hnil := i.none_after client_checks_closed hc
  rcases i.tracked sid hs with ⟨u, h1⟩ | h1
  · rw [hnil] at h1; cases h1
  · exact h1

/-- **client_close_progress.** While Close is in progress and a listen stream is still running, a cancelling
or ending step is enabled: the outgoing listen calls that `conn.Close()` waits for are retired. -/
theorem client_close_progress (ls : List CLabel) (s : Cli)
    (h : crun Generated.SessClose.clientChecksClosed {} ls = some s) (hc : s.closed = true) (hw : s.streams ≠ []) :
    (∃ k, (cstep Generated.SessClose.clientChecksClosed s (.closeCancel k)).isSome = true) ∨
    (∃ sid, (cstep Generated.SessClose.clientChecksClosed s (.streamEnds sid)).isSome = true) := by
  obtain ⟨sid, hs⟩ := List.exists_mem_of_ne_nil _ hw
  rcases close_cancels_every_listen_stream ls s h hc sid hs with h1 | ⟨k, l, hk, hm⟩
  · exact Or.inr ⟨sid, by simp [cstep, hs, h1]⟩
  · refine Or.inl ⟨k, ?_⟩
    cases l with
    | nil => cases hm
    | cons x rest => simp [cstep, hk]

/-- **F24 (unrepaired code).** Without the closed check a Subscribe after Close opens a listen stream that is
in no list anybody will cancel: its goroutine (and its never-answered call) stays for ever. -/
theorem f24_unrepaired_stream_leaks :
    ∃ s, crun false {} [.closeBegin, .connClose 0, .subscribe 5] = some s ∧ s.closed = true ∧ s.streams = [0] ∧
      cstep false s (.streamEnds 0) = none ∧ (∀ k, cstep false s (.closeCancel k) = none) := by
  refine ⟨_, rfl, rfl, rfl, rfl, ?_⟩
  intro k
  cases k with
  | zero => rfl
  | succ k => rfl

example : ∃ s, crun true {} [.closeBegin, .connClose 0, .subscribe 5] = some s ∧ s.streams = [] ∧ s.refused = [5] := ⟨_, rfl, rfl, rfl⟩

/-- Non-vacuity: two subscriptions, Close cancels both streams, they end, conn.Close. -/
example : ∃ s, crun true {} [.subscribe 1, .subscribe 2, .subscribe 1, .closeBegin, .closeCancel 0, .closeCancel 0,
    .streamEnds 0, .streamEnds 1, .connClose 0] = some s ∧ s.closed = true ∧ s.streams = [] ∧ s.connCloseCalls = 1 :=
  ⟨_, rfl, rfl, rfl, rfl⟩

end SessClose
