/-
Typed monitor of the session-level stream `sess`, part 2: the wire clauses of C02 on a side's wire tap
(every response answers a call read before it; no call answered twice; every call read, while the
connection was usable, before the quiescent point was answered on the wire).  The Go harness only RECORDS
the tap (`r:<id>:<seq>:<listen>` / `w:<id>` tokens); the clauses are decided here.  Core Lean only (linked
into drv_conn).  Theorems: `SessClose/WireProps.lean`.
-/
namespace SessMon

/-- One message on a side's wire tap, as far as C02 needs it. -/
inductive WEv where
  | readCall (id : String) (seq : Nat) (listen : Bool)   -- the side read a call (listen: subscriptions/listen)
  | wroteResp (id : String)                              -- the side wrote a response that reached the transport
deriving DecidableEq, Repr, Inhabited

structure WireObs where
  evs : List WEv := []
  judgeAnswered : Bool := false   -- the quiescent point Q was taken and the side's connection was usable then
  qSeq : Nat := 0                 -- event number of Q
deriving Repr, Inhabited

inductive WClause where
  | respNoCall (id : String)
  | respTwice (id : String)
  | unanswered (id : String)
deriving DecidableEq, Repr, Inhabited

def respIds : List WEv → List String
  | [] => []
  | .wroteResp id :: t => id :: respIds t
  | _ :: t => respIds t

/-- The calls read, first occurrence of each id only (an id is registered once). -/
def firstReads (seen : List String) : List WEv → List (String × Nat × Bool)
  | [] => []
  | .readCall id s l :: t => if id ∈ seen then firstReads seen t else (id, s, l) :: firstReads (id :: seen) t
  | _ :: t => firstReads seen t

/-! ### spec -/

/-- Every response answers a call read before it (never a notification, never an unknown id). -/
def P_answersCall (evs : List WEv) : Prop :=
  ∀ pre id post, evs = pre ++ .wroteResp id :: post → id ≠ "" ∧ ∃ s l, WEv.readCall id s l ∈ pre

/-- No call is answered twice. -/
def P_once (evs : List WEv) : Prop := (respIds evs).Nodup

/-- Every call read before the quiescent point (other than a listen stream) was answered on the wire. -/
def P_answered (o : WireObs) : Prop :=
  o.judgeAnswered = true → ∀ x ∈ firstReads [] o.evs, x.2.1 < o.qSeq → x.2.2 = false → x.1 ∈ respIds o.evs

def WireOK (o : WireObs) : Prop := P_answersCall o.evs ∧ P_once o.evs ∧ P_answered o

/-! ### monitor -/

def chkNoCall (seen : List String) : List WEv → List WClause
  | [] => []
  | .readCall id _ _ :: t => chkNoCall (id :: seen) t
  | .wroteResp id :: t => (if id = "" ∨ id ∉ seen then [.respNoCall id] else []) ++ chkNoCall seen t

def chkTwice : List String → List WClause
  | [] => []
  | id :: t => (if id ∈ t then [.respTwice id] else []) ++ chkTwice t

def chkAnswered (o : WireObs) : List WClause :=
  if o.judgeAnswered then
    ((firstReads [] o.evs).filter fun x => decide (x.2.1 < o.qSeq) && !x.2.2 && !decide (x.1 ∈ respIds o.evs)).map fun x => .unanswered x.1
  else []

def wireMon (o : WireObs) : List WClause := chkNoCall [] o.evs ++ chkTwice (respIds o.evs) ++ chkAnswered o

/-! ### string layer (trusted; the driver echoes the re-rendered tap as the model's observation) -/

def WClause.text (side : String) : WClause → String
  | .respNoCall id => s!"C02: the {side} wrote a response with id \"{id}\" that answers no call it had read (a notification got a response?)"
  | .respTwice id => s!"C02: the {side} wrote two responses for call id {id}"
  | .unanswered id => s!"C02: call id {id} read by the {side} while its connection was usable got no response on the wire although every handler had returned"

def renderWEv : WEv → String
  | .readCall id s l => s!"r:{id}:{s}:{if l then "1" else "0"}"
  | .wroteResp id => s!"w:{id}"

def parseWEv (t : String) : Option WEv :=
  match t.splitOn ":" with
  | ["r", id, s, l] => s.toNat?.map fun n => .readCall id n (l == "1")
  | ["w", id] => some (.wroteResp id)
  | _ => none

/-- `<0|1>,<qSeq>,<tok>,<tok>,…` -/
def renderWire (o : WireObs) : String :=
  ",".intercalate ((if o.judgeAnswered then "1" else "0") :: toString o.qSeq :: o.evs.map renderWEv)

def parseWire (s : String) : Option WireObs :=
  match s.splitOn "," with
  | j :: q :: toks => do
    let qs ← q.toNat?
    let evs ← (toks.filter (· ≠ "")).mapM parseWEv
    pure { evs := evs, judgeAnswered := j == "1", qSeq := qs }
  | _ => none

end SessMon
