import McpModel.Base.Proto
/-
Typed monitors of the session-level stream `sess`, part 3: per-call outcomes (C01, C04) and dispatch
order per sender goroutine (C03) on two REAL sessions.  The Go harness RECORDS one `CallObs` per
finished call (what it returned, what the peer's handler produced for it, how it relates to
termination, and - for a call whose context the harness cancelled - what was observed around the
cancellation) and one `GorObs` per sender goroutine (the messages it issued in sequence with the
startSeq/end event numbers of their handlers); the clauses are decided here: each clause of the property
is a decidable predicate `P_…` on the record and the monitor reports exactly the records on which it
is false.  Core Lean only (linked into drv_conn).  Theorems: `SessClose/CallsProps.lean`.
-/
namespace SessMon

/-- What the peer's handler produced for the call (the payload the caller must get back). -/
inductive Want where
  | none                      -- nothing to compare (ping, subscribe, …)
  | missing                   -- no handler produced a result for this call
  | exact (s : String)        -- the handler of THIS call produced `s` (tool / sample / elicit echo the call's token; roots: the fixed root)
  | names (l : List String)   -- ListTools: every name returned must be a tool that existed at some time
deriving DecidableEq, Repr, Inhabited

/-- Observations around the cancellation of a call's context by the harness. -/
structure CancelObs where
  timing : String := "during"   -- during | race (cancel racing the handler's release) | after (the call had already returned)
  healthy : Bool := true         -- both sessions healthy (no fault, no Close begun, cancel notice not lost) at that moment
  stalled : Bool := false        -- the caller was still inside the transport's Write of its own request (C04 speaks of requests already sent)
  returned : Bool := true        -- the call had returned at the latest 100 ms of virtual time after the cancellation
  delay : Nat := 0               -- virtual ms between the cancellation and the return
  hParked : Bool := false        -- the peer's handler of this call was parked (running) at the cancellation
  hSaw : Bool := false           -- … and saw its context cancelled
  tok : String := ""             -- the call's token; its own handlers are `tok` and `tok/…`
  touched : List (String × List String) := []  -- per check point: handlers running with a live context before whose context is cancelled now
deriving DecidableEq, Repr, Inhabited

structure CallObs where
  name : String := ""            -- "<Session> <kind>", for the clause text
  followUp : Bool := false       -- issued right after a cancellation on a healthy session ("a later call must still work")
  errNil : Bool := true
  errClass : String := ""        -- class of the error, for the clause text
  errClosed : Bool := false      -- errors.Is(err, ErrConnectionClosed)
  errCanceled : Bool := false    -- errors.Is(err, context.Canceled)
  got : String := ""
  want : Want := .none
  afterDone : Bool := false      -- started when the session's connection had already terminated
  notify : Bool := false
  lateExempt : Bool := false     -- a method that is refused before it reaches the connection (version / capability checks)
  dur : Nat := 0                 -- virtual ms from startSeq to return
  cancelled : Bool := false      -- the harness cancelled its context
  disturbed : Bool := false      -- the pair of sessions was not healthy when it returned (fault injected / Close begun)
  reason : Bool := false         -- the error is the one the scenario asked for (failing tool, removed tool, request forbidden by the version, handler's own context cancelled)
  cx : Option CancelObs := none
deriving DecidableEq, Repr, Inhabited

/-! ## C01 / C04 per call -/

def gotNames (s : String) : List String := (s.splitOn ",").filter (· ≠ "")

/-- C01: a call that succeeds returns what the peer's handler produced for THAT call. -/
def P_own (c : CallObs) : Prop :=
  c.errNil = true →
    match c.want with
    | .none => True
    | .missing => False
    | .exact s => c.got = s
    | .names l => ∀ n ∈ gotNames c.got, n ∈ l

/-- C01: a call started after the connection terminated fails at once with the closed-connection error
(or with its own context's error if that was cancelled). -/
def P_late (c : CallObs) : Prop :=
  c.afterDone = true → c.notify = false → c.lateExempt = false →
    (c.errClosed = true ∨ (c.cancelled = true ∧ c.errCanceled = true)) ∧ c.dur = 0

/-- C01 (C04 for a follow-up call): on a healthy pair of sessions a call fails only for the reason the
scenario asked for. -/
def P_reason (c : CallObs) : Prop :=
  (c.afterDone = true ∧ c.notify = false) ∨ c.errNil = true ∨ c.cancelled = true ∨ c.disturbed = true ∨ c.reason = true

def isOwn (tok h : String) : Bool := h == tok || (tok ++ "/").isPrefixOf h

/-- C04: nobody but the handlers of the cancelled call has its context cancelled. -/
def P_touched (x : CancelObs) : Prop := ∀ e ∈ x.touched, ∀ h ∈ e.2, isOwn x.tok h = true

/-- C04: a cancelled call returns promptly with its context's error, its peer handler sees the
cancellation, and no other handler is touched. -/
def P_cancel (c : CallObs) : Prop :=
  match c.cx with
  | none => True
  | some x =>
    if x.timing = "after" then P_touched x
    else if x.stalled = true then True
    else x.returned = true ∧ x.delay = 0 ∧
      (x.timing = "during" → x.healthy = true → c.errCanceled = true ∧ (x.hParked = true → x.hSaw = true)) ∧
      (x.healthy = true → P_touched x)

def CallRecOK (c : CallObs) : Prop := P_own c ∧ P_late c ∧ P_reason c ∧ P_cancel c

instance (c : CallObs) : Decidable (P_own c) := by
  unfold P_own; cases c.want <;> infer_instance
instance (c : CallObs) : Decidable (P_late c) := by unfold P_late; infer_instance
instance (c : CallObs) : Decidable (P_reason c) := by unfold P_reason; infer_instance
instance (x : CancelObs) : Decidable (P_touched x) := by unfold P_touched; infer_instance
instance (c : CallObs) : Decidable (P_cancel c) := by
  unfold P_cancel; cases c.cx <;> infer_instance

inductive CKind where | own | late | reason | cancel
deriving DecidableEq, Repr, Inhabited

def chkCall (c : CallObs) : List CKind :=
  (if P_own c then [] else [.own]) ++ (if P_late c then [] else [.late]) ++
  (if P_reason c then [] else [.reason]) ++ (if P_cancel c then [] else [.cancel])

/-- Every (violated clause, call) of the case. -/
def callMon (calls : List CallObs) : List (CKind × CallObs) := calls.flatMap fun c => (chkCall c).map (·, c)

def CallOK (calls : List CallObs) : Prop := ∀ c ∈ calls, CallRecOK c

def CKind.holdsOf (c : CallObs) : CKind → Prop
  | .own => ¬ P_own c | .late => ¬ P_late c | .reason => ¬ P_reason c | .cancel => ¬ P_cancel c

/-! ## C03 per sender goroutine -/

/-- One run of a user handler. -/
structure HObs where
  side : Nat := 0
  startSeq : Nat := 0       -- event number of its startSeq
  finished : Bool := false
  endSeq : Nat := 0        -- event number of its return
deriving DecidableEq, Repr, Inhabited

/-- One message a goroutine issued; `h` = the peer's handler run for it, if one started. -/
structure Issued where
  notif : Bool := false
  kind : String := ""
  h : Option HObs := none
deriving DecidableEq, Repr, Inhabited

structure GorObs where
  gor : String := ""
  items : List Issued := []
deriving DecidableEq, Repr, Inhabited

/-- A notification `a` issued before `b` by the same goroutine (its `Notify` had returned) is handled,
to the end, before the handler of `b` starts (when both are handled by the same side). -/
def Before (a b : Issued) : Prop :=
  a.notif = true → ∀ ha ∈ a.h, ∀ hb ∈ b.h, ha.side = hb.side →
    ha.startSeq ≤ hb.startSeq ∧ ha.finished = true ∧ ha.endSeq ≤ hb.startSeq

instance (a b : Issued) : Decidable (Before a b) := by unfold Before; infer_instance

def P_order (g : GorObs) : Prop := g.items.Pairwise Before

instance (g : GorObs) : Decidable (P_order g) := by unfold P_order; infer_instance

def orderMon (gs : List GorObs) : List GorObs := gs.filter fun g => !decide (P_order g)

def OrderOK (gs : List GorObs) : Prop := ∀ g ∈ gs, P_order g


/-! ## handler runs (C02: one run per message; C05: a graceful Close cancels no running handler) and
probes started after termination (C01) -/

/-- One user handler, identified by the token of the message it handles. -/
structure HandObs where
  side : String := ""
  kind : String := ""
  runs : Nat := 1            -- how often the handler of this ONE message ran
  cancelled : Bool := false  -- its context was cancelled when it returned
  cause : String := ""       -- class of context.Cause
  bothOpen : Bool := false   -- at its return: neither transport had been closed or had failed
deriving DecidableEq, Repr, Inhabited

/-- A call started after both Waits had returned. -/
structure ProbeObs where
  name : String := ""
  finished : Bool := false
  closed : Bool := false     -- errors.Is(err, ErrConnectionClosed)
  cls : String := ""
deriving DecidableEq, Repr, Inhabited

structure ExtraObs where
  faultEver : Bool := false  -- a transport fault was injected at some time in the case
  hands : List HandObs := []
  probes : List ProbeObs := []
deriving DecidableEq, Repr, Inhabited

/-- C02: the handler of one message runs once. -/
def P_runsOnce (h : HandObs) : Prop := h.runs ≤ 1
/-- C05: without an injected fault, while both transports are open a handler's context is cancelled only by
its caller (cause context.Canceled): a graceful Close lets running handlers finish. -/
def P_graceful (fe : Bool) (h : HandObs) : Prop :=
  fe = false → h.cancelled = true → h.bothOpen = true → h.cause = "context-canceled"
/-- C01: a call started after termination fails at once with the closed-connection error. -/
def P_probe (p : ProbeObs) : Prop := p.finished = true ∧ p.closed = true

def ExtraOK (o : ExtraObs) : Prop :=
  (∀ h ∈ o.hands, P_runsOnce h ∧ P_graceful o.faultEver h) ∧ ∀ p ∈ o.probes, P_probe p

instance (h : HandObs) : Decidable (P_runsOnce h) := by unfold P_runsOnce; infer_instance
instance (fe : Bool) (h : HandObs) : Decidable (P_graceful fe h) := by unfold P_graceful; infer_instance
instance (p : ProbeObs) : Decidable (P_probe p) := by unfold P_probe; infer_instance

inductive EClause where
  | ranTwice (h : HandObs) | ungraceful (h : HandObs) | probe (p : ProbeObs)
deriving DecidableEq, Repr, Inhabited

def extraMon (o : ExtraObs) : List EClause :=
  (o.hands.filter fun h => !decide (P_runsOnce h)).map .ranTwice ++
  (o.hands.filter fun h => !decide (P_graceful o.faultEver h)).map .ungraceful ++
  (o.probes.filter fun p => !decide (P_probe p)).map .probe

def EClause.holdsOf (o : ExtraObs) : EClause → Prop
  | .ranTwice h => h ∈ o.hands ∧ ¬ P_runsOnce h
  | .ungraceful h => h ∈ o.hands ∧ ¬ P_graceful o.faultEver h
  | .probe p => p ∈ o.probes ∧ ¬ P_probe p

/-! ## string layer (trusted) -/
open Proto

def callText (k : CKind) (c : CallObs) : String :=
  match k with
  | .own =>
    match c.want with
    | .missing => s!"C01: {c.name} succeeded although no handler produced a result for it (got \"{c.got}\")"
    | .exact s => s!"C01: {c.name} returned \"{c.got}\" but the handler of that call produced \"{s}\""
    | _ => s!"C01: {c.name} returned \"{c.got}\", which names something that never existed"
  | .late =>
    if c.errClosed || (c.cancelled && c.errCanceled) then s!"C01: {c.name} started after the connection had terminated took {c.dur}ms to fail"
    else s!"C01: {c.name} started after the connection had terminated ended with {c.errClass}, not with ErrConnectionClosed"
  | .reason =>
    if c.followUp then s!"C04: {c.name} failed with {c.errClass} although it was issued after a cancellation on a healthy session (a later call must still work)"
    else s!"C01: {c.name} failed with {c.errClass} on a healthy pair of sessions"
  | .cancel =>
    match c.cx with
    | none => "C04: ?"
    | some x =>
      if x.timing ≠ "after" && !x.returned then s!"C04: {c.name} did not return after its context was cancelled ({x.timing})"
      else if x.timing ≠ "after" && x.delay ≠ 0 then s!"C04: {c.name} returned only {x.delay}ms after its context was cancelled"
      else if x.timing == "during" && x.healthy && !c.errCanceled then s!"C04: cancelled {c.name} returned {c.errClass} instead of the context's error"
      else if x.timing == "during" && x.healthy && x.hParked && !x.hSaw then s!"C04: the peer's handler of the cancelled {c.name} did not see its context cancelled"
      else
        let bad := x.touched.filterMap fun e => (e.2.find? fun h => !isOwn x.tok h).map fun h => (e.1, h)
        match bad with
        | (w, h) :: _ => s!"C04: cancelling {c.name} {w} also cancelled the context of another handler ({h})"
        | [] => s!"C04: cancellation of {c.name} violated"

def orderText (g : GorObs) : String :=
  s!"C03: a later message of sender goroutine {g.gor} was handled before (or while) an earlier notification of that goroutine was handled: " ++
    " ".intercalate (g.items.map fun i => match i.h with
      | some h => s!"{i.kind}[{h.startSeq}-{if h.finished then toString h.endSeq else "…"}@{h.side}]"
      | none => s!"{i.kind}[-]")

def bitAt (s : String) (i : Nat) : Bool := s.toList.getD i '0' == '1'

def parseWant (s : String) : Option Want :=
  if s == "-" then some .none else if s == "m" then some .missing
  else match s.splitOn ":" with
    | ["e", h] => (hexToString h).map .exact
    | ["n", h] => (hexToString h).map fun t => .names (gotNames t)
    | _ => none

/-- `<timing>:<bits healthy stalled returned hParked hSaw>:<delay>:<tokHex>:<touched>`; touched =
`<whenHex>=<tokHex>+<tokHex>…` joined by `/`. -/
def parseCx (s : String) : Option (Option CancelObs) :=
  if s == "-" then some none else
  match s.splitOn ":" with
  | [tm, bits, d, tk, tch] => do
    let delay ← d.toNat?
    let tok ← hexToString tk
    let touched ← ((tch.splitOn "/").filter (· ≠ "")).mapM fun e =>
      match e.splitOn "=" with
      | [w, hs] => do
        let w ← hexToString w
        let hs ← ((hs.splitOn "+").filter (· ≠ "")).mapM hexToString
        pure (w, hs)
      | _ => none
    pure (some { timing := tm, healthy := bitAt bits 0, stalled := bitAt bits 1, returned := bitAt bits 2,
                 hParked := bitAt bits 3, hSaw := bitAt bits 4, delay := delay, tok := tok, touched := touched })
  | _ => none

/-- `<nameHex>,<bits followUp errNil errClosed errCanceled afterDone notify lateExempt cancelled disturbed reason>,<errClassHex>,<gotHex>,<want>,<dur>,<cx>` -/
def parseCall (s : String) : Option CallObs :=
  match s.splitOn "," with
  | [nm, bits, ec, got, want, dur, cx] => do
    let name ← hexToString nm
    let errClass ← hexToString ec
    let got ← hexToString got
    let want ← parseWant want
    let dur ← dur.toNat?
    let cx ← parseCx cx
    pure { name := name, followUp := bitAt bits 0, errNil := bitAt bits 1, errClosed := bitAt bits 2, errCanceled := bitAt bits 3,
           afterDone := bitAt bits 4, notify := bitAt bits 5, lateExempt := bitAt bits 6, cancelled := bitAt bits 7,
           disturbed := bitAt bits 8, reason := bitAt bits 9, errClass := errClass, got := got, want := want, dur := dur, cx := cx }
  | _ => none

def parseCalls (s : String) : Option (List CallObs) := ((s.splitOn " ").filter fun t => t ≠ "" && t ≠ "-").mapM parseCall

/-- item: `<n|c>:<kindHex>:<-|side.startSeq.fin.endSeq>`; goroutine: `<gorHex>;item;item…`. -/
def parseIssued (s : String) : Option Issued :=
  match s.splitOn ":" with
  | [n, k, h] => do
    let kind ← hexToString k
    let ho ← if h == "-" then some none else
      match h.splitOn "." with
      | [sd, st, fin, sp] => do pure (some { side := ← sd.toNat?, startSeq := ← st.toNat?, finished := fin == "1", endSeq := ← sp.toNat? })
      | _ => none
    pure { notif := n == "n", kind := kind, h := ho }
  | _ => none

def parseGor (s : String) : Option GorObs :=
  match s.splitOn ";" with
  | g :: items => do pure { gor := ← hexToString g, items := ← (items.filter (· ≠ "")).mapM parseIssued }
  | _ => none

def parseGors (s : String) : Option (List GorObs) := ((s.splitOn " ").filter fun t => t ≠ "" && t ≠ "-").mapM parseGor

def EClause.text : EClause → String
  | .ranTwice h => s!"C02: the handler of one message ({h.side} {h.kind}) ran {h.runs} times"
  | .ungraceful h => s!"C05: the context of a running {h.side} handler ({h.kind}) was cancelled with cause {h.cause} while both transports were open and no fault was injected: a graceful Close must let running handlers finish"
  | .probe p =>
    if p.finished then s!"C01: {p.name} started after Wait had returned ended with {p.cls}, not with ErrConnectionClosed"
    else s!"C01: {p.name} started after Wait had returned is blocked instead of failing at once"

/-- `fe=<0|1>`, `h:<sideHex>:<kindHex>:<runs>:<cancelled>:<causeHex>:<bothOpen>`, `p:<nameHex>:<finished>:<closed>:<classHex>`. -/
def parseExtra (s : String) : Option ExtraObs :=
  ((s.splitOn " ").filter fun t => t ≠ "" && t ≠ "-").foldlM (init := ({} : ExtraObs)) fun o t =>
    match t.splitOn ":" with
    | ["h", sd, k, r, c, cs, bo] => do
      let h : HandObs := { side := ← hexToString sd, kind := ← hexToString k, runs := ← r.toNat?, cancelled := c == "1",
                           cause := ← hexToString cs, bothOpen := bo == "1" }
      pure { o with hands := o.hands ++ [h] }
    | ["p", n, f, c, cl] => do
      let p : ProbeObs := { name := ← hexToString n, finished := f == "1", closed := c == "1", cls := ← hexToString cl }
      pure { o with probes := o.probes ++ [p] }
    | _ => match t.splitOn "=" with
      | ["fe", v] => some { o with faultEver := v == "1" }
      | _ => none

end SessMon
