import McpModel.SessClose.Calls
/-!
Theorems about the per-call monitor (C01, C04) and the order monitor (C03) of stream `sess`
(`SessClose/Calls.lean`): `callMon_complete` (`callMon o = [] ↔ CallOK o`), `callMon_sound` (a reported
(clause, call) is a call of the record on which that clause of the property is false; per clause
`sound_cOwn`, `sound_cLate`, `sound_cReason`, `sound_cCancel`), `orderMon_complete`, `orderMon_sound`.
-/
namespace SessMon

theorem ite_nil_single {α : Type} {p : Prop} [Decidable p] {x : α} : (if p then [] else [x]) = [] ↔ p := by
  split <;> simp [*]

theorem chkCall_nil_iff (c : CallObs) : chkCall c = [] ↔ CallRecOK c := by
  unfold chkCall CallRecOK
  simp only [List.append_eq_nil_iff, ite_nil_single, and_assoc]

/-- **callMon_complete.** The per-call monitor is silent exactly when every call of the record satisfies
all four clauses. -/
theorem callMon_complete (calls : List CallObs) : callMon calls = [] ↔ CallOK calls := by
  unfold callMon CallOK
  simp only [List.flatMap_eq_nil_iff, List.map_eq_nil_iff, chkCall_nil_iff]

theorem mem_chkCall {c : CallObs} {k : CKind} (h : k ∈ chkCall c) : k.holdsOf c := by
  unfold chkCall at h
  simp only [List.mem_append] at h
  rcases h with ((h | h) | h) | h <;> (split at h <;> simp at h) <;> (subst h; assumption)

/-- **callMon_sound.** A reported (clause, call) names a call of the record on which the clause is false. -/
theorem callMon_sound (calls : List CallObs) (k : CKind) (c : CallObs) (h : (k, c) ∈ callMon calls) :
    c ∈ calls ∧ k.holdsOf c := by
  unfold callMon at h
  simp only [List.mem_flatMap, List.mem_map, Prod.mk.injEq] at h
  obtain ⟨c', hc', k', hk', rfl, rfl⟩ := h
  exact ⟨hc', mem_chkCall hk'⟩

theorem sound_cOwn (calls : List CallObs) (c : CallObs) (h : (.own, c) ∈ callMon calls) : ¬ P_own c :=
  (callMon_sound calls _ _ h).2
theorem sound_cLate (calls : List CallObs) (c : CallObs) (h : (.late, c) ∈ callMon calls) : ¬ P_late c :=
  (callMon_sound calls _ _ h).2
theorem sound_cReason (calls : List CallObs) (c : CallObs) (h : (.reason, c) ∈ callMon calls) : ¬ P_reason c :=
  (callMon_sound calls _ _ h).2
theorem sound_cCancel (calls : List CallObs) (c : CallObs) (h : (.cancel, c) ∈ callMon calls) : ¬ P_cancel c :=
  (callMon_sound calls _ _ h).2

/-- **orderMon_complete / orderMon_sound.** -/
theorem orderMon_complete (gs : List GorObs) : orderMon gs = [] ↔ OrderOK gs := by
  unfold orderMon OrderOK
  simp [List.filter_eq_nil_iff]

theorem orderMon_sound (gs : List GorObs) (g : GorObs) (h : g ∈ orderMon gs) : g ∈ gs ∧ ¬ P_order g := by
  unfold orderMon at h
  simpa [List.mem_filter] using h

/-- What a violated `P_order` means: two messages of the goroutine, the earlier a notification, both
handled by the same side, the later one's handler started before the earlier one's had returned. -/
theorem not_order_witness (g : GorObs) (h : ¬ P_order g) :
    ∃ a b, [a, b].Sublist g.items ∧ ¬ Before a b := by
  unfold P_order at h
  rw [List.pairwise_iff_forall_sublist] at h
  simp only [Classical.not_forall] at h
  obtain ⟨a, b, hs, hn⟩ := h
  exact ⟨a, b, hs, hn⟩

/-! non-vacuity -/
def okCall : CallObs := { name := "ClientSession tool", got := "echo:t1:7", want := .exact "echo:t1:7" }
example : callMon [okCall] = [] := by decide
example : (callMon [{ okCall with got := "echo:t2:9" }]).map (·.1) = [.own] := by decide
example : (callMon [{ okCall with errNil := false, want := .none }]).map (·.1) = [.reason] := by decide
example : (callMon [{ okCall with errNil := false, afterDone := true }]).map (·.1) = [.late] := by decide
-- (`isOwn` uses `String.isPrefixOf`, which the kernel does not evaluate: the examples keep `touched` empty;
-- the touched-clause is exercised through the driver)
def cxBad : CancelObs := { tok := "t1", hParked := true, hSaw := false }
def cxGood : CancelObs := { tok := "t1", hParked := true, hSaw := true }
def cancelledCall (x : CancelObs) : CallObs :=
  { name := "ClientSession tool", errNil := false, cancelled := true, errCanceled := true, cx := some x }
example : (callMon [cancelledCall cxBad]).map (·.1) = [.cancel] := by decide
example : callMon [cancelledCall cxGood] = [] := by decide
example : orderMon [{ gor := "g", items := [{ notif := true, h := some { startSeq := 3, finished := true, endSeq := 5 } },
    { h := some { startSeq := 6 } }] }] = [] := by decide
example : (orderMon [{ gor := "g", items := [{ notif := true, h := some { startSeq := 7, finished := true, endSeq := 9 } },
    { h := some { startSeq := 6 } }] }]).length = 1 := by decide

/-! ### handler runs and probes -/

/-- **extraMon_complete.** -/
theorem extraMon_complete (o : ExtraObs) : extraMon o = [] ↔ ExtraOK o := by
  unfold extraMon ExtraOK
  simp only [List.append_eq_nil_iff, List.map_eq_nil_iff, List.filter_eq_nil_iff, Bool.not_eq_true', decide_eq_false_iff_not,
    Decidable.not_not]
  constructor
  · rintro ⟨⟨h1, h2⟩, h3⟩; exact ⟨fun h hh => ⟨h1 h hh, h2 h hh⟩, h3⟩
  · rintro ⟨h1, h3⟩; exact ⟨⟨fun h hh => (h1 h hh).1, fun h hh => (h1 h hh).2⟩, h3⟩

/-- **extraMon_sound.** -/
theorem extraMon_sound (o : ExtraObs) (c : EClause) (h : c ∈ extraMon o) : c.holdsOf o := by
  unfold extraMon at h
  simp only [List.mem_append, List.mem_map, List.mem_filter, Bool.not_eq_true', decide_eq_false_iff_not] at h
  rcases h with (⟨x, hx, rfl⟩ | ⟨x, hx, rfl⟩) | ⟨x, hx, rfl⟩ <;> exact hx

example : extraMon { hands := [{ side := "server", kind := "tool" }], probes := [{ finished := true, closed := true }] } = [] := by decide
example : (extraMon { hands := [{ runs := 2 }] }).length = 1 := by decide
example : (extraMon { hands := [{ cancelled := true, bothOpen := true, cause := "connection-closed" }] }).length = 1 := by decide
example : (extraMon { probes := [{ finished := false }] }).length = 1 := by decide

end SessMon
