/-
Typed monitor of the session-level stream `sess` (two REAL sessions; zz_verif_sesslevel_test.go), part 1:
the lifecycle clauses of C05 — "closes the transport only after running handlers have returned",
"the session is removed from its Client or Server", onClose exactly once, both halves of an
IOTransport closed.  The Go harness only RECORDS the counters below (`SessObs`, printed as `k=v`
tokens after `##` in the observation field); the clauses are decided here.  Core Lean only (linked
into drv_conn).  Theorems: `SessClose/MonitorProps.lean`.

Still judged by the Go harness (their verdict text travels before `##`): the per-call clauses of
C01/C04 (judgeCalls, actCancel), the wire clauses of C02 (judgeWire), the order clauses of C03
(judgeOrder), hang classification, goroutine leaks, panics.
-/
namespace SessMon

inductive Side where | client | server
deriving DecidableEq, Repr, Inhabited

def Side.name : Side → String
  | .client => "client" | .server => "server"
def Side.sess : Side → String
  | .client => "ClientSession" | .server => "ServerSession"

/-- What the harness counted for one side of the case. -/
structure SideObs where
  connected : Bool := false      -- the side's transport was connected at all
  tc : Nat := 0                  -- Close calls on the side's transport (the fault-injecting wrapper counts them)
  runAtClose : Nat := 0          -- max over those Close calls, of the side's user handlers still running at the call, counting only calls made while the transport had not failed
  rc : Nat := 0                  -- IOTransport: Close calls on the Reader half the user handed in
  wc : Nat := 0                  -- IOTransport: Close calls on the Writer half
  onClose : Nat := 0             -- runs of the session's onClose hook
  closeReturned : Bool := false  -- some Close call of the session has returned
deriving DecidableEq, Repr, Inhabited

structure SessObs where
  hang : Bool := false           -- something was still blocked at the end (judged separately; the counters are then not final)
  pipe : Bool := false           -- the case ran over IOTransport (two io.Pipes) rather than the in-memory transport
  client : SideObs := {}
  server : SideObs := {}
  serverSessions : Nat := 0      -- sessions Server.Sessions() still yields at the end
  clientSessions : Nat := 0      -- sessions the Client still holds
  subsLeft : Nat := 0            -- subscriptions of the ended session the Server still remembers
  viaRun : Bool := false         -- the server side of the case was started with Server.Run(ctx, transport)
  runReturned : Bool := false    -- that Server.Run call has returned
deriving DecidableEq, Repr, Inhabited

def SessObs.side (o : SessObs) : Side → SideObs
  | .client => o.client | .server => o.server

/-- The violated clause, as data. -/
inductive SClause where
  | tcNotOnce (sd : Side) (n : Nat)
  | closedRunning (sd : Side) (n : Nat)
  | halfOpen (sd : Side) (rc wc : Nat)
  | onCloseTwice (sd : Side) (n : Nat)
  | onCloseMissed (sd : Side)
  | serverSessionsLeft (n : Nat)
  | clientSessionsLeft (n : Nat)
  | subsLeft (n : Nat)
  | runNotReturned
deriving DecidableEq, Repr, Inhabited

/-! ## the property clauses as predicates on the record -/

/-- Each transport is closed exactly once when the session has ended. -/
def P_tcOnce (hang : Bool) (o : SideObs) : Prop := o.connected = true → hang = false → o.tc = 1
/-- No handler of the side was running when its (unfailed) transport was closed. -/
def P_closedIdle (o : SideObs) : Prop := o.connected = true → o.runAtClose = 0
/-- Closing an IOTransport closes both halves the user handed in. -/
def P_bothHalves (hang pipe : Bool) (o : SideObs) : Prop :=
  o.connected = true → pipe = true → hang = false → 0 < o.tc → 0 < o.rc ∧ 0 < o.wc
/-- onClose runs at most once … -/
def P_onCloseOnce (o : SideObs) : Prop := o.connected = true → o.onClose ≤ 1
/-- … and has run when Close returns. -/
def P_onCloseRan (o : SideObs) : Prop := o.connected = true → o.closeReturned = true → 0 < o.onClose

def SideOK (hang pipe : Bool) (o : SideObs) : Prop :=
  P_tcOnce hang o ∧ P_closedIdle o ∧ P_bothHalves hang pipe o ∧ P_onCloseOnce o ∧ P_onCloseRan o

/-- The session is removed from its Client / Server, and the Server forgets its subscriptions. -/
def P_removed (o : SessObs) : Prop :=
  o.hang = false → o.serverSessions = 0 ∧ o.clientSessions = 0 ∧ o.subsLeft = 0

/-- `Server.Run` returns once its session has ended (nothing of the server is left running). -/
def P_runReturns (o : SessObs) : Prop := o.viaRun = true → o.hang = false → o.runReturned = true

/-- The lifecycle part of C05 on one case record. -/
def SessOK (o : SessObs) : Prop :=
  SideOK o.hang o.pipe o.client ∧ SideOK o.hang o.pipe o.server ∧ P_removed o ∧ P_runReturns o

/-! ## the monitor -/

def sideChecks (hang pipe : Bool) (sd : Side) (o : SideObs) : List SClause :=
  if !o.connected then [] else
  (if !hang && o.tc != 1 then [.tcNotOnce sd o.tc] else []) ++
  (if o.runAtClose != 0 then [.closedRunning sd o.runAtClose] else []) ++
  (if pipe && !hang && o.tc != 0 && (o.rc == 0 || o.wc == 0) then [.halfOpen sd o.rc o.wc] else []) ++
  (if 1 < o.onClose then [.onCloseTwice sd o.onClose] else []) ++
  (if o.closeReturned && o.onClose == 0 then [.onCloseMissed sd] else [])

def globalChecks (o : SessObs) : List SClause :=
  if o.hang then [] else
  (if o.serverSessions != 0 then [.serverSessionsLeft o.serverSessions] else []) ++
  (if o.clientSessions != 0 then [.clientSessionsLeft o.clientSessions] else []) ++
  (if o.subsLeft != 0 then [.subsLeft o.subsLeft] else [])

def runChecks (o : SessObs) : List SClause :=
  if o.viaRun && !o.hang && !o.runReturned then [.runNotReturned] else []

/-- Every violated lifecycle clause of the record. -/
def sessMon (o : SessObs) : List SClause :=
  sideChecks o.hang o.pipe .client (o.side .client) ++ sideChecks o.hang o.pipe .server (o.side .server) ++ globalChecks o ++ runChecks o

/-- What a clause claims about the record (its meaning, independent of the monitor): the clause of
the property it names is false on the record, and the numbers it quotes are the record's. -/
def SClause.holdsOf (o : SessObs) : SClause → Prop
  | .tcNotOnce sd n => ¬ P_tcOnce o.hang (o.side sd) ∧ n = (o.side sd).tc
  | .closedRunning sd n => ¬ P_closedIdle (o.side sd) ∧ n = (o.side sd).runAtClose
  | .halfOpen sd rc wc => ¬ P_bothHalves o.hang o.pipe (o.side sd) ∧ rc = (o.side sd).rc ∧ wc = (o.side sd).wc
  | .onCloseTwice sd n => ¬ P_onCloseOnce (o.side sd) ∧ n = (o.side sd).onClose
  | .onCloseMissed sd => ¬ P_onCloseRan (o.side sd)
  | .serverSessionsLeft n => ¬ P_removed o ∧ n = o.serverSessions ∧ n ≠ 0
  | .clientSessionsLeft n => ¬ P_removed o ∧ n = o.clientSessions ∧ n ≠ 0
  | .subsLeft n => ¬ P_removed o ∧ n = o.subsLeft ∧ n ≠ 0
  | .runNotReturned => ¬ P_runReturns o

/-! ## string layer (trusted; the driver echoes `render (parse x)` as the model's observation, so a
token the parser drops or misreads shows as a difference `D`) -/

def SClause.text : SClause → String
  | .tcNotOnce sd n => s!"C05: the {sd.name}'s transport was closed {n} times (want exactly once)"
  | .closedRunning sd n => s!"C05: the {sd.name}'s transport was closed while {n} of its handlers were still running and the transport had not failed"
  | .halfOpen sd rc wc => s!"C05: the {sd.name}'s session over IOTransport has ended and its transport was closed, but not both halves the user handed in were closed (Reader.Close calls {rc}, Writer.Close calls {wc}): a reader that is never closed leaves the transport's read loop, blocked in Read, behind for ever"
  | .onCloseTwice sd n => s!"C05: {sd.sess}'s onClose ran {n} times"
  | .onCloseMissed sd => s!"C05: {sd.sess}.Close returned without running onClose"
  | .serverSessionsLeft n => s!"C05: Server.Sessions() still yields {n} session(s) after the session ended"
  | .clientSessionsLeft n => s!"C05: the Client still holds {n} session(s) after the session ended"
  | .subsLeft n => s!"C05: the Server still remembers {n} subscription(s) of the ended session"
  | .runNotReturned => "C05: Server.Run has not returned although its session has ended and every Close and Wait returned"

def b01 (b : Bool) : String := if b then "1" else "0"

def renderSide (p : String) (o : SideObs) : String :=
  s!"{p}conn={b01 o.connected} {p}tc={o.tc} {p}run={o.runAtClose} {p}rc={o.rc} {p}wc={o.wc} {p}oc={o.onClose} {p}cr={b01 o.closeReturned}"

def render (o : SessObs) : String :=
  s!"hang={b01 o.hang} pipe={b01 o.pipe} {renderSide "c." o.client} {renderSide "s." o.server} ssess={o.serverSessions} csess={o.clientSessions} subs={o.subsLeft} viarun={b01 o.viaRun} runret={b01 o.runReturned}"

def parseSide (get : String → Option String) (p : String) : Option SideObs := do
  let nat := fun k => (get (p ++ k)).bind (·.toNat?)
  let bit := fun k => (get (p ++ k)).map (· == "1")
  pure { connected := ← bit "conn", tc := ← nat "tc", runAtClose := ← nat "run", rc := ← nat "rc", wc := ← nat "wc",
         onClose := ← nat "oc", closeReturned := ← bit "cr" }

def parse (rec : String) : Option SessObs := do
  let kv := (rec.splitOn " ").filterMap fun t =>
    match t.splitOn "=" with
    | [k, v] => some (k, v)
    | _ => none
  let get := fun k => kv.lookup k
  let nat := fun k => (get k).bind (·.toNat?)
  let bit := fun k => (get k).map (· == "1")
  pure { hang := ← bit "hang", pipe := ← bit "pipe", client := ← parseSide get "c.", server := ← parseSide get "s.",
         serverSessions := ← nat "ssess", clientSessions := ← nat "csess", subsLeft := ← nat "subs",
         viaRun := ← bit "viarun", runReturned := ← bit "runret" }

end SessMon
