import McpModel.SessClose.Wire
/-!
Theorems about the wire monitor of stream `sess` (C02; `SessClose/Wire.lean`): `wireMon_complete`
(the monitor is silent exactly on the taps that satisfy the three wire clauses `WireOK`) and per-clause
soundness `sound_wRespNoCall`, `sound_wRespTwice`, `sound_wUnanswered` (a reported clause refutes the
clause of the property it names).
-/
namespace SessMon

/-! ### theorems -/

theorem chkNoCall_nil_iff (evs : List WEv) : ∀ seen : List String,
    chkNoCall seen evs = [] ↔
      ∀ pre id post, evs = pre ++ .wroteResp id :: post → id ≠ "" ∧ (id ∈ seen ∨ ∃ s l, WEv.readCall id s l ∈ pre) := by
  induction evs with
  | nil => intro seen; simp [chkNoCall]
  | cons e t ih =>
    intro seen
    cases e with
    | readCall rid s l =>
      simp only [chkNoCall]
      rw [ih]
      constructor
      · intro h pre id post heq
        cases pre with
        | nil => simp at heq
        | cons p pre' =>
          simp only [List.cons_append, List.cons.injEq] at heq
          obtain ⟨rfl, heq⟩ := heq
          obtain ⟨h1, h2⟩ := h pre' id post heq
          refine ⟨h1, ?_⟩
          rcases h2 with h2 | ⟨s', l', h2⟩
          · rcases List.mem_cons.mp h2 with rfl | h2
            · exact .inr ⟨s, l, by simp⟩
            · exact .inl h2
          · exact .inr ⟨s', l', List.mem_cons_of_mem _ h2⟩
      · intro h pre id post heq
        obtain ⟨h1, h2⟩ := h (.readCall rid s l :: pre) id post (by simp [heq])
        refine ⟨h1, ?_⟩
        rcases h2 with h2 | ⟨s', l', h2⟩
        · exact .inl (List.mem_cons_of_mem _ h2)
        · rcases List.mem_cons.mp h2 with h2 | h2
          · cases h2; exact .inl (by simp)
          · exact .inr ⟨s', l', h2⟩
    | wroteResp rid =>
      simp only [chkNoCall, List.append_eq_nil_iff]
      rw [ih]
      constructor
      · rintro ⟨h0, h⟩ pre id post heq
        cases pre with
        | nil =>
          simp only [List.nil_append, List.cons.injEq, WEv.wroteResp.injEq] at heq
          obtain ⟨rfl, _⟩ := heq
          by_cases hc : rid = "" ∨ rid ∉ seen
          · simp [hc] at h0
          · have : rid ≠ "" ∧ rid ∈ seen := by
              constructor
              · intro h'; exact hc (.inl h')
              · exact Decidable.byContradiction fun h' => hc (.inr h')
            exact ⟨this.1, .inl this.2⟩
        | cons p pre' =>
          simp only [List.cons_append, List.cons.injEq] at heq
          obtain ⟨rfl, heq⟩ := heq
          obtain ⟨h1, h2⟩ := h pre' id post heq
          refine ⟨h1, ?_⟩
          rcases h2 with h2 | ⟨s', l', h2⟩
          · exact .inl h2
          · exact .inr ⟨s', l', List.mem_cons_of_mem _ h2⟩
      · intro h
        constructor
        · obtain ⟨h1, h2⟩ := h [] rid t rfl
          have : ¬ (rid = "" ∨ rid ∉ seen) := by
            rintro (h' | h')
            · exact h1 h'
            · rcases h2 with h2 | ⟨_, _, h2⟩
              · exact h' h2
              · simp at h2
          simp [this]
        · intro pre id post heq
          obtain ⟨h1, h2⟩ := h (.wroteResp rid :: pre) id post (by simp [heq])
          refine ⟨h1, ?_⟩
          rcases h2 with h2 | ⟨s', l', h2⟩
          · exact .inl h2
          · rcases List.mem_cons.mp h2 with h2 | h2
            · cases h2
            · exact .inr ⟨s', l', h2⟩

theorem chkTwice_nil_iff (l : List String) : chkTwice l = [] ↔ l.Nodup := by
  induction l with
  | nil => simp [chkTwice]
  | cons a t ih =>
    simp only [chkTwice, List.append_eq_nil_iff, ih, List.nodup_cons]
    by_cases h : a ∈ t <;> simp [h]

theorem chkAnswered_nil_iff (o : WireObs) : chkAnswered o = [] ↔ P_answered o := by
  unfold chkAnswered P_answered
  cases hj : o.judgeAnswered
  · simp
  · simp only [if_true, List.map_eq_nil_iff, List.filter_eq_nil_iff, forall_const]
    constructor
    · intro h x hx h1 h2
      have := h x hx
      simp only [h1, h2, decide_true, Bool.not_false, Bool.and_self, Bool.true_and, Bool.not_eq_true',
        decide_eq_false_iff_not, Decidable.not_not] at this
      exact this
    · intro h x hx hc
      simp only [Bool.and_eq_true, decide_eq_true_eq, Bool.not_eq_true', decide_eq_false_iff_not] at hc
      exact hc.2 (h x hx hc.1.1 hc.1.2)

/-- **wireMon_complete.** The wire monitor of C02 is silent exactly on the taps that satisfy the three
wire clauses. -/
theorem wireMon_complete (o : WireObs) : wireMon o = [] ↔ WireOK o := by
  unfold wireMon WireOK P_answersCall P_once
  simp only [List.append_eq_nil_iff, chkTwice_nil_iff, chkAnswered_nil_iff, and_assoc]
  rw [chkNoCall_nil_iff]
  simp

/-! per-clause soundness: a reported clause refutes the property clause it names -/

theorem chkNoCall_kind {seen : List String} {evs : List WEv} {c : WClause} (h : c ∈ chkNoCall seen evs) :
    ∃ id, c = .respNoCall id := by
  induction evs generalizing seen with
  | nil => simp [chkNoCall] at h
  | cons e t ih =>
    cases e with
    | readCall rid s l => exact ih h
    | wroteResp rid =>
      simp only [chkNoCall, List.mem_append] at h
      rcases h with h | h
      · split at h
        · simp at h; exact ⟨rid, h⟩
        · simp at h
      · exact ih h

theorem chkTwice_kind {l : List String} {c : WClause} (h : c ∈ chkTwice l) : ∃ id, c = .respTwice id := by
  induction l with
  | nil => simp [chkTwice] at h
  | cons a t ih =>
    simp only [chkTwice, List.mem_append] at h
    rcases h with h | h
    · split at h
      · simp at h; exact ⟨a, h⟩
      · simp at h
    · exact ih h

theorem chkAnswered_kind {o : WireObs} {c : WClause} (h : c ∈ chkAnswered o) : ∃ id, c = .unanswered id := by
  unfold chkAnswered at h
  split at h
  · simp only [List.mem_map] at h
    obtain ⟨x, _, rfl⟩ := h
    exact ⟨x.1, rfl⟩
  · simp at h

theorem sound_wRespNoCall (o : WireObs) (id : String) (h : .respNoCall id ∈ wireMon o) : ¬ P_answersCall o.evs := by
  intro P
  have hn : chkNoCall [] o.evs = [] := (chkNoCall_nil_iff o.evs []).mpr (by
    intro pre id' post heq
    obtain ⟨h1, h2⟩ := P pre id' post heq
    exact ⟨h1, .inr h2⟩)
  unfold wireMon at h
  simp only [List.mem_append, hn, List.not_mem_nil, false_or] at h
  rcases h with h | h
  · obtain ⟨_, hc⟩ := chkTwice_kind h; cases hc
  · obtain ⟨_, hc⟩ := chkAnswered_kind h; cases hc

theorem sound_wRespTwice (o : WireObs) (id : String) (h : .respTwice id ∈ wireMon o) : ¬ P_once o.evs := by
  intro P
  have hn : chkTwice (respIds o.evs) = [] := (chkTwice_nil_iff _).mpr P
  unfold wireMon at h
  simp only [List.mem_append, hn, List.not_mem_nil, or_false] at h
  rcases h with h | h
  · obtain ⟨_, hc⟩ := chkNoCall_kind h; cases hc
  · obtain ⟨_, hc⟩ := chkAnswered_kind h; cases hc

theorem sound_wUnanswered (o : WireObs) (id : String) (h : .unanswered id ∈ wireMon o) : ¬ P_answered o := by
  intro P
  have hn : chkAnswered o = [] := (chkAnswered_nil_iff o).mpr P
  unfold wireMon at h
  simp only [List.mem_append, hn, List.not_mem_nil, or_false] at h
  rcases h with h | h
  · obtain ⟨_, hc⟩ := chkNoCall_kind h; cases hc
  · obtain ⟨_, hc⟩ := chkTwice_kind h; cases hc

/-- Non-vacuity. -/
example : wireMon { evs := [.readCall "1" 3 false, .wroteResp "1"], judgeAnswered := true, qSeq := 9 } = [] := by decide
example : wireMon { evs := [.readCall "1" 3 false, .wroteResp "1", .wroteResp "1"] } = [.respTwice "1"] := by decide
example : wireMon { evs := [.wroteResp "7"] } = [.respNoCall "7"] := by decide
example : wireMon { evs := [.readCall "1" 3 false, .readCall "2" 4 true], judgeAnswered := true, qSeq := 9 } = [.unanswered "1"] := by decide

end SessMon
