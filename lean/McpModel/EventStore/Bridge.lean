import McpModel.EventStore.Props
import McpModel.EventStore.Monitor
/-!
# Bridge between the C20 monitor and the model (E15)

`monitor_accepts_model`: for ALL record sequences — API calls over any sessions and streams, payloads
of any size, any limits, `After` with an `Append` issued from inside the iteration, `stat` probes — the
model never panics and the monitor of Monitor.lean raises no clause on the model's answers.  The
invariant (`Link`) ties the monitor's own bookkeeping to the model's state: its abstract log of a
stream is the ghost log of the model's entry (`book_spec`: the bookkeeping is `specStep` of Props.lean),
its "most recent item" is the model's ghost `lastApp`, the configured maximum is `maxBytes`; on top of
the model's invariant `Inv` (Props.lean).
-/
namespace EventStore

/-! ## The monitor's bookkeeping is the abstract specification -/

theorem lookup_append' {β : Type} (k : Key) (a b : List (Key × β)) :
    (a ++ b).lookup k = (a.lookup k).or (b.lookup k) := by
  induction a with
  | nil => simp [List.lookup]
  | cons p t ih =>
    obtain ⟨k', v⟩ := p
    cases hk : (k == k') <;> simp [List.lookup, hk, ih]

theorem lookup_filter_ne {β : Type} (k k' : Key) (sp : List (Key × β)) :
    (sp.filter (fun p => p.1 != k)).lookup k' = if k' = k then none else sp.lookup k' := by
  induction sp with
  | nil => simp [List.lookup]
  | cons p t ih =>
    obtain ⟨k1, v⟩ := p
    by_cases h1 : k1 = k
    · subst h1
      by_cases h2 : k' = k1
      · subst h2; simp [List.filter, ih]
      · have : (k' == k1) = false := by simpa using h2
        simp [List.filter, ih, List.lookup, this, h2]
    · have hne : (k1 != k) = true := by simpa using h1
      simp only [List.filter, hne, List.lookup]
      by_cases h2 : k' = k1
      · subst h2; simp [h1]
      · have : (k' == k1) = false := by simpa using h2
        simp only [this, ih]

theorem lookup_specUpd (k k' : Key) (f : Option (List String) → Option (List String)) (sp : List (Key × List String)) :
    (specUpd k f sp).lookup k' = if k' = k then f (sp.lookup k) else sp.lookup k' := by
  simp only [specUpd]
  cases hf : f (sp.lookup k) with
  | none => simp only [lookup_filter_ne]
  | some l =>
    simp only [lookup_append', lookup_filter_ne]
    by_cases h : k' = k
    · subst h; simp [List.lookup]
    · have : (k' == k) = false := by simpa using h
      simp [h, List.lookup, this]

theorem lookup_filter_sess {β : Type} (sess : String) (k : Key) (sp : List (Key × β)) :
    (sp.filter (fun q => q.1.1 != sess)).lookup k = if k.1 = sess then none else sp.lookup k := by
  induction sp with
  | nil => simp [List.lookup]
  | cons p t ih =>
    obtain ⟨k1, v⟩ := p
    by_cases h1 : k1.1 = sess
    · have hne : (k1.1 != sess) = false := by simp [h1]
      simp only [List.filter, hne, ih, List.lookup]
      by_cases h2 : k = k1
      · subst h2; simp [h1]
      · have : (k == k1) = false := by simpa using h2
        simp only [this]
    · have hne : (k1.1 != sess) = true := by simpa using h1
      simp only [List.filter, hne, List.lookup]
      by_cases h2 : k = k1
      · subst h2; simp [h1]
      · have : (k == k1) = false := by simpa using h2
        simp only [this, ih]

/-- The monitor's bookkeeping of a stream moves exactly as the abstract specification `specStep`. -/
theorem book_spec (m : MState) (op : Op String) (k : Key) :
    (bookOp m op).spec.lookup k = specStep k (m.spec.lookup k) op := by
  cases op with
  | «open» k' =>
    simp only [bookOp, specStep, lookup_specUpd]
    by_cases h : k = k'
    · subst h; simp
    · have : ¬ k' = k := fun e => h e.symm
      simp [h, this]
  | append k' d =>
    simp only [bookOp, specStep, lookup_specUpd]
    by_cases h : k = k'
    · subst h; simp
    · have : ¬ k' = k := fun e => h e.symm
      simp [h, this]
  | after k' i => rfl
  | setMax n => rfl
  | closed sess => simp only [bookOp, specStep, lookup_filter_sess]
  | maxBytes => rfl

/-! ## The fields of the model's state after a step -/

/-- The ghost `lastApp` after an API call. -/
def lastAppAfter (s : Store String) : Op String → Nat
  | .append _ d => psz d
  | .setMax _ => 0
  | _ => s.lastApp

/-- `maxBytes` after an API call. -/
def maxAfter (s : Store String) : Op String → Nat
  | .setMax n => if n = 0 then defaultMaxBytes else n
  | _ => s.maxBytes

theorem step_fields (s s' : Store String) (op : Op String) (o : Out String) (h : Inv psz s)
    (hs : step psz s op = some (s', o)) :
    s'.lastApp = lastAppAfter s op ∧ s'.maxBytes = maxAfter s op := by
  obtain ⟨h1, h2, _⟩ := h
  cases op with
  | «open» k => simp only [step, Option.some.injEq, Prod.mk.injEq] at hs; rw [← hs.1]; exact ⟨rfl, rfl⟩
  | append k d =>
    obtain ⟨e1, e2, _⟩ := ensure_spec psz k s.store h1
    obtain ⟨s1, p1, _, _, _, _, _, p7, _⟩ :=
      purge_spec psz { s with store := ensure k s.store } e1 (by simp [e2, h2])
    simp only [step, p1, Option.some.injEq, Prod.mk.injEq] at hs
    rw [← hs.1]; exact ⟨rfl, p7⟩
  | after k i =>
    simp only [step] at hs
    split at hs <;> (simp only [Option.some.injEq, Prod.mk.injEq] at hs; rw [← hs.1]; exact ⟨rfl, rfl⟩)
  | setMax n =>
    obtain ⟨s1, p1, _, _, _, _, _, p7, p8⟩ :=
      purge_spec psz { s with maxBytes := (if n = 0 then defaultMaxBytes else n), lastApp := 0 } h1 h2
    simp only [step, p1, Option.some.injEq, Prod.mk.injEq] at hs
    rw [← hs.1]; exact ⟨p8, p7⟩
  | closed sess => simp only [step, Option.some.injEq, Prod.mk.injEq] at hs; rw [← hs.1]; exact ⟨rfl, rfl⟩
  | maxBytes => simp only [step, Option.some.injEq, Prod.mk.injEq] at hs; rw [← hs.1]; exact ⟨rfl, rfl⟩

/-! ## `After` on a consistent stream -/

/-- `After(i)`, `i ≥ -1`, on a stream satisfying the per-stream invariant: the purge error exactly when
position `i+1` has been evicted (then something lies after `i`), otherwise exactly the log after `i`. -/
theorem afterOut_spec (dl : DL String) (h : DLInv psz dl) (i : Int) (hi : -1 ≤ i) :
    (afterOut dl i = .purged ∧ (i + 1).toNat < dl.log.length) ∨
    afterOut dl i = .items (dl.log.drop (i + 1).toNat) := by
  obtain ⟨_, hd, hfirst⟩ := h
  simp only [afterOut]
  by_cases hneg : (i + 1 - (dl.first : Int)) < 0
  · left; simp only [hneg, if_true, true_and]; omega
  · right
    simp only [hneg, if_false]
    have hst : (i + 1 - (dl.first : Int)).toNat + dl.first = (i + 1).toNat := by omega
    by_cases hge : (i + 1 - (dl.first : Int)).toNat ≥ dl.data.length
    · simp only [hge, if_true]
      have hlen : dl.data.length + dl.first = dl.log.length := by
        rw [hd]; simp; omega
      have : dl.log.length ≤ (i + 1).toNat := by omega
      simp [List.drop_eq_nil_of_le this]
    · simp only [hge, if_false]
      rw [hd, List.drop_drop, Nat.add_comm, hst]

/-! ## The invariant and the theorem -/

/-- The monitor's bookkeeping describes the model's state. -/
structure Link (m : MState) (s : Store String) : Prop where
  inv : Inv psz s
  spec : ∀ k, m.spec.lookup k = (logs s.store).lookup k
  last : m.lastApp = s.lastApp
  max : ∀ n, m.maxCfg = some n → s.maxBytes = n

theorem link_init : Link {} (init : Store String) :=
  ⟨inv_init psz, fun _ => rfl, rfl, fun _ h => by cases h⟩

/-- The `After` clause is silent on the model's answer. -/
theorem afterClause_model (m : MState) (s : Store String) (hl : Link m s) (k : Key) (i : Int) (o : Out String)
    (hs : step psz s (.after k i) = some (s, o)) : afterClause m k i (obsOfOut o) = none := by
  simp only [afterClause]
  by_cases hi : i < -1
  · simp [hi]
  · simp only [hi, if_false]
    have hfl := find_logs k s.store
    rw [hl.spec k, ← hfl]
    cases hf : find k s.store with
    | none =>
      simp only [step, hf, Option.some.injEq, Prod.mk.injEq, true_and] at hs
      subst hs; simp [obsOfOut]
    | some dl =>
      simp only [step, hf, Option.some.injEq, Prod.mk.injEq, true_and] at hs
      subst hs
      have hdl : DLInv psz dl := hl.inv.1 (k, dl) (find_mem k s.store dl hf)
      simp only [Option.map_some]
      rcases afterOut_spec dl hdl i (by omega) with ⟨hp, hlt⟩ | hit
      · have hne : (dl.log.drop (i + 1).toNat).isEmpty = false := by
          cases hd : dl.log.drop (i + 1).toNat with
          | nil => rw [List.drop_eq_nil_iff] at hd; omega
          | cons a t => rfl
        simp [hp, obsOfOut, hne]
      · simp [hit, obsOfOut]

theorem after_step_state (s s' : Store String) (k : Key) (i : Int) (o : Out String)
    (hs : step psz s (.after k i) = some (s', o)) : s' = s := by
  simp only [step] at hs
  split at hs <;> (simp only [Option.some.injEq, Prod.mk.injEq] at hs; exact hs.1.symm)

/-- One API call: the model answers, the monitor is silent, the link is kept. -/
theorem op_accepts (m : MState) (s : Store String) (hl : Link m s) (op : Op String) :
    ∃ s' o, step psz s op = some (s', o) ∧ opClause m op (obsOfOut o) = none ∧ Link (bookOp m op) s' := by
  obtain ⟨s', o, hs, hinv, hlog⟩ := step_inv psz s op hl.inv
  obtain ⟨f1, f2⟩ := step_fields s s' op o hl.inv hs
  refine ⟨s', o, hs, ?_, ⟨hinv, ?_, ?_, ?_⟩⟩
  · have hnp : obsOfOut o ≠ .panic := by cases o <;> simp [obsOfOut]
    simp only [opClause, hnp, if_false]
    cases op with
    | after k i =>
      have := after_step_state s s' k i o hs; subst this
      exact afterClause_model m s' hl k i o hs
    | _ => rfl
  · intro k; rw [book_spec, hlog k, hl.spec k]
  · rw [f1]; cases op <;> simp [bookOp, lastAppAfter, hl.last]
  · intro n hn
    rw [f2]
    cases op with
    | setMax n' =>
      simp only [bookOp] at hn
      simp only [maxAfter]
      by_cases h0 : n' = 0
      · simp [h0] at hn
      · simp only [h0, if_false, Option.some.injEq] at hn ⊢; exact hn
    | _ => exact hl.max n (by simpa [bookOp] using hn)

/-! ## The iteration protocol -/

/-- What `After` answers travels unchanged through the nested-observation type. -/
theorem after_out_kind (s s' : Store String) (k : Key) (i : Int) (o : Out String)
    (hs : step psz s (.after k i) = some (s', o)) : (aobsOfOut o).toObs = obsOfOut o := by
  simp only [step] at hs
  split at hs
  · simp only [Option.some.injEq, Prod.mk.injEq] at hs; rw [← hs.2]; rfl
  · rename_i dl _
    simp only [Option.some.injEq, Prod.mk.injEq] at hs; rw [← hs.2]
    simp only [afterOut]
    split
    · rfl
    · split <;> rfl

/-- The calls issued from inside an iteration: the model answers them all, the monitor is silent on the
answers to the `After`s among them (each judged at its time), the link is kept. -/
theorem script_accepts : ∀ (script : List (Op String)) (m : MState) (s : Store String), Link m s →
    ∃ s' nested, runScript s script = some (s', nested) ∧ nestedClause m script nested = none ∧
      Link (script.foldl bookOp m) s' := by
  intro script
  induction script with
  | nil => intro m s hl; exact ⟨s, [], rfl, rfl, hl⟩
  | cons op ops ih =>
    intro m s hl
    obtain ⟨s1, o, hs, hc, hl1⟩ := op_accepts m s hl op
    obtain ⟨s2, os, hr, hn, hl2⟩ := ih _ s1 hl1
    cases op with
    | after k i =>
      refine ⟨s2, aobsOfOut o :: os, by simp only [runScript, hs, hr], ?_, hl2⟩
      have hk := after_out_kind s s1 k i o hs
      simp only [nestedClause, hk, hc]
      exact hn
    | «open» k => exact ⟨s2, os, by simp only [runScript, hs, hr], by simpa only [nestedClause] using hn, hl2⟩
    | append k d => exact ⟨s2, os, by simp only [runScript, hs, hr], by simpa only [nestedClause] using hn, hl2⟩
    | setMax n => exact ⟨s2, os, by simp only [runScript, hs, hr], by simpa only [nestedClause] using hn, hl2⟩
    | closed sess => exact ⟨s2, os, by simp only [runScript, hs, hr], by simpa only [nestedClause] using hn, hl2⟩
    | maxBytes => exact ⟨s2, os, by simp only [runScript, hs, hr], by simpa only [nestedClause] using hn, hl2⟩

theorem deliverPlain_not_locked (l : List String) (stop : Option Nat) : (deliverPlain l stop).1 ≠ .locked := by
  cases stop with
  | none => simp [deliverPlain]
  | some n =>
    simp only [deliverPlain]
    by_cases h : 1 ≤ n ∧ n ≤ l.length
    · simp [h]
    · simp [h]

theorem deliver_ignore_not_locked (it : Iter String) (stop : Option Nat) :
    (deliver .ignore it stop none).1 ≠ .locked := by
  obtain ⟨snap, err⟩ := it
  cases err with
  | none => simpa [deliver] using deliverPlain_not_locked snap stop
  | some e => cases e <;> simp [deliver]

/-- The `iter` clause is silent on the model's delivery (the code as it is ignores the context), whatever
the consumer and the context do. -/
theorem iterClause_model (m : MState) (s : Store String) (hl : Link m s) (k : Key) (i : Int) (cm : CtxMode)
    (stop : Option Nat) :
    iterClause m k i cm stop (deliver .ignore (afterIter s k i) stop none).1
      (deliver .ignore (afterIter s k i) stop none).2 = none ∧
    (deliver .ignore (afterIter s k i) stop none).1 ≠ .locked := by
  have hfl := find_logs k s.store
  have hsp := hl.spec k
  rw [← hfl] at hsp
  cases hf : find k s.store with
  | none =>
    rw [hf] at hsp
    have hd : deliver .ignore (afterIter s k i) stop none = (.unknown, []) := by
      simp [deliver, afterIter, hf]
    rw [hd]
    refine ⟨?_, by decide⟩
    simp only [iterClause]
    split
    · rename_i h; cases h
    · split
      · rfl
      · simp [hsp]
  | some dl =>
    rw [hf] at hsp
    simp only [Option.map_some] at hsp
    have hdl : DLInv psz dl := hl.inv.1 (k, dl) (find_mem k s.store dl hf)
    by_cases hi : i < -1
    · exact ⟨by simp only [iterClause, hi, if_true, deliver_ignore_not_locked, if_false], deliver_ignore_not_locked _ _⟩
    · rcases afterOut_spec dl hdl i (by omega) with ⟨hp, hlt⟩ | hit
      · have hd : deliver .ignore (afterIter s k i) stop none = (.purged, []) := by
          simp [deliver, afterIter, hf, hp, iterOfOut]
        rw [hd]
        refine ⟨?_, by decide⟩
        have hne : (dl.log.drop (i + 1).toNat).isEmpty = false := by
          cases hd : dl.log.drop (i + 1).toNat with
          | nil => rw [List.drop_eq_nil_iff] at hd; omega
          | cons a t => rfl
        simp [iterClause, hi, hsp, hne]
      · have hd : deliver .ignore (afterIter s k i) stop none = deliverPlain (dl.log.drop (i + 1).toNat) stop := by
          simp [deliver, afterIter, hf, hit, iterOfOut]
        rw [hd]
        cases stop with
        | none => exact ⟨by simp [deliverPlain, iterClause, hi, hsp], by simp [deliverPlain]⟩
        | some n =>
          simp only [deliverPlain]
          split
          · rename_i hn
            have hn2 := hn.2
            simp only [List.length_drop] at hn2
            exact ⟨by simp [iterClause, hi, hsp, hn.1, hn2], by simp⟩
          · exact ⟨by simp [iterClause, hi, hsp], by simp⟩

theorem dataBytes_eq_total {α} (sz : α → Nat) : ∀ l : List α, dataBytes sz l = total sz l
  | [] => rfl
  | d :: t => by simp only [dataBytes, total_cons, dataBytes_eq_total sz t]

/-- Under the per-stream invariant `validate`'s count is the sum of the streams' `size` fields. -/
theorem retainedBytes_eq_sumSizes {α} (sz : α → Nat) : ∀ (st : List (Key × DL α)), AllInv sz st →
    retainedBytes sz st = sumSizes st
  | [], _ => rfl
  | (k, dl) :: t, h => by
    have h1 : DLInv sz dl := h (k, dl) (by simp)
    have h2 : AllInv sz t := fun p hp => h p (by simp [hp])
    simp only [retainedBytes, sumSizes_cons, dataBytes_eq_total, retainedBytes_eq_sumSizes sz t h2, h1.1]

/-- **validate_never_panics.**  `MemoryEventStore.validate` — the store's own consistency check, compiled out
in /repo — would never fire: after ANY history of exported calls the bytes counted from the retained data
equal `nBytes`. -/
theorem validate_never_panics {α} (sz : α → Nat) (ops : List (Op α)) :
    ∃ s os, run sz init ops = some (s, os) ∧ validate sz s = some () := by
  obtain ⟨s, os, e, ⟨hinv, hacc, _⟩, _⟩ := reachable sz ops
  exact ⟨s, os, e, by simp [validate, retainedBytes_eq_sumSizes sz s.store hinv, hacc]⟩

/-- One record. -/
theorem rec_accepts (m : MState) (s : Store String) (hl : Link m s) (r : Rec) :
    ∃ s' obs, recStep s r = some (s', obs) ∧ (monStep m r obs).2 = none ∧ Link (monStep m r obs).1 s' := by
  cases r with
  | op o =>
    obtain ⟨s', out, hs, hc, hl'⟩ := op_accepts m s hl o
    exact ⟨s', obsOfOut out, by simp [recStep, hs], hc, hl'⟩
  | afteri k i k2 p =>
    obtain ⟨s1, o1, hs1, hc1, hl1⟩ := op_accepts m s hl (.after k i)
    have := after_step_state s s1 k i o1 hs1; subst this
    obtain ⟨s2, o2, hs2, _, hl2⟩ := op_accepts m s1 hl (.append k2 p)
    exact ⟨s2, obsOfOut o1, by simp [recStep, hs1, hs2], hc1, hl2⟩
  | iter k i cm stop script =>
    obtain ⟨s', nested, hr, hn, hl'⟩ := script_accepts script m s hl
    obtain ⟨hc, _⟩ := iterClause_model m s hl k i cm stop
    refine ⟨s', .iter (deliver .ignore (afterIter s k i) stop none).1 (deliver .ignore (afterIter s k i) stop none).2 nested,
      by simp only [recStep, hr], ?_, hl'⟩
    simp only [monStep, hc]
    exact hn
  | stat =>
    refine ⟨s, _, rfl, ?_, hl⟩
    simp only [monStep, statClause]
    have hb := hl.inv.2.2
    have hm : m.maxCfg.getD s.maxBytes = s.maxBytes := by
      cases hc : m.maxCfg with
      | none => rfl
      | some n => simp [hl.max n hc]
    rw [hm, hl.last, retainedBytes_eq_sumSizes psz s.store hl.inv.1, ← hl.inv.2.1]; simp [hb]
  | concurrent => exact ⟨s, _, rfl, by simp [monStep], hl⟩

theorem runMonFrom_accepts : ∀ (rs : List Rec) (m : MState) (s : Store String) (j : Nat), Link m s →
    ∃ s' os, recRun s rs = some (s', os) ∧ os.length = rs.length ∧ runMonFrom m j (rs.zip os) = none := by
  intro rs
  induction rs with
  | nil => intro m s j _; exact ⟨s, [], rfl, rfl, rfl⟩
  | cons r rs ih =>
    intro m s j hl
    obtain ⟨s1, obs, h1, h2, h3⟩ := rec_accepts m s hl r
    obtain ⟨s2, os, e1, e2, e3⟩ := ih _ s1 (j + 1) h3
    refine ⟨s2, obs :: os, by simp [recRun, h1, e1], by simp [e2], ?_⟩
    simp only [List.zip_cons_cons, runMonFrom, h2]
    exact e3

/-- **monitor_accepts_model.** For every record sequence the model answers every record (no panic) and
the monitor raises no clause on the trace of the model's answers. -/
theorem monitor_accepts_model (rs : List Rec) :
    ∃ s os, recRun init rs = some (s, os) ∧ os.length = rs.length ∧ runMon (rs.zip os) = none :=
  runMonFrom_accepts rs {} init 0 link_init

end EventStore
