import McpModel.EventStore.Bridge
/-!
# Clause soundness and completeness of the C20 monitor (E15)

A trace is the list of records of one case, each with what the IMPLEMENTATION answered (`Obs`).
Every clause of the property the monitor can report is stated as a predicate `P_…` on traces, written
from the property text with three functions of the history of API calls before a position
(`hist tr j`): `specLog k` (Props.lean: everything appended to stream `k` since it was created — the
abstract log the store must refine), `allowance` (the size of the item of the most recent `Append`;
0 once `SetMaxBytes` re-established the maximum: "the size of the store will be adjusted") and
`cfgMax` (the maximum configured by the most recent `SetMaxBytes(n)`, `n > 0`) — no monitor state, no
model.  `sound_<clause>`: whenever the monitor run reports the clause at position `j`, the predicate
fails on the trace; `monitor_sound` packages them; `monitor_complete`: a silent run means every
predicate holds; `model_satisfies_P`: they hold on the model's answers to any record sequence.
-/
namespace EventStore

abbrev Trace := List (Rec × Obs)

/-- The API calls a record makes, in order. -/
def opsOf : Rec → List (Op String)
  | .op o => [o]
  | .afteri k i k2 p => [.after k i, .append k2 p]
  | .iter k i _ _ script => .after k i :: script
  | .stat => []
  | .concurrent => []

/-- The API calls made before position `j`. -/
def hist (tr : Trace) (j : Nat) : List (Op String) := (tr.take j).flatMap fun p => opsOf p.1

/-- A COMPLETE `After(k, i)` (live context, drained) made by a record after `off` of the record's API
calls, with what it observed. -/
structure Query where
  off : Nat
  k : Key
  i : Int
  obs : Obs

/-- The `After`s issued from inside an iteration (`off` calls of the record come before the script). -/
def nestedQ : Nat → List (Op String) → List AObs → List Query
  | _, [], _ => []
  | off, op :: ops, os =>
    match op with
    | .after k i =>
      match os with
      | [] => []
      | o :: os' => ⟨off, k, i, o.toObs⟩ :: nestedQ (off + 1) ops os'
    | _ => nestedQ (off + 1) ops os

/-- The complete `After`s of a record. -/
def queries : Rec → Obs → List Query
  | .op o, obs => match o with
    | .after k i => [⟨0, k, i, obs⟩]
    | _ => []
  | .afteri k i _ _, obs => [⟨0, k, i, obs⟩]
  | .iter _ _ _ _ script, obs => match obs with
    | .iter _ _ nested => nestedQ 1 script nested
    | _ => []
  | _, _ => []

/-- The API calls made before the query at offset `off` of the record at position `j`. -/
def histQ (tr : Trace) (j : Nat) (r : Rec) (off : Nat) : List (Op String) := hist tr j ++ (opsOf r).take off

/-- The ITERATION of an `iter` record: stream, index, context, where the consumer breaks; how it ended and
what it delivered before. -/
structure IterQ where
  k : Key
  i : Int
  cm : CtxMode
  stop : Option Nat
  t : Term
  items : List String

def iterOf : Rec → Obs → Option IterQ
  | .iter k i cm stop _, obs => match obs with
    | .iter t items _ => some ⟨k, i, cm, stop, t, items⟩
    | _ => none
  | _, _ => none

def isAfter : Op String → Bool
  | .after _ _ => true
  | _ => false

def countAfter (script : List (Op String)) : Nat := (script.filter isAfter).length

/-- The outcomes of an iteration the property allows, given `exp` = the payloads after the index as of its
start: complete and exact; broken by the consumer after exactly the first `stop`; the purge error at once;
a context error after a prefix.  (Ending normally after a proper prefix is NOT among them.) -/
def Allowed (exp : List String) (stop : Option Nat) (t : Term) (items : List String) : Prop :=
  (t = .fin ∧ items = exp) ∨
  (t = .broke ∧ ∃ n, stop = some n ∧ 1 ≤ n ∧ n ≤ exp.length ∧ items = exp.take n) ∨
  (t = .purged ∧ items = []) ∨
  (t = .ctx ∧ items <+: exp)

def allowStep (a : Nat) : Op String → Nat
  | .append _ d => psz d
  | .setMax _ => 0
  | _ => a

/-- "the most recent item": the size of the item of the most recent `Append`, unless a `SetMaxBytes`
came after it (which re-establishes the maximum). -/
def allowance (ops : List (Op String)) : Nat := ops.foldl allowStep 0

def cfgStep (c : Option Nat) : Op String → Option Nat
  | .setMax n => if n = 0 then none else some n
  | _ => c

/-- "the configured maximum": what the most recent `SetMaxBytes(n)`, `n > 0`, configured (`none`: the default). -/
def cfgMax (ops : List (Op String)) : Option Nat := ops.foldl cfgStep none

/-! ## The property clauses, as predicates on traces -/

/-- An `After` on a stream that does not exist reports the unknown stream (an iteration of it delivers
nothing and ends with that error — or with the context's). -/
def P_unknown_reported (tr : Trace) : Prop :=
  (∀ j r obs q, tr[j]? = some (r, obs) → q ∈ queries r obs → -1 ≤ q.i →
    specLog q.k (histQ tr j r q.off) = none → q.obs = .unknown) ∧
  (∀ j r obs iq, tr[j]? = some (r, obs) → iterOf r obs = some iq → iq.t ≠ .locked → -1 ≤ iq.i →
    specLog iq.k (hist tr j) = none → iq.items = [] ∧ (iq.t = .unknown ∨ iq.t = .ctx))

/-- "returns exactly the payloads appended to that stream after that index, in append order, or an
events-purged error … never a partial or gapped sequence": a complete `After` answers the purge error or
exactly the log after the index; an iteration ends in one of the `Allowed` ways. -/
def P_exact_or_purged (tr : Trace) : Prop :=
  (∀ j r obs q log, tr[j]? = some (r, obs) → q ∈ queries r obs → -1 ≤ q.i →
    specLog q.k (histQ tr j r q.off) = some log → q.obs = .purged ∨ q.obs = .items (log.drop (q.i + 1).toNat)) ∧
  (∀ j r obs iq log, tr[j]? = some (r, obs) → iterOf r obs = some iq → iq.t ≠ .locked → -1 ≤ iq.i →
    specLog iq.k (hist tr j) = some log → Allowed (log.drop (iq.i + 1).toNat) iq.stop iq.t iq.items)

/-- "an events-purged error if any of them has been evicted": the purge error only if some payload
lies after the index. -/
def P_purged_only_if_evicted (tr : Trace) : Prop :=
  (∀ j r obs q log, tr[j]? = some (r, obs) → q ∈ queries r obs → -1 ≤ q.i →
    specLog q.k (histQ tr j r q.off) = some log → q.obs = .purged → (q.i + 1).toNat < log.length) ∧
  (∀ j r obs iq log, tr[j]? = some (r, obs) → iterOf r obs = some iq → iq.t ≠ .locked → -1 ≤ iq.i →
    specLog iq.k (hist tr j) = some log → iq.t = .purged → (iq.i + 1).toNat < log.length)

/-- **after_iteration_complete_or_error**, on the observed trace: an iteration that ended WITHOUT an
error and was not broken by its consumer delivered everything — a prefix of the payloads after the
index is the whole of them ("it never returns a partial … sequence"). -/
def P_never_silently_short (tr : Trace) : Prop :=
  ∀ j r obs iq log, tr[j]? = some (r, obs) → iterOf r obs = some iq → -1 ≤ iq.i →
    specLog iq.k (hist tr j) = some log → iq.t = .fin → iq.items <+: log.drop (iq.i + 1).toNat →
    iq.items = log.drop (iq.i + 1).toNat

/-- A context error is yielded only once the context is done: the record cancels it (lets its deadline
pass) in the body of the `c`-th item, so at least `c` items were delivered before. -/
def P_ctx_error_only_if_done (tr : Trace) : Prop :=
  ∀ (j : Nat) r obs iq, tr[j]? = some (r, obs) → iterOf r obs = some iq → -1 ≤ iq.i → iq.t = .ctx →
    ∃ c, iq.cm.point = some c ∧ c ≤ iq.items.length

/-- The iterator delivers outside the store's lock (on its private snapshot). -/
def P_delivery_lock_free (tr : Trace) : Prop :=
  ∀ (j : Nat) r obs iq, tr[j]? = some (r, obs) → iterOf r obs = some iq → iq.t ≠ .locked

/-- An `iter` record is answered with an iteration outcome and one observation per `After` of its script. -/
def IterReadable : Rec → Obs → Prop
  | .iter _ _ _ _ script, obs =>
    obs = .panic ∨ ∃ t items nested, obs = .iter t items nested ∧ (t = .locked ∨ nested.length = countAfter script)
  | _, _ => True

def P_iter_readable (tr : Trace) : Prop :=
  ∀ (j : Nat) r obs, tr[j]? = some (r, obs) → IterReadable r obs

/-- "Retained bytes never exceed the configured maximum by more than the most recent item". -/
def P_bytes_bound (tr : Trace) : Prop :=
  ∀ (j : Nat) n m r, tr[j]? = some (Rec.stat, Obs.stat n m r) → r ≤ (cfgMax (hist tr j)).getD m + allowance (hist tr j)

/-- The store's own consistency check (`MemoryEventStore.validate`, compiled out in /repo): on every probe
the byte count that drives eviction equals the bytes counted from the retained data. -/
def P_accounting (tr : Trace) : Prop :=
  ∀ (j : Nat) n m r, tr[j]? = some (Rec.stat, Obs.stat n m r) → n = r

/-- A `stat` probe is answered with the three numbers. -/
def P_stat_readable (tr : Trace) : Prop :=
  ∀ (j : Nat) obs, tr[j]? = some (Rec.stat, obs) → ∃ n m r, obs = Obs.stat n m r

/-- "all operations are safe under concurrent use": the harness's verdict on a concurrent run — the byte count
equals the retained data afterwards, and every `After` of a goroutine on the stream only it appends to was
the purge error or exactly what it had appended after the index. -/
def P_concurrent_consistent (tr : Trace) : Prop :=
  ∀ (j : Nat) obs, tr[j]? = some (Rec.concurrent, obs) → obs = Obs.consistent

/-- No exported method panics (neither the record's own calls nor an `After` issued from inside an iteration). -/
def P_no_panic (tr : Trace) : Prop :=
  ∀ (j : Nat) r obs, tr[j]? = some (r, obs) →
    (opsOf r ≠ [] → obs ≠ Obs.panic) ∧ ∀ q ∈ queries r obs, q.obs ≠ Obs.panic

def P_of : Clause → Trace → Prop
  | .afterUnknown => P_unknown_reported
  | .afterWrong => P_exact_or_purged
  | .afterPurgedNothing => P_purged_only_if_evicted
  | .bytesBound => P_bytes_bound
  | .badStat => P_stat_readable
  | .accounting => P_accounting
  | .concurrent => P_concurrent_consistent
  | .panicked => P_no_panic
  | .iterShort => P_never_silently_short
  | .ctxErrLive => P_ctx_error_only_if_done
  | .iterLocked => P_delivery_lock_free
  | .badIter => P_iter_readable

/-! ## The monitor's state is a function of the history -/

/-- The monitor state after a trace. -/
def stateAfter : MState → Trace → MState
  | m, [] => m
  | m, (r, obs) :: tr => stateAfter (monStep m r obs).1 tr

theorem monStep_state (m : MState) (r : Rec) (obs : Obs) : (monStep m r obs).1 = (opsOf r).foldl bookOp m := by
  cases r <;> rfl

theorem stateAfter_hist : ∀ (tr : Trace) (m : MState),
    stateAfter m tr = (tr.flatMap fun p => opsOf p.1).foldl bookOp m := by
  intro tr
  induction tr with
  | nil => intro m; rfl
  | cons p tr ih =>
    intro m
    obtain ⟨r, obs⟩ := p
    simp only [stateAfter, List.flatMap_cons, List.foldl_append, monStep_state, ih]

theorem fold_spec (k : Key) : ∀ (ops : List (Op String)) (m : MState),
    (ops.foldl bookOp m).spec.lookup k = ops.foldl (specStep k) (m.spec.lookup k) := by
  intro ops
  induction ops with
  | nil => intro m; rfl
  | cons op ops ih => intro m; simp only [List.foldl_cons, ih, book_spec]

theorem fold_last : ∀ (ops : List (Op String)) (m : MState),
    (ops.foldl bookOp m).lastApp = ops.foldl allowStep m.lastApp := by
  intro ops
  induction ops with
  | nil => intro m; rfl
  | cons op ops ih =>
    intro m
    simp only [List.foldl_cons, ih]
    cases op <;> rfl

theorem fold_cfg : ∀ (ops : List (Op String)) (m : MState),
    (ops.foldl bookOp m).maxCfg = ops.foldl cfgStep m.maxCfg := by
  intro ops
  induction ops with
  | nil => intro m; rfl
  | cons op ops ih =>
    intro m
    simp only [List.foldl_cons, ih]
    cases op <;> rfl

/-- The monitor's bookkeeping before position `j` is the three history functions. -/
theorem state_at (tr : Trace) (j : Nat) :
    (∀ k, (stateAfter {} (tr.take j)).spec.lookup k = specLog k (hist tr j)) ∧
    (stateAfter {} (tr.take j)).lastApp = allowance (hist tr j) ∧
    (stateAfter {} (tr.take j)).maxCfg = cfgMax (hist tr j) := by
  rw [stateAfter_hist]
  exact ⟨fun k => fold_spec k _ _, fold_last _ _, fold_cfg _ _⟩

/-! ## Where the monitor run reports -/

/-- The run reports `cl` at position `j`. -/
def FiresAt (tr : Trace) (j : Nat) (cl : Clause) : Prop :=
  ∃ r obs, tr[j]? = some (r, obs) ∧ (monStep (stateAfter {} (tr.take j)) r obs).2 = some cl

theorem runMonFrom_fires : ∀ (tr : Trace) (m : MState) (i j : Nat) (cl : Clause),
    runMonFrom m i tr = some (j, cl) →
    ∃ d r obs, j = i + d ∧ tr[d]? = some (r, obs) ∧ (monStep (stateAfter m (tr.take d)) r obs).2 = some cl := by
  intro tr
  induction tr with
  | nil => intro m i j cl h; cases h
  | cons p tr ih =>
    obtain ⟨r, obs⟩ := p
    intro m i j cl h
    simp only [runMonFrom] at h
    cases hc : (monStep m r obs).2 with
    | some c =>
      rw [hc] at h; cases h
      exact ⟨0, r, obs, rfl, rfl, hc⟩
    | none =>
      rw [hc] at h
      obtain ⟨d, r', obs', hj, hd, hf⟩ := ih _ _ _ _ h
      exact ⟨d + 1, r', obs', by omega, hd, hf⟩

theorem runMon_fires {tr : Trace} {j : Nat} {cl : Clause} (h : runMon tr = some (j, cl)) : FiresAt tr j cl := by
  obtain ⟨d, r, obs, hj, hd, hf⟩ := runMonFrom_fires tr {} 0 j cl h
  have : j = d := by omega
  subst this
  exact ⟨r, obs, hd, hf⟩

theorem runMonFrom_none : ∀ (tr : Trace) (m : MState) (i : Nat), runMonFrom m i tr = none →
    ∀ d r obs, tr[d]? = some (r, obs) → (monStep (stateAfter m (tr.take d)) r obs).2 = none := by
  intro tr
  induction tr with
  | nil => intro m i _ d r obs hd; cases hd
  | cons p tr ih =>
    obtain ⟨r0, obs0⟩ := p
    intro m i h d r obs hd
    simp only [runMonFrom] at h
    cases hc : (monStep m r0 obs0).2 with
    | some c => rw [hc] at h; cases h
    | none =>
      rw [hc] at h
      cases d with
      | zero =>
        simp only [List.getElem?_cons_zero, Option.some.injEq, Prod.mk.injEq] at hd
        obtain ⟨rfl, rfl⟩ := hd
        exact hc
      | succ d => exact ih _ _ h d r obs hd

/-! ## What it takes for a clause to be reported on a record -/

/-- The monitor's log of a stream after `ops` more calls past position `j` is the abstract log of the history. -/
theorem spec_atQ (tr : Trace) (j : Nat) (ops : List (Op String)) (k : Key) :
    (ops.foldl bookOp (stateAfter {} (tr.take j))).spec.lookup k = specLog k (hist tr j ++ ops) := by
  rw [stateAfter_hist, ← List.foldl_append, fold_spec]
  rfl

theorem afterClause_some {m : MState} {k : Key} {i : Int} {obs : Obs} {cl : Clause}
    (h : afterClause m k i obs = some cl) :
    -1 ≤ i ∧
    ((cl = .afterUnknown ∧ m.spec.lookup k = none ∧ obs ≠ .unknown) ∨
     (∃ log, cl = .afterPurgedNothing ∧ m.spec.lookup k = some log ∧ obs = .purged ∧ log.drop (i + 1).toNat = []) ∨
     (∃ log, cl = .afterWrong ∧ m.spec.lookup k = some log ∧ obs ≠ .purged ∧ obs ≠ .items (log.drop (i + 1).toNat))) := by
  simp only [afterClause] at h
  split at h
  · cases h
  · rename_i hi
    refine ⟨by omega, ?_⟩
    cases hl : m.spec.lookup k with
    | none =>
      rw [hl] at h; simp only [] at h
      split at h
      · cases h
      · cases h; exact .inl ⟨rfl, rfl, by assumption⟩
    | some log =>
      rw [hl] at h; simp only [] at h
      split at h
      · rename_i hp
        split at h
        · rename_i he
          cases h; exact .inr (.inl ⟨log, rfl, rfl, hp, List.isEmpty_iff.1 he⟩)
        · cases h
      · rename_i hp
        split at h
        · cases h
        · cases h; exact .inr (.inr ⟨log, rfl, rfl, hp, by assumption⟩)

theorem afterClause_kind {m : MState} {k : Key} {i : Int} {obs : Obs} {cl : Clause}
    (h : afterClause m k i obs = some cl) : cl = .afterUnknown ∨ cl = .afterPurgedNothing ∨ cl = .afterWrong := by
  rcases (afterClause_some h).2 with ⟨h, _⟩ | ⟨_, h, _⟩ | ⟨_, h, _⟩
  · exact .inl h
  · exact .inr (.inl h)
  · exact .inr (.inr h)

/-- A complete `After`, judged: a panic, or the `After` clause. -/
theorem opClause_after_some {m : MState} {k : Key} {i : Int} {obs : Obs} {cl : Clause}
    (h : opClause m (.after k i) obs = some cl) :
    (cl = .panicked ∧ obs = .panic) ∨ afterClause m k i obs = some cl := by
  simp only [opClause] at h
  split at h
  · cases h; exact .inl ⟨rfl, by assumption⟩
  · exact .inr h

theorem opClause_after_none {m : MState} {k : Key} {i : Int} {obs : Obs}
    (h : opClause m (.after k i) obs = none) : obs ≠ .panic ∧ afterClause m k i obs = none := by
  simp only [opClause] at h
  split at h
  · cases h
  · exact ⟨by assumption, h⟩

theorem statClause_some {m : MState} {obs : Obs} {cl : Clause} (h : statClause m obs = some cl) :
    (cl = .badStat ∧ ¬ ∃ n mx r, obs = .stat n mx r) ∨
    (∃ n mx r, cl = .bytesBound ∧ obs = .stat n mx r ∧ ¬ r ≤ m.maxCfg.getD mx + m.lastApp) ∨
    (∃ n mx r, cl = .accounting ∧ obs = .stat n mx r ∧ n ≠ r) := by
  cases obs with
  | stat n mx r =>
    simp only [statClause] at h
    split at h
    · cases h; exact .inr (.inr ⟨n, mx, r, rfl, rfl, by assumption⟩)
    · split at h
      · cases h
      · cases h; exact .inr (.inl ⟨n, mx, r, rfl, rfl, by assumption⟩)
  | _ => simp only [statClause] at h; cases h; exact .inl ⟨rfl, by rintro ⟨_, _, _, h⟩; cases h⟩

theorem isPrefixOf_iff {a b : List String} : a.isPrefixOf b = true ↔ a <+: b := List.isPrefixOf_iff_prefix

/-- The iteration clause, read. -/
theorem iterClause_some {m : MState} {k : Key} {i : Int} {cm : CtxMode} {stop : Option Nat} {t : Term}
    {items : List String} {cl : Clause} (h : iterClause m k i cm stop t items = some cl) :
    (cl = .iterLocked ∧ t = .locked) ∨
    (t ≠ .locked ∧ -1 ≤ i ∧
      ((cl = .ctxErrLive ∧ t = .ctx ∧ ¬ ∃ c, cm.point = some c ∧ c ≤ items.length) ∨
       (cl = .afterUnknown ∧ m.spec.lookup k = none ∧ ¬ (items = [] ∧ (t = .unknown ∨ t = .ctx))) ∨
       (∃ log, m.spec.lookup k = some log ∧
          ((cl = .iterShort ∧ t = .fin ∧ items <+: log.drop (i + 1).toNat ∧ items ≠ log.drop (i + 1).toNat) ∨
           (cl = .afterPurgedNothing ∧ t = .purged ∧ log.drop (i + 1).toNat = []) ∨
           (cl = .afterWrong ∧ ¬ Allowed (log.drop (i + 1).toNat) stop t items))))) := by
  simp only [iterClause] at h
  split at h
  · cases h; exact .inl ⟨rfl, by assumption⟩
  · rename_i hnl
    split at h
    · cases h
    · rename_i hi
      refine .inr ⟨hnl, by omega, ?_⟩
      cases hl : m.spec.lookup k with
      | none =>
        rw [hl] at h; simp only [] at h
        split at h
        · rename_i hc
          cases hp : cm.point with
          | none =>
            rw [hp] at h; cases h
            exact .inl ⟨rfl, hc, by rintro ⟨c, h1, _⟩; cases h1⟩
          | some c =>
            rw [hp] at h; simp only [] at h
            split at h
            · split at h
              · cases h
              · rename_i hne
                cases h; exact .inr (.inl ⟨rfl, rfl, fun hx => hne hx.1⟩)
            · rename_i hle
              cases h
              exact .inl ⟨rfl, hc, by rintro ⟨c', h1, h2⟩; cases h1; exact hle h2⟩
        · rename_i hc
          split at h
          · cases h
          · rename_i hu
            cases h
            refine .inr (.inl ⟨rfl, rfl, fun hx => ?_⟩)
            rcases hx.2 with h1 | h1
            · exact hu ⟨h1, hx.1⟩
            · exact hc h1
      | some log =>
        rw [hl] at h; simp only [] at h
        cases t with
        | locked => exact absurd rfl hnl
        | fin =>
          simp only [] at h
          split at h
          · cases h
          · rename_i hne
            split at h
            · rename_i hpre
              cases h; exact .inr (.inr ⟨log, rfl, .inl ⟨rfl, rfl, isPrefixOf_iff.1 hpre, hne⟩⟩)
            · cases h
              refine .inr (.inr ⟨log, rfl, .inr (.inr ⟨rfl, ?_⟩)⟩)
              rintro (⟨_, he⟩ | ⟨hc, _⟩ | ⟨hc, _⟩ | ⟨hc, _⟩)
              · exact hne he
              · cases hc
              · cases hc
              · cases hc
        | broke =>
          simp only [] at h
          refine .inr (.inr ⟨log, rfl, .inr (.inr ?_)⟩)
          cases stop with
          | none =>
            cases h
            refine ⟨rfl, ?_⟩
            rintro (⟨hc, _⟩ | ⟨_, n, hs, _⟩ | ⟨hc, _⟩ | ⟨hc, _⟩)
            · cases hc
            · cases hs
            · cases hc
            · cases hc
          | some n =>
            simp only [] at h
            split at h
            · cases h
            · rename_i hn
              cases h
              refine ⟨rfl, ?_⟩
              rintro (⟨hc, _⟩ | ⟨_, n', hs, h1, h2, h3⟩ | ⟨hc, _⟩ | ⟨hc, _⟩)
              · cases hc
              · cases hs; exact hn ⟨h1, h2, h3⟩
              · cases hc
              · cases hc
        | purged =>
          simp only [] at h
          split at h
          · split at h
            · rename_i he
              cases h; exact .inr (.inr ⟨log, rfl, .inr (.inl ⟨rfl, rfl, List.isEmpty_iff.1 he⟩)⟩)
            · cases h
          · rename_i hne
            cases h
            refine .inr (.inr ⟨log, rfl, .inr (.inr ⟨rfl, ?_⟩)⟩)
            rintro (⟨hc, _⟩ | ⟨hc, _⟩ | ⟨_, he⟩ | ⟨hc, _⟩)
            · cases hc
            · cases hc
            · exact hne he
            · cases hc
        | ctx =>
          simp only [] at h
          cases hp : cm.point with
          | none =>
            rw [hp] at h; cases h
            exact .inl ⟨rfl, rfl, by rintro ⟨c, h1, _⟩; cases h1⟩
          | some c =>
            rw [hp] at h; simp only [] at h
            split at h
            · split at h
              · cases h
              · rename_i hpre
                cases h
                refine .inr (.inr ⟨log, rfl, .inr (.inr ⟨rfl, ?_⟩)⟩)
                rintro (⟨hc, _⟩ | ⟨hc, _⟩ | ⟨hc, _⟩ | ⟨_, hx⟩)
                · cases hc
                · cases hc
                · cases hc
                · exact hpre (isPrefixOf_iff.2 hx)
            · rename_i hle
              cases h
              exact .inl ⟨rfl, rfl, by rintro ⟨c', h1, h2⟩; cases h1; exact hle h2⟩
        | unknown =>
          cases h
          exact .inr (.inr ⟨log, rfl, .inr (.inr ⟨rfl, by rintro (⟨hc, _⟩ | ⟨hc, _⟩ | ⟨hc, _⟩ | ⟨hc, _⟩) <;> cases hc⟩)⟩)
        | error =>
          cases h
          exact .inr (.inr ⟨log, rfl, .inr (.inr ⟨rfl, by rintro (⟨hc, _⟩ | ⟨hc, _⟩ | ⟨hc, _⟩ | ⟨hc, _⟩) <;> cases hc⟩)⟩)
        | goesOn =>
          cases h
          exact .inr (.inr ⟨log, rfl, .inr (.inr ⟨rfl, by rintro (⟨hc, _⟩ | ⟨hc, _⟩ | ⟨hc, _⟩ | ⟨hc, _⟩) <;> cases hc⟩)⟩)

theorem iterClause_kind {m : MState} {k : Key} {i : Int} {cm : CtxMode} {stop : Option Nat} {t : Term}
    {items : List String} {cl : Clause} (h : iterClause m k i cm stop t items = some cl) :
    cl = .iterLocked ∨ cl = .ctxErrLive ∨ cl = .afterUnknown ∨ cl = .iterShort ∨ cl = .afterPurgedNothing ∨
    cl = .afterWrong := by
  rcases iterClause_some h with ⟨h, _⟩ | ⟨_, _, ⟨h, _⟩ | ⟨h, _⟩ | ⟨_, _, ⟨h, _⟩ | ⟨h, _⟩ | ⟨h, _⟩⟩⟩
  · exact .inl h
  · exact .inr (.inl h)
  · exact .inr (.inr (.inl h))
  · exact .inr (.inr (.inr (.inl h)))
  · exact .inr (.inr (.inr (.inr (.inl h))))
  · exact .inr (.inr (.inr (.inr (.inr h))))

theorem countAfter_cons_after (k : Key) (i : Int) (ops : List (Op String)) :
    countAfter (.after k i :: ops) = countAfter ops + 1 := by
  have : isAfter (.after k i) = true := rfl
  simp [countAfter, List.filter_cons, this]

/-- The `After`s of a script, judged: a count mismatch, or a report on one of them at ITS bookkeeping
(`pre`: the record's calls before the script). -/
theorem nestedClause_some (m0 : MState) : ∀ (script pre : List (Op String)) (nested : List AObs) (cl : Clause),
    nestedClause (pre.foldl bookOp m0) script nested = some cl →
    (cl = .badIter ∧ nested.length ≠ countAfter script) ∨
    ∃ q, q ∈ nestedQ pre.length script nested ∧
      opClause (((pre ++ script).take q.off).foldl bookOp m0) (.after q.k q.i) q.obs = some cl := by
  intro script
  induction script with
  | nil =>
    intro pre nested cl h
    cases nested with
    | nil => cases h
    | cons o os => simp only [nestedClause] at h; cases h; exact .inl ⟨rfl, by simp [countAfter]⟩
  | cons op ops ih =>
    intro pre nested cl h
    have hstep : ∀ (nested' : List AObs), nestedClause (bookOp (pre.foldl bookOp m0) op) ops nested' = some cl →
        (cl = .badIter ∧ nested'.length ≠ countAfter ops) ∨
        ∃ q, q ∈ nestedQ (pre.length + 1) ops nested' ∧
          opClause (((pre ++ op :: ops).take q.off).foldl bookOp m0) (.after q.k q.i) q.obs = some cl := by
      intro nested' h'
      have := ih (pre ++ [op]) nested' cl (by simpa only [List.foldl_append, List.foldl_cons, List.foldl_nil] using h')
      simpa only [List.length_append, List.length_cons, List.length_nil, List.append_assoc, List.cons_append,
        List.nil_append, Nat.zero_add] using this
    cases op with
    | after k i =>
      cases nested with
      | nil =>
        simp only [nestedClause] at h; cases h
        exact .inl ⟨rfl, by simp [countAfter_cons_after]⟩
      | cons o os =>
        simp only [nestedClause] at h
        cases hc : opClause (pre.foldl bookOp m0) (.after k i) o.toObs with
        | some cl' =>
          rw [hc] at h; simp only [Option.some.injEq] at h; subst h
          refine .inr ⟨⟨pre.length, k, i, o.toObs⟩, by simp [nestedQ], ?_⟩
          simpa using hc
        | none =>
          rw [hc] at h; simp only [] at h
          rcases hstep os h with ⟨h1, h2⟩ | ⟨q, hq, hcl⟩
          · exact .inl ⟨h1, by simp only [List.length_cons, countAfter_cons_after]; omega⟩
          · exact .inr ⟨q, by simp only [nestedQ]; exact List.mem_cons_of_mem _ hq, hcl⟩
    | «open» k => simp only [nestedClause] at h; simpa only [nestedQ, countAfter, List.filter, isAfter] using hstep nested h
    | append k d => simp only [nestedClause] at h; simpa only [nestedQ, countAfter, List.filter, isAfter] using hstep nested h
    | setMax n => simp only [nestedClause] at h; simpa only [nestedQ, countAfter, List.filter, isAfter] using hstep nested h
    | closed sess => simp only [nestedClause] at h; simpa only [nestedQ, countAfter, List.filter, isAfter] using hstep nested h
    | maxBytes => simp only [nestedClause] at h; simpa only [nestedQ, countAfter, List.filter, isAfter] using hstep nested h

theorem nestedClause_none (m0 : MState) : ∀ (script pre : List (Op String)) (nested : List AObs),
    nestedClause (pre.foldl bookOp m0) script nested = none →
    nested.length = countAfter script ∧
    ∀ q, q ∈ nestedQ pre.length script nested →
      opClause (((pre ++ script).take q.off).foldl bookOp m0) (.after q.k q.i) q.obs = none := by
  intro script
  induction script with
  | nil =>
    intro pre nested h
    cases nested with
    | nil => exact ⟨rfl, fun q hq => by simp [nestedQ] at hq⟩
    | cons o os => simp only [nestedClause] at h; cases h
  | cons op ops ih =>
    intro pre nested h
    have hstep : ∀ (nested' : List AObs), nestedClause (bookOp (pre.foldl bookOp m0) op) ops nested' = none →
        nested'.length = countAfter ops ∧
        ∀ q, q ∈ nestedQ (pre.length + 1) ops nested' →
          opClause (((pre ++ op :: ops).take q.off).foldl bookOp m0) (.after q.k q.i) q.obs = none := by
      intro nested' h'
      have := ih (pre ++ [op]) nested' (by simpa only [List.foldl_append, List.foldl_cons, List.foldl_nil] using h')
      simpa only [List.length_append, List.length_cons, List.length_nil, List.append_assoc, List.cons_append,
        List.nil_append, Nat.zero_add] using this
    cases op with
    | after k i =>
      cases nested with
      | nil => simp only [nestedClause] at h; cases h
      | cons o os =>
        simp only [nestedClause] at h
        cases hc : opClause (pre.foldl bookOp m0) (.after k i) o.toObs with
        | some cl' => rw [hc] at h; cases h
        | none =>
          rw [hc] at h; simp only [] at h
          obtain ⟨h1, h2⟩ := hstep os h
          refine ⟨by simp only [List.length_cons, countAfter_cons_after, h1], ?_⟩
          intro q hq
          simp only [nestedQ, List.mem_cons] at hq
          rcases hq with rfl | hq
          · simpa using hc
          · exact h2 q hq
    | «open» k => simp only [nestedClause] at h; simpa only [nestedQ, countAfter, List.filter, isAfter] using hstep nested h
    | append k d => simp only [nestedClause] at h; simpa only [nestedQ, countAfter, List.filter, isAfter] using hstep nested h
    | setMax n => simp only [nestedClause] at h; simpa only [nestedQ, countAfter, List.filter, isAfter] using hstep nested h
    | closed sess => simp only [nestedClause] at h; simpa only [nestedQ, countAfter, List.filter, isAfter] using hstep nested h
    | maxBytes => simp only [nestedClause] at h; simpa only [nestedQ, countAfter, List.filter, isAfter] using hstep nested h

/-- A report on a record, read. -/
theorem monStep_some {m : MState} {r : Rec} {obs : Obs} {cl : Clause} (h : (monStep m r obs).2 = some cl) :
    (cl = .panicked ∧ opsOf r ≠ [] ∧ obs = .panic) ∨
    (∃ q, q ∈ queries r obs ∧
      opClause (((opsOf r).take q.off).foldl bookOp m) (.after q.k q.i) q.obs = some cl) ∨
    (∃ iq, iterOf r obs = some iq ∧ iterClause m iq.k iq.i iq.cm iq.stop iq.t iq.items = some cl) ∨
    (r = .stat ∧ statClause m obs = some cl) ∨
    (r = .concurrent ∧ cl = .concurrent ∧ obs ≠ .consistent) ∨
    (cl = .badIter ∧ ¬ IterReadable r obs) := by
  cases r with
  | op o =>
    cases o with
    | after k i => exact .inr (.inl ⟨⟨0, k, i, obs⟩, by simp [queries], h⟩)
    | «open» k =>
      simp only [monStep, opClause] at h
      split at h
      · cases h; exact .inl ⟨rfl, by simp [opsOf], by assumption⟩
      · cases h
    | append k d =>
      simp only [monStep, opClause] at h
      split at h
      · cases h; exact .inl ⟨rfl, by simp [opsOf], by assumption⟩
      · cases h
    | setMax n =>
      simp only [monStep, opClause] at h
      split at h
      · cases h; exact .inl ⟨rfl, by simp [opsOf], by assumption⟩
      · cases h
    | closed sess =>
      simp only [monStep, opClause] at h
      split at h
      · cases h; exact .inl ⟨rfl, by simp [opsOf], by assumption⟩
      · cases h
    | maxBytes =>
      simp only [monStep, opClause] at h
      split at h
      · cases h; exact .inl ⟨rfl, by simp [opsOf], by assumption⟩
      · cases h
  | afteri k i k2 p => exact .inr (.inl ⟨⟨0, k, i, obs⟩, by simp [queries], h⟩)
  | iter k i cm stop script =>
    simp only [monStep] at h
    cases obs with
    | panic => cases h; exact .inl ⟨rfl, by simp [opsOf], rfl⟩
    | iter t items nested =>
      simp only [] at h
      cases hc : iterClause m k i cm stop t items with
      | some cl' =>
        rw [hc] at h; simp only [Option.some.injEq] at h; subst h
        exact .inr (.inr (.inl ⟨⟨k, i, cm, stop, t, items⟩, rfl, hc⟩))
      | none =>
        rw [hc] at h; simp only [] at h
        rcases nestedClause_some m script [.after k i] nested cl h with ⟨h1, h2⟩ | ⟨q, hq, hcl⟩
        · refine .inr (.inr (.inr (.inr (.inr ⟨h1, ?_⟩))))
          rintro (hx | ⟨t', items', nested', hx, hy⟩)
          · cases hx
          · cases hx
            rcases hy with hy | hy
            · subst hy; simp [iterClause] at hc
            · exact h2 hy
        · exact .inr (.inl ⟨q, hq, hcl⟩)
    | ok => cases h; exact .inr (.inr (.inr (.inr (.inr ⟨rfl, by rintro (hx | ⟨_, _, _, hx, _⟩) <;> cases hx⟩))))
    | err => cases h; exact .inr (.inr (.inr (.inr (.inr ⟨rfl, by rintro (hx | ⟨_, _, _, hx, _⟩) <;> cases hx⟩))))
    | items l => cases h; exact .inr (.inr (.inr (.inr (.inr ⟨rfl, by rintro (hx | ⟨_, _, _, hx, _⟩) <;> cases hx⟩))))
    | purged => cases h; exact .inr (.inr (.inr (.inr (.inr ⟨rfl, by rintro (hx | ⟨_, _, _, hx, _⟩) <;> cases hx⟩))))
    | unknown => cases h; exact .inr (.inr (.inr (.inr (.inr ⟨rfl, by rintro (hx | ⟨_, _, _, hx, _⟩) <;> cases hx⟩))))
    | partialThenPurged => cases h; exact .inr (.inr (.inr (.inr (.inr ⟨rfl, by rintro (hx | ⟨_, _, _, hx, _⟩) <;> cases hx⟩))))
    | partialThenError => cases h; exact .inr (.inr (.inr (.inr (.inr ⟨rfl, by rintro (hx | ⟨_, _, _, hx, _⟩) <;> cases hx⟩))))
    | num n => cases h; exact .inr (.inr (.inr (.inr (.inr ⟨rfl, by rintro (hx | ⟨_, _, _, hx, _⟩) <;> cases hx⟩))))
    | stat a b c => cases h; exact .inr (.inr (.inr (.inr (.inr ⟨rfl, by rintro (hx | ⟨_, _, _, hx, _⟩) <;> cases hx⟩))))
    | consistent => cases h; exact .inr (.inr (.inr (.inr (.inr ⟨rfl, by rintro (hx | ⟨_, _, _, hx, _⟩) <;> cases hx⟩))))
    | other x => cases h; exact .inr (.inr (.inr (.inr (.inr ⟨rfl, by rintro (hx | ⟨_, _, _, hx, _⟩) <;> cases hx⟩))))
  | stat => exact .inr (.inr (.inr (.inl ⟨rfl, h⟩)))
  | concurrent =>
    simp only [monStep] at h
    split at h
    · cases h
    · cases h; exact .inr (.inr (.inr (.inr (.inl ⟨rfl, rfl, by assumption⟩))))

/-- The same, with the kinds of clause each source can report. -/
theorem monStep_kinds {m : MState} {r : Rec} {obs : Obs} {cl : Clause} (h : (monStep m r obs).2 = some cl) :
    (cl = .panicked ∧ ((opsOf r ≠ [] ∧ obs = .panic) ∨ ∃ q, q ∈ queries r obs ∧ q.obs = .panic)) ∨
    (∃ q, q ∈ queries r obs ∧ afterClause (((opsOf r).take q.off).foldl bookOp m) q.k q.i q.obs = some cl) ∨
    (∃ iq, iterOf r obs = some iq ∧ iterClause m iq.k iq.i iq.cm iq.stop iq.t iq.items = some cl) ∨
    (r = .stat ∧ statClause m obs = some cl) ∨
    (r = .concurrent ∧ cl = .concurrent ∧ obs ≠ .consistent) ∨
    (cl = .badIter ∧ ¬ IterReadable r obs) := by
  rcases monStep_some h with ⟨h1, h2, h3⟩ | ⟨q, hq, hc⟩ | h | h | h | h
  · exact .inl ⟨h1, .inl ⟨h2, h3⟩⟩
  · rcases opClause_after_some hc with ⟨h1, h2⟩ | h1
    · exact .inl ⟨h1, .inr ⟨q, hq, h2⟩⟩
    · exact .inr (.inl ⟨q, hq, h1⟩)
  · exact .inr (.inr (.inl h))
  · exact .inr (.inr (.inr (.inl h)))
  · exact .inr (.inr (.inr (.inr (.inl h))))
  · exact .inr (.inr (.inr (.inr (.inr h))))

/-! ## Clause soundness -/

theorem sound_afterUnknown (tr : Trace) (j : Nat) (h : FiresAt tr j .afterUnknown) : ¬ P_unknown_reported tr := by
  obtain ⟨r, obs, hj, hf⟩ := h
  rcases monStep_kinds hf with ⟨hc, _⟩ | ⟨q, hq, ha⟩ | ⟨iq, hiq, hic⟩ | ⟨_, hs⟩ | ⟨_, hc, _⟩ | ⟨hc, _⟩
  · cases hc
  · obtain ⟨hi, hcase⟩ := afterClause_some ha
    rcases hcase with ⟨_, hl, hne⟩ | ⟨_, hc, _⟩ | ⟨_, hc, _⟩
    · intro hP
      rw [spec_atQ] at hl
      exact hne (hP.1 j r obs q hj hq hi hl)
    · cases hc
    · cases hc
  · rcases iterClause_some hic with ⟨hc, _⟩ | ⟨hnl, hi, ⟨hc, _⟩ | ⟨_, hl, hn⟩ | ⟨log, _, ⟨hc, _⟩ | ⟨hc, _⟩ | ⟨hc, _⟩⟩⟩
    · cases hc
    · cases hc
    · intro hP
      rw [(state_at tr j).1 iq.k] at hl
      exact hn (hP.2 j r obs iq hj hiq hnl hi hl)
    · cases hc
    · cases hc
    · cases hc
  · rcases statClause_some hs with ⟨hc, _⟩ | ⟨_, _, _, hc, _⟩ | ⟨_, _, _, hc, _⟩ <;> cases hc
  · cases hc
  · cases hc

theorem sound_afterWrong (tr : Trace) (j : Nat) (h : FiresAt tr j .afterWrong) : ¬ P_exact_or_purged tr := by
  obtain ⟨r, obs, hj, hf⟩ := h
  rcases monStep_kinds hf with ⟨hc, _⟩ | ⟨q, hq, ha⟩ | ⟨iq, hiq, hic⟩ | ⟨_, hs⟩ | ⟨_, hc, _⟩ | ⟨hc, _⟩
  · cases hc
  · obtain ⟨hi, hcase⟩ := afterClause_some ha
    rcases hcase with ⟨hc, _⟩ | ⟨_, hc, _⟩ | ⟨log, _, hl, hn1, hn2⟩
    · cases hc
    · cases hc
    · intro hP
      rw [spec_atQ] at hl
      rcases hP.1 j r obs q log hj hq hi hl with h1 | h1
      · exact hn1 h1
      · exact hn2 h1
  · rcases iterClause_some hic with ⟨hc, _⟩ | ⟨hnl, hi, ⟨hc, _⟩ | ⟨hc, _⟩ | ⟨log, hl, ⟨hc, _⟩ | ⟨hc, _⟩ | ⟨_, hn⟩⟩⟩
    · cases hc
    · cases hc
    · cases hc
    · cases hc
    · cases hc
    · intro hP
      rw [(state_at tr j).1 iq.k] at hl
      exact hn (hP.2 j r obs iq log hj hiq hnl hi hl)
  · rcases statClause_some hs with ⟨hc, _⟩ | ⟨_, _, _, hc, _⟩ | ⟨_, _, _, hc, _⟩ <;> cases hc
  · cases hc
  · cases hc

theorem sound_afterPurgedNothing (tr : Trace) (j : Nat) (h : FiresAt tr j .afterPurgedNothing) :
    ¬ P_purged_only_if_evicted tr := by
  obtain ⟨r, obs, hj, hf⟩ := h
  rcases monStep_kinds hf with ⟨hc, _⟩ | ⟨q, hq, ha⟩ | ⟨iq, hiq, hic⟩ | ⟨_, hs⟩ | ⟨_, hc, _⟩ | ⟨hc, _⟩
  · cases hc
  · obtain ⟨hi, hcase⟩ := afterClause_some ha
    rcases hcase with ⟨hc, _⟩ | ⟨log, _, hl, hp, hd⟩ | ⟨_, hc, _⟩
    · cases hc
    · intro hP
      rw [spec_atQ] at hl
      have := hP.1 j r obs q log hj hq hi hl hp
      rw [List.drop_eq_nil_iff] at hd; omega
    · cases hc
  · rcases iterClause_some hic with ⟨hc, _⟩ | ⟨hnl, hi, ⟨hc, _⟩ | ⟨hc, _⟩ | ⟨log, hl, ⟨hc, _⟩ | ⟨_, ht, hd⟩ | ⟨hc, _⟩⟩⟩
    · cases hc
    · cases hc
    · cases hc
    · cases hc
    · intro hP
      rw [(state_at tr j).1 iq.k] at hl
      have := hP.2 j r obs iq log hj hiq hnl hi hl ht
      rw [List.drop_eq_nil_iff] at hd; omega
    · cases hc
  · rcases statClause_some hs with ⟨hc, _⟩ | ⟨_, _, _, hc, _⟩ | ⟨_, _, _, hc, _⟩ <;> cases hc
  · cases hc
  · cases hc

/-- **The C20-m12 clause**: the run reports `iterShort` only on a trace on which an iteration ended
normally after a proper prefix of the payloads after its index. -/
theorem sound_iterShort (tr : Trace) (j : Nat) (h : FiresAt tr j .iterShort) : ¬ P_never_silently_short tr := by
  obtain ⟨r, obs, hj, hf⟩ := h
  rcases monStep_kinds hf with ⟨hc, _⟩ | ⟨q, _, ha⟩ | ⟨iq, hiq, hic⟩ | ⟨_, hs⟩ | ⟨_, hc, _⟩ | ⟨hc, _⟩
  · cases hc
  · rcases afterClause_kind ha with hc | hc | hc <;> cases hc
  · rcases iterClause_some hic with ⟨hc, _⟩ | ⟨hnl, hi, ⟨hc, _⟩ | ⟨hc, _⟩ | ⟨log, hl, ⟨_, ht, hpre, hne⟩ | ⟨hc, _⟩ | ⟨hc, _⟩⟩⟩
    · cases hc
    · cases hc
    · cases hc
    · intro hP
      rw [(state_at tr j).1 iq.k] at hl
      exact hne (hP j r obs iq log hj hiq hi hl ht hpre)
    · cases hc
    · cases hc
  · rcases statClause_some hs with ⟨hc, _⟩ | ⟨_, _, _, hc, _⟩ | ⟨_, _, _, hc, _⟩ <;> cases hc
  · cases hc
  · cases hc

theorem sound_ctxErrLive (tr : Trace) (j : Nat) (h : FiresAt tr j .ctxErrLive) : ¬ P_ctx_error_only_if_done tr := by
  obtain ⟨r, obs, hj, hf⟩ := h
  rcases monStep_kinds hf with ⟨hc, _⟩ | ⟨q, _, ha⟩ | ⟨iq, hiq, hic⟩ | ⟨_, hs⟩ | ⟨_, hc, _⟩ | ⟨hc, _⟩
  · cases hc
  · rcases afterClause_kind ha with hc | hc | hc <;> cases hc
  · rcases iterClause_some hic with ⟨hc, _⟩ | ⟨hnl, hi, ⟨_, ht, hn⟩ | ⟨hc, _⟩ | ⟨log, hl, ⟨hc, _⟩ | ⟨hc, _⟩ | ⟨hc, _⟩⟩⟩
    · cases hc
    · intro hP; exact hn (hP j r obs iq hj hiq hi ht)
    · cases hc
    · cases hc
    · cases hc
    · cases hc
  · rcases statClause_some hs with ⟨hc, _⟩ | ⟨_, _, _, hc, _⟩ | ⟨_, _, _, hc, _⟩ <;> cases hc
  · cases hc
  · cases hc

theorem sound_iterLocked (tr : Trace) (j : Nat) (h : FiresAt tr j .iterLocked) : ¬ P_delivery_lock_free tr := by
  obtain ⟨r, obs, hj, hf⟩ := h
  rcases monStep_kinds hf with ⟨hc, _⟩ | ⟨q, _, ha⟩ | ⟨iq, hiq, hic⟩ | ⟨_, hs⟩ | ⟨_, hc, _⟩ | ⟨hc, _⟩
  · cases hc
  · rcases afterClause_kind ha with hc | hc | hc <;> cases hc
  · rcases iterClause_some hic with ⟨_, ht⟩ | ⟨hnl, hi, ⟨hc, _⟩ | ⟨hc, _⟩ | ⟨log, hl, ⟨hc, _⟩ | ⟨hc, _⟩ | ⟨hc, _⟩⟩⟩
    · intro hP; exact hP j r obs iq hj hiq ht
    · cases hc
    · cases hc
    · cases hc
    · cases hc
    · cases hc
  · rcases statClause_some hs with ⟨hc, _⟩ | ⟨_, _, _, hc, _⟩ | ⟨_, _, _, hc, _⟩ <;> cases hc
  · cases hc
  · cases hc

theorem sound_badIter (tr : Trace) (j : Nat) (h : FiresAt tr j .badIter) : ¬ P_iter_readable tr := by
  obtain ⟨r, obs, hj, hf⟩ := h
  rcases monStep_kinds hf with ⟨hc, _⟩ | ⟨q, _, ha⟩ | ⟨iq, hiq, hic⟩ | ⟨_, hs⟩ | ⟨_, hc, _⟩ | ⟨_, hn⟩
  · cases hc
  · rcases afterClause_kind ha with hc | hc | hc <;> cases hc
  · rcases iterClause_kind hic with hc | hc | hc | hc | hc | hc <;> cases hc
  · rcases statClause_some hs with ⟨hc, _⟩ | ⟨_, _, _, hc, _⟩ | ⟨_, _, _, hc, _⟩ <;> cases hc
  · cases hc
  · intro hP; exact hn (hP j r obs hj)

theorem sound_bytesBound (tr : Trace) (j : Nat) (h : FiresAt tr j .bytesBound) : ¬ P_bytes_bound tr := by
  obtain ⟨r, obs, hj, hf⟩ := h
  rcases monStep_kinds hf with ⟨hc, _⟩ | ⟨q, _, ha⟩ | ⟨iq, hiq, hic⟩ | ⟨hr, hs⟩ | ⟨_, hc, _⟩ | ⟨hc, _⟩
  · cases hc
  · rcases afterClause_kind ha with hc | hc | hc <;> cases hc
  · rcases iterClause_kind hic with hc | hc | hc | hc | hc | hc <;> cases hc
  · rcases statClause_some hs with ⟨hc, _⟩ | ⟨n, mx, rr, _, ho, hn⟩ | ⟨_, _, _, hc, _⟩
    · cases hc
    · intro hP
      subst hr; subst ho
      rw [(state_at tr j).2.1, (state_at tr j).2.2] at hn
      exact hn (hP j n mx rr hj)
    · cases hc
  · cases hc
  · cases hc

theorem sound_accounting (tr : Trace) (j : Nat) (h : FiresAt tr j .accounting) : ¬ P_accounting tr := by
  obtain ⟨r, obs, hj, hf⟩ := h
  rcases monStep_kinds hf with ⟨hc, _⟩ | ⟨q, _, ha⟩ | ⟨iq, hiq, hic⟩ | ⟨hr, hs⟩ | ⟨_, hc, _⟩ | ⟨hc, _⟩
  · cases hc
  · rcases afterClause_kind ha with hc | hc | hc <;> cases hc
  · rcases iterClause_kind hic with hc | hc | hc | hc | hc | hc <;> cases hc
  · rcases statClause_some hs with ⟨hc, _⟩ | ⟨_, _, _, hc, _⟩ | ⟨n, mx, rr, _, ho, hn⟩
    · cases hc
    · cases hc
    · intro hP
      subst hr; subst ho
      exact hn (hP j n mx rr hj)
  · cases hc
  · cases hc

theorem sound_badStat (tr : Trace) (j : Nat) (h : FiresAt tr j .badStat) : ¬ P_stat_readable tr := by
  obtain ⟨r, obs, hj, hf⟩ := h
  rcases monStep_kinds hf with ⟨hc, _⟩ | ⟨q, _, ha⟩ | ⟨iq, hiq, hic⟩ | ⟨hr, hs⟩ | ⟨_, hc, _⟩ | ⟨hc, _⟩
  · cases hc
  · rcases afterClause_kind ha with hc | hc | hc <;> cases hc
  · rcases iterClause_kind hic with hc | hc | hc | hc | hc | hc <;> cases hc
  · rcases statClause_some hs with ⟨_, hn⟩ | ⟨_, _, _, hc, _⟩ | ⟨_, _, _, hc, _⟩
    · intro hP; subst hr; exact hn (hP j obs hj)
    · cases hc
    · cases hc
  · cases hc
  · cases hc

theorem sound_concurrent (tr : Trace) (j : Nat) (h : FiresAt tr j .concurrent) : ¬ P_concurrent_consistent tr := by
  obtain ⟨r, obs, hj, hf⟩ := h
  rcases monStep_kinds hf with ⟨hc, _⟩ | ⟨q, _, ha⟩ | ⟨iq, hiq, hic⟩ | ⟨_, hs⟩ | ⟨hr, _, hn⟩ | ⟨hc, _⟩
  · cases hc
  · rcases afterClause_kind ha with hc | hc | hc <;> cases hc
  · rcases iterClause_kind hic with hc | hc | hc | hc | hc | hc <;> cases hc
  · rcases statClause_some hs with ⟨hc, _⟩ | ⟨_, _, _, hc, _⟩ | ⟨_, _, _, hc, _⟩ <;> cases hc
  · intro hP; subst hr; exact hn (hP j obs hj)
  · cases hc

theorem sound_panicked (tr : Trace) (j : Nat) (h : FiresAt tr j .panicked) : ¬ P_no_panic tr := by
  obtain ⟨r, obs, hj, hf⟩ := h
  rcases monStep_kinds hf with ⟨_, ⟨hne, hp⟩ | ⟨q, hq, hp⟩⟩ | ⟨q, _, ha⟩ | ⟨iq, hiq, hic⟩ | ⟨_, hs⟩ | ⟨_, hc, _⟩ | ⟨hc, _⟩
  · intro hP; exact (hP j r obs hj).1 hne hp
  · intro hP; exact (hP j r obs hj).2 q hq hp
  · rcases afterClause_kind ha with hc | hc | hc <;> cases hc
  · rcases iterClause_kind hic with hc | hc | hc | hc | hc | hc <;> cases hc
  · rcases statClause_some hs with ⟨hc, _⟩ | ⟨_, _, _, hc, _⟩ | ⟨_, _, _, hc, _⟩ <;> cases hc
  · cases hc
  · cases hc

/-- **monitor_sound.** Whatever clause the monitor run reports, the corresponding clause of the
property fails on the trace. -/
theorem monitor_sound (tr : Trace) (j : Nat) (cl : Clause) (h : runMon tr = some (j, cl)) : ¬ P_of cl tr := by
  have hf := runMon_fires h
  cases cl with
  | afterUnknown => exact sound_afterUnknown tr j hf
  | afterWrong => exact sound_afterWrong tr j hf
  | afterPurgedNothing => exact sound_afterPurgedNothing tr j hf
  | bytesBound => exact sound_bytesBound tr j hf
  | badStat => exact sound_badStat tr j hf
  | accounting => exact sound_accounting tr j hf
  | concurrent => exact sound_concurrent tr j hf
  | panicked => exact sound_panicked tr j hf
  | iterShort => exact sound_iterShort tr j hf
  | ctxErrLive => exact sound_ctxErrLive tr j hf
  | iterLocked => exact sound_iterLocked tr j hf
  | badIter => exact sound_badIter tr j hf

/-! ## Completeness -/

theorem afterClause_none {m : MState} {k : Key} {i : Int} {obs : Obs} (h : afterClause m k i obs = none)
    (hi : -1 ≤ i) :
    (m.spec.lookup k = none → obs = .unknown) ∧
    (∀ log, m.spec.lookup k = some log →
      (obs = .purged ∧ (i + 1).toNat < log.length) ∨ (obs ≠ .purged ∧ obs = .items (log.drop (i + 1).toNat))) := by
  simp only [afterClause] at h
  have hn : ¬ i < -1 := by omega
  simp only [hn, if_false] at h
  cases hl : m.spec.lookup k with
  | none =>
    rw [hl] at h; simp only [] at h
    refine ⟨fun _ => ?_, fun log hx => ?_⟩
    case refine_2 => cases hx
    split at h
    · assumption
    · cases h
  | some log =>
    rw [hl] at h; simp only [] at h
    refine ⟨fun hx => ?_, fun log' hx => ?_⟩
    case refine_1 => cases hx
    cases hx
    split at h
    · rename_i hp
      split at h
      · cases h
      · rename_i he
        left; refine ⟨hp, ?_⟩
        have : log.drop (i + 1).toNat ≠ [] := fun e => he (by rw [e]; rfl)
        rw [Ne, List.drop_eq_nil_iff] at this; omega
    · rename_i hp
      split at h
      · right; exact ⟨hp, by assumption⟩
      · cases h

/-- The iteration clause silent, read. -/
theorem iterClause_none {m : MState} {k : Key} {i : Int} {cm : CtxMode} {stop : Option Nat} {t : Term}
    {items : List String} (h : iterClause m k i cm stop t items = none) :
    t ≠ .locked ∧ (-1 ≤ i →
      (t = .ctx → ∃ c, cm.point = some c ∧ c ≤ items.length) ∧
      (m.spec.lookup k = none → items = [] ∧ (t = .unknown ∨ t = .ctx)) ∧
      (∀ log, m.spec.lookup k = some log →
        Allowed (log.drop (i + 1).toNat) stop t items ∧
        (t = .fin → items <+: log.drop (i + 1).toNat → items = log.drop (i + 1).toNat) ∧
        (t = .purged → (i + 1).toNat < log.length))) := by
  simp only [iterClause] at h
  split at h
  · cases h
  · rename_i hnl
    refine ⟨hnl, fun hi => ?_⟩
    have hn : ¬ i < -1 := by omega
    simp only [hn, if_false] at h
    cases hl : m.spec.lookup k with
    | none =>
      rw [hl] at h; simp only [] at h
      refine ⟨?_, fun _ => ?_, (fun log hx => by cases hx)⟩
      · intro ht
        simp only [ht, if_true] at h
        cases hp : cm.point with
        | none => rw [hp] at h; cases h
        | some c =>
          rw [hp] at h; simp only [] at h
          split at h
          · exact ⟨c, rfl, by assumption⟩
          · cases h
      · split at h
        · rename_i ht
          cases hp : cm.point with
          | none => rw [hp] at h; cases h
          | some c =>
            rw [hp] at h; simp only [] at h
            split at h
            · split at h
              · exact ⟨by assumption, .inr ht⟩
              · cases h
            · cases h
        · split at h
          · rename_i hu; exact ⟨hu.2, .inl hu.1⟩
          · cases h
    | some log =>
      rw [hl] at h; simp only [] at h
      cases t with
      | locked => exact absurd rfl hnl
      | fin =>
        simp only [] at h
        split at h
        · rename_i he
          refine ⟨(fun hc => by cases hc), (fun hx => by cases hx), fun log' hx => ?_⟩
          cases hx
          exact ⟨.inl ⟨rfl, he⟩, fun _ _ => he, (fun hc => by cases hc)⟩
        · split at h <;> cases h
      | broke =>
        simp only [] at h
        cases stop with
        | none => cases h
        | some n =>
          simp only [] at h
          split at h
          · rename_i hn
            refine ⟨(fun hc => by cases hc), (fun hx => by cases hx), fun log' hx => ?_⟩
            cases hx
            exact ⟨.inr (.inl ⟨rfl, n, rfl, hn⟩), (fun hc => by cases hc), (fun hc => by cases hc)⟩
          · cases h
      | purged =>
        simp only [] at h
        split at h
        · rename_i he
          split at h
          · cases h
          · rename_i hne
            refine ⟨(fun hc => by cases hc), (fun hx => by cases hx), fun log' hx => ?_⟩
            cases hx
            refine ⟨.inr (.inr (.inl ⟨rfl, he⟩)), (fun hc => by cases hc), fun _ => ?_⟩
            have : log.drop (i + 1).toNat ≠ [] := fun e => hne (by rw [e]; rfl)
            rw [Ne, List.drop_eq_nil_iff] at this; omega
        · cases h
      | ctx =>
        simp only [] at h
        cases hp : cm.point with
        | none => rw [hp] at h; cases h
        | some c =>
          rw [hp] at h; simp only [] at h
          split at h
          · rename_i hle
            split at h
            · rename_i hpre
              refine ⟨fun _ => ⟨c, rfl, hle⟩, (fun hx => by cases hx), fun log' hx => ?_⟩
              cases hx
              exact ⟨.inr (.inr (.inr ⟨rfl, isPrefixOf_iff.1 hpre⟩)), (fun hc => by cases hc), (fun hc => by cases hc)⟩
            · cases h
          · cases h
      | unknown => cases h
      | error => cases h
      | goesOn => cases h

/-- A silent record, read. -/
theorem monStep_none {m : MState} {r : Rec} {obs : Obs} (h : (monStep m r obs).2 = none) :
    (∀ q, q ∈ queries r obs → opClause (((opsOf r).take q.off).foldl bookOp m) (.after q.k q.i) q.obs = none) ∧
    (∀ iq, iterOf r obs = some iq → iterClause m iq.k iq.i iq.cm iq.stop iq.t iq.items = none) ∧
    (opsOf r ≠ [] → obs ≠ .panic) ∧ IterReadable r obs := by
  cases r with
  | op o =>
    have hp : obs ≠ .panic := by
      intro hx; subst hx; cases o <;> simp [monStep, opClause] at h
    refine ⟨?_, (fun iq hq => by cases hq), fun _ => hp, trivial⟩
    intro q hq
    cases o with
    | after k i =>
      simp only [queries, List.mem_singleton] at hq; subst hq
      exact h
    | _ => simp [queries] at hq
  | afteri k i k2 p =>
    have hp : obs ≠ .panic := by
      intro hx; subst hx; simp [monStep, opClause] at h
    refine ⟨?_, (fun iq hq => by cases hq), fun _ => hp, trivial⟩
    intro q hq
    simp only [queries, List.mem_singleton] at hq; subst hq
    exact h
  | iter k i cm stop script =>
    simp only [monStep] at h
    cases obs with
    | iter t items nested =>
      simp only [] at h
      cases hc : iterClause m k i cm stop t items with
      | some cl' => rw [hc] at h; cases h
      | none =>
        rw [hc] at h; simp only [] at h
        obtain ⟨h1, h2⟩ := nestedClause_none m script [.after k i] nested h
        refine ⟨fun q hq => h2 q hq, ?_, (fun _ hx => by cases hx), .inr ⟨t, items, nested, rfl, .inr h1⟩⟩
        intro iq hq
        simp only [iterOf, Option.some.injEq] at hq
        subst hq
        exact hc
    | panic => cases h
    | ok => cases h
    | err => cases h
    | items l => cases h
    | purged => cases h
    | unknown => cases h
    | partialThenPurged => cases h
    | partialThenError => cases h
    | num n => cases h
    | stat a b c => cases h
    | consistent => cases h
    | other x => cases h
  | stat => exact ⟨fun q hq => by simp [queries] at hq, (fun iq hq => by cases hq), fun hx => absurd rfl hx, trivial⟩
  | concurrent => exact ⟨fun q hq => by simp [queries] at hq, (fun iq hq => by cases hq), fun hx => absurd rfl hx, trivial⟩

/-- **monitor_complete.** If the monitor run is silent on a trace, every clause of the property holds on it. -/
theorem monitor_complete (tr : Trace) (h : runMon tr = none) (cl : Clause) : P_of cl tr := by
  have loc := runMonFrom_none tr {} 0 h
  have qnone : ∀ j r obs q, tr[j]? = some (r, obs) → q ∈ queries r obs → -1 ≤ q.i →
      (specLog q.k (histQ tr j r q.off) = none → q.obs = .unknown) ∧
      (∀ log, specLog q.k (histQ tr j r q.off) = some log →
        (q.obs = .purged ∧ (q.i + 1).toNat < log.length) ∨
        (q.obs ≠ .purged ∧ q.obs = .items (log.drop (q.i + 1).toNat))) := by
    intro j r obs q hj hq hi
    have := afterClause_none (opClause_after_none ((monStep_none (loc j r obs hj)).1 q hq)).2 hi
    rw [spec_atQ] at this
    exact this
  have inone : ∀ j r obs iq, tr[j]? = some (r, obs) → iterOf r obs = some iq →
      iq.t ≠ .locked ∧ (-1 ≤ iq.i →
        (iq.t = .ctx → ∃ c, iq.cm.point = some c ∧ c ≤ iq.items.length) ∧
        (specLog iq.k (hist tr j) = none → iq.items = [] ∧ (iq.t = .unknown ∨ iq.t = .ctx)) ∧
        (∀ log, specLog iq.k (hist tr j) = some log →
          Allowed (log.drop (iq.i + 1).toNat) iq.stop iq.t iq.items ∧
          (iq.t = .fin → iq.items <+: log.drop (iq.i + 1).toNat → iq.items = log.drop (iq.i + 1).toNat) ∧
          (iq.t = .purged → (iq.i + 1).toNat < log.length))) := by
    intro j r obs iq hj hq
    have := iterClause_none ((monStep_none (loc j r obs hj)).2.1 iq hq)
    rw [(state_at tr j).1 iq.k] at this
    exact this
  cases cl with
  | afterUnknown =>
    refine ⟨fun j r obs q hj hq hi hl => (qnone j r obs q hj hq hi).1 hl, ?_⟩
    intro j r obs iq hj hq _ hi hl
    exact ((inone j r obs iq hj hq).2 hi).2.1 hl
  | afterWrong =>
    refine ⟨fun j r obs q log hj hq hi hl => ?_, ?_⟩
    · rcases (qnone j r obs q hj hq hi).2 log hl with ⟨h1, _⟩ | ⟨_, h2⟩
      · exact .inl h1
      · exact .inr h2
    · intro j r obs iq log hj hq _ hi hl
      exact (((inone j r obs iq hj hq).2 hi).2.2 log hl).1
  | afterPurgedNothing =>
    refine ⟨fun j r obs q log hj hq hi hl hp => ?_, ?_⟩
    · rcases (qnone j r obs q hj hq hi).2 log hl with ⟨_, h1⟩ | ⟨h2, _⟩
      · exact h1
      · exact absurd hp h2
    · intro j r obs iq log hj hq _ hi hl ht
      exact (((inone j r obs iq hj hq).2 hi).2.2 log hl).2.2 ht
  | iterShort =>
    intro j r obs iq log hj hq hi hl ht hpre
    exact (((inone j r obs iq hj hq).2 hi).2.2 log hl).2.1 ht hpre
  | ctxErrLive =>
    intro j r obs iq hj hq hi ht
    exact ((inone j r obs iq hj hq).2 hi).1 ht
  | iterLocked =>
    intro j r obs iq hj hq
    exact (inone j r obs iq hj hq).1
  | badIter =>
    intro j r obs hj
    exact (monStep_none (loc j r obs hj)).2.2.2
  | bytesBound =>
    intro j n m r hj
    have := loc j _ _ hj
    simp only [monStep, statClause] at this
    split at this
    · cases this
    · split at this
      · rename_i hb
        rw [(state_at tr j).2.1, (state_at tr j).2.2] at hb; exact hb
      · cases this
  | accounting =>
    intro j n m r hj
    have := loc j _ _ hj
    simp only [monStep, statClause] at this
    split at this
    · cases this
    · rename_i hne; exact Decidable.of_not_not hne
  | badStat =>
    intro j obs hj
    have := loc j _ _ hj
    cases obs with
    | stat n m r => exact ⟨n, m, r, rfl⟩
    | _ => simp [monStep, statClause] at this
  | concurrent =>
    intro j obs hj
    have := loc j _ _ hj
    simp only [monStep] at this
    split at this
    · assumption
    · cases this
  | panicked =>
    intro j r obs hj
    have hn := monStep_none (loc j r obs hj)
    exact ⟨hn.2.2.1, fun q hq => (opClause_after_none (hn.1 q hq)).1⟩

/-- The predicates are satisfiable: they hold on the model's answers to ANY record sequence. -/
theorem model_satisfies_P (rs : List Rec) (cl : Clause) :
    ∃ s os, recRun init rs = some (s, os) ∧ P_of cl (rs.zip os) := by
  obtain ⟨s, os, h1, _, h3⟩ := monitor_accepts_model rs
  exact ⟨s, os, h1, monitor_complete _ h3 cl⟩

/-! ## Non-vacuity: every clause can be reported -/

section witnesses
private def kA : Key := ("s", "a")
private def pre : Trace := [(.op (.setMax 4), .ok), (.op (.open kA), .ok), (.op (.append kA "x0102"), .ok)]
private def pre2 : Trace := pre ++ [(.op (.append kA "x03"), .ok), (.op (.append kA "x"), .ok)]

example : runMon (pre ++ [(.op (.after kA (-1)), .items ["x0102"]), (.stat, .stat 2 4 2)]) = none := by decide
example : runMon (pre ++ [(.op (.after ("s", "b") 0), .items [])]) = some (3, .afterUnknown) := by decide
example : runMon (pre ++ [(.op (.after kA (-1)), .items [])]) = some (3, .afterWrong) := by decide
example : runMon (pre ++ [(.op (.after kA (-1)), .partialThenPurged)]) = some (3, .afterWrong) := by decide
example : runMon (pre ++ [(.op (.after kA (-1)), .purged)]) = none := by decide
example : runMon (pre ++ [(.op (.after kA 0), .purged)]) = some (3, .afterPurgedNothing) := by decide
example : runMon (pre ++ [(.stat, .stat 7 4 7)]) = some (3, .bytesBound) := by decide
example : runMon (pre ++ [(.stat, .stat 7 8 7)]) = some (3, .bytesBound) := by decide
example : runMon (pre ++ [(.stat, .ok)]) = some (3, .badStat) := by decide
example : runMon (pre ++ [(.stat, .stat 3 4 2)]) = some (3, .accounting) := by decide
example : runMon (pre ++ [(.concurrent, .other "nBytes=3 retained=2")]) = some (3, .concurrent) := by decide
example : runMon (pre ++ [(.op (.append kA "x03"), .panic)]) = some (3, .panicked) := by decide
example : runMon (pre ++ [(.afteri kA (-1) kA "x03", .items ["x0102"]), (.op (.after kA 0), .items ["x03"])]) = none := by
  decide
-- the iteration protocol: complete; broken by the consumer; calls and a second iteration from inside; a context
-- error once the context is done
example : runMon (pre2 ++ [(.iter kA (-1) .live none [], .iter .fin ["x0102", "x03", "x"] [])]) = none := by decide
example : runMon (pre2 ++ [(.iter kA 0 (.cancel 1) (some 1) [], .iter .broke ["x03"] [])]) = none := by decide
example : runMon (pre2 ++ [(.iter kA 0 .live none [.append kA "x04", .after kA 0, .closed "s", .after kA 0],
    .iter .fin ["x03", "x"] [.items ["x03", "x", "x04"], .unknown])]) = none := by decide
example : runMon (pre2 ++ [(.iter kA (-1) (.deadline 2) none [], .iter .ctx ["x0102", "x03"] [])]) = none := by decide
-- C20-m12: the context ends after the 2nd item and the iterator just returns
example : runMon (pre2 ++ [(.iter kA (-1) (.cancel 2) none [], .iter .fin ["x0102", "x03"] [])]) = some (5, .iterShort) := by
  decide
example : runMon (pre2 ++ [(.iter kA (-1) .live none [], .iter .ctx ["x0102"] [])]) = some (5, .ctxErrLive) := by decide
example : runMon (pre2 ++ [(.iter kA (-1) (.cancel 2) none [], .iter .ctx ["x0102"] [])]) = some (5, .ctxErrLive) := by decide
example : runMon (pre2 ++ [(.iter kA (-1) .live none [], .iter .locked [] [])]) = some (5, .iterLocked) := by decide
example : runMon (pre2 ++ [(.iter kA (-1) .live none [.after kA 0], .iter .fin ["x0102", "x03", "x"] [])]) =
    some (5, .badIter) := by decide
-- an alias instead of a clone: the purge from inside the iteration blanks what is still to be delivered
example : runMon (pre2 ++ [(.iter kA (-1) .live none [.setMax 1], .iter .fin ["x0102", "x", "x"] [])]) =
    some (5, .afterWrong) := by decide
example : runMon (pre2 ++ [(.iter kA (-1) .live (some 2) [], .iter .broke ["x0102"] [])]) = some (5, .afterWrong) := by decide
example : runMon (pre2 ++ [(.iter kA (-1) .live none [], .iter .goesOn [] [])]) = some (5, .afterWrong) := by decide
example : runMon (pre2 ++ [(.iter kA 2 .live none [], .iter .purged [] [])]) = some (5, .afterPurgedNothing) := by decide
example : runMon (pre2 ++ [(.iter ("s", "b") 0 .live none [], .iter .fin [] [])]) = some (5, .afterUnknown) := by decide
example : runMon (pre2 ++ [(.iter kA 0 .live none [.after kA 0], .iter .fin ["x03", "x"] [.panic])]) =
    some (5, .panicked) := by decide
end witnesses

end EventStore
