import McpModel.EventStore.Bridge
/-!
# Clause soundness and completeness of the C20 monitor (E15)

A trace is the list of records of one case, each with what the IMPLEMENTATION answered (`Obs`).
Every clause of the property the monitor can report is stated as a predicate `P_…` on traces, written
from the property text with three functions of the history of API calls before a position
(`hist tr j`): `specLog k` (Props.lean: everything appended to stream `k` since it was created — the
abstract log the store must refine), `allowance` (the size of the item of the most recent `Append`;
0 once `SetMaxBytes` re-established the maximum: "the size of the store will be adjusted") and
`cfgMax` (the maximum configured by the most recent `SetMaxBytes(n)`, `n > 0`) — no monitor state, no
model.  `sound_<clause>`: whenever the monitor run reports the clause at position `j`, the predicate
fails on the trace; `monitor_sound` packages them; `monitor_complete`: a silent run means every
predicate holds; `model_satisfies_P`: they hold on the model's answers to any record sequence.
-/
namespace EventStore

abbrev Trace := List (Rec × Obs)

/-- The API calls a record makes, in order. -/
def opsOf : Rec → List (Op String)
  | .op o => [o]
  | .afteri k i k2 p => [.after k i, .append k2 p]
  | .stat => []
  | .concurrent => []

/-- The API calls made before position `j`. -/
def hist (tr : Trace) (j : Nat) : List (Op String) := (tr.take j).flatMap fun p => opsOf p.1

/-- The `After(k, i)` a record asks, if any. -/
def queryOf : Rec → Option (Key × Int)
  | .op (.after k i) => some (k, i)
  | .afteri k i _ _ => some (k, i)
  | _ => none

def allowStep (a : Nat) : Op String → Nat
  | .append _ d => psz d
  | .setMax _ => 0
  | _ => a

/-- "the most recent item": the size of the item of the most recent `Append`, unless a `SetMaxBytes`
came after it (which re-establishes the maximum). -/
def allowance (ops : List (Op String)) : Nat := ops.foldl allowStep 0

def cfgStep (c : Option Nat) : Op String → Option Nat
  | .setMax n => if n = 0 then none else some n
  | _ => c

/-- "the configured maximum": what the most recent `SetMaxBytes(n)`, `n > 0`, configured (`none`: the default). -/
def cfgMax (ops : List (Op String)) : Option Nat := ops.foldl cfgStep none

/-! ## The property clauses, as predicates on traces -/

/-- An `After` on a stream that does not exist reports the unknown stream. -/
def P_unknown_reported (tr : Trace) : Prop :=
  ∀ j r obs k i, tr[j]? = some (r, obs) → queryOf r = some (k, i) → -1 ≤ i →
    specLog k (hist tr j) = none → obs = .unknown

/-- "returns exactly the payloads appended to that stream after that index, in append order, or an
events-purged error … never a partial or gapped sequence". -/
def P_exact_or_purged (tr : Trace) : Prop :=
  ∀ j r obs k i log, tr[j]? = some (r, obs) → queryOf r = some (k, i) → -1 ≤ i →
    specLog k (hist tr j) = some log → obs = .purged ∨ obs = .items (log.drop (i + 1).toNat)

/-- "an events-purged error if any of them has been evicted": the purge error only if some payload
lies after the index. -/
def P_purged_only_if_evicted (tr : Trace) : Prop :=
  ∀ j r obs k i log, tr[j]? = some (r, obs) → queryOf r = some (k, i) → -1 ≤ i →
    specLog k (hist tr j) = some log → obs = .purged → (i + 1).toNat < log.length

/-- "Retained bytes never exceed the configured maximum by more than the most recent item". -/
def P_bytes_bound (tr : Trace) : Prop :=
  ∀ (j : Nat) n m r, tr[j]? = some (Rec.stat, Obs.stat n m r) → r ≤ (cfgMax (hist tr j)).getD m + allowance (hist tr j)

/-- A `stat` probe is answered with the three numbers. -/
def P_stat_readable (tr : Trace) : Prop :=
  ∀ (j : Nat) obs, tr[j]? = some (Rec.stat, obs) → ∃ n m r, obs = Obs.stat n m r

/-- "all operations are safe under concurrent use": after a concurrent run the byte count equals the retained data. -/
def P_concurrent_consistent (tr : Trace) : Prop :=
  ∀ (j : Nat) obs, tr[j]? = some (Rec.concurrent, obs) → obs = Obs.consistent

/-- No exported method panics. -/
def P_no_panic (tr : Trace) : Prop :=
  ∀ (j : Nat) r obs, tr[j]? = some (r, obs) → opsOf r ≠ [] → obs ≠ Obs.panic

def P_of : Clause → Trace → Prop
  | .afterUnknown => P_unknown_reported
  | .afterWrong => P_exact_or_purged
  | .afterPurgedNothing => P_purged_only_if_evicted
  | .bytesBound => P_bytes_bound
  | .badStat => P_stat_readable
  | .concurrent => P_concurrent_consistent
  | .panicked => P_no_panic

/-! ## The monitor's state is a function of the history -/

/-- The monitor state after a trace. -/
def stateAfter : MState → Trace → MState
  | m, [] => m
  | m, (r, obs) :: tr => stateAfter (monStep m r obs).1 tr

theorem monStep_state (m : MState) (r : Rec) (obs : Obs) : (monStep m r obs).1 = (opsOf r).foldl bookOp m := by
  cases r <;> rfl

theorem stateAfter_hist : ∀ (tr : Trace) (m : MState),
    stateAfter m tr = (tr.flatMap fun p => opsOf p.1).foldl bookOp m := by
  intro tr
  induction tr with
  | nil => intro m; rfl
  | cons p tr ih =>
    intro m
    obtain ⟨r, obs⟩ := p
    simp only [stateAfter, List.flatMap_cons, List.foldl_append, monStep_state, ih]

theorem fold_spec (k : Key) : ∀ (ops : List (Op String)) (m : MState),
    (ops.foldl bookOp m).spec.lookup k = ops.foldl (specStep k) (m.spec.lookup k) := by
  intro ops
  induction ops with
  | nil => intro m; rfl
  | cons op ops ih => intro m; simp only [List.foldl_cons, ih, book_spec]

theorem fold_last : ∀ (ops : List (Op String)) (m : MState),
    (ops.foldl bookOp m).lastApp = ops.foldl allowStep m.lastApp := by
  intro ops
  induction ops with
  | nil => intro m; rfl
  | cons op ops ih =>
    intro m
    simp only [List.foldl_cons, ih]
    cases op <;> rfl

theorem fold_cfg : ∀ (ops : List (Op String)) (m : MState),
    (ops.foldl bookOp m).maxCfg = ops.foldl cfgStep m.maxCfg := by
  intro ops
  induction ops with
  | nil => intro m; rfl
  | cons op ops ih =>
    intro m
    simp only [List.foldl_cons, ih]
    cases op <;> rfl

/-- The monitor's bookkeeping before position `j` is the three history functions. -/
theorem state_at (tr : Trace) (j : Nat) :
    (∀ k, (stateAfter {} (tr.take j)).spec.lookup k = specLog k (hist tr j)) ∧
    (stateAfter {} (tr.take j)).lastApp = allowance (hist tr j) ∧
    (stateAfter {} (tr.take j)).maxCfg = cfgMax (hist tr j) := by
  rw [stateAfter_hist]
  exact ⟨fun k => fold_spec k _ _, fold_last _ _, fold_cfg _ _⟩

/-! ## Where the monitor run reports -/

/-- The run reports `cl` at position `j`. -/
def FiresAt (tr : Trace) (j : Nat) (cl : Clause) : Prop :=
  ∃ r obs, tr[j]? = some (r, obs) ∧ (monStep (stateAfter {} (tr.take j)) r obs).2 = some cl

theorem runMonFrom_fires : ∀ (tr : Trace) (m : MState) (i j : Nat) (cl : Clause),
    runMonFrom m i tr = some (j, cl) →
    ∃ d r obs, j = i + d ∧ tr[d]? = some (r, obs) ∧ (monStep (stateAfter m (tr.take d)) r obs).2 = some cl := by
  intro tr
  induction tr with
  | nil => intro m i j cl h; cases h
  | cons p tr ih =>
    obtain ⟨r, obs⟩ := p
    intro m i j cl h
    simp only [runMonFrom] at h
    cases hc : (monStep m r obs).2 with
    | some c =>
      rw [hc] at h; cases h
      exact ⟨0, r, obs, rfl, rfl, hc⟩
    | none =>
      rw [hc] at h
      obtain ⟨d, r', obs', hj, hd, hf⟩ := ih _ _ _ _ h
      exact ⟨d + 1, r', obs', by omega, hd, hf⟩

theorem runMon_fires {tr : Trace} {j : Nat} {cl : Clause} (h : runMon tr = some (j, cl)) : FiresAt tr j cl := by
  obtain ⟨d, r, obs, hj, hd, hf⟩ := runMonFrom_fires tr {} 0 j cl h
  have : j = d := by omega
  subst this
  exact ⟨r, obs, hd, hf⟩

theorem runMonFrom_none : ∀ (tr : Trace) (m : MState) (i : Nat), runMonFrom m i tr = none →
    ∀ d r obs, tr[d]? = some (r, obs) → (monStep (stateAfter m (tr.take d)) r obs).2 = none := by
  intro tr
  induction tr with
  | nil => intro m i _ d r obs hd; cases hd
  | cons p tr ih =>
    obtain ⟨r0, obs0⟩ := p
    intro m i h d r obs hd
    simp only [runMonFrom] at h
    cases hc : (monStep m r0 obs0).2 with
    | some c => rw [hc] at h; cases h
    | none =>
      rw [hc] at h
      cases d with
      | zero =>
        simp only [List.getElem?_cons_zero, Option.some.injEq, Prod.mk.injEq] at hd
        obtain ⟨rfl, rfl⟩ := hd
        exact hc
      | succ d => exact ih _ _ h d r obs hd

/-! ## What it takes for a clause to be reported on a record -/

theorem afterClause_some {m : MState} {k : Key} {i : Int} {obs : Obs} {cl : Clause}
    (h : afterClause m k i obs = some cl) :
    -1 ≤ i ∧
    ((cl = .afterUnknown ∧ m.spec.lookup k = none ∧ obs ≠ .unknown) ∨
     (∃ log, cl = .afterPurgedNothing ∧ m.spec.lookup k = some log ∧ obs = .purged ∧ log.drop (i + 1).toNat = []) ∨
     (∃ log, cl = .afterWrong ∧ m.spec.lookup k = some log ∧ obs ≠ .purged ∧ obs ≠ .items (log.drop (i + 1).toNat))) := by
  simp only [afterClause] at h
  split at h
  · cases h
  · rename_i hi
    refine ⟨by omega, ?_⟩
    cases hl : m.spec.lookup k with
    | none =>
      rw [hl] at h; simp only [] at h
      split at h
      · cases h
      · cases h; exact .inl ⟨rfl, rfl, by assumption⟩
    | some log =>
      rw [hl] at h; simp only [] at h
      split at h
      · rename_i hp
        split at h
        · rename_i he
          cases h; exact .inr (.inl ⟨log, rfl, rfl, hp, List.isEmpty_iff.1 he⟩)
        · cases h
      · rename_i hp
        split at h
        · cases h
        · cases h; exact .inr (.inr ⟨log, rfl, rfl, hp, by assumption⟩)

/-- A report on a record, read. -/
theorem monStep_some {m : MState} {r : Rec} {obs : Obs} {cl : Clause} (h : (monStep m r obs).2 = some cl) :
    (cl = .panicked ∧ opsOf r ≠ [] ∧ obs = .panic) ∨
    (∃ k i, queryOf r = some (k, i) ∧ afterClause m k i obs = some cl) ∨
    (r = .stat ∧ statClause m obs = some cl) ∨
    (r = .concurrent ∧ cl = .concurrent ∧ obs ≠ .consistent) := by
  cases r with
  | op o =>
    simp only [monStep, opClause] at h
    split at h
    · cases h; exact .inl ⟨rfl, by simp [opsOf], by assumption⟩
    · cases o <;> first | cases h | exact .inr (.inl ⟨_, _, rfl, h⟩)
  | afteri k i k2 p =>
    simp only [monStep, opClause] at h
    split at h
    · cases h; exact .inl ⟨rfl, by simp [opsOf], by assumption⟩
    · exact .inr (.inl ⟨k, i, rfl, h⟩)
  | stat => exact .inr (.inr (.inl ⟨rfl, h⟩))
  | concurrent =>
    simp only [monStep] at h
    split at h
    · cases h
    · cases h; exact .inr (.inr (.inr ⟨rfl, rfl, by assumption⟩))

theorem afterClause_kind {m : MState} {k : Key} {i : Int} {obs : Obs} {cl : Clause}
    (h : afterClause m k i obs = some cl) : cl = .afterUnknown ∨ cl = .afterPurgedNothing ∨ cl = .afterWrong := by
  rcases (afterClause_some h).2 with ⟨h, _⟩ | ⟨_, h, _⟩ | ⟨_, h, _⟩
  · exact .inl h
  · exact .inr (.inl h)
  · exact .inr (.inr h)

theorem statClause_some {m : MState} {obs : Obs} {cl : Clause} (h : statClause m obs = some cl) :
    (cl = .badStat ∧ ¬ ∃ n mx r, obs = .stat n mx r) ∨
    (∃ n mx r, cl = .bytesBound ∧ obs = .stat n mx r ∧ ¬ r ≤ m.maxCfg.getD mx + m.lastApp) := by
  cases obs with
  | stat n mx r =>
    simp only [statClause] at h
    split at h
    · cases h
    · cases h; exact .inr ⟨n, mx, r, rfl, rfl, by assumption⟩
  | _ => simp only [statClause] at h; cases h; exact .inl ⟨rfl, by rintro ⟨_, _, _, h⟩; cases h⟩

/-! ## Clause soundness -/

theorem sound_afterUnknown (tr : Trace) (j : Nat) (h : FiresAt tr j .afterUnknown) : ¬ P_unknown_reported tr := by
  obtain ⟨r, obs, hj, hf⟩ := h
  rcases monStep_some hf with ⟨hc, _⟩ | ⟨k, i, hq, ha⟩ | ⟨_, hs⟩ | ⟨_, hc, _⟩
  · cases hc
  · obtain ⟨hi, hcase⟩ := afterClause_some ha
    rcases hcase with ⟨_, hl, hne⟩ | ⟨_, hc, _⟩ | ⟨_, hc, _⟩
    · intro hP
      rw [(state_at tr j).1 k] at hl
      exact hne (hP j r obs k i hj hq hi hl)
    · cases hc
    · cases hc
  · rcases statClause_some hs with ⟨hc, _⟩ | ⟨_, _, _, hc, _⟩ <;> cases hc
  · cases hc

theorem sound_afterWrong (tr : Trace) (j : Nat) (h : FiresAt tr j .afterWrong) : ¬ P_exact_or_purged tr := by
  obtain ⟨r, obs, hj, hf⟩ := h
  rcases monStep_some hf with ⟨hc, _⟩ | ⟨k, i, hq, ha⟩ | ⟨_, hs⟩ | ⟨_, hc, _⟩
  · cases hc
  · obtain ⟨hi, hcase⟩ := afterClause_some ha
    rcases hcase with ⟨hc, _⟩ | ⟨_, hc, _⟩ | ⟨log, _, hl, hn1, hn2⟩
    · cases hc
    · cases hc
    · intro hP
      rw [(state_at tr j).1 k] at hl
      rcases hP j r obs k i log hj hq hi hl with h1 | h1
      · exact hn1 h1
      · exact hn2 h1
  · rcases statClause_some hs with ⟨hc, _⟩ | ⟨_, _, _, hc, _⟩ <;> cases hc
  · cases hc

theorem sound_afterPurgedNothing (tr : Trace) (j : Nat) (h : FiresAt tr j .afterPurgedNothing) :
    ¬ P_purged_only_if_evicted tr := by
  obtain ⟨r, obs, hj, hf⟩ := h
  rcases monStep_some hf with ⟨hc, _⟩ | ⟨k, i, hq, ha⟩ | ⟨_, hs⟩ | ⟨_, hc, _⟩
  · cases hc
  · obtain ⟨hi, hcase⟩ := afterClause_some ha
    rcases hcase with ⟨hc, _⟩ | ⟨log, _, hl, hp, hd⟩ | ⟨_, hc, _⟩
    · cases hc
    · intro hP
      rw [(state_at tr j).1 k] at hl
      have := hP j r obs k i log hj hq hi hl hp
      rw [List.drop_eq_nil_iff] at hd; omega
    · cases hc
  · rcases statClause_some hs with ⟨hc, _⟩ | ⟨_, _, _, hc, _⟩ <;> cases hc
  · cases hc

theorem sound_bytesBound (tr : Trace) (j : Nat) (h : FiresAt tr j .bytesBound) : ¬ P_bytes_bound tr := by
  obtain ⟨r, obs, hj, hf⟩ := h
  rcases monStep_some hf with ⟨hc, _⟩ | ⟨k, i, _, ha⟩ | ⟨hr, hs⟩ | ⟨_, hc, _⟩
  · cases hc
  · rcases afterClause_kind ha with hc | hc | hc <;> cases hc
  · rcases statClause_some hs with ⟨hc, _⟩ | ⟨n, mx, rr, _, ho, hn⟩
    · cases hc
    · intro hP
      subst hr; subst ho
      rw [(state_at tr j).2.1, (state_at tr j).2.2] at hn
      exact hn (hP j n mx rr hj)
  · cases hc

theorem sound_badStat (tr : Trace) (j : Nat) (h : FiresAt tr j .badStat) : ¬ P_stat_readable tr := by
  obtain ⟨r, obs, hj, hf⟩ := h
  rcases monStep_some hf with ⟨hc, _⟩ | ⟨k, i, _, ha⟩ | ⟨hr, hs⟩ | ⟨_, hc, _⟩
  · cases hc
  · rcases afterClause_kind ha with hc | hc | hc <;> cases hc
  · rcases statClause_some hs with ⟨_, hn⟩ | ⟨_, _, _, hc, _⟩
    · intro hP; subst hr; exact hn (hP j obs hj)
    · cases hc
  · cases hc

theorem sound_concurrent (tr : Trace) (j : Nat) (h : FiresAt tr j .concurrent) : ¬ P_concurrent_consistent tr := by
  obtain ⟨r, obs, hj, hf⟩ := h
  rcases monStep_some hf with ⟨hc, _⟩ | ⟨k, i, _, ha⟩ | ⟨_, hs⟩ | ⟨hr, _, hn⟩
  · cases hc
  · rcases afterClause_kind ha with hc | hc | hc <;> cases hc
  · rcases statClause_some hs with ⟨hc, _⟩ | ⟨_, _, _, hc, _⟩ <;> cases hc
  · intro hP; subst hr; exact hn (hP j obs hj)

theorem sound_panicked (tr : Trace) (j : Nat) (h : FiresAt tr j .panicked) : ¬ P_no_panic tr := by
  obtain ⟨r, obs, hj, hf⟩ := h
  rcases monStep_some hf with ⟨_, hne, hp⟩ | ⟨k, i, _, ha⟩ | ⟨_, hs⟩ | ⟨_, hc, _⟩
  · intro hP; exact hP j r obs hj hne hp
  · rcases afterClause_kind ha with hc | hc | hc <;> cases hc
  · rcases statClause_some hs with ⟨hc, _⟩ | ⟨_, _, _, hc, _⟩ <;> cases hc
  · cases hc

/-- **monitor_sound.** Whatever clause the monitor run reports, the corresponding clause of the
property fails on the trace. -/
theorem monitor_sound (tr : Trace) (j : Nat) (cl : Clause) (h : runMon tr = some (j, cl)) : ¬ P_of cl tr := by
  have hf := runMon_fires h
  cases cl with
  | afterUnknown => exact sound_afterUnknown tr j hf
  | afterWrong => exact sound_afterWrong tr j hf
  | afterPurgedNothing => exact sound_afterPurgedNothing tr j hf
  | bytesBound => exact sound_bytesBound tr j hf
  | badStat => exact sound_badStat tr j hf
  | concurrent => exact sound_concurrent tr j hf
  | panicked => exact sound_panicked tr j hf

/-! ## Completeness -/

theorem afterClause_none {m : MState} {k : Key} {i : Int} {obs : Obs} (h : afterClause m k i obs = none)
    (hi : -1 ≤ i) :
    (m.spec.lookup k = none → obs = .unknown) ∧
    (∀ log, m.spec.lookup k = some log →
      (obs = .purged ∧ (i + 1).toNat < log.length) ∨ (obs ≠ .purged ∧ obs = .items (log.drop (i + 1).toNat))) := by
  simp only [afterClause] at h
  have hn : ¬ i < -1 := by omega
  simp only [hn, if_false] at h
  cases hl : m.spec.lookup k with
  | none =>
    rw [hl] at h; simp only [] at h
    refine ⟨fun _ => ?_, fun log hx => ?_⟩
    case refine_2 => cases hx
    split at h
    · assumption
    · cases h
  | some log =>
    rw [hl] at h; simp only [] at h
    refine ⟨fun hx => ?_, fun log' hx => ?_⟩
    case refine_1 => cases hx
    cases hx
    split at h
    · rename_i hp
      split at h
      · cases h
      · rename_i he
        left; refine ⟨hp, ?_⟩
        have : log.drop (i + 1).toNat ≠ [] := fun e => he (by rw [e]; rfl)
        rw [Ne, List.drop_eq_nil_iff] at this; omega
    · rename_i hp
      split at h
      · right; exact ⟨hp, by assumption⟩
      · cases h

theorem monStep_query_none {m : MState} {r : Rec} {obs : Obs} {k : Key} {i : Int}
    (h : (monStep m r obs).2 = none) (hq : queryOf r = some (k, i)) : afterClause m k i obs = none := by
  cases r with
  | op o =>
    cases o <;> simp only [queryOf] at hq <;> try cases hq
    simp only [monStep, opClause] at h
    split at h
    · cases h
    · exact h
  | afteri k' i' k2 p =>
    simp only [queryOf, Option.some.injEq, Prod.mk.injEq] at hq
    obtain ⟨rfl, rfl⟩ := hq
    simp only [monStep, opClause] at h
    split at h
    · cases h
    · exact h
  | stat => cases hq
  | concurrent => cases hq

/-- **monitor_complete.** If the monitor run is silent on a trace, every clause of the property holds on it. -/
theorem monitor_complete (tr : Trace) (h : runMon tr = none) (cl : Clause) : P_of cl tr := by
  have loc := runMonFrom_none tr {} 0 h
  cases cl with
  | afterUnknown =>
    intro j r obs k i hj hq hi hl
    have := (afterClause_none (monStep_query_none (loc j r obs hj) hq) hi).1
    rw [(state_at tr j).1 k] at this
    exact this hl
  | afterWrong =>
    intro j r obs k i log hj hq hi hl
    have := (afterClause_none (monStep_query_none (loc j r obs hj) hq) hi).2 log
    rw [(state_at tr j).1 k] at this
    rcases this hl with ⟨h1, _⟩ | ⟨_, h2⟩
    · exact .inl h1
    · exact .inr h2
  | afterPurgedNothing =>
    intro j r obs k i log hj hq hi hl hp
    have := (afterClause_none (monStep_query_none (loc j r obs hj) hq) hi).2 log
    rw [(state_at tr j).1 k] at this
    rcases this hl with ⟨_, h1⟩ | ⟨h2, _⟩
    · exact h1
    · exact absurd hp h2
  | bytesBound =>
    intro j n m r hj
    have := loc j _ _ hj
    simp only [monStep, statClause] at this
    split at this
    · rename_i hb
      rw [(state_at tr j).2.1, (state_at tr j).2.2] at hb; exact hb
    · cases this
  | badStat =>
    intro j obs hj
    have := loc j _ _ hj
    cases obs with
    | stat n m r => exact ⟨n, m, r, rfl⟩
    | _ => simp [monStep, statClause] at this
  | concurrent =>
    intro j obs hj
    have := loc j _ _ hj
    simp only [monStep] at this
    split at this
    · assumption
    · cases this
  | panicked =>
    intro j r obs hj hne hp
    have := loc j _ _ hj
    subst hp
    cases r with
    | op o => simp [monStep, opClause] at this
    | afteri k i k2 p => simp [monStep, opClause] at this
    | stat => exact hne rfl
    | concurrent => exact hne rfl

/-- The predicates are satisfiable: they hold on the model's answers to ANY record sequence. -/
theorem model_satisfies_P (rs : List Rec) (cl : Clause) :
    ∃ s os, recRun init rs = some (s, os) ∧ P_of cl (rs.zip os) := by
  obtain ⟨s, os, h1, _, h3⟩ := monitor_accepts_model rs
  exact ⟨s, os, h1, monitor_complete _ h3 cl⟩

/-! ## Non-vacuity: every clause can be reported -/

section witnesses
private def kA : Key := ("s", "a")
private def pre : Trace := [(.op (.setMax 4), .ok), (.op (.open kA), .ok), (.op (.append kA "x0102"), .ok)]

example : runMon (pre ++ [(.op (.after kA (-1)), .items ["x0102"]), (.stat, .stat 2 4 2)]) = none := by decide
example : runMon (pre ++ [(.op (.after ("s", "b") 0), .items [])]) = some (3, .afterUnknown) := by decide
example : runMon (pre ++ [(.op (.after kA (-1)), .items [])]) = some (3, .afterWrong) := by decide
example : runMon (pre ++ [(.op (.after kA (-1)), .partialThenPurged)]) = some (3, .afterWrong) := by decide
example : runMon (pre ++ [(.op (.after kA (-1)), .purged)]) = none := by decide
example : runMon (pre ++ [(.op (.after kA 0), .purged)]) = some (3, .afterPurgedNothing) := by decide
example : runMon (pre ++ [(.stat, .stat 7 4 7)]) = some (3, .bytesBound) := by decide
example : runMon (pre ++ [(.stat, .stat 7 8 7)]) = some (3, .bytesBound) := by decide
example : runMon (pre ++ [(.stat, .ok)]) = some (3, .badStat) := by decide
example : runMon (pre ++ [(.concurrent, .other "nBytes=3 retained=2")]) = some (3, .concurrent) := by decide
example : runMon (pre ++ [(.op (.append kA "x03"), .panic)]) = some (3, .panicked) := by decide
example : runMon (pre ++ [(.afteri kA (-1) kA "x03", .items ["x0102"]), (.op (.after kA 0), .items ["x03"])]) = none := by
  decide
end witnesses

end EventStore
