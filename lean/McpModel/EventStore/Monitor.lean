import McpModel.EventStore.Model
/-!
E15 — the typed core of the C20 monitor.

The driver (Driver.lean) parses a record into a `Rec` (an API call, an `After` with an `Append` issued
from inside the iteration, a `stat` probe, the verdict of a concurrent run) and the implementation's
observation into an `Obs`, calls `monStep` — which reads only its own state `MState` (the abstract
per-stream log of everything appended since the stream was created, the size of the most recent item,
the configured maximum), never the model's `Store` — and renders the `Clause` it returns
(`Clause.text`).  Bridge.lean: the monitor raises no clause on the model's answers, for ALL record
sequences; Sound.lean: a reported clause refutes the property clause on the observed trace, silence
implies every clause.  Core Lean only (linked into the driver).
-/
namespace EventStore

/-- Payloads travel as `x<hex>`; their size is the byte length. -/
def psz (p : String) : Nat := (p.length - 1) / 2

/-- The implementation's observation of one record. -/
inductive Obs
  | ok
  | err
  | panic
  | items (l : List String)
  | purged
  | unknown
  /-- `After` yielded some payloads and then an error -/
  | partialThenPurged
  | partialThenError
  | num (n : Nat)
  /-- `stat <nBytes> <maxBytes> <retained bytes counted from the data>` -/
  | stat (nBytes maxBytes retained : Nat)
  /-- concurrent run: nBytes equals the retained data -/
  | consistent
  | other (s : String)
deriving DecidableEq, Repr

/-- One record of the stream. -/
inductive Rec
  | op (o : Op String)
  /-- `After(k, i)` with an `Append(k2, p)` issued from inside the iteration: the iterator delivers
  what was retained when it started (After copies under the lock), then the append takes effect -/
  | afteri (k : Key) (i : Int) (k2 : Key) (p : String)
  | stat
  | concurrent
deriving Repr

inductive Clause
  /-- after_refines_spec: unknown stream must be reported -/
  | afterUnknown
  /-- after_refines_spec: neither the purge error nor exactly the payloads after the index -/
  | afterWrong
  /-- after_refines_spec: the purge error although nothing lies after the index -/
  | afterPurgedNothing
  /-- bytes_bound -/
  | bytesBound
  | badStat
  /-- accounting after concurrent use -/
  | concurrent
  /-- an exported method panicked -/
  | panicked
deriving DecidableEq, Repr

/-- The monitor's own bookkeeping (independent of the model's state). -/
structure MState where
  /-- per stream: everything appended to it since it was (re)created; absent = unknown stream -/
  spec : List (Key × List String) := []
  /-- size of the item of the most recent `Append`; 0 once `SetMaxBytes` re-established the maximum -/
  lastApp : Nat := 0
  /-- the maximum configured by the most recent `SetMaxBytes(n)`, `n > 0` (`none`: the default) -/
  maxCfg : Option Nat := none

def specUpd (k : Key) (f : Option (List String) → Option (List String)) (sp : List (Key × List String)) :
    List (Key × List String) :=
  let cur := sp.lookup k
  let rest := sp.filter (fun p => p.1 != k)
  match f cur with
  | none => rest
  | some l => rest ++ [(k, l)]

/-- The `After` clause: is the answer allowed by the abstract log? (`i < -1` is outside the property.) -/
def afterClause (st : MState) (k : Key) (i : Int) (obs : Obs) : Option Clause :=
  if i < -1 then none else
  match st.spec.lookup k with
  | none => if obs = .unknown then none else some .afterUnknown
  | some log =>
    if obs = .purged then
      if (log.drop (i + 1).toNat).isEmpty then some .afterPurgedNothing else none
    else if obs = .items (log.drop (i + 1).toNat) then none
    else some .afterWrong

/-- The byte bound on a `stat` probe: the bytes counted from the retained data exceed the configured
maximum (the reported one under the default) by no more than the most recent item. -/
def statClause (st : MState) (obs : Obs) : Option Clause :=
  match obs with
  | .stat _ m r => if r ≤ st.maxCfg.getD m + st.lastApp then none else some .bytesBound
  | _ => some .badStat

/-- The bookkeeping after an API call. -/
def bookOp (st : MState) : Op String → MState
  | .open k => { st with spec := specUpd k (fun c => some (c.getD [])) st.spec }
  | .append k p => { st with spec := specUpd k (fun c => some (c.getD [] ++ [p])) st.spec, lastApp := psz p }
  | .closed sess => { st with spec := st.spec.filter (fun q => q.1.1 != sess) }
  | .setMax n => { st with lastApp := 0, maxCfg := if n = 0 then none else some n }
  | _ => st

def opClause (st : MState) (o : Op String) (obs : Obs) : Option Clause :=
  if obs = .panic then some .panicked
  else match o with
    | .after k i => afterClause st k i obs
    | _ => none

/-- **The C20 monitor**, one record: the new bookkeeping and the violated clause, if any. -/
def monStep (st : MState) (r : Rec) (obs : Obs) : MState × Option Clause :=
  match r with
  | .op o => (bookOp st o, opClause st o obs)
  | .afteri k i k2 p => (bookOp st (.append k2 p), opClause st (.after k i) obs)
  | .stat => (st, statClause st obs)
  | .concurrent => (st, if obs = .consistent then none else some .concurrent)

/-- Run the monitor over a trace: the first position at which a clause is reported, with the clause. -/
def runMonFrom : MState → Nat → List (Rec × Obs) → Option (Nat × Clause)
  | _, _, [] => none
  | st, j, (r, obs) :: tr =>
    match (monStep st r obs).2 with
    | some cl => some (j, cl)
    | none => runMonFrom (monStep st r obs).1 (j + 1) tr

def runMon (tr : List (Rec × Obs)) : Option (Nat × Clause) := runMonFrom {} 0 tr

/-! ### The model's observation -/

def obsOfOut : Out String → Obs
  | .ok => .ok
  | .items l => .items l
  | .purged => .purged
  | .unknown => .unknown
  | .num n => .num n

/-- The model on one record (`none`: a model-level panic). -/
def recStep (s : Store String) : Rec → Option (Store String × Obs)
  | .op o => (step psz s o).map fun p => (p.1, obsOfOut p.2)
  | .afteri k i k2 p =>
    match step psz s (.after k i) with
    | none => none
    | some (s1, o) =>
      match step psz s1 (.append k2 p) with
      | none => none
      | some (s2, _) => some (s2, obsOfOut o)
  | .stat => some (s, .stat s.nBytes s.maxBytes s.nBytes)
  | .concurrent => some (s, .consistent)

/-- The model on a record sequence: the observations, oldest first (`none`: a model-level panic). -/
def recRun : Store String → List Rec → Option (Store String × List Obs)
  | s, [] => some (s, [])
  | s, r :: rs =>
    match recStep s r with
    | none => none
    | some (s', o) =>
      match recRun s' rs with
      | none => none
      | some (s'', os) => some (s'', o :: os)

end EventStore
