import McpModel.EventStore.Model
/-!
E15 — the typed core of the C20 monitor.

The driver (Driver.lean) parses a record into a `Rec` (an API call, an `After` with an `Append` issued
from inside the iteration, a `stat` probe, the verdict of a concurrent run) and the implementation's
observation into an `Obs`, calls `monStep` — which reads only its own state `MState` (the abstract
per-stream log of everything appended since the stream was created, the size of the most recent item,
the configured maximum), never the model's `Store` — and renders the `Clause` it returns
(`Clause.text`).  Bridge.lean: the monitor raises no clause on the model's answers, for ALL record
sequences; Sound.lean: a reported clause refutes the property clause on the observed trace, silence
implies every clause.  Core Lean only (linked into the driver).
-/
namespace EventStore

/-- Payloads travel as `x<hex>`; their size is the byte length. -/
def psz (p : String) : Nat := (p.length - 1) / 2

/-- The context handed to `After` by an `iter` record: live throughout, or cancelled / past its deadline
from the body of the `c`-th yielded item on (`c = 0`: before the call). -/
inductive CtxMode
  | live
  | cancel (c : Nat)
  | deadline (c : Nat)
deriving DecidableEq, Repr

/-- From which item on the context is done. -/
def CtxMode.point : CtxMode → Option Nat
  | .live => none
  | .cancel c => some c
  | .deadline c => some c

/-- What a complete `After` issued from inside an iteration observed (the forms of op `after`). -/
inductive AObs
  | items (l : List String)
  | purged
  | unknown
  | partialThenPurged
  | partialThenError
  | panic
  | other
deriving DecidableEq, Repr

/-- The implementation's observation of one record. -/
inductive Obs
  | ok
  | err
  | panic
  | items (l : List String)
  | purged
  | unknown
  /-- `After` yielded some payloads and then an error -/
  | partialThenPurged
  | partialThenError
  | num (n : Nat)
  /-- `stat <nBytes> <maxBytes> <retained bytes counted from the data>` -/
  | stat (nBytes maxBytes retained : Nat)
  /-- concurrent run: nBytes equals the retained data, private streams replayed exactly -/
  | consistent
  /-- an `iter` record: how the iteration ended, what it delivered before, and what the `After`s issued
  from inside it observed (in script order) -/
  | iter (t : Term) (items : List String) (nested : List AObs)
  | other (s : String)
deriving DecidableEq, Repr

def AObs.toObs : AObs → Obs
  | .items l => .items l
  | .purged => .purged
  | .unknown => .unknown
  | .partialThenPurged => .partialThenPurged
  | .partialThenError => .partialThenError
  | .panic => .panic
  | .other => .other ""

/-- One record of the stream. -/
inductive Rec
  | op (o : Op String)
  /-- `After(k, i)` with an `Append(k2, p)` issued from inside the iteration: the iterator delivers
  what was retained when it started (After copies under the lock), then the append takes effect -/
  | afteri (k : Key) (i : Int) (k2 : Key) (p : String)
  /-- **the iteration protocol**: `After(ctx, k, i)` ranged over by a consumer that breaks in the body of
  the `stop`-th item (`none`: drains), with the context `cm`, and the API calls `script` issued from
  INSIDE the iteration, in order (after the loop where the iteration does not get that far): the
  iterator delivers from the snapshot taken when it started, whatever the script does to the store -/
  | iter (k : Key) (i : Int) (cm : CtxMode) (stop : Option Nat) (script : List (Op String))
  | stat
  | concurrent
deriving Repr

inductive Clause
  /-- after_refines_spec: unknown stream must be reported -/
  | afterUnknown
  /-- after_refines_spec: neither the purge error nor exactly the payloads after the index -/
  | afterWrong
  /-- after_refines_spec: the purge error although nothing lies after the index -/
  | afterPurgedNothing
  /-- bytes_bound -/
  | bytesBound
  | badStat
  /-- the store's own consistency check (`validate`, compiled out): its byte count is the bytes of its data -/
  | accounting
  /-- accounting / exact replay of private streams under concurrent use -/
  | concurrent
  /-- an exported method panicked -/
  | panicked
  /-- after_iteration_complete_or_error: the iteration ended without an error after a proper prefix -/
  | iterShort
  /-- a context error although the context was not done -/
  | ctxErrLive
  /-- the iterator delivers while holding the store's lock -/
  | iterLocked
  | badIter
deriving DecidableEq, Repr

/-- The monitor's own bookkeeping (independent of the model's state). -/
structure MState where
  /-- per stream: everything appended to it since it was (re)created; absent = unknown stream -/
  spec : List (Key × List String) := []
  /-- size of the item of the most recent `Append`; 0 once `SetMaxBytes` re-established the maximum -/
  lastApp : Nat := 0
  /-- the maximum configured by the most recent `SetMaxBytes(n)`, `n > 0` (`none`: the default) -/
  maxCfg : Option Nat := none

def specUpd (k : Key) (f : Option (List String) → Option (List String)) (sp : List (Key × List String)) :
    List (Key × List String) :=
  let cur := sp.lookup k
  let rest := sp.filter (fun p => p.1 != k)
  match f cur with
  | none => rest
  | some l => rest ++ [(k, l)]

/-- The `After` clause: is the answer allowed by the abstract log? (`i < -1` is outside the property.) -/
def afterClause (st : MState) (k : Key) (i : Int) (obs : Obs) : Option Clause :=
  if i < -1 then none else
  match st.spec.lookup k with
  | none => if obs = .unknown then none else some .afterUnknown
  | some log =>
    if obs = .purged then
      if (log.drop (i + 1).toNat).isEmpty then some .afterPurgedNothing else none
    else if obs = .items (log.drop (i + 1).toNat) then none
    else some .afterWrong

/-- The `iter` clause: is the way the iteration ended, and what it delivered before, allowed by the
abstract log as of its start?  A complete iteration (`fin`) is exactly the payloads after the index; a
broken one exactly the first `stop` of them; the purge error comes immediately and only if something
lies after the index; a context error only once the context is done, after a prefix; anything else that
cannot be complete is not allowed — in particular ending normally after a proper prefix. -/
def iterClause (st : MState) (k : Key) (i : Int) (cm : CtxMode) (stop : Option Nat) (t : Term)
    (items : List String) : Option Clause :=
  if t = .locked then some .iterLocked else
  if i < -1 then none else
  match st.spec.lookup k with
  | none =>
    if t = .ctx then
      match cm.point with
      | some c => if c ≤ items.length then (if items = [] then none else some .afterUnknown) else some .ctxErrLive
      | none => some .ctxErrLive
    else if t = .unknown ∧ items = [] then none else some .afterUnknown
  | some log =>
    let exp := log.drop (i + 1).toNat
    match t with
    | .fin => if items = exp then none else if items.isPrefixOf exp then some .iterShort else some .afterWrong
    | .broke =>
      match stop with
      | some n => if 1 ≤ n ∧ n ≤ exp.length ∧ items = exp.take n then none else some .afterWrong
      | none => some .afterWrong
    | .purged =>
      if items = [] then (if exp.isEmpty then some .afterPurgedNothing else none) else some .afterWrong
    | .ctx =>
      match cm.point with
      | some c => if c ≤ items.length then (if items.isPrefixOf exp then none else some .afterWrong) else some .ctxErrLive
      | none => some .ctxErrLive
    | _ => some .afterWrong

/-- A `stat` probe.  `MemoryEventStore.validate` (mcp/event.go; compiled out by `validateMemoryEventStore =
false`): the store's byte count `nBytes` — which alone drives eviction — equals the bytes counted from the
data it retains.  The byte bound: the bytes counted from the retained data exceed the configured maximum
(the reported one under the default) by no more than the most recent item. -/
def statClause (st : MState) (obs : Obs) : Option Clause :=
  match obs with
  | .stat n m r =>
    if n ≠ r then some .accounting
    else if r ≤ st.maxCfg.getD m + st.lastApp then none else some .bytesBound
  | _ => some .badStat

/-- The bookkeeping after an API call. -/
def bookOp (st : MState) : Op String → MState
  | .open k => { st with spec := specUpd k (fun c => some (c.getD [])) st.spec }
  | .append k p => { st with spec := specUpd k (fun c => some (c.getD [] ++ [p])) st.spec, lastApp := psz p }
  | .closed sess => { st with spec := st.spec.filter (fun q => q.1.1 != sess) }
  | .setMax n => { st with lastApp := 0, maxCfg := if n = 0 then none else some n }
  | _ => st

def opClause (st : MState) (o : Op String) (obs : Obs) : Option Clause :=
  if obs = .panic then some .panicked
  else match o with
    | .after k i => afterClause st k i obs
    | _ => none

/-- The `After`s issued from inside an iteration, each judged against the bookkeeping at ITS time. -/
def nestedClause : MState → List (Op String) → List AObs → Option Clause
  | _, [], [] => none
  | _, [], _ :: _ => some .badIter
  | st, op :: ops, os =>
    match op with
    | .after k i =>
      match os with
      | [] => some .badIter
      | o :: os' =>
        match opClause st (.after k i) o.toObs with
        | some cl => some cl
        | none => nestedClause st ops os'
    | _ => nestedClause (bookOp st op) ops os

/-- **The C20 monitor**, one record: the new bookkeeping and the violated clause, if any. -/
def monStep (st : MState) (r : Rec) (obs : Obs) : MState × Option Clause :=
  match r with
  | .op o => (bookOp st o, opClause st o obs)
  | .afteri k i k2 p => (bookOp st (.append k2 p), opClause st (.after k i) obs)
  | .iter k i cm stop script =>
    (script.foldl bookOp st,
      match obs with
      | .panic => some .panicked
      | .iter t items nested =>
        match iterClause st k i cm stop t items with
        | some cl => some cl
        | none => nestedClause st script nested
      | _ => some .badIter)
  | .stat => (st, statClause st obs)
  | .concurrent => (st, if obs = .consistent then none else some .concurrent)

/-- Run the monitor over a trace: the first position at which a clause is reported, with the clause. -/
def runMonFrom : MState → Nat → List (Rec × Obs) → Option (Nat × Clause)
  | _, _, [] => none
  | st, j, (r, obs) :: tr =>
    match (monStep st r obs).2 with
    | some cl => some (j, cl)
    | none => runMonFrom (monStep st r obs).1 (j + 1) tr

def runMon (tr : List (Rec × Obs)) : Option (Nat × Clause) := runMonFrom {} 0 tr

/-! ### The model's observation -/

def obsOfOut : Out String → Obs
  | .ok => .ok
  | .items l => .items l
  | .purged => .purged
  | .unknown => .unknown
  | .num n => .num n

def aobsOfOut : Out String → AObs
  | .items l => .items l
  | .purged => .purged
  | .unknown => .unknown
  | _ => .other

/-- The calls issued from inside an iteration, in order; the answers to the `After`s among them. -/
def runScript : Store String → List (Op String) → Option (Store String × List AObs)
  | s, [] => some (s, [])
  | s, op :: ops =>
    match step psz s op with
    | none => none
    | some (s', o) =>
      match runScript s' ops with
      | none => none
      | some (s'', os) =>
        match op with
        | .after _ _ => some (s'', aobsOfOut o :: os)
        | _ => some (s'', os)

/-- The model on one record (`none`: a model-level panic). -/
def recStep (s : Store String) : Rec → Option (Store String × Obs)
  | .op o => (step psz s o).map fun p => (p.1, obsOfOut p.2)
  | .afteri k i k2 p =>
    match step psz s (.after k i) with
    | none => none
    | some (s1, o) =>
      match step psz s1 (.append k2 p) with
      | none => none
      | some (s2, _) => some (s2, obsOfOut o)
  | .iter k i _ stop script =>
    match runScript s script with
    | none => none
    | some (s', nested) =>
      let d := deliver .ignore (afterIter s k i) stop none
      some (s', .iter d.1 d.2 nested)
  | .stat => some (s, .stat s.nBytes s.maxBytes (retainedBytes psz s.store))
  | .concurrent => some (s, .consistent)

/-- The model on a record sequence: the observations, oldest first (`none`: a model-level panic). -/
def recRun : Store String → List Rec → Option (Store String × List Obs)
  | s, [] => some (s, [])
  | s, r :: rs =>
    match recStep s r with
    | none => none
    | some (s', o) =>
      match recRun s' rs with
      | none => none
      | some (s'', os) => some (s'', o :: os)

/-! ### The window between `After`'s return and the first step of the iteration

`After` itself does nothing (structural fact `eventstore.after_delivery`: its body is the `copyData` closure
and `return func(yield …)`); the snapshot is taken by the iterator's first step.  A consumer that obtains the
iterator and ranges over it later leaves a WINDOW in which whole API calls (its own or another goroutine's)
take effect.  An `iter` line of the harness lists the calls it issued in that window (`0:<op>`); they are
records of their own, made before the iteration starts, each answered without an error (the harness reports a
panic of any of them as the observation of the line). -/

/-- The records of one `iter` line with the window calls `pre`. -/
def wireRecs (pre : List (Op String)) (r : Rec) : List Rec := pre.map Rec.op ++ [r]

/-- … with the implementation's observations. -/
def expand (pre : List (Op String)) (r : Rec) (obs : Obs) : List (Rec × Obs) :=
  pre.map (fun o => (Rec.op o, Obs.ok)) ++ [(r, obs)]

/-- The monitor over the records of one line: the new bookkeeping, the first clause raised. -/
def monRun : MState → List (Rec × Obs) → MState × Option Clause
  | st, [] => (st, none)
  | st, (r, obs) :: tr =>
    match (monStep st r obs).2 with
    | some cl => ((monRun (monStep st r obs).1 tr).1, some cl)
    | none => monRun (monStep st r obs).1 tr

/-- A window call: no answer of its own (`After` and `MaxBytes` are not issued in the window). -/
def isWindowOp : Op String → Bool
  | .after _ _ => false
  | .maxBytes => false
  | _ => true

end EventStore
