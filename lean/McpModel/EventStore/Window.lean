import McpModel.EventStore.Sound
import McpModel.EventStore.Concurrent
/-!
# C20 — the window between `After`'s return and the first step of the iteration

`MemoryEventStore.After` does nothing when it is called: its body is the definition of `copyData` and
`return func(yield …)` (structural fact `eventstore.after_delivery`, `statements_of_After = 2`).  The one
critical section that looks the stream up, does the index arithmetic, detects the purge and clones the
tail runs when the consumer takes its first step.  A consumer that obtains the iterator and ranges over
it later (the streamable server does: `for data, err := range c.eventStore.After(…)` is one statement,
but nothing in the interface obliges a caller to write it so; and between the evaluation of the range
expression and the first call of the iterator function other goroutines run) leaves a WINDOW in which
whole API calls take effect.  The harness issues such calls (`iter … 0:<op>`); the driver treats them as
records of their own made before the iteration starts (`EventStore.expand`, Monitor.lean).

* `lazy_iteration_exact_at_first_step`: for ALL histories before the call, ALL histories `pre` in the
  window, all indices, consumers, cancellation points: the iteration ends in one of the `Outcome`s with
  respect to the payloads appended after the index **as of its first step** (history `ops ++ pre`).
* `seekCopy` is the other design (seeded change C20-m13): look the stream up, compute the offset and detect
  the purge when `After` is CALLED, clone `dl.data[start:]` at the first step.  `seekCopy_exact_if_no_eviction`:
  it is the same iteration as long as the stream's `first` did not move in the window;
  `stale_seek_is_gapped`: when it did, the iteration answers neither for the store at the call nor for the
  store at the first step — a gapped sequence, no error.
* `line_accepts`, `monRun_state`, `monRun_clause`: the driver's per-line run of the monitor over the
  expanded records is `runMon` on the trace (so Sound.lean applies to it), and it raises nothing on the
  model's answers (so Bridge.lean extends to lines with a window).
-/
namespace EventStore

/-! ## The property over the window -/

section
variable {α : Type}

/-- **lazy_iteration_exact_at_first_step.**  `ops`: the history before `After(k, i)` is called; `pre`: the
calls that take effect between its return and the consumer's first step.  The iteration is judged against
the stream AS OF ITS FIRST STEP: unknown stream → nothing delivered and the error; otherwise complete and
exact, broken after exactly its first items, the purge error at once (only if something lies after the
index), or a context error after exactly the items before the cancellation point — for the code as it is
and for an iterator that reports the context. -/
theorem lazy_iteration_exact_at_first_step (sz : α → Nat) (ops pre : List (Op α)) (k : Key) (i : Int) (hi : -1 ≤ i)
    (pol : CtxPolicy) (hpol : pol ≠ .silent) (stop cancel : Option Nat) :
    ∃ s0 o0 s1 o1, run sz init ops = some (s0, o0) ∧ run sz s0 pre = some (s1, o1) ∧
      match specLog k (ops ++ pre) with
      | none =>
        (deliver pol (afterIter s1 k i) stop cancel).2 = [] ∧
        ((deliver pol (afterIter s1 k i) stop cancel).1 = .unknown ∨
         ((deliver pol (afterIter s1 k i) stop cancel).1 = .ctx ∧ cancel = some 0))
      | some log =>
        Outcome (log.drop (i + 1).toNat) stop cancel (deliver pol (afterIter s1 k i) stop cancel).1
          (deliver pol (afterIter s1 k i) stop cancel).2 := by
  obtain ⟨s0, o0, e0, hinv0, _⟩ := reachable sz ops
  obtain ⟨s1, o1, e1, _, _, _⟩ := run_inv sz pre s0 hinv0
  obtain ⟨s, os, e, h⟩ := after_iteration_complete_or_error sz (ops ++ pre) k i hi pol hpol stop cancel
  have := run_append sz ops pre init s0 s1 o0 o1 e0 e1
  rw [this] at e
  simp only [Option.some.injEq, Prod.mk.injEq] at e
  obtain ⟨hs, _⟩ := e
  subst hs
  exact ⟨s0, o0, s1, o1, e0, e1, h⟩

/-! ## The other design: seek when called, copy at the first step -/

/-- `After` as `seek` (under the lock, when `After` is called, on the store `s`: lookup, `start := (i+1) -
dl.first`, unknown / purge error) + `copyFrom(dl, start)` (under the lock again, at the first step, on the
store `s'`: `slices.Clone(dl.data[start:])`, `nil` if `start ≥ len`).  `dl` is a pointer: the list it names
is the stream's list in `s'` if the stream is still there, and the unlinked, unchanged list otherwise. -/
def seekCopy (s s' : Store α) (k : Key) (i : Int) : Iter α :=
  match find k s.store with
  | none => ⟨[], some .unknown⟩
  | some dl =>
    let start : Int := (i + 1) - dl.first
    if start < 0 then ⟨[], some .purged⟩
    else match find k s'.store with
      | some dl' => ⟨dl'.data.drop start.toNat, none⟩
      | none => ⟨dl.data.drop start.toNat, none⟩

/-- As long as the stream's `first` did not move in the window (nothing of it was evicted, it was not
closed and re-created), seek-then-copy IS the lazy iteration. -/
theorem seekCopy_exact_if_no_eviction (s s' : Store α) (k : Key) (i : Int) (dl dl' : DL α)
    (h : find k s.store = some dl) (h' : find k s'.store = some dl') (hfirst : dl'.first = dl.first) :
    seekCopy s s' k i = afterIter s' k i := by
  simp only [seekCopy, afterIter, h, h', afterOut, hfirst]
  by_cases hneg : (i + 1 - (dl.first : Int)) < 0
  · simp [hneg, iterOfOut]
  · simp only [hneg, if_false]
    by_cases hge : (i + 1 - (dl.first : Int)).toNat ≥ dl'.data.length
    · simp only [hge, if_true, iterOfOut, List.drop_eq_nil_of_le hge]
    · simp only [hge, if_false, iterOfOut]

/-- With no window at all it is the iteration of the store. -/
theorem seekCopy_same (s : Store α) (k : Key) (i : Int) : seekCopy s s k i = afterIter s k i := by
  cases h : find k s.store with
  | none => simp [seekCopy, afterIter, h]
  | some dl => exact seekCopy_exact_if_no_eviction s s k i dl dl h h rfl

/-- An iterator value is its two fields. -/
def Iter.pair (it : Iter α) : List α × Option IterErr := (it.snap, it.err)

theorem Iter.eq_of_pair (it : Iter α) (l : List α) (e : Option IterErr) (h : it.pair = (l, e)) : it = ⟨l, e⟩ := by
  cases it; simp only [Iter.pair, Prod.mk.injEq] at h; obtain ⟨rfl, rfl⟩ := h; rfl

end

section witnesses
private def kA : Key := ("s", "a")
/-- default maximum; stream s/a = 1 2 3 (a payload is its size) -/
private def histW : List (Op Nat) := [.open kA, .append kA 1, .append kA 2, .append kA 3]
/-- the window: `SetMaxBytes(5)` evicts the oldest item of s/a -/
private def preW : List (Op Nat) := [.setMax 5]

/-- The lazy iterator over the same window: the oldest item of the stream was evicted in the window, the
item after index 0 is still there — exactly the payloads after the index (two of them). -/
example : ((run id init histW).bind fun p => (run id p.1 preW).map fun q => ((afterIter q.1 kA 0).pair, (find kA q.1.store).map (·.first))) =
    some (([2, 3], none), some 1) := by decide

/-- **stale_seek_is_gapped** (seeded change C20-m13).  Stream `s/a` holds three items (6 bytes).
`After(s/a, 0)` is called; in the window `SetMaxBytes(5)` evicts the oldest item of `s/a`
(its `first` moves from 0 to 1).  The log of `s/a` is the same at the call and at the first step, two
payloads lie after index 0 and both are retained — but seek-then-copy delivers only the last of them and no
error: it answers neither for the store at the call nor for the store at the first step, and is no
`Outcome` of a drained iteration.  (`lazy_iteration_exact_at_first_step` is what excludes it.) -/
theorem stale_seek_is_gapped :
    ∃ (ops pre : List (Op Nat)) (k : Key) (s0 s1 : Store Nat) (o0 o1 : List (Out Nat)) (log : List Nat),
      run id init ops = some (s0, o0) ∧ run id s0 pre = some (s1, o1) ∧
      specLog k ops = some log ∧ specLog k (ops ++ pre) = some log ∧
      afterIter s0 k 0 = ⟨log.drop 1, none⟩ ∧ afterIter s1 k 0 = ⟨log.drop 1, none⟩ ∧
      (log.drop 1).length = 2 ∧ seekCopy s0 s1 k 0 = ⟨[3], none⟩ ∧
      ¬ Outcome (log.drop 1) none none (deliver .ignore (seekCopy s0 s1 k 0) none none).1
          (deliver .ignore (seekCopy s0 s1 k 0) none none).2 := by
  obtain ⟨s0, o0, e0, hinv0, _⟩ := reachable id histW
  obtain ⟨s1, o1, e1, _, _, _⟩ := run_inv id preW s0 hinv0
  have hsk : seekCopy s0 s1 kA 0 = ⟨[3], none⟩ := by
    have : ((run id init histW).bind fun p => (run id p.1 preW).map fun q => (seekCopy p.1 q.1 kA 0).pair) =
        some ([3], none) := by decide
    rw [e0] at this; simp only [Option.bind_some, e1, Option.map_some, Option.some.injEq] at this
    exact Iter.eq_of_pair _ _ _ this
  refine ⟨histW, preW, kA, s0, s1, o0, o1, [1, 2, 3], e0, e1, by decide, by decide, ?_, ?_, rfl, hsk, ?_⟩
  · have : (run id init histW).map (fun p => (afterIter p.1 kA 0).pair) = some ([2, 3], none) := by decide
    rw [e0] at this; simp only [Option.map_some, Option.some.injEq] at this
    exact Iter.eq_of_pair _ _ _ this
  · have : ((run id init histW).bind fun p => (run id p.1 preW).map fun q => (afterIter q.1 kA 0).pair) =
        some ([2, 3], none) := by decide
    rw [e0] at this; simp only [Option.bind_some, e1, Option.map_some, Option.some.injEq] at this
    exact Iter.eq_of_pair _ _ _ this
  · rw [hsk]
    rintro (⟨_, h⟩ | ⟨h, _⟩ | ⟨h, _⟩ | ⟨h, _⟩)
    · revert h; decide
    · revert h; decide
    · revert h; decide
    · revert h; decide
end witnesses

/-! ## The driver's per-line run of the monitor -/

/-- The bookkeeping after the records of a line is the bookkeeping of the monitor run (`stateAfter`,
Sound.lean), whether or not a clause was raised on the way. -/
theorem monRun_state : ∀ (tr : Trace) (st : MState), (monRun st tr).1 = stateAfter st tr := by
  intro tr
  induction tr with
  | nil => intro st; rfl
  | cons p tr ih =>
    intro st
    obtain ⟨r, obs⟩ := p
    simp only [monRun, stateAfter]
    split <;> exact ih _

/-- The clause the driver reports for a line is the first clause `runMonFrom` reports on its records. -/
theorem monRun_clause : ∀ (tr : Trace) (st : MState) (j : Nat),
    (monRun st tr).2 = (runMonFrom st j tr).map Prod.snd := by
  intro tr
  induction tr with
  | nil => intro st j; rfl
  | cons p tr ih =>
    intro st j
    obtain ⟨r, obs⟩ := p
    simp only [monRun, runMonFrom]
    split
    · rfl
    · exact ih _ _

/-- A window call is answered `ok` by the model. -/
theorem window_op_ok (s s' : Store String) (o : Op String) (obs : Obs) (h : isWindowOp o = true)
    (hs : recStep s (.op o) = some (s', obs)) : obs = .ok := by
  cases o with
  | after k i => cases h
  | maxBytes => cases h
  | «open» k => simp [recStep, step] at hs; rw [← hs.2]; rfl
  | append k d =>
    simp only [recStep, step] at hs
    split at hs
    · cases hs
    · simp at hs; rw [← hs.2]; rfl
  | setMax n =>
    simp only [recStep, step] at hs
    split at hs
    · cases hs
    · simp at hs; rw [← hs.2]; rfl
  | closed sess => simp [recStep, step] at hs; rw [← hs.2]; rfl

/-- **line_accepts.**  One line of the harness — the window calls `pre` and the record `r` — on linked
monitor and model states: the model answers every record (no panic), its answers to the window calls are
the `ok`s `expand` assumes, the driver's run of the monitor over the expanded line raises no clause on the
model's answer `mo` to `r`, and the states stay linked.  (With `monitor_accepts_model` for the lines without
a window: the monitor is silent on the model for every sequence of lines.) -/
theorem line_accepts : ∀ (pre : List (Op String)) (m : MState) (s : Store String) (r : Rec), Link m s →
    pre.all isWindowOp = true →
    ∃ s' os mo, recRun s (wireRecs pre r) = some (s', os) ∧ os = pre.map (fun _ => Obs.ok) ++ [mo] ∧
      (monRun m (expand pre r mo)).2 = none ∧ Link (monRun m (expand pre r mo)).1 s' := by
  intro pre
  induction pre with
  | nil =>
    intro m s r hl _
    obtain ⟨s', obs, h1, h2, h3⟩ := rec_accepts m s hl r
    refine ⟨s', [obs], obs, by simp [wireRecs, recRun, h1], rfl, ?_, ?_⟩
    · simp [expand, monRun, h2]
    · simpa [expand, monRun, h2] using h3
  | cons o pre ih =>
    intro m s r hl hall
    simp only [List.all_cons, Bool.and_eq_true] at hall
    obtain ⟨s1, obs, h1, h2, h3⟩ := rec_accepts m s hl (.op o)
    have hok := window_op_ok s s1 o obs hall.1 h1
    subst hok
    obtain ⟨s', os, mo, e1, e2, e3, e4⟩ := ih _ s1 r h3 hall.2
    refine ⟨s', .ok :: os, mo, ?_, by simp [e2], ?_, ?_⟩
    · have : wireRecs (o :: pre) r = .op o :: wireRecs pre r := rfl
      rw [this]; simp only [recRun, h1, e1]
    · have : expand (o :: pre) r mo = (.op o, .ok) :: expand pre r mo := rfl
      rw [this]; simp only [monRun, h2]; exact e3
    · have : expand (o :: pre) r mo = (.op o, .ok) :: expand pre r mo := rfl
      rw [this]; simp only [monRun, h2]; exact e4

end EventStore
