import McpModel.EventStore.Model
/-! Helper lemmas for E15 (the property theorems are in `Props.lean`). -/
namespace EventStore
variable {α : Type}

def total (sz : α → Nat) : List α → Nat
  | [] => 0
  | x :: t => sz x + total sz t

@[simp] theorem total_nil (sz : α → Nat) : total sz [] = 0 := rfl
@[simp] theorem total_cons (sz : α → Nat) (x : α) (t : List α) : total sz (x :: t) = sz x + total sz t := rfl
@[simp] theorem total_append (sz : α → Nat) (a b : List α) : total sz (a ++ b) = total sz a + total sz b := by
  induction a with
  | nil => simp
  | cons x t ih => simp [ih]; omega

/-- Per-stream invariant: byte accounting, and the retained items are the log minus its first `first` items. -/
def DLInv (sz : α → Nat) (dl : DL α) : Prop :=
  dl.size = total sz dl.data ∧ dl.data = dl.log.drop dl.first ∧ dl.first ≤ dl.log.length

def sumSizes : List (Key × DL α) → Nat
  | [] => 0
  | (_, dl) :: t => dl.size + sumSizes t

@[simp] theorem sumSizes_nil : sumSizes ([] : List (Key × DL α)) = 0 := rfl
@[simp] theorem sumSizes_cons (p : Key × DL α) (t) : sumSizes (p :: t) = p.2.size + sumSizes t := by
  cases p; rfl
@[simp] theorem sumSizes_append (a b : List (Key × DL α)) : sumSizes (a ++ b) = sumSizes a + sumSizes b := by
  induction a with
  | nil => simp
  | cons x t ih => simp [ih]; omega

def AllInv (sz : α → Nat) (st : List (Key × DL α)) : Prop := ∀ p ∈ st, DLInv sz p.2

/-- What the spec sees of a table: keys with their ghost logs. -/
def logs (st : List (Key × DL α)) : List (Key × List α) := st.map fun p => (p.1, p.2.log)

theorem DLInv_empty (sz : α → Nat) : DLInv sz (DL.empty : DL α) := by
  simp [DLInv, DL.empty]

theorem removeFirst_spec (sz : α → Nat) (dl : DL α) (h : DLInv sz dl) (hpos : dl.size > 0) :
    ∃ dl' r, removeFirst sz dl = some (dl', r) ∧ DLInv sz dl' ∧ dl'.size + r = dl.size ∧
      dl'.log = dl.log ∧ dl'.data.length + 1 = dl.data.length := by
  obtain ⟨h1, h2, h3⟩ := h
  cases hd : dl.data with
  | nil => rw [hd] at h1; simp at h1; omega
  | cons d rest =>
    refine ⟨{ dl with size := dl.size - sz d, first := dl.first + 1, data := rest }, sz d,
      by simp [removeFirst, hd], ?_, ?_, rfl, by simp [hd]⟩
    · refine ⟨?_, ?_, ?_⟩
      · simp; rw [h1, hd]; simp
      · simp
        have : dl.log.drop (dl.first + 1) = (dl.log.drop dl.first).drop 1 := by
          rw [List.drop_drop]
        rw [this, ← h2, hd]; rfl
      · simp
        have hlen : (dl.log.drop dl.first).length = (d :: rest).length := by rw [← h2, hd]
        simp at hlen; omega
    · simp; rw [h1, hd]; simp; omega

theorem purgeRound_spec (sz : α → Nat) (st : List (Key × DL α)) (h : AllInv sz st) :
    ∃ st' r ch, purgeRound sz st = some (st', r, ch) ∧ AllInv sz st' ∧ sumSizes st' + r = sumSizes st ∧
      logs st' = logs st ∧ (ch = false → sumSizes st = 0) ∧ (ch = true → items st' < items st) ∧
      items st' ≤ items st := by
  induction st with
  | nil => exact ⟨[], 0, false, rfl, by simp [AllInv], by simp, rfl, by simp, by simp, by simp⟩
  | cons p t ih =>
    obtain ⟨k, dl⟩ := p
    have ht : AllInv sz t := fun q hq => h q (List.mem_cons_of_mem _ hq)
    have hdl : DLInv sz dl := h (k, dl) (List.mem_cons_self ..)
    obtain ⟨t', r, ch, e, a1, a2, a3, a4, a5, a6⟩ := ih ht
    by_cases hpos : dl.size > 0
    · obtain ⟨dl', r', e', i', s', l', n'⟩ := removeFirst_spec sz dl hdl hpos
      refine ⟨(k, dl') :: t', r' + r, true, ?_, ?_, ?_, ?_, by simp, ?_, ?_⟩
      · simp [purgeRound, roundCons, e, hpos, e']
      · intro q hq
        rcases List.mem_cons.mp hq with rfl | hq
        · exact i'
        · exact a1 q hq
      · simp; omega
      · simp [logs] at a3 ⊢; exact ⟨l', a3⟩
      · intro _; simp [items]; omega
      · simp [items]; omega
    · have hz : dl.size = 0 := by omega
      refine ⟨(k, dl) :: t', r, ch, ?_, ?_, ?_, ?_, ?_, ?_, ?_⟩
      · simp [purgeRound, roundCons, e, hz]
      · intro q hq
        rcases List.mem_cons.mp hq with rfl | hq
        · exact hdl
        · exact a1 q hq
      · simp; omega
      · simp [logs] at a3 ⊢; exact a3
      · intro hc; simp [hz]; exact a4 hc
      · intro hc; have := a5 hc; simp [items]; omega
      · simp [items]; omega

/-- `purge` never panics on a consistent store, restores the bound, and only drops oldest items. -/
theorem purgeFuel_spec (sz : α → Nat) : ∀ (fuel : Nat) (s : Store α),
    AllInv sz s.store → s.nBytes = sumSizes s.store → items s.store ≤ fuel →
    ∃ s', purgeFuel sz fuel s = some s' ∧ AllInv sz s'.store ∧ s'.nBytes = sumSizes s'.store ∧
      s'.nBytes ≤ s'.maxBytes ∧ s'.nBytes ≤ s.nBytes ∧ logs s'.store = logs s.store ∧
      s'.maxBytes = s.maxBytes ∧ s'.lastApp = s.lastApp := by
  intro fuel
  induction fuel with
  | zero =>
    intro s hinv hacc hf
    by_cases hle : s.nBytes ≤ s.maxBytes
    · exact ⟨s, by simp [purgeFuel, hle], hinv, hacc, hle, Nat.le_refl _, rfl, rfl, rfl⟩
    · exfalso
      obtain ⟨st', r, ch, e, a1, a2, a3, a4, a5, a6⟩ := purgeRound_spec sz s.store hinv
      cases ch with
      | false => have := a4 rfl; omega
      | true => have := a5 rfl; omega
  | succ f ih =>
    intro s hinv hacc hf
    by_cases hle : s.nBytes ≤ s.maxBytes
    · exact ⟨s, by simp [purgeFuel, hle], hinv, hacc, hle, Nat.le_refl _, rfl, rfl, rfl⟩
    · obtain ⟨st', r, ch, e, a1, a2, a3, a4, a5, a6⟩ := purgeRound_spec sz s.store hinv
      cases ch with
      | false => have := a4 rfl; omega
      | true =>
        have hlt := a5 rfl
        obtain ⟨s', e', b1, b2, b3, b4, b5, b6, b7⟩ :=
          ih { s with store := st', nBytes := s.nBytes - r } a1 (by simp; omega) (by simp; omega)
        refine ⟨s', ?_, b1, b2, b3, ?_, ?_, b6, b7⟩
        · simp [purgeFuel, hle, e, e']
        · simp at b4; omega
        · simp at b5; rw [b5, a3]

theorem purge_spec (sz : α → Nat) (s : Store α) (hinv : AllInv sz s.store) (hacc : s.nBytes = sumSizes s.store) :
    ∃ s', purge sz s = some s' ∧ AllInv sz s'.store ∧ s'.nBytes = sumSizes s'.store ∧
      s'.nBytes ≤ s'.maxBytes ∧ s'.nBytes ≤ s.nBytes ∧ logs s'.store = logs s.store ∧
      s'.maxBytes = s.maxBytes ∧ s'.lastApp = s.lastApp :=
  purgeFuel_spec sz _ s hinv hacc (Nat.le_refl _)

/-! ### association-list facts -/

theorem find_logs (k : Key) (st : List (Key × DL α)) :
    (find k st).map (·.log) = (logs st).lookup k := by
  induction st with
  | nil => rfl
  | cons p t ih =>
    obtain ⟨k', d⟩ := p
    by_cases hk : k' = k
    · subst hk; simp [find, logs, List.lookup]
    · have hk' : (k == k') = false := by simp; exact fun h => hk h.symm
      simp [find, hk, logs, List.lookup, hk'] at ih ⊢; exact ih

theorem find_mem (k : Key) (st : List (Key × DL α)) (dl : DL α) (h : find k st = some dl) : (k, dl) ∈ st := by
  induction st with
  | nil => simp [find] at h
  | cons p t ih =>
    obtain ⟨k', d⟩ := p
    by_cases hk : k' = k
    · subst hk; simp [find] at h; subst h; exact List.mem_cons_self ..
    · simp [find, hk] at h; exact List.mem_cons_of_mem _ (ih h)

theorem ensure_spec (sz : α → Nat) (k : Key) (st : List (Key × DL α)) (h : AllInv sz st) :
    AllInv sz (ensure k st) ∧ sumSizes (ensure k st) = sumSizes st ∧ items (ensure k st) = items st ∧
    (logs (ensure k st)).lookup k = some (((logs st).lookup k).getD []) ∧
    ∀ k', k' ≠ k → (logs (ensure k st)).lookup k' = (logs st).lookup k' := by
  unfold ensure
  cases hf : find k st with
  | some dl =>
    have := find_logs k st; rw [hf] at this; simp at this
    refine ⟨h, rfl, rfl, ?_, fun _ _ => rfl⟩
    simp [← this]
  | none =>
    have hl := find_logs k st; rw [hf] at hl; simp at hl
    refine ⟨?_, ?_, ?_, ?_, ?_⟩
    · intro q hq
      rcases List.mem_append.mp hq with hq | hq
      · exact h q hq
      · simp at hq; subst hq; exact DLInv_empty sz
    · simp [DL.empty]
    · have : ∀ (a : List (Key × DL α)), items (a ++ [(k, DL.empty)]) = items a := by
        intro a; induction a with
        | nil => simp [items, DL.empty]
        | cons p t ih => obtain ⟨_, _⟩ := p; simp [items, ih]
      exact this st
    · simp [logs, List.lookup_append, DL.empty] at hl ⊢
    · intro k' hk'
      simp [logs, List.lookup_append]
      have : (k' == k) = false := by simp [hk']
      simp [List.lookup, this]

theorem upd_spec (sz : α → Nat) (k : Key) (f : DL α → DL α) (st : List (Key × DL α))
    (h : AllInv sz st) (hf : ∀ dl, DLInv sz dl → DLInv sz (f dl)) (dl : DL α) (hk : find k st = some dl) :
    AllInv sz (upd k f st) ∧ sumSizes (upd k f st) + dl.size = sumSizes st + (f dl).size ∧
    (logs (upd k f st)).lookup k = some (f dl).log ∧
    ∀ k', k' ≠ k → (logs (upd k f st)).lookup k' = (logs st).lookup k' := by
  induction st with
  | nil => simp [find] at hk
  | cons p t ih =>
    obtain ⟨k', d⟩ := p
    have ht : AllInv sz t := fun q hq => h q (List.mem_cons_of_mem _ hq)
    by_cases hkk : k' = k
    · subst hkk
      simp [find] at hk; subst hk
      refine ⟨?_, ?_, ?_, ?_⟩
      · intro q hq
        simp [upd] at hq
        rcases hq with rfl | hq
        · exact hf _ (h (k', d) (List.mem_cons_self ..))
        · exact ht q hq
      · simp [upd]; omega
      · simp [upd, logs, List.lookup]
      · intro k'' hk''
        have : (k'' == k') = false := by simp [hk'']
        simp [upd, logs, List.lookup, this]
    · simp [find, hkk] at hk
      obtain ⟨i1, i2, i3, i4⟩ := ih ht hk
      have hb : (k == k') = false := by simp; exact fun h => hkk h.symm
      refine ⟨?_, ?_, ?_, ?_⟩
      · intro q hq
        simp [upd, hkk] at hq
        rcases hq with rfl | hq
        · exact h (k', d) (List.mem_cons_self ..)
        · exact i1 q hq
      · simp [upd, hkk]; omega
      · simp [upd, hkk, logs, List.lookup, hb] at i3 ⊢; exact i3
      · intro k'' hk''
        have := i4 k'' hk''
        simp [upd, hkk, logs, List.lookup] at this ⊢
        split <;> simp_all

theorem filter_spec (sz : α → Nat) (sess : String) (st : List (Key × DL α)) (h : AllInv sz st) :
    AllInv sz (st.filter fun p => !decide (p.1.1 = sess)) ∧
    sumSizes (st.filter fun p => !decide (p.1.1 = sess)) + sessBytes sess st = sumSizes st ∧
    ∀ k : Key, (logs (st.filter fun p => !decide (p.1.1 = sess))).lookup k =
      if k.1 = sess then none else (logs st).lookup k := by
  refine ⟨fun q hq => h q (List.mem_filter.mp hq).1, ?_, ?_⟩
  · induction st with
    | nil => simp [sessBytes]
    | cons p t ih =>
      obtain ⟨k, d⟩ := p
      have ht : AllInv sz t := fun q hq => h q (List.mem_cons_of_mem _ hq)
      have := ih ht
      by_cases hk : k.1 = sess
      · simp [List.filter, hk, sessBytes] at this ⊢; omega
      · simp [List.filter, hk, sessBytes] at this ⊢; omega
  · intro k
    induction st with
    | nil => simp [logs]
    | cons p t ih =>
      obtain ⟨k', d⟩ := p
      have ht : AllInv sz t := fun q hq => h q (List.mem_cons_of_mem _ hq)
      have := ih ht
      by_cases hk : k'.1 = sess
      · simp [List.filter, hk, logs, List.lookup] at this ⊢
        rw [this]
        by_cases hkk : k = k'
        · subst hkk; simp [hk]
        · have : (k == k') = false := by simp [hkk]
          simp [this]
      · simp [List.filter, hk, logs, List.lookup] at this ⊢
        by_cases hkk : k = k'
        · subst hkk; simp [hk]
        · have hb : (k == k') = false := by simp [hkk]
          simp [hb]; exact this

end EventStore
