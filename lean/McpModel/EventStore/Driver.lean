import McpModel.Base.Proto
import McpModel.EventStore.Model
/-!
Driver for E15: replays the harness's operation lines on the model and evaluates the C20 monitor
(`after_refines_spec`, `bytes_bound`) on the *implementation's* observations.
Payloads travel as `x<hex>`; their size is the byte length.
-/
namespace EventStore
open Proto

def psz (p : String) : Nat := (p.length - 1) / 2

structure DState where
  st : Option (Store String) := some init     -- none after a model-level panic
  spec : List (Key × List String) := []        -- monitor: per-stream abstract log (independent of `st`)
  lastApp : Nat := 0
  maxSeen : Nat := defaultMaxBytes

def showOut : Out String → String
  | .ok => "ok"
  | .items l => " ".intercalate ("items" :: l)
  | .purged => "purged"
  | .unknown => "unknown"
  | .num n => s!"num {n}"

def specUpd (k : Key) (f : Option (List String) → Option (List String)) (sp : List (Key × List String)) :
    List (Key × List String) :=
  let cur := sp.lookup k
  let rest := sp.filter (fun p => p.1 != k)
  match f cur with
  | none => rest
  | some l => rest ++ [(k, l)]

def parseOp (toks : List String) : Option (Op String) :=
  match toks with
  | ["open", a, b] => some (.open (a, b))
  | ["append", a, b, d] => if d.startsWith "x" then some (.append (a, b) d) else none
  | ["after", a, b, i] => (parseInt? i).map (.after (a, b))
  | ["setmax", n] => n.toNat?.map .setMax
  | ["closed", a] => some (.closed a)
  | ["maxbytes"] => some .maxBytes
  | _ => none

/-- The monitor: is the implementation's answer allowed by the abstract specification? -/
def monitor (d : DState) (op : Op String) (impl : String) : Option String :=
  match op with
  | .after k i =>
    if i < -1 then none else
    match d.spec.lookup k with
    | none => if impl == "unknown" then none else some "after_refines_spec: unknown stream must be reported"
    | some log =>
      if impl == "purged" then none
      else if impl == showOut (.items (log.drop (i + 1).toNat)) then none
      else some "after_refines_spec: neither the purge error nor exactly the payloads appended after the index"
  | _ => none

def engine : Engine DState where
  init := {}
  step d toks impl :=
    match toks with
    | ["reset"] => ({}, { model := "ok" })
    | ["concurrent-accounting"] =>
      let viol := if impl == "consistent" then none
        else some "accounting: nBytes differs from the retained data after concurrent use"
      (d, { model := "consistent", violated := viol })
    | ["stat"] =>
      -- implementation reports: stat <nBytes> <maxBytes> <retained bytes counted from the data>
      let model := match d.st with
        | some s => s!"stat {s.nBytes} {s.maxBytes} {s.nBytes}"
        | none => "panic"
      let viol := match words impl with
        | ["stat", _, m, r] =>
          match m.toNat?, r.toNat? with
          | some m, some r => if r ≤ m + d.lastApp then none else some "bytes_bound: retained bytes exceed max by more than the latest item"
          | _, _ => some "bad-stat"
        | _ => some "bad-stat"
      (d, { model := model, violated := viol })
    | ["afteri", a, b, i, _k, a2, b2, p] =>
      -- After(a,b,i) with an Append(a2,b2,p) issued from inside the iteration: the iterator delivers what
      -- was retained when it started (After copies under the lock), then the append takes effect.
      match parseInt? i, p.startsWith "x" with
      | some i, true =>
        let op1 : Op String := .after (a, b) i
        let op2 : Op String := .append (a2, b2) p
        let viol := monitor d op1 impl
        let (st', model) := match d.st with
          | none => (none, "panic")
          | some s => match step psz s op1 with
            | none => (none, "panic")
            | some (s1, o) => match step psz s1 op2 with
              | none => (none, "panic")
              | some (s2, _) => (some s2, showOut o)
        let spec' := specUpd (a2, b2) (fun c => some (c.getD [] ++ [p])) d.spec
        ({ d with st := st', spec := spec', lastApp := psz p }, { model := model, violated := viol })
      | _, _ => (d, { model := "bad-op" })
    | _ =>
      match parseOp toks with
      | none => (d, { model := "bad-op" })
      | some op =>
        let viol := monitor d op impl
        let (st', model) := match d.st with
          | none => (none, "panic")
          | some s => match step psz s op with
            | none => (none, "panic")
            | some (s', o) => (some s', showOut o)
        let spec' := match op with
          | .open k => specUpd k (fun c => some (c.getD [])) d.spec
          | .append k p => specUpd k (fun c => some (c.getD [] ++ [p])) d.spec
          | .closed sess => d.spec.filter (fun q => q.1.1 != sess)
          | _ => d.spec
        let lastApp' := match op with
          | .append _ p => psz p
          | .setMax _ => 0
          | _ => d.lastApp
        ({ d with st := st', spec := spec', lastApp := lastApp' }, { model := model, violated := viol })

end EventStore

def main : IO Unit := Proto.run EventStore.engine
