import McpModel.Base.Proto
import McpModel.EventStore.Monitor
/-!
Driver for E15: replays the harness's operation lines on the model and evaluates the C20 monitor on
the *implementation's* observations.  Payloads travel as `x<hex>`; their size is the byte length.

This file is the STRING LAYER only: token parser (`parseRec`, `parseObs`), renderer (`showObs`) and
clause texts (`Clause.text`).  The model line is `EventStore.recStep` (Monitor.lean) rendered; the
monitor is `EventStore.monStep` (Monitor.lean), bridged to the model by Bridge.lean
(`monitor_accepts_model`) and to the property text by Sound.lean (`sound_<clause>`,
`monitor_complete`).  The string layer is checked at run time on every record: the model's observation
must survive rendering and parsing (`LIBDISC render/parse` otherwise).
-/
namespace EventStore
open Proto

structure DState where
  st : Option (Store String) := some init     -- none after a model-level panic
  mon : MState := {}                           -- the monitor's bookkeeping (independent of `st`)

def Term.text : Term → String
  | .fin => "end"
  | .broke => "broke"
  | .purged => "purged"
  | .unknown => "unknown"
  | .ctx => "ctx"
  | .error => "error"
  | .goesOn => "goes-on"
  | .locked => "locked"

def parseTerm : String → Option Term
  | "end" => some .fin
  | "broke" => some .broke
  | "purged" => some .purged
  | "unknown" => some .unknown
  | "ctx" => some .ctx
  | "error" => some .error
  | "goes-on" => some .goesOn
  | "locked" => some .locked
  | _ => none

def showAObs : AObs → String
  | .items l => " ".intercalate ("items" :: l)
  | .purged => "purged"
  | .unknown => "unknown"
  | .partialThenPurged => "partial-then-purged"
  | .partialThenError => "partial-then-error"
  | .panic => "panic"
  | .other => "other"

def parseAObs : List String → AObs
  | ["purged"] => .purged
  | ["unknown"] => .unknown
  | ["partial-then-purged"] => .partialThenPurged
  | ["partial-then-error"] => .partialThenError
  | ["panic"] => .panic
  | "items" :: l => .items l
  | _ => .other

/-- Split a token list at the separator tokens `/`. -/
def splitSlash : List String → List (List String)
  | [] => [[]]
  | t :: ts =>
    match splitSlash ts with
    | [] => [[t]]
    | seg :: segs => if t = "/" then [] :: seg :: segs else (t :: seg) :: segs

def showObs : Obs → String
  | .ok => "ok"
  | .err => "err"
  | .panic => "panic"
  | .items l => " ".intercalate ("items" :: l)
  | .purged => "purged"
  | .unknown => "unknown"
  | .partialThenPurged => "partial-then-purged"
  | .partialThenError => "partial-then-error"
  | .num n => s!"num {n}"
  | .stat n m r => s!"stat {n} {m} {r}"
  | .consistent => "consistent"
  | .iter t items nested =>
    " ".intercalate (["it", t.text] ++ items ++ (nested.map fun a => "/ " ++ showAObs a))
  | .other s => s

def parseObs (impl : String) : Obs :=
  match words impl with
  | ["ok"] => .ok
  | ["err"] => .err
  | ["panic"] => .panic
  | ["purged"] => .purged
  | ["unknown"] => .unknown
  | ["partial-then-purged"] => .partialThenPurged
  | ["partial-then-error"] => .partialThenError
  | ["consistent"] => .consistent
  | ["num", n] => match n.toNat? with
    | some n => .num n
    | none => .other impl
  | ["stat", n, m, r] => match n.toNat?, m.toNat?, r.toNat? with
    | some n, some m, some r => .stat n m r
    | _, _, _ => .other impl
  | "items" :: l => .items l
  | "it" :: t :: rest =>
    match parseTerm t, splitSlash rest with
    | some t, items :: nested => .iter t items (nested.map parseAObs)
    | _, _ => .other impl
  | _ => .other impl

def parseOp (toks : List String) : Option (Op String) :=
  match toks with
  | ["open", a, b] => some (.open (a, b))
  | ["append", a, b, d] => if d.startsWith "x" then some (.append (a, b) d) else none
  | ["after", a, b, i] => (parseInt? i).map (.after (a, b))
  | ["setmax", n] => n.toNat?.map .setMax
  | ["closed", a] => some (.closed a)
  | ["maxbytes"] => some .maxBytes
  | _ => none

def parseAt (pre s : String) : Option Nat :=
  if s.startsWith pre then (s.drop pre.length).toNat? else none

def parseCtxMode (s : String) : Option CtxMode :=
  if s = "live" then some .live
  else match parseAt "cancel@" s, parseAt "deadline@" s with
    | some c, _ => some (.cancel c)
    | _, some c => some (.deadline c)
    | _, _ => none

def parseStop (s : String) : Option (Option Nat) :=
  if s = "drain" then some none else (parseAt "stop@" s).map some

/-- One script entry `<pt>:<op>:<args>`; the point only schedules the harness. -/
def parseEntry (tok : String) : Option (Op String) :=
  match tok.splitOn ":" with
  | pt :: rest => if pt.toNat?.isSome then parseOp rest else none
  | [] => none

/-- The window entries `0:<op>:<args>` of an `iter` line (calls issued between `After`'s return and the
first step of the iteration), and the line without them. -/
def isWindowTok (tok : String) : Bool := tok.startsWith "0:"

def parseWindow (toks : List String) : Option (List (Op String)) :=
  match toks with
  | "iter" :: _ :: _ :: _ :: _ :: _ :: script =>
    match (script.filter isWindowTok).mapM parseEntry with
    | some pre => if pre.all isWindowOp then some pre else none
    | none => none
  | _ => some []

def dropWindow (toks : List String) : List String :=
  match toks with
  | "iter" :: a :: b :: i :: cm :: stop :: script => "iter" :: a :: b :: i :: cm :: stop :: script.filter (fun t => !isWindowTok t)
  | _ => toks

def parseRec (toks : List String) : Option Rec :=
  match toks with
  | "iter" :: a :: b :: i :: cm :: stop :: script =>
    match parseInt? i, parseCtxMode cm, parseStop stop, script.mapM parseEntry with
    | some i, some cm, some stop, some script => some (.iter (a, b) i cm stop script)
    | _, _, _, _ => none
  | ["concurrent-accounting"] => some .concurrent
  | ["stat"] => some .stat
  | ["afteri", a, b, i, _k, a2, b2, p] =>
    match parseInt? i, p.startsWith "x" with
    | some i, true => some (.afteri (a, b) i (a2, b2) p)
    | _, _ => none
  | _ => (parseOp toks).map .op

/-! ### Clause texts (the monitor itself is Monitor.lean) -/

def Clause.text : Clause → String
  | .afterUnknown => "after_refines_spec: unknown stream must be reported"
  | .afterWrong => "after_refines_spec: neither the purge error nor exactly the payloads appended after the index"
  | .afterPurgedNothing => "after_refines_spec: the purge error although no payload lies after the index (nothing can have been evicted)"
  | .bytesBound => "bytes_bound: retained bytes exceed max by more than the latest item"
  | .badStat => "bad-stat"
  | .accounting => "accounting: the store's byte count (nBytes, which drives eviction) differs from the bytes of the data it retains (the store's own validate check: sizes don't add up)"
  | .concurrent => "concurrent use: nBytes differs from the retained data, or a stream only one goroutine appends to was not replayed exactly (or the purge error) under concurrent use"
  | .panicked => "no_panic: an exported method of the store panicked"
  | .iterShort => "after_iteration_complete_or_error: the After iterator ended WITHOUT an error after yielding only a proper prefix of the payloads after the index (a partial sequence)"
  | .ctxErrLive => "after_iteration_complete_or_error: the After iterator yielded a context error although its context was not done"
  | .iterLocked => "iterator_snapshot: the After iterator delivers while holding the store's lock (a call from inside the iteration would deadlock)"
  | .badIter => "bad-iter"

/-- Run-time self-check of the string layer: the model's observation must survive rendering and parsing. -/
def selfCheck (m : Obs) : Option String :=
  if parseObs (showObs m) == m then none
  else some "LIBDISC render/parse: the model's observation does not survive the string layer"

def engine : Engine DState where
  init := {}
  step d toks impl :=
    match toks with
    | ["reset"] => ({}, { model := "ok" })
    | _ =>
      match parseWindow toks, parseRec (dropWindow toks) with
      | some pre, some r =>
        -- the window calls of an `iter` line are records of their own, made before the iteration starts
        let (mon', cl) := monRun d.mon (expand pre r (parseObs impl))
        let viol := cl.map Clause.text
        match d.st.bind (recRun · (wireRecs pre r)) with
        | none => ({ st := none, mon := mon' }, { model := "panic", violated := viol })
        | some (s', ms) =>
          let m := ms.getLast?.getD (.other "")
          ({ st := some s', mon := mon' }, { model := showObs m, violated := viol <|> selfCheck m })
      | _, _ => (d, { model := "bad-op" })

end EventStore

def main : IO Unit := Proto.run EventStore.engine
