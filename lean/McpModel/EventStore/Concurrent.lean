import McpModel.EventStore.Iter
/-!
# C20 — "all operations are safe under concurrent use", as a theorem about the model

**The concurrent semantics.**  Any number of threads, each with a program of actions.  An action is
either a whole exported call (`Act.call`: `Open`, `Append`, `SetMaxBytes`, `SessionClosed`, `MaxBytes`, and
`After` = its `copyData`) — ONE atomic step of the shared store, because every exported method holds
`s.mu` for its whole effect (regenerated structural facts `eventstore.lock_shape`,
`eventstore.helpers_lock`; `sync.Mutex` gives mutual exclusion — trusted) — or the delivery of the next
item of the thread's current iteration (`Act.next`), which happens OUTSIDE the lock and touches only the
thread's private snapshot (facts `eventstore.after_snapshot`: a clone, `eventstore.after_delivery`: the
iterator ranges over it and never touches the store).  A concurrent history is a schedule: an arbitrary
list of thread ids, each entry letting that thread perform its next action.  Threads may interleave calls
with their own deliveries (calls from inside an iteration) in any way.

* `concurrent_histories_are_sequential_histories`: for every schedule the run is explained by ONE
  sequential history — the calls in the order they took the lock: same final store, every call got the
  answer it gets in that sequential history, every thread's calls appear in it in program order.
* `concurrent_no_panic_inv`: hence no schedule panics and every invariant of the sequential proofs
  (accounting, byte bound, suffix shape — `Inv`; ghost logs = `specLog` of the linearization) holds after
  every schedule; `concurrent_after_exact`: every `After` issued in a concurrent run answers exactly the
  payloads appended — by any thread — before it in the linearization, or the purge error.
* `iterator_snapshot_independent_of_later_ops`: what an `After` call delivers afterwards is a function of
  the store at the call, whatever the other threads (or the thread itself, from inside the iteration) do
  to the store during the delivery.
-/
namespace EventStore
variable {α : Type}

inductive Act (α : Type) where
  /-- a whole exported call, under the lock -/
  | call (o : Op α)
  /-- the current iteration delivers its next item (outside the lock) -/
  | next

/-- What a thread sees. -/
inductive Ev (α : Type) where
  | ret (o : Out α)
  | item (a : α)
  /-- `next` on an exhausted iteration: the iterator returns -/
  | fin

structure Thread (α : Type) where
  todo : List (Act α)
  /-- the rest of the private snapshot of the current iteration -/
  snap : List α
  obs : List (Ev α)

structure Conf (α : Type) where
  store : Store α
  th : Nat → Thread α
  /-- ghost: the calls in the order they took the lock, with the calling thread and the answer -/
  lin : List (Nat × Op α × Out α)

def setTh (th : Nat → Thread α) (t : Nat) (x : Thread α) : Nat → Thread α := fun j => if j = t then x else th j

/-- An `After` call starts a new iteration on the snapshot it returns; other calls leave the current one alone. -/
def newSnap (o : Op α) (out : Out α) (old : List α) : List α :=
  match o with
  | .after _ _ => (iterOfOut out).snap
  | _ => old

/-- Thread `t` performs its next action (`none`: a panic of the store). -/
def cstep (sz : α → Nat) (c : Conf α) (t : Nat) : Option (Conf α) :=
  match (c.th t).todo with
  | [] => some c
  | .call o :: rest =>
    match step sz c.store o with
    | none => none
    | some (s', out) =>
      some { store := s',
             th := setTh c.th t { todo := rest, snap := newSnap o out (c.th t).snap, obs := (c.th t).obs ++ [.ret out] },
             lin := c.lin ++ [(t, o, out)] }
  | .next :: rest =>
    match (c.th t).snap with
    | [] => some { c with th := setTh c.th t { (c.th t) with todo := rest, obs := (c.th t).obs ++ [.fin] } }
    | a :: tl => some { c with th := setTh c.th t { todo := rest, snap := tl, obs := (c.th t).obs ++ [.item a] } }

/-- A schedule. -/
def crun (sz : α → Nat) : Conf α → List Nat → Option (Conf α)
  | c, [] => some c
  | c, t :: sched =>
    match cstep sz c t with
    | none => none
    | some c' => crun sz c' sched

def callsOf : List (Act α) → List (Op α)
  | [] => []
  | .call o :: rest => o :: callsOf rest
  | .next :: rest => callsOf rest

def retsOf : List (Ev α) → List (Out α)
  | [] => []
  | .ret o :: rest => o :: retsOf rest
  | _ :: rest => retsOf rest

theorem retsOf_append (a b : List (Ev α)) : retsOf (a ++ b) = retsOf a ++ retsOf b := by
  induction a with
  | nil => rfl
  | cons e t ih => cases e <;> simp [retsOf, ih]

/-- The sequential run answers call by call. -/
def Explains (sz : α → Nat) (s : Store α) (new : List (Nat × Op α × Out α)) (s' : Store α) : Prop :=
  run sz s (new.map fun e => e.2.1) = some (s', new.map fun e => e.2.2)

/-- One action. -/
theorem cstep_spec (sz : α → Nat) (c c' : Conf α) (t : Nat) (h : cstep sz c t = some c') :
    ∃ new, c'.lin = c.lin ++ new ∧ Explains sz c.store new c'.store ∧
      (∀ u, (new.filter fun e => e.1 = u).map (fun e => e.2.1) ++ callsOf (c'.th u).todo = callsOf (c.th u).todo) ∧
      (∀ u, retsOf (c'.th u).obs = retsOf (c.th u).obs ++ (new.filter fun e => e.1 = u).map (fun e => e.2.2)) := by
  simp only [cstep] at h
  split at h
  · cases h; exact ⟨[], by simp, rfl, fun u => by simp, fun u => by simp⟩
  · rename_i o rest htodo
    cases hs : step sz c.store o with
    | none => rw [hs] at h; cases h
    | some p =>
      obtain ⟨s', out⟩ := p
      rw [hs] at h; simp only [Option.some.injEq] at h; subst h
      refine ⟨[(t, o, out)], rfl, by simp [Explains, run, hs], fun u => ?_, fun u => ?_⟩
      · by_cases hu : u = t
        · subst hu; simp [setTh, htodo, callsOf]
        · have : ¬ t = u := fun e => hu e.symm
          simp [setTh, hu, this]
      · by_cases hu : u = t
        · subst hu; simp [setTh, retsOf_append, retsOf]
        · have : ¬ t = u := fun e => hu e.symm
          simp [setTh, hu, this]
  · rename_i rest htodo
    split at h
    · cases h
      refine ⟨[], by simp, rfl, fun u => ?_, fun u => ?_⟩
      · by_cases hu : u = t
        · subst hu; simp [setTh, htodo, callsOf]
        · simp [setTh, hu]
      · by_cases hu : u = t
        · subst hu; simp [setTh, retsOf_append, retsOf]
        · simp [setTh, hu]
    · cases h
      refine ⟨[], by simp, rfl, fun u => ?_, fun u => ?_⟩
      · by_cases hu : u = t
        · subst hu; simp [setTh, htodo, callsOf]
        · simp [setTh, hu]
      · by_cases hu : u = t
        · subst hu; simp [setTh, retsOf_append, retsOf]
        · simp [setTh, hu]

theorem run_append (sz : α → Nat) : ∀ (a b : List (Op α)) (s s1 s2 : Store α) (oa ob : List (Out α)),
    run sz s a = some (s1, oa) → run sz s1 b = some (s2, ob) → run sz s (a ++ b) = some (s2, oa ++ ob) := by
  intro a
  induction a with
  | nil => intro b s s1 s2 oa ob h1 h2; simp only [run, Option.some.injEq, Prod.mk.injEq] at h1; obtain ⟨rfl, rfl⟩ := h1; simpa using h2
  | cons op ops ih =>
    intro b s s1 s2 oa ob h1 h2
    simp only [run] at h1
    cases hs : step sz s op with
    | none => rw [hs] at h1; cases h1
    | some p =>
      obtain ⟨s', o⟩ := p
      rw [hs] at h1; simp only [] at h1
      cases hr : run sz s' ops with
      | none => rw [hr] at h1; cases h1
      | some q =>
        obtain ⟨s'', os⟩ := q
        rw [hr] at h1; simp only [Option.some.injEq, Prod.mk.injEq] at h1
        obtain ⟨rfl, rfl⟩ := h1
        have := ih b s' s'' s2 os ob hr h2
        simp [run, hs, this]

/-- **concurrent_histories_are_sequential_histories.**  For every configuration, every set of thread
programs and EVERY schedule that does not panic, the concurrent run is explained by one sequential
history `new` — the calls in the order they took the lock: (1) it extends the linearization, (2) running
it sequentially from the initial store yields the final store and answers every call with what that call
got in the concurrent run, (3) each thread's calls occur in it in program order (what is left of its
program follows), (4) each thread saw exactly the answers to its own calls, in order. -/
theorem concurrent_histories_are_sequential_histories (sz : α → Nat) : ∀ (sched : List Nat) (c c' : Conf α),
    crun sz c sched = some c' →
    ∃ new, c'.lin = c.lin ++ new ∧ Explains sz c.store new c'.store ∧
      (∀ u, (new.filter fun e => e.1 = u).map (fun e => e.2.1) ++ callsOf (c'.th u).todo = callsOf (c.th u).todo) ∧
      (∀ u, retsOf (c'.th u).obs = retsOf (c.th u).obs ++ (new.filter fun e => e.1 = u).map (fun e => e.2.2)) := by
  intro sched
  induction sched with
  | nil =>
    intro c c' h
    simp only [crun, Option.some.injEq] at h; subst h
    exact ⟨[], by simp, rfl, fun u => by simp, fun u => by simp⟩
  | cons t sched ih =>
    intro c c' h
    simp only [crun] at h
    cases hs : cstep sz c t with
    | none => rw [hs] at h; cases h
    | some c1 =>
      rw [hs] at h; simp only [] at h
      obtain ⟨n1, l1, e1, p1, r1⟩ := cstep_spec sz c c1 t hs
      obtain ⟨n2, l2, e2, p2, r2⟩ := ih c1 c' h
      refine ⟨n1 ++ n2, by rw [l2, l1, List.append_assoc], ?_, fun u => ?_, fun u => ?_⟩
      · simp only [Explains, List.map_append]
        exact run_append sz _ _ _ _ _ _ _ e1 e2
      · rw [← p1 u, ← p2 u]; simp [List.filter_append]
      · rw [r2 u, r1 u]; simp [List.filter_append]

/-- The state a sequentially consistent history of calls leads to. -/
def Reach (sz : α → Nat) (c : Conf α) : Prop := Explains sz init c.lin c.store

theorem reach_crun (sz : α → Nat) (sched : List Nat) (c c' : Conf α) (hr : Reach sz c)
    (h : crun sz c sched = some c') : Reach sz c' := by
  obtain ⟨new, l, e, _, _⟩ := concurrent_histories_are_sequential_histories sz sched c c' h
  simp only [Reach, Explains, l, List.map_append]
  exact run_append sz _ _ _ _ _ _ _ hr e

/-- The initial configuration of a set of thread programs. -/
def start (progs : Nat → List (Act α)) : Conf α :=
  { store := init, th := fun t => { todo := progs t, snap := [], obs := [] }, lin := [] }

theorem reach_start (sz : α → Nat) (progs : Nat → List (Act α)) : Reach sz (start progs) := rfl

theorem cstep_inv (sz : α → Nat) (c : Conf α) (t : Nat) (h : Inv sz c.store) :
    ∃ c', cstep sz c t = some c' ∧ Inv sz c'.store := by
  simp only [cstep]
  split
  · exact ⟨c, rfl, h⟩
  · rename_i o rest _
    obtain ⟨s', out, hs, hi, _⟩ := step_inv sz c.store o h
    rw [hs]; exact ⟨_, rfl, hi⟩
  · split
    · exact ⟨_, rfl, h⟩
    · exact ⟨_, rfl, h⟩

/-- **concurrent_no_panic_inv.**  No schedule of no set of thread programs panics, and after every schedule
the store satisfies the invariant of the sequential proofs (`Inv`: per-stream accounting and suffix shape,
`nBytes = Σ`, `nBytes ≤ maxBytes + latest item`), is the store of the sequential history `c.lin`, and its
ghost logs are the abstract logs of that history. -/
theorem concurrent_no_panic_inv (sz : α → Nat) (progs : Nat → List (Act α)) (sched : List Nat) :
    ∃ c, crun sz (start progs) sched = some c ∧ Reach sz c ∧ Inv sz c.store ∧
      ∀ k, (logs c.store.store).lookup k = specLog k (c.lin.map fun e => e.2.1) := by
  have hrun : ∀ (sched : List Nat) (c : Conf α), Inv sz c.store → ∃ c', crun sz c sched = some c' := by
    intro sched
    induction sched with
    | nil => intro c _; exact ⟨c, rfl⟩
    | cons t sched ih =>
      intro c hi
      obtain ⟨c1, h1, i1⟩ := cstep_inv sz c t hi
      obtain ⟨c2, h2⟩ := ih c1 i1
      exact ⟨c2, by simp [crun, h1, h2]⟩
  obtain ⟨c, hc⟩ := hrun sched (start progs) (inv_init sz)
  have hr := reach_crun sz sched _ c (reach_start sz progs) hc
  obtain ⟨s, os, e, hinv, hl⟩ := reachable sz (c.lin.map fun e => e.2.1)
  have : (s, os) = (c.store, c.lin.map fun e => e.2.2) := by
    have := hr; simp only [Reach, Explains] at this; rw [e] at this; simpa using this
  cases this
  exact ⟨c, hc, hr, hinv, hl⟩

/-- **concurrent_after_exact.**  In any concurrent run, an `After(k, i)` (`i ≥ -1`) issued by any thread
answers `unknown` iff the stream does not exist in the linearization so far; otherwise the purge error or
EXACTLY the payloads appended to the stream — by whichever threads — before it in the linearization, after
the index. -/
theorem concurrent_after_exact (sz : α → Nat) (progs : Nat → List (Act α)) (sched : List Nat) (c : Conf α)
    (h : crun sz (start progs) sched = some c) (k : Key) (i : Int) (hi : -1 ≤ i) :
    ∃ o, step sz c.store (.after k i) = some (c.store, o) ∧
      match specLog k (c.lin.map fun e => e.2.1) with
      | none => o = .unknown
      | some log => o = .purged ∨ o = .items (log.drop (i + 1).toNat) := by
  have hr := reach_crun sz sched _ c (reach_start sz progs) h
  obtain ⟨s, os, o, e, hs, hm⟩ := after_refines_spec sz (c.lin.map fun e => e.2.1) k i hi
  have : s = c.store := by
    have := hr; simp only [Reach, Explains] at this; rw [e] at this
    simp only [Option.some.injEq, Prod.mk.injEq] at this; exact this.1
  subst this
  exact ⟨o, hs, hm⟩

/-! ## The iterator's snapshot -/

/-- What `n` deliveries from the snapshot `l` show: its items in order, then the end. -/
def evs : List α → Nat → List (Ev α)
  | _, 0 => []
  | [], n + 1 => .fin :: evs [] n
  | a :: l, n + 1 => .item a :: evs l n

theorem cstep_other (sz : α → Nat) (c c' : Conf α) (t u : Nat) (hu : u ≠ t) (h : cstep sz c u = some c') :
    c'.th t = c.th t := by
  have ht : ¬ t = u := fun e => hu e.symm
  simp only [cstep] at h
  split at h
  · cases h; rfl
  · cases hs : step sz c.store _ with
    | none => rw [hs] at h; cases h
    | some p => rw [hs] at h; cases h; simp [setTh, ht]
  · split at h <;> (cases h; simp [setTh, ht])

/-- Deliveries of thread `t` while everybody else does anything: thread `t`, about to perform `m`
deliveries from the snapshot `l`, is scheduled `n ≤ m` times among arbitrary actions of the other threads
— it sees `evs l n`. -/
theorem deliveries (sz : α → Nat) (t : Nat) : ∀ (sched : List Nat) (c c' : Conf α) (m : Nat) (rest : List (Act α))
    (l : List α) (base : List (Ev α)),
    (c.th t).todo = List.replicate m .next ++ rest → (c.th t).snap = l → (c.th t).obs = base →
    sched.count t ≤ m → crun sz c sched = some c' →
    (c'.th t).obs = base ++ evs l (sched.count t) ∧ (c'.th t).snap = l.drop (sched.count t) := by
  intro sched
  induction sched with
  | nil =>
    intro c c' m rest l base _ hs ho _ h
    simp only [crun, Option.some.injEq] at h; subst h
    simp [evs, hs, ho]
  | cons u sched ih =>
    intro c c' m rest l base htodo hs ho hcnt h
    simp only [crun] at h
    cases hc : cstep sz c u with
    | none => rw [hc] at h; cases h
    | some c1 =>
      rw [hc] at h; simp only [] at h
      by_cases hu : u = t
      · subst hu
        simp only [List.count_cons_self] at hcnt ⊢
        cases m with
        | zero => omega
        | succ m =>
          simp only [List.replicate_succ, List.cons_append] at htodo
          simp only [cstep, htodo, hs] at hc
          cases l with
          | nil =>
            simp only [Option.some.injEq] at hc; subst hc
            have := ih _ c' m rest [] (base ++ [.fin]) (by simp [setTh]) (by simp [setTh, hs]) (by simp [setTh, ho])
              (by omega) h
            simp only [evs, List.drop_nil] at this ⊢
            rw [this.1, this.2]; simp
          | cons a tl =>
            simp only [Option.some.injEq] at hc; subst hc
            have := ih _ c' m rest tl (base ++ [.item a]) (by simp [setTh]) (by simp [setTh]) (by simp [setTh, ho])
              (by omega) h
            simp only [evs, List.drop_succ_cons] at this ⊢
            rw [this.1, this.2]; simp
      · have hne : (u == t) = false := by simpa using hu
        have hcount : (u :: sched).count t = sched.count t := by simp [List.count_cons, hne]
        rw [hcount] at hcnt ⊢
        have hsame := cstep_other sz c c1 t u hu hc
        exact ih c1 c' m rest l base (by rw [hsame]; exact htodo) (by rw [hsame]; exact hs) (by rw [hsame]; exact ho) hcnt h

/-- **iterator_snapshot_independent_of_later_ops.**  Thread `t` calls `After(k, i)` and then performs `m`
deliveries (followed by anything).  Whatever the other threads do meanwhile — any calls, in any
interleaving `sched` in which `t` gets `n ≤ m` turns — thread `t` sees the answer of its call and then the
first `n` deliveries of the snapshot `afterIter s k i` taken from the store `s` AT THE CALL: what an `After`
call delivers is a function of the state at the call alone. -/
theorem iterator_snapshot_independent_of_later_ops (sz : α → Nat) (t : Nat) (c c1 c2 : Conf α) (k : Key) (i : Int)
    (m : Nat) (rest : List (Act α)) (sched : List Nat)
    (htodo : (c.th t).todo = .call (.after k i) :: (List.replicate m .next ++ rest))
    (hcall : cstep sz c t = some c1) (hcnt : sched.count t ≤ m) (hrun : crun sz c1 sched = some c2) :
    ∃ o, step sz c.store (.after k i) = some (c.store, o) ∧ iterOfOut o = afterIter c.store k i ∧
      (c2.th t).obs = (c.th t).obs ++ [.ret o] ++ evs (afterIter c.store k i).snap (sched.count t) ∧
      (c2.th t).snap = (afterIter c.store k i).snap.drop (sched.count t) := by
  obtain ⟨o, hs, hio⟩ := step_after_iter sz c.store k i
  refine ⟨o, hs, hio, ?_⟩
  simp only [cstep, htodo, hs, Option.some.injEq] at hcall
  subst hcall
  have := deliveries sz t sched _ c2 m rest (afterIter c.store k i).snap ((c.th t).obs ++ [.ret o])
    (by simp [setTh]) (by simp [setTh, newSnap, hio]) (by simp [setTh]) hcnt hrun
  exact this

/-! ### Non-vacuity -/

section witnesses
private def kA : Key := ("s", "a")
/-- thread 0 fills the stream, replays it and delivers three times; thread 1 shrinks the store and appends
while thread 0 delivers -/
private def progs : Nat → List (Act Nat)
  | 0 => [.call (.append kA 1), .call (.append kA 2), .call (.after kA (-1)), .next, .next, .next]
  | 1 => [.call (.setMax 1), .call (.append kA 7)]
  | _ => []

private def obsNat : Ev Nat → Nat
  | .ret (.items l) => 100 + l.length
  | .ret _ => 100
  | .item a => a
  | .fin => 0

/-- The purge and the append of thread 1 run between the deliveries of thread 0: it still sees `1, 2`, then the
end (kernel evaluation of the `Decidable` instance; no native code, no extra axiom). -/
example : (crun id (start progs) [0, 0, 0, 1, 0, 1, 0, 0]).map (fun c => ((c.th 0).obs.map obsNat, c.store.nBytes)) =
    some ([100, 100, 102, 1, 2, 0], 7) := by decide +kernel
end witnesses

end EventStore
