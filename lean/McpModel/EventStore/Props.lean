import McpModel.EventStore.Lemmas
/-!
# C20 — property theorems for the in-memory event store (model: `EventStore.step`)

Every theorem quantifies over *all* histories (`List (Op α)`), all payload types `α` with any size
function `sz`, all limits, any number of sessions and streams.  Nothing here is bounded.
-/
namespace EventStore
variable {α : Type}

/-- The abstract specification of one stream `k`: `none` = unknown, `some log` = everything appended
to it since it was (re)created.  This is the "simple abstract log" the store must refine. -/
def specStep (k : Key) (cur : Option (List α)) : Op α → Option (List α)
  | .open k' => if k' = k then some (cur.getD []) else cur
  | .append k' d => if k' = k then some (cur.getD [] ++ [d]) else cur
  | .closed sess => if k.1 = sess then none else cur
  | _ => cur

def specLog (k : Key) (ops : List (Op α)) : Option (List α) := ops.foldl (specStep k) none

/-- The inductive invariant: per-stream accounting + suffix shape, global accounting, byte bound. -/
def Inv (sz : α → Nat) (s : Store α) : Prop :=
  AllInv sz s.store ∧ s.nBytes = sumSizes s.store ∧ s.nBytes ≤ s.maxBytes + s.lastApp

theorem inv_init (sz : α → Nat) : Inv sz (init : Store α) := by
  refine ⟨?_, rfl, ?_⟩
  · intro p hp; simp [init] at hp
  · simp [init]

/-- One step: never panics, keeps the invariant, and moves every stream's ghost log exactly as the
abstract specification says. -/
theorem step_inv (sz : α → Nat) (s : Store α) (op : Op α) (h : Inv sz s) :
    ∃ s' o, step sz s op = some (s', o) ∧ Inv sz s' ∧
      ∀ k, (logs s'.store).lookup k = specStep k ((logs s.store).lookup k) op := by
  obtain ⟨h1, h2, h3⟩ := h
  cases op with
  | «open» k =>
    obtain ⟨e1, e2, _, e4, e5⟩ := ensure_spec sz k s.store h1
    refine ⟨_, _, rfl, ⟨e1, by simp [e2, h2], h3⟩, ?_⟩
    intro k'
    by_cases hk : k = k'
    · subst hk; simp [specStep, e4]
    · simp [specStep, hk]; exact e5 k' (fun h => hk h.symm)
  | append k d =>
    obtain ⟨e1, e2, _, e4, e5⟩ := ensure_spec sz k s.store h1
    obtain ⟨s', p1, p2, p3, p4, _, p6, p7, _⟩ :=
      purge_spec sz { s with store := ensure k s.store } e1 (by simp [e2, h2])
    have hfind : ∃ dl, find k s'.store = some dl := by
      have := find_logs k s'.store
      rw [p6] at this; simp at this; rw [e4] at this
      cases hf : find k s'.store with
      | none => rw [hf] at this; simp at this
      | some dl => exact ⟨dl, rfl⟩
    obtain ⟨dl, hdl⟩ := hfind
    have hdlinv : DLInv sz dl := h0 dl hdl p2
    have hlog : dl.log = ((logs s.store).lookup k).getD [] := by
      have := find_logs k s'.store
      rw [hdl, p6] at this; simp at this; rw [e4] at this; simpa using this
    obtain ⟨u1, u2, u3, u4⟩ := upd_spec sz k
      (fun dl => { dl with size := dl.size + sz d, data := dl.data ++ [d], log := dl.log ++ [d] })
      s'.store p2 (by
        intro x ⟨a, b, c⟩
        refine ⟨?_, ?_, ?_⟩
        · simp [a]
        · simp [List.drop_append_of_le_length c, ← b]
        · simp; omega) dl hdl
    refine ⟨_, _, by simp [step, p1]; exact ⟨rfl, rfl⟩, ⟨u1, ?_, ?_⟩, ?_⟩
    · simp at u2 ⊢; omega
    · simp; simp at p7; omega
    · intro k'
      by_cases hk : k = k'
      · subst hk; simp [specStep, u3, hlog]
      · simp [specStep, hk]
        rw [u4 k' (fun h => hk h.symm), p6]; exact e5 k' (fun h => hk h.symm)
  | after k i =>
    cases hf : find k s.store with
    | none => exact ⟨s, .unknown, by simp [step, hf], ⟨h1, h2, h3⟩, fun k' => by simp [specStep]⟩
    | some dl => exact ⟨s, afterOut dl i, by simp [step, hf], ⟨h1, h2, h3⟩, fun k' => by simp [specStep]⟩
  | setMax n =>
    obtain ⟨s', p1, p2, p3, p4, _, p6, _, p8⟩ :=
      purge_spec sz { s with maxBytes := (if n = 0 then defaultMaxBytes else n), lastApp := 0 } h1 h2
    refine ⟨s', .ok, by simp [step, p1], ⟨p2, p3, by omega⟩, ?_⟩
    intro k'; simp [specStep, p6]
  | closed sess =>
    obtain ⟨f1, f2, f3⟩ := filter_spec sz sess s.store h1
    refine ⟨_, _, rfl, ⟨f1, ?_, ?_⟩, ?_⟩
    · simp; omega
    · simp; omega
    · intro k'; simp [specStep]; rw [f3 k']
  | maxBytes => exact ⟨s, _, rfl, ⟨h1, h2, h3⟩, fun k' => by simp [specStep]⟩
where
  h0 {sz : α → Nat} {k : Key} {st : List (Key × DL α)} (dl : DL α) (hdl : find k st = some dl)
      (p2 : AllInv sz st) : DLInv sz dl := p2 (k, dl) (find_mem k st dl hdl)

/-- Whole histories: no panic, invariant, and refinement of the abstract per-stream log. -/
theorem run_inv (sz : α → Nat) (ops : List (Op α)) (s : Store α) (h : Inv sz s) :
    ∃ s' os, run sz s ops = some (s', os) ∧ Inv sz s' ∧ os.length = ops.length ∧
      ∀ k, (logs s'.store).lookup k = ops.foldl (specStep k) ((logs s.store).lookup k) := by
  induction ops generalizing s with
  | nil => exact ⟨s, [], rfl, h, rfl, fun _ => rfl⟩
  | cons op ops ih =>
    obtain ⟨s1, o, e1, i1, l1⟩ := step_inv sz s op h
    obtain ⟨s2, os, e2, i2, n2, l2⟩ := ih s1 i1
    refine ⟨s2, o :: os, by simp [run, e1, e2], i2, by simp [n2], ?_⟩
    intro k; rw [l2 k, l1 k]; rfl

/-! ## The properties -/

/-- **No panic.** No history of exported calls reaches `panic("empty dataList")` or
`panic("no progress during purge")`. -/
theorem no_panic (sz : α → Nat) (ops : List (Op α)) : (run sz init ops).isSome = true := by
  obtain ⟨s', os, e, _⟩ := run_inv sz ops init (inv_init sz)
  simp [e]

/-- Every reachable state satisfies the invariant and its ghost logs are the specification's. -/
theorem reachable (sz : α → Nat) (ops : List (Op α)) :
    ∃ s os, run sz init ops = some (s, os) ∧ Inv sz s ∧ ∀ k, (logs s.store).lookup k = specLog k ops := by
  obtain ⟨s', os, e, i, _, l⟩ := run_inv sz ops init (inv_init sz)
  exact ⟨s', os, e, i, fun k => by rw [l k]; simp [specLog, init, logs]⟩

/-- **after_refines_spec.** After any history, `After(k, i)` (with `i ≥ -1`) answers `unknown` iff the
stream does not exist; otherwise it answers either the purge error or *exactly* the payloads appended
after position `i`, in order — never a partial or gapped list. -/
theorem after_refines_spec (sz : α → Nat) (ops : List (Op α)) (k : Key) (i : Int) (hi : -1 ≤ i) :
    ∃ s os o, run sz init ops = some (s, os) ∧ step sz s (.after k i) = some (s, o) ∧
      match specLog k ops with
      | none => o = .unknown
      | some log => o = .purged ∨ o = .items (log.drop (i + 1).toNat) := by
  obtain ⟨s, os, e, ⟨hinv, _, _⟩, hl⟩ := reachable sz ops
  have hk := hl k
  have hfl := find_logs k s.store
  cases hf : find k s.store with
  | none =>
    refine ⟨s, os, .unknown, e, by simp [step, hf], ?_⟩
    rw [hf] at hfl; simp at hfl; rw [← hk, ← hfl]
  | some dl =>
    refine ⟨s, os, afterOut dl i, e, by simp [step, hf], ?_⟩
    rw [hf] at hfl; simp at hfl; rw [← hk, ← hfl]
    have hdl : DLInv sz dl := hinv (k, dl) (find_mem k s.store dl hf)
    obtain ⟨_, hd, hfirst⟩ := hdl
    simp only [afterOut]
    by_cases hneg : (i + 1 - (dl.first : Int)) < 0
    · simp [hneg]
    · right
      simp only [hneg, if_false]
      have hst : (i + 1 - (dl.first : Int)).toNat + dl.first = (i + 1).toNat := by omega
      by_cases hge : (i + 1 - (dl.first : Int)).toNat ≥ dl.data.length
      · simp only [hge, if_true]
        have hlen : dl.data.length + dl.first = dl.log.length := by
          rw [hd]; simp; omega
        have : dl.log.length ≤ (i + 1).toNat := by omega
        simp [List.drop_eq_nil_of_le this]
      · simp only [hge, if_false]
        rw [hd, List.drop_drop, Nat.add_comm, hst]

/-- **purged_iff_evicted.** The purge error is given exactly when some payload after `i` has been
evicted, i.e. when position `i+1` lies before the oldest retained position. -/
theorem purged_iff_evicted (dl : DL α) (i : Int) :
    afterOut dl i = .purged ↔ i + 1 < (dl.first : Int) := by
  simp only [afterOut]
  by_cases hneg : (i + 1 - (dl.first : Int)) < 0
  · simp [hneg]; omega
  · simp only [hneg, if_false]
    constructor
    · intro h; split at h <;> cases h
    · intro h; omega

/-- **retained_is_suffix.** In every reachable state, what a stream retains is the appended log minus
its `first` oldest items (oldest evicted first), and `first` never exceeds the log length. -/
theorem retained_is_suffix (sz : α → Nat) (ops : List (Op α)) (k : Key) :
    ∃ s os, run sz init ops = some (s, os) ∧
      ∀ dl, find k s.store = some dl →
        specLog k ops = some dl.log ∧ dl.data = dl.log.drop dl.first ∧ dl.first ≤ dl.log.length := by
  obtain ⟨s, os, e, ⟨hinv, _, _⟩, hl⟩ := reachable sz ops
  refine ⟨s, os, e, fun dl hf => ?_⟩
  have hfl := find_logs k s.store
  rw [hf] at hfl; simp at hfl
  obtain ⟨_, hd, hfirst⟩ := hinv (k, dl) (find_mem k s.store dl hf)
  exact ⟨by rw [← hl k, ← hfl], hd, hfirst⟩

/-- **accounting.** `nBytes` is the sum of the stream sizes and each stream's `size` is the sum of its
retained payload sizes (what the compiled-out `validate` would check). -/
theorem accounting (sz : α → Nat) (ops : List (Op α)) :
    ∃ s os, run sz init ops = some (s, os) ∧ s.nBytes = sumSizes s.store ∧
      ∀ p ∈ s.store, p.2.size = total sz p.2.data := by
  obtain ⟨s, os, e, ⟨hinv, hacc, _⟩, _⟩ := reachable sz ops
  exact ⟨s, os, e, hacc, fun p hp => (hinv p hp).1⟩

/-- **bytes_bound.** Retained bytes never exceed the maximum by more than the most recent item
(`lastApp` is the size of the latest `Append`, reset by `SetMaxBytes`). -/
theorem bytes_bound (sz : α → Nat) (ops : List (Op α)) :
    ∃ s os, run sz init ops = some (s, os) ∧ s.nBytes ≤ s.maxBytes + s.lastApp := by
  obtain ⟨s, os, e, ⟨_, _, hb⟩, _⟩ := reachable sz ops
  exact ⟨s, os, e, hb⟩

/-- `lastApp` really is the size of the last appended item. -/
theorem lastApp_append (sz : α → Nat) (s s' : Store α) (k : Key) (d : α) (o : Out α)
    (h : step sz s (.append k d) = some (s', o)) : s'.lastApp = sz d := by
  simp only [step] at h
  split at h
  · cases h
  · simp at h; rw [← h.1]

/-- **session_closed_releases.** After `SessionClosed sess` no stream of `sess` exists, every other
stream is untouched, and exactly the session's bytes are released. -/
theorem session_closed_releases (sz : α → Nat) (s : Store α) (sess : String) (h : Inv sz s) :
    ∃ s', step sz s (.closed sess) = some (s', .ok) ∧
      (∀ k : Key, k.1 = sess → find k s'.store = none) ∧
      (∀ k : Key, k.1 ≠ sess → find k s'.store = find k s.store) ∧
      s'.nBytes + sessBytes sess s.store = s.nBytes := by
  obtain ⟨h1, h2, _⟩ := h
  obtain ⟨_, f2, _⟩ := filter_spec sz sess s.store h1
  refine ⟨_, rfl, ?_, ?_, ?_⟩
  · intro k hk
    simp only
    induction s.store with
    | nil => rfl
    | cons p t ih =>
      obtain ⟨k', d⟩ := p
      by_cases hs : k'.1 = sess
      · simp [List.filter, hs]; exact ih
      · have : k' ≠ k := fun h => hs (h ▸ hk)
        simp [List.filter, hs, find, this]; exact ih
  · intro k hk
    simp only
    induction s.store with
    | nil => rfl
    | cons p t ih =>
      obtain ⟨k', d⟩ := p
      by_cases hs : k'.1 = sess
      · have : k' ≠ k := fun h => hk (h ▸ hs)
        simp [List.filter, hs, find, this]; exact ih
      · by_cases hkk : k' = k
        · subst hkk; simp [List.filter, hs, find]
        · simp [List.filter, hs, find, hkk]; exact ih
  · simp; omega

/-- Equality of purge-pass results up to the order of the table. -/
def ResEq : Option (List (Key × DL α) × Nat × Bool) → Option (List (Key × DL α) × Nat × Bool) → Prop
  | some (a, r, c), some (b, r', c') => a.Perm b ∧ r = r' ∧ c = c'
  | none, none => True
  | _, _ => False

theorem ResEq.refl (x : Option (List (Key × DL α) × Nat × Bool)) : ResEq x x := by
  cases x with
  | none => trivial
  | some v => obtain ⟨a, r, c⟩ := v; exact ⟨List.Perm.refl _, rfl, rfl⟩

theorem ResEq.trans {x y z : Option (List (Key × DL α) × Nat × Bool)} (h1 : ResEq x y) (h2 : ResEq y z) :
    ResEq x z := by
  cases x <;> cases y <;> cases z <;> try (simp_all [ResEq]; done)
  rename_i u v w
  obtain ⟨a, r, c⟩ := u
  obtain ⟨a2, r2, c2⟩ := v
  obtain ⟨a3, r3, c3⟩ := w
  exact ⟨h1.1.trans h2.1, h1.2.1.trans h2.2.1, h1.2.2.trans h2.2.2⟩

theorem roundCons_congr (sz : α → Nat) (p : Key × DL α) {x y} (h : ResEq x y) :
    ResEq (roundCons sz p x) (roundCons sz p y) := by
  cases x <;> cases y <;> simp_all [ResEq, roundCons]
  rename_i v w
  obtain ⟨a, r, c⟩ := v
  obtain ⟨b, r', c'⟩ := w
  obtain ⟨h1, rfl, rfl⟩ := h
  by_cases hp : 0 < p.2.size
  · simp [hp]; cases removeFirst sz p.2 <;> simp [ResEq, h1]
  · simp [hp, ResEq, h1]

theorem roundCons_swap (sz : α → Nat) (p q : Key × DL α) (x) :
    ResEq (roundCons sz p (roundCons sz q x)) (roundCons sz q (roundCons sz p x)) := by
  cases x with
  | none => simp [roundCons, ResEq]
  | some v =>
    obtain ⟨a, r, c⟩ := v
    by_cases hp : 0 < p.2.size <;> by_cases hq : 0 < q.2.size <;>
      cases hrp : removeFirst sz p.2 <;> cases hrq : removeFirst sz q.2 <;>
      simp [roundCons, hp, hq, hrp, hrq, ResEq, List.Perm.swap] <;> omega

/-- **purge order independence.** One purge pass treats the table as a multiset: permuting it permutes
the result and leaves the number of bytes removed and the progress flag unchanged, so Go's map
iteration order cannot influence the outcome. -/
theorem purgeRound_perm (sz : α → Nat) (a b : List (Key × DL α)) (h : a.Perm b) :
    ResEq (purgeRound sz a) (purgeRound sz b) := by
  induction h with
  | nil => exact ResEq.refl _
  | cons x _ ih => exact roundCons_congr sz x ih
  | swap x y l => exact roundCons_swap sz y x _
  | trans _ _ ih1 ih2 => exact ih1.trans ih2

end EventStore
