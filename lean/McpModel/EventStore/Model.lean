import McpModel.Generated.EventStoreGen
/-
E15 — model of `mcp.MemoryEventStore` (mcp/event.go:199-420).  Serves C20.

One `step` is one exported method call; every exported method holds `s.mu` for its whole effect
(structural fact checked by the extractor), so a concurrent history is a sequence of whole steps.
`none` models a Go panic ("empty dataList", "no progress during purge").
Ghost fields (never read by the modelled code): `DL.log`, `Store.lastApp`.
Core Lean only (linked into the driver).
-/
namespace EventStore

abbrev Key := String × String   -- (session id, stream id)

/-- `dataList` plus the ghost `log` of everything ever appended to the stream. -/
structure DL (α : Type) where
  size  : Nat
  first : Nat
  data  : List α
  log   : List α
deriving Repr

def DL.empty {α} : DL α := { size := 0, first := 0, data := [], log := [] }

structure Store (α : Type) where
  maxBytes : Nat
  nBytes   : Nat
  store    : List (Key × DL α)
  lastApp  : Nat          -- ghost: size of the latest Append (0 after SetMaxBytes)
deriving Repr

def find {α} (k : Key) : List (Key × DL α) → Option (DL α)
  | [] => none
  | (k', d) :: t => if k' = k then some d else find k t

def upd {α} (k : Key) (f : DL α → DL α) : List (Key × DL α) → List (Key × DL α)
  | [] => []
  | (k', d) :: t => if k' = k then (k', f d) :: t else (k', d) :: upd k f t

/-- `MemoryEventStore.init`: make sure the entry exists. -/
def ensure {α} (k : Key) (st : List (Key × DL α)) : List (Key × DL α) :=
  match find k st with
  | some _ => st
  | none => st ++ [(k, DL.empty)]

/-- `dataList.removeFirst`; `none` = panic("empty dataList"). Returns the removed size. -/
def removeFirst {α} (sz : α → Nat) (dl : DL α) : Option (DL α × Nat) :=
  match dl.data with
  | [] => none
  | d :: rest => some ({ dl with size := dl.size - sz d, first := dl.first + 1, data := rest }, sz d)

/-- One pass of the inner loops of `purge`: every list with `size > 0` loses its first item.
Result: new table, bytes removed, `changed`. The outcome does not depend on map iteration order
because every entry is treated independently and the removed sizes are added up. -/
def roundCons {α} (sz : α → Nat) (p : Key × DL α) :
    Option (List (Key × DL α) × Nat × Bool) → Option (List (Key × DL α) × Nat × Bool)
  | none => none
  | some (t', r, ch) =>
    if p.2.size > 0 then
      match removeFirst sz p.2 with
      | none => none
      | some (dl', r') => some ((p.1, dl') :: t', r' + r, true)
    else some (p :: t', r, ch)

def purgeRound {α} (sz : α → Nat) : List (Key × DL α) → Option (List (Key × DL α) × Nat × Bool)
  | [] => some ([], 0, false)
  | p :: t => roundCons sz p (purgeRound sz t)

def items {α} : List (Key × DL α) → Nat
  | [] => 0
  | (_, dl) :: t => dl.data.length + items t

/-- `purge`, with fuel (the number of retained items bounds the number of rounds).
`none` = panic("no progress during purge") or the panic of `removeFirst`. -/
def purgeFuel {α} (sz : α → Nat) : Nat → Store α → Option (Store α)
  | fuel, s =>
    if s.nBytes ≤ s.maxBytes then some s
    else match fuel with
      | 0 => none
      | f + 1 =>
        match purgeRound sz s.store with
        | none => none
        | some (st', r, ch) =>
          if ch then purgeFuel sz f { s with store := st', nBytes := s.nBytes - r } else none

def purge {α} (sz : α → Nat) (s : Store α) : Option (Store α) := purgeFuel sz (items s.store) s

inductive Op (α : Type) where
  | open (k : Key)
  | append (k : Key) (d : α)
  | after (k : Key) (i : Int)
  | setMax (n : Nat)            -- n = 0 selects the default; negative arguments panic in Go and are not modelled
  | closed (sess : String)
  | maxBytes
deriving Repr

inductive Out (α : Type) where
  | ok
  | items (l : List α)
  | purged
  | unknown
  | num (n : Nat)
deriving Repr, DecidableEq

/-- regenerated from mcp/event.go on every run -/
def defaultMaxBytes : Nat := Generated.EventStore.defaultMaxBytes

def init {α} : Store α := { maxBytes := defaultMaxBytes, nBytes := 0, store := [], lastApp := 0 }

/-- `After`'s `copyData`. -/
def afterOut {α} (dl : DL α) (i : Int) : Out α :=
  let start : Int := (i + 1) - dl.first
  if start < 0 then .purged
  else if start.toNat ≥ dl.data.length then .items []
  else .items (dl.data.drop start.toNat)

def sessBytes {α} (sess : String) : List (Key × DL α) → Nat
  | [] => 0
  | (k, dl) :: t => (if k.1 = sess then dl.size else 0) + sessBytes sess t

def step {α} (sz : α → Nat) (s : Store α) : Op α → Option (Store α × Out α)
  | .open k => some ({ s with store := ensure k s.store }, .ok)
  | .append k d =>
    match purge sz { s with store := ensure k s.store } with
    | none => none
    | some s' =>
      some ({ s' with
                store := upd k (fun dl => { dl with size := dl.size + sz d, data := dl.data ++ [d],
                                                    log := dl.log ++ [d] }) s'.store,
                nBytes := s'.nBytes + sz d,
                lastApp := sz d }, .ok)
  | .after k i =>
    match find k s.store with
    | none => some (s, .unknown)
    | some dl => some (s, afterOut dl i)
  | .setMax n =>
    match purge sz { s with maxBytes := (if n = 0 then defaultMaxBytes else n), lastApp := 0 } with
    | none => none
    | some s' => some (s', .ok)
  | .closed sess =>
    some ({ s with nBytes := s.nBytes - sessBytes sess s.store,
                   store := s.store.filter (fun p => !decide (p.1.1 = sess)) }, .ok)
  | .maxBytes => some (s, .num s.maxBytes)

/-! ### The `After` iterator as a value

`After` itself does nothing; the function it returns first runs `copyData` — ONE critical section under
`s.mu` that clones what the stream retains after the index (`slices.Clone`, structural fact
`eventstore.after_snapshot`) or picks the error to yield — and then delivers from that private value
outside the lock.  So an iteration is a value `Iter` (snapshot list + optional error) fixed at its start,
and a delivery that is a function of that value, of the consumer (where it breaks) and of the context
(from which item on it is done) alone. -/

inductive IterErr where
  | purged
  | unknown
deriving DecidableEq, Repr

/-- What `copyData` returns: the private snapshot, or the error the iterator yields (and stops). -/
structure Iter (α : Type) where
  snap : List α
  err : Option IterErr
deriving Repr

def iterOfOut {α} : Out α → Iter α
  | .items l => ⟨l, none⟩
  | .purged => ⟨[], some .purged⟩
  | .unknown => ⟨[], some .unknown⟩
  | _ => ⟨[], none⟩

/-- `copyData` of `After(k, i)` on the state `s`. -/
def afterIter {α} (s : Store α) (k : Key) (i : Int) : Iter α :=
  match find k s.store with
  | none => ⟨[], some .unknown⟩
  | some dl => iterOfOut (afterOut dl i)

/-- How an iteration ended, as its consumer sees it. -/
inductive Term where
  /-- the iterator returned and no error was yielded: "that was everything" -/
  | fin
  /-- the consumer broke out of the loop -/
  | broke
  /-- the error yielded: `ErrEventsPurged`, unknown session/stream, the context's error, any other -/
  | purged
  | unknown
  | ctx
  | error
  /-- the iterator yielded again after an error -/
  | goesOn
  /-- the iterator delivers while holding the store's lock -/
  | locked
deriving DecidableEq, Repr

/-- What an implementation of the iterator does with a context that is done. `ignore` is the code as it
is (the parameter is `_`: structural fact `eventstore.after_ctx_unused`); `report` yields the context's
error before `copyData` and before each item; `silent` just returns (seeded change C20-m12). -/
inductive CtxPolicy where
  | ignore
  | report
  | silent
deriving DecidableEq, Repr

/-- Delivery to a consumer that breaks in the body of the `stop`-th item (`none`: never) with no context
in play: the whole snapshot, or its first `stop` items. -/
def deliverPlain {α} (snap : List α) (stop : Option Nat) : Term × List α :=
  match stop with
  | none => (.fin, snap)
  | some n => if 1 ≤ n ∧ n ≤ snap.length then (.broke, snap.take n) else (.fin, snap)

/-- The consumer has broken out by the body of the `c`-th item. -/
def breaksBy (stop : Option Nat) (c : Nat) : Bool :=
  match stop with
  | some n => decide (1 ≤ n ∧ n ≤ c)
  | none => false

/-- **The iteration.** The context is done from the body of the `cancel`-th item on (`some 0`: before
the call; `none`: never).  A context-honouring iterator (`report`, `silent`) looks at the context before
`copyData` and before each yield. -/
def deliver {α} (pol : CtxPolicy) (it : Iter α) (stop cancel : Option Nat) : Term × List α :=
  let plain : Term × List α :=
    match it.err with
    | some .purged => (.purged, [])
    | some .unknown => (.unknown, [])
    | none => deliverPlain it.snap stop
  match pol, cancel with
  | .ignore, _ => plain
  | _, none => plain
  | pol, some c =>
    if c = 0 then (if pol = .report then (.ctx, []) else (.fin, []))
    else match it.err with
      | some _ => plain
      | none =>
        -- the consumer breaks first, or the snapshot ends first: the context is never looked at again
        if c < it.snap.length ∧ breaksBy stop c = false then
          (if pol = .report then (.ctx, it.snap.take c) else (.fin, it.snap.take c))
        else plain

/-! ### `validate`, the store's own consistency check

`MemoryEventStore.validate` (called at the end of `purge` and of `SessionClosed`) counts the bytes of every
retained item and panics ("sizes don't add up") if the count differs from `nBytes`.  It is compiled out
(`validateMemoryEventStore = false`); the harness's `stat` probe does the same count. -/

def dataBytes {α} (sz : α → Nat) : List α → Nat
  | [] => 0
  | d :: t => sz d + dataBytes sz t

/-- `validate`'s count `n`. -/
def retainedBytes {α} (sz : α → Nat) : List (Key × DL α) → Nat
  | [] => 0
  | (_, dl) :: t => dataBytes sz dl.data + retainedBytes sz t

/-- `validate` with the check compiled in; `none` = panic("sizes don't add up"). -/
def validate {α} (sz : α → Nat) (s : Store α) : Option Unit :=
  if retainedBytes sz s.store = s.nBytes then some () else none

/-- Run a whole history; `none` as soon as a step panics. Outputs are collected oldest first. -/
def run {α} (sz : α → Nat) : Store α → List (Op α) → Option (Store α × List (Out α))
  | s, [] => some (s, [])
  | s, op :: ops =>
    match step sz s op with
    | none => none
    | some (s', o) =>
      match run sz s' ops with
      | none => none
      | some (s'', os) => some (s'', o :: os)

end EventStore
