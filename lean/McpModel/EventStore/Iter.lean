import McpModel.EventStore.Props
/-!
# C20 — the iteration protocol of `After` (model: `EventStore.afterIter`, `EventStore.deliver`)

`After` returns an iterator.  In the model an iteration is a VALUE fixed when it starts (`afterIter`: the
private snapshot `copyData` clones under the lock, or the error to yield) and a delivery (`deliver`) that
is a function of that value, of where the consumer breaks and of the point from which the context is
done.  `after_iteration_complete_or_error`: for ALL histories before the iteration, all indices, all
consumers, all cancellation points, and both for the code as it is (it ignores the context) and for an
iterator that honours it by yielding its error: an iteration that ends without an error and unbroken
delivered EXACTLY the payloads after the index; every other iteration ends with an error (the purge error
at once, a context error after a prefix) or was broken by its consumer after exactly its first items —
never silently short.  `silent_return_is_partial`: an iterator that just returns when the context is
done (seeded change C20-m12) is refuted.  `view_iterator_depends_on_later_ops`: why the snapshot must be
a clone.
-/
namespace EventStore
variable {α : Type}

/-- `After(i)`, `i ≥ -1`, on a stream satisfying the per-stream invariant (any payload type): the purge
error exactly when position `i+1` has been evicted (then something lies after `i`), otherwise exactly the
log after `i`. -/
theorem afterOut_exact (sz : α → Nat) (dl : DL α) (h : DLInv sz dl) (i : Int) (hi : -1 ≤ i) :
    (afterOut dl i = .purged ∧ (i + 1).toNat < dl.log.length) ∨
    afterOut dl i = .items (dl.log.drop (i + 1).toNat) := by
  obtain ⟨_, hd, hfirst⟩ := h
  simp only [afterOut]
  by_cases hneg : (i + 1 - (dl.first : Int)) < 0
  · left; simp only [hneg, if_true, true_and]; omega
  · right
    simp only [hneg, if_false]
    have hst : (i + 1 - (dl.first : Int)).toNat + dl.first = (i + 1).toNat := by omega
    by_cases hge : (i + 1 - (dl.first : Int)).toNat ≥ dl.data.length
    · simp only [hge, if_true]
      have hlen : dl.data.length + dl.first = dl.log.length := by
        rw [hd]; simp; omega
      have : dl.log.length ≤ (i + 1).toNat := by omega
      simp [List.drop_eq_nil_of_le this]
    · simp only [hge, if_false]
      rw [hd, List.drop_drop, Nat.add_comm, hst]

/-- The iterator value of `After(k, i)` after any history: the unknown-stream error iff the stream does
not exist; otherwise the purge error (only if something lies after the index) or a snapshot that is
EXACTLY the payloads appended after the index. -/
theorem afterIter_spec (sz : α → Nat) (ops : List (Op α)) (k : Key) (i : Int) (hi : -1 ≤ i) :
    ∃ s os, run sz init ops = some (s, os) ∧
      match specLog k ops with
      | none => afterIter s k i = ⟨[], some .unknown⟩
      | some log =>
        (afterIter s k i = ⟨[], some .purged⟩ ∧ (i + 1).toNat < log.length) ∨
        afterIter s k i = ⟨log.drop (i + 1).toNat, none⟩ := by
  obtain ⟨s, os, e, ⟨hinv, _, _⟩, hl⟩ := reachable sz ops
  refine ⟨s, os, e, ?_⟩
  have hk := hl k
  have hfl := find_logs k s.store
  cases hf : find k s.store with
  | none =>
    rw [hf] at hfl; simp at hfl; rw [← hk, ← hfl]
    simp [afterIter, hf]
  | some dl =>
    rw [hf] at hfl; simp at hfl; rw [← hk, ← hfl]
    have hdl : DLInv sz dl := hinv (k, dl) (find_mem k s.store dl hf)
    simp only [afterIter, hf]
    rcases afterOut_exact sz dl hdl i hi with ⟨hp, hlt⟩ | hit
    · left; rw [hp]; exact ⟨rfl, hlt⟩
    · right; rw [hit]; rfl

/-- `After` as an API call answers what the iterator value holds (the call IS `copyData`). -/
theorem step_after_iter (sz : α → Nat) (s : Store α) (k : Key) (i : Int) :
    ∃ o, step sz s (.after k i) = some (s, o) ∧ iterOfOut o = afterIter s k i := by
  simp only [step, afterIter]
  cases find k s.store with
  | none => exact ⟨_, rfl, rfl⟩
  | some dl => exact ⟨_, rfl, rfl⟩

/-- The outcomes of an iteration the property allows, given `exp` = the payloads after the index as of
its start (cf. `Allowed` in Sound.lean, on observed traces). -/
def Outcome (exp : List α) (stop cancel : Option Nat) (t : Term) (items : List α) : Prop :=
  (t = .fin ∧ items = exp) ∨
  (t = .broke ∧ ∃ n, stop = some n ∧ 1 ≤ n ∧ n ≤ exp.length ∧ items = exp.take n) ∨
  (t = .purged ∧ items = [] ∧ exp ≠ []) ∨
  (t = .ctx ∧ ∃ c, cancel = some c ∧ c ≤ items.length ∧ items = exp.take c)

theorem deliverPlain_outcome (exp : List α) (stop cancel : Option Nat) :
    Outcome exp stop cancel (deliverPlain exp stop).1 (deliverPlain exp stop).2 := by
  cases stop with
  | none => exact .inl ⟨rfl, rfl⟩
  | some n =>
    simp only [deliverPlain]
    split
    · rename_i hn; exact .inr (.inl ⟨rfl, n, rfl, hn.1, hn.2, rfl⟩)
    · exact .inl ⟨rfl, rfl⟩

/-- Delivery from an exact snapshot, for an iterator that ignores the context or reports it. -/
theorem deliver_outcome (pol : CtxPolicy) (hpol : pol ≠ .silent) (exp : List α) (stop cancel : Option Nat) :
    Outcome exp stop cancel (deliver pol ⟨exp, none⟩ stop cancel).1 (deliver pol ⟨exp, none⟩ stop cancel).2 := by
  cases pol with
  | silent => exact absurd rfl hpol
  | ignore => simpa [deliver] using deliverPlain_outcome exp stop cancel
  | report =>
    cases cancel with
    | none => simpa [deliver] using deliverPlain_outcome exp stop none
    | some c =>
      simp only [deliver]
      by_cases hc : c = 0
      · subst hc
        simp only [if_true]
        exact .inr (.inr (.inr ⟨rfl, 0, rfl, Nat.zero_le _, by simp⟩))
      · simp only [hc, if_false]
        split
        · rename_i hlt
          simp only [if_true]
          refine .inr (.inr (.inr ⟨rfl, c, rfl, ?_, rfl⟩))
          simp only [List.length_take]; omega
        · exact deliverPlain_outcome exp stop (some c)

/-- **after_iteration_complete_or_error.**  After ANY history, for any stream, any index `i ≥ -1`, any
consumer (`stop`: where it breaks, if at all), any cancellation point (`cancel`: from which item on the
context is done; `some 0`: before the call; `none`: never) and an iterator that ignores the context (the
code as it is) or yields its error (`pol ≠ silent`): on an unknown stream the iteration delivers nothing
and ends with an error; otherwise it ends in one of the `Outcome`s w.r.t. the payloads appended after the
index — complete and exact, broken by the consumer after exactly its first `stop` items, the purge error
at once (only if something lies after the index), a context error after exactly the items before the
cancellation point.  In particular (`complete_iteration_is_exact`) it is never silently short. -/
theorem after_iteration_complete_or_error (sz : α → Nat) (ops : List (Op α)) (k : Key) (i : Int) (hi : -1 ≤ i)
    (pol : CtxPolicy) (hpol : pol ≠ .silent) (stop cancel : Option Nat) :
    ∃ s os, run sz init ops = some (s, os) ∧
      match specLog k ops with
      | none =>
        (deliver pol (afterIter s k i) stop cancel).2 = [] ∧
        ((deliver pol (afterIter s k i) stop cancel).1 = .unknown ∨
         ((deliver pol (afterIter s k i) stop cancel).1 = .ctx ∧ cancel = some 0))
      | some log =>
        Outcome (log.drop (i + 1).toNat) stop cancel (deliver pol (afterIter s k i) stop cancel).1
          (deliver pol (afterIter s k i) stop cancel).2 := by
  obtain ⟨s, os, e, hspec⟩ := afterIter_spec sz ops k i hi
  refine ⟨s, os, e, ?_⟩
  cases hl : specLog k ops with
  | none =>
    rw [hl] at hspec; simp only [] at hspec ⊢
    rw [hspec]
    cases pol with
    | silent => exact absurd rfl hpol
    | ignore => exact ⟨rfl, .inl rfl⟩
    | report =>
      cases cancel with
      | none => exact ⟨rfl, .inl rfl⟩
      | some c =>
        by_cases hc : c = 0
        · subst hc; exact ⟨rfl, .inr ⟨rfl, rfl⟩⟩
        · simp [deliver, hc]
  | some log =>
    rw [hl] at hspec; simp only [] at hspec ⊢
    rcases hspec with ⟨hp, hlt⟩ | hit
    · rw [hp]
      have hne : log.drop (i + 1).toNat ≠ [] := by
        rw [Ne, List.drop_eq_nil_iff]; omega
      cases pol with
      | silent => exact absurd rfl hpol
      | ignore => exact .inr (.inr (.inl ⟨rfl, rfl, hne⟩))
      | report =>
        cases cancel with
        | none => exact .inr (.inr (.inl ⟨rfl, rfl, hne⟩))
        | some c =>
          by_cases hc : c = 0
          · subst hc; exact .inr (.inr (.inr ⟨rfl, 0, rfl, by simp [deliver], by simp [deliver]⟩))
          · simp only [deliver, hc, if_false]; exact .inr (.inr (.inl ⟨rfl, rfl, hne⟩))
    · rw [hit]; exact deliver_outcome pol hpol _ stop cancel

/-- The reading of the property, extracted: an iteration that ended WITHOUT an error and was not broken by
its consumer (`fin`) delivered exactly the payloads appended after the index — whatever the history, the
consumer and the cancellation point. -/
theorem complete_iteration_is_exact (sz : α → Nat) (ops : List (Op α)) (k : Key) (i : Int) (hi : -1 ≤ i)
    (pol : CtxPolicy) (hpol : pol ≠ .silent) (stop cancel : Option Nat) :
    ∃ s os, run sz init ops = some (s, os) ∧ ∀ log, specLog k ops = some log →
      (deliver pol (afterIter s k i) stop cancel).1 = .fin →
      (deliver pol (afterIter s k i) stop cancel).2 = log.drop (i + 1).toNat := by
  obtain ⟨s, os, e, h⟩ := after_iteration_complete_or_error sz ops k i hi pol hpol stop cancel
  refine ⟨s, os, e, fun log hl ht => ?_⟩
  rw [hl] at h; simp only [] at h
  rcases h with ⟨_, h⟩ | ⟨hc, _⟩ | ⟨hc, _⟩ | ⟨hc, _⟩
  · exact h
  · rw [ht] at hc; cases hc
  · rw [ht] at hc; cases hc
  · rw [ht] at hc; cases hc

/-! ### Non-vacuity, and what the theorem excludes -/

section witnesses
private def kA : Key := ("s", "a")
private def hist3 : List (Op Nat) := [.open kA, .append kA 1, .append kA 2, .append kA 3]

/-- The code as it is, context cancelled after the first item: everything is delivered. -/
example : (run id init hist3).map (fun p => deliver .ignore (afterIter p.1 kA (-1)) none (some 1)) =
    some (.fin, [1, 2, 3]) := by decide

/-- A context-honouring iterator: the first item, then the context's error. -/
example : (run id init hist3).map (fun p => deliver .report (afterIter p.1 kA (-1)) none (some 1)) =
    some (.ctx, [1]) := by decide

/-- The consumer breaks after two items. -/
example : (run id init hist3).map (fun p => deliver .ignore (afterIter p.1 kA 0) (some 2) none) =
    some (.broke, [2, 3]) := by decide

/-- **silent_return_is_partial** (seeded change C20-m12): an iterator that just returns once the context
is done ends WITHOUT an error after a proper prefix — no `Outcome`; the hypothesis `pol ≠ silent` of
`after_iteration_complete_or_error` is needed. -/
theorem silent_return_is_partial :
    ∃ (ops : List (Op Nat)) (k : Key) (s : Store Nat) (os : List (Out Nat)) (log : List Nat),
      run id init ops = some (s, os) ∧ specLog k ops = some log ∧
      deliver .silent (afterIter s k (-1)) none (some 1) = (.fin, [1]) ∧ log.drop 0 = [1, 2, 3] ∧
      ¬ Outcome (log.drop 0) none (some 1) .fin [1] := by
  obtain ⟨s, os, e, _⟩ := reachable id hist3
  refine ⟨hist3, kA, s, os, [1, 2, 3], e, by decide, ?_, rfl, ?_⟩
  · have : (run id init hist3).map (fun p => deliver .silent (afterIter p.1 kA (-1)) none (some 1)) =
        some (.fin, [1]) := by decide
    rw [e] at this; simpa using this
  · rintro (⟨_, h⟩ | ⟨h, _⟩ | ⟨h, _⟩ | ⟨h, _⟩)
    · cases h
    · cases h
    · cases h
    · cases h
end witnesses

/-! ### Why the snapshot must be a clone -/

/-- What a VIEW of the stream's list (`dl.data[start:]`, no clone) shows, at delivery time, of the element
at stream position `pos` of a stream that still exists: `dataList.removeFirst` blanks an evicted element
IN PLACE (`dl.data[0] = nil`), so an evicted position reads as the empty payload (`none`). -/
def viewAt (s : Store α) (k : Key) (pos : Nat) : Option α :=
  match find k s.store with
  | none => none
  | some dl => if pos < dl.first then none else dl.data[pos - dl.first]?

/-- **view_iterator_depends_on_later_ops.** An iterator that handed out a view instead of a clone would
deliver something else than the payloads after the index as soon as a call issued during the delivery
purges: here `After(-1)` starts on `[1, 2, 3]`, `SetMaxBytes(3)` runs after the first item, and the view's
second element has been blanked (seeded changes C20-m2, C20-m6, C08-m7, C19-m12).  The model's iterator
is immune by construction (`iterator_snapshot_independent_of_later_ops`, Concurrent.lean): that is what
the structural fact `eventstore.after_snapshot` (`slices.Clone` under the lock) pins. -/
theorem view_iterator_depends_on_later_ops :
    ∃ (ops : List (Op Nat)) (later : Op Nat) (k : Key) (s s' : Store Nat) (os : List (Out Nat)) (o : Out Nat),
      run id init ops = some (s, os) ∧ step id s later = some (s', o) ∧
      (afterIter s k (-1)).snap = [1, 2, 3] ∧ viewAt s k 1 = some 2 ∧ viewAt s' k 1 = none := by
  have h1 : (run id init hist3).isSome = true := no_panic id hist3
  cases e : run id init hist3 with
  | none => rw [e] at h1; cases h1
  | some p =>
    obtain ⟨s, os⟩ := p
    have h2 : ((run id init hist3).bind fun p => step id p.1 (.setMax 3)).isSome = true := by decide
    rw [e] at h2
    cases e2 : step id s (.setMax 3) with
    | none => simp [e2] at h2
    | some q =>
      obtain ⟨s', o⟩ := q
      refine ⟨hist3, .setMax 3, kA, s, s', os, o, e, e2, ?_, ?_, ?_⟩
      · have : (run id init hist3).map (fun p => (afterIter p.1 kA (-1)).snap) = some [1, 2, 3] := by decide
        rw [e] at this; simpa using this
      · have : (run id init hist3).map (fun p => viewAt p.1 kA 1) = some (some 2) := by decide
        rw [e] at this; simpa using this
      · have : ((run id init hist3).bind fun p => step id p.1 (.setMax 3)).map (fun q => viewAt q.1 kA 1) =
            some none := by decide
        rw [e] at this; simp only [Option.bind_some, e2, Option.map_some, Option.some.injEq] at this
        exact this

end EventStore
