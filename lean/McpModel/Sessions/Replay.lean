import McpModel.Sessions.Obs
/-!
E7 — the typed **model replay**: every harness operation (`Op`) is translated into the label list the
real handler executes for it (request labels, then the internal labels that are enabled at quiescence:
timer callbacks whose deadline has passed, `closeDone` of closing sessions without handlers in flight)
and the model's full observation (`Obs`: status, `Mcp-Session-Id`, async completions, `h.sessions`,
`Server.Sessions()`, handler invocation log) is produced for comparison with the implementation's.

`replayOp` is what the driver runs per record; `modelTrace` (the observation trace of the model over
an operation list) is what Bridge.lean feeds to the monitor.  Core Lean only (linked into the driver).
-/
namespace Sessions

inductive PendKind where
  | slow (sid : Option Nat) (slot : Nat)
  | run (sid : Nat) (slot : Nat)   -- handler still running after its POST was abandoned by the client
  | del (sid : Nat) (fresh : Bool)   -- `fresh` (ghost): the session was not yet closing when the DELETE was accepted
  | cls (sid : Nat)
  -- POST number `n` whose body is still on its way; `user`: whom the handler will see
  | upl (sid : Nat) (n : Nat) (user : UserTok)
deriving DecidableEq, Repr

structure Pend where
  tag : Tag
  kind : PendKind
deriving DecidableEq, Repr

def doL (s : State) (l : Label) : State :=
  match step s l with
  | some (s', _) => s'
  | none => s

/-- Internal labels enabled at quiescence: expired timers fire, closes without handlers complete. -/
def settle (s : State) : State :=
  s.tbl.foldl (fun s e => doL (doL s (.timerFire e.id)) (.closeDone e.id)) s

def isLive (s : State) (i : Nat) : Bool :=
  match findSess i s.tbl with
  | some e => !e.removed
  | none => false

/-- What `Close()` of that session returns: closing the connection reported an error. -/
def closeErrOf (s : State) (i : Nat) : Bool :=
  match findSess i s.tbl with
  | some e => e.closeErr
  | none => false

def showMap (s : State) : List MapEnt :=
  (s.tbl.filter (fun e => e.inMap)).map fun e =>
    { name := sname e.id, owner := ownerOf e.owner, refs := e.refs, timer := e.timer != .nil, closing := e.closing,
      busy := e.busy + e.initBusy }

/-- Sessions that are not (or no longer) in `h.sessions` and whose idle timer is armed. -/
def showStale (s : State) : List Name :=
  (s.tbl.filter (fun e => !e.inMap && e.timer.isArmed)).map fun e => sname e.id

def showSrv (s : State) : List Name :=
  if s.cfg.stateless then List.replicate s.eph .e
  else (s.tbl.filter (fun e => !e.removed)).map fun e => sname e.id

/-- Pending DELETEs / server closes whose session has been removed complete now. -/
def completions (s : State) (pend : List Pend) : List (Tag × Nat) × List Pend :=
  pend.foldl (fun (acc : List (Tag × Nat) × List Pend) p =>
    let (done, keep) := acc
    match p.kind with
    | .del i _ => if isLive s i then (done, keep ++ [p]) else (done ++ [(p.tag, stDeleted)], keep)
    | .cls i => if isLive s i then (done, keep ++ [p])
                else (done ++ [(p.tag, if closeErrOf s i then 2 else 1)], keep)
    | .slow _ _ => (done, keep ++ [p])
    | .run _ _ => (done, keep ++ [p])
    | .upl _ _ _ => (done, keep ++ [p])) ([], [])

/-- The replay state: the model state and the harness-side bookkeeping of asynchronous requests. -/
structure RState where
  st : State
  nslow : Nat := 0
  nasync : Nat := 0
  released : List Nat := []
  pend : List Pend := []

def RState.init (cfg : Cfg) : RState := { st := Sessions.init cfg }

structure ROut where
  st : State
  status : St
  hdr : Option Name := none
  hang : Bool := false
  done : List (Tag × Nat) := []
  log : List LogEnt := []
  pend : List Pend
  nslow : Nat
  nasync : Nat
  released : List Nat

/-- `InitializeParams() != nil` of session `i` -/
def wasInitialized (s : State) (i : Nat) : Bool :=
  match findSess i s.tbl with
  | some e => e.initialized
  | none => false

/-- the handler of a POST that is answered at once runs to completion (if the message was delivered) -/
def runHandler (st1 : State) (i : Nat) (k : Kind) (deliver : Bool) : State :=
  match k with
  | .init => if deliver then doL st1 (.handlerDone i true) else st1
  | .badInit | .call => if deliver then doL st1 (.handlerDone i false) else st1
  | .notif => st1

/-- the handler invocations of a POST on a stateful endpoint that is answered at once -/
def postLog (nm : Name) (user : UserTok) (kind : PKind) (deliver creator : Bool) : List LogEnt :=
  match kind with
  | .init => if deliver then [⟨nm, .tok user, .initialize⟩] else []
  | .ping => if deliver then [⟨nm, .tok user, .ping⟩] else []
  | .notif => if deliver && !creator then [⟨nm, .tok user, .initialized⟩] else []
  | _ => []

/-- the handler invocation of a POST on a stateless endpoint that is answered at once
(a notification is handled by the temporary session before the POST is acknowledged) -/
def slLog (user : UserTok) (kind : PKind) : List LogEnt :=
  match kind with
  | .init => [⟨.e, .tok user, .initialize⟩]
  | .ping => [⟨.e, .tok user, .ping⟩]
  | .notif => [⟨.e, .tok user, .initialized⟩]
  | _ => []

def postStatus (kind : PKind) : St :=
  match kind with
  | .notif => .code 202
  | _ => .code 200

/-- only the answer to an `initialize` carries the `Mcp-Session-Id` header -/
def postHdr (kind : PKind) (hdrN : Option Name) : Option Name :=
  match kind with
  | .init | .badinit => hdrN
  | _ => none

/-- the asynchronous request that occupies handler slot `k` -/
def slotIs (k : Nat) (p : Pend) : Bool :=
  match p.kind with
  | .slow _ s => s == k
  | .run _ s => s == k
  | _ => false

/-- Replay one harness operation on the model (before the final settling). `none` = the operation has
no meaning in this configuration (`postx` on a stateless endpoint) or a label that must be enabled is not. -/
def modelOp (d : RState) (op : Op) : Option ROut :=
  let st := d.st
  let base : ROut := { st := st, status := .ok, pend := d.pend, nslow := d.nslow, nasync := d.nasync, released := d.released }
  match op with
  | .post ref user kind =>
    let sid := ref.sid st.next
    let u := user.user
    let k := kind.kind
    let slow := kind == .slow
    let nslow := if slow then d.nslow + 1 else d.nslow
    let nasync := if slow then d.nasync else d.nasync + 1
    let tag := if slow then Tag.p nslow else Tag.q nasync
    let base := { base with nslow := nslow, nasync := nasync }
    -- without a session id on a stateful endpoint: `Connect`, then the publication answers
    let first : Option (State × Resp) :=
      if sid.isNone && !st.cfg.stateless then
        match step st (.postBegin none u k) with
        | some (st0, .tau) => step st0 (.publish st.next)
        | r => r      -- `Connect` refused by the event store: answered at once, no session
      else step st (.postBegin sid u k)
    match first with
    | none => none
    | some (st1, .reject c) => some { base with st := st1, status := .code c }
    | some (st1, .storeRefused c) =>
      -- the session layer let the POST through, the transport could not open the stream for the
      -- answer: nothing reaches a handler, the POST ends (for a creating POST: failed initialize)
      if st.cfg.stateless then some { base with st := doL st1 (.postEnd none false), status := .code c }
      else some { base with st := doL st1 (.postEnd (some (sid.getD st.next)) sid.isNone), status := .code c }
    | some (st1, .forward hdr deliver) =>
      let hdrN := hdr.map sname
      if st.cfg.stateless then
        if slow then
          some { base with st := st1, status := .pending, log := [⟨.e, .tok user, .toolsCall⟩],
                           pend := d.pend ++ [⟨tag, .slow none nslow⟩] }
        else
          let st2 := doL st1 (.postEnd none false)
          some { base with st := st2, status := (if kind == .notif then .code 202 else .code 200), log := slLog user kind }
      else
        let i := sid.getD st.next
        let creator := sid.isNone
        let wasInit := wasInitialized st i
        let nm := sname i
        if slow && deliver && wasInit then
          some { base with st := st1, status := .pending, log := [⟨nm, .tok user, .toolsCall⟩],
                           pend := d.pend ++ [⟨tag, .slow (some i) nslow⟩] }
        else
          let st3 := doL (runHandler st1 i k deliver) (.postEnd (some i) creator)
          some { base with st := st3, status := postStatus kind, hdr := postHdr kind hdrN,
                           log := postLog nm user kind deliver creator }
    | some _ => none
  | .postx user kind =>
    let u := user.user
    let k := kind.kind
    let slow := kind == .slow
    let nslow := if slow then d.nslow + 1 else d.nslow
    let nasync := if slow then d.nasync else d.nasync + 1
    let base := { base with nslow := nslow, nasync := nasync }
    if st.cfg.stateless then none
    else
      let i := st.next
      match step st (.postBegin none u k) with
      | some (st0, .reject c) => some { base with st := st0, status := .code c }
      | some (st0, _) =>
        let st1 := doL (doL st0 (.serverClose i)) (.closeDone i)
        match step st1 (.publish i) with
        | some (st2, .forward hdr _) =>
          some { base with st := doL st2 (.postEnd (some i) true), status := .code 200, hdr := hdr.map sname }
        | some (st2, .storeRefused c) => some { base with st := doL st2 (.postEnd (some i) true), status := .code c }
        | _ => none
      | none => none
  | .release k =>
    if k = 0 || k > d.nslow || d.released.contains k then some { base with status := .noop }
    else
      let base := { base with status := .ok, released := d.released ++ [k] }
      match d.pend.find? (slotIs k) with
      | some p =>
        let rest := d.pend.filter (fun q => q.tag != p.tag)
        match p.kind with
        | .slow (some i) _ =>
          -- (also after `Close` has begun: the answer of a handler that was admitted before the close
          -- still passes the connection's write gate — F26 — so the POST is answered and ends)
          some { base with st := doL (doL st (.handlerDone i false)) (.postEnd (some i) false),
                           done := [(p.tag, 200)], pend := rest }
        | .slow none _ => some { base with st := doL st (.postEnd none false), done := [(p.tag, 200)], pend := rest }
        | .run i _ => some { base with st := doL st (.handlerDone i false), pend := rest }
        | _ => some base
      | none => some base
  | .abandon k =>
    let tag := Tag.p k
    match d.pend.find? (fun p => p.tag == tag) with
    | none => some { base with status := .noop }
    | some p =>
      let rest := d.pend.filter (fun q => q.tag != tag)
      match p.kind with
      | .slow (some i) slot =>
        -- the POST ends (endPOST), the handler stays in flight
        some { base with st := doL st (.postEnd (some i) false), status := .ok, done := [(tag, 200)],
                         pend := rest ++ [⟨.r k, .run i slot⟩] }
      | .slow none _ =>
        -- stateless: the POST now waits in `defer session.Close()` for its handler: nothing observable
        some { base with status := .ok }
      | _ => some { base with status := .noop }
  | .get ref user =>
    let sid := ref.sid st.next
    let u := user.user
    let base := { base with nasync := d.nasync + 1 }
    match step st (.get sid u) with
    | some (st1, .reject c) => some { base with st := st1, status := .code c }
    | some (st1, .stream) => some { base with st := st1, status := .code 200, hang := true }
    | some (st1, .storeRefused c) => some { base with st := st1, status := .code c }
    | _ => none
  | .delete ref user =>
    let sid := ref.sid st.next
    let u := user.user
    let base := { base with nasync := d.nasync + 1 }
    match step st (.delete sid u) with
    | some (st1, .reject c) => some { base with st := st1, status := .code c }
    | some (st1, .closeAccepted) =>
      let i := sid.getD 0
      let st2 := settle st1
      let fresh := match findSess i st.tbl with | some e => !e.closing | none => false
      if isLive st2 i then some { base with st := st2, status := .pending, pend := d.pend ++ [⟨.d (d.nasync + 1), .del i fresh⟩] }
      else some { base with st := st2, status := .code stDeleted }
    | _ => none
  | .other ref user =>
    let sid := ref.sid st.next
    let u := user.user
    let base := { base with nasync := d.nasync + 1 }
    match step st (.other sid u) with
    | some (st1, .reject c) => some { base with st := st1, status := .code c }
    | _ => none
  | .tick n => some { base with st := doL st (.tick n), status := .ok }
  | .fault f =>
    if st.cfg.eventStore then some { base with st := doL st (.faults f), status := .ok }
    else some { base with status := .noop }
  | .close ref =>
    match ref.sid st.next with
    | some i =>
      if !st.cfg.stateless && isLive st i then
        let st2 := settle (doL st (.serverClose i))
        if isLive st2 i then
          some { base with st := st2, nasync := d.nasync + 1, status := .pending, pend := d.pend ++ [⟨.c (d.nasync + 1), .cls i⟩] }
        else some { base with st := st2, nasync := d.nasync + 1, status := (if closeErrOf st2 i then .err else .ok) }
      else some { base with status := .noop }
    | none => some { base with status := .noop }
  | .postb ref user =>
    -- the request HEADERS arrive: `lookupSession`, `startPOST`; the transport blocks reading the body
    let base := { base with nasync := d.nasync + 1 }
    if st.cfg.stateless then none
    else
      match step st (.postHead (ref.sid st.next) user.user) with
      | some (st1, .reject c) => some { base with st := st1, status := .code c }
      | some (st1, .forward _ _) =>
        some { base with st := st1, status := .pending,
                         pend := d.pend ++ [⟨.u (d.nasync + 1), .upl ((ref.sid st.next).getD 0) (d.nasync + 1) user⟩] }
      | _ => none
  | .body n fin =>
    if st.cfg.stateless then none else
    match d.pend.find? (fun p => p.tag == Tag.u n) with
    | none => some { base with status := .noop }
    | some p =>
      if !fin then some { base with status := .ok }     -- a piece that is not the last one: the transport keeps reading
      else
        let rest := d.pend.filter (fun q => q.tag != p.tag)
        match p.kind with
        | .upl i _ user =>
          -- the body is complete: the `ping` is handed over (unless `Close` has begun), answered, the POST ends
          match step st (.postBody i .call) with
          | some (st1, .forward _ dlv) =>
            some { base with st := doL (runHandler st1 i .call dlv) (.postEnd (some i) false), status := .ok,
                             done := [(p.tag, 200)], log := (if dlv then [⟨sname i, .tok user, .ping⟩] else []), pend := rest }
          | some (st1, .storeRefused c) =>
            some { base with st := doL st1 (.postEnd (some i) false), status := .ok, done := [(p.tag, c)], pend := rest }
          | _ => some { base with status := .noop }   -- (never: the body of a POST in progress can always arrive)
        | _ => some { base with status := .noop }

/-- One record: the operation, the settling at quiescence, the completions, the snapshot. -/
def replayOp (d : RState) (op : Op) : Option (RState × Obs) :=
  match modelOp d op with
  | none => none
  | some m =>
    let st := settle m.st
    let cp := completions st m.pend
    some ({ st := st, nslow := m.nslow, nasync := m.nasync, released := m.released, pend := cp.2 },
          { status := m.status, hdr := m.hdr, hang := m.hang, done := m.done ++ cp.1,
            map := showMap st, srv := showSrv st, log := m.log, stale := showStale st })

/-- The model's answer to the harness's final sweep (everything released, every request cancelled,
every session closed by the server): nothing is stuck, nothing is left — except the dead sessions that
the unrepaired publication of F20 left in the handler's table. -/
def endLeft (d : RState) : Nat := (d.st.tbl.filter (fun e => e.inMap && e.removed)).length

/-- The observation trace of the model over an operation list: one `(op, obs)` per operation the model
can replay (an operation without meaning in the configuration is skipped, like a disabled label). -/
def modelTraceFrom (d : RState) : List Op → List (Op × Obs)
  | [] => []
  | op :: ops =>
    match replayOp d op with
    | some (d', o) => (op, o) :: modelTraceFrom d' ops
    | none => modelTraceFrom d ops

def modelTrace (cfg : Cfg) (ops : List Op) : List (Op × Obs) := modelTraceFrom (.init cfg) ops

/-- The replay state after an operation list. -/
def replayFrom (d : RState) : List Op → RState
  | [] => d
  | op :: ops =>
    match replayOp d op with
    | some (d', _) => replayFrom d' ops
    | none => replayFrom d ops

end Sessions
