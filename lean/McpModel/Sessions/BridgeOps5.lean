import McpModel.Sessions.BridgeOps4
/-!
Bridge (E7/C11): a POST that carries a session id.
-/
namespace Sessions

theorem step_postBegin_ok {s : State} (hst : s.cfg.stateless = false) (hn : NodupIds s.tbl) {i : Nat} {u : User} {e : Sess}
    (hl : lookup s.tbl i u = .ok e) (k : Kind) :
    step s (.postBegin (some i) u k) =
      some ({ s with tbl := s.tbl.map (lift i (startPost (s.accepts k) k)) },
            postResp s k (if k.isInitialize then some i else none) e.closing) := by
  have hfe := (lookup_ok hl).1
  have hm := modify_eq_map (f := fun x => some (startPost (s.accepts k) k x)) hn hfe rfl
  simp only [step, hst, stepStateful, hl, Bool.false_eq_true, if_false, hm]
  have : (tryF fun x => some (startPost (s.accepts k) k x)) = startPost (s.accepts k) k := by
    funext x; simp [tryF]
  rw [this]

theorem step_postBegin_err {s : State} (hst : s.cfg.stateless = false) {i : Nat} {u : User} {c : Nat}
    (hl : lookup s.tbl i u = .error c) (k : Kind) : step s (.postBegin (some i) u k) = some (s, .reject c) := by
  simp [step, hst, stepStateful, hl]

theorem monUpd_congr_at {t : List MSess} (hn : (t.map (·.name)).Nodup) {n : Name} {a : MSess} (ha : monFind t n = some a)
    {f g : MSess → MSess} (h : f a = g a) : monUpd t n f = monUpd t n g := by
  simp only [monUpd_eq_map]
  apply List.map_congr_left
  intro x hx
  by_cases hxn : x.name = n
  · have : x = a := by
      have := monFind_of_mem hn hx
      rw [hxn, ha] at this; cases this; rfl
    subst this; simp [hxn, h]
  · simp [hxn]

theorem monUpd_id_at {t : List MSess} (hn : (t.map (·.name)).Nodup) {n : Name} {a : MSess} (ha : monFind t n = some a)
    {f : MSess → MSess} (h : f a = a) : monUpd t n f = t := by
  have := monUpd_congr_at hn ha (f := f) (g := id) h
  rw [this, monUpd_eq_map]
  conv => rhs; rw [← List.map_id t]
  apply List.map_congr_left
  intro x _; simp

theorem hdK_false (k : Kind) : hdK k false = id := by
  funext x; cases k <;> rfl

theorem keepsId_hdK (k : Kind) (dlv : Bool) : KeepsId (hdK k dlv) := by
  intro x; cases k <;> cases dlv <;> simp only [hdK, Bool.false_eq_true, if_false, if_true] <;>
    first | rfl | exact keepsId_handlerDone _ x

theorem runHandler_eq {s1 : State} (hst : s1.cfg.stateless = false) (hn : NodupIds s1.tbl) (i : Nat) (k : Kind) (dlv : Bool) :
    runHandler s1 i k dlv = { s1 with tbl := s1.tbl.map (lift i (hdK k dlv)) } := by
  have hid : ({ s1 with tbl := s1.tbl.map (lift i id) } : State) = s1 := by rw [map_lift_id]
  cases k <;> cases dlv <;> simp only [runHandler, hdK, Bool.false_eq_true, if_false, if_true] <;>
    first
    | exact doL_handlerDone hst hn i _
    | exact hid.symm

theorem runHandler_inv {s1 : State} (hi : Inv s1) (i : Nat) (k : Kind) (dlv : Bool) : Inv (runHandler s1 i k dlv) := by
  cases k <;> cases dlv <;> simp only [runHandler, Bool.false_eq_true, if_false, if_true] <;>
    first | exact hi | exact doL_inv hi _

theorem pendOkW_append_slow {P : List Pend} {ns na : Nat} {rel : List Nat} {next : Nat} (h : PendOkW P ns na rel next)
    {i : Nat} (hi : i < next) : PendOkW (P ++ [Pend.mk (.p (ns + 1)) (.slow (some i) (ns + 1))]) (ns + 1) na rel next := by
  have hslot : ∀ q ∈ P, slotOf q ≠ some (ns + 1) := by
    intro q hq hs
    have := h.shape q hq
    unfold slotOf at hs
    cases hqk : q.kind <;> rw [hqk] at this hs <;> simp at hs <;> omega
  have hfresh : ∀ q ∈ P, q.tag ≠ .p (ns + 1) := by
    intro q hq hqt
    have := h.shape q hq
    have hs := hslot q hq
    cases hqk : q.kind with
    | slow a b => rw [hqk] at this; rw [this.1] at hqt; cases hqt; exact hs (by simp [slotOf, hqk])
    | run a b => rw [hqk] at this; rw [this.1] at hqt; cases hqt
    | del j f => rw [hqk] at this; obtain ⟨n, hn, _⟩ := this; rw [hn] at hqt; cases hqt
    | cls j => rw [hqk] at this; obtain ⟨n, hn, _⟩ := this; rw [hn] at hqt; cases hqt
    | upl a b c => rw [hqk] at this; rw [this.1] at hqt; cases hqt
  refine ⟨?_, ?_, ?_, ?_, ?_, ?_⟩
  · rw [List.map_append, List.nodup_append]
    refine ⟨h.tags, by simp, ?_⟩
    intro a ha b hb hab
    simp at hb; subst hb
    obtain ⟨q, hq, rfl⟩ := List.mem_map.mp ha
    exact hfresh q hq hab
  · rw [List.filterMap_append, List.nodup_append]
    refine ⟨h.slots, by simp [slotOf], ?_⟩
    intro a ha b hb hab
    simp [slotOf] at hb; subst hb
    obtain ⟨q, hq, hqa⟩ := List.mem_filterMap.mp ha
    exact hslot q hq (by rw [hqa, hab])
  · intro q hq
    rcases List.mem_append.mp hq with hq | hq
    · have := h.shape q hq
      cases hqk : q.kind with
      | slow a b => rw [hqk] at this; exact ⟨this.1, this.2.1, by omega, this.2.2.2⟩
      | run a b => rw [hqk] at this; exact ⟨this.1, this.2.1, by omega, this.2.2.2⟩
      | del j f => rw [hqk] at this; exact this
      | cls j => rw [hqk] at this; exact this
      | upl a b c => rw [hqk] at this; exact this
    · simp at hq; subst hq
      refine ⟨rfl, by omega, Nat.le_refl _, ?_⟩
      intro hm; have := h.relLe _ hm; omega
  · intro q hq j hj
    rcases List.mem_append.mp hq with hq | hq
    · exact h.minted q hq j hj
    · simp at hq; subst hq; simp [sidOf] at hj; omega
  · intro q hq
    rcases List.mem_append.mp hq with hq | hq
    · exact h.sids q hq
    · simp at hq; subst hq; rfl
  · intro k hk; have := h.relLe k hk; omega

def touchF (now : Nat) (a : MSess) : MSess := if a.life = .live then mTouch now a else a

theorem keepsName_touchF (now : Nat) : KeepsName (touchF now) := by
  intro a; unfold touchF; split
  · exact keepsName_mTouch now a
  · rfl

theorem kind_hasCall (k : PKind) : k.kind.hasCall = (k != .notif) := by cases k <;> rfl

theorem kind_isInit (k : PKind) : k.kind.isInitialize = isInitKind (some k) := by cases k <;> rfl

theorem bookAnswer_post_refused (cfg : Cfg) (fl : Faults) (now : Nat) (tag : Tag) (tbl : List MSess)
    (pend : List (Tag × Name)) (ref : Ref) (u : UserTok) (kind : PKind) {c : Nat} (hc : c = 403 ∨ c = 404) :
    bookAnswer cfg fl now tag tbl pend (.post ref u kind) (.code c) = (tbl, pend) := by
  simp only [bookAnswer]
  split
  · rfl
  · cases ref.name with
    | none => rfl
    | some n => rcases hc with h | h <;> subst h <;> simp [St.accepted2xx]

theorem countersAfter_post (m : Mon) (ref : Ref) (u : UserTok) (kind : PKind) (st : St) :
    countersAfter m (.post ref u kind) st =
      (if kind == .slow then m.nslow + 1 else m.nslow, if kind == .slow then m.nasync else m.nasync + 1) := by
  cases kind <;> rfl

/-- the monitor's bookkeeping of a POST that was let through and answered at once -/
theorem bookAnswer_post_touch {cfg : Cfg} {d : RState} {m : Mon} (hs : Sim cfg d m) (fl : Faults) (tag : Tag)
    {ref : Ref} {i : Nat} (hname : ref.name = some (sname i)) (u : UserTok) (kind : PKind) {a : MSess}
    (ha : monFind m.tbl (sname i) = some a) (hent : entitled a.owner u = true) {st : St}
    (hacc : (st.accepted2xx || (kind != .notif && fl.reqOpen && st == .code 500)) = true) (hnp : st ≠ .pending) :
    bookAnswer cfg fl m.now tag m.tbl m.pend (.post ref u kind) st = (monUpd m.tbl (sname i) (touchF m.now), m.pend) := by
  have hnp' : (st == St.pending) = false := by simp [hnp]
  simp only [bookAnswer, hs.stateful, Bool.false_eq_true, if_false, hname, ha, hent, Bool.and_true, hacc, hnp']
  by_cases hl : a.life = .live
  · simp only [hl, beq_self_eq_true, if_true]
    congr 1
    apply monUpd_congr_at hs.mnodup ha
    simp [touchF, hl, mTouch]
  · have : (a.life == Life.live) = false := by simp [hl]
    simp only [this, Bool.false_eq_true, if_false]
    congr 1
    exact (monUpd_id_at hs.mnodup ha (by simp [touchF, hl])).symm

theorem sim_post_ref {cfg : Cfg} {d d' : RState} {m : Mon} {o : Obs} (hs : Sim cfg d m) (ref : Ref) (href : ref ≠ .absent)
    (u : UserTok) (kind : PKind) (hop : replayOp d (.post ref u kind) = some (d', o)) :
    (monStep cfg m (.post ref u kind) o).viol = none ∧ Sim cfg d' (monStep cfg m (.post ref u kind) o).mon := by
  have hst := hs.stateful_st
  have hnid := inv_nodupIds hs.inv
  have hreq : (Op.post ref u kind).req = some { verb := .post, ref := ref, user := u, kind := some kind } := rfl
  have hcnt := countersAfter_post m ref u kind
  rw [hs.nslow, hs.nasync] at hcnt
  have hpw := hs.pok.weak
  have fin : ∀ (c : Nat), (c = 403 ∨ c = 404) →
      modelOp d (.post ref u kind) = some { st := d.st, status := .code c, pend := d.pend, nslow := (if kind == .slow then d.nslow + 1 else d.nslow), nasync := (if kind == .slow then d.nasync else d.nasync + 1), released := d.released } →
      chkAnswer cfg (effFaults cfg m) m.tbl { verb := .post, ref := ref, user := u, kind := some kind } (.code c) = none →
      (monStep cfg m (.post ref u kind) o).viol = none ∧ Sim cfg d' (monStep cfg m (.post ref u kind) o).mon := by
    intro c hc hmo hans
    exact sim_quiet_op hs hmo rfl rfl rfl rfl rfl rfl (hcnt _) (by rw [hreq]; exact hans)
      (bookAnswer_post_refused _ _ _ _ _ _ _ _ _ hc) rfl rfl rfl
      (by rcases hc with h | h <;> subst h <;> simp [chkNoId, hreq, St.accepted2xx])
      (by show d.nslow ≤ (if kind == .slow then d.nslow + 1 else d.nslow); split <;> omega)
      (by show d.nasync ≤ (if kind == .slow then d.nasync else d.nasync + 1); split <;> omega) hop
  rcases ref_cases hs ref with ⟨hr, _, _⟩ | ⟨i, hi, hsid, hname⟩ | ⟨j, n, hsid, hj, hname, hnone⟩
  · exact absurd hr href
  · cases hl : lookup d.st.tbl i u.user with
    | error c =>
      have hlm := lookup_mon hs hi u
      rw [hl] at hlm
      have hc : c = 403 ∨ c = 404 := by rcases hlm with ⟨h, _⟩ | ⟨h, _⟩ <;> omega
      apply fin c hc
      · simp only [modelOp, hsid, Option.isNone_some, Bool.false_and, Bool.false_eq_true, if_false, step_postBegin_err hst hl]
      · exact chkAnswer_refused hs _ _ (by simp) hname (Or.inr ⟨hi, rfl, hl⟩)
    | ok e =>
      have hlm := lookup_mon hs hi u
      rw [hl] at hlm
      obtain ⟨hfe, hr, a, ha, hnd, hent, hrel⟩ := hlm
      have hmem := (findSess_some hfe).1
      have hid := (findSess_some hfe).2
      have hk := hs.eok e hmem
      have hg := hs.good hmem
      rw [hid] at hk
      have htouniq : ∀ e' ∈ d.st.tbl, e'.id = i → e' = e := fun e' he' hid' => entry_unique hs.inv he' hmem (by rw [hid', hid])
      have hstep := step_postBegin_ok hst hnid hl kind.kind
      have hGk : ∀ ok, KeepsId (tryF (endPost d.st.now d.st.cfg.timeout false) ∘ (hdK kind.kind (ok && !e.closing) ∘ startPost ok kind.kind)) := by
        intro ok
        apply keepsId_comp _ (keepsId_endPost _ _ _)
        exact keepsId_comp (keepsId_startPost _ _) (keepsId_hdK _ _)
      -- a POST that is let through and answered at once
      have touch : ∀ (ok : Bool) (st3 : State) (status : St) (hdr : Option Name) (log : List LogEnt),
          st3 = { d.st with tbl := d.st.tbl.map (lift i (tryF (endPost d.st.now d.st.cfg.timeout false) ∘ (hdK kind.kind (ok && !e.closing) ∘ startPost ok kind.kind))) } →
          Inv st3 →
          modelOp d (.post ref u kind) = some { st := st3, status := status, hdr := hdr, hang := false, done := [], log := log, pend := d.pend, nslow := (if kind == .slow then d.nslow + 1 else d.nslow), nasync := (if kind == .slow then d.nasync else d.nasync + 1), released := d.released } →
          (status.accepted2xx || (kind != .notif && (effFaults cfg m).reqOpen && status == .code 500)) = true →
          status ≠ .pending → status ≠ .code 403 → status ≠ .code 404 →
          chkLog cfg (some { verb := .post, ref := ref, user := u, kind := some kind }) status log = none →
          (hdr = none ∨ (hdr = some (sname i) ∧ isInitKind (some kind) = true ∧ status.accepted2xx = true)) →
          (monStep cfg m (.post ref u kind) o).viol = none ∧ Sim cfg d' (monStep cfg m (.post ref u kind) o).mon := by
        intro ok st3 status hdr log hst3 hinv3 hmo hacc hnp h403 h404 hlog hhdr
        subst hst3
        have hsettle := settle_lift hs.inv hst (i := i) (hGk ok) (fun e he _ => hs.settleE_id _ _ rfl e he)
        have hG : KeepsId (settleE d.st.now d.st.closeFails ∘ (tryF (endPost d.st.now d.st.cfg.timeout false) ∘ (hdK kind.kind (ok && !e.closing) ∘ startPost ok kind.kind))) :=
          keepsId_comp (hGk ok) (keepsId_settleE _ _)
        have hke := eok_touch (kind.kind == .init && ok && !e.closing) hk hg hr
        have hGe : (settleE d.st.now d.st.closeFails ∘ (tryF (endPost d.st.now d.st.cfg.timeout false) ∘ (hdK kind.kind (ok && !e.closing) ∘ startPost ok kind.kind))) e =
            touchE d.st.now cfg.timeout (kind.kind == .init && ok && !e.closing) e := by
          show settleE _ _ (tryF _ (hdK _ _ (startPost ok kind.kind e))) = _
          rw [touch_eq kind.kind ok hr hk.creating (fun ht => hg.refs_posts ht) (fun dd hd => (hg.armed dd hd).1), hs.cfg_eq]
          exact settleE_of_eok _ hke
        have hinv2 : Inv { d.st with tbl := d.st.tbl.map (lift i (settleE d.st.now d.st.closeFails ∘ (tryF (endPost d.st.now d.st.cfg.timeout false) ∘ (hdK kind.kind (ok && !e.closing) ∘ startPost ok kind.kind)))) } := by
          rw [← hsettle]; exact settle_inv hinv3
        have hba := bookAnswer_post_touch hs (effFaults cfg m) (tagOf m (.post ref u kind)) hname u kind ha hent hacc hnp
        apply sim_one_op (st2 := { d.st with tbl := d.st.tbl.map (lift i (settleE d.st.now d.st.closeFails ∘ (tryF (endPost d.st.now d.st.cfg.timeout false) ∘ (hdK kind.kind (ok && !e.closing) ∘ startPost ok kind.kind)))) })
          hs hmo (Or.inr hsettle) rfl hG rfl rfl rfl rfl hinv2
          (pendOkW_counters hpw (by split <;> omega) (by split <;> omega))
          (fun j _ => ⟨rfl, rfl⟩) (fun p hp j _ _ => hs.pok.keep hp)
          (tblX := monUpd m.tbl (sname i) (touchF m.now))
        · rw [hba]; show bookDone _ _ _ [] = _; simp [bookSlots, bookDone, hs.pend]
        · rw [hba]; simp [bookSlots, hs.run]
        · intro j hj; exact monFind_monUpd_ne (keepsName_touchF _) _ (sname_ne hj)
        · rw [monUpd_names (keepsName_touchF _)]; exact hs.mnodup
        · intro x hx
          obtain ⟨b, hb, hxb⟩ := monUpd_mem (keepsName_touchF _) hx
          obtain ⟨j, hj, hn⟩ := hs.minted b hb
          exact ⟨j, hj, by rw [hxb]; exact hn⟩
        · intro e' he' hid'
          rw [htouniq e' he' hid', hGe]
          refine ⟨hke, ?_⟩
          unfold RelPreAt
          rw [(touchE_fields _ _ _ _).1, hid, monFind_monUpd_self (keepsName_touchF _), ha, hs.now]
          simp only [Option.map_some]
          exact rel_touch _ hrel hk hg hr
        · rw [hreq]
          exact chkAnswer_admitted hs _ _ (by simp) hi hname hl _ h403 h404 (by
            simp only [beq_self_eq_true, Bool.true_and]
            have : ((some kind : Option PKind) != some PKind.notif) = (kind != PKind.notif) := by cases kind <;> rfl
            rw [this]
            cases hh : status.accepted2xx <;> simp_all)
        · rw [chkLogOp_eq (by intro n f h; cases h), hreq]; exact hlog
        · rcases hhdr with h | ⟨h, _, _⟩ <;> subst h <;> simp [chkNoId, hreq]
          cases ref <;> simp_all
        · rcases hhdr with h | ⟨h, h2, h3⟩
          · subst h; rfl
          · subst h; simp [chkMint, hs.stateful, hreq, h2, h3, hname]
        · intro h hh
          rcases hhdr with h0 | ⟨h0, _, _⟩
          · rw [h0] at hh; cases hh
          · rw [h0] at hh; cases hh
            exact ⟨rfl, by rw [monFind_monUpd_self (keepsName_touchF _), ha]; rfl⟩
        · rfl
        · rfl
        · exact hcnt _
        · exact hop
      have hn1 : NodupIds (d.st.tbl.map (lift i (startPost (d.st.accepts kind.kind) kind.kind))) :=
        nodupIds_map (keepsId_lift (keepsId_startPost _ _)) hnid
      have hwas : wasInitialized d.st i = e.initialized := by simp [wasInitialized, hfe]
      cases hacc : d.st.accepts kind.kind with
      | false =>
        -- the transport cannot open the stream for the answer: 500, nothing is handed over
        have hacc' : kind.kind.hasCall = true ∧ d.st.openFails = true := by
          simpa [State.accepts] using hacc
        rw [hacc] at hstep hn1
        have hresp : postResp d.st kind.kind (if kind.kind.isInitialize then some i else none) e.closing = .storeRefused 500 := by
          simp [postResp, hacc, stStoreOpenFailed, Generated.Sessions.storeOpenFailed]
        rw [hresp] at hstep
        apply touch false (doL { d.st with tbl := d.st.tbl.map (lift i (startPost false kind.kind)) } (.postEnd (some i) false)) (.code 500) none []
        · rw [doL_postEnd (s := { d.st with tbl := d.st.tbl.map (lift i (startPost false kind.kind)) }) hst hn1]
          show ({ d.st with tbl := (d.st.tbl.map _).map _ } : State) = _
          rw [map_lift_comp (keepsId_startPost _ _)]
          simp only [Bool.false_and, hdK_false]
          rfl
        · exact doL_inv (step_inv hs.inv hstep) _
        · simp only [modelOp, hsid, Option.isNone_some, Bool.false_and, Bool.false_eq_true, if_false, hstep, hst, Option.getD_some]
        · rw [kind_hasCall] at hacc'
          simp [hs.effFaults_after.2.1, hacc'.1, hacc'.2]
        · simp
        · simp
        · simp
        · exact chkLog_nil _ _ _
        · left; rfl
      | true =>
        rw [hacc] at hstep hn1
        have hresp : postResp d.st kind.kind (if kind.kind.isInitialize then some i else none) e.closing =
            .forward (if kind.kind.isInitialize then some i else none) (!e.closing) := by
          simp [postResp, hacc]
        rw [hresp] at hstep
        by_cases hpd : (kind == .slow && !e.closing && e.initialized) = true
        · -- the handler parks: the POST stays pending
          have hks : kind = .slow := by
            cases kind <;> simp at hpd <;> rfl
          subst hks
          have hc : e.closing = false := by
            cases hc : e.closing with
            | false => rfl
            | true => simp [hc] at hpd
          have hin : e.initialized = true := by
            cases hin : e.initialized with
            | true => rfl
            | false => simp [hin] at hpd
          have hpd' : ((PKind.slow == PKind.slow) && !e.closing && wasInitialized d.st i) = true := by rw [hwas, hc, hin]; rfl
          have hlv := hrel.life_live hr hc
          have hke := eokq_pend hk hg hr hc
          have hG : KeepsId (settleE d.st.now d.st.closeFails ∘ startPost true Kind.call) :=
            keepsId_comp (keepsId_startPost _ _) (keepsId_settleE _ _)
          have hsettle := settle_lift hs.inv hst (i := i) (keepsId_startPost true Kind.call) (fun e he _ => hs.settleE_id _ _ rfl e he)
          have hGe : (settleE d.st.now d.st.closeFails ∘ startPost true Kind.call) e = pendE e := by
            show settleE _ _ (startPost true Kind.call e) = _
            rw [pend_eq hc]; exact settleE_of_eok _ hke
          have hinv2 : Inv { d.st with tbl := d.st.tbl.map (lift i (settleE d.st.now d.st.closeFails ∘ startPost true Kind.call)) } := by
            rw [← hsettle]; exact settle_inv (step_inv hs.inv hstep)
          have hmo : modelOp d (.post ref u .slow) = some { st := { d.st with tbl := d.st.tbl.map (lift i (startPost true Kind.call)) }, status := .pending, hdr := none, hang := false, done := [], log := [⟨sname i, .tok u, .toolsCall⟩], pend := d.pend ++ [Pend.mk (.p (d.nslow + 1)) (.slow (some i) (d.nslow + 1))], nslow := d.nslow + 1, nasync := d.nasync, released := d.released } := by
            simp only [modelOp, hsid, Option.isNone_some, Bool.false_and, Bool.false_eq_true, if_false, hstep, hst, Option.getD_some, hpd']
            rfl
          have hba : bookAnswer cfg (effFaults cfg m) m.now (tagOf m (.post ref u .slow)) m.tbl m.pend (.post ref u .slow) .pending =
              (monUpd m.tbl (sname i) mPend, (d.pend ++ [Pend.mk (.p (d.nslow + 1)) (.slow (some i) (d.nslow + 1))]).filterMap pendOf) := by
            simp [bookAnswer, hs.stateful, hname, ha, hlv, hent, St.accepted2xx, tagOf, hs.nslow, hs.pend, pendOf]
            rfl
          have hnsP : ∀ j, nsOf (d.pend ++ [Pend.mk (.p (d.nslow + 1)) (.slow (some i) (d.nslow + 1))]) j = nsOf d.pend j + (if j = i then 1 else 0) ∧
              nrOf (d.pend ++ [Pend.mk (.p (d.nslow + 1)) (.slow (some i) (d.nslow + 1))]) j = nrOf d.pend j := by
            intro j
            refine ⟨?_, nrOf_append_other _ _ _ rfl⟩
            simp only [nsOf, List.filter_append, List.length_append]
            by_cases hji : j = i
            · simp [isSlowOf, hji]
            · have : (i == j) = false := by simp; exact fun h => hji h.symm
              simp [isSlowOf, hji, this]
          apply sim_one_op (st2 := { d.st with tbl := d.st.tbl.map (lift i (settleE d.st.now d.st.closeFails ∘ startPost true Kind.call)) })
            hs hmo (Or.inr hsettle) rfl hG rfl rfl rfl rfl hinv2 (pendOkW_append_slow hpw hi)
            (tblX := monUpd m.tbl (sname i) mPend)
          · intro j hj; rw [(hnsP j).1, (hnsP j).2, if_neg hj]; exact ⟨rfl, rfl⟩
          · intro p hp j hj hji
            rcases List.mem_append.mp hp with hp | hp
            · exact hs.pok.keep hp
            · simp at hp; subst hp; rfl
          · rw [hba]; show bookDone _ _ _ [] = _; simp [bookSlots, bookDone]
          · rw [hba]
            simp only [bookSlots]
            rw [hs.run, List.filterMap_append]
            simp [runOf]
          · intro j hj; exact monFind_monUpd_ne keepsName_mPend _ (sname_ne hj)
          · rw [monUpd_names keepsName_mPend]; exact hs.mnodup
          · intro x hx
            obtain ⟨b, hb, hxb⟩ := monUpd_mem keepsName_mPend hx
            obtain ⟨j, hj, hn⟩ := hs.minted b hb
            exact ⟨j, hj, by rw [hxb]; exact hn⟩
          · intro e' he' hid'
            rw [htouniq e' he' hid', hGe, (hnsP i).1, (hnsP i).2, if_pos rfl]
            refine ⟨hke, ?_⟩
            unfold RelPreAt
            rw [(pendE_fields e).1, hid, monFind_monUpd_self keepsName_mPend, ha, (hnsP i).1, (hnsP i).2, if_pos rfl]
            simp only [Option.map_some]
            exact rel_pend hrel hr hc
          · rw [hreq]
            exact chkAnswer_admitted hs _ _ (by simp) hi hname hl _ (by simp) (by simp) (by simp [St.accepted2xx])
          · rw [chkLogOp_eq (by intro n f h; cases h), hreq]
            simp [chkLog, St.rejected, hs.stateful, hname, firstSome]
          · simp [chkNoId, hreq]
          · rfl
          · intro h hh; cases hh
          · rfl
          · rfl
          · rw [hcnt]; rfl
          · exact hop
        · -- answered at once
          have hpd' : (kind == .slow && !e.closing && wasInitialized d.st i) = false := by rw [hwas]; simpa using hpd
          have hrun := runHandler_eq (s1 := { d.st with tbl := d.st.tbl.map (lift i (startPost true kind.kind)) }) hst hn1 i kind.kind (!e.closing)
          have hn2 : NodupIds ((d.st.tbl.map (lift i (startPost true kind.kind))).map (lift i (hdK kind.kind (!e.closing)))) :=
            nodupIds_map (keepsId_lift (keepsId_hdK _ _)) hn1
          apply touch true (doL (runHandler { d.st with tbl := d.st.tbl.map (lift i (startPost true kind.kind)) } i kind.kind (!e.closing)) (.postEnd (some i) false))
            (postStatus kind) (postHdr kind ((if kind.kind.isInitialize then some i else none).map sname))
            (postLog (sname i) u kind (!e.closing) false)
          · rw [hrun, doL_postEnd (s := { d.st with tbl := (d.st.tbl.map (lift i (startPost true kind.kind))).map (lift i (hdK kind.kind (!e.closing))) }) hst hn2]
            show ({ d.st with tbl := ((d.st.tbl.map _).map _).map _ } : State) = _
            rw [map_lift_comp (keepsId_startPost _ _), map_lift_comp]
            · simp only [Bool.true_and]
            · exact keepsId_comp (keepsId_startPost _ _) (keepsId_hdK _ _)
          · exact doL_inv (runHandler_inv (step_inv hs.inv hstep) _ _ _) _
          · simp only [modelOp, hsid, Option.isNone_some, Bool.false_and, Bool.false_eq_true, if_false, hstep, hst, Option.getD_some, hpd']
          · cases kind <;> simp [postStatus, St.accepted2xx]
          · cases kind <;> simp [postStatus]
          · cases kind <;> simp [postStatus]
          · cases kind <;> simp [postStatus]
          · unfold chkLog
            have hrj : (postStatus kind).rejected = false := by cases kind <;> rfl
            simp only [hrj, Bool.false_and, Bool.false_eq_true, if_false, hs.stateful, hname]
            cases kind <;> cases e.closing <;> simp [postLog, firstSome]
          · cases kind <;> simp [postHdr, PKind.kind, Kind.isInitialize, isInitKind, postStatus, St.accepted2xx]
  · have hf := findSess_none_of_ge hs.inv hj
    have hl : lookup d.st.tbl j u.user = .error 404 := by simp [lookup, hf, stNotFound, Generated.Sessions.lookupMissing]
    apply fin 404 (Or.inr rfl)
    · simp only [modelOp, hsid, Option.isNone_some, Bool.false_and, Bool.false_eq_true, if_false, step_postBegin_err hst hl]
    · exact chkAnswer_refused hs _ _ (by simp) hname (Or.inl ⟨hj, hnone, rfl⟩)

end Sessions
