import McpModel.Sessions.BridgeTable
import McpModel.Sessions.BridgeEntryRel
/-!
Bridge (E7/C11): list-level assembly — how the simulation relation is re-established after an operation
that moves one entry of the table, and what the monitor's bookkeeping does to its tag tables.
-/
namespace Sessions

/-! ### the model side -/

theorem map_lift_comp {i : Nat} {g₁ g₂ : Sess → Sess} (h₁ : KeepsId g₁) (t : List Sess) :
    (t.map (lift i g₁)).map (lift i g₂) = t.map (lift i (g₂ ∘ g₁)) := by
  rw [List.map_map]
  apply List.map_congr_left
  intro e _
  exact lift_lift h₁ e

/-- settling after one entry has moved, the others being settled already -/
theorem settle_lift {s : State} (hi : Inv s) (hst : s.cfg.stateless = false) {i : Nat} {g : Sess → Sess} (hg : KeepsId g)
    (hset : ∀ e ∈ s.tbl, e.id ≠ i → settleE s.now s.closeFails e = e) :
    settle { s with tbl := s.tbl.map (lift i g) } =
      { s with tbl := s.tbl.map (lift i (settleE s.now s.closeFails ∘ g)) } := by
  rw [settle_eq (s := { s with tbl := s.tbl.map (lift i g) }) hst (nodupIds_map (keepsId_lift hg) (inv_nodupIds hi))]
  show ({ s with tbl := (s.tbl.map (lift i g)).map (settleE s.now s.closeFails) } : State) = _
  congr 1
  rw [List.map_map]
  apply List.map_congr_left
  intro e he
  simp only [Function.comp, lift]
  split
  · rfl
  · rename_i hne; exact hset e he hne

theorem settle_settled {s : State} (hi : Inv s) (hst : s.cfg.stateless = false)
    (hset : ∀ e ∈ s.tbl, settleE s.now s.closeFails e = e) : settle s = s := by
  rw [settle_eq hst (inv_nodupIds hi)]
  have : s.tbl.map (settleE s.now s.closeFails) = s.tbl := by
    conv => rhs; rw [← List.map_id s.tbl]
    apply List.map_congr_left
    intro e he; simp [hset e he]
  rw [this]

theorem Sim.settleE_id {cfg : Cfg} {d : RState} {m : Mon} (hs : Sim cfg d m) (now' : Nat) (cf : Bool)
    (hnow : now' = d.st.now) : ∀ e ∈ d.st.tbl, settleE now' cf e = e := by
  intro e he; subst hnow; exact settleE_of_eok cf (hs.eok e he)

theorem Sim.stateful_st {cfg : Cfg} {d : RState} {m : Mon} (hs : Sim cfg d m) : d.st.cfg.stateless = false := by
  rw [hs.cfg_eq]; exact hs.stateful

theorem Sim.settle {cfg : Cfg} {d : RState} {m : Mon} (hs : Sim cfg d m) : settle d.st = d.st :=
  settle_settled hs.inv hs.stateful_st (hs.settleE_id _ _ rfl)

theorem Sim.good {cfg : Cfg} {d : RState} {m : Mon} (hs : Sim cfg d m) {e : Sess} (he : e ∈ d.st.tbl) :
    Good cfg d.st.now e := by
  have := hs.inv.good e he; rw [hs.cfg_eq] at this; exact this

theorem PendOk.completions {d : RState} (h : PendOk d) : completions d.st d.pend = ([], d.pend) := by
  rw [completions_eq]
  have h1 : d.pend.filterMap (doneOf d.st) = [] := by
    apply List.filterMap_eq_nil_iff.mpr
    intro p hp
    have := h.shape p hp
    unfold doneOf
    cases hk : p.kind with
    | slow a b => rfl
    | run a b => rfl
    | upl a b c => rfl
    | del i f => rw [hk] at this; simp [this.2]
    | cls i => rw [hk] at this; simp [this.2]
  have h2 : d.pend.filter (keepOf d.st) = d.pend := by
    apply List.filter_eq_self.mpr
    intro p hp
    have := h.shape p hp
    unfold keepOf
    cases hk : p.kind with
    | slow a b => rfl
    | run a b => rfl
    | upl a b c => rfl
    | del i f => rw [hk] at this; simp [this.2]
    | cls i => rw [hk] at this; simp [this.2]
  rw [h1, h2]

/-! ### the monitor's table, member-wise -/

theorem Sim.entry_of_mem {cfg : Cfg} {d : RState} {m : Mon} (hs : Sim cfg d m) {a : MSess} (ha : a ∈ m.tbl) :
    ∃ e ∈ d.st.tbl, a.name = sname e.id ∧ monFind m.tbl (sname e.id) = some a ∧
      ERel cfg (nsOf d.pend e.id) (nrOf d.pend e.id) e a := by
  obtain ⟨i, hi, hname⟩ := hs.minted a ha
  obtain ⟨e, hfe⟩ := findSess_of_lt hs.inv hi
  have hmem := (findSess_some hfe).1
  have hid := (findSess_some hfe).2
  have hfa : monFind m.tbl (sname e.id) = some a := by
    rw [hid, ← hname]; exact monFind_of_mem hs.mnodup ha
  have hrel := hs.rel e hmem
  unfold RelAt at hrel
  rw [hfa] at hrel
  exact ⟨e, hmem, by rw [hid]; exact hname, hfa, hrel⟩

/-- between ticks no abstract session is due -/
theorem Sim.expire_id {cfg : Cfg} {d : RState} {m : Mon} (hs : Sim cfg d m) :
    m.tbl.map (expire cfg m.now) = m.tbl := by
  conv => rhs; rw [← List.map_id m.tbl]
  apply List.map_congr_left
  intro a ha
  obtain ⟨e, he, _, _, hrel⟩ := hs.entry_of_mem ha
  have hk := hs.eok e he
  simp only [id]
  by_cases hl : a.life = .live
  · unfold expire
    by_cases hp : a.posts = 0
    · by_cases hT : cfg.timeout = 0
      · simp [hT]
      · have hnu : nsOf d.pend e.id = 0 ∧ e.upl = 0 := by have := (hrel.cnt hl).1; omega
        have hid := hrel.idle hl hnu.1 hnu.2 hT
        have := hk.notDue _ hid
        rw [hs.now]
        have h4 : decide (a.idleSince + cfg.timeout ≤ d.st.now) = false := by simp; omega
        simp [h4]
    · have : (a.posts == 0) = false := by simp [hp]
      simp [this]
  · exact expire_nonlive hl

/-! ### names of references -/

/-- a reference either names a minted session `i` (then the harness calls it `sname i`), or an id that
neither the model nor the monitor knows -/
theorem ref_cases {cfg : Cfg} {d : RState} {m : Mon} (hs : Sim cfg d m) (ref : Ref) :
    (ref = .absent ∧ ref.sid d.st.next = none ∧ ref.name = none) ∨
    (∃ i, i < d.st.next ∧ ref.sid d.st.next = some i ∧ ref.name = some (sname i)) ∨
    (∃ j n, ref.sid d.st.next = some j ∧ d.st.next ≤ j ∧ ref.name = some n ∧ monFind m.tbl n = none) := by
  cases ref with
  | absent => left; exact ⟨rfl, rfl, rfl⟩
  | s k =>
    by_cases hk : 1 ≤ k ∧ k - 1 < d.st.next
    · right; left
      refine ⟨k - 1, hk.2, by simp [Ref.sid, hk], ?_⟩
      simp only [Ref.name, sname]
      congr 2; omega
    · right; right
      refine ⟨d.st.next + k, .s k, by simp [Ref.sid, hk], by omega, rfl, ?_⟩
      cases hf : monFind m.tbl (.s k) with
      | none => rfl
      | some a =>
        exfalso
        have hn := monFind_name hf
        obtain ⟨i, hi, hname⟩ := hs.minted a hn.2
        rw [hn.1] at hname
        simp only [sname, Name.s.injEq] at hname
        apply hk; omega
  | x n =>
    right; right
    refine ⟨d.st.next + n, .x n, rfl, by omega, rfl, ?_⟩
    cases hf : monFind m.tbl (.x n) with
    | none => rfl
    | some a =>
      exfalso
      have hn := monFind_name hf
      obtain ⟨i, hi, hname⟩ := hs.minted a hn.2
      rw [hn.1] at hname
      simp [sname] at hname

/-! ### re-establishing the relation -/

theorem sim_finish {cfg : Cfg} {d' : RState} {m' : Mon} {tbl2 : List MSess}
    (hpre : TblPre cfg d'.st d'.pend tbl2)
    (heok : ∀ e ∈ d'.st.tbl, EOk cfg d'.st.now (nsOf d'.pend e.id) (nrOf d'.pend e.id) e)
    (hcfg : d'.st.cfg = cfg) (hsf : cfg.stateless = false)
    (htbl : m'.tbl = reapDying ((showMap d'.st).map (·.name)) tbl2) (hnow : m'.now = d'.st.now)
    (hf : m'.faults = d'.st.faults) (hns : m'.nslow = d'.nslow) (hna : m'.nasync = d'.nasync)
    (hp : m'.pend = d'.pend.filterMap pendOf) (hr : m'.run = d'.pend.filterMap runOf) (hpok : PendOk d') :
    Sim cfg d' m' := by
  have htc := table_checks hpre hsf 0 none .ok none
  refine ⟨hcfg, hpre.inv, hsf, hnow, hf, hns, hna, ?_, ?_, heok, ?_, hp, hr, hpok⟩
  · rw [htbl]; exact reapDying_nodup hpre.mnodup
  · intro a ha
    rw [htbl] at ha
    obtain ⟨b, hb, hab⟩ := reapDying_mem ha
    obtain ⟨i, hi, hn⟩ := hpre.minted b hb
    exact ⟨i, hi, by rw [hab]; exact hn⟩
  · intro e he
    rw [htbl]; exact htc.2.2.2.2 e he

/-- One entry of the model's table moves (`G`), the monitor's table changes at that session's name only. -/
theorem tblpre_one {cfg : Cfg} {d : RState} {m : Mon} (hs : Sim cfg d m) {st' : State} {i : Nat} {G : Sess → Sess}
    {pend' : List Pend} {tbl2 : List MSess}
    (htbl : st'.tbl = d.st.tbl.map (lift i G)) (hG : KeepsId G) (hcfg : st'.cfg = cfg) (hnext : st'.next = d.st.next)
    (hnow : st'.now = d.st.now) (hinv : Inv st')
    (hcnt : ∀ j, j ≠ i → nsOf pend' j = nsOf d.pend j ∧ nrOf pend' j = nrOf d.pend j)
    (hmon : ∀ j, j ≠ i → monFind tbl2 (sname j) = monFind m.tbl (sname j))
    (htarget : ∀ e ∈ d.st.tbl, e.id = i →
      EOk cfg d.st.now (nsOf pend' i) (nrOf pend' i) (G e) ∧ RelPreAt cfg pend' tbl2 (G e))
    (hnodup : (tbl2.map (·.name)).Nodup) (hminted : ∀ a ∈ tbl2, ∃ j, j < d.st.next ∧ a.name = sname j) :
    TblPre cfg st' pend' tbl2 ∧
    ∀ e' ∈ st'.tbl, EOk cfg st'.now (nsOf pend' e'.id) (nrOf pend' e'.id) e' := by
  have hmem : ∀ e' ∈ st'.tbl, ∃ e ∈ d.st.tbl, e' = lift i G e := by
    intro e' he'; rw [htbl] at he'
    obtain ⟨e, he, rfl⟩ := List.mem_map.mp he'
    exact ⟨e, he, rfl⟩
  have hboth : ∀ e' ∈ st'.tbl, EOk cfg st'.now (nsOf pend' e'.id) (nrOf pend' e'.id) e' ∧ RelPreAt cfg pend' tbl2 e' := by
    intro e' he'
    obtain ⟨e, he, rfl⟩ := hmem e' he'
    rw [hnow]
    unfold lift
    by_cases hid : e.id = i
    · rw [if_pos hid, hG e, hid]
      exact htarget e he hid
    · rw [if_neg hid]
      have hc := hcnt e.id hid
      refine ⟨by rw [hc.1, hc.2]; exact hs.eok e he, ?_⟩
      have hrel := hs.rel e he
      unfold RelAt at hrel
      unfold RelPreAt
      rw [hmon e.id hid, hc.1, hc.2]
      cases hf : monFind m.tbl (sname e.id) with
      | none => rw [hf] at hrel; exact hrel
      | some a => rw [hf] at hrel; exact hrel.toERelPre
  refine ⟨⟨hinv, by rw [hcfg]; exact hs.stateful, ?_, hnodup, ?_, fun e' he' => (hboth e' he').2⟩,
    fun e' he' => (hboth e' he').1⟩
  · intro e' he'; exact (hboth e' he').1.inMap
  · intro a ha; rw [hnext]; exact hminted a ha

/-! ### the monitor's tables under `monUpd` -/

theorem monUpd_names {f : MSess → MSess} (h : KeepsName f) (t : List MSess) (n : Name) :
    (monUpd t n f).map (·.name) = t.map (·.name) := by
  rw [monUpd_eq_map]
  apply map_names_keeps
  intro a
  show (if (a.name == n) = true then f a else a).name = a.name
  split
  · exact h a
  · rfl

theorem monUpd_mem {f : MSess → MSess} (h : KeepsName f) {t : List MSess} {n : Name} {a : MSess}
    (ha : a ∈ monUpd t n f) : ∃ b ∈ t, a.name = b.name := by
  rw [monUpd_eq_map] at ha
  obtain ⟨b, hb, rfl⟩ := List.mem_map.mp ha
  refine ⟨b, hb, ?_⟩
  show (if (b.name == n) = true then f b else b).name = b.name
  split
  · exact h b
  · rfl

theorem monFind_monUpd_ne {f : MSess → MSess} (h : KeepsName f) (t : List MSess) {n n' : Name} (hne : n' ≠ n) :
    monFind (monUpd t n f) n' = monFind t n' := by
  rw [monFind_monUpd h]
  cases monFind t n' <;> simp [hne]

theorem monFind_monUpd_self {f : MSess → MSess} (h : KeepsName f) (t : List MSess) (n : Name) :
    monFind (monUpd t n f) n = (monFind t n).map f := by
  rw [monFind_monUpd h]
  cases monFind t n <;> simp

theorem sname_ne {i j : Nat} (h : j ≠ i) : sname j ≠ sname i := fun hh => h (sname_inj hh)

end Sessions
