import McpModel.Sessions.BridgeOne
import McpModel.Sessions.BridgeOps1
/-!
Bridge (E7/C11): DELETE and server-side close.
-/
namespace Sessions

theorem step_delete_ok {s : State} (hst : s.cfg.stateless = false) (hn : NodupIds s.tbl) {i : Nat} {u : User} {e : Sess}
    (hl : lookup s.tbl i u = .ok e) :
    step s (.delete (some i) u) = some ({ s with tbl := s.tbl.map (lift i (tryF closeF)) }, .closeAccepted) := by
  have h := modify_getD (i := i) (f := closeF) hn
  simp only [step, hst, stepStateful, hl, Bool.false_eq_true, if_false]
  cases hm : modify i closeF s.tbl with
  | none => rw [hm] at h; simp at h; simp [← h]
  | some t => rw [hm] at h; simp at h; simp [h]

theorem PendOk.keep {d : RState} (h : PendOk d) {p : Pend} (hp : p ∈ d.pend) : keepOf d.st p = true := by
  have := h.shape p hp
  unfold keepOf
  cases hk : p.kind with
  | slow a b => rfl
  | run a b => rfl
  | upl a b c => rfl
  | del i f => rw [hk] at this; exact this.2
  | cls i => rw [hk] at this; exact this.2

/-- appending a request that is neither a parked POST nor a running handler leaves the counts alone -/
theorem nsOf_append_other (P : List Pend) (p : Pend) (j : Nat) (h : isSlowOf j p = false) : nsOf (P ++ [p]) j = nsOf P j := by
  simp [nsOf, List.filter_append, h]

theorem nrOf_append_other (P : List Pend) (p : Pend) (j : Nat) (h : isRunOf j p = false) : nrOf (P ++ [p]) j = nrOf P j := by
  simp [nrOf, List.filter_append, h]

theorem pendOkW_append_close {P : List Pend} {ns na : Nat} {rel : List Nat} {next : Nat} (h : PendOkW P ns na rel next)
    (p : Pend) {i : Nat} (hi : i < next) (hk : (∃ f, p.kind = .del i f ∧ p.tag = .d (na + 1)) ∨ (p.kind = .cls i ∧ p.tag = .c (na + 1))) :
    PendOkW (P ++ [p]) ns (na + 1) rel next := by
  have hfresh : ∀ q ∈ P, q.tag ≠ p.tag := by
    intro q hq hqt
    have := h.shape q hq
    rcases hk with ⟨f, hk1, hk2⟩ | ⟨hk1, hk2⟩ <;> rw [hk2] at hqt <;> cases hqk : q.kind <;> rw [hqk] at this <;>
      first
      | (rw [this.1] at hqt; cases hqt)
      | (obtain ⟨n, hn, hle⟩ := this; rw [hn] at hqt; cases hqt <;> omega)
  have hslot : slotOf p = none := by
    unfold slotOf
    rcases hk with ⟨f, hk1, _⟩ | ⟨hk1, _⟩ <;> rw [hk1]
  refine ⟨?_, ?_, ?_, ?_, ?_, h.relLe⟩
  · rw [List.map_append, List.nodup_append]
    refine ⟨h.tags, by simp, ?_⟩
    intro a ha b hb hab
    simp at hb; subst hb
    obtain ⟨q, hq, rfl⟩ := List.mem_map.mp ha
    exact hfresh q hq hab
  · rw [List.filterMap_append]; simp [hslot]; exact h.slots
  · intro q hq
    rcases List.mem_append.mp hq with hq | hq
    · have := h.shape q hq
      cases hqk : q.kind with
      | slow a b => rw [hqk] at this; exact this
      | run a b => rw [hqk] at this; exact this
      | upl a b c => rw [hqk] at this; exact ⟨this.1, by have := this.2; omega⟩
      | del j f => rw [hqk] at this; obtain ⟨n, hn, hle⟩ := this; exact ⟨n, hn, by omega⟩
      | cls j => rw [hqk] at this; obtain ⟨n, hn, hle⟩ := this; exact ⟨n, hn, by omega⟩
    · simp at hq; subst hq
      rcases hk with ⟨f, hk1, hk2⟩ | ⟨hk1, hk2⟩
      · rw [hk1]; exact ⟨na + 1, hk2, Nat.le_refl _⟩
      · rw [hk1]; exact ⟨na + 1, hk2, Nat.le_refl _⟩
  · intro q hq j hj
    rcases List.mem_append.mp hq with hq | hq
    · exact h.minted q hq j hj
    · simp at hq; subst hq
      unfold sidOf at hj
      rcases hk with ⟨f, hk1, _⟩ | ⟨hk1, _⟩ <;> rw [hk1] at hj <;> simp at hj <;> omega
  · intro q hq
    rcases List.mem_append.mp hq with hq | hq
    · exact h.sids q hq
    · simp at hq; subst hq
      unfold sidOf
      rcases hk with ⟨f, hk1, _⟩ | ⟨hk1, _⟩ <;> rw [hk1] <;> rfl

theorem pendOkW_counters {P : List Pend} {ns na : Nat} {rel : List Nat} {next : Nat} (h : PendOkW P ns na rel next)
    {ns' na' : Nat} (h1 : ns ≤ ns') (h2 : na ≤ na') : PendOkW P ns' na' rel next := by
  refine ⟨h.tags, h.slots, ?_, h.minted, h.sids, fun k hk => Nat.le_trans (h.relLe k hk) h1⟩
  intro p hp
  have := h.shape p hp
  cases hk : p.kind with
  | slow a b => rw [hk] at this; exact ⟨this.1, this.2.1, Nat.le_trans this.2.2.1 h1, this.2.2.2⟩
  | run a b => rw [hk] at this; exact ⟨this.1, this.2.1, Nat.le_trans this.2.2.1 h1, this.2.2.2⟩
  | upl a b c => rw [hk] at this; exact ⟨this.1, Nat.le_trans this.2 h2⟩
  | del i f => rw [hk] at this; obtain ⟨n, hn, hle⟩ := this; exact ⟨n, hn, Nat.le_trans hle h2⟩
  | cls i => rw [hk] at this; obtain ⟨n, hn, hle⟩ := this; exact ⟨n, hn, Nat.le_trans hle h2⟩

theorem bookAnswer_delete_quiet (cfg : Cfg) (fl : Faults) (now : Nat) (tag : Tag) (tbl : List MSess)
    (pend : List (Tag × Name)) (ref : Ref) (u : UserTok) {c : Nat} (hc : c ≠ 204) :
    bookAnswer cfg fl now tag tbl pend (.delete ref u) (.code c) = (tbl, pend) := by
  simp only [bookAnswer]
  split
  · rfl
  · cases ref.name with
    | none => rfl
    | some n => simp [hc]

/-- the model's entry `i` after a close has begun and the table has settled -/
theorem closeG_facts {cfg : Cfg} {now ns nr : Nat} {cf : Bool} {e : Sess} (hk : EOk cfg now ns nr e) (hr : e.removed = false) :
    let e' := (settleE now cf ∘ tryF closeF) e
    e' = settleE now cf (closeE e) ∧ EOk cfg now ns nr e' ∧ e'.removed = decide (ns + nr = 0) ∧ e'.id = e.id ∧
    e'.owner = e.owner ∧ (e'.removed = false → e'.closing = true) := by
  intro e'
  have h1 : e' = settleE now cf (closeE e) := by show settleE now cf (tryF closeF e) = _; rw [close_eq hr]
  have hq := eokq_close hk
  have hf := settleE_removed (now := now) (cf := cf) hq.notDue (show (closeE e).removed = false from hr)
  refine ⟨h1, by rw [h1]; exact eok_settle cf hq, ?_, by rw [h1, hf.2.2.1]; rfl, by rw [h1, hf.2.2.2.1]; rfl, ?_⟩
  · rw [h1, hf.1]
    simp only [closeE, hk.busy, hk.initBusy]
    by_cases h1 : ns = 0 <;> by_cases h2 : nr = 0 <;> simp [h1, h2]
  · intro _; rw [h1, hf.2.1]; rfl

theorem sim_delete {cfg : Cfg} {d d' : RState} {m : Mon} {o : Obs} (hs : Sim cfg d m) (ref : Ref) (u : UserTok)
    (hop : replayOp d (.delete ref u) = some (d', o)) :
    (monStep cfg m (.delete ref u) o).viol = none ∧ Sim cfg d' (monStep cfg m (.delete ref u) o).mon := by
  have hst := hs.stateful_st
  have hcnt : ∀ st, countersAfter m (.delete ref u) st = (d.nslow, d.nasync + 1) := by
    intro st; simp [countersAfter, hs.nslow, hs.nasync]
  have hreq : (Op.delete ref u).req = some { verb := .delete, ref := ref, user := u } := rfl
  have fin : ∀ (c : Nat), c ≠ 204 →
      modelOp d (.delete ref u) = some { st := d.st, status := .code c, pend := d.pend, nslow := d.nslow, nasync := d.nasync + 1, released := d.released } →
      chkAnswer cfg (effFaults cfg m) m.tbl { verb := .delete, ref := ref, user := u } (.code c) = none →
      (monStep cfg m (.delete ref u) o).viol = none ∧ Sim cfg d' (monStep cfg m (.delete ref u) o).mon := by
    intro c hc hmo hans
    exact sim_quiet_op hs hmo rfl rfl rfl rfl rfl rfl (hcnt _) (by rw [hreq]; exact hans)
      (bookAnswer_delete_quiet _ _ _ _ _ _ _ _ hc) rfl rfl rfl
      (by simp [chkNoId, hreq]) (Nat.le_refl _) (Nat.le_succ _) hop
  rcases ref_cases hs ref with ⟨hr, hsid, hname⟩ | ⟨i, hi, hsid, hname⟩ | ⟨j, n, hsid, hj, hname, hnone⟩
  · apply fin 400 (by decide)
    · simp [modelOp, hsid, step, hst, stepStateful, stMissingIdDelete, Generated.Sessions.serveStatefulDELETEMissingID]
    · simp [chkAnswer, hs.stateful, hname]
  · cases hl : lookup d.st.tbl i u.user with
    | error c =>
      have hlm := lookup_mon hs hi u
      rw [hl] at hlm
      have hc : c ≠ 204 := by rcases hlm with ⟨h, _⟩ | ⟨h, _⟩ <;> omega
      apply fin c hc
      · simp [modelOp, hsid, step, hst, stepStateful, hl]
      · exact chkAnswer_refused hs _ _ (by simp) hname (Or.inr ⟨hi, rfl, hl⟩)
    | ok e =>
      have hlm := lookup_mon hs hi u
      rw [hl] at hlm
      obtain ⟨hfe, hr, a, ha, hnd, hent, hrel⟩ := hlm
      have hmem := (findSess_some hfe).1
      have hid := (findSess_some hfe).2
      have hk := hs.eok e hmem
      rw [hid] at hk
      have hnid := inv_nodupIds hs.inv
      have hstep := step_delete_ok hst hnid hl
      have hG : KeepsId (settleE d.st.now d.st.closeFails ∘ tryF closeF) := keepsId_comp keepsId_close (keepsId_settleE _ _)
      have hsettle := settle_lift hs.inv hst (i := i) keepsId_close (fun e he _ => hs.settleE_id _ _ rfl e he)
      obtain ⟨g1, g2, g3, g4, g5, g6⟩ := closeG_facts (cf := d.st.closeFails) hk hr
      have hinv2 : Inv { d.st with tbl := d.st.tbl.map (lift i (settleE d.st.now d.st.closeFails ∘ tryF closeF)) } := by
        rw [← hsettle]; exact settle_inv (step_inv hs.inv hstep)
      have hf2 : findSess i (d.st.tbl.map (lift i (settleE d.st.now d.st.closeFails ∘ tryF closeF))) =
          some ((settleE d.st.now d.st.closeFails ∘ tryF closeF) e) := by
        rw [findSess_map_lift hG, if_pos rfl, hfe]; rfl
      have hlive2 : isLive { d.st with tbl := d.st.tbl.map (lift i (settleE d.st.now d.st.closeFails ∘ tryF closeF)) } i =
          !decide (nsOf d.pend i + nrOf d.pend i = 0) := by
        rw [isLive_eq hf2, g3]
      have htouniq : ∀ e' ∈ d.st.tbl, e'.id = i → e' = e := fun e' he' hid' => entry_unique hs.inv he' hmem (by rw [hid', hid])
      by_cases hbz : nsOf d.pend i + nrOf d.pend i = 0
      · -- the close completes at once: 204
        have hnc : e.closing = false := by
          cases hc : e.closing with
          | false => rfl
          | true => exact absurd hbz (hk.quiet hc hr)
        have hlv := hrel.life_live hr hnc
        have hmo : modelOp d (.delete ref u) = some { st := { d.st with tbl := d.st.tbl.map (lift i (settleE d.st.now d.st.closeFails ∘ tryF closeF)) }, status := .code 204, hdr := none, hang := false, done := [], log := [], pend := d.pend, nslow := d.nslow, nasync := d.nasync + 1, released := d.released } := by
          simp only [modelOp, hsid, hstep, Option.getD_some, hsettle, hlive2, hbz]
          simp [stDeleted, Generated.Sessions.deleteOK]
        have hba : bookAnswer cfg (effFaults cfg m) m.now (tagOf m (.delete ref u)) m.tbl m.pend (.delete ref u) (.code 204) =
            (monUpd m.tbl (sname i) mDead, m.pend) := by
          simp [bookAnswer, hs.stateful, hname, ha, hlv, hent]; rfl
        apply sim_one_op hs hmo (Or.inl rfl) rfl hG rfl rfl rfl rfl hinv2 (pendOkW_counters hs.pok.weak (Nat.le_refl _) (Nat.le_succ _))
          (fun j _ => ⟨rfl, rfl⟩) (fun p hp j _ _ => hs.pok.keep hp)
          (tblX := monUpd m.tbl (sname i) mDead)
        · rw [hba]; show bookDone _ _ _ [] = _; simp [bookSlots, bookDone, hs.pend]
        · rw [hba]; simp [bookSlots, hs.run]
        · intro j hj; exact monFind_monUpd_ne keepsName_mDead _ (sname_ne hj)
        · rw [monUpd_names keepsName_mDead]; exact hs.mnodup
        · intro x hx
          obtain ⟨b, hb, hxb⟩ := monUpd_mem keepsName_mDead hx
          obtain ⟨j, hj, hn⟩ := hs.minted b hb
          exact ⟨j, hj, by rw [hxb]; exact hn⟩
        · intro e' he' hid'
          rw [htouniq e' he' hid']
          refine ⟨g2, ?_⟩
          unfold RelPreAt
          rw [g4, hid, monFind_monUpd_self keepsName_mDead, ha]
          simp only [Option.map_some]
          apply rel_nonlive
          · rw [g5]; exact hrel.owner
          · simp [mDead]
          · intro _; rw [g3]; simp [hbz]
          · left; rw [g3]; simp [hbz]
        · rw [hreq]
          exact chkAnswer_admitted hs _ _ (by simp) hi hname hl _ (by simp) (by simp) (by simp [St.accepted2xx])
        · exact chkLogOp_nil _ _ _ _
        · simp [chkNoId, hreq]
        · rfl
        · intro h hh; cases hh
        · rfl
        · rfl
        · exact hcnt _
        · exact hop
      · -- handlers are still running: the DELETE waits
        have hmo : modelOp d (.delete ref u) = some { st := { d.st with tbl := d.st.tbl.map (lift i (settleE d.st.now d.st.closeFails ∘ tryF closeF)) }, status := .pending, hdr := none, hang := false, done := [], log := [], pend := d.pend ++ [(Pend.mk (Tag.d (d.nasync + 1)) (PendKind.del i (!e.closing)))], nslow := d.nslow, nasync := d.nasync + 1, released := d.released } := by
          simp only [modelOp, hsid, hstep, Option.getD_some, hsettle, hlive2, hbz, hfe]
          simp
        have hba : bookAnswer cfg (effFaults cfg m) m.now (tagOf m (.delete ref u)) m.tbl m.pend (.delete ref u) .pending =
            (monUpd m.tbl (sname i) (fun a => if a.life = .live then mDying a else a),
             (d.pend ++ [(Pend.mk (Tag.d (d.nasync + 1)) (PendKind.del i (!e.closing)))]).filterMap pendOf) := by
          cases hc : e.closing with
          | false =>
            have hlv := hrel.life_live hr hc
            simp [bookAnswer, hs.stateful, hname, ha, hlv, hent, tagOf, hs.nasync, hs.pend, pendOf]
            simp only [monUpd_eq_map]
            apply List.map_congr_left
            intro x hx
            by_cases hxn : x.name = sname i
            · have : x = a := by
                have := monFind_of_mem hs.mnodup hx
                rw [hxn, ha] at this; cases this; rfl
              subst this; simp [hxn, hlv, mDying]
            · simp [hxn]
          | true =>
            have hlv := hrel.life_dying hr hc
            simp [bookAnswer, hs.stateful, hname, ha, hlv, hent, hs.pend, pendOf]
            simp only [monUpd_eq_map]
            symm
            conv => rhs; rw [← List.map_id m.tbl]
            apply List.map_congr_left
            intro x hx
            by_cases hxn : x.name = sname i
            · have : x = a := by
                have := monFind_of_mem hs.mnodup hx
                rw [hxn, ha] at this; cases this; rfl
              subst this; simp [hxn, hlv]
            · simp [hxn]
        have hkn : KeepsName (fun a : MSess => if a.life = .live then mDying a else a) := by
          intro x; show (if x.life = .live then mDying x else x).name = x.name; split <;> rfl
        have hnsP : ∀ j, nsOf (d.pend ++ [(Pend.mk (Tag.d (d.nasync + 1)) (PendKind.del i (!e.closing)))]) j = nsOf d.pend j ∧
            nrOf (d.pend ++ [(Pend.mk (Tag.d (d.nasync + 1)) (PendKind.del i (!e.closing)))]) j = nrOf d.pend j :=
          fun j => ⟨nsOf_append_other _ _ _ rfl, nrOf_append_other _ _ _ rfl⟩
        apply sim_one_op hs hmo (Or.inl rfl) rfl hG rfl rfl rfl rfl hinv2
          (pendOkW_append_close hs.pok.weak (Pend.mk (Tag.d (d.nasync + 1)) (PendKind.del i (!e.closing))) hi (Or.inl ⟨_, rfl, rfl⟩))
          (fun j _ => hnsP j)
          (tblX := monUpd m.tbl (sname i) (fun a => if a.life = .live then mDying a else a))
        · intro p hp j hj hji
          rcases List.mem_append.mp hp with hp | hp
          · exact hs.pok.keep hp
          · simp at hp; subst hp
            simp [sidOf] at hj; exact absurd hj.symm hji
        · rw [hba]; show bookDone _ _ _ [] = _; simp [bookSlots, bookDone]
        · rw [hba]
          simp only [bookSlots]
          rw [hs.run, List.filterMap_append]
          simp [runOf]
        · intro j hj; exact monFind_monUpd_ne hkn _ (sname_ne hj)
        · rw [monUpd_names hkn]; exact hs.mnodup
        · intro x hx
          obtain ⟨b, hb, hxb⟩ := monUpd_mem hkn hx
          obtain ⟨j, hj, hn⟩ := hs.minted b hb
          exact ⟨j, hj, by rw [hxb]; exact hn⟩
        · intro e' he' hid'
          rw [htouniq e' he' hid', (hnsP i).1, (hnsP i).2]
          refine ⟨g2, ?_⟩
          unfold RelPreAt
          rw [g4, hid, monFind_monUpd_self hkn, ha, (hnsP i).1, (hnsP i).2]
          simp only [Option.map_some]
          rw [g1]
          exact relpre_settle _ (rel_closing hrel.toERelPre hr) (eokq_close hk).notDue
        · rw [hreq]
          exact chkAnswer_admitted hs _ _ (by simp) hi hname hl _ (by simp) (by simp) (by simp [St.accepted2xx])
        · exact chkLogOp_nil _ _ _ _
        · simp [chkNoId, hreq]
        · rfl
        · intro h hh; cases hh
        · rfl
        · rfl
        · exact hcnt _
        · exact hop
  · have hf := findSess_none_of_ge hs.inv hj
    have hl : lookup d.st.tbl j u.user = .error 404 := by simp [lookup, hf, stNotFound, Generated.Sessions.lookupMissing]
    apply fin 404 (by decide)
    · simp [modelOp, hsid, step, hst, stepStateful, hl]
    · exact chkAnswer_refused hs _ _ (by simp) hname (Or.inl ⟨hj, hnone, rfl⟩)

end Sessions
