import McpModel.Sessions.BridgeOne
/-!
Bridge (E7/C11): removing one asynchronous request (by its tag) from the harness-side list.
-/
namespace Sessions

/-- with pairwise distinct tags, filtering a tag out removes exactly that request -/
theorem filter_tag_ne {P : List Pend} (hn : (P.map (·.tag)).Nodup) {p : Pend} (hp : p ∈ P) (q : Pend → Bool) :
    ((P.filter (fun x => x.tag != p.tag)).filter q).length + (if q p then 1 else 0) = (P.filter q).length := by
  induction P with
  | nil => cases hp
  | cons x P ih =>
    simp only [List.map_cons, List.nodup_cons] at hn
    cases hp with
    | head =>
      have hrest : P.filter (fun x => x.tag != p.tag) = P := by
        apply List.filter_eq_self.mpr
        intro y hy
        have : y.tag ≠ p.tag := fun h => hn.1 (List.mem_map.mpr ⟨y, hy, h⟩)
        simp [this]
      simp only [List.filter_cons, bne_self_eq_false, Bool.false_eq_true, if_false, hrest]
      split <;> simp
    | tail _ hp' =>
      have hx : x.tag ≠ p.tag := fun h => hn.1 (List.mem_map.mpr ⟨p, hp', h.symm⟩)
      have hx' : (x.tag != p.tag) = true := by simp [hx]
      have := ih hn.2 hp'
      simp only [List.filter_cons, hx', if_true]
      by_cases hqx : q x = true
      · simp only [hqx, if_true, List.length_cons]; omega
      · simp only [hqx, Bool.false_eq_true, if_false]; exact this

theorem nsOf_filter_tag {P : List Pend} (hn : (P.map (·.tag)).Nodup) {p : Pend} (hp : p ∈ P) (j : Nat) :
    nsOf (P.filter (fun x => x.tag != p.tag)) j + (if isSlowOf j p then 1 else 0) = nsOf P j :=
  filter_tag_ne hn hp (isSlowOf j)

theorem nrOf_filter_tag {P : List Pend} (hn : (P.map (·.tag)).Nodup) {p : Pend} (hp : p ∈ P) (j : Nat) :
    nrOf (P.filter (fun x => x.tag != p.tag)) j + (if isRunOf j p then 1 else 0) = nrOf P j :=
  filter_tag_ne hn hp (isRunOf j)

theorem filter_tag_sub (P : List Pend) (t : Tag) : ∀ x ∈ P.filter (fun x => x.tag != t), x ∈ P ∧ x.tag ≠ t := by
  intro x hx
  have := List.mem_filter.mp hx
  exact ⟨this.1, by simpa using this.2⟩

theorem pendOkW_filter {P : List Pend} {ns na : Nat} {rel : List Nat} {next : Nat} (h : PendOkW P ns na rel next)
    (q : Pend → Bool) : PendOkW (P.filter q) ns na rel next := by
  refine ⟨List.Nodup.sublist (filter_map_sublist _ _ _) h.tags,
    List.Nodup.sublist (filter_filterMap_sublist _ _ _) h.slots, ?_, ?_, ?_, h.relLe⟩
  · intro p hp; exact h.shape p (List.mem_filter.mp hp).1
  · intro p hp; exact h.minted p (List.mem_filter.mp hp).1
  · intro p hp; exact h.sids p (List.mem_filter.mp hp).1

/-- releasing slot `k`: the slot joins `released`; legitimate when no remaining request uses it -/
theorem pendOkW_release {P : List Pend} {ns na : Nat} {rel : List Nat} {next : Nat} (h : PendOkW P ns na rel next)
    (k : Nat) (hk : ∀ p ∈ P, slotOf p ≠ some k) (hkle : k ≤ ns) : PendOkW P ns na (rel ++ [k]) next := by
  refine ⟨h.tags, h.slots, ?_, h.minted, h.sids, ?_⟩
  rotate_left
  · intro x hx
    rcases List.mem_append.mp hx with hx | hx
    · exact h.relLe x hx
    · simp at hx; subst hx; exact hkle
  intro p hp
  have := h.shape p hp
  have hs := hk p hp
  cases hkind : p.kind with
  | slow a b =>
    rw [hkind] at this
    refine ⟨this.1, this.2.1, this.2.2.1, ?_⟩
    intro hm
    rcases List.mem_append.mp hm with hm | hm
    · exact this.2.2.2 hm
    · simp at hm; apply hs; simp [slotOf, hkind, hm]
  | run a b =>
    rw [hkind] at this
    refine ⟨this.1, this.2.1, this.2.2.1, ?_⟩
    intro hm
    rcases List.mem_append.mp hm with hm | hm
    · exact this.2.2.2 hm
    · simp at hm; apply hs; simp [slotOf, hkind, hm]
  | del i f => rw [hkind] at this; exact this
  | cls i => rw [hkind] at this; exact this
  | upl a b c => rw [hkind] at this; exact this

/-- requests with the same slot are the same request -/
theorem slot_unique {P : List Pend} (hn : (P.filterMap slotOf).Nodup) {p q : Pend} (hp : p ∈ P) (hq : q ∈ P) {k : Nat}
    (h1 : slotOf p = some k) (h2 : slotOf q = some k) : p = q := by
  induction P with
  | nil => cases hp
  | cons x P ih =>
    cases hp with
    | head =>
      cases hq with
      | head => rfl
      | tail _ hq' =>
        simp only [List.filterMap_cons, h1, List.nodup_cons] at hn
        exact absurd (List.mem_filterMap.mpr ⟨q, hq', h2⟩) hn.1
    | tail _ hp' =>
      cases hq with
      | head =>
        simp only [List.filterMap_cons, h2, List.nodup_cons] at hn
        exact absurd (List.mem_filterMap.mpr ⟨p, hp', h1⟩) hn.1
      | tail _ hq' =>
        apply ih _ hp' hq'
        simp only [List.filterMap_cons] at hn
        cases hx : slotOf x with
        | none => rw [hx] at hn; exact hn
        | some v => rw [hx] at hn; exact (List.nodup_cons.mp hn).2

theorem filterMap_congr' {α β} {f g : α → Option β} {l : List α} (h : ∀ x ∈ l, f x = g x) :
    l.filterMap f = l.filterMap g := by
  induction l with
  | nil => rfl
  | cons a l ih =>
    simp only [List.filterMap_cons, h a List.mem_cons_self]
    rw [ih (fun x hx => h x (List.mem_cons_of_mem _ hx))]

theorem runOf_slot {p : Pend} {x : Nat × Name} (h : runOf p = some x) : slotOf p = some x.1 ∧ ∃ i, p.kind = .run i x.1 ∧ x.2 = sname i := by
  unfold runOf at h
  unfold slotOf
  cases hk : p.kind with
  | run i s => simp [hk] at h; subst h; exact ⟨rfl, i, rfl, rfl⟩
  | slow a b => simp [hk] at h
  | del i f => simp [hk] at h
  | cls i => simp [hk] at h
  | upl a b c => simp [hk] at h

/-- removing a request that is not a running handler leaves the monitor's `run` table alone -/
theorem runOf_filter_tag_other {P : List Pend} (hn : (P.map (·.tag)).Nodup) {p : Pend} (hp : p ∈ P) (hr : runOf p = none) :
    (P.filter (fun x => x.tag != p.tag)).filterMap runOf = P.filterMap runOf := by
  induction P with
  | nil => rfl
  | cons x P ih =>
    simp only [List.map_cons, List.nodup_cons] at hn
    cases hp with
    | head =>
      have hrest : P.filter (fun x => x.tag != p.tag) = P := by
        apply List.filter_eq_self.mpr
        intro y hy
        have : y.tag ≠ p.tag := fun h => hn.1 (List.mem_map.mpr ⟨y, hy, h⟩)
        simp [this]
      simp [List.filter_cons, hrest, hr]
    | tail _ hp' =>
      have hx : x.tag ≠ p.tag := fun h => hn.1 (List.mem_map.mpr ⟨p, hp', h.symm⟩)
      have hx' : (x.tag != p.tag) = true := by simp [hx]
      simp only [List.filter_cons, hx', if_true, List.filterMap_cons, ih hn.2 hp']

/-- removing the running handler of slot `k` = removing slot `k` from the monitor's `run` table -/
theorem runOf_filter_tag_run {P : List Pend} (hn : (P.map (·.tag)).Nodup) (hs : (P.filterMap slotOf).Nodup) {p : Pend}
    (hp : p ∈ P) {k : Nat} (hk : slotOf p = some k) :
    (P.filter (fun x => x.tag != p.tag)).filterMap runOf = (P.filterMap runOf).filter (fun x => x.1 != k) := by
  rw [List.filter_filterMap]
  rw [List.filterMap_filter]
  apply filterMap_congr'
  intro x hx
  by_cases hxp : x = p
  · subst hxp
    simp only [bne_self_eq_false, Bool.false_eq_true, if_false]
    cases hr : runOf x with
    | none => rfl
    | some y =>
      have := (runOf_slot hr).1
      rw [hk] at this; cases this
      simp [Option.filter]
  · have hne : x.tag ≠ p.tag := fun h => hxp (pend_unique hn hx hp h)
    have hne' : (x.tag != p.tag) = true := by simp [hne]
    simp only [hne', if_true]
    cases hr : runOf x with
    | none => rfl
    | some y =>
      have hsl := (runOf_slot hr).1
      have : y.1 ≠ k := by
        intro h
        rw [h] at hsl
        exact hxp (slot_unique hs hx hp hsl hk)
      simp [Option.filter, this]

theorem filterMap_filter_tag_other {β} (f : Pend → Option β) {P : List Pend} (hn : (P.map (·.tag)).Nodup) {p : Pend}
    (hp : p ∈ P) (hf : f p = none) : (P.filter (fun x => x.tag != p.tag)).filterMap f = P.filterMap f := by
  induction P with
  | nil => rfl
  | cons x P ih =>
    simp only [List.map_cons, List.nodup_cons] at hn
    cases hp with
    | head =>
      have hrest : P.filter (fun x => x.tag != p.tag) = P := by
        apply List.filter_eq_self.mpr
        intro y hy
        have : y.tag ≠ p.tag := fun h => hn.1 (List.mem_map.mpr ⟨y, hy, h⟩)
        simp [this]
      simp [List.filter_cons, hrest, hf]
    | tail _ hp' =>
      have hx : x.tag ≠ p.tag := fun h => hn.1 (List.mem_map.mpr ⟨p, hp', h.symm⟩)
      have hx' : (x.tag != p.tag) = true := by simp [hx]
      simp only [List.filter_cons, hx', if_true, List.filterMap_cons, ih hn.2 hp']

theorem find_pendOf {P : List Pend} (hn : (P.map (·.tag)).Nodup) {p : Pend} (hp : p ∈ P) {x : Tag × Name}
    (hx : pendOf p = some x) : (P.filterMap pendOf).find? (·.1 == p.tag) = some x := by
  induction P with
  | nil => cases hp
  | cons y P ih =>
    simp only [List.map_cons, List.nodup_cons] at hn
    cases hp with
    | head => simp [List.filterMap_cons, hx, pendOf_tag hx]
    | tail _ hp' =>
      have hy : y.tag ≠ p.tag := fun h => hn.1 (List.mem_map.mpr ⟨p, hp', h.symm⟩)
      simp only [List.filterMap_cons]
      cases hyo : pendOf y with
      | none => exact ih hn.2 hp'
      | some z =>
        have := pendOf_tag hyo
        simp only [List.find?_cons, this]
        have : (y.tag == p.tag) = false := by simp [hy]
        rw [this]
        exact ih hn.2 hp'

theorem find_pendOf_none {P : List Pend} {t : Tag} (h : ∀ q ∈ P, q.tag ≠ t) : (P.filterMap pendOf).find? (·.1 == t) = none := by
  apply List.find?_eq_none.mpr
  intro x hx
  obtain ⟨q, hq, hqx⟩ := List.mem_filterMap.mp hx
  have := pendOf_tag hqx
  simp [this, h q hq]

theorem find_runOf {P : List Pend} (hs : (P.filterMap slotOf).Nodup) {p : Pend} (hp : p ∈ P) {x : Nat × Name}
    (hx : runOf p = some x) : (P.filterMap runOf).find? (·.1 == x.1) = some x := by
  induction P with
  | nil => cases hp
  | cons y P ih =>
    cases hp with
    | head => simp [List.filterMap_cons, hx]
    | tail _ hp' =>
      simp only [List.filterMap_cons]
      have hs' : (P.filterMap slotOf).Nodup := by
        simp only [List.filterMap_cons] at hs
        cases hy : slotOf y with
        | none => rw [hy] at hs; exact hs
        | some v => rw [hy] at hs; exact (List.nodup_cons.mp hs).2
      cases hyo : runOf y with
      | none => exact ih hs' hp'
      | some z =>
        have hz := (runOf_slot hyo).1
        have hxs := (runOf_slot hx).1
        have : z.1 ≠ x.1 := by
          intro h
          rw [h] at hz
          have := slot_unique hs List.mem_cons_self (List.mem_cons_of_mem _ hp') hz hxs
          subst this
          simp only [List.filterMap_cons, hz, List.nodup_cons] at hs
          exact hs.1 (List.mem_filterMap.mpr ⟨y, hp', hz⟩)
        simp only [List.find?_cons]
        have : (z.1 == x.1) = false := by simp [this]
        rw [this]
        exact ih hs' hp'

theorem find_runOf_none {P : List Pend} {k : Nat} (h : ∀ q ∈ P, ∀ x, runOf q = some x → x.1 ≠ k) :
    (P.filterMap runOf).find? (·.1 == k) = none := by
  apply List.find?_eq_none.mpr
  intro x hx
  obtain ⟨q, hq, hqx⟩ := List.mem_filterMap.mp hx
  simp [h q hq x hqx]

theorem mem_of_find? {α} {q : α → Bool} {l : List α} {a : α} (h : l.find? q = some a) : a ∈ l ∧ q a = true :=
  ⟨List.mem_of_find?_eq_some h, List.find?_some h⟩

end Sessions
