import McpModel.Sessions.Monitor
/-!
E7 — the two configurations of `mcp.StreamableHTTPHandler` in which **no session is ever kept**, apart from
the ordinary stateless endpoint (which is part of Model.lean):

* `legacy` — `StreamableHTTPOptions.Stateless` with the compatibility parameter `MCPGODEBUG
  allowsessionsinstateless=1` (mcp/streamable.go `serveStateless`, the branches under `legacySessions`, and
  `serveStatelessLegacyDELETE`): a POST's temporary session carries the `Mcp-Session-Id` of the request or,
  when the request has none, an id minted by `ServerOptions.GetSessionID` (minted for *every* such POST, named
  in the response to an `initialize` only); DELETE is a no-op that demands an id (204 / 400); GET and any other
  method are answered 405.  The flag deliberately switches the C11 clause "stateless endpoints neither issue
  nor honour session ids" off; what remains of C11 is that nothing is kept (the id addresses nothing after the
  request), that an answer names the session the request named, and that a minted id is fresh.
* `noIds` — a stateful endpoint whose `ServerOptions.GetSessionID` returns `""` (`serveStatefulPOST`, the
  branch `if sessionID == ""`): a POST without a session id is served by a temporary session that is never
  published in `h.sessions` and is closed when the POST ends; no id is ever minted, so every request that
  carries one is answered 404 (GET, POST, DELETE), GET/DELETE without one 400, other methods 405.

Model (`modelOp`), property monitor on the implementation's observation (`judge`), both total and typed;
the theorems are in EphemeralProps.lean.  Core Lean only (linked into the driver).
-/
namespace Sessions.Eph

inductive Mode where
  | legacy | noIds
deriving DecidableEq, Repr

/-- regenerated from `serveStatelessLegacyDELETE` on every run -/
def stLegacyDeleteMissingId : Nat := Generated.Sessions.statelessLegacyDeleteMissingID
def stLegacyDeleteOK : Nat := Generated.Sessions.statelessLegacyDeleteOK

/-- A POST in progress (its handler is blocked in slot `slot`) and the name of its temporary session. -/
structure Slow where
  slot : Nat
  name : Name
deriving DecidableEq, Repr

structure State where
  mode : Mode
  es : Bool := false            -- the handler has an `EventStore`
  next : Nat := 0               -- ids minted so far (`legacy` only)
  nslow : Nat := 0              -- the harness's slot counter
  released : List Nat := []
  slow : List Slow := []        -- temporary sessions in progress, oldest first
  failClosed : Bool := false    -- the store's `SessionClosed` currently fails (`fault c`)
  closing : List Nat := []      -- one entry per server-side `Close()` that waits for the handler in that slot
deriving DecidableEq, Repr

def names (s : State) : List Name := s.slow.map (·.name)

/-- The name of the temporary session that serves a POST (`none`: the reference means nothing here). -/
def tempName (s : State) : Ref → Option Name
  | .absent => match s.mode with
    | .legacy => some (.s (s.next + 1))       -- `server.opts.GetSessionID()`
    | .noIds => some .e                        -- `GetSessionID` returned ""
  | .s k => if 1 ≤ k ∧ k ≤ s.next then some (.s k) else none
  | .x n => some (.x n)

/-- only the answer to an `initialize` carries the header, and only if the session has an id -/
def hdrOf (k : PKind) (nm : Name) : Option Name :=
  match k with
  | .init | .badinit => if nm == .e then none else some nm
  | _ => none

def logOf (nm : Name) (u : UserTok) : PKind → List LogEnt
  | .init => [⟨nm, .tok u, .initialize⟩]
  | .ping => [⟨nm, .tok u, .ping⟩]
  | .notif => [⟨nm, .tok u, .initialized⟩]     -- handled before the POST is acknowledged (`serveEphemeral`)
  | .slow => [⟨nm, .tok u, .toolsCall⟩]
  | .badinit => []

def rejectObs (s : State) (c : Nat) : Obs := { status := .code c, srv := names s }

/-- `streamableServerConn.Close`: the event store (if any) is told that the session is over. -/
def told (s : State) (nm : Name) : List Name := if s.es then [nm] else []

/-- One harness operation. `none`: the operation is not part of these configurations' alphabet. -/
def modelOp (s : State) (op : Op) : Option (State × Obs) :=
  match op with
  | .post ref u k =>
    let s1 := if k == .slow then { s with nslow := s.nslow + 1 } else s
    if s.mode == .noIds && ref != .absent then some (s1, rejectObs s1 stNotFound)    -- `lookupSession`
    else match tempName s ref with
      | none => none
      | some nm =>
        let s2 := if s.mode == .legacy && ref == .absent then { s1 with next := s1.next + 1 } else s1
        match k with
        | .slow =>
          let s3 := { s2 with slow := s2.slow ++ [⟨s2.nslow, nm⟩] }
          some (s3, { status := .pending, srv := names s3, log := logOf nm u k })
        | .notif => some (s2, { status := .code 202, srv := names s2, log := logOf nm u k, closed := told s nm })
        | _ => some (s2, { status := .code 200, hdr := hdrOf k nm, srv := names s2, log := logOf nm u k, closed := told s nm })
  | .release k =>
    if k = 0 || k > s.nslow || s.released.contains k then some (s, { status := .noop, srv := names s })
    else
      let s1 := { s with released := s.released ++ [k] }
      match s.slow.find? (·.slot == k) with
      | some p =>
        let s2 := { s1 with slow := s1.slow.filter (·.slot != k) }
        -- the server-side `Close()` calls that waited for this handler return too (with the store's error, if any)
        let cls := (s.closing.filter (· == k)).map fun _ => ((Tag.c 0, if s.es && s.failClosed then 2 else 1) : Tag × Nat)
        let s3 := { s2 with closing := s2.closing.filter (· != k) }
        some (s3, { status := .ok, done := (.p k, 200) :: cls, srv := names s3, closed := told s p.name })
      | none => some (s1, { status := .ok, srv := names s1 })
  | .get ref _ =>
    match s.mode with
    | .legacy => some (s, rejectObs s stStatelessNotPost)
    | .noIds => some (s, rejectObs s (if ref == .absent then stMissingIdGet else stNotFound))
  | .delete ref _ =>
    match s.mode with
    | .legacy => some (s, rejectObs s (if ref == .absent then stLegacyDeleteMissingId else stLegacyDeleteOK))
    | .noIds => some (s, rejectObs s (if ref == .absent then stMissingIdDelete else stNotFound))
  | .other _ _ =>
    match s.mode with
    | .legacy => some (s, rejectObs s stStatelessNotPost)
    | .noIds => some (s, rejectObs s stOtherMethod)
  | .tick _ => some (s, { status := .ok, srv := names s })
  -- the store's failures (of `SessionClosed`) change nothing here: `serveEphemeral` drops what `Close` returns
  | .fault f => some ({ s with failClosed := f.closed }, { status := if s.es then .ok else .noop, srv := names s })
  -- `ServerSession.Close()` on the temporary session with that id, found through `Server.Sessions()`: it waits for
  -- the running handler; the POST is answered and the store told when the handler returns (`release`)
  | .close ref =>
    match s.mode, ref.name with
    | .legacy, some n =>
      match s.slow.filter (·.name == n) with
      | [] => some (s, { status := .noop, srv := names s })
      | [p] => some ({ s with closing := s.closing ++ [p.slot] }, { status := .pending, srv := names s })
      | _ => none     -- several temporary sessions under one id: which of them `Server.Sessions()` yields last is open
    | _, _ => some (s, { status := .noop, srv := names s })     -- (a session without id cannot be named)
  -- the client of a parked POST goes away: the POST waits in `session.Close()` for its handler — nothing observable
  | .abandon k => some (s, { status := if s.slow.any (·.slot == k) then .ok else .noop, srv := names s })
  | _ => none

/-- The observation trace of the model over an operation list. -/
def modelTraceFrom (s : State) : List Op → List (Op × Obs)
  | [] => []
  | op :: ops =>
    match modelOp s op with
    | some (s', o) => (op, o) :: modelTraceFrom s' ops
    | none => modelTraceFrom s ops

def modelTrace (m : Mode) (es : Bool) (ops : List Op) : List (Op × Obs) := modelTraceFrom { mode := m, es := es } ops

/-! ## the property monitor -/

inductive EClause where
  | methodAnswered (v : Verb) (st : St)     -- GET / other method not answered 405
  | legacyDelete (hasId : Bool) (st : St)   -- legacy DELETE: 204 with an id, 400 without
  | unknownHonoured (v : Verb) (st : St)    -- noIds: a request with a session id not answered 404
  | missingId (v : Verb) (st : St)          -- noIds: GET/DELETE without a session id not answered 400
  | postAnswered (st : St)                  -- a POST that a temporary session must serve was not served
  | issued                                  -- noIds: an `Mcp-Session-Id` on a response
  | hdrNotInitialize                        -- legacy: `Mcp-Session-Id` on the answer to something else than `initialize`
  | hdrDifferent                            -- legacy: the answer names another session than the request
  | hdrReused                               -- legacy: the minted id already named a session
  | keeps                                   -- an entry in `h.sessions`
  | notClosed                               -- more server sessions than POSTs in progress
  | sessionWithId                           -- noIds: a server session / a handler's session with an id
  | rejectedReached                         -- a handler ran for a request that was refused
  | misrouted                               -- legacy: the handler's session is not the one the request named
  | timerLeft                               -- an idle timer although no session is ever kept
  | storeTold (want got : Nat)              -- `SessionClosed` calls ≠ temporary sessions that ended in this operation
deriving DecidableEq, Repr

structure MState where
  mode : Mode
  es : Bool := false    -- the handler has an `EventStore`
  seen : Nat := 0       -- the largest ordinal of a minted id that a response, a handler or the server has shown
  inprog : Nat := 0     -- POSTs answered `pending` whose completion has not been seen
deriving DecidableEq, Repr

def nameOrd : Name → Nat
  | .s k => k
  | _ => 0

def maxOrd (l : List Name) : Nat := l.foldl (fun a n => max a (nameOrd n)) 0

def isInit : PKind → Bool
  | .init | .badinit => true
  | _ => false

/-- Does a temporary session serve this request? -/
def served (m : Mode) (op : Op) : Bool :=
  match op with
  | .post ref _ _ => m == .legacy || ref == .absent
  | _ => false

/-- the answer itself -/
def chkAnswer (m : Mode) (op : Op) (st : St) : Option EClause :=
  match op with
  | .post ref _ _ =>
    if m == .noIds && ref != .absent then (if st == .code stNotFound then none else some (.unknownHonoured .post st))
    else if st == .code 200 || st == .code 202 || st == .pending then none else some (.postAnswered st)
  | .get ref _ =>
    match m with
    | .legacy => if st == .code 405 then none else some (.methodAnswered .get st)
    | .noIds =>
      if ref == .absent then (if st == .code 400 then none else some (.missingId .get st))
      else if st == .code stNotFound then none else some (.unknownHonoured .get st)
  | .delete ref _ =>
    match m with
    | .legacy =>
      if ref == .absent then (if st == .code 400 then none else some (.legacyDelete false st))
      else if st == .code 204 then none else some (.legacyDelete true st)
    | .noIds =>
      if ref == .absent then (if st == .code 400 then none else some (.missingId .delete st))
      else if st == .code stNotFound then none else some (.unknownHonoured .delete st)
  | .other _ _ => if st == .code 405 then none else some (.methodAnswered .other st)
  | _ => none

/-- the `Mcp-Session-Id` of the response -/
def chkHdr (ms : MState) (op : Op) (hdr : Option Name) : Option EClause :=
  match hdr with
  | none => none
  | some h =>
    match ms.mode with
    | .noIds => some .issued
    | .legacy =>
      match op with
      | .post ref _ k =>
        if !isInit k then some .hdrNotInitialize
        else match ref.name with
          | some n => if h == n then none else some .hdrDifferent
          | none => if nameOrd h > ms.seen then none else some .hdrReused
      | _ => some .hdrNotInitialize

/-- the handler invocations -/
def chkLog (m : Mode) (op : Op) (log : List LogEnt) : Option EClause :=
  if log.isEmpty then none
  else if !served m op then some .rejectedReached
  else match m with
    | .noIds => if log.all (·.sess == .e) then none else some .sessionWithId
    | .legacy =>
      match op with
      | .post ref _ _ =>
        match ref.name with
        | some n => if log.all (·.sess == n) then none else some .misrouted
        | none => none
      | _ => none

def bookInprog (ms : MState) (o : Obs) : Nat :=
  (if o.status == .pending then ms.inprog + 1 else ms.inprog) - o.done.length

/-- nothing is kept: no table entry, no server session beyond the POSTs in progress, no timer -/
def chkKept (ms : MState) (o : Obs) : Option EClause :=
  if !o.map.isEmpty then some .keeps
  else if o.srv.length > bookInprog ms o then some .notClosed
  else if ms.mode == .noIds && !o.srv.all (· == .e) then some .sessionWithId
  else if !o.stale.isEmpty then some .timerLeft
  else none

/-- Temporary sessions that ended during this operation: a served POST that was answered, and every completion. -/
def isPostTag : Tag × Nat → Bool
  | (.p _, _) => true
  | _ => false

def ended (m : Mode) (op : Op) (o : Obs) : Nat :=
  (if served m op && (o.status == .code 200 || o.status == .code 202) then 1 else 0) + (o.done.filter isPostTag).length

/-- the event store is told exactly once per temporary session that ends (never without a store) -/
def chkTold (ms : MState) (op : Op) (o : Obs) : Option EClause :=
  let want := if ms.es then ended ms.mode op o else 0
  if o.closed.length == want then none else some (.storeTold want o.closed.length)

def firstOf : List (Option EClause) → Option EClause
  | [] => none
  | some c :: _ => some c
  | none :: t => firstOf t

def judge (ms : MState) (op : Op) (o : Obs) : Option EClause × MState :=
  let v := firstOf [chkAnswer ms.mode op o.status, chkHdr ms op o.hdr, chkLog ms.mode op o.log, chkKept ms o, chkTold ms op o]
  let seen := max ms.seen (max (maxOrd (o.hdr.toList)) (max (maxOrd (o.log.map (·.sess))) (maxOrd o.srv)))
  (v, { ms with seen := seen, inprog := bookInprog ms o })

/-- Run the monitor over a trace: the first clause, if any. -/
def runJudge (ms : MState) : List (Op × Obs) → Option EClause
  | [] => none
  | (op, o) :: t =>
    match judge ms op o with
    | (some c, _) => some c
    | (none, ms') => runJudge ms' t

end Sessions.Eph
