import McpModel.Sessions.Gate
import McpModel.Sessions.Bridge
/-!
E7 — requests refused before the session layer (Gate.lean): the bridge and the property.

`gate_sim_step` is `sim_step` for these requests: on the model's observation of a refused request the monitor
reports nothing and the simulation relation between replay state and monitor state is kept, so that histories
mixing operations and refused requests are covered by the same induction as `monitor_accepts_model`.
`gate_no_effect`: in the model a refused request changes nothing — the replay state, hence every later
observation, is the one of a `tick 0`.
-/
namespace Sessions

/-- 415 / 400 as the handler's documentation says, on both kinds of endpoint; a stateless endpoint refuses a GET
for its method (405) before it looks at `Accept`. -/
theorem gate_status_codes :
    Why.status false .ctype = 415 ∧ Why.status true .ctype = 415 ∧ Why.status false .accept = 400 ∧
    Why.status true .accept = 400 ∧ Why.status false .getAccept = 400 ∧ Why.status true .getAccept = 405 ∧
    Why.status false .noServer = 400 ∧ Why.status true .noServer = 400 ∧
    (∀ b, Why.status b .origin = 403) ∧ (∀ b, Why.status b .host = 403) := by decide

theorem status_refused (w : Why) (b : Bool) : (St.code (w.status b)).refused4xx = true := by
  cases w <;> cases b <;> decide

/-- A refused request has **no effect** on the model: the state after it is the state after `tick 0`, and the
observation differs from that of `tick 0` in the status only. -/
theorem gate_no_effect {d d' : RState} {o : Obs} {w : Why} (h : gateModel d w = some (d', o)) :
    ∃ o0, replayOp d (.tick 0) = some (d', o0) ∧ o = { o0 with status := .code (w.status d.st.cfg.stateless) } := by
  simp only [gateModel] at h
  split at h
  · rename_i d1 o1 h1
    simp at h
    exact ⟨o1, by rw [h1, h.1], h.2.symm⟩
  · simp at h

/-- `tick` observations carry the status `ok`. -/
theorem tick_status {d d' : RState} {o : Obs} {n : Nat} (h : replayOp d (.tick n) = some (d', o)) : o.status = .ok := by
  simp only [replayOp, modelOp] at h
  simp at h
  rw [← h.2]

/-- **The monitor is silent on the model's refused requests**, and the simulation relation is kept. -/
theorem gate_sim_step {cfg : Cfg} {d d' : RState} {m : Mon} {o : Obs} {w : Why} (hs : SimAny cfg d m)
    (hcfg : d.st.cfg.stateless = cfg.stateless) (h : gateModel d w = some (d', o)) :
    (gateJudge cfg m w o).2 = none ∧ SimAny cfg d' (gateJudge cfg m w o).1 := by
  obtain ⟨o0, h0, ho⟩ := gate_no_effect h
  have hst := tick_status h0
  have key := sim_step hs (.tick 0) h0
  have e : ({ o with status := St.ok } : Obs) = o0 := by
    subst ho
    cases o0
    simp at hst ⊢
    exact hst.symm
  simp only [gateJudge, e]
  refine ⟨?_, key.2⟩
  have : o.status.refused4xx = true := by
    rw [ho]
    exact status_refused w _
  simp [this, key.1]

/-- soundness of the answer clause: it is reported only when the request was not refused (no 4xx answer) -/
theorem gate_answer_sound {cfg : Cfg} {m : Mon} {w : Why} {o : Obs} {w' : Why} {st : St}
    (h : (gateJudge cfg m w o).2 = some (.answered w' st)) :
    w' = w ∧ st = o.status ∧ o.status.refused4xx = false := by
  simp only [gateJudge] at h
  split at h
  · rename_i hne
    simp at h
    exact ⟨h.1.symm, h.2.symm, by simpa using hne⟩
  · cases hv : (monStep cfg m (.tick 0) { o with status := .ok }).viol <;> simp [hv] at h

/-- soundness of the effect clause: it is the clause the C11 monitor reports for "nothing happened" — its meaning
is given by `monitor_sound` (Sound.lean) on the trace in which the refused request is replaced by `tick 0`. -/
theorem gate_effect_sound {cfg : Cfg} {m : Mon} {w : Why} {o : Obs} {c : Clause}
    (h : (gateJudge cfg m w o).2 = some (.effect c)) :
    (monStep cfg m (.tick 0) { o with status := .ok }).viol = some c := by
  simp only [gateJudge] at h
  split at h
  · simp at h
  · cases hv : (monStep cfg m (.tick 0) { o with status := .ok }).viol <;> simp [hv] at h
    rw [h]

end Sessions
