import McpModel.Base.Proto
import McpModel.Sessions.Model
/-!
Driver for E7 (C11).  Two independent parts:

* the **model replay**: every harness operation is translated into the label list the real handler
  executes for it (request labels, then the internal labels that are enabled at quiescence: timer
  callbacks whose deadline has passed, `closeDone` of closing sessions without handlers in flight) and
  the model's full observation (status, `Mcp-Session-Id`, async completions, `h.sessions`,
  `Server.Sessions()`, handler invocation log) is printed for comparison with the implementation's;

* the **property monitor**: the C11 clauses as a decidable predicate on the *implementation's*
  observations, derived from an abstract session table that does not use the model's state: a session
  is a name, an owner, the number of POSTs in progress and the instant it last became idle; it dies by
  an accepted DELETE, a server-side close, a failed initialize, or `timeout` ms of idleness.

Harness operations (see go/harness/mcp/zz_verif_sessions_test.go):
`reset <stateful|stateless> <timeout ms> [es|nes]` (`es`: the handler has an `EventStore`, a fault-injecting
wrapper of the in-memory store) · `fault <flags>` (from now on the event-store methods named by the flags
fail: `c` SessionClosed, `o` Open of the standalone stream = `Transport.Connect`, `O` Open of a request's
stream, `a` Append, `r` After; `-` none) · `post <ref> <user> <init|badinit|ping|notif|slow>` ·
`postx <user> <kind>` (a creating POST during which the server closes the new session between `Connect`
and the publication in `h.sessions` — F20) ·
`release <slot>` · `abandon <slot>` (the client of that POST goes away, its handler keeps running) ·
`get|delete|other <ref> <user>` · `tick <ms>` · `close <ref>` · `end`;
`ref` = `-` | `s<k>` (k-th minted id) | `x<n>` (never minted); `user` = `anon|ue|u<n>`.
-/
namespace Sessions
open Proto

/-! ## small helpers -/

def tailStr (s : String) (n : Nat) : String := (s.drop n).toString

def joinOr (l : List String) : String := if l.isEmpty then "-" else ";".intercalate l

def sortStrs (l : List String) : List String := l.mergeSort (fun a b => a ≤ b)

def splitList (s : String) : List String := if s == "-" || s == "" then [] else s.splitOn ";"

def b2n (b : Bool) : Nat := if b then 1 else 0

def bogus : Nat := 1000000000

/-- `-` ↦ no id; `s<k>` ↦ model id k-1 when minted, else an id that was never minted; `x<n>` likewise. -/
def parseRef (next : Nat) (r : String) : Option (Option Nat) :=
  if r == "-" then some none
  else if r.startsWith "s" then
    match (tailStr r 1).toNat? with
    | some k => if 1 ≤ k ∧ k - 1 < next then some (some (k - 1)) else some (some (bogus + k))
    | none => none
  else if r.startsWith "x" then
    match (tailStr r 1).toNat? with
    | some n => some (some (2 * bogus + n))
    | none => none
  else none

def parseUser (u : String) : Option User :=
  if u == "anon" || u == "ue" then some none
  else if u.startsWith "u" then (tailStr u 1).toNat?.map some
  else none

def parseKind (k : String) : Option Kind :=
  match k with
  | "init" => some .init
  | "badinit" => some .badInit
  | "ping" => some .call
  | "slow" => some .call
  | "notif" => some .notif
  | _ => none

def sname (i : Nat) : String := s!"s{i + 1}"

def parseFaults (f : String) : Faults :=
  { closed := f.contains 'c', connOpen := f.contains 'o', reqOpen := f.contains 'O',
    append := f.contains 'a', after := f.contains 'r' }

def showOwner : User → String
  | none => "-"
  | some n => s!"u{n}"

/-! ## model replay -/

inductive PKind where
  | slow (sid : Option Nat) (slot : Nat)
  | run (sid : Nat) (slot : Nat)   -- handler still running after its POST was abandoned by the client
  | del (sid : Nat)
  | cls (sid : Nat)

structure Pend where
  tag : String
  kind : PKind

def doL (s : State) (l : Label) : State :=
  match step s l with
  | some (s', _) => s'
  | none => s

/-- Internal labels enabled at quiescence: expired timers fire, closes without handlers complete. -/
def settle (s : State) : State :=
  s.tbl.foldl (fun s e => doL (doL s (.timerFire e.id)) (.closeDone e.id)) s

def isLive (s : State) (i : Nat) : Bool :=
  match findSess i s.tbl with
  | some e => !e.removed
  | none => false

/-- What `Close()` of that session returns: closing the connection reported an error. -/
def closeErrOf (s : State) (i : Nat) : Bool :=
  match findSess i s.tbl with
  | some e => e.closeErr
  | none => false

def showMap (s : State) : String :=
  joinOr ((s.tbl.filter (fun e => e.inMap)).map fun e =>
    s!"{sname e.id}/{showOwner e.owner}/r{e.refs}/t{b2n (e.timer != .nil)}/c{b2n e.closing}")

def showSrv (s : State) : String :=
  if s.cfg.stateless then joinOr (List.replicate s.eph "e")
  else joinOr ((s.tbl.filter (fun e => !e.removed)).map fun e => sname e.id)

/-- Pending DELETEs / server closes / refused POSTs whose session has been removed complete now. -/
def completions (s : State) (pend : List Pend) : List String × List Pend × State :=
  pend.foldl (fun (acc : List String × List Pend × State) p =>
    let (done, keep, st) := acc
    match p.kind with
    | .del i => if isLive st i then (done, keep ++ [p], st) else (done ++ [s!"{p.tag}={stDeleted}"], keep, st)
    | .cls i => if isLive st i then (done, keep ++ [p], st)
                else (done ++ [s!"{p.tag}={if closeErrOf st i then 2 else 1}"], keep, st)
    | .slow _ _ => (done, keep ++ [p], st)
    | .run _ _ => (done, keep ++ [p], st)) ([], [], s)

structure MSess where
  name : String
  owner : String          -- "-" = not bound to a user
  status : Nat            -- 0 live, 1 dying (DELETE/close in progress), 2 dead
  posts : Nat
  idleSince : Nat
  running : Nat := 0      -- handlers still running after their POST was abandoned
deriving Repr

structure DState where
  st : State := init { stateless := false, timeout := 100, publishChecks := Generated.Sessions.publishChecksClosed }
  nslow : Nat := 0
  nasync : Nat := 0
  released : List Nat := []
  pend : List Pend := []
  -- monitor (independent of `st` apart from the configuration)
  mon : List MSess := []
  mnow : Nat := 0
  mpend : List (String × String) := []    -- async tag ↦ session name
  zombies : List String := []             -- F20: sessions closed during creation that were published anyway
  mrun : List (Nat × String) := []        -- slot of an abandoned POST whose handler still runs ↦ session name
  mfaults : String := "-"                 -- the flags of the last `fault` op (the environment's script)

structure MOut where
  st : State
  head : String
  done : List String := []
  log : List String := []
  pend : List Pend
  nslow : Nat
  nasync : Nat
  released : List Nat

/-- Replay one harness operation on the model. `none` = unparsable operation. -/
def modelOp (d : DState) (toks : List String) : Option MOut :=
  let st := d.st
  let base : MOut := { st := st, head := "", pend := d.pend, nslow := d.nslow, nasync := d.nasync, released := d.released }
  match toks with
  | ["post", ref, user, kind] => do
    let sid ← parseRef st.next ref
    let u ← parseUser user
    let k ← parseKind kind
    let slow := kind == "slow"
    let nslow := if slow then d.nslow + 1 else d.nslow
    let nasync := if slow then d.nasync else d.nasync + 1
    let tag := if slow then s!"p{nslow}" else s!"q{nasync}"
    let base := { base with nslow := nslow, nasync := nasync }
    -- without a session id on a stateful endpoint: `Connect`, then the publication answers
    let first : Option (State × Resp) :=
      if sid.isNone && !st.cfg.stateless then
        match step st (.postBegin none u k) with
        | some (st0, .tau) => step st0 (.publish st.next)
        | r => r      -- `Connect` refused by the event store: answered at once, no session
      else step st (.postBegin sid u k)
    match first with
    | none => none
    | some (st1, .reject c) => some { base with st := st1, head := s!"{c} -" }
    | some (st1, .storeRefused c) =>
      -- the session layer let the POST through, the transport could not open the stream for the
      -- answer: nothing reaches a handler, the POST ends (for a creating POST: failed initialize)
      if st.cfg.stateless then some { base with st := doL st1 (.postEnd none false), head := s!"{c} -" }
      else some { base with st := doL st1 (.postEnd (some (sid.getD st.next)) sid.isNone), head := s!"{c} -" }
    | some (st1, .forward hdr deliver) =>
      let hdrS := match hdr with | some i => sname i | none => "-"
      if st.cfg.stateless then
        if slow then
          some { base with st := st1, head := "pending -", log := [s!"e/{user}/tools/call"],
                           pend := d.pend ++ [⟨tag, .slow none nslow⟩] }
        else
          let st2 := doL st1 (.postEnd none false)
          -- (a notification is handled by the temporary session before the POST is acknowledged)
          let log := match kind with
            | "init" => [s!"e/{user}/initialize"]
            | "ping" => [s!"e/{user}/ping"]
            | "notif" => [s!"e/{user}/notifications/initialized"]
            | _ => []
          some { base with st := st2, head := (if kind == "notif" then "202 -" else "200 -"), log := log }
      else
        let i := sid.getD st.next
        let creator := sid.isNone
        let wasInit := match findSess i st.tbl with | some e => e.initialized | none => false
        let nm := sname i
        if slow && deliver && wasInit then
          some { base with st := st1, head := "pending -", log := [s!"{nm}/{user}/tools/call"],
                           pend := d.pend ++ [⟨tag, .slow (some i) nslow⟩] }
        else
          let st2 := match k with
            | .init => if deliver then doL st1 (.handlerDone i true) else st1
            | .badInit | .call => if deliver then doL st1 (.handlerDone i false) else st1
            | .notif => st1
          let st3 := doL st2 (.postEnd (some i) creator)
          let log := match kind with
            | "init" => if deliver then [s!"{nm}/{user}/initialize"] else []
            | "ping" => if deliver then [s!"{nm}/{user}/ping"] else []
            | "notif" => if deliver && !creator then [s!"{nm}/{user}/notifications/initialized"] else []
            | _ => []
          let head := match kind with
            | "notif" => "202 -"
            | "init" | "badinit" => s!"200 {hdrS}"
            | _ => "200 -"
          some { base with st := st3, head := head, log := log }
    | some _ => none
  | ["postx", user, kind] => do
    let u ← parseUser user
    let k ← parseKind kind
    let slow := kind == "slow"
    let nslow := if slow then d.nslow + 1 else d.nslow
    let nasync := if slow then d.nasync else d.nasync + 1
    let base := { base with nslow := nslow, nasync := nasync }
    if st.cfg.stateless then none
    else
      let i := st.next
      match step st (.postBegin none u k) with
      | some (st0, .reject c) => some { base with st := st0, head := s!"{c} -" }
      | some (st0, _) =>
        let st1 := doL (doL st0 (.serverClose i)) (.closeDone i)
        match step st1 (.publish i) with
        | some (st2, .forward hdr _) =>
          let hdrS := match hdr with | some j => sname j | none => "-"
          some { base with st := doL st2 (.postEnd (some i) true), head := s!"200 {hdrS}" }
        | some (st2, .storeRefused c) => some { base with st := doL st2 (.postEnd (some i) true), head := s!"{c} -" }
        | _ => none
      | none => none
  | ["release", ks] => do
    let k ← ks.toNat?
    if k = 0 || k > d.nslow || d.released.contains k then some { base with head := "noop -" }
    else
      let base := { base with head := "ok -", released := d.released ++ [k] }
      match d.pend.find? (fun p => match p.kind with | .slow _ s => s == k | .run _ s => s == k | _ => false) with
      | some p =>
        let rest := d.pend.filter (fun q => q.tag != p.tag)
        match p.kind with
        | .slow (some i) _ =>
          -- (also after `Close` has begun: the answer of a handler that was admitted before the close
          -- still passes the connection's write gate — F26 — so the POST is answered and ends)
          some { base with st := doL (doL st (.handlerDone i false)) (.postEnd (some i) false),
                           done := [s!"{p.tag}=200"], pend := rest }
        | .slow none _ => some { base with st := doL st (.postEnd none false), done := [s!"{p.tag}=200"], pend := rest }
        | .run i _ => some { base with st := doL st (.handlerDone i false), pend := rest }
        | _ => some base
      | none => some base
  | ["abandon", ks] => do
    let k ← ks.toNat?
    let tag := s!"p{k}"
    match d.pend.find? (fun p => p.tag == tag) with
    | none => some { base with head := "noop -" }
    | some p =>
      let rest := d.pend.filter (fun q => q.tag != tag)
      match p.kind with
      | .slow (some i) slot =>
        -- the POST ends (endPOST), the handler stays in flight
        some { base with st := doL st (.postEnd (some i) false), head := "ok -", done := [s!"{tag}=200"],
                         pend := rest ++ [⟨s!"r{k}", .run i slot⟩] }
      | .slow none _ =>
        -- stateless: the POST now waits in `defer session.Close()` for its handler: nothing observable
        some { base with head := "ok -" }
      | _ => some { base with head := "noop -" }
  | ["get", ref, user] => do
    let sid ← parseRef st.next ref
    let u ← parseUser user
    let base := { base with nasync := d.nasync + 1 }
    match step st (.get sid u) with
    | some (st1, .reject c) => some { base with st := st1, head := s!"{c} -" }
    | some (st1, .stream) => some { base with st := st1, head := "200 - hang" }
    | some (st1, .storeRefused c) => some { base with st := st1, head := s!"{c} -" }
    | _ => none
  | ["delete", ref, user] => do
    let sid ← parseRef st.next ref
    let u ← parseUser user
    let base := { base with nasync := d.nasync + 1 }
    match step st (.delete sid u) with
    | some (st1, .reject c) => some { base with st := st1, head := s!"{c} -" }
    | some (st1, .closeAccepted) =>
      let i := sid.getD 0
      let st2 := settle st1
      if isLive st2 i then some { base with st := st2, head := "pending -", pend := d.pend ++ [⟨s!"d{d.nasync + 1}", .del i⟩] }
      else some { base with st := st2, head := s!"{stDeleted} -" }
    | _ => none
  | ["other", ref, user] => do
    let sid ← parseRef st.next ref
    let u ← parseUser user
    let base := { base with nasync := d.nasync + 1 }
    match step st (.other sid u) with
    | some (st1, .reject c) => some { base with st := st1, head := s!"{c} -" }
    | _ => none
  | ["tick", ms] => do
    let n ← ms.toNat?
    some { base with st := doL st (.tick n), head := "ok -" }
  | ["fault", flags] =>
    if st.cfg.eventStore then some { base with st := doL st (.faults (parseFaults flags)), head := "ok -" }
    else some { base with head := "noop -" }
  | ["close", ref] => do
    let sid ← parseRef st.next ref
    match sid with
    | some i =>
      if !st.cfg.stateless && isLive st i then
        let st2 := settle (doL st (.serverClose i))
        if isLive st2 i then
          some { base with st := st2, nasync := d.nasync + 1, head := "pending -", pend := d.pend ++ [⟨s!"c{d.nasync + 1}", .cls i⟩] }
        else some { base with st := st2, nasync := d.nasync + 1, head := (if closeErrOf st2 i then "err -" else "ok -") }
      else some { base with head := "noop -" }
    | none => some { base with head := "noop -" }
  | _ => none

/-! ## observations of the implementation -/

structure Obs where
  status : String := ""
  hdr : String := "-"
  done : List String := []
  map : List String := []
  srv : List String := []
  log : List String := []

def parseObs (impl : String) : Obs :=
  (words impl).foldl (fun (o : Obs × Nat) w =>
    let (ob, idx) := o
    if w.startsWith "done:" then ({ ob with done := splitList (tailStr w 5) }, idx + 1)
    else if w.startsWith "map:" then ({ ob with map := splitList (tailStr w 4) }, idx + 1)
    else if w.startsWith "srv:" then ({ ob with srv := splitList (tailStr w 4) }, idx + 1)
    else if w.startsWith "log:" then ({ ob with log := splitList (tailStr w 4) }, idx + 1)
    else if idx = 0 then ({ ob with status := w }, 1)
    else if idx = 1 then ({ ob with hdr := w }, 2)
    else (ob, idx + 1)) ({}, 0) |>.1

def fieldAt (s : String) (n : Nat) : String := ((s.splitOn "/")[n]?).getD ""

/-! ## the property monitor -/

def ownerOfUser (u : String) : String := if u == "anon" || u == "ue" then "-" else u

def monFind (m : List MSess) (n : String) : Option MSess := m.find? (·.name == n)

def monUpd (m : List MSess) (n : String) (f : MSess → MSess) : List MSess :=
  m.map fun e => if e.name == n then f e else e

def rejected (st : String) : Bool := st == "400" || st == "403" || st == "404" || st == "405"

structure MonRes where
  mon : List MSess
  mnow : Nat
  mpend : List (String × String)
  zombies : List String
  mrun : List (Nat × String)
  mfaults : String := "-"
  viol : Option String := none

/-- A session that the server closed between `Connect` and its publication sits in the handler's table.
Classified as the (repaired) defect F20 only when the source lacks F20's publication check; with the
check in place it is a plain violation of the clause (whatever made the closed session stay). -/
def f20 : String :=
  if Generated.Sessions.publishChecksClosed then
    "C11:dead_after_removal: session closed by the server during its creating POST is kept in the handler's table"
  else "C11: F20 session closed by the server during its creating POST is kept in the handler's table"

def firstViol (a b : Option String) : Option String := match a with | some x => some x | none => b

/-- The C11 clauses evaluated on one observation of the implementation. -/
def monitorOp (cfg : Cfg) (d : DState) (toks : List String) (racy : Bool) (o : Obs) : MonRes :=
  let now := match toks with
    | ["tick", ms] => d.mnow + ms.toNat?.getD 0
    | _ => d.mnow
  -- idle sessions die when their timeout has elapsed (observed at quiescence after the tick)
  let mon0 := d.mon.map fun e =>
    if e.status == 0 && e.posts == 0 && cfg.timeout > 0 && e.idleSince + cfg.timeout ≤ now then
      -- with a handler still running the close cannot complete yet: the session is going away
      { e with status := if e.running > 0 then 1 else 2 }
    else e
  let isReq := match toks with
    | "post" :: _ | "get" :: _ | "delete" :: _ | "other" :: _ => true
    | _ => false
  let ref := (toks[1]?).getD "-"
  let user := (toks[2]?).getD "anon"
  let kind := (toks[3]?).getD ""
  let op := (toks[0]?).getD ""
  let st := o.status
  let target := monFind mon0 ref
  let accepted2xx := st == "200" || st == "202" || st == "204" || st == "pending"
  -- the environment's script: error statuses that the transport may answer with *after* the session
  -- layer has let the request through, because the configured event store fails right now
  let fl := if cfg.eventStore then d.mfaults else "-"
  let openRefusal := op == "post" && kind != "notif" && fl.contains 'O' && st == "500"
  let connRefusal := op == "post" && fl.contains 'o' && st == "500"
  let replayRefusal := op == "get" && fl.contains 'r' && st == "400"
  -- 1. expected answer of a request
  let v1 : Option String :=
    if !isReq then none
    else if cfg.stateless then
      if op != "post" then
        (if st == "405" then none else some s!"C11:stateless_no_ids_405: {op} on a stateless endpoint answered {st}")
      else if st == "403" || st == "404" then some s!"C11:stateless_no_ids_405: stateless endpoint honoured a session id ({st})"
      else if !(accepted2xx || openRefusal || connRefusal) then some s!"C11:stateless_no_ids_405: stateless POST answered {st}"
      else none
    else if op == "other" then
      (if st == "405" then none else some s!"C11:other method answered {st}")
    else if ref == "-" then
      if op == "post" then (if accepted2xx || openRefusal || connRefusal then none else some s!"C11:id_minted_only_on_creating_post: POST without a session id answered {st}")
      else (if st == "400" then none else some s!"C11:{op} without a session id answered {st}")
    else match target with
      | none => if st == "404" then none else some s!"C11:id_addresses_one_session: unknown session id honoured ({op} answered {st})"
      | some e =>
        let entitled := e.owner == "-" || e.owner == user
        if e.status == 2 then
          (if st == "404" then none else some s!"C11:dead_after_removal: {op} to a terminated session answered {st}")
        else if e.status == 1 then
          (if entitled then (if st == "403" then some "C11:owner_binding: owner rejected" else none)
           else (if st == "403" || st == "404" then none else some s!"C11:owner_binding: {op} by another user answered {st}"))
        else if !entitled then
          (if st == "403" then none else some s!"C11:owner_binding: {op} by another user answered {st}")
        else if st == "403" then some "C11:owner_binding: owner rejected"
        else if st == "404" then
          (if e.posts > 0 then some "C11:timer_never_fires_during_post: session gone while a POST is in progress"
           else some s!"C11:dead_after_removal: live session not honoured ({op} answered 404)")
        else if !(accepted2xx || openRefusal || replayRefusal) then some s!"C11:{op} to a live session answered {st}"
        else none
  -- 2. a rejected request reaches no handler; an accepted one reaches only its own session, as its own user
  let v2 : Option String :=
    if isReq && rejected st && !o.log.isEmpty then some "C11:owner_binding: handler invoked for a rejected request"
    else if isReq then
      o.log.foldl (fun acc l =>
        firstViol acc (
          if fieldAt l 1 != user then some "C11:owner_binding: handler saw another user"
          else if cfg.stateless then (if fieldAt l 0 == "e" then none else some "C11:stateless_no_ids_405: handler ran on a session with an id")
          else if ref != "-" && fieldAt l 0 != ref then some "C11:id_addresses_one_session: message routed to another session"
          else none)) none
    else if !o.log.isEmpty then some "C11:handler invoked without a request" else none
  -- 3. minting
  let v3 : Option String :=
    if o.hdr == "-" then none
    else if cfg.stateless then some "C11:stateless_no_ids_405: stateless endpoint issued a session id"
    else if !(op == "post" && (kind == "init" || kind == "badinit") && accepted2xx) then
      some "C11:id_minted_only_on_creating_post: Mcp-Session-Id on a response that created no session"
    else if ref == "-" then
      (if (monFind mon0 o.hdr).isSome then some "C11:id_addresses_one_session: minted id already names a session" else none)
    else if o.hdr == ref then none
    else some "C11:id_minted_only_on_creating_post: response names a different session"
  -- 4. bookkeeping from the answer
  let entitledLive := match target with
    | some e => e.status == 0 && (e.owner == "-" || e.owner == user)
    | none => false
  let tagOf : String := match op with
    | "post" => if kind == "slow" then s!"p{d.nslow + 1}" else ""
    | "delete" => s!"d{d.nasync + 1}"
    | "close" => s!"c{d.nasync + 1}"
    | _ => ""
  let (mon1, mpend1) : List MSess × List (String × String) :=
    if cfg.stateless then (mon0, d.mpend)
    else match op with
      | "post" =>
        if ref != "-" && entitledLive && (accepted2xx || openRefusal) then
          if st == "pending" then (monUpd mon0 ref (fun e => { e with posts := e.posts + 1 }), d.mpend ++ [(tagOf, ref)])
          else (monUpd mon0 ref (fun e => if e.posts == 0 then { e with idleSince := now } else e), d.mpend)
        else (mon0, d.mpend)
      | "delete" =>
        if entitledLive && st == "204" then (monUpd mon0 ref (fun e => { e with status := 2 }), d.mpend)
        else if entitledLive && st == "pending" then (monUpd mon0 ref (fun e => { e with status := 1 }), d.mpend ++ [(tagOf, ref)])
        else (mon0, d.mpend)
      | "close" =>
        -- (`err`: Close reported the error of closing the connection; the session has ended all the same)
        if st == "ok" || st == "err" then (monUpd mon0 ref (fun e => { e with status := 2 }), d.mpend)
        else if st == "pending" then (monUpd mon0 ref (fun e => if e.status == 0 then { e with status := 1 } else e), d.mpend ++ [(tagOf, ref)])
        else (mon0, d.mpend)
      | _ => (mon0, d.mpend)
  -- abandoned POSTs: the handler keeps running; released handlers stop running
  let slotArg := ((toks[1]?).getD "").toNat?.getD 0
  let (mon1, mrun1) : List MSess × List (Nat × String) :=
    match op with
    | "abandon" =>
      if st == "ok" then
        match mpend1.find? (·.1 == s!"p{slotArg}") with
        | some (_, nm) => (monUpd mon1 nm (fun e => { e with running := e.running + 1 }), d.mrun ++ [(slotArg, nm)])
        | none => (mon1, d.mrun)
      else (mon1, d.mrun)
    | "release" =>
      match d.mrun.find? (·.1 == slotArg) with
      | some (_, nm) => (monUpd mon1 nm (fun e => { e with running := e.running - 1 }), d.mrun.filter (·.1 != slotArg))
      | none => (mon1, d.mrun)
    | _ => (mon1, d.mrun)
  -- async completions
  let (mon2, mpend2) := o.done.foldl (fun (acc : List MSess × List (String × String)) c =>
    let tag := ((c.splitOn "=")[0]?).getD ""
    match acc.2.find? (·.1 == tag) with
    | none => acc
    | some (_, nm) =>
      let rest := acc.2.filter (·.1 != tag)
      if tag.startsWith "p" then
        (monUpd acc.1 nm (fun e => if e.posts ≤ 1 then { e with posts := 0, idleSince := now } else { e with posts := e.posts - 1 }), rest)
      else (monUpd acc.1 nm (fun e => { e with status := 2 }), rest)) (mon1, mpend1)
  -- 5. the tables: h.sessions and Server.Sessions() against the abstract table
  let names := o.map.map (fieldAt · 0)
  let creatingInit := op == "post" && ref == "-" && kind == "init" && !cfg.stateless
  let (mon3, v5a) := o.map.foldl (fun (acc : List MSess × Option String) ent =>
    let nm := fieldAt ent 0
    let ow := fieldAt ent 1
    match monFind acc.1 nm with
    | some e =>
      if e.owner != ow then (acc.1, firstViol acc.2 (some "C11:id_addresses_one_session: owner of a session changed"))
      else if e.status == 2 then (acc.1, firstViol acc.2 (some s!"C11:dead_after_removal: terminated session {nm} still in the handler's table"))
      else if e.status == 0 && fieldAt ent 4 == "c1" then
        (acc.1, firstViol acc.2 (some (if e.posts > 0
          then s!"C11:timer_never_fires_during_post: session {nm} is being closed while a POST is in progress"
          else s!"C11:dead_after_removal: session {nm} is being closed without DELETE, timeout or server-side close")))
      else (acc.1, acc.2)
    | none =>
      let e : MSess := { name := nm, owner := ow, status := 0, posts := 0, idleSince := now }
      let v := if racy then some f20
        else if op == "post" && ref == "-" && !cfg.stateless then
          (if kind != "init" then some "C11:dead_after_removal: session kept after a failed initialize"
           else if !accepted2xx then some s!"C11:dead_after_removal: session kept although its creating POST was refused ({st})"
           else if ow != ownerOfUser user then some "C11:owner_binding: session bound to a user other than its creator"
           else if o.hdr != nm then some "C11:id_minted_only_on_creating_post: created session is not the one named in the response"
           else none)
        else if cfg.stateless then some "C11:stateless_no_ids_405: stateless endpoint keeps a session"
        else some "C11:id_minted_only_on_creating_post: session appeared without a creating POST"
      (acc.1 ++ [e], firstViol acc.2 v)) (mon2, none)
  let v5b : Option String :=
    if names.eraseDups.length != names.length then some "C11:id_addresses_one_session: duplicate session id in the handler's table"
    else if o.map.any (fun ent => (fieldAt ent 0).endsWith "!key") then some "C11:id_addresses_one_session: table key differs from the session's id"
    else none
  -- live sessions must still be there; dying ones may go
  let v5c : Option String := mon3.foldl (fun acc e =>
    if e.status == 0 && !names.contains e.name then
      firstViol acc (some (if e.posts > 0 then s!"C11:timer_never_fires_during_post: session {e.name} closed while a POST is in progress"
                           else s!"C11:dead_after_removal: live session {e.name} dropped without DELETE, timeout or close"))
    else acc) none
  let mon4 := mon3.map fun e => if e.status == 1 && !names.contains e.name then { e with status := 2 } else e
  -- a creating initialize that answered with an id but left no session: failed initialize, id is dead
  let mon5 := if o.hdr != "-" && (monFind mon4 o.hdr).isNone then
      mon4 ++ [{ name := o.hdr, owner := ownerOfUser user, status := 2, posts := 0, idleSince := now }] else mon4
  let v5d : Option String :=
    if cfg.stateless then
      (if o.srv.any (· != "e") then some "C11:stateless_no_ids_405: server session with an id on a stateless endpoint" else none)
    else
      firstViol
        (o.srv.foldl (fun acc n => if names.contains n then acc else
          firstViol acc (some s!"C11:dead_after_removal: server-side session {n} not forgotten")) none)
        (names.foldl (fun acc n => if o.srv.contains n then acc else
          firstViol acc (some s!"C11:dead_after_removal: handler table keeps {n} which the server has dropped")) none)
  let v5e : Option String :=
    if creatingInit && accepted2xx && o.hdr == "-" then some "C11:id_minted_only_on_creating_post: creating initialize answered without a session id" else none
  -- F20: once a session that the server closed during its creation sits in the handler's table, every
  -- clause it breaks afterwards is the same defect
  let zombies := d.zombies ++ (if racy then names.filter (fun n => (monFind mon2 n).isNone) else [])
  let viol := firstViol v1 (firstViol v2 (firstViol v3 (firstViol v5a (firstViol v5b (firstViol v5c (firstViol v5d v5e))))))
  let viol := if names.any zombies.contains then
      viol.map (fun c => if c.startsWith f20 then c else s!"{f20}; then {c}")
    else viol
  let mfaults := match toks with
    | ["fault", f] => if st == "ok" then f else d.mfaults
    | _ => d.mfaults
  { mon := mon5, mnow := now, mpend := mpend2, zombies := zombies, mrun := mrun1, mfaults := mfaults, viol := viol }

/-! ## the engine -/

def engine : Engine DState where
  init := {}
  step d toks impl :=
    match toks with
    | "reset" :: mode :: ms :: rest =>
      let cfg : Cfg := { stateless := mode == "stateless", timeout := ms.toNat?.getD 0,
                         publishChecks := Generated.Sessions.publishChecksClosed,
                         eventStore := rest == ["es"] }
      ({ st := init cfg }, { model := "ok" })
    | ["reset"] => ({}, { model := "ok" })
    | ["end"] =>
      let want := "end stuck=0 map=0 srv=0"
      -- (the unrepaired publication of F20 leaves its dead sessions behind: the model follows it)
      let left := (d.st.tbl.filter (fun e => e.inMap && e.removed)).length
      (d, { model := s!"end stuck=0 map={left} srv=0",
            violated := if impl == want then none
              else if !d.zombies.isEmpty then some s!"{f20}; then C11:dead_after_removal: sessions left after every session was closed"
              else some "C11:dead_after_removal: requests or sessions left after every session was closed" })
    | _ =>
      let o := parseObs impl
      let (mtoks, racy) := match toks with
        | ["postx", u, k] => (["post", "-", u, k], true)
        | _ => (toks, false)
      let mr := monitorOp d.st.cfg d mtoks racy o
      match modelOp d toks with
      | none => ({ d with mon := mr.mon, mnow := mr.mnow, mpend := mr.mpend, zombies := mr.zombies, mrun := mr.mrun, mfaults := mr.mfaults },
                 { model := "bad-op", violated := mr.viol })
      | some m =>
        let st := settle m.st
        let (doneC, pend, st) := completions st m.pend
        let model := s!"{m.head} done:{joinOr (sortStrs (m.done ++ doneC))} map:{showMap st} srv:{showSrv st} log:{joinOr (sortStrs m.log)}"
        ({ st := st, nslow := m.nslow, nasync := m.nasync, released := m.released, pend := pend,
           mon := mr.mon, mnow := mr.mnow, mpend := mr.mpend, zombies := mr.zombies, mrun := mr.mrun, mfaults := mr.mfaults },
         { model := model, violated := mr.viol })

end Sessions

def main : IO Unit := Proto.run Sessions.engine
