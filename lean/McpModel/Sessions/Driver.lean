import McpModel.Base.Proto
import McpModel.Sessions.Replay
import McpModel.Sessions.Monitor
import McpModel.Sessions.Ephemeral
import McpModel.Sessions.Gate
/-!
Driver for E7 (C11): the **string layer** only.

* the token parser: a record's operation tokens ↦ `Op`, the implementation's observation ↦ `Obs`
  (total: every field the implementation controls has a `raw` form);
* the renderer: the model's `Obs` ↦ the canonical observation string that is compared with the
  implementation's;
* the clause texts (`Clause.text`, `EndClause.text`) — quoted by known_findings.json, seeded/*/meta.json
  and the corpus, so they must not change.

Everything that decides anything is typed: the model replay is `replayOp` (Replay.lean), the property
monitor is `monStep` / `monEnd` (Monitor.lean; bridged to the model in Bridge.lean, to the property
text in Sound.lean).

Harness operations (see go/harness/mcp/zz_verif_sessions_test.go):
`reset <stateful|stateless|legacy|noids> <timeout ms> [es|nes]` (`legacy`: a stateless endpoint under
`MCPGODEBUG allowsessionsinstateless=1`, `noids`: a stateful endpoint whose `GetSessionID` returns "" — both are
replayed and judged by Ephemeral.lean; `es`: the handler has an `EventStore`, a fault-injecting
wrapper of the in-memory store) · a further `json` sets `StreamableHTTPOptions.JSONResponse`
(the session layer does not depend on it: the model has no such field) · `fault <flags>` (from now on the event-store methods named by the flags
fail: `c` SessionClosed, `o` Open of the standalone stream = `Transport.Connect`, `O` Open of a request's
stream, `a` Append, `r` After; `-` none) · `post <ref> <user> <init|badinit|ping|notif|slow>` ·
`postx <user> <kind>` (a creating POST during which the server closes the new session between `Connect`
and the publication in `h.sessions` — F20) ·
`release <slot>` · `abandon <slot>` (the client of that POST goes away, its handler keeps running) ·
`get|delete|other <ref> <user>` · `bad <ctype|accept|getaccept|noserver|origin|host> <ref> <user>` (a request the handler
refuses before it reads the session id: Gate.lean) · `tick <ms>` · `close <ref>` · `postb <ref> <user>` (the HEADERS of a POST
carrying a `ping` arrive, its body follows in pieces; the request is named `u<n>`, n = the harness's count of
asynchronous requests) · `body <n> more|end` (a piece / the last piece of that body arrives) · `end`;
`ref` = `-` | `s<k>` (k-th minted id) | `x<n>` (never minted); `user` = `anon|ue|u<n>`.
-/
namespace Sessions
open Proto

/-! ## small helpers -/

def tailStr (s : String) (n : Nat) : String := (s.drop n).toString

def joinOr (l : List String) : String := if l.isEmpty then "-" else ";".intercalate l

def sortStrs (l : List String) : List String := l.mergeSort (fun a b => a ≤ b)

def splitList (s : String) : List String := if s == "-" || s == "" then [] else s.splitOn ";"

def b2n (b : Bool) : Nat := if b then 1 else 0

/-- A number in its canonical decimal spelling (so that rendering a parsed token gives the token back). -/
def canonNat? (s : String) : Option Nat :=
  match s.toNat? with
  | some n => if toString n == s then some n else none
  | none => none

/-- `<p><canonical number>` -/
def prefixed? (p : String) (s : String) : Option Nat :=
  if s.startsWith p then canonNat? (tailStr s p.length) else none

/-! ## parser: operations -/

def parseRef (r : String) : Option Ref :=
  if r == "-" then some .absent
  else match prefixed? "s" r with
    | some k => some (.s k)
    | none => (prefixed? "x" r).map .x

def parseUserTok (u : String) : Option UserTok :=
  if u == "anon" then some .anon
  else if u == "ue" then some .ue
  else (prefixed? "u" u).map .u

def parsePKind (k : String) : Option PKind :=
  match k with
  | "init" => some .init
  | "badinit" => some .badinit
  | "ping" => some .ping
  | "slow" => some .slow
  | "notif" => some .notif
  | _ => none

def parseFaults (f : String) : Faults :=
  { closed := f.contains 'c', connOpen := f.contains 'o', reqOpen := f.contains 'O',
    append := f.contains 'a', after := f.contains 'r' }

def parseOp (toks : List String) : Option Op :=
  match toks with
  | ["post", ref, user, kind] => do
    let r ← parseRef ref
    let u ← parseUserTok user
    let k ← parsePKind kind
    some (.post r u k)
  | ["postx", user, kind] => do
    let u ← parseUserTok user
    let k ← parsePKind kind
    some (.postx u k)
  | ["release", ks] => ks.toNat?.map .release
  | ["abandon", ks] => ks.toNat?.map .abandon
  | ["get", ref, user] => do
    let r ← parseRef ref
    let u ← parseUserTok user
    some (.get r u)
  | ["delete", ref, user] => do
    let r ← parseRef ref
    let u ← parseUserTok user
    some (.delete r u)
  | ["other", ref, user] => do
    let r ← parseRef ref
    let u ← parseUserTok user
    some (.other r u)
  | ["tick", ms] => ms.toNat?.map .tick
  | ["fault", flags] => some (.fault (parseFaults flags))
  | ["close", ref] => (parseRef ref).map .close
  | ["postb", ref, user] => do
    let r ← parseRef ref
    let u ← parseUserTok user
    if r == .absent then none else some (.postb r u)
  | ["body", ns, "more"] => ns.toNat?.map (Op.body · false)
  | ["body", ns, "end"] => ns.toNat?.map (Op.body · true)
  | _ => none

/-! ## parser: observations of the implementation -/

def parseName (s : String) : Name :=
  if s == "e" then .e
  else match prefixed? "s" s with
    | some k => .s k
    | none => match prefixed? "x" s with
      | some n => .x n
      | none => .raw s

def parseOwner (s : String) : Owner :=
  if s == "-" then .unbound
  else match prefixed? "u" s with
    | some n => .u n
    | none => .raw s

def parseWho (s : String) : LogWho :=
  match parseUserTok s with
  | some u => .tok u
  | none => .raw s

def parseSt (s : String) : St :=
  match s with
  | "pending" => .pending
  | "ok" => .ok
  | "noop" => .noop
  | "err" => .err
  | _ => match canonNat? s with
    | some n => .code n
    | none => .raw s

def parseTag (s : String) : Tag :=
  match prefixed? "p" s with
  | some n => .p n
  | none => match prefixed? "q" s with
    | some n => .q n
    | none => match prefixed? "d" s with
      | some n => .d n
      | none => match prefixed? "c" s with
        | some n => .c n
        | none => match prefixed? "r" s with
          | some n => .r n
          | none => match prefixed? "u" s with
            | some n => .u n
            | none => .raw s

def fieldAt (s : String) (n : Nat) : String := ((s.splitOn "/")[n]?).getD ""

def parseMapEnt (ent : String) : MapEnt :=
  { name := parseName (fieldAt ent 0), badKey := (fieldAt ent 0).endsWith "!key",
    owner := parseOwner (fieldAt ent 1),
    refs := (tailStr (fieldAt ent 2) 1).toNat?.getD 0, timer := fieldAt ent 3 == "t1",
    closing := fieldAt ent 4 == "c1", busy := (tailStr (fieldAt ent 5) 1).toNat?.getD 0 }

def parseLogEnt (l : String) : LogEnt :=
  { sess := parseName (fieldAt l 0), who := parseWho (fieldAt l 1), method := .raw (fieldAt l 2) }

def parseDone (c : String) : Tag × Nat :=
  (parseTag (((c.splitOn "=")[0]?).getD ""), (((c.splitOn "=")[1]?).getD "").toNat?.getD 0)

def parseObs (impl : String) : Obs :=
  (words impl).foldl (fun (o : Obs × Nat) w =>
    let (ob, idx) := o
    if w.startsWith "done:" then ({ ob with done := (splitList (tailStr w 5)).map parseDone }, idx + 1)
    else if w.startsWith "map:" then ({ ob with map := (splitList (tailStr w 4)).map parseMapEnt }, idx + 1)
    else if w.startsWith "srv:" then ({ ob with srv := (splitList (tailStr w 4)).map parseName }, idx + 1)
    else if w.startsWith "log:" then ({ ob with log := (splitList (tailStr w 4)).map parseLogEnt }, idx + 1)
    else if w.startsWith "stale:" then ({ ob with stale := (splitList (tailStr w 6)).map parseName }, idx + 1)
    else if w.startsWith "closed:" then ({ ob with closed := (splitList (tailStr w 7)).map parseName }, idx + 1)
    else if idx = 0 then ({ ob with status := parseSt w }, 1)
    else if idx = 1 then ({ ob with hdr := if w == "-" then none else some (parseName w) }, 2)
    else (ob, idx + 1)) ({ status := .raw "" }, 0) |>.1

/-! ## renderer -/

def Name.render : Name → String
  | .s k => s!"s{k}"
  | .e => "e"
  | .x n => s!"x{n}"
  | .raw str => str

def UserTok.render : UserTok → String
  | .anon => "anon"
  | .ue => "ue"
  | .u n => s!"u{n}"

def LogWho.render : LogWho → String
  | .tok u => u.render
  | .raw s => s

def Owner.render : Owner → String
  | .unbound => "-"
  | .u n => s!"u{n}"
  | .raw s => s

def St.render : St → String
  | .code n => toString n
  | .pending => "pending"
  | .ok => "ok"
  | .noop => "noop"
  | .err => "err"
  | .raw s => s

def Tag.render : Tag → String
  | .p n => s!"p{n}"
  | .q n => s!"q{n}"
  | .d n => s!"d{n}"
  | .c n => s!"c{n}"
  | .r n => s!"r{n}"
  | .u n => s!"u{n}"
  | .raw s => s

def Method.render : Method → String
  | .initialize => "initialize"
  | .ping => "ping"
  | .initialized => "notifications/initialized"
  | .toolsCall => "tools/call"
  | .raw s => s

def MapEnt.render (e : MapEnt) : String :=
  s!"{e.name.render}{if e.badKey then "!key" else ""}/{e.owner.render}/r{e.refs}/t{b2n e.timer}/c{b2n e.closing}/h{e.busy}"

def LogEnt.render (l : LogEnt) : String := s!"{l.sess.render}/{l.who.render}/{l.method.render}"

/-- The canonical observation string (completions and log sorted, as the harness prints them). -/
def Obs.render (o : Obs) : String :=
  let hdr := match o.hdr with | some n => n.render | none => "-"
  let head := s!"{o.status.render} {hdr}{if o.hang then " hang" else ""}"
  s!"{head} done:{joinOr (sortStrs (o.done.map fun c => s!"{c.1.render}={c.2}"))} map:{joinOr (o.map.map MapEnt.render)} srv:{joinOr (o.srv.map Name.render)} log:{joinOr (sortStrs (o.log.map LogEnt.render))} stale:{joinOr (o.stale.map Name.render)}{if o.closed.isEmpty then "" else " closed:" ++ joinOr (sortStrs (o.closed.map Name.render))}"

def Verb.text : Verb → String
  | .post => "post"
  | .get => "get"
  | .delete => "delete"
  | .other => "other"

/-! ## the clause texts -/

/-- A session that the server closed between `Connect` and its publication sits in the handler's table.
Classified as the (repaired) defect F20 only when the source lacks F20's publication check; with the
check in place it is a plain violation of the clause (whatever made the closed session stay). -/
def f20Text : String :=
  if Generated.Sessions.publishChecksClosed then
    "C11:dead_after_removal: session closed by the server during its creating POST is kept in the handler's table"
  else "C11: F20 session closed by the server during its creating POST is kept in the handler's table"

def AnsClause.text : AnsClause → String
  | .statelessNotPost v st => s!"C11:stateless_no_ids_405: {v.text} on a stateless endpoint answered {st.render}"
  | .statelessHonoured st => s!"C11:stateless_no_ids_405: stateless endpoint honoured a session id ({st.render})"
  | .statelessPost st => s!"C11:stateless_no_ids_405: stateless POST answered {st.render}"
  | .otherMethod st => s!"C11:other method answered {st.render}"
  | .createAnswered st => s!"C11:id_minted_only_on_creating_post: POST without a session id answered {st.render}"
  | .missingId v st => s!"C11:{v.text} without a session id answered {st.render}"
  | .unknownHonoured v st => s!"C11:id_addresses_one_session: unknown session id honoured ({v.text} answered {st.render})"
  | .deadAnswered v st => s!"C11:dead_after_removal: {v.text} to a terminated session answered {st.render}"
  | .ownerRejected => "C11:owner_binding: owner rejected"
  | .foreignAnswered v st => s!"C11:owner_binding: {v.text} by another user answered {st.render}"
  | .goneDuringPost => "C11:timer_never_fires_during_post: session gone while a POST is in progress"
  | .liveNotHonoured v => s!"C11:dead_after_removal: live session not honoured ({v.text} answered 404)"
  | .liveAnswered v st => s!"C11:{v.text} to a live session answered {st.render}"

def LogClause.text : LogClause → String
  | .rejectedReached => "C11:owner_binding: handler invoked for a rejected request"
  | .otherUser => "C11:owner_binding: handler saw another user"
  | .statelessWithId => "C11:stateless_no_ids_405: handler ran on a session with an id"
  | .misrouted => "C11:id_addresses_one_session: message routed to another session"
  | .noRequest => "C11:handler invoked without a request"

def MintClause.text : MintClause → String
  | .stateless => "C11:stateless_no_ids_405: stateless endpoint issued a session id"
  | .notCreating => "C11:id_minted_only_on_creating_post: Mcp-Session-Id on a response that created no session"
  | .reused => "C11:id_addresses_one_session: minted id already names a session"
  | .different => "C11:id_minted_only_on_creating_post: response names a different session"

def TblClause.text : TblClause → String
  | .ownerChanged => "C11:id_addresses_one_session: owner of a session changed"
  | .deadInTable n => s!"C11:dead_after_removal: terminated session {n.render} still in the handler's table"
  | .closingDuringPost n => s!"C11:timer_never_fires_during_post: session {n.render} is being closed while a POST is in progress"
  | .closingNoCause n => s!"C11:dead_after_removal: session {n.render} is being closed without DELETE, timeout or server-side close"
  | .f20 => f20Text
  | .keptAfterFailedInit => "C11:dead_after_removal: session kept after a failed initialize"
  | .keptAfterRefusal st => s!"C11:dead_after_removal: session kept although its creating POST was refused ({st.render})"
  | .boundToOther => "C11:owner_binding: session bound to a user other than its creator"
  | .notTheNamed => "C11:id_minted_only_on_creating_post: created session is not the one named in the response"
  | .statelessKeeps => "C11:stateless_no_ids_405: stateless endpoint keeps a session"
  | .appeared => "C11:id_minted_only_on_creating_post: session appeared without a creating POST"

def KeyClause.text : KeyClause → String
  | .duplicate => "C11:id_addresses_one_session: duplicate session id in the handler's table"
  | .badKey => "C11:id_addresses_one_session: table key differs from the session's id"

def GoneClause.text : GoneClause → String
  | .duringPost n => s!"C11:timer_never_fires_during_post: session {n.render} closed while a POST is in progress"
  | .dropped n => s!"C11:dead_after_removal: live session {n.render} dropped without DELETE, timeout or close"

def SrvClause.text : SrvClause → String
  | .statelessId => "C11:stateless_no_ids_405: server session with an id on a stateless endpoint"
  | .notForgotten n => s!"C11:dead_after_removal: server-side session {n.render} not forgotten"
  | .tableKeeps n => s!"C11:dead_after_removal: handler table keeps {n.render} which the server has dropped"

def CloseClause.text : CloseClause → String
  | .stuck n => s!"C05+C11:close_terminates: Close of session {n.render} has begun and none of its handlers is running, yet the session is not closed (it is still in the handler's table)"
  | .timerLeft n => s!"C05+C11:closed_session_timer_never_rearmed: the idle timer of session {n.render} is armed although the session is closed and gone from the handler's table"

def Clause.text : Clause → String
  | .ans c => c.text
  | .log c => c.text
  | .mint c => c.text
  | .tbl c => c.text
  | .key c => c.text
  | .gone c => c.text
  | .srv c => c.text
  | .close c => c.text
  | .noId => "C11:id_minted_only_on_creating_post: creating initialize answered without a session id"
  | .zombieThen c => s!"{f20Text}; then {c.text}"

def EndClause.text : EndClause → String
  | .left => "C05+C11:dead_after_removal: requests or sessions left after every session was closed (a Close that does not return, a session that is not forgotten)"
  | .timersLeft n => s!"C05+C11:closed_session_timer_never_rearmed: {n} idle timer(s) of closed sessions still armed after every session was closed"
  | .zombieLeft => s!"{f20Text}; then C11:dead_after_removal: sessions left after every session was closed"

/-! ## the end-of-case record -/

def EndObs.render (o : EndObs) : String := s!"end stuck={o.stuck} map={o.map} srv={o.srv} timers={o.timers}"

def parseEnd (impl : String) : Option EndObs :=
  match words impl with
  | ["end", a, b, c, t] => do
    let x ← prefixed? "stuck=" a
    let y ← prefixed? "map=" b
    let z ← prefixed? "srv=" c
    let tm ← prefixed? "timers=" t
    let o : EndObs := { stuck := x, map := y, srv := z, timers := tm }
    if o.render == impl then some o else none
  | _ => none

/-! ## the configurations without kept sessions (Ephemeral.lean) -/

def Eph.EClause.text (m : Eph.Mode) : Eph.EClause → String
  | .methodAnswered v st =>
    match m with
    | .legacy => s!"C11:stateless_no_ids_405: {v.text} on a stateless endpoint (allowsessionsinstateless=1) answered {st.render}"
    | .noIds => s!"C11:{v.text} method answered {st.render}"
  | .legacyDelete hasId st => s!"C11:stateless DELETE (allowsessionsinstateless=1) {if hasId then "with" else "without"} a session id answered {st.render}"
  | .unknownHonoured v st => s!"C11:id_addresses_one_session: unknown session id honoured ({v.text} answered {st.render})"
  | .missingId v st => s!"C11:{v.text} without a session id answered {st.render}"
  | .postAnswered st => s!"C11:POST that a temporary session must serve answered {st.render}"
  | .issued => "C11:id_minted_only_on_creating_post: Mcp-Session-Id issued although GetSessionID returns no id"
  | .hdrNotInitialize => "C11:id_minted_only_on_creating_post: Mcp-Session-Id on a response that created no session"
  | .hdrDifferent => "C11:id_minted_only_on_creating_post: response names a different session"
  | .hdrReused => "C11:id_addresses_one_session: minted id already names a session"
  | .keeps =>
    match m with
    | .legacy => "C11:stateless_no_ids_405: stateless endpoint keeps a session"
    | .noIds => "C11:dead_after_removal: temporary session kept in the handler's table"
  | .notClosed => "C11:dead_after_removal: temporary session not closed and forgotten when its POST ended"
  | .sessionWithId => "C11:id_minted_only_on_creating_post: server session with an id although GetSessionID returns no id"
  | .rejectedReached => "C11:owner_binding: handler invoked for a rejected request"
  | .misrouted => "C11:id_addresses_one_session: message routed to another session"
  | .timerLeft => "C05+C11:closed_session_timer_never_rearmed: an idle timer is armed on an endpoint that keeps no session"
  | .storeTold want got => s!"C05+C11:dead_after_removal: {want} temporary session(s) ended, the event store's SessionClosed was called {got} time(s)"

/-- `Server.Sessions()` as the harness prints it: sorted by length, then alphabetically. -/
def sortSrv (l : List Name) : List Name :=
  l.mergeSort (fun a b => a.render.length < b.render.length || (a.render.length == b.render.length && a.render ≤ b.render))

/-! ## requests refused before the session layer (Gate.lean) -/

def parseWhy (s : String) : Option Why :=
  match s with
  | "ctype" => some .ctype
  | "accept" => some .accept
  | "getaccept" => some .getAccept
  | "noserver" => some .noServer
  | "origin" => some .origin
  | "host" => some .host
  | _ => none

def Why.text : Why → String
  | .ctype => "POST with a Content-Type other than application/json"
  | .accept => "POST whose Accept lacks application/json or text/event-stream"
  | .getAccept => "GET whose Accept lacks text/event-stream"
  | .noServer => "POST without a session id for which getServer returns nil"
  | .origin => "cross-site POST under CrossOriginProtection"
  | .host => "request on a loopback address with a foreign Host"

def GateClause.text : GateClause → String
  | .answered w st => s!"C11:request that must be refused ({w.text}) answered {st.render}"
  | .effect c => s!"{c.text} (after a request that is refused before the session layer and must have no effect)"

/-! ## the engine -/

structure DState where
  r : RState := .init { stateless := false, timeout := 100, publishChecks := Generated.Sessions.publishChecksClosed }
  mon : Mon := {}
  eph : Option (Eph.State × Eph.MState) := none     -- `reset legacy|noids`: the case runs on Ephemeral.lean

def engine : Engine DState where
  init := {}
  step d toks impl :=
    match toks with
    | "reset" :: "legacy" :: _ :: rest =>
      ({ eph := some ({ mode := .legacy, es := rest.head? == some "es" }, { mode := .legacy, es := rest.head? == some "es" }) }, { model := "ok" })
    | "reset" :: "noids" :: _ :: rest =>
      ({ eph := some ({ mode := .noIds, es := rest.head? == some "es" }, { mode := .noIds, es := rest.head? == some "es" }) }, { model := "ok" })
    | "reset" :: mode :: ms :: rest =>
      let cfg : Cfg := { stateless := mode == "stateless", timeout := ms.toNat?.getD 0,
                         publishChecks := Generated.Sessions.publishChecksClosed,
                         eventStore := rest.head? == some "es" }
      ({ r := .init cfg }, { model := "ok" })
    | ["reset"] => ({}, { model := "ok" })
    | ["end"] =>
      if d.eph.isSome then
        let want : EndObs := { stuck := 0, map := 0, srv := 0, timers := 0 }
        (d, { model := want.render, violated := (monEnd {} (parseEnd impl)).map EndClause.text })
      else
      -- (the unrepaired publication of F20 leaves its dead sessions behind: the model follows it)
      let want : EndObs := { stuck := 0, map := endLeft d.r, srv := 0, timers := 0 }
      (d, { model := want.render, violated := (monEnd d.mon (parseEnd impl)).map EndClause.text })
    | ["bad", why, _, _] =>
      -- a request that is refused before the session layer: for model and monitor a `tick 0` plus its status
      match parseWhy why, d.eph with
      | some w, none =>
        let (mon', v) := gateJudge d.r.st.cfg d.mon w (parseObs impl)
        match gateModel d.r w with
        | none => ({ d with mon := mon' }, { model := "bad-op", violated := v.map GateClause.text })
        | some (r, mo) => ({ d with r := r, mon := mon' }, { model := mo.render, violated := v.map GateClause.text })
      | _, _ => (d, { model := "bad-op" })
    | _ =>
      match parseOp toks with
      | none => (d, { model := "bad-op" })
      | some op =>
        if let some (es, em) := d.eph then
          let o := parseObs impl
          let (v, em') := Eph.judge em op o
          match Eph.modelOp es op with
          | none => ({ d with eph := some (es, em') }, { model := "bad-op", violated := v.map (Eph.EClause.text em.mode) })
          | some (es', mo) =>
            ({ d with eph := some (es', em') },
             { model := ({ mo with srv := sortSrv mo.srv } : Obs).render, violated := v.map (Eph.EClause.text em.mode) })
        else
        -- (a POST with a piecewise body is not modelled on a stateless endpoint: the harness refuses it too)
        if d.r.st.cfg.stateless && (match op with | .postb _ _ | .body _ _ => true | _ => false) then (d, { model := "bad-op" }) else
        let mr := monStep d.r.st.cfg d.mon op (parseObs impl)
        match replayOp d.r op with
        | none => ({ d with mon := mr.mon }, { model := "bad-op", violated := mr.viol.map Clause.text })
        | some (r, mo) => ({ r := r, mon := mr.mon }, { model := mo.render, violated := mr.viol.map Clause.text })

end Sessions

def main : IO Unit := Proto.run Sessions.engine
