import McpModel.Sessions.BridgeOps7
/-!
Bridge (E7/C11): the stateless endpoint — the model keeps no table, the monitor learns of no session.
-/
namespace Sessions

theorem bookDone_nil_pend (now : Nat) (tbl : List MSess) (done : List (Tag × Nat)) :
    bookDone now tbl [] done = (tbl, []) := by
  unfold bookDone
  induction done with
  | nil => rfl
  | cons c rest ih => simp only [List.foldl_cons, bookDone1, List.find?_nil]; exact ih

theorem doL_stateless {s : State} (hsl : s.cfg.stateless = true) (l : Label) :
    (doL s l).cfg = s.cfg ∧ (doL s l).tbl = s.tbl ∧ (doL s l).next = s.next ∧
    ((doL s l).faults = s.faults ∨ ∃ f, l = .faults f ∧ (doL s l).faults = f) := by
  unfold doL
  cases hstep : step s l with
  | none => exact ⟨rfl, rfl, rfl, Or.inl rfl⟩
  | some p =>
    obtain ⟨s', r⟩ := p
    simp only [step, hsl, if_true] at hstep
    cases l <;> simp only [stepStateless] at hstep
    case postBegin sid u k =>
      split at hstep <;> (cases hstep; exact ⟨rfl, rfl, rfl, Or.inl rfl⟩)
    case postEnd sid c =>
      cases sid <;> simp only [] at hstep
      · split at hstep
        · cases hstep
        · cases hstep; exact ⟨rfl, rfl, rfl, Or.inl rfl⟩
      · cases hstep
    case get => cases hstep; exact ⟨rfl, rfl, rfl, Or.inl rfl⟩
    case delete => cases hstep; exact ⟨rfl, rfl, rfl, Or.inl rfl⟩
    case other => cases hstep; exact ⟨rfl, rfl, rfl, Or.inl rfl⟩
    case tick => cases hstep; exact ⟨rfl, rfl, rfl, Or.inl rfl⟩
    case faults f => cases hstep; exact ⟨rfl, rfl, rfl, Or.inr ⟨f, rfl, rfl⟩⟩
    all_goals cases hstep

/-- the event store's script after an operation -/
def faultsOfOp (d : RState) (op : Op) : Faults :=
  match op with
  | .fault f => if d.st.cfg.eventStore then f else d.st.faults
  | _ => d.st.faults

/-- what a record of a stateless endpoint looks like, and where it leaves the model -/
structure SLOut (d : RState) (op : Op) (d' : RState) (o : Obs) : Prop where
  cfg : d'.st.cfg = d.st.cfg
  tbl : d'.st.tbl = []
  next : d'.st.next = d.st.next
  faults : d'.st.faults = faultsOfOp d op
  map : o.map = []
  hdr : o.hdr = none
  srv : ∀ n ∈ o.srv, n = Name.e
  fstat : ∀ f, op = .fault f → o.status = (if d.st.cfg.eventStore then .ok else .noop)
  ans : ∀ r, op.req = some r →
    (r.verb ≠ .post → o.status = .code 405 ∧ o.log = []) ∧
    (r.verb = .post →
      (o.status = .pending ∨ o.status = .code 200 ∨ o.status = .code 202 ∨
        (o.status = .code 500 ∧ d.st.connectFails = true) ∨
        (o.status = .code 500 ∧ d.st.openFails = true ∧ r.kind ≠ some .notif)) ∧
      ∀ l ∈ o.log, l.sess = .e ∧ l.who = .tok r.user)
  nolog : op.req = none → o.log = []
  stale : o.stale = []
  notBody : ∀ n f, op ≠ .body n f

theorem showSrv_stateless {s : State} (hsl : s.cfg.stateless = true) : ∀ n ∈ showSrv s, n = Name.e := by
  intro n hn
  simp only [showSrv, hsl, if_true] at hn
  exact (List.mem_replicate.mp hn).2

theorem slOut_of_mo {d d' : RState} {op : Op} {o : Obs} {mo : ROut} (hsl : d.st.cfg.stateless = true)
    (hmo : modelOp d op = some mo) (h1 : mo.st.cfg = d.st.cfg) (h2 : mo.st.tbl = []) (h3 : mo.st.next = d.st.next)
    (h4 : mo.st.faults = faultsOfOp d op)
    (h5 : mo.hdr = none)
    (h6 : ∀ f, op = .fault f → mo.status = (if d.st.cfg.eventStore then .ok else .noop))
    (h7 : ∀ r, op.req = some r →
      (r.verb ≠ .post → mo.status = .code 405 ∧ mo.log = []) ∧
      (r.verb = .post →
        (mo.status = .pending ∨ mo.status = .code 200 ∨ mo.status = .code 202 ∨
          (mo.status = .code 500 ∧ d.st.connectFails = true) ∨
          (mo.status = .code 500 ∧ d.st.openFails = true ∧ r.kind ≠ some .notif)) ∧
        ∀ l ∈ mo.log, l.sess = .e ∧ l.who = .tok r.user))
    (h8 : op.req = none → mo.log = [])
    (hop : replayOp d op = some (d', o)) : SLOut d op d' o := by
  simp only [replayOp, hmo, settle_stateless h2] at hop
  simp only [Option.some.injEq, Prod.mk.injEq] at hop
  obtain ⟨rfl, rfl⟩ := hop
  refine ⟨h1, h2, h3, h4, by simp [showMap, h2], h5, showSrv_stateless (by rw [h1]; exact hsl), h6, h7, h8,
    by simp [showStale, h2], ?_⟩
  intro n f hb
  subst hb
  simp [modelOp, hsl] at hmo

theorem slOut {d d' : RState} {op : Op} {o : Obs} (hsl : d.st.cfg.stateless = true) (ht : d.st.tbl = [])
    (hop : replayOp d op = some (d', o)) : SLOut d op d' o := by
  have hdl := fun l => doL_stateless hsl l
  cases op with
  | post ref u kind =>
    cases hcf : d.st.connectFails with
    | true =>
      refine slOut_of_mo (mo := { st := d.st, status := .code 500, pend := d.pend, nslow := (if kind == .slow then d.nslow + 1 else d.nslow), nasync := (if kind == .slow then d.nasync else d.nasync + 1), released := d.released }) hsl ?_ rfl ht rfl rfl rfl (by intro f h; cases h) ?_ (by intro h; cases h) hop
      · simp [modelOp, hsl, step, stepStateless, hcf, stConnectFailed, Generated.Sessions.connectFailed]
      · intro r hr; cases hr
        refine ⟨by intro h; exact absurd rfl h, fun _ => ⟨Or.inr (Or.inr (Or.inr (Or.inl ⟨rfl, hcf⟩))), by intro l hl; cases hl⟩⟩
    | false =>
      cases hacc : d.st.accepts kind.kind with
      | false =>
        have hacc' : kind.kind.hasCall = true ∧ d.st.openFails = true := by simpa [State.accepts] using hacc
        have hd := hdl (.postEnd none false)
        refine slOut_of_mo (mo := { st := doL { d.st with eph := d.st.eph + 1 } (.postEnd none false), status := .code 500, pend := d.pend, nslow := (if kind == .slow then d.nslow + 1 else d.nslow), nasync := (if kind == .slow then d.nasync else d.nasync + 1), released := d.released }) hsl ?_ ?_ ?_ ?_ ?_ rfl (by intro f h; cases h) ?_ (by intro h; cases h) hop
        · simp [modelOp, hsl, step, stepStateless, hcf, postResp, hacc, stStoreOpenFailed, Generated.Sessions.storeOpenFailed]
        · exact (doL_stateless (s := { d.st with eph := d.st.eph + 1 }) hsl _).1
        · rw [(doL_stateless (s := { d.st with eph := d.st.eph + 1 }) hsl _).2.1]; exact ht
        · exact (doL_stateless (s := { d.st with eph := d.st.eph + 1 }) hsl _).2.2.1
        · rcases (doL_stateless (s := { d.st with eph := d.st.eph + 1 }) hsl (.postEnd none false)).2.2.2 with h | ⟨f, h, _⟩
          · exact h
          · cases h
        · intro r hr; cases hr
          refine ⟨by intro h; exact absurd rfl h, fun _ => ⟨Or.inr (Or.inr (Or.inr (Or.inr ⟨rfl, hacc'.2, ?_⟩))), by intro l hl; cases hl⟩⟩
          rw [kind_hasCall] at hacc'
          intro h; cases h; simp at hacc'
      | true =>
        cases hks : (kind == PKind.slow) with
        | true =>
          have : kind = .slow := by cases kind <;> simp_all
          subst this
          refine slOut_of_mo (mo := { st := { d.st with eph := d.st.eph + 1 }, status := .pending, log := [⟨.e, .tok u, .toolsCall⟩], pend := d.pend ++ [Pend.mk (.p (d.nslow + 1)) (.slow none (d.nslow + 1))], nslow := d.nslow + 1, nasync := d.nasync, released := d.released }) hsl ?_ rfl ht rfl rfl rfl (by intro f h; cases h) ?_ (by intro h; cases h) hop
          · simp [modelOp, hsl, step, stepStateless, hcf, postResp, hacc]
          · intro r hr; cases hr
            refine ⟨by intro h; exact absurd rfl h, fun _ => ⟨Or.inl rfl, ?_⟩⟩
            intro l hl; simp at hl; subst hl; exact ⟨rfl, rfl⟩
        | false =>
          refine slOut_of_mo (mo := { st := doL { d.st with eph := d.st.eph + 1 } (.postEnd none false), status := (if kind == .notif then .code 202 else .code 200), log := slLog u kind, pend := d.pend, nslow := (if kind == .slow then d.nslow + 1 else d.nslow), nasync := (if kind == .slow then d.nasync else d.nasync + 1), released := d.released }) hsl ?_ ?_ ?_ ?_ ?_ rfl (by intro f h; cases h) ?_ (by intro h; cases h) hop
          · simp [modelOp, hsl, step, stepStateless, hcf, postResp, hacc, hks]
          · exact (doL_stateless (s := { d.st with eph := d.st.eph + 1 }) hsl _).1
          · rw [(doL_stateless (s := { d.st with eph := d.st.eph + 1 }) hsl _).2.1]; exact ht
          · exact (doL_stateless (s := { d.st with eph := d.st.eph + 1 }) hsl _).2.2.1
          · rcases (doL_stateless (s := { d.st with eph := d.st.eph + 1 }) hsl (.postEnd none false)).2.2.2 with h | ⟨f, h, _⟩
            · exact h
            · cases h
          · intro r hr; cases hr
            refine ⟨by intro h; exact absurd rfl h, fun _ => ⟨?_, ?_⟩⟩
            · cases kind <;> simp
            · intro l hl
              cases kind <;> simp [slLog] at hl <;> (try subst hl) <;> first | exact ⟨rfl, rfl⟩ | cases hl
  | postx u kind =>
    simp [replayOp, modelOp, hsl] at hop
  | postb ref u =>
    simp [replayOp, modelOp, hsl] at hop
  | body n fin =>
    simp [replayOp, modelOp, hsl] at hop
  | release k =>
    by_cases hno : (k = 0 || k > d.nslow || d.released.contains k) = true
    · refine slOut_of_mo (mo := { st := d.st, status := .noop, pend := d.pend, nslow := d.nslow, nasync := d.nasync, released := d.released }) hsl ?_ rfl ht rfl rfl rfl (by intro f h; cases h) (by intro r h; cases h) (fun _ => rfl) hop
      simp only [modelOp]; rw [if_pos hno]
    · cases hfind : d.pend.find? (slotIs k) with
      | none =>
        refine slOut_of_mo (mo := { st := d.st, status := .ok, pend := d.pend, nslow := d.nslow, nasync := d.nasync, released := d.released ++ [k] }) hsl ?_ rfl ht rfl rfl rfl (by intro f h; cases h) (by intro r h; cases h) (fun _ => rfl) hop
        simp only [modelOp]; rw [if_neg hno, hfind]
      | some p =>
        have key : ∀ (st1 : State) (dn : List (Tag × Nat)) (pd : List Pend), (∃ l, st1 = doL d.st l ∧ ∀ f, l ≠ .faults f) ∨ st1 = d.st →
            modelOp d (.release k) = some { st := st1, status := .ok, done := dn, pend := pd, nslow := d.nslow, nasync := d.nasync, released := d.released ++ [k] } →
            SLOut d (.release k) d' o := by
          intro st1 dn pd hst1 hmo
          have hfacts : st1.cfg = d.st.cfg ∧ st1.tbl = d.st.tbl ∧ st1.next = d.st.next ∧ st1.faults = d.st.faults := by
            rcases hst1 with ⟨l, rfl, hl⟩ | rfl
            · have := hdl l
              refine ⟨this.1, this.2.1, this.2.2.1, ?_⟩
              rcases this.2.2.2 with h | ⟨f, h, _⟩
              · exact h
              · exact absurd h (hl f)
            · exact ⟨rfl, rfl, rfl, rfl⟩
          exact slOut_of_mo hsl hmo hfacts.1 (by rw [hfacts.2.1]; exact ht) hfacts.2.2.1 hfacts.2.2.2 rfl (by intro f h; cases h) (by intro r h; cases h) (fun _ => rfl) hop
        cases hpk : p.kind with
        | slow sid slot =>
          cases sid with
          | some i =>
            -- (a parked POST of a session: not on a stateless endpoint, but the replay does not care)
            have h2 := hdl (.handlerDone i false)
            have hsl2 : (doL d.st (.handlerDone i false)).cfg.stateless = true := by rw [h2.1]; exact hsl
            have h3 := doL_stateless hsl2 (.postEnd (some i) false)
            have hfacts : (doL (doL d.st (.handlerDone i false)) (.postEnd (some i) false)).cfg = d.st.cfg ∧
                (doL (doL d.st (.handlerDone i false)) (.postEnd (some i) false)).tbl = d.st.tbl ∧
                (doL (doL d.st (.handlerDone i false)) (.postEnd (some i) false)).next = d.st.next ∧
                (doL (doL d.st (.handlerDone i false)) (.postEnd (some i) false)).faults = d.st.faults := by
              refine ⟨by rw [h3.1, h2.1], by rw [h3.2.1, h2.2.1], by rw [h3.2.2.1, h2.2.2.1], ?_⟩
              rcases h3.2.2.2 with h | ⟨f, h, _⟩
              · rw [h]
                rcases h2.2.2.2 with h' | ⟨f, h', _⟩
                · exact h'
                · cases h'
              · cases h
            refine slOut_of_mo (mo := { st := doL (doL d.st (.handlerDone i false)) (.postEnd (some i) false), status := .ok, done := [(p.tag, 200)], pend := d.pend.filter (fun q => q.tag != p.tag), nslow := d.nslow, nasync := d.nasync, released := d.released ++ [k] })
              hsl ?_ hfacts.1 (by rw [hfacts.2.1]; exact ht) hfacts.2.2.1 hfacts.2.2.2 rfl (by intro f h; cases h) (by intro r h; cases h) (fun _ => rfl) hop
            simp only [modelOp]; rw [if_neg hno, hfind]; simp only [hpk]
          | none =>
            apply key (doL d.st (.postEnd none false)) [(p.tag, 200)] (d.pend.filter (fun q => q.tag != p.tag)) (Or.inl ⟨_, rfl, by intro f h; cases h⟩)
            simp only [modelOp]; rw [if_neg hno, hfind]; simp only [hpk]
        | run i slot =>
          apply key (doL d.st (.handlerDone i false)) [] (d.pend.filter (fun q => q.tag != p.tag)) (Or.inl ⟨_, rfl, by intro f h; cases h⟩)
          simp only [modelOp]; rw [if_neg hno, hfind]; simp only [hpk]
        | del i f =>
          apply key d.st [] d.pend (Or.inr rfl)
          simp only [modelOp]; rw [if_neg hno, hfind]; simp only [hpk]
        | cls i =>
          apply key d.st [] d.pend (Or.inr rfl)
          simp only [modelOp]; rw [if_neg hno, hfind]; simp only [hpk]
        | upl i n usr =>
          apply key d.st [] d.pend (Or.inr rfl)
          simp only [modelOp]; rw [if_neg hno, hfind]; simp only [hpk]
  | abandon k =>
    cases hfind : d.pend.find? (fun p => p.tag == Tag.p k) with
    | none =>
      refine slOut_of_mo (mo := { st := d.st, status := .noop, pend := d.pend, nslow := d.nslow, nasync := d.nasync, released := d.released }) hsl ?_ rfl ht rfl rfl rfl (by intro f h; cases h) (by intro r h; cases h) (fun _ => rfl) hop
      simp only [modelOp, hfind]
    | some p =>
      cases hpk : p.kind with
      | slow sid slot =>
        cases sid with
        | some i =>
          have h2 := hdl (.postEnd (some i) false)
          refine slOut_of_mo (mo := { st := doL d.st (.postEnd (some i) false), status := .ok, done := [(Tag.p k, 200)], pend := d.pend.filter (fun q => q.tag != Tag.p k) ++ [⟨.r k, .run i slot⟩], nslow := d.nslow, nasync := d.nasync, released := d.released })
            hsl ?_ h2.1 (by rw [h2.2.1]; exact ht) h2.2.2.1 ?_ rfl (by intro f h; cases h) (by intro r h; cases h) (fun _ => rfl) hop
          · simp only [modelOp, hfind, hpk]
          · rcases h2.2.2.2 with h | ⟨f, h, _⟩
            · exact h
            · cases h
        | none =>
          refine slOut_of_mo (mo := { st := d.st, status := .ok, pend := d.pend, nslow := d.nslow, nasync := d.nasync, released := d.released }) hsl ?_ rfl ht rfl rfl rfl (by intro f h; cases h) (by intro r h; cases h) (fun _ => rfl) hop
          simp only [modelOp, hfind, hpk]
      | run i slot =>
        refine slOut_of_mo (mo := { st := d.st, status := .noop, pend := d.pend, nslow := d.nslow, nasync := d.nasync, released := d.released }) hsl ?_ rfl ht rfl rfl rfl (by intro f h; cases h) (by intro r h; cases h) (fun _ => rfl) hop
        simp only [modelOp, hfind, hpk]
      | del i f =>
        refine slOut_of_mo (mo := { st := d.st, status := .noop, pend := d.pend, nslow := d.nslow, nasync := d.nasync, released := d.released }) hsl ?_ rfl ht rfl rfl rfl (by intro f h; cases h) (by intro r h; cases h) (fun _ => rfl) hop
        simp only [modelOp, hfind, hpk]
      | cls i =>
        refine slOut_of_mo (mo := { st := d.st, status := .noop, pend := d.pend, nslow := d.nslow, nasync := d.nasync, released := d.released }) hsl ?_ rfl ht rfl rfl rfl (by intro f h; cases h) (by intro r h; cases h) (fun _ => rfl) hop
        simp only [modelOp, hfind, hpk]
      | upl i n usr =>
        refine slOut_of_mo (mo := { st := d.st, status := .noop, pend := d.pend, nslow := d.nslow, nasync := d.nasync, released := d.released }) hsl ?_ rfl ht rfl rfl rfl (by intro f h; cases h) (by intro r h; cases h) (fun _ => rfl) hop
        simp only [modelOp, hfind, hpk]
  | get ref u =>
    refine slOut_of_mo (mo := { st := d.st, status := .code 405, pend := d.pend, nslow := d.nslow, nasync := d.nasync + 1, released := d.released }) hsl ?_ rfl ht rfl rfl rfl (by intro f h; cases h) ?_ (by intro h; cases h) hop
    · simp [modelOp, hsl, step, stepStateless, stStatelessNotPost, Generated.Sessions.statelessNotPost]
    · intro r hr; cases hr
      exact ⟨fun _ => ⟨rfl, rfl⟩, by intro h; cases h⟩
  | delete ref u =>
    refine slOut_of_mo (mo := { st := d.st, status := .code 405, pend := d.pend, nslow := d.nslow, nasync := d.nasync + 1, released := d.released }) hsl ?_ rfl ht rfl rfl rfl (by intro f h; cases h) ?_ (by intro h; cases h) hop
    · simp [modelOp, hsl, step, stepStateless, stStatelessNotPost, Generated.Sessions.statelessNotPost]
    · intro r hr; cases hr
      exact ⟨fun _ => ⟨rfl, rfl⟩, by intro h; cases h⟩
  | other ref u =>
    refine slOut_of_mo (mo := { st := d.st, status := .code 405, pend := d.pend, nslow := d.nslow, nasync := d.nasync + 1, released := d.released }) hsl ?_ rfl ht rfl rfl rfl (by intro f h; cases h) ?_ (by intro h; cases h) hop
    · simp [modelOp, hsl, step, stepStateless, stStatelessNotPost, Generated.Sessions.statelessNotPost]
    · intro r hr; cases hr
      exact ⟨fun _ => ⟨rfl, rfl⟩, by intro h; cases h⟩
  | tick n =>
    refine slOut_of_mo (mo := { st := { d.st with now := d.st.now + n }, status := .ok, pend := d.pend, nslow := d.nslow, nasync := d.nasync, released := d.released }) hsl ?_ rfl ht rfl rfl rfl (by intro f h; cases h) (by intro r h; cases h) (fun _ => rfl) hop
    simp only [modelOp, doL_tick]
  | fault f =>
    cases hes : d.st.cfg.eventStore with
    | false =>
      refine slOut_of_mo (mo := { st := d.st, status := .noop, pend := d.pend, nslow := d.nslow, nasync := d.nasync, released := d.released }) hsl ?_ rfl ht rfl (by simp [faultsOfOp, hes]) rfl (by intro f' h; simp [hes]) (by intro r h; cases h) (fun _ => rfl) hop
      simp [modelOp, hes]
    | true =>
      refine slOut_of_mo (mo := { st := { d.st with faults := f }, status := .ok, pend := d.pend, nslow := d.nslow, nasync := d.nasync, released := d.released }) hsl ?_ rfl ht rfl (by simp [faultsOfOp, hes]) rfl (by intro f' h; simp [hes]) (by intro r h; cases h) (fun _ => rfl) hop
      simp [modelOp, hes, doL_faults]
  | close ref =>
    refine slOut_of_mo (mo := { st := d.st, status := .noop, pend := d.pend, nslow := d.nslow, nasync := d.nasync, released := d.released }) hsl ?_ rfl ht rfl rfl rfl (by intro f h; cases h) (by intro r h; cases h) (fun _ => rfl) hop
    simp only [modelOp, hsl]
    cases ref.sid d.st.next <;> simp

end Sessions
