import McpModel.Sessions.BridgeInv
/-!
Bridge (E7/C11): the table checks (5a–5d) of the monitor pass on the snapshot of any model state that is
related to the monitor's table, and reaping the dying sessions re-establishes the full relation.
-/
namespace Sessions

theorem scanMap_known (cfg : Cfg) (now : Nat) (req : Option Req) (st : St) (hdr : Option Name) (tbl : List MSess) :
    ∀ (l : List MapEnt),
      (∀ ent ∈ l, ∃ a, monFind tbl ent.name = some a ∧ a.owner = ent.owner ∧ a.life ≠ .dead ∧
        ¬(a.life = .live ∧ ent.closing = true)) →
      scanMap cfg now req st hdr tbl l = (tbl, none) := by
  intro l
  induction l with
  | nil => intro _; rfl
  | cons ent rest ih =>
    intro h
    obtain ⟨a, ha, ho, hd, hc⟩ := h ent List.mem_cons_self
    have hj : judgeEntry cfg now req st hdr tbl ent = (tbl, none) := by
      unfold judgeEntry
      rw [ha]
      have h1 : (a.owner != ent.owner) = false := by simp [ho]
      have h2 : (a.life == Life.dead) = false := by simp [hd]
      have h3 : (a.life == Life.live && ent.closing) = false := by
        cases hl : a.life <;> cases hcl : ent.closing <;> simp_all
      simp [h1, h2, h3]
    simp only [scanMap, hj]
    rw [ih (fun e he => h e (List.mem_cons_of_mem _ he))]
    rfl

theorem scanMap_append (cfg : Cfg) (now : Nat) (req : Option Req) (st : St) (hdr : Option Name) :
    ∀ (l₁ l₂ : List MapEnt) (tbl : List MSess),
      scanMap cfg now req st hdr tbl (l₁ ++ l₂) =
        ((scanMap cfg now req st hdr (scanMap cfg now req st hdr tbl l₁).1 l₂).1,
         firstViol (scanMap cfg now req st hdr tbl l₁).2 (scanMap cfg now req st hdr (scanMap cfg now req st hdr tbl l₁).1 l₂).2) := by
  intro l₁
  induction l₁ with
  | nil => intro l₂ tbl; simp [scanMap, firstViol]
  | cons ent rest ih =>
    intro l₂ tbl
    simp only [List.cons_append, scanMap]
    rw [ih]
    cases (judgeEntry cfg now req st hdr tbl ent).2 <;> simp [firstViol]

theorem firstSome_none {α β} {f : α → Option β} {l : List α} (h : ∀ x ∈ l, f x = none) : firstSome f l = none := by
  induction l with
  | nil => rfl
  | cons a t ih =>
    simp only [firstSome, h a List.mem_cons_self]
    exact ih (fun x hx => h x (List.mem_cons_of_mem _ hx))

theorem eraseDups_of_nodup {α} [BEq α] [LawfulBEq α] : ∀ {l : List α}, l.Nodup → l.eraseDups = l := by
  intro l
  induction l with
  | nil => intro _; simp
  | cons a t ih =>
    intro h
    have h' := List.nodup_cons.mp h
    rw [List.eraseDups_cons]
    have : t.filter (fun b => !b == a) = t := by
      apply List.filter_eq_self.mpr
      intro b hb
      have : b ≠ a := fun hh => h'.1 (hh ▸ hb)
      simp [this]
    rw [this, ih h'.2]

/-! ### snapshots of the model -/

def entOf (e : Sess) : MapEnt :=
  { name := sname e.id, owner := ownerOf e.owner, refs := e.refs, timer := e.timer != .nil, closing := e.closing,
    busy := e.busy + e.initBusy }

theorem showMap_eq (s : State) : showMap s = (s.tbl.filter (·.inMap)).map entOf := rfl

theorem showMap_names (s : State) : (showMap s).map (·.name) = (s.tbl.filter (·.inMap)).map (fun e => sname e.id) := by
  simp [showMap_eq, entOf, Function.comp_def]

theorem names_nodup {t : List Sess} (hn : NodupIds t) (p : Sess → Bool) :
    ((t.filter p).map (fun e => sname e.id)).Nodup := by
  induction t with
  | nil => simp
  | cons x t ih =>
    have hc := List.nodup_cons.mp hn
    have hrest := ih hc.2
    simp only [List.filter_cons]
    split
    · simp only [List.map_cons, List.nodup_cons]
      refine ⟨?_, hrest⟩
      intro hm
      obtain ⟨y, hy, hyx⟩ := List.mem_map.mp hm
      have := sname_inj hyx
      exact hc.1 (List.mem_map.mpr ⟨y, (List.mem_filter.mp hy).1, this⟩)
    · exact hrest

theorem mem_names_iff {s : State} (hi : Inv s) {e : Sess} (he : e ∈ s.tbl) :
    sname e.id ∈ (showMap s).map (·.name) ↔ e.inMap = true := by
  rw [showMap_names]
  constructor
  · intro hm
    obtain ⟨y, hy, hyx⟩ := List.mem_map.mp hm
    have hy' := List.mem_filter.mp hy
    have := entry_unique hi hy'.1 he (sname_inj hyx)
    rw [← this]; exact hy'.2
  · intro h
    exact List.mem_map.mpr ⟨e, List.mem_filter.mpr ⟨he, h⟩, rfl⟩

/-! ### the table checks -/

structure TblPre (cfg : Cfg) (st : State) (pend : List Pend) (tbl : List MSess) : Prop where
  inv : Inv st
  stateful : st.cfg.stateless = false
  inmap : ∀ e ∈ st.tbl, e.inMap = !e.removed
  mnodup : (tbl.map (·.name)).Nodup
  minted : ∀ a ∈ tbl, ∃ i, i < st.next ∧ a.name = sname i
  rel : ∀ e ∈ st.tbl, RelPreAt cfg pend tbl e

def reap1 (names : List Name) (e : MSess) : MSess :=
  if e.life == .dying && !names.contains e.name then { e with life := .dead } else e

theorem reapDying_eq (names : List Name) (tbl : List MSess) : reapDying names tbl = tbl.map (reap1 names) := rfl

theorem keepsName_reap1 (names : List Name) : KeepsName (reap1 names) := by
  intro a; unfold reap1; split <;> rfl

theorem map_names_keeps {g : MSess → MSess} (h : KeepsName g) (t : List MSess) :
    (t.map g).map (·.name) = t.map (·.name) := by
  induction t with
  | nil => rfl
  | cons x t ih => simp [h x, ih]

theorem table_checks {cfg : Cfg} {st : State} {pend : List Pend} {tbl : List MSess}
    (h : TblPre cfg st pend tbl) (hcfg : cfg.stateless = false) (now : Nat) (req : Option Req) (stt : St) (hdr : Option Name) :
    scanMap cfg now req stt hdr tbl (showMap st) = (tbl, none) ∧
    chkKeys (showMap st) = none ∧
    chkGone ((showMap st).map (·.name)) tbl = none ∧
    chkSrv cfg ((showMap st).map (·.name)) (showSrv st) = none ∧
    (∀ e ∈ st.tbl, RelAt cfg pend (reapDying ((showMap st).map (·.name)) tbl) e) := by
  have hi := h.inv
  refine ⟨?_, ?_, ?_, ?_, ?_⟩
  · -- (5a)
    apply scanMap_known
    intro ent hent
    rw [showMap_eq] at hent
    obtain ⟨e, he, rfl⟩ := List.mem_map.mp hent
    have he' := List.mem_filter.mp he
    have hrel := h.rel e he'.1
    have hrm : e.removed = false := by
      have := h.inmap e he'.1; rw [he'.2] at this; simpa using this.symm
    unfold RelPreAt at hrel
    cases hf : monFind tbl (sname e.id) with
    | none => rw [hf] at hrel; rw [hrel] at hrm; cases hrm
    | some a =>
      rw [hf] at hrel
      refine ⟨a, hf, hrel.owner, ?_, ?_⟩
      · intro hd; have := hrel.dead hd; rw [this] at hrm; cases hrm
      · intro ⟨hl, hc⟩
        have := (hrel.live.mp hl).2
        simp only [entOf] at hc
        rw [this] at hc; cases hc
  · -- (5b)
    unfold chkKeys
    have hnd : ((showMap st).map (·.name)).Nodup := by
      rw [showMap_names]; exact names_nodup (inv_nodupIds hi) _
    have hbk : (showMap st).any (·.badKey) = false := by
      rw [showMap_eq]
      simp [List.any_eq_false, entOf]
    simp [eraseDups_of_nodup hnd, hbk]
  · -- (5c)
    unfold chkGone
    apply firstSome_none
    intro a ha
    obtain ⟨i, hi', hname⟩ := h.minted a ha
    obtain ⟨e, hfe⟩ := findSess_of_lt hi hi'
    have hmem := (findSess_some hfe).1
    have hid := (findSess_some hfe).2
    have hfa : monFind tbl (sname e.id) = some a := by
      rw [hid, ← hname]; exact monFind_of_mem h.mnodup ha
    have hrel := h.rel e hmem
    unfold RelPreAt at hrel
    rw [hfa] at hrel
    cases hl : a.life with
    | live =>
      have := hrel.live.mp hl
      have hin : e.inMap = true := by rw [h.inmap e hmem, this.1]; rfl
      have : a.name ∈ (showMap st).map (·.name) := by rw [hname, ← hid]; exact (mem_names_iff hi hmem).mpr hin
      simp [this]
    | dying => simp
    | dead => simp
  · -- (5d)
    unfold chkSrv
    rw [hcfg]
    have hsrv : showSrv st = (showMap st).map (·.name) := by
      rw [showMap_names]
      unfold showSrv
      rw [h.stateful]
      simp only [Bool.false_eq_true, if_false]
      congr 1
      apply List.filter_congr
      intro e he
      rw [h.inmap e he]
    rw [hsrv]
    simp only [Bool.false_eq_true, if_false]
    rw [firstSome_none (by intro n hn; simp [hn]), firstSome_none (by intro n hn; simp [hn])]
    rfl
  · -- reaping
    intro e he
    have hrel := h.rel e he
    unfold RelPreAt at hrel
    unfold RelAt
    rw [reapDying_eq, monFind_map (keepsName_reap1 _)]
    cases hf : monFind tbl (sname e.id) with
    | none => rw [hf] at hrel; simpa using hrel
    | some a =>
      rw [hf] at hrel
      have hname := (monFind_name hf).1
      simp only [Option.map_some]
      have hin : (((showMap st).map (·.name)).contains a.name) = e.inMap := by
        rw [hname]
        cases hm : e.inMap with
        | true => simpa using (mem_names_iff hi he).mpr hm
        | false =>
          have : ¬ sname e.id ∈ (showMap st).map (·.name) := fun hx => by
            have := (mem_names_iff hi he).mp hx; rw [hm] at this; cases this
          simpa using this
      unfold reap1
      rw [hin, h.inmap e he]
      cases hl : a.life with
      | live =>
        simp only [show (Life.live == Life.dying) = false from rfl, Bool.false_and, Bool.false_eq_true, if_false]
        refine { hrel with removed := ?_ }
        intro hr; have := (hrel.live.mp hl).1; rw [hr] at this; cases this
      | dead =>
        simp only [show (Life.dead == Life.dying) = false from rfl, Bool.false_and, Bool.false_eq_true, if_false]
        exact { hrel with removed := fun _ => hl }
      | dying =>
        cases hr : e.removed with
        | false =>
          simp only [Bool.not_false, Bool.not_true, Bool.and_false, Bool.false_eq_true, if_false]
          refine { hrel with removed := ?_ }
          intro hx; rw [hr] at hx; cases hx
        | true =>
          simp only [Bool.not_true, Bool.not_false, Bool.and_true, beq_self_eq_true, if_true]
          refine ⟨⟨hrel.owner, fun _ => hr, ?_, ?_, ?_⟩, fun _ => rfl⟩
          · constructor
            · intro hx; cases hx
            · intro hx; rw [hr] at hx; cases hx.1
          · intro hx; cases hx
          · intro hx; cases hx

theorem reapDying_nodup {names : List Name} {tbl : List MSess} (h : (tbl.map (·.name)).Nodup) :
    ((reapDying names tbl).map (·.name)).Nodup := by
  rw [reapDying_eq, map_names_keeps (keepsName_reap1 _)]; exact h

theorem reapDying_mem {names : List Name} {tbl : List MSess} {a : MSess} (h : a ∈ reapDying names tbl) :
    ∃ b ∈ tbl, a.name = b.name := by
  rw [reapDying_eq] at h
  obtain ⟨b, hb, rfl⟩ := List.mem_map.mp h
  exact ⟨b, hb, keepsName_reap1 _ b⟩

end Sessions
