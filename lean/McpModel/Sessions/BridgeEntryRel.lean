import McpModel.Sessions.BridgeEntry
/-!
Bridge (E7/C11), entry level: each entry transition of the model keeps `EOk`, and the monitor's
bookkeeping for the same operation keeps the abstract session related (`ERelPre`).
-/
namespace Sessions

/-! ### monitor-side entry functions -/

def mTouch (now : Nat) (a : MSess) : MSess := if a.posts == 0 then { a with idleSince := now } else a
def mPend (a : MSess) : MSess := { a with posts := a.posts + 1 }
def mPostDone (now : Nat) (a : MSess) : MSess :=
  if a.posts ≤ 1 then { a with posts := 0, idleSince := now } else { a with posts := a.posts - 1 }
def mDead (a : MSess) : MSess := { a with life := .dead }
def mDying (a : MSess) : MSess := { a with life := .dying }
def mRunInc (a : MSess) : MSess := { a with running := a.running + 1 }
def mRunDec (a : MSess) : MSess := { a with running := a.running - 1 }

/-- An abstract session that is not live is related to any entry that is going away or gone. -/
theorem rel_nonlive {cfg : Cfg} {ns nr : Nat} {e : Sess} {a : MSess} (ho : a.owner = ownerOf e.owner)
    (hl : a.life ≠ .live) (hd : a.life = .dead → e.removed = true) (hc : e.removed = true ∨ e.closing = true) :
    ERelPre cfg ns nr e a := by
  refine ⟨ho, hd, ⟨fun h => absurd h hl, fun h => ?_⟩, fun h => absurd h hl, fun h => absurd h hl⟩
  rcases hc with hc | hc
  · rw [h.1] at hc; cases hc
  · rw [h.2] at hc; cases hc

theorem ERel.life_dying {cfg : Cfg} {ns nr : Nat} {e : Sess} {a : MSess} (h : ERel cfg ns nr e a)
    (hr : e.removed = false) (hc : e.closing = true) : a.life = .dying := by
  cases hl : a.life with
  | live => have := (h.live.mp hl).2; rw [hc] at this; cases this
  | dying => rfl
  | dead => have := h.dead hl; rw [hr] at this; cases this

theorem ERel.life_live {cfg : Cfg} {ns nr : Nat} {e : Sess} {a : MSess} (h : ERel cfg ns nr e a)
    (hr : e.removed = false) (hc : e.closing = false) : a.life = .live := h.live.mpr ⟨hr, hc⟩

theorem ERel.life_dead {cfg : Cfg} {ns nr : Nat} {e : Sess} {a : MSess} (h : ERel cfg ns nr e a)
    (hr : e.removed = true) : a.life = .dead := h.removed hr

/-! ### (1) a POST answered at once -/

theorem eok_touch {cfg : Cfg} {now ns nr : Nat} {e : Sess} (ini : Bool) (h : EOk cfg now ns nr e)
    (hg : Good cfg now e) (hr : e.removed = false) : EOk cfg now ns nr (touchE now cfg.timeout ini e) := by
  obtain ⟨⟨h1, h2, h3, h4, h5, h6, h7, h8, h9⟩, h10⟩ := h
  have g6 := hg.no_timeout
  rcases e with ⟨id, owner, refs, timer, closing, removed, inMap, pending, initialized, creating, busy, initBusy, posts, idleSince, closeErr, upl⟩
  simp only [] at *
  subst hr
  cases ini <;> cases timer <;> (try by_cases h0 : refs = 0) <;>
    (refine ⟨⟨?_, ?_, ?_, ?_, ?_, ?_, ?_, ?_, ?_⟩, ?_⟩ <;> simp_all [touchE, Timer.isArmed] <;> (try omega))

theorem touchE_fields (now T : Nat) (ini : Bool) (e : Sess) :
    (touchE now T ini e).id = e.id ∧ (touchE now T ini e).owner = e.owner ∧ (touchE now T ini e).removed = e.removed ∧
    (touchE now T ini e).closing = e.closing ∧
    (touchE now T ini e).timer = (match e.timer with | .nil => .nil | t => if e.refs = 0 then .armed (now + T) else t) ∧
    (touchE now T ini e).upl = e.upl := by
  rcases e with ⟨id, owner, refs, timer, closing, removed, inMap, pending, initialized, creating, busy, initBusy, posts, idleSince, closeErr, upl⟩
  cases ini <;> cases timer <;> (try by_cases h0 : refs = 0) <;> simp_all [touchE]

theorem rel_touch {cfg : Cfg} {now ns nr : Nat} {e : Sess} {a : MSess} (ini : Bool) (h : ERel cfg ns nr e a)
    (hk : EOk cfg now ns nr e) (hg : Good cfg now e) (hr : e.removed = false) :
    ERelPre cfg ns nr (touchE now cfg.timeout ini e) (if a.life = .live then mTouch now a else a) := by
  obtain ⟨f1, f2, f3, f4, f5, f6⟩ := touchE_fields now cfg.timeout ini e
  by_cases hl : a.life = .live
  · rw [if_pos hl]
    have hml : (mTouch now a).life = .live := by unfold mTouch; split <;> exact hl
    have hc := (h.live.mp hl).2
    refine ⟨?_, ?_, ?_, ?_, ?_⟩
    · rw [f2, ← h.owner]; unfold mTouch; split <;> rfl
    · intro hd; rw [hml] at hd; cases hd
    · rw [f3, f4]; constructor
      · intro _; exact ⟨hr, hc⟩
      · intro _; exact hml
    · intro _
      have := h.cnt hl
      rw [f6]
      unfold mTouch; split <;> exact this
    · intro _ hns hu hT
      rw [f6] at hu
      have hap : a.posts = 0 := by rw [(h.cnt hl).1, hns, hu]
      have hid : (mTouch now a).idleSince = now := by simp [mTouch, hap]
      rw [hid, f5]
      have htn : e.timer ≠ .nil := fun hx => hT ((hk.tmr hr).mp hx)
      have hrf : e.refs = 0 := by rw [hg.refs_posts htn, hk.posts, hns, hu]
      cases ht : e.timer with
      | nil => exact absurd ht htn
      | stopped => simp [hrf]
      | armed d => simp [hrf]
  · rw [if_neg hl]
    apply rel_nonlive
    · rw [f2]; exact h.owner
    · exact hl
    · intro hd; have := h.dead hd; rw [hr] at this; cases this
    · right; rw [f4]
      cases hc : e.closing with
      | true => rfl
      | false => exact absurd (h.live.mpr ⟨hr, hc⟩) hl

/-! ### settling after the labels of an operation -/

theorem eok_closed {cfg : Cfg} {now ns nr : Nat} {e : Sess} (cf : Bool) (h : EOkQ cfg now ns nr e) : EOk cfg now ns nr (closedE cf e) := by
  obtain ⟨h1, h2, h3, h4, h5, h6, h7, h8, h9⟩ := h
  refine ⟨⟨h1, h2, h3, h4, h5, rfl, ?_, ?_, ?_⟩, ?_⟩ <;> simp [closedE]

theorem eok_settle {cfg : Cfg} {now ns nr : Nat} {e : Sess} (cf : Bool) (h : EOkQ cfg now ns nr e) :
    EOk cfg now ns nr (settleE now cf e) := by
  by_cases hq : e.removed = false ∧ e.closing = true ∧ e.busy = 0 ∧ e.initBusy = 0
  · rw [settleE_close h.notDue hq.1 hq.2.1 hq.2.2.1 hq.2.2.2]
    exact eok_closed cf h
  · rw [settleE_id h.notDue hq]
    refine ⟨h, ?_⟩
    intro hc hr hz
    apply hq
    have := h.busy
    exact ⟨hr, hc, by omega, h.initBusy⟩

theorem relpre_settle {cfg : Cfg} {now ns nr : Nat} {e : Sess} {a : MSess} (cf : Bool)
    (h : ERelPre cfg ns nr e a) (hnd : ∀ d, e.timer = .armed d → now < d) :
    ERelPre cfg ns nr (settleE now cf e) a := by
  by_cases hq : e.removed = false ∧ e.closing = true ∧ e.busy = 0 ∧ e.initBusy = 0
  · rw [settleE_close hnd hq.1 hq.2.1 hq.2.2.1 hq.2.2.2]
    apply rel_nonlive
    · exact h.owner
    · intro hl; have := (h.live.mp hl).2; rw [hq.2.1] at this; cases this
    · intro _; rfl
    · left; rfl
  · rw [settleE_id hnd hq]; exact h

/-- the entry after settling is removed exactly when the close could complete -/
theorem settleE_removed {now : Nat} {cf : Bool} {e : Sess} (hnd : ∀ d, e.timer = .armed d → now < d) (hr : e.removed = false) :
    (settleE now cf e).removed = (e.closing && e.busy == 0 && e.initBusy == 0) ∧
    (settleE now cf e).closing = e.closing ∧ (settleE now cf e).id = e.id ∧ (settleE now cf e).owner = e.owner ∧
    (settleE now cf e).closeErr = (if e.closing && e.busy == 0 && e.initBusy == 0 then cf else e.closeErr) := by
  by_cases hq : e.removed = false ∧ e.closing = true ∧ e.busy = 0 ∧ e.initBusy = 0
  · rw [settleE_close hnd hq.1 hq.2.1 hq.2.2.1 hq.2.2.2]
    simp [closedE, hq.2.1, hq.2.2.1, hq.2.2.2]
  · rw [settleE_id hnd hq]
    have : (e.closing && e.busy == 0 && e.initBusy == 0) = false := by
      cases hc : e.closing with
      | false => simp
      | true =>
        by_cases hb : e.busy = 0
        · have : e.initBusy ≠ 0 := fun h => hq ⟨hr, hc, hb, h⟩
          simp [hb, this]
        · simp [hb]
    simp [this, hr]

/-! ### (2) a POST whose handler parks -/

theorem eokq_pend {cfg : Cfg} {now ns nr : Nat} {e : Sess} (h : EOk cfg now ns nr e) (hg : Good cfg now e)
    (hr : e.removed = false) (hc : e.closing = false) : EOk cfg now (ns + 1) nr (pendE e) := by
  obtain ⟨⟨h1, h2, h3, h4, h5, h6, h7, h8, h9⟩, h10⟩ := h
  have g2 : ∀ d, e.timer = .armed d → e.refs = 0 := fun d hd => (hg.armed d hd).1
  clear hg
  rcases e with ⟨id, owner, refs, timer, closing, removed, inMap, pending, initialized, creating, busy, initBusy, posts, idleSince, closeErr, upl⟩
  simp only [] at *
  subst hr; subst hc
  cases timer <;> (try by_cases h0 : refs = 0) <;>
    (refine ⟨⟨?_, ?_, ?_, ?_, ?_, ?_, ?_, ?_, ?_⟩, ?_⟩ <;> simp_all [pendE, Timer.isArmed] <;> (try omega))

theorem pendE_fields (e : Sess) : (pendE e).id = e.id ∧ (pendE e).owner = e.owner ∧ (pendE e).removed = e.removed ∧
    (pendE e).closing = e.closing ∧ (pendE e).upl = e.upl := by
  rcases e with ⟨id, owner, refs, timer, closing, removed, inMap, pending, initialized, creating, busy, initBusy, posts, idleSince, closeErr, upl⟩
  cases timer <;> simp [pendE]

theorem rel_pend {cfg : Cfg} {ns nr : Nat} {e : Sess} {a : MSess} (h : ERel cfg ns nr e a)
    (hr : e.removed = false) (hc : e.closing = false) : ERelPre cfg (ns + 1) nr (pendE e) (mPend a) := by
  obtain ⟨f1, f2, f3, f4, f6⟩ := pendE_fields e
  have hl := h.life_live hr hc
  refine ⟨?_, ?_, ?_, ?_, ?_⟩
  · rw [f2]; exact h.owner
  · intro hd; simp [mPend, hl] at hd
  · rw [f3, f4]; simp [mPend, hl, hr, hc]
  · intro _; have := h.cnt hl; rw [f6]; simp [mPend, this.1, this.2]; omega
  · intro _ hns; omega

/-! ### (3)(4)(5) a parked handler is released, its POST is abandoned, a handler without POST returns -/

theorem eokq_release {cfg : Cfg} {now ns nr : Nat} {e : Sess} (h : EOk cfg now ns nr e) (hg : Good cfg now e)
    (hr : e.removed = false) (hns : ns ≠ 0) : EOkQ cfg now (ns - 1) nr (endE now cfg.timeout (hdoneE e)) := by
  obtain ⟨⟨h1, h2, h3, h4, h5, h6, h7, h8, h9⟩, h10⟩ := h
  have g1 := hg.refs_posts
  have g6 := hg.no_timeout
  rcases e with ⟨id, owner, refs, timer, closing, removed, inMap, pending, initialized, creating, busy, initBusy, posts, idleSince, closeErr, upl⟩
  simp only [] at *
  subst hr
  cases timer <;> (try by_cases h0 : refs - 1 = 0) <;>
    (refine ⟨?_, ?_, ?_, ?_, ?_, ?_, ?_, ?_, ?_⟩ <;> simp_all [endE, hdoneE, Timer.isArmed] <;> (try omega))

theorem eokq_abandon {cfg : Cfg} {now ns nr : Nat} {e : Sess} (h : EOk cfg now ns nr e) (hg : Good cfg now e)
    (hr : e.removed = false) (hns : ns ≠ 0) : EOkQ cfg now (ns - 1) (nr + 1) (endE now cfg.timeout e) := by
  obtain ⟨⟨h1, h2, h3, h4, h5, h6, h7, h8, h9⟩, h10⟩ := h
  have g1 := hg.refs_posts
  have g6 := hg.no_timeout
  rcases e with ⟨id, owner, refs, timer, closing, removed, inMap, pending, initialized, creating, busy, initBusy, posts, idleSince, closeErr, upl⟩
  simp only [] at *
  subst hr
  cases timer <;> (try by_cases h0 : refs - 1 = 0) <;>
    (refine ⟨?_, ?_, ?_, ?_, ?_, ?_, ?_, ?_, ?_⟩ <;> simp_all [endE, Timer.isArmed] <;> (try omega))

theorem eokq_runDone {cfg : Cfg} {now ns nr : Nat} {e : Sess} (h : EOk cfg now ns nr e)
    (hnr : nr ≠ 0) : EOkQ cfg now ns (nr - 1) (hdoneE e) := by
  obtain ⟨⟨h1, h2, h3, h4, h5, h6, h7, h8, h9⟩, h10⟩ := h
  refine ⟨h1, h2, h3, ?_, h5, h6, h7, h8, h9⟩
  simp [hdoneE, h4]; omega

theorem endE_fields (now T : Nat) (e : Sess) : (endE now T e).id = e.id ∧ (endE now T e).owner = e.owner ∧
    (endE now T e).removed = e.removed ∧ (endE now T e).closing = e.closing ∧
    (endE now T e).timer = (match e.timer with | .nil => .nil | t => if e.refs - 1 = 0 then .armed (now + T) else t) ∧
    (endE now T e).busy = e.busy ∧ (endE now T e).initBusy = e.initBusy ∧ (endE now T e).upl = e.upl := by
  rcases e with ⟨id, owner, refs, timer, closing, removed, inMap, pending, initialized, creating, busy, initBusy, posts, idleSince, closeErr, upl⟩
  cases timer <;> (try by_cases h0 : refs - 1 = 0) <;> simp_all [endE]

/-- the monitor's bookkeeping of a POST that ends (`p` completion) against `endPOST` -/
theorem rel_endE {cfg : Cfg} {now ns nr nr' : Nat} {e : Sess} {a : MSess}
    (h : ERelPre cfg ns nr' e a) (hcnt : a.life = .live → a.running = nr) (hp : e.posts = ns + e.upl)
    (hrp : e.timer ≠ .nil → e.refs = e.posts) (htm : e.removed = false → (e.timer = .nil ↔ cfg.timeout = 0)) (hns : ns ≠ 0) :
    ERelPre cfg (ns - 1) nr (endE now cfg.timeout e) (mPostDone now a) := by
  obtain ⟨f1, f2, f3, f4, f5, _, _, f8⟩ := endE_fields now cfg.timeout e
  have hlife : (mPostDone now a).life = a.life := by unfold mPostDone; split <;> rfl
  refine ⟨?_, ?_, ?_, ?_, ?_⟩
  · rw [f2, ← h.owner]; unfold mPostDone; split <;> rfl
  · rw [hlife, f3]; exact h.dead
  · rw [hlife, f3, f4]; exact h.live
  · rw [hlife]; intro hl
    have c := h.cnt hl
    have r := hcnt hl
    rw [f8]
    unfold mPostDone
    split
    · rename_i hle; exact ⟨by simp; omega, by simpa using r⟩
    · rename_i hle; exact ⟨by simp; omega, by simpa using r⟩
  · rw [hlife, f8]; intro hl hz hu hT
    have c := h.cnt hl
    have hr := (h.live.mp hl).1
    have hap : a.posts ≤ 1 := by omega
    have hid : (mPostDone now a).idleSince = now := by simp [mPostDone, hap]
    rw [hid, f5]
    have htn : e.timer ≠ .nil := fun hx => hT ((htm hr).mp hx)
    have hrf : e.refs - 1 = 0 := by rw [hrp htn, hp]; omega
    cases ht : e.timer with
    | nil => exact absurd ht htn
    | stopped => simp [hrf]
    | armed d => simp [hrf]

theorem hdoneE_fields (e : Sess) : (hdoneE e).id = e.id ∧ (hdoneE e).owner = e.owner ∧ (hdoneE e).removed = e.removed ∧
    (hdoneE e).closing = e.closing ∧ (hdoneE e).timer = e.timer ∧ (hdoneE e).posts = e.posts ∧ (hdoneE e).refs = e.refs := by
  simp [hdoneE]

/-- a handler returning changes nothing the relation looks at, except the count of running handlers -/
theorem rel_hdoneE {cfg : Cfg} {ns nr : Nat} {e : Sess} {a : MSess} (h : ERelPre cfg ns nr e a) :
    ERelPre cfg ns nr (hdoneE e) a := by
  exact ⟨h.owner, h.dead, h.live, h.cnt, h.idle⟩

theorem rel_runInc {cfg : Cfg} {ns nr : Nat} {e : Sess} {a : MSess} (h : ERelPre cfg ns nr e a) :
    ERelPre cfg ns (nr + 1) e (mRunInc a) := by
  refine ⟨h.owner, h.dead, h.live, ?_, h.idle⟩
  intro hl; have := h.cnt hl; exact ⟨this.1, by simp [mRunInc, this.2]⟩

theorem rel_runDec {cfg : Cfg} {ns nr : Nat} {e : Sess} {a : MSess} (h : ERelPre cfg ns nr e a) :
    ERelPre cfg ns (nr - 1) e (mRunDec a) := by
  refine ⟨h.owner, h.dead, h.live, ?_, h.idle⟩
  intro hl; have := h.cnt hl; exact ⟨this.1, by simp [mRunDec, this.2]⟩

/-! ### (6) a close begins -/

theorem eokq_close {cfg : Cfg} {now ns nr : Nat} {e : Sess} (h : EOk cfg now ns nr e) :
    EOkQ cfg now ns nr (closeE e) := by
  obtain ⟨⟨h1, h2, h3, h4, h5, h6, h7, h8, h9⟩, h10⟩ := h
  refine ⟨h1, h2, h3, h4, h5, h6, h7, ?_, h9⟩
  intro _ hc; simp [closeE] at hc

theorem rel_closing {cfg : Cfg} {ns nr : Nat} {e : Sess} {a : MSess} (h : ERelPre cfg ns nr e a)
    (hr : e.removed = false) : ERelPre cfg ns nr (closeE e) (if a.life = .live then mDying a else a) := by
  apply rel_nonlive
  · split <;> exact h.owner
  · split
    · simp [mDying]
    · assumption
  · intro hd
    split at hd
    · simp [mDying] at hd
    · have := h.dead hd; rw [hr] at this; cases this
  · right; rfl

/-! ### (7) the clock advances -/

theorem settleE_removed_id {now : Nat} {cf : Bool} {e : Sess} (hr : e.removed = true) : settleE now cf e = e := by
  simp [settleE, tryF, timerFireF, closeDoneF, hr]

theorem firedE_fields (cf : Bool) (e : Sess) : (firedE cf e).id = e.id ∧ (firedE cf e).owner = e.owner ∧
    (firedE cf e).closing = true ∧ (firedE cf e).removed = (e.removed || (e.busy == 0 && e.initBusy == 0)) := by
  unfold firedE
  split
  · rename_i h; simp [closedE, h.1, h.2]
  · rename_i h
    have : (e.busy == 0 && e.initBusy == 0) = false := by
      by_cases hb : e.busy = 0
      · have : e.initBusy ≠ 0 := fun hh => h ⟨hb, hh⟩
        simp [hb, this]
      · simp [hb]
    simp [this]

theorem eok_tick {cfg : Cfg} {now ns nr : Nat} {e : Sess} (n : Nat) (cf : Bool) (h : EOk cfg now ns nr e)
    (hg : Good cfg now e) : EOk cfg (now + n) ns nr (settleE (now + n) cf e) := by
  cases hr : e.removed with
  | true =>
    rw [settleE_removed_id hr]
    have htn : e.timer = .nil := (hg.unpublished (hg.removed hr).1).1
    exact ⟨⟨h.pending, h.creating, h.initBusy, h.busy, h.posts, h.inMap, h.tmr, h.armed,
      fun d hd => by rw [htn] at hd; cases hd⟩, h.quiet⟩
  | false =>
    by_cases hdue : ∃ d, e.timer = .armed d ∧ d ≤ now + n
    · obtain ⟨d, ht, hd⟩ := hdue
      rw [settleE_fire hr ht hd]
      have hq : EOkQ cfg (now + n) ns nr { e with timer := .stopped, closing := true } := by
        refine ⟨h.pending, h.creating, h.initBusy, h.busy, h.posts, h.inMap, ?_, ?_, ?_⟩
        · intro _
          have := h.tmr hr
          rw [ht] at this
          constructor
          · intro hx; cases hx
          · intro hx; have := this.mpr hx; cases this
        · intro _ hc; cases hc
        · intro d' hd'; cases hd'
      unfold firedE
      split
      · exact eok_closed cf hq
      · rename_i hb
        refine ⟨hq, ?_⟩
        intro _ _ hz
        apply hb
        have := h.busy
        exact ⟨by omega, h.initBusy⟩
    · have hnd : ∀ d, e.timer = .armed d → now + n < d := by
        intro d hd
        rcases Nat.lt_or_ge (now + n) d with hlt | hge
        · exact hlt
        · exact absurd ⟨d, hd, hge⟩ hdue
      rw [settleE_id hnd (by
        intro ⟨_, h2, h3, _⟩
        have := h.quiet h2 hr
        have := h.busy
        omega)]
      exact ⟨⟨h.pending, h.creating, h.initBusy, h.busy, h.posts, h.inMap, h.tmr, h.armed, hnd⟩, h.quiet⟩

theorem expire_nonlive {cfg : Cfg} {now : Nat} {a : MSess} (h : a.life ≠ .live) : expire cfg now a = a := by
  unfold expire
  have : (a.life == Life.live) = false := by simp [h]
  simp [this]

theorem rel_tick {cfg : Cfg} {now ns nr : Nat} {e : Sess} {a : MSess} (n : Nat) (cf : Bool)
    (h : ERel cfg ns nr e a) (hk : EOk cfg now ns nr e) (hg : Good cfg now e) :
    ERelPre cfg ns nr (settleE (now + n) cf e) (expire cfg (now + n) a) := by
  cases hr : e.removed with
  | true =>
    rw [settleE_removed_id hr, expire_nonlive (by rw [h.life_dead hr]; simp)]
    exact h.toERelPre
  | false =>
    cases hc : e.closing with
    | true =>
      have hl := h.life_dying hr hc
      rw [expire_nonlive (by rw [hl]; simp)]
      apply rel_nonlive
      · by_cases hdue : ∃ d, e.timer = .armed d ∧ d ≤ now + n
        · obtain ⟨d, ht, hd⟩ := hdue
          rw [settleE_fire hr ht hd, (firedE_fields cf e).2.1]; exact h.owner
        · have hnd : ∀ d, e.timer = .armed d → now + n < d := by
            intro d hd
            rcases Nat.lt_or_ge (now + n) d with hlt | hge
            · exact hlt
            · exact absurd ⟨d, hd, hge⟩ hdue
          rw [(settleE_removed hnd hr).2.2.2.1]; exact h.owner
      · rw [hl]; simp
      · intro hd; rw [hl] at hd; cases hd
      · right
        by_cases hdue : ∃ d, e.timer = .armed d ∧ d ≤ now + n
        · obtain ⟨d, ht, hd⟩ := hdue
          rw [settleE_fire hr ht hd]; exact (firedE_fields cf e).2.2.1
        · have hnd : ∀ d, e.timer = .armed d → now + n < d := by
            intro d hd
            rcases Nat.lt_or_ge (now + n) d with hlt | hge
            · exact hlt
            · exact absurd ⟨d, hd, hge⟩ hdue
          rw [(settleE_removed hnd hr).2.1]; exact hc
    | false =>
      have hl := h.life_live hr hc
      have hcnt := h.cnt hl
      by_cases hdue : ∃ d, e.timer = .armed d ∧ d ≤ now + n
      · obtain ⟨d, ht, hd⟩ := hdue
        have hrf := (hg.armed d ht).1
        have htn : e.timer ≠ .nil := by rw [ht]; simp
        have hT : cfg.timeout ≠ 0 := fun hx => htn ((hk.tmr hr).mpr hx)
        have hnu : ns = 0 ∧ e.upl = 0 := by
          have h1 := hk.posts; have h2 := hg.refs_posts htn; omega
        have hns : ns = 0 := hnu.1
        have hid := h.idle hl hns hnu.2 hT
        rw [ht] at hid
        have hdd : d = a.idleSince + cfg.timeout := by cases hid; rfl
        rw [settleE_fire hr ht hd]
        obtain ⟨f1, f2, f3, f4⟩ := firedE_fields cf e
        have hex : (expire cfg (now + n) a).life = (if a.running > 0 then Life.dying else Life.dead) ∧
            (expire cfg (now + n) a).owner = a.owner := by
          unfold expire
          have h1 : (a.life == Life.live) = true := by simp [hl]
          have h2 : (a.posts == 0) = true := by simp [hcnt.1, hns, hnu.2]
          have h3 : decide (cfg.timeout > 0) = true := by simp; omega
          have h4 : decide (a.idleSince + cfg.timeout ≤ now + n) = true := by simp; omega
          simp [h1, h2, h3, h4]
        apply rel_nonlive
        · rw [f2, hex.2]; exact h.owner
        · rw [hex.1]; split <;> simp
        · rw [hex.1, f4, hr]
          intro hd'
          split at hd'
          · cases hd'
          · rename_i hrun
            have : e.busy = 0 := by rw [hk.busy, hns, ← hcnt.2]; omega
            simp [this, hk.initBusy]
        · right; exact f3
      · have hnd : ∀ d, e.timer = .armed d → now + n < d := by
          intro d hd
          rcases Nat.lt_or_ge (now + n) d with hlt | hge
          · exact hlt
          · exact absurd ⟨d, hd, hge⟩ hdue
        rw [settleE_id hnd (by intro ⟨_, h2, _, _⟩; rw [hc] at h2; cases h2)]
        have hex : expire cfg (now + n) a = a := by
          unfold expire
          by_cases hp : a.posts = 0
          · by_cases hT : cfg.timeout = 0
            · simp [hT]
            · have hnu : ns = 0 ∧ e.upl = 0 := by have := hcnt.1; omega
              have hid := h.idle hl hnu.1 hnu.2 hT
              have := hnd _ hid
              have h4 : decide (a.idleSince + cfg.timeout ≤ now + n) = false := by simp; omega
              simp [h4]
          · have : (a.posts == 0) = false := by simp [hp]
            simp [this]
        rw [hex]
        exact h.toERelPre

end Sessions
