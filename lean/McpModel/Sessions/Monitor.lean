import McpModel.Sessions.Obs
/-!
E7 — the typed **property monitor** of C11 (and, clause group `close`, of the session half of C05).

The C11 clauses as a total, decidable function on the *implementation's* observations (`Obs`), derived
from an abstract session table that does not use the model's state: a session is a name, an owner, the
number of POSTs in progress, the instant it last became idle and the number of handlers that outlived
their POST; it dies by an accepted DELETE, a server-side close, a failed initialize, or `timeout` ms of
idleness.  The monitor has two parts:

* `track`-like bookkeeping (`expire`, `bookAnswer`, `bookSlots`, `bookDone`, `scanMap`, `reapDying`,
  `noteFailedInit`): what the history says about each session — the ground truth the clauses refer to;
* the checks `chkAnswer` … `chkNoId`, one per group of clauses, each returning the first violated clause.

`monStep` runs one record; `monEnd` judges the end-of-case record; `runMon` runs a trace.  The driver
(Driver.lean) only parses tokens into `Op`/`Obs`, calls these, and renders the clause (`Clause.text`
lives there).  Bridge.lean: no clause on any observation trace of the model.  Sound.lean: a reported
clause refutes the corresponding clause of the property on the observed trace.

Core Lean only (linked into the driver).
-/
namespace Sessions

/-! ## the abstract session table -/

inductive Life where
  | live      -- honoured
  | dying     -- a DELETE / server-side close / idle timeout has begun and waits for running handlers
  | dead      -- terminated
deriving DecidableEq, Repr

structure MSess where
  name : Name
  owner : Owner
  life : Life
  posts : Nat
  idleSince : Nat
  running : Nat := 0      -- handlers still running after their POST was abandoned
deriving DecidableEq, Repr

structure Mon where
  tbl : List MSess := []
  now : Nat := 0
  pend : List (Tag × Name) := []    -- async tag ↦ session name
  zombies : List Name := []         -- F20: sessions closed during creation that were published anyway
  run : List (Nat × Name) := []     -- slot of an abandoned POST whose handler still runs ↦ session name
  faults : Faults := {}             -- what the last `fault` op made the event store fail (the environment's script)
  nslow : Nat := 0                  -- the harness's counters, from which it names asynchronous requests
  nasync : Nat := 0
deriving Repr

def monFind (m : List MSess) (n : Name) : Option MSess := m.find? (·.name == n)

def monUpd (m : List MSess) (n : Name) (f : MSess → MSess) : List MSess :=
  m.map fun e => if e.name == n then f e else e

/-! ## clauses -/

inductive Verb where
  | post | get | delete | other
deriving DecidableEq, Repr

/-- (1) the answer of a request -/
inductive AnsClause where
  | statelessNotPost (v : Verb) (st : St)     -- stateless_no_ids_405: GET/DELETE/other not answered 405
  | statelessHonoured (st : St)               -- stateless_no_ids_405: 403/404, i.e. the id was looked at
  | statelessPost (st : St)                   -- stateless_no_ids_405: POST neither served nor refused by the store
  | otherMethod (st : St)                     -- other HTTP method not answered 405
  | createAnswered (st : St)                  -- id_minted_only_on_creating_post: POST without id
  | missingId (v : Verb) (st : St)            -- GET/DELETE without id not answered 400
  | unknownHonoured (v : Verb) (st : St)      -- id_addresses_one_session
  | deadAnswered (v : Verb) (st : St)         -- dead_after_removal
  | ownerRejected                             -- owner_binding: the owner got 403
  | foreignAnswered (v : Verb) (st : St)      -- owner_binding: another user not answered 403
  | goneDuringPost                            -- timer_never_fires_during_post
  | liveNotHonoured (v : Verb)                -- dead_after_removal (converse): live session answered 404
  | liveAnswered (v : Verb) (st : St)         -- a live session answered with an unexplained status
deriving DecidableEq, Repr

/-- (2) the handler invocation log -/
inductive LogClause where
  | rejectedReached      -- owner_binding: handler invoked for a rejected request
  | otherUser            -- owner_binding: handler saw another user
  | statelessWithId      -- stateless_no_ids_405: handler ran on a session with an id
  | misrouted            -- id_addresses_one_session: message routed to another session
  | noRequest            -- handler invoked without a request
deriving DecidableEq, Repr

/-- (3) the `Mcp-Session-Id` response header -/
inductive MintClause where
  | stateless            -- stateless_no_ids_405: stateless endpoint issued a session id
  | notCreating          -- id_minted_only_on_creating_post: header on a response that created no session
  | reused               -- id_addresses_one_session: minted id already names a session
  | different            -- id_minted_only_on_creating_post: response names a different session
deriving DecidableEq, Repr

/-- (5a) the entries of `h.sessions` against the abstract table -/
inductive TblClause where
  | ownerChanged
  | deadInTable (n : Name)
  | closingDuringPost (n : Name)
  | closingNoCause (n : Name)
  | f20                                        -- closed during its creating POST, published anyway
  | keptAfterFailedInit
  | keptAfterRefusal (st : St)
  | boundToOther
  | notTheNamed
  | statelessKeeps
  | appeared
deriving DecidableEq, Repr

/-- (5b) shape of `h.sessions` -/
inductive KeyClause where
  | duplicate | badKey
deriving DecidableEq, Repr

/-- (5c) a live session must still be in `h.sessions` -/
inductive GoneClause where
  | duringPost (n : Name)
  | dropped (n : Name)
deriving DecidableEq, Repr

/-- (5d) `Server.Sessions()` against `h.sessions` -/
inductive SrvClause where
  | statelessId
  | notForgotten (n : Name)
  | tableKeeps (n : Name)
deriving DecidableEq, Repr

/-- (6) closing a session terminates and leaves nothing behind (C05, and C11 "closed and forgotten") -/
inductive CloseClause where
  | stuck (n : Name)       -- `Close` has begun, none of the session's handlers is running, yet it is still in the table
  | timerLeft (n : Name)   -- the idle timer of a session that has left the table is armed
deriving DecidableEq, Repr

inductive Clause where
  | ans (c : AnsClause)
  | log (c : LogClause)
  | mint (c : MintClause)
  | tbl (c : TblClause)
  | key (c : KeyClause)
  | gone (c : GoneClause)
  | srv (c : SrvClause)
  | close (c : CloseClause)
  | noId                      -- (5e) creating initialize answered without a session id
  | zombieThen (c : Clause)   -- F20: a published dead session is in the table; `c` is what it broke now
deriving DecidableEq, Repr

/-- clauses of the end-of-case record -/
inductive EndClause where
  | left             -- requests or sessions left after every session was closed
  | zombieLeft       -- … and a session published after its close (F20) is among the causes
  | timersLeft (n : Nat)   -- everything is closed and gone, but idle timers of closed sessions are still armed
deriving DecidableEq, Repr

/-! ## reading a record -/

/-- A request as the monitor sees it. -/
structure Req where
  verb : Verb
  ref : Ref
  user : UserTok
  kind : Option PKind := none     -- POST only
  racy : Bool := false            -- `postx`: the server closes the new session before it is published
deriving DecidableEq, Repr

def Op.req : Op → Option Req
  | .post r u k => some { verb := .post, ref := r, user := u, kind := some k }
  | .postx u k => some { verb := .post, ref := .absent, user := u, kind := some k, racy := true }
  | .get r u => some { verb := .get, ref := r, user := u }
  | .delete r u => some { verb := .delete, ref := r, user := u }
  | .other r u => some { verb := .other, ref := r, user := u }
  | .postb r u => some { verb := .post, ref := r, user := u, kind := some .ping }
  | _ => none

def reqRacy : Option Req → Bool
  | some r => r.racy
  | none => false

/-- the owner a session created by this request would be bound to -/
def reqOwner : Option Req → Owner
  | some r => r.user.owner
  | none => .unbound

def St.accepted2xx : St → Bool
  | .code 200 | .code 202 | .code 204 | .pending => true
  | _ => false

def St.rejected : St → Bool
  | .code 400 | .code 403 | .code 404 | .code 405 => true
  | _ => false

/-- `e.owner == "-" || e.owner == user` on the printed forms. -/
def entitled (o : Owner) (u : UserTok) : Bool :=
  o == .unbound ||
  match u with
  | .u n => o == .u n
  | .anon => o == .raw "anon"
  | .ue => o == .raw "ue"

/-- The event store's failures in force (none without an event store). -/
def effFaults (cfg : Cfg) (m : Mon) : Faults := if cfg.eventStore then m.faults else {}

def isInitKind : Option PKind → Bool
  | some .init | some .badinit => true
  | _ => false

/-! ## bookkeeping (what the history says) -/

/-- Idle sessions die when their timeout has elapsed (observed at quiescence after the tick); with a
handler still running the close cannot complete yet: the session is going away. -/
def expire (cfg : Cfg) (now : Nat) (e : MSess) : MSess :=
  if e.life == .live && e.posts == 0 && decide (cfg.timeout > 0) && decide (e.idleSince + cfg.timeout ≤ now) then
    { e with life := if e.running > 0 then .dying else .dead }
  else e

def nowAfter (m : Mon) : Op → Nat
  | .tick ms => m.now + ms
  | _ => m.now

/-- The tag under which the harness will report the completion of this request if it stays pending
(`raw ""`: the harness reports no completion that the monitor follows). -/
def tagOf (m : Mon) : Op → Tag
  | .post _ _ .slow => .p (m.nslow + 1)
  | .postx _ .slow => .p (m.nslow + 1)
  | .delete _ _ => .d (m.nasync + 1)
  | .close _ => .c (m.nasync + 1)
  | .postb _ _ => .u (m.nasync + 1)
  | _ => .raw ""

/-- The harness's counters after this operation. -/
def countersAfter (m : Mon) (op : Op) (st : St) : Nat × Nat :=
  match op with
  | .post _ _ .slow | .postx _ .slow => (m.nslow + 1, m.nasync)
  | .post _ _ _ | .postx _ _ | .get _ _ | .delete _ _ | .other _ _ | .postb _ _ => (m.nslow, m.nasync + 1)
  | .close _ => if st == .noop then (m.nslow, m.nasync) else (m.nslow, m.nasync + 1)
  | _ => (m.nslow, m.nasync)

/-- (4) bookkeeping from the answer: POSTs in progress, sessions going away. -/
def bookAnswer (cfg : Cfg) (fl : Faults) (now : Nat) (tag : Tag) (tbl : List MSess) (pend : List (Tag × Name))
    (op : Op) (st : St) : List MSess × List (Tag × Name) :=
  if cfg.stateless then (tbl, pend)
  else
    let reg (n : Name) := pend ++ [(tag, n)]
    match op with
    | .post ref u k =>
      match ref.name with
      | none => (tbl, pend)
      | some n =>
        let entitledLive := match monFind tbl n with
          | some e => e.life == .live && entitled e.owner u
          | none => false
        let openRefusal := k != .notif && fl.reqOpen && st == .code 500
        if entitledLive && (st.accepted2xx || openRefusal) then
          if st == .pending then (monUpd tbl n (fun e => { e with posts := e.posts + 1 }), reg n)
          else (monUpd tbl n (fun e => if e.posts == 0 then { e with idleSince := now } else e), pend)
        else (tbl, pend)
    | .postb ref u =>
      -- a POST whose body is still on its way is in progress from the arrival of its headers (booked for
      -- every known session the user is entitled to: for one that is going away the count is never read)
      match ref.name with
      | none => (tbl, pend)
      | some n =>
        let admitted := match monFind tbl n with
          | some e => entitled e.owner u
          | none => false
        if admitted && st == .pending then (monUpd tbl n (fun e => { e with posts := e.posts + 1 }), reg n)
        else (tbl, pend)
    | .delete ref u =>
      match ref.name with
      | none => (tbl, pend)
      | some n =>
        let entitledLive := match monFind tbl n with
          | some e => e.life == .live && entitled e.owner u
          | none => false
        if entitledLive && st == .code 204 then (monUpd tbl n (fun e => { e with life := .dead }), pend)
        else if entitledLive && st == .pending then (monUpd tbl n (fun e => { e with life := .dying }), reg n)
        else (tbl, pend)
    | .close ref =>
      match ref.name with
      | none => (tbl, pend)
      | some n =>
        -- (`err`: Close reported the error of closing the connection; the session has ended all the same)
        if st == .ok || st == .err then (monUpd tbl n (fun e => { e with life := .dead }), pend)
        else if st == .pending then
          (monUpd tbl n (fun e => if e.life == .live then { e with life := .dying } else e), reg n)
        else (tbl, pend)
    | _ => (tbl, pend)

/-- Abandoned POSTs: the handler keeps running; released handlers stop running. -/
def bookSlots (tbl : List MSess) (pend : List (Tag × Name)) (run : List (Nat × Name)) (op : Op) (st : St) :
    List MSess × List (Nat × Name) :=
  match op with
  | .abandon k =>
    if st == .ok then
      match pend.find? (·.1 == Tag.p k) with
      | some (_, nm) => (monUpd tbl nm (fun e => { e with running := e.running + 1 }), run ++ [(k, nm)])
      | none => (tbl, run)
    else (tbl, run)
  | .release k =>
    match run.find? (·.1 == k) with
    | some (_, nm) => (monUpd tbl nm (fun e => { e with running := e.running - 1 }), run.filter (·.1 != k))
    | none => (tbl, run)
  | _ => (tbl, run)

/-- One asynchronous completion: a POST that ends, a DELETE / server-side close that completes. -/
def bookDone1 (now : Nat) (acc : List MSess × List (Tag × Name)) (c : Tag × Nat) : List MSess × List (Tag × Name) :=
  match acc.2.find? (·.1 == c.1) with
  | none => acc
  | some (_, nm) =>
    let rest := acc.2.filter (·.1 != c.1)
    match c.1 with
    | .p _ =>
      (monUpd acc.1 nm (fun e => if e.posts ≤ 1 then { e with posts := 0, idleSince := now } else { e with posts := e.posts - 1 }), rest)
    | .u _ =>
      (monUpd acc.1 nm (fun e => if e.posts ≤ 1 then { e with posts := 0, idleSince := now } else { e with posts := e.posts - 1 }), rest)
    | _ => (monUpd acc.1 nm (fun e => { e with life := .dead }), rest)

def bookDone (now : Nat) (tbl : List MSess) (pend : List (Tag × Name)) (done : List (Tag × Nat)) :
    List MSess × List (Tag × Name) :=
  done.foldl (bookDone1 now) (tbl, pend)

def firstViol {α} (a b : Option α) : Option α := match a with | some x => some x | none => b

/-- (5a) One entry of `h.sessions`: a known session must agree with the abstract table; an unknown one is
a new session, legitimate only as the creation of this very request. -/
def judgeEntry (cfg : Cfg) (now : Nat) (req : Option Req) (st : St) (hdr : Option Name) (tbl : List MSess)
    (ent : MapEnt) : List MSess × Option TblClause :=
  match monFind tbl ent.name with
  | some e =>
    if e.owner != ent.owner then (tbl, some .ownerChanged)
    else if e.life == .dead then (tbl, some (.deadInTable ent.name))
    else if e.life == .live && ent.closing then
      (tbl, some (if e.posts > 0 then .closingDuringPost ent.name else .closingNoCause ent.name))
    else (tbl, none)
  | none =>
    let e : MSess := { name := ent.name, owner := ent.owner, life := .live, posts := 0, idleSince := now }
    let creating : Option Req := match req with
      | some r => if r.verb == .post && r.ref == .absent && !cfg.stateless then some r else none
      | none => none
    let v : Option TblClause :=
      if reqRacy req then some .f20
      else match creating with
        | some r =>
          if r.kind != some .init then some .keptAfterFailedInit
          else if !st.accepted2xx then some (.keptAfterRefusal st)
          else if ent.owner != r.user.owner then some .boundToOther
          else if hdr != some ent.name then some .notTheNamed
          else none
        | none =>
          if cfg.stateless then some .statelessKeeps else some .appeared
    (tbl ++ [e], v)

def scanMap (cfg : Cfg) (now : Nat) (req : Option Req) (st : St) (hdr : Option Name) :
    List MSess → List MapEnt → List MSess × Option TblClause
  | tbl, [] => (tbl, none)
  | tbl, ent :: rest =>
    let (tbl1, v) := judgeEntry cfg now req st hdr tbl ent
    let (tbl2, v') := scanMap cfg now req st hdr tbl1 rest
    (tbl2, firstViol v v')

/-- Dying sessions that have left the table are dead. -/
def reapDying (names : List Name) (tbl : List MSess) : List MSess :=
  tbl.map fun e => if e.life == .dying && !names.contains e.name then { e with life := .dead } else e

/-- A creating initialize that answered with an id but left no session: failed initialize, the id is dead. -/
def noteFailedInit (now : Nat) (owner : Owner) (hdr : Option Name) (tbl : List MSess) : List MSess :=
  match hdr with
  | none => tbl
  | some h =>
    if (monFind tbl h).isNone then tbl ++ [{ name := h, owner := owner, life := .dead, posts := 0, idleSince := now }]
    else tbl

/-! ## the checks -/

def firstSome {α β} (f : α → Option β) : List α → Option β
  | [] => none
  | a :: t => match f a with
    | some b => some b
    | none => firstSome f t

/-- (1) expected answer of a request. `tbl` is the abstract table at the instant of the request. -/
def chkAnswer (cfg : Cfg) (fl : Faults) (tbl : List MSess) (r : Req) (st : St) : Option AnsClause :=
  let isPost := r.verb == .post
  -- error statuses that the transport may answer with *after* the session layer has let the request
  -- through, because the configured event store fails right now
  let openRefusal := isPost && r.kind != some .notif && fl.reqOpen && st == .code 500
  let connRefusal := isPost && fl.connOpen && st == .code 500
  let replayRefusal := r.verb == .get && fl.after && st == .code 400
  if cfg.stateless then
    if !isPost then (if st == .code 405 then none else some (.statelessNotPost r.verb st))
    else if st == .code 403 || st == .code 404 then some (.statelessHonoured st)
    else if !(st.accepted2xx || openRefusal || connRefusal) then some (.statelessPost st)
    else none
  else if r.verb == .other then
    (if st == .code 405 then none else some (.otherMethod st))
  else match r.ref.name with
    | none =>
      if isPost then (if st.accepted2xx || openRefusal || connRefusal then none else some (.createAnswered st))
      else (if st == .code 400 then none else some (.missingId r.verb st))
    | some n =>
      match monFind tbl n with
      | none => if st == .code 404 then none else some (.unknownHonoured r.verb st)
      | some e =>
        let ent := entitled e.owner r.user
        match e.life with
        | .dead => if st == .code 404 then none else some (.deadAnswered r.verb st)
        | .dying =>
          if ent then (if st == .code 403 then some .ownerRejected else none)
          else (if st == .code 403 || st == .code 404 then none else some (.foreignAnswered r.verb st))
        | .live =>
          if !ent then (if st == .code 403 then none else some (.foreignAnswered r.verb st))
          else if st == .code 403 then some .ownerRejected
          else if st == .code 404 then
            (if e.posts > 0 then some .goneDuringPost else some (.liveNotHonoured r.verb))
          else if !(st.accepted2xx || openRefusal || replayRefusal) then some (.liveAnswered r.verb st)
          else none

/-- (2) a rejected request reaches no handler; an accepted one reaches only its own session, as its own user. -/
def chkLog (cfg : Cfg) (req : Option Req) (st : St) (log : List LogEnt) : Option LogClause :=
  match req with
  | some r =>
    if st.rejected && !log.isEmpty then some .rejectedReached
    else firstSome (fun (l : LogEnt) =>
      if l.who != .tok r.user then some LogClause.otherUser
      else if cfg.stateless then (if l.sess == .e then none else some .statelessWithId)
      else match r.ref.name with
        | some n => if l.sess != n then some .misrouted else none
        | none => none) log
  | none => if !log.isEmpty then some .noRequest else none

/-- (2') the body of a POST that began earlier is complete: what it carries reaches only the session the POST
was admitted to (the session named by the monitor's entry of the request `u<n>`; a POST that was not booked —
its session was already going away — reaches no handler).  The user a handler sees is not judged here. -/
def chkBodyLog (pend : List (Tag × Name)) (n : Nat) (log : List LogEnt) : Option LogClause :=
  match pend.find? (·.1 == Tag.u n) with
  | some (_, nm) => firstSome (fun (l : LogEnt) => if l.sess != nm then some LogClause.misrouted else none) log
  | none => if !log.isEmpty then some .noRequest else none

/-- the handler invocation log of one record -/
def chkLogOp (cfg : Cfg) (pend : List (Tag × Name)) (op : Op) (st : St) (log : List LogEnt) : Option LogClause :=
  match op with
  | .body n _ => chkBodyLog pend n log
  | _ => chkLog cfg op.req st log

/-- (3) minting. `tbl` is the abstract table at the instant of the request. -/
def chkMint (cfg : Cfg) (tbl : List MSess) (req : Option Req) (st : St) (hdr : Option Name) : Option MintClause :=
  match hdr with
  | none => none
  | some h =>
    if cfg.stateless then some .stateless
    else match req with
      | some r =>
        if !(r.verb == .post && isInitKind r.kind && st.accepted2xx) then some .notCreating
        else match r.ref.name with
          | none => if (monFind tbl h).isSome then some .reused else none
          | some n => if h == n then none else some .different
      | none => some .notCreating

/-- (5b) -/
def chkKeys (map : List MapEnt) : Option KeyClause :=
  let names := map.map (·.name)
  if names.eraseDups.length != names.length then some .duplicate
  else if map.any (·.badKey) then some .badKey
  else none

/-- (5c) live sessions must still be there; dying ones may go. -/
def chkGone (names : List Name) (tbl : List MSess) : Option GoneClause :=
  firstSome (fun (e : MSess) =>
    if e.life == .live && !names.contains e.name then
      some (if e.posts > 0 then GoneClause.duringPost e.name else .dropped e.name)
    else none) tbl

/-- (5d) -/
def chkSrv (cfg : Cfg) (names : List Name) (srv : List Name) : Option SrvClause :=
  if cfg.stateless then
    (if srv.any (· != .e) then some .statelessId else none)
  else
    firstViol
      (firstSome (fun n => if names.contains n then none else some (SrvClause.notForgotten n)) srv)
      (firstSome (fun n => if srv.contains n then none else some (SrvClause.tableKeeps n)) names)

/-- (5e) -/
def chkNoId (cfg : Cfg) (req : Option Req) (st : St) (hdr : Option Name) : Bool :=
  match req with
  | some r => r.verb == .post && r.ref == .absent && r.kind == some .init && !cfg.stateless && st.accepted2xx && hdr.isNone
  | none => false

/-- (6) C05 / C11: a session whose `Close` has begun and none of whose handlers is running must be closed
(gone from the table) at quiescence; a session that has left the table has no armed idle timer. -/
def chkClose (map : List MapEnt) (stale : List Name) : Option CloseClause :=
  firstViol
    (firstSome (fun (e : MapEnt) => if e.closing && e.busy == 0 then some (CloseClause.stuck e.name) else none) map)
    (firstSome (fun n => some (CloseClause.timerLeft n)) stale)

/-! ## one record -/

def chkAnswerO (cfg : Cfg) (fl : Faults) (tbl : List MSess) (req : Option Req) (st : St) : Option AnsClause :=
  match req with
  | some r => chkAnswer cfg fl tbl r st
  | none => none

/-- (1) per operation: a POST of which only the headers have arrived and that is not answered yet (`postb`
answered `pending`) is judged by nothing but the bookkeeping — whom it addresses shows when it completes. -/
def chkAnswerOp (cfg : Cfg) (fl : Faults) (tbl : List MSess) (op : Op) (st : St) : Option AnsClause :=
  match op with
  | .postb _ _ => if st == .pending then none else chkAnswerO cfg fl tbl op.req st
  | _ => chkAnswerO cfg fl tbl op.req st

/-- the environment's script after this operation -/
def faultsAfter (m : Mon) (op : Op) (st : St) : Faults :=
  match op with
  | .fault f => if st == .ok then f else m.faults
  | _ => m.faults

def zombieWrap (c : Clause) : Clause :=
  match c with
  | .tbl .f20 => c
  | _ => .zombieThen c

structure StepOut where
  mon : Mon
  viol : Option Clause

/-- The C11 clauses evaluated on one observation of the implementation. -/
def monStep (cfg : Cfg) (m : Mon) (op : Op) (o : Obs) : StepOut :=
  let now := nowAfter m op
  let req := op.req
  let st := o.status
  let fl := effFaults cfg m
  -- idle sessions die when their timeout has elapsed
  let tbl0 := m.tbl.map (expire cfg now)
  let v1 := (chkAnswerOp cfg fl tbl0 op st).map Clause.ans
  let v2 := (chkLogOp cfg m.pend op st o.log).map Clause.log
  let v3 := (chkMint cfg tbl0 req st o.hdr).map Clause.mint
  let ba := bookAnswer cfg fl now (tagOf m op) tbl0 m.pend op st
  let bs := bookSlots ba.1 ba.2 m.run op st
  let bd := bookDone now bs.1 ba.2 o.done
  let tbl2 := bd.1
  let names := o.map.map (·.name)
  let sm := scanMap cfg now req st o.hdr tbl2 o.map
  let tbl3 := sm.1
  let v5a := sm.2
  let v5b := (chkKeys o.map).map Clause.key
  let v5c := (chkGone names tbl3).map Clause.gone
  let tbl4 := reapDying names tbl3
  let tbl5 := noteFailedInit now (reqOwner req) o.hdr tbl4
  let v5d := (chkSrv cfg names o.srv).map Clause.srv
  let v5e := if chkNoId cfg req st o.hdr then some Clause.noId else none
  let v6 := (chkClose o.map o.stale).map Clause.close
  -- F20: once a session that the server closed during its creation sits in the handler's table, every
  -- clause it breaks afterwards is the same defect
  let zombies := m.zombies ++ (if reqRacy req then names.filter (fun n => (monFind tbl2 n).isNone) else [])
  let viol := firstViol v1 (firstViol v2 (firstViol v3 (firstViol (v5a.map Clause.tbl)
    (firstViol v5b (firstViol v5c (firstViol v5d (firstViol v5e v6)))))))
  let viol := if names.any zombies.contains then
      viol.map zombieWrap
    else viol
  let faults := faultsAfter m op st
  let cnt := countersAfter m op st
  { mon := { tbl := tbl5, now := now, pend := bd.2, zombies := zombies, run := bs.2, faults := faults,
             nslow := cnt.1, nasync := cnt.2 },
    viol := viol }

/-- The end-of-case record: after the harness released every handler, cancelled every request and closed
every session, it reports how many requests are stuck and how many sessions the handler's table and the
server still hold. -/
structure EndObs where
  stuck : Nat
  map : Nat
  srv : Nat
  timers : Nat := 0     -- idle timers (of sessions that are all closed by now) still armed
deriving DecidableEq, Repr

def monEnd (m : Mon) (o : Option EndObs) : Option EndClause :=
  if o == some { stuck := 0, map := 0, srv := 0, timers := 0 } then none
  else if (o.map fun e => e.stuck == 0 && e.map == 0 && e.srv == 0) == some true then
    some (.timersLeft ((o.map (·.timers)).getD 0))
  else if !m.zombies.isEmpty then some .zombieLeft
  else some .left

/-! ## a whole case -/

def monAfter (cfg : Cfg) (m : Mon) : List (Op × Obs) → Mon
  | [] => m
  | (op, o) :: tr => monAfter cfg (monStep cfg m op o).mon tr

/-- Run the monitor over a trace: the first record (index) at which a clause is reported. -/
def runMonFrom (cfg : Cfg) : Mon → Nat → List (Op × Obs) → Option (Nat × Clause)
  | _, _, [] => none
  | m, i, (op, o) :: tr =>
    match (monStep cfg m op o).viol with
    | some c => some (i, c)
    | none => runMonFrom cfg (monStep cfg m op o).mon (i + 1) tr

def runMon (cfg : Cfg) (tr : List (Op × Obs)) : Option (Nat × Clause) := runMonFrom cfg {} 0 tr

end Sessions
