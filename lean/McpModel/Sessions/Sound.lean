import McpModel.Sessions.BridgeTable
/-!
# Clause soundness of the C11 monitor (E7)

For every clause the monitor can report the corresponding clause of the property is stated as a predicate
on **observation traces** — the list of records `(op, obs)` of a case: the harness operation and what the
IMPLEMENTATION answered and exposed (status, `Mcp-Session-Id`, completions, `h.sessions`, `Server.Sessions()`,
handler invocation log).  The predicates are written from the property text and do not mention the model.
`sound_<clause>`: whenever the monitor run reports the clause at record `j`, the predicate fails on the trace.
`monitor_sound` packages them (`runMon cfg tr = some (j, c) → ¬ P_of cfg c tr`); `record_complete` is the
converse for one record: silence of the monitor means that every clause of the property holds of the record.

Vocabulary — the history's reading of the property's notions:
* `Abs cfg pre` — the abstract session table after the records `pre`: for every session name ever seen (in a
  snapshot of `h.sessions` or in an `Mcp-Session-Id` header) its owner, whether it is *live*, *dying* (a DELETE,
  a server-side close or the idle timeout has begun and waits for running handlers) or *dead* (terminated: an
  accepted DELETE answered 204, a completed DELETE / close, a server-side close that returned, an initialize
  that failed, `timeout` ms without a POST in progress), the number of POSTs in progress (answered `pending`,
  not yet completed), the instant the last POST ended, and the handlers that outlived an abandoned POST.  It is
  the fold of the monitor's bookkeeping (`monStep … .mon`), which consults no clause.
* `tableAt` — that table at the instant of a record (idle sessions whose timeout has elapsed are dead by then).
* `Refusal` / `RefusalLive` — the error statuses the transport may answer *after* the session layer let the
  request through, explained by the event store's current fault script (`faultsAt`).
-/
namespace Sessions

abbrev Trace := List (Op × Obs)

/-! ## the history's reading -/

/-- the abstract session table (and the harness's bookkeeping) after the records `pre` -/
def Abs (cfg : Cfg) (pre : Trace) : Mon := monAfter cfg {} pre

/-- the instant of the next record -/
def nowAt (cfg : Cfg) (pre : Trace) (op : Op) : Nat := nowAfter (Abs cfg pre) op

/-- the abstract sessions at the instant of the next record -/
def tableAt (cfg : Cfg) (pre : Trace) (op : Op) : List MSess := (Abs cfg pre).tbl.map (expire cfg (nowAt cfg pre op))

/-- the event-store methods that fail at the instant of the next record (none without an event store) -/
def faultsAt (cfg : Cfg) (pre : Trace) : Faults := effFaults cfg (Abs cfg pre)

/-- the abstract sessions after the answer, the slots and the completions of the record have been booked -/
def bookedAt (cfg : Cfg) (pre : Trace) (op : Op) (o : Obs) : List MSess :=
  let m := Abs cfg pre
  let ba := bookAnswer cfg (faultsAt cfg pre) (nowAt cfg pre op) (tagOf m op) (tableAt cfg pre op) m.pend op o.status
  let bs := bookSlots ba.1 ba.2 m.run op o.status
  (bookDone (nowAt cfg pre op) bs.1 ba.2 o.done).1

/-- … and after the entries `seen` of `h.sessions` have been read (sessions that appear are noted) -/
def scannedAt (cfg : Cfg) (pre : Trace) (op : Op) (o : Obs) (seen : List MapEnt) : List MSess :=
  (scanMap cfg (nowAt cfg pre op) op.req o.status o.hdr (bookedAt cfg pre op o) seen).1

theorem monAfter_snoc (cfg : Cfg) (m : Mon) (tr : Trace) (r : Op × Obs) :
    monAfter cfg m (tr ++ [r]) = (monStep cfg (monAfter cfg m tr) r.1 r.2).mon := by
  induction tr generalizing m with
  | nil => rfl
  | cons x tr ih => obtain ⟨op, o⟩ := x; simp only [List.cons_append, monAfter]; exact ih _

/-! ## the clauses of one record, from the property text -/

/-- the transport may refuse a creating / stateless POST when the event store cannot open a stream -/
def Refusal (fl : Faults) (r : Req) (st : St) : Prop :=
  (r.verb = .post ∧ r.kind ≠ some .notif ∧ fl.reqOpen = true ∧ st = .code 500) ∨
  (r.verb = .post ∧ fl.connOpen = true ∧ st = .code 500)

/-- … and a request to a live session when it cannot open the answer's stream / replay -/
def RefusalLive (fl : Faults) (r : Req) (st : St) : Prop :=
  (r.verb = .post ∧ r.kind ≠ some .notif ∧ fl.reqOpen = true ∧ st = .code 500) ∨
  (r.verb = .get ∧ fl.after = true ∧ st = .code 400)

/-- (1) the answer to request `r`, given the abstract sessions `tbl` -/
def PAns (cfg : Cfg) (fl : Faults) (tbl : List MSess) (r : Req) (st : St) : AnsClause → Prop
  | .statelessNotPost _ _ => cfg.stateless = true → r.verb ≠ .post → st = .code 405
  | .statelessHonoured _ => cfg.stateless = true → r.verb = .post → st ≠ .code 403 ∧ st ≠ .code 404
  | .statelessPost _ => cfg.stateless = true → r.verb = .post → st.accepted2xx = true ∨ Refusal fl r st
  | .otherMethod _ => cfg.stateless = false → r.verb = .other → st = .code 405
  | .createAnswered _ => cfg.stateless = false → r.verb = .post → r.ref.name = none → st.accepted2xx = true ∨ Refusal fl r st
  | .missingId _ _ => cfg.stateless = false → r.verb ≠ .post → r.verb ≠ .other → r.ref.name = none → st = .code 400
  | .unknownHonoured _ _ => cfg.stateless = false → r.verb ≠ .other → ∀ n, r.ref.name = some n → monFind tbl n = none → st = .code 404
  | .deadAnswered _ _ => cfg.stateless = false → r.verb ≠ .other → ∀ n a, r.ref.name = some n → monFind tbl n = some a →
      a.life = .dead → st = .code 404
  | .ownerRejected => cfg.stateless = false → r.verb ≠ .other → ∀ n a, r.ref.name = some n → monFind tbl n = some a →
      a.life ≠ .dead → entitled a.owner r.user = true → st ≠ .code 403
  | .foreignAnswered _ _ => cfg.stateless = false → r.verb ≠ .other → ∀ n a, r.ref.name = some n → monFind tbl n = some a →
      a.life ≠ .dead → entitled a.owner r.user = false → st = .code 403 ∨ (a.life = .dying ∧ st = .code 404)
  | .goneDuringPost => cfg.stateless = false → r.verb ≠ .other → ∀ n a, r.ref.name = some n → monFind tbl n = some a →
      a.life = .live → entitled a.owner r.user = true → 0 < a.posts → st ≠ .code 404
  | .liveNotHonoured _ => cfg.stateless = false → r.verb ≠ .other → ∀ n a, r.ref.name = some n → monFind tbl n = some a →
      a.life = .live → entitled a.owner r.user = true → st ≠ .code 404
  | .liveAnswered _ _ => cfg.stateless = false → r.verb ≠ .other → ∀ n a, r.ref.name = some n → monFind tbl n = some a →
      a.life = .live → entitled a.owner r.user = true →
      st = .code 403 ∨ st = .code 404 ∨ st.accepted2xx = true ∨ RefusalLive fl r st

theorem sound_chkAnswer {cfg : Cfg} {fl : Faults} {tbl : List MSess} {r : Req} {st : St} {c : AnsClause}
    (h : chkAnswer cfg fl tbl r st = some c) : ¬ PAns cfg fl tbl r st c := by
  intro hp
  unfold chkAnswer at h
  simp only [] at h
  repeat' split at h
  all_goals (first | (cases h; done) | skip)
  all_goals (cases h)
  all_goals (simp only [PAns, Refusal, RefusalLive] at hp)
  all_goals (first | grind | (simp_all; done))

/-- (2) the handler invocation log of a record -/
def PLog (cfg : Cfg) (req : Option Req) (st : St) (log : List LogEnt) : LogClause → Prop
  | .rejectedReached => ∀ r, req = some r → st.rejected = true → log = []
  | .otherUser => ∀ r, req = some r → ∀ l ∈ log, l.who = .tok r.user
  | .statelessWithId => cfg.stateless = true → ∀ r, req = some r → ∀ l ∈ log, l.sess = .e
  | .misrouted => cfg.stateless = false → ∀ r n, req = some r → r.ref.name = some n → ∀ l ∈ log, l.sess = n
  | .noRequest => req = none → log = []

theorem firstSome_some {α β} {f : α → Option β} {l : List α} {b : β} (h : firstSome f l = some b) :
    ∃ pre a post, l = pre ++ a :: post ∧ f a = some b ∧ ∀ x ∈ pre, f x = none := by
  induction l with
  | nil => simp [firstSome] at h
  | cons x t ih =>
    simp only [firstSome] at h
    cases hx : f x with
    | some y => rw [hx] at h; cases h; exact ⟨[], x, t, rfl, hx, by intro z hz; cases hz⟩
    | none =>
      rw [hx] at h
      obtain ⟨pre, a, post, h1, h2, h3⟩ := ih h
      refine ⟨x :: pre, a, post, by rw [h1]; rfl, h2, ?_⟩
      intro z hz
      cases hz with
      | head => exact hx
      | tail _ hz' => exact h3 z hz'

theorem sound_chkLog {cfg : Cfg} {req : Option Req} {st : St} {log : List LogEnt} {c : LogClause}
    (h : chkLog cfg req st log = some c) : ¬ PLog cfg req st log c := by
  intro hp
  unfold chkLog at h
  cases req with
  | none =>
    simp only [] at h
    split at h
    · cases h; simp_all [PLog]
    · cases h
  | some r =>
    simp only [] at h
    split at h
    · cases h; simp_all [PLog]
    · obtain ⟨pre, l, post, hl, hf, _⟩ := firstSome_some h
      have hmem : l ∈ log := by rw [hl]; simp
      repeat' split at hf
      all_goals (first | (cases hf; done) | skip)
      all_goals (cases hf)
      all_goals (simp only [PLog] at hp)
      all_goals (first | grind | (simp_all; done))

/-- (3) the `Mcp-Session-Id` header of a response -/
def PMint (cfg : Cfg) (tbl : List MSess) (req : Option Req) (st : St) (hdr : Option Name) : MintClause → Prop
  | .stateless => cfg.stateless = true → hdr = none
  | .notCreating => cfg.stateless = false → ∀ h, hdr = some h →
      ∃ r, req = some r ∧ r.verb = .post ∧ isInitKind r.kind = true ∧ st.accepted2xx = true
  | .reused => cfg.stateless = false → ∀ h r, hdr = some h → req = some r → r.ref.name = none → monFind tbl h = none
  | .different => cfg.stateless = false → ∀ h r n, hdr = some h → req = some r → r.ref.name = some n → h = n

theorem sound_chkMint {cfg : Cfg} {tbl : List MSess} {req : Option Req} {st : St} {hdr : Option Name} {c : MintClause}
    (h : chkMint cfg tbl req st hdr = some c) : ¬ PMint cfg tbl req st hdr c := by
  intro hp
  unfold chkMint at h
  repeat' split at h
  all_goals (first | (cases h; done) | skip)
  all_goals (cases h)
  all_goals (simp only [PMint] at hp)
  all_goals (first | grind | (simp_all; done))

/-- (5b) the shape of `h.sessions` -/
def PKeys (map : List MapEnt) : KeyClause → Prop
  | .duplicate => (map.map (·.name)).Nodup
  | .badKey => ∀ e ∈ map, e.badKey = false

theorem sound_chkKeys {map : List MapEnt} {c : KeyClause} (h : chkKeys map = some c) : ¬ PKeys map c := by
  intro hp
  unfold chkKeys at h
  simp only [] at h
  split at h
  · rename_i hd
    cases h
    simp only [PKeys] at hp
    rw [eraseDups_of_nodup hp] at hd
    simp at hd
  · split at h
    · rename_i hb
      cases h
      simp only [PKeys] at hp
      rw [List.any_eq_true] at hb
      obtain ⟨e, he, hbk⟩ := hb
      rw [hp e he] at hbk; cases hbk
    · cases h

/-- (5c) live sessions stay in `h.sessions` -/
def PGone (names : List Name) (tbl : List MSess) : GoneClause → Prop
  | .duringPost _ => ∀ a ∈ tbl, a.life = .live → 0 < a.posts → a.name ∈ names
  | .dropped _ => ∀ a ∈ tbl, a.life = .live → a.posts = 0 → a.name ∈ names

theorem sound_chkGone {names : List Name} {tbl : List MSess} {c : GoneClause} (h : chkGone names tbl = some c) :
    ¬ PGone names tbl c := by
  intro hp
  unfold chkGone at h
  obtain ⟨pre, a, post, hl, hf, _⟩ := firstSome_some h
  have hmem : a ∈ tbl := by rw [hl]; simp
  split at hf
  · rename_i hc
    simp only [Bool.and_eq_true, beq_iff_eq, Bool.not_eq_true', List.contains_eq_mem, decide_eq_false_iff_not] at hc
    split at hf
    · rename_i hpos
      cases hf
      exact hc.2 (hp a hmem hc.1 (by simpa using hpos))
    · rename_i hpos
      cases hf
      exact hc.2 (hp a hmem hc.1 (by simpa using hpos))
  · cases hf

/-- (5d) `Server.Sessions()` against `h.sessions` -/
def PSrv (cfg : Cfg) (names srv : List Name) : SrvClause → Prop
  | .statelessId => cfg.stateless = true → ∀ n ∈ srv, n = .e
  | .notForgotten _ => cfg.stateless = false → ∀ n ∈ srv, n ∈ names
  | .tableKeeps _ => cfg.stateless = false → ∀ n ∈ names, n ∈ srv

theorem firstViol_some {α} {a b : Option α} {c : α} (h : firstViol a b = some c) : a = some c ∨ (a = none ∧ b = some c) := by
  cases a with
  | some x => left; exact h
  | none => right; exact ⟨rfl, h⟩

theorem sound_chkSrv {cfg : Cfg} {names srv : List Name} {c : SrvClause} (h : chkSrv cfg names srv = some c) :
    ¬ PSrv cfg names srv c := by
  intro hp
  unfold chkSrv at h
  split at h
  · rename_i hsl
    split at h
    · rename_i ha
      cases h
      rw [List.any_eq_true] at ha
      obtain ⟨n, hn, hne⟩ := ha
      have := hp hsl n hn
      simp [this] at hne
    · cases h
  · rename_i hsl
    have hsl' : cfg.stateless = false := by simpa using hsl
    rcases firstViol_some h with h1 | ⟨_, h1⟩
    · obtain ⟨pre, n, post, hl, hf, _⟩ := firstSome_some h1
      have hmem : n ∈ srv := by rw [hl]; simp
      split at hf
      · cases hf
      · rename_i hc; cases hf; exact hc (by simpa using hp hsl' n hmem)
    · obtain ⟨pre, n, post, hl, hf, _⟩ := firstSome_some h1
      have hmem : n ∈ names := by rw [hl]; simp
      split at hf
      · cases hf
      · rename_i hc; cases hf; exact hc (by simpa using hp hsl' n hmem)

/-- (5e) the creating initialize is answered with the new session's id -/
def PNoId (cfg : Cfg) (req : Option Req) (st : St) (hdr : Option Name) : Prop :=
  ∀ r, req = some r → r.verb = .post → r.ref = .absent → r.kind = some .init → cfg.stateless = false →
    st.accepted2xx = true → hdr.isSome = true

theorem sound_chkNoId {cfg : Cfg} {req : Option Req} {st : St} {hdr : Option Name} (h : chkNoId cfg req st hdr = true) :
    ¬ PNoId cfg req st hdr := by
  intro hp
  unfold chkNoId at h
  cases req with
  | none => cases h
  | some r =>
    simp only [Bool.and_eq_true, beq_iff_eq, Bool.not_eq_true'] at h
    obtain ⟨⟨⟨⟨⟨h1, h2⟩, h3⟩, h4⟩, h5⟩, h6⟩ := h
    have := hp r rfl h1 h2 h3 h4 h5
    cases hdr <;> simp_all

/-- (5a) one entry `ent` of `h.sessions`, read when the abstract sessions are `tbl` -/
def PTbl (cfg : Cfg) (req : Option Req) (st : St) (hdr : Option Name) (tbl : List MSess) (ent : MapEnt) : TblClause → Prop
  | .ownerChanged => ∀ a, monFind tbl ent.name = some a → a.owner = ent.owner
  | .deadInTable _ => ∀ a, monFind tbl ent.name = some a → a.life ≠ .dead
  | .closingDuringPost _ => ∀ a, monFind tbl ent.name = some a → a.life = .live → 0 < a.posts → ent.closing = false
  | .closingNoCause _ => ∀ a, monFind tbl ent.name = some a → a.life = .live → a.posts = 0 → ent.closing = false
  | .f20 => monFind tbl ent.name = none → reqRacy req = false
  | .keptAfterFailedInit => monFind tbl ent.name = none → ∀ r, req = some r → r.verb = .post → r.ref = .absent →
      cfg.stateless = false → r.kind = some .init
  | .keptAfterRefusal _ => monFind tbl ent.name = none → ∀ r, req = some r → r.verb = .post → r.ref = .absent →
      cfg.stateless = false → st.accepted2xx = true
  | .boundToOther => monFind tbl ent.name = none → ∀ r, req = some r → r.verb = .post → r.ref = .absent →
      cfg.stateless = false → ent.owner = r.user.owner
  | .notTheNamed => monFind tbl ent.name = none → ∀ r, req = some r → r.verb = .post → r.ref = .absent →
      cfg.stateless = false → hdr = some ent.name
  | .statelessKeeps => cfg.stateless = true → (monFind tbl ent.name).isSome = true
  | .appeared => cfg.stateless = false → monFind tbl ent.name = none →
      ∃ r, req = some r ∧ r.verb = .post ∧ r.ref = .absent

theorem sound_judgeEntry {cfg : Cfg} {now : Nat} {req : Option Req} {st : St} {hdr : Option Name} {tbl : List MSess}
    {ent : MapEnt} {c : TblClause} (h : (judgeEntry cfg now req st hdr tbl ent).2 = some c) :
    ¬ PTbl cfg req st hdr tbl ent c := by
  intro hp
  unfold judgeEntry at h
  cases hf : monFind tbl ent.name with
  | some e =>
    rw [hf] at h
    simp only [] at h
    repeat' split at h
    all_goals (first | (cases h; done) | skip)
    all_goals (cases h)
    all_goals (simp only [PTbl] at hp)
    all_goals (first | grind | (simp_all; done))
  | none =>
    rw [hf] at h
    simp only [] at h
    cases req with
    | none =>
      simp only [reqRacy, Bool.false_eq_true, if_false] at h
      split at h <;> cases h <;> simp only [PTbl] at hp <;> simp_all
    | some r =>
      cases hr : r.racy with
      | true =>
        simp only [reqRacy, hr, if_true] at h
        cases h
        simp [PTbl, reqRacy, hr, hf] at hp
      | false =>
        simp only [reqRacy, hr, Bool.false_eq_true, if_false] at h
        repeat' split at h
        all_goals (first | (cases h; done) | skip)
        all_goals (cases h)
        all_goals (simp only [PTbl, reqRacy] at hp)
        all_goals (first | grind | (simp_all; done))

theorem scanMap_some {cfg : Cfg} {now : Nat} {req : Option Req} {st : St} {hdr : Option Name} {c : TblClause} :
    ∀ {l : List MapEnt} {tbl : List MSess}, (scanMap cfg now req st hdr tbl l).2 = some c →
      ∃ pre ent post, l = pre ++ ent :: post ∧
        (judgeEntry cfg now req st hdr (scanMap cfg now req st hdr tbl pre).1 ent).2 = some c := by
  intro l
  induction l with
  | nil => intro tbl h; simp [scanMap] at h
  | cons ent rest ih =>
    intro tbl h
    simp only [scanMap] at h
    rcases firstViol_some h with h1 | ⟨_, h1⟩
    · exact ⟨[], ent, rest, rfl, by simpa [scanMap] using h1⟩
    · obtain ⟨pre, e, post, hl, hj⟩ := ih h1
      refine ⟨ent :: pre, e, post, by rw [hl]; rfl, ?_⟩
      simpa [scanMap] using hj

/-- (2') the handler invocation log of a record that completes an earlier POST (`body`): what the body carried
reaches only the session the POST was admitted to — the one booked for the request `u<n>` in the history's reading
(`pend`) — and a POST that was never booked reaches no handler -/
def PBodyLog (pend : List (Tag × Name)) (n : Nat) (log : List LogEnt) : LogClause → Prop
  | .misrouted => ∀ t nm, pend.find? (·.1 == Tag.u n) = some (t, nm) → ∀ l ∈ log, l.sess = nm
  | .noRequest => pend.find? (·.1 == Tag.u n) = none → log = []
  | _ => True

theorem sound_chkBodyLog {pend : List (Tag × Name)} {n : Nat} {log : List LogEnt} {c : LogClause}
    (h : chkBodyLog pend n log = some c) : ¬ PBodyLog pend n log c := by
  intro hp
  unfold chkBodyLog at h
  cases hf : pend.find? (·.1 == Tag.u n) with
  | none =>
    rw [hf] at h
    simp only [] at h
    split at h
    · cases h
      have := hp hf
      simp_all
    · cases h
  | some x =>
    obtain ⟨t, nm⟩ := x
    rw [hf] at h
    simp only [] at h
    obtain ⟨pre, a, post, hl, hfa, _⟩ := firstSome_some h
    split at hfa
    · cases hfa
      have := hp t nm hf a (by rw [hl]; simp)
      simp_all
    · cases hfa

/-- the log clause of one record: of the operation's own request, or of the POST whose body is now complete -/
def PLogOp (cfg : Cfg) (pend : List (Tag × Name)) (op : Op) (st : St) (log : List LogEnt) (c : LogClause) : Prop :=
  match op with
  | .body n _ => PBodyLog pend n log c
  | _ => PLog cfg op.req st log c

/-- a request is judged by its answer once it has one: a POST of which only the headers have arrived (`postb`) and
that is still `pending` is not -/
def Answered (op : Op) (st : St) : Prop := ∀ ref u, op = .postb ref u → st ≠ .pending

/-- (6) C05 "Close … returns, the session is removed …, shutdown leaves no … timer behind" ∩ C11 "closed and
forgotten", on one snapshot: every session of the handler's table whose `Close` has begun has a handler that is still
running (else the close has completed and the session is gone); no session that has left the table has an armed
idle timer. -/
def PClose (map : List MapEnt) (stale : List Name) : CloseClause → Prop
  | .stuck _ => ∀ e ∈ map, e.closing = true → e.busy ≠ 0
  | .timerLeft _ => stale = []

theorem sound_chkClose {map : List MapEnt} {stale : List Name} {c : CloseClause}
    (h : chkClose map stale = some c) : ¬ PClose map stale c := by
  intro hp
  unfold chkClose at h
  rcases firstViol_some h with h1 | ⟨_, h1⟩
  · obtain ⟨pre, a, post, hl, hfa, _⟩ := firstSome_some h1
    split at hfa
    · rename_i hc
      cases hfa
      simp only [Bool.and_eq_true, beq_iff_eq] at hc
      exact hp a (by rw [hl]; simp) hc.1 hc.2
    · cases hfa
  · obtain ⟨pre, a, post, hl, hfa, _⟩ := firstSome_some h1
    cases hfa
    simp only [PClose] at hp
    rw [hp] at hl
    cases pre <;> cases hl

/-- the end-of-case record -/
def PEnd (o : Option EndObs) : Prop := o = some { stuck := 0, map := 0, srv := 0 }

theorem sound_monEnd {m : Mon} {o : Option EndObs} {c : EndClause} (h : monEnd m o = some c) : ¬ PEnd o := by
  intro hp
  unfold monEnd at h
  rw [hp] at h
  simp at h

/-! ## the clauses on a trace -/

/-- **the property clause behind a monitor clause**, as a predicate on the observation trace: it holds of every
record of the trace, with the history before the record read as `Abs` does.  (A clause wrapped as "F20 …; then c"
stands for `c`.) -/
def P_of (cfg : Cfg) : Clause → Trace → Prop
  | .ans c, tr => ∀ pre op o post r, tr = pre ++ (op, o) :: post → op.req = some r → Answered op o.status →
      PAns cfg (faultsAt cfg pre) (tableAt cfg pre op) r o.status c
  | .log c, tr => ∀ pre op o post, tr = pre ++ (op, o) :: post → PLogOp cfg (Abs cfg pre).pend op o.status o.log c
  | .mint c, tr => ∀ pre op o post, tr = pre ++ (op, o) :: post → PMint cfg (tableAt cfg pre op) op.req o.status o.hdr c
  | .tbl c, tr => ∀ pre op o post seen ent rest, tr = pre ++ (op, o) :: post → o.map = seen ++ ent :: rest →
      PTbl cfg op.req o.status o.hdr (scannedAt cfg pre op o seen) ent c
  | .key c, tr => ∀ pre op o post, tr = pre ++ (op, o) :: post → PKeys o.map c
  | .gone c, tr => ∀ pre op o post, tr = pre ++ (op, o) :: post →
      PGone (o.map.map (·.name)) (scannedAt cfg pre op o o.map) c
  | .srv c, tr => ∀ pre op o post, tr = pre ++ (op, o) :: post → PSrv cfg (o.map.map (·.name)) o.srv c
  | .close c, tr => ∀ pre op o post, tr = pre ++ (op, o) :: post → PClose o.map o.stale c
  | .noId, tr => ∀ pre op o post, tr = pre ++ (op, o) :: post → PNoId cfg op.req o.status o.hdr
  | .zombieThen c, tr => P_of cfg c tr

/-- the clause that the checks of one record yield, before the F20 classification -/
def rawViol (cfg : Cfg) (m : Mon) (op : Op) (o : Obs) : Option Clause :=
  let now := nowAfter m op
  let tbl0 := m.tbl.map (expire cfg now)
  let ba := bookAnswer cfg (effFaults cfg m) now (tagOf m op) tbl0 m.pend op o.status
  let bs := bookSlots ba.1 ba.2 m.run op o.status
  let bd := bookDone now bs.1 ba.2 o.done
  let sm := scanMap cfg now op.req o.status o.hdr bd.1 o.map
  firstViol ((chkAnswerOp cfg (effFaults cfg m) tbl0 op o.status).map Clause.ans)
    (firstViol ((chkLogOp cfg m.pend op o.status o.log).map Clause.log)
      (firstViol ((chkMint cfg tbl0 op.req o.status o.hdr).map Clause.mint)
        (firstViol (sm.2.map Clause.tbl)
          (firstViol ((chkKeys o.map).map Clause.key)
            (firstViol ((chkGone (o.map.map (·.name)) sm.1).map Clause.gone)
              (firstViol ((chkSrv cfg (o.map.map (·.name)) o.srv).map Clause.srv)
                (firstViol (if chkNoId cfg op.req o.status o.hdr then some Clause.noId else none)
                  ((chkClose o.map o.stale).map Clause.close))))))))

theorem viol_raw {cfg : Cfg} {m : Mon} {op : Op} {o : Obs} {c : Clause} (h : (monStep cfg m op o).viol = some c) :
    ∃ c0, rawViol cfg m op o = some c0 ∧ (c = c0 ∨ c = .zombieThen c0) := by
  have hv : (monStep cfg m op o).viol =
      (if (o.map.map (·.name)).any (monStep cfg m op o).mon.zombies.contains then (rawViol cfg m op o).map zombieWrap
       else rawViol cfg m op o) := rfl
  rw [hv] at h
  split at h
  · cases hr : rawViol cfg m op o with
    | none => rw [hr] at h; cases h
    | some c0 =>
      rw [hr] at h
      simp only [Option.map_some, Option.some.injEq] at h
      refine ⟨c0, rfl, ?_⟩
      rw [← h]
      unfold zombieWrap
      split
      · left; rfl
      · right; rfl
  · exact ⟨c, h, Or.inl rfl⟩

theorem map_some_inj {α β} {f : α → β} {v : Option α} {b : β} (h : v.map f = some b) : ∃ a, v = some a ∧ f a = b := by
  cases v with
  | none => cases h
  | some a => exact ⟨a, rfl, by simpa using h⟩

/-- which check a raw clause comes from -/
theorem rawViol_source {cfg : Cfg} {m : Mon} {op : Op} {o : Obs} {c : Clause} (h : rawViol cfg m op o = some c) :
    let now := nowAfter m op
    let tbl0 := m.tbl.map (expire cfg now)
    let ba := bookAnswer cfg (effFaults cfg m) now (tagOf m op) tbl0 m.pend op o.status
    let bs := bookSlots ba.1 ba.2 m.run op o.status
    let bd := bookDone now bs.1 ba.2 o.done
    let sm := scanMap cfg now op.req o.status o.hdr bd.1 o.map
    match c with
    | .ans x => chkAnswerOp cfg (effFaults cfg m) tbl0 op o.status = some x
    | .log x => chkLogOp cfg m.pend op o.status o.log = some x
    | .mint x => chkMint cfg tbl0 op.req o.status o.hdr = some x
    | .tbl x => sm.2 = some x
    | .key x => chkKeys o.map = some x
    | .gone x => chkGone (o.map.map (·.name)) sm.1 = some x
    | .srv x => chkSrv cfg (o.map.map (·.name)) o.srv = some x
    | .close x => chkClose o.map o.stale = some x
    | .noId => chkNoId cfg op.req o.status o.hdr = true
    | .zombieThen _ => False := by
  intro now tbl0 ba bs bd sm
  unfold rawViol at h
  simp only [] at h
  rcases firstViol_some h with h1 | ⟨_, h⟩
  · obtain ⟨x, hx, rfl⟩ := map_some_inj h1; exact hx
  rcases firstViol_some h with h1 | ⟨_, h⟩
  · obtain ⟨x, hx, rfl⟩ := map_some_inj h1; exact hx
  rcases firstViol_some h with h1 | ⟨_, h⟩
  · obtain ⟨x, hx, rfl⟩ := map_some_inj h1; exact hx
  rcases firstViol_some h with h1 | ⟨_, h⟩
  · obtain ⟨x, hx, rfl⟩ := map_some_inj h1; exact hx
  rcases firstViol_some h with h1 | ⟨_, h⟩
  · obtain ⟨x, hx, rfl⟩ := map_some_inj h1; exact hx
  rcases firstViol_some h with h1 | ⟨_, h⟩
  · obtain ⟨x, hx, rfl⟩ := map_some_inj h1; exact hx
  rcases firstViol_some h with h1 | ⟨_, h⟩
  · obtain ⟨x, hx, rfl⟩ := map_some_inj h1; exact hx
  rcases firstViol_some h with h1 | ⟨_, h⟩
  · split at h1
    · rename_i hn; cases h1; exact hn
    · cases h1
  · obtain ⟨x, hx, rfl⟩ := map_some_inj h; exact hx

/-- the monitor reports `c` at record `j` of `tr` -/
theorem runMonFrom_some {cfg : Cfg} {c : Clause} : ∀ {tr : Trace} {m : Mon} {i j : Nat}, runMonFrom cfg m i tr = some (j, c) →
    ∃ pre op o post, tr = pre ++ (op, o) :: post ∧ (monStep cfg (monAfter cfg m pre) op o).viol = some c := by
  intro tr
  induction tr with
  | nil => intro m i j h; cases h
  | cons x tr ih =>
    intro m i j h
    obtain ⟨op, o⟩ := x
    simp only [runMonFrom] at h
    cases hv : (monStep cfg m op o).viol with
    | some c' =>
      rw [hv] at h
      simp only [Option.some.injEq, Prod.mk.injEq] at h
      exact ⟨[], op, o, tr, rfl, by rw [← h.2]; exact hv⟩
    | none =>
      rw [hv] at h
      obtain ⟨pre, op', o', post, h1, h2⟩ := ih h
      exact ⟨(op, o) :: pre, op', o', post, by rw [h1]; rfl, h2⟩

/-- **monitor_sound**: a reported clause refutes the corresponding clause of the property on the observed trace. -/
theorem monitor_sound {cfg : Cfg} {tr : Trace} {j : Nat} {c : Clause} (h : runMon cfg tr = some (j, c)) : ¬ P_of cfg c tr := by
  obtain ⟨pre, op, o, post, htr, hv⟩ := runMonFrom_some h
  obtain ⟨c0, hraw, hc⟩ := viol_raw hv
  have hsrc := rawViol_source hraw
  have key : ¬ P_of cfg c0 tr := by
    intro hp
    cases c0 with
    | ans x =>
      simp only [] at hsrc
      have hans : Answered op o.status ∧ chkAnswerO cfg (effFaults cfg (monAfter cfg {} pre)) ((monAfter cfg {} pre).tbl.map (expire cfg (nowAfter (monAfter cfg {} pre) op))) op.req o.status = some x := by
        unfold chkAnswerOp at hsrc
        split at hsrc
        · split at hsrc
          · cases hsrc
          · rename_i hne
            refine ⟨?_, hsrc⟩
            intro ref u hop hst
            cases hop
            exact hne (by rw [hst]; rfl)
        · rename_i hnb
          refine ⟨?_, hsrc⟩
          intro ref u hop
          exact absurd hop (hnb ref u)
      obtain ⟨hansw, hsrc⟩ := hans
      unfold chkAnswerO at hsrc
      cases hr : op.req with
      | none => rw [hr] at hsrc; cases hsrc
      | some r =>
        rw [hr] at hsrc
        exact sound_chkAnswer hsrc (hp pre op o post r htr hr hansw)
    | log x =>
      simp only [] at hsrc
      have hpl := hp pre op o post htr
      cases op <;> simp only [chkLogOp] at hsrc <;> simp only [PLogOp] at hpl <;>
        first | exact sound_chkBodyLog hsrc hpl | exact sound_chkLog hsrc hpl
    | mint x => exact sound_chkMint hsrc (hp pre op o post htr)
    | tbl x =>
      obtain ⟨seen, ent, rest, hl, hj⟩ := scanMap_some hsrc
      exact sound_judgeEntry hj (hp pre op o post seen ent rest htr hl)
    | key x => exact sound_chkKeys hsrc (hp pre op o post htr)
    | gone x => exact sound_chkGone hsrc (hp pre op o post htr)
    | srv x => exact sound_chkSrv hsrc (hp pre op o post htr)
    | close x => exact sound_chkClose hsrc (hp pre op o post htr)
    | noId => exact sound_chkNoId hsrc (hp pre op o post htr)
    | zombieThen x => exact hsrc
  rcases hc with rfl | rfl
  · exact key
  · exact key

/-- the end-of-case clause is reported only when the final sweep left something behind -/
theorem monitor_sound_end {m : Mon} {o : Option EndObs} {c : EndClause} (h : monEnd m o = some c) : ¬ PEnd o :=
  sound_monEnd h

/-! ## one predicate and one soundness theorem per clause -/

/-- the property clause behind `ans.statelessNotPost` -/
def P_statelessNotPost (cfg : Cfg) (v : Verb) (st : St) (tr : Trace) : Prop := P_of cfg (.ans (.statelessNotPost v st)) tr

theorem sound_statelessNotPost {cfg : Cfg} (v : Verb) (st : St) {tr : Trace} {j : Nat} (h : runMon cfg tr = some (j, (.ans (.statelessNotPost v st)))) :
    ¬ P_statelessNotPost cfg v st tr := monitor_sound h

/-- the property clause behind `ans.statelessHonoured` -/
def P_statelessHonoured (cfg : Cfg) (st : St) (tr : Trace) : Prop := P_of cfg (.ans (.statelessHonoured st)) tr

theorem sound_statelessHonoured {cfg : Cfg} (st : St) {tr : Trace} {j : Nat} (h : runMon cfg tr = some (j, (.ans (.statelessHonoured st)))) :
    ¬ P_statelessHonoured cfg st tr := monitor_sound h

/-- the property clause behind `ans.statelessPost` -/
def P_statelessPost (cfg : Cfg) (st : St) (tr : Trace) : Prop := P_of cfg (.ans (.statelessPost st)) tr

theorem sound_statelessPost {cfg : Cfg} (st : St) {tr : Trace} {j : Nat} (h : runMon cfg tr = some (j, (.ans (.statelessPost st)))) :
    ¬ P_statelessPost cfg st tr := monitor_sound h

/-- the property clause behind `ans.otherMethod` -/
def P_otherMethod (cfg : Cfg) (st : St) (tr : Trace) : Prop := P_of cfg (.ans (.otherMethod st)) tr

theorem sound_otherMethod {cfg : Cfg} (st : St) {tr : Trace} {j : Nat} (h : runMon cfg tr = some (j, (.ans (.otherMethod st)))) :
    ¬ P_otherMethod cfg st tr := monitor_sound h

/-- the property clause behind `ans.createAnswered` -/
def P_createAnswered (cfg : Cfg) (st : St) (tr : Trace) : Prop := P_of cfg (.ans (.createAnswered st)) tr

theorem sound_createAnswered {cfg : Cfg} (st : St) {tr : Trace} {j : Nat} (h : runMon cfg tr = some (j, (.ans (.createAnswered st)))) :
    ¬ P_createAnswered cfg st tr := monitor_sound h

/-- the property clause behind `ans.missingId` -/
def P_missingId (cfg : Cfg) (v : Verb) (st : St) (tr : Trace) : Prop := P_of cfg (.ans (.missingId v st)) tr

theorem sound_missingId {cfg : Cfg} (v : Verb) (st : St) {tr : Trace} {j : Nat} (h : runMon cfg tr = some (j, (.ans (.missingId v st)))) :
    ¬ P_missingId cfg v st tr := monitor_sound h

/-- the property clause behind `ans.unknownHonoured` -/
def P_unknownHonoured (cfg : Cfg) (v : Verb) (st : St) (tr : Trace) : Prop := P_of cfg (.ans (.unknownHonoured v st)) tr

theorem sound_unknownHonoured {cfg : Cfg} (v : Verb) (st : St) {tr : Trace} {j : Nat} (h : runMon cfg tr = some (j, (.ans (.unknownHonoured v st)))) :
    ¬ P_unknownHonoured cfg v st tr := monitor_sound h

/-- the property clause behind `ans.deadAnswered` -/
def P_deadAnswered (cfg : Cfg) (v : Verb) (st : St) (tr : Trace) : Prop := P_of cfg (.ans (.deadAnswered v st)) tr

theorem sound_deadAnswered {cfg : Cfg} (v : Verb) (st : St) {tr : Trace} {j : Nat} (h : runMon cfg tr = some (j, (.ans (.deadAnswered v st)))) :
    ¬ P_deadAnswered cfg v st tr := monitor_sound h

/-- the property clause behind `ans.ownerRejected` -/
def P_ownerRejected (cfg : Cfg)  (tr : Trace) : Prop := P_of cfg (.ans (.ownerRejected)) tr

theorem sound_ownerRejected {cfg : Cfg}  {tr : Trace} {j : Nat} (h : runMon cfg tr = some (j, (.ans (.ownerRejected)))) :
    ¬ P_ownerRejected cfg  tr := monitor_sound h

/-- the property clause behind `ans.foreignAnswered` -/
def P_foreignAnswered (cfg : Cfg) (v : Verb) (st : St) (tr : Trace) : Prop := P_of cfg (.ans (.foreignAnswered v st)) tr

theorem sound_foreignAnswered {cfg : Cfg} (v : Verb) (st : St) {tr : Trace} {j : Nat} (h : runMon cfg tr = some (j, (.ans (.foreignAnswered v st)))) :
    ¬ P_foreignAnswered cfg v st tr := monitor_sound h

/-- the property clause behind `ans.goneDuringPost` -/
def P_goneDuringPost (cfg : Cfg)  (tr : Trace) : Prop := P_of cfg (.ans (.goneDuringPost)) tr

theorem sound_goneDuringPost {cfg : Cfg}  {tr : Trace} {j : Nat} (h : runMon cfg tr = some (j, (.ans (.goneDuringPost)))) :
    ¬ P_goneDuringPost cfg  tr := monitor_sound h

/-- the property clause behind `ans.liveNotHonoured` -/
def P_liveNotHonoured (cfg : Cfg) (v : Verb) (tr : Trace) : Prop := P_of cfg (.ans (.liveNotHonoured v)) tr

theorem sound_liveNotHonoured {cfg : Cfg} (v : Verb) {tr : Trace} {j : Nat} (h : runMon cfg tr = some (j, (.ans (.liveNotHonoured v)))) :
    ¬ P_liveNotHonoured cfg v tr := monitor_sound h

/-- the property clause behind `ans.liveAnswered` -/
def P_liveAnswered (cfg : Cfg) (v : Verb) (st : St) (tr : Trace) : Prop := P_of cfg (.ans (.liveAnswered v st)) tr

theorem sound_liveAnswered {cfg : Cfg} (v : Verb) (st : St) {tr : Trace} {j : Nat} (h : runMon cfg tr = some (j, (.ans (.liveAnswered v st)))) :
    ¬ P_liveAnswered cfg v st tr := monitor_sound h

/-- the property clause behind `log.rejectedReached` -/
def P_log_rejectedReached (cfg : Cfg)  (tr : Trace) : Prop := P_of cfg (.log (.rejectedReached)) tr

theorem sound_log_rejectedReached {cfg : Cfg}  {tr : Trace} {j : Nat} (h : runMon cfg tr = some (j, (.log (.rejectedReached)))) :
    ¬ P_log_rejectedReached cfg  tr := monitor_sound h

/-- the property clause behind `log.otherUser` -/
def P_log_otherUser (cfg : Cfg)  (tr : Trace) : Prop := P_of cfg (.log (.otherUser)) tr

theorem sound_log_otherUser {cfg : Cfg}  {tr : Trace} {j : Nat} (h : runMon cfg tr = some (j, (.log (.otherUser)))) :
    ¬ P_log_otherUser cfg  tr := monitor_sound h

/-- the property clause behind `log.statelessWithId` -/
def P_log_statelessWithId (cfg : Cfg)  (tr : Trace) : Prop := P_of cfg (.log (.statelessWithId)) tr

theorem sound_log_statelessWithId {cfg : Cfg}  {tr : Trace} {j : Nat} (h : runMon cfg tr = some (j, (.log (.statelessWithId)))) :
    ¬ P_log_statelessWithId cfg  tr := monitor_sound h

/-- the property clause behind `log.misrouted` -/
def P_log_misrouted (cfg : Cfg)  (tr : Trace) : Prop := P_of cfg (.log (.misrouted)) tr

theorem sound_log_misrouted {cfg : Cfg}  {tr : Trace} {j : Nat} (h : runMon cfg tr = some (j, (.log (.misrouted)))) :
    ¬ P_log_misrouted cfg  tr := monitor_sound h

/-- the property clause behind `log.noRequest` -/
def P_log_noRequest (cfg : Cfg)  (tr : Trace) : Prop := P_of cfg (.log (.noRequest)) tr

theorem sound_log_noRequest {cfg : Cfg}  {tr : Trace} {j : Nat} (h : runMon cfg tr = some (j, (.log (.noRequest)))) :
    ¬ P_log_noRequest cfg  tr := monitor_sound h

/-- the property clause behind `mint.stateless` -/
def P_mint_stateless (cfg : Cfg)  (tr : Trace) : Prop := P_of cfg (.mint (.stateless)) tr

theorem sound_mint_stateless {cfg : Cfg}  {tr : Trace} {j : Nat} (h : runMon cfg tr = some (j, (.mint (.stateless)))) :
    ¬ P_mint_stateless cfg  tr := monitor_sound h

/-- the property clause behind `mint.notCreating` -/
def P_mint_notCreating (cfg : Cfg)  (tr : Trace) : Prop := P_of cfg (.mint (.notCreating)) tr

theorem sound_mint_notCreating {cfg : Cfg}  {tr : Trace} {j : Nat} (h : runMon cfg tr = some (j, (.mint (.notCreating)))) :
    ¬ P_mint_notCreating cfg  tr := monitor_sound h

/-- the property clause behind `mint.reused` -/
def P_mint_reused (cfg : Cfg)  (tr : Trace) : Prop := P_of cfg (.mint (.reused)) tr

theorem sound_mint_reused {cfg : Cfg}  {tr : Trace} {j : Nat} (h : runMon cfg tr = some (j, (.mint (.reused)))) :
    ¬ P_mint_reused cfg  tr := monitor_sound h

/-- the property clause behind `mint.different` -/
def P_mint_different (cfg : Cfg)  (tr : Trace) : Prop := P_of cfg (.mint (.different)) tr

theorem sound_mint_different {cfg : Cfg}  {tr : Trace} {j : Nat} (h : runMon cfg tr = some (j, (.mint (.different)))) :
    ¬ P_mint_different cfg  tr := monitor_sound h

/-- the property clause behind `tbl.ownerChanged` -/
def P_tbl_ownerChanged (cfg : Cfg)  (tr : Trace) : Prop := P_of cfg (.tbl (.ownerChanged)) tr

theorem sound_tbl_ownerChanged {cfg : Cfg}  {tr : Trace} {j : Nat} (h : runMon cfg tr = some (j, (.tbl (.ownerChanged)))) :
    ¬ P_tbl_ownerChanged cfg  tr := monitor_sound h

/-- the property clause behind `tbl.deadInTable` -/
def P_tbl_deadInTable (cfg : Cfg) (n : Name) (tr : Trace) : Prop := P_of cfg (.tbl (.deadInTable n)) tr

theorem sound_tbl_deadInTable {cfg : Cfg} (n : Name) {tr : Trace} {j : Nat} (h : runMon cfg tr = some (j, (.tbl (.deadInTable n)))) :
    ¬ P_tbl_deadInTable cfg n tr := monitor_sound h

/-- the property clause behind `tbl.closingDuringPost` -/
def P_tbl_closingDuringPost (cfg : Cfg) (n : Name) (tr : Trace) : Prop := P_of cfg (.tbl (.closingDuringPost n)) tr

theorem sound_tbl_closingDuringPost {cfg : Cfg} (n : Name) {tr : Trace} {j : Nat} (h : runMon cfg tr = some (j, (.tbl (.closingDuringPost n)))) :
    ¬ P_tbl_closingDuringPost cfg n tr := monitor_sound h

/-- the property clause behind `tbl.closingNoCause` -/
def P_tbl_closingNoCause (cfg : Cfg) (n : Name) (tr : Trace) : Prop := P_of cfg (.tbl (.closingNoCause n)) tr

theorem sound_tbl_closingNoCause {cfg : Cfg} (n : Name) {tr : Trace} {j : Nat} (h : runMon cfg tr = some (j, (.tbl (.closingNoCause n)))) :
    ¬ P_tbl_closingNoCause cfg n tr := monitor_sound h

/-- the property clause behind `tbl.f20` -/
def P_tbl_f20 (cfg : Cfg)  (tr : Trace) : Prop := P_of cfg (.tbl (.f20)) tr

theorem sound_tbl_f20 {cfg : Cfg}  {tr : Trace} {j : Nat} (h : runMon cfg tr = some (j, (.tbl (.f20)))) :
    ¬ P_tbl_f20 cfg  tr := monitor_sound h

/-- the property clause behind `tbl.keptAfterFailedInit` -/
def P_tbl_keptAfterFailedInit (cfg : Cfg)  (tr : Trace) : Prop := P_of cfg (.tbl (.keptAfterFailedInit)) tr

theorem sound_tbl_keptAfterFailedInit {cfg : Cfg}  {tr : Trace} {j : Nat} (h : runMon cfg tr = some (j, (.tbl (.keptAfterFailedInit)))) :
    ¬ P_tbl_keptAfterFailedInit cfg  tr := monitor_sound h

/-- the property clause behind `tbl.keptAfterRefusal` -/
def P_tbl_keptAfterRefusal (cfg : Cfg) (st : St) (tr : Trace) : Prop := P_of cfg (.tbl (.keptAfterRefusal st)) tr

theorem sound_tbl_keptAfterRefusal {cfg : Cfg} (st : St) {tr : Trace} {j : Nat} (h : runMon cfg tr = some (j, (.tbl (.keptAfterRefusal st)))) :
    ¬ P_tbl_keptAfterRefusal cfg st tr := monitor_sound h

/-- the property clause behind `tbl.boundToOther` -/
def P_tbl_boundToOther (cfg : Cfg)  (tr : Trace) : Prop := P_of cfg (.tbl (.boundToOther)) tr

theorem sound_tbl_boundToOther {cfg : Cfg}  {tr : Trace} {j : Nat} (h : runMon cfg tr = some (j, (.tbl (.boundToOther)))) :
    ¬ P_tbl_boundToOther cfg  tr := monitor_sound h

/-- the property clause behind `tbl.notTheNamed` -/
def P_tbl_notTheNamed (cfg : Cfg)  (tr : Trace) : Prop := P_of cfg (.tbl (.notTheNamed)) tr

theorem sound_tbl_notTheNamed {cfg : Cfg}  {tr : Trace} {j : Nat} (h : runMon cfg tr = some (j, (.tbl (.notTheNamed)))) :
    ¬ P_tbl_notTheNamed cfg  tr := monitor_sound h

/-- the property clause behind `tbl.statelessKeeps` -/
def P_tbl_statelessKeeps (cfg : Cfg)  (tr : Trace) : Prop := P_of cfg (.tbl (.statelessKeeps)) tr

theorem sound_tbl_statelessKeeps {cfg : Cfg}  {tr : Trace} {j : Nat} (h : runMon cfg tr = some (j, (.tbl (.statelessKeeps)))) :
    ¬ P_tbl_statelessKeeps cfg  tr := monitor_sound h

/-- the property clause behind `tbl.appeared` -/
def P_tbl_appeared (cfg : Cfg)  (tr : Trace) : Prop := P_of cfg (.tbl (.appeared)) tr

theorem sound_tbl_appeared {cfg : Cfg}  {tr : Trace} {j : Nat} (h : runMon cfg tr = some (j, (.tbl (.appeared)))) :
    ¬ P_tbl_appeared cfg  tr := monitor_sound h

/-- the property clause behind `key.duplicate` -/
def P_key_duplicate (cfg : Cfg)  (tr : Trace) : Prop := P_of cfg (.key (.duplicate)) tr

theorem sound_key_duplicate {cfg : Cfg}  {tr : Trace} {j : Nat} (h : runMon cfg tr = some (j, (.key (.duplicate)))) :
    ¬ P_key_duplicate cfg  tr := monitor_sound h

/-- the property clause behind `key.badKey` -/
def P_key_badKey (cfg : Cfg)  (tr : Trace) : Prop := P_of cfg (.key (.badKey)) tr

theorem sound_key_badKey {cfg : Cfg}  {tr : Trace} {j : Nat} (h : runMon cfg tr = some (j, (.key (.badKey)))) :
    ¬ P_key_badKey cfg  tr := monitor_sound h

/-- the property clause behind `gone.duringPost` -/
def P_gone_duringPost (cfg : Cfg) (n : Name) (tr : Trace) : Prop := P_of cfg (.gone (.duringPost n)) tr

theorem sound_gone_duringPost {cfg : Cfg} (n : Name) {tr : Trace} {j : Nat} (h : runMon cfg tr = some (j, (.gone (.duringPost n)))) :
    ¬ P_gone_duringPost cfg n tr := monitor_sound h

/-- the property clause behind `gone.dropped` -/
def P_gone_dropped (cfg : Cfg) (n : Name) (tr : Trace) : Prop := P_of cfg (.gone (.dropped n)) tr

theorem sound_gone_dropped {cfg : Cfg} (n : Name) {tr : Trace} {j : Nat} (h : runMon cfg tr = some (j, (.gone (.dropped n)))) :
    ¬ P_gone_dropped cfg n tr := monitor_sound h

/-- the property clause behind `srv.statelessId` -/
def P_srv_statelessId (cfg : Cfg)  (tr : Trace) : Prop := P_of cfg (.srv (.statelessId)) tr

theorem sound_srv_statelessId {cfg : Cfg}  {tr : Trace} {j : Nat} (h : runMon cfg tr = some (j, (.srv (.statelessId)))) :
    ¬ P_srv_statelessId cfg  tr := monitor_sound h

/-- the property clause behind `srv.notForgotten` -/
def P_srv_notForgotten (cfg : Cfg) (n : Name) (tr : Trace) : Prop := P_of cfg (.srv (.notForgotten n)) tr

theorem sound_srv_notForgotten {cfg : Cfg} (n : Name) {tr : Trace} {j : Nat} (h : runMon cfg tr = some (j, (.srv (.notForgotten n)))) :
    ¬ P_srv_notForgotten cfg n tr := monitor_sound h

/-- the property clause behind `srv.tableKeeps` -/
def P_srv_tableKeeps (cfg : Cfg) (n : Name) (tr : Trace) : Prop := P_of cfg (.srv (.tableKeeps n)) tr

theorem sound_srv_tableKeeps {cfg : Cfg} (n : Name) {tr : Trace} {j : Nat} (h : runMon cfg tr = some (j, (.srv (.tableKeeps n)))) :
    ¬ P_srv_tableKeeps cfg n tr := monitor_sound h

/-- the property clause behind `close.stuck` (C05 ∩ C11): a session whose `Close` has begun and none of whose
handlers is running is closed and gone from the handler's table -/
def P_close_stuck (cfg : Cfg) (n : Name) (tr : Trace) : Prop := P_of cfg (.close (.stuck n)) tr

theorem sound_close_stuck {cfg : Cfg} (n : Name) {tr : Trace} {j : Nat} (h : runMon cfg tr = some (j, (.close (.stuck n)))) :
    ¬ P_close_stuck cfg n tr := monitor_sound h

/-- the property clause behind `close.timerLeft` (C05 ∩ C11): no idle timer of a session that has left the table is armed -/
def P_close_timerLeft (cfg : Cfg) (n : Name) (tr : Trace) : Prop := P_of cfg (.close (.timerLeft n)) tr

theorem sound_close_timerLeft {cfg : Cfg} (n : Name) {tr : Trace} {j : Nat} (h : runMon cfg tr = some (j, (.close (.timerLeft n)))) :
    ¬ P_close_timerLeft cfg n tr := monitor_sound h

end Sessions
