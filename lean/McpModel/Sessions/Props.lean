import McpModel.Sessions.Lemmas
/-!
# C11 — HTTP session ids: one live session, dead after termination, bound to its user

Model: `Sessions.step` (E7).  Every theorem quantifies over all reachable states
`Reach cfg s := ∃ ls, exec (init cfg) ls = s`, i.e. over **all label lists** — all interleavings of
POST begin/end, handler completions, GET, DELETE, clock ticks, timer callbacks, server-side closes and
close completions, with any number of sessions, users and requests; nothing is bounded.  The status
codes are the ones the extractor regenerates from `mcp/streamable.go`; the statements spell them as
literals (404, 403, 405), so a changed code in the source re-opens the proofs.

F20.  Every theorem carries the decidable hypothesis `cfg.publishChecks = true`: the publication of a
new session skips a session whose `onClose` has already run (fixes/F20-publish-after-close.patch).
`Generated.Sessions.publishChecksClosed` says whether the source has that check (structural fact
`sessions.publish_checks_closed`, expected `true`), and `zombie_without_publish_check` proves that
without it the property fails: a session closed by the server while its creating POST is between
`Connect` and the publication stays in `h.sessions` for ever and keeps being honoured.
-/
namespace Sessions

/-! ## the regenerated constants are the ones the property names -/

theorem status_codes : stNotFound = 404 ∧ stForbidden = 403 ∧ stStatelessNotPost = 405 ∧
    stOtherMethod = 405 ∧ stDeleted = 204 ∧ stMissingIdGet = 400 ∧ stMissingIdDelete = 400 ∧
    stConnectFailed = 500 ∧ stStoreOpenFailed = 500 ∧ stReplayFailed = 400 := by decide

theorem header_name : Generated.Sessions.sessionIDHeader = "Mcp-Session-Id" := by decide

/-! ## auxiliary facts about reachable tables -/

theorem ids_lt {s : State} (hi : Inv s) : ∀ e ∈ s.tbl, e.id < s.next := by
  intro e he
  have : e.id ∈ s.tbl.map (·.id) := List.mem_map.mpr ⟨e, he, rfl⟩
  rw [hi.ids] at this
  exact List.mem_range.mp this

theorem ids_nodup {s : State} (hi : Inv s) : (s.tbl.map (·.id)).Nodup := by
  rw [hi.ids]; exact List.nodup_range

theorem inj_of_nodup_ids {l : List Sess} (h : (l.map (·.id)).Nodup) :
    ∀ a ∈ l, ∀ b ∈ l, a.id = b.id → a = b := by
  induction l with
  | nil => intro a ha; cases ha
  | cons x t ih =>
    simp only [List.map_cons, List.nodup_cons] at h
    intro a ha b hb hab
    cases ha with
    | head =>
      cases hb with
      | head => rfl
      | tail _ hb => exact absurd (List.mem_map.mpr ⟨b, hb, hab.symm⟩) h.1
    | tail _ ha =>
      cases hb with
      | head => exact absurd (List.mem_map.mpr ⟨a, ha, hab⟩) h.1
      | tail _ hb => exact ih h.2 a ha b hb hab

theorem entry_unique {s : State} (hi : Inv s) {e₁ e₂ : Sess} (h₁ : e₁ ∈ s.tbl) (h₂ : e₂ ∈ s.tbl)
    (h : e₁.id = e₂.id) : e₁ = e₂ :=
  inj_of_nodup_ids (ids_nodup hi) e₁ h₁ e₂ h₂ h

theorem findSess_mem {s : State} (hi : Inv s) {e : Sess} (he : e ∈ s.tbl) : findSess e.id s.tbl = some e := by
  cases hf : findSess e.id s.tbl with
  | none => exact absurd rfl (findSess_none hf e he)
  | some e' =>
    have := findSess_some hf
    rw [entry_unique hi this.1 he this.2]

/-- One step keeps every entry (same id, same owner; removed stays removed, closing stays closing). -/
theorem step_keeps {s s' : State} {l : Label} {r : Resp} (h : step s l = some (s', r)) :
    ∀ e ∈ s.tbl, ∃ e' ∈ s'.tbl, e'.id = e.id ∧ e'.owner = e.owner ∧
      (e.removed = true → e'.removed = true) ∧ (e.closing = true → e'.closing = true) := by
  intro e he
  obtain ⟨_, _, hcase⟩ := step_cases h
  rcases hcase with ⟨ht, _⟩ | ⟨u, k, e1, _, _, ht, _, _⟩ | ⟨pre, e0, post, e0', h1, h2, _, hm, _, _, _⟩
  · exact ⟨e, by rw [ht]; exact he, rfl, rfl, id, id⟩
  · exact ⟨e, by rw [ht]; exact List.mem_append_left _ he, rfl, rfl, id, id⟩
  · rw [h1] at he
    rcases List.mem_append.mp he with he | he
    · exact ⟨e, by rw [h2]; exact List.mem_append_left _ he, rfl, rfl, id, id⟩
    · cases he with
      | head =>
        have hf := move_fields hm
        exact ⟨e0', by rw [h2]; simp, hf.1, hf.2.1, hf.2.2.1, hf.2.2.2⟩
      | tail _ he =>
        exact ⟨e, by rw [h2]; exact List.mem_append_right _ (List.mem_cons_of_mem _ he), rfl, rfl, id, id⟩

theorem exec_keeps (s : State) (ls : List Label) :
    ∀ e ∈ s.tbl, ∃ e' ∈ (exec s ls).tbl, e'.id = e.id ∧ e'.owner = e.owner ∧
      (e.removed = true → e'.removed = true) ∧ (e.closing = true → e'.closing = true) := by
  induction ls generalizing s with
  | nil => intro e he; exact ⟨e, he, rfl, rfl, id, id⟩
  | cons l ls ih =>
    intro e he
    simp only [exec]
    split
    · rename_i s' r h
      obtain ⟨e1, h1, a, b, c, d⟩ := step_keeps h e he
      obtain ⟨e2, h2, a', b', c', d'⟩ := ih s' e1 h1
      exact ⟨e2, h2, a'.trans a, b'.trans b, fun x => c' (c x), fun x => d' (d x)⟩
    · exact ih s e he

/-- One step keeps a quiet entry quiet (closing, no handler in flight). -/
theorem step_keeps_quiet {s s' : State} {l : Label} {r : Resp} (h : step s l = some (s', r)) :
    ∀ e ∈ s.tbl, Quiet e → ∃ e' ∈ s'.tbl, e'.id = e.id ∧ Quiet e' := by
  intro e he hq
  obtain ⟨_, _, hcase⟩ := step_cases h
  rcases hcase with ⟨ht, _⟩ | ⟨u, k, e1, _, _, ht, _, _⟩ | ⟨pre, e0, post, e0', h1, h2, _, hm, _, _, _⟩
  · exact ⟨e, by rw [ht]; exact he, rfl, hq⟩
  · exact ⟨e, by rw [ht]; exact List.mem_append_left _ he, rfl, hq⟩
  · rw [h1] at he
    rcases List.mem_append.mp he with he | he
    · exact ⟨e, by rw [h2]; exact List.mem_append_left _ he, rfl, hq⟩
    · cases he with
      | head => exact ⟨e0', by rw [h2]; simp, (move_fields hm).1, move_quiet hm hq⟩
      | tail _ he =>
        exact ⟨e, by rw [h2]; exact List.mem_append_right _ (List.mem_cons_of_mem _ he), rfl, hq⟩

theorem exec_keeps_quiet (s : State) (ls : List Label) :
    ∀ e ∈ s.tbl, Quiet e → ∃ e' ∈ (exec s ls).tbl, e'.id = e.id ∧ e'.closing = true ∧ e'.busy = 0 ∧
      e'.initBusy = 0 := by
  induction ls generalizing s with
  | nil => intro e he hq; exact ⟨e, he, rfl, hq.1, hq.2.1, hq.2.2⟩
  | cons l ls ih =>
    intro e he hq
    simp only [exec]
    split
    · rename_i s' r h
      obtain ⟨e1, h1, a, q1⟩ := step_keeps_quiet h e he hq
      obtain ⟨e2, h2, a', q2⟩ := ih s' e1 h1 q1
      exact ⟨e2, h2, a'.trans a, q2⟩
    · exact ih s e he hq

theorem lookup_removed {s : State} (hi : Inv s) {e : Sess} (he : e ∈ s.tbl) (hr : e.inMap = false)
    (u : User) : lookup s.tbl e.id u = .error 404 := by
  unfold lookup
  rw [findSess_mem hi he]
  simp [hr, status_codes.1]

theorem lookup_foreign {s : State} (hi : Inv s) {e : Sess} (he : e ∈ s.tbl) (hr : e.inMap = true)
    {o : Nat} (ho : e.owner = some o) {u : User} (hu : u ≠ some o) : lookup s.tbl e.id u = .error 403 := by
  unfold lookup
  rw [findSess_mem hi he]
  simp [hr, ho, hu, status_codes.2.1]

theorem stateful_of_mem {s : State} (hi : Inv s) {e : Sess} (he : e ∈ s.tbl) :
    s.cfg.stateless = false := by
  cases hst : s.cfg.stateless with
  | false => rfl
  | true => have := hi.stateless hst; rw [this] at he; cases he

/-! ## 1. ids are minted only by a POST without a session id that creates a session -/

/-- A response carries an `Mcp-Session-Id` only in two cases: (a) it answers the POST *without* a
session id that created session `i` (label `publish i`: the entry is the one a `postBegin none` step
appended, still marked `creating` with its `initialize` message pending, not yet in the map) — the
header is that session's id; (b) a POST *with* session id `i` that passed `lookupSession` (entry in the
map, entitled user) and carries `initialize`: the header repeats the request's own id.  GET, DELETE,
other methods, internal labels and stateless endpoints never produce one. -/
theorem id_minted_only_on_creating_post {cfg : Cfg} {s s' : State} {l : Label} {i : Nat} {d : Bool}
    (hr : Reach cfg s) (hfix : cfg.publishChecks = true) (h : step s l = some (s', .forward (some i) d)) :
    s.cfg.stateless = false ∧ s'.tbl.length = s.tbl.length ∧
    ((l = .publish i ∧ ∃ e ∈ s.tbl, ∃ k, e.id = i ∧ e.creating = true ∧ e.pending = some k ∧
        k.isInitialize = true ∧ e.inMap = false) ∨
     (∃ u k e, l = .postBegin (some i) u k ∧ k.isInitialize = true ∧ lookup s.tbl i u = .ok e)) := by
  have hi := reach_inv hr hfix
  unfold step at h
  split at h
  · cases l <;> simp only [stepStateless] at h
    case postBegin =>
      split at h
      · cases h
      · simp only [postResp] at h; split at h <;> cases h
    case postEnd sid c => cases sid <;> simp only [] at h <;> (try split at h) <;> cases h
    all_goals cases h
  · rename_i hst
    refine ⟨by simpa using hst, ?_⟩
    cases l <;> simp only [stepStateful] at h
    case postBegin sid u k =>
      cases sid <;> simp only [] at h
      · split at h <;> cases h
      · rename_i j
        split at h
        · cases h
        · rename_i e hl
          split at h
          · cases h
          · rename_i t hm
            simp only [postResp] at h
            split at h
            · cases hk : k.isInitialize <;> simp [hk] at h
              obtain ⟨h1, h2, _⟩ := h
              subst h1; subst h2
              obtain ⟨pre, e1, post, e1', p1, p2, _⟩ := modify_some hm
              exact ⟨by simp [p1, p2], Or.inr ⟨u, k, e, rfl, hk, hl⟩⟩
            · cases h
    case publish j =>
      split at h
      · rename_i e hf
        split at h
        · rename_i k hp
          split at h
          · rename_i t hm
            simp only [postResp] at h
            split at h
            · cases hk : k.isInitialize <;> simp [hk] at h
              obtain ⟨h1, h2, _⟩ := h
              subst h1; subst h2
              obtain ⟨pre, e1, post, e1', p1, p2, _, _, p5, p6⟩ := modify_some hm
              rw [hf] at p6; cases p6
              have hmem := (findSess_some hf).1
              have hid := (findSess_some hf).2
              have hg := (hi.good e hmem).pending (by simp [hp])
              exact ⟨by simp [p1, p2], Or.inl ⟨rfl, e, hmem, k, hid, hg.1, hp, hk, hg.2.1⟩⟩
            · cases h
          · cases h
        · cases h
      · cases h
    case handlerDone => split at h <;> cases h
    case postHead sid u =>
      cases sid <;> simp only [] at h
      · cases h
      · split at h
        · cases h
        · split at h <;> cases h
    case postBody j k =>
      split at h
      · cases h
      split at h
      · cases h
      · split at h
        · cases h
        · simp only [postResp] at h; split at h <;> cases h
    case postEnd sid c => cases sid <;> simp only [] at h <;> (try split at h) <;> cases h
    case get sid u =>
      cases sid <;> simp only [] at h
      · cases h
      · split at h
        · cases h
        · split at h <;> cases h
    case faults => cases h
    case delete sid u =>
      cases sid <;> simp only [] at h
      · cases h
      · split at h
        · cases h
        · split at h <;> cases h
    case other => cases h
    case tick => cases h
    case timerFire => split at h <;> cases h
    case serverClose => split at h <;> cases h
    case closeDone => split at h <;> cases h

/-- The table only ever grows by a POST without a session id (nothing else mints an id), and the id it
mints is fresh: no entry, live or removed, ever had it.  Either a session is created (`newSess`: bound
to the POST's user, waiting for its publication), or — the event store refuses `Transport.Connect` —
the POST is answered 500 and the minted id is born dead (`failedSess`: never in the handler's table,
never listed by the server; `dead_after_removal` applies to it from the start). -/
theorem session_created_only_by_post_without_id {cfg : Cfg} {s s' : State} {l : Label} {r : Resp}
    (hr : Reach cfg s) (hfix : cfg.publishChecks = true)
    (h : step s l = some (s', r)) (hlen : s'.tbl.length ≠ s.tbl.length) :
    ∃ u k e0, l = .postBegin none u k ∧ s.cfg.stateless = false ∧ s'.tbl = s.tbl ++ [e0] ∧
      e0.id = s.next ∧ e0.owner = u ∧ (∀ e ∈ s.tbl, e.id ≠ s.next) ∧
      ((e0 = newSess s u k ∧ r = .tau) ∨
       (e0 = failedSess s u ∧ r = .reject 500 ∧ cfg.eventStore = true ∧ s.faults.connOpen = true ∧
          e0.removed = true ∧ e0.inMap = false)) := by
  have hi := reach_inv hr hfix
  have hcfg := reach_cfg hr
  obtain ⟨_, _, hcase⟩ := step_cases h
  rcases hcase with ⟨ht, _⟩ | ⟨u, k, e0, hl, hst, ht, he0, _, _⟩ | ⟨pre, e0, post, e0', h1, h2, _⟩
  · rw [ht] at hlen; exact absurd rfl hlen
  · have hfresh : ∀ e ∈ s.tbl, e.id ≠ s.next := by
      intro e he hid
      have := ids_lt hi e he
      omega
    rcases he0 with ⟨h0, _, hr0⟩ | ⟨h0, hcf, hr0⟩
    · exact ⟨u, k, e0, hl, hst, ht, by rw [h0]; rfl, by rw [h0]; rfl, hfresh, Or.inl ⟨h0, hr0⟩⟩
    · simp only [State.connectFails, Bool.and_eq_true] at hcf
      exact ⟨u, k, e0, hl, hst, ht, by rw [h0]; rfl, by rw [h0]; rfl, hfresh,
        Or.inr ⟨h0, hr0, by rw [← hcfg]; exact hcf.1, hcf.2, by rw [h0]; rfl, by rw [h0]; rfl⟩⟩
  · rw [h1, h2] at hlen; simp at hlen

/-- Non-vacuity of the refused creation: the id is consumed, nothing is ever listed or honoured. -/
example :
    let s := exec (init ⟨false, 100, true, true⟩) [.faults { connOpen := true }, .postBegin none (some 1) .init]
    s.next = 1 ∧ liveIds s = [] ∧ serverIds s = [] ∧
    step s (.postBegin (some 0) (some 1) .call) = some (s, .reject 404) := by decide

example : (step (exec (init ⟨false, 100, true, false⟩) [.postBegin none (some 1) .init]) (.publish 0)).map (·.2)
    = some (.forward (some 0) true) := by decide

/-! ## 2. an id addresses exactly one session -/

/-- In every reachable state the ids of the table (live *and* removed entries — ids are never reused)
are pairwise distinct, so `lookupSession` is a function; and along every continuation an id keeps
naming the same session with the same owner. -/
theorem id_addresses_one_session {cfg : Cfg} {s : State} (hr : Reach cfg s) (hfix : cfg.publishChecks = true) :
    (s.tbl.map (·.id)).Nodup ∧
    (∀ e₁ ∈ s.tbl, ∀ e₂ ∈ s.tbl, e₁.id = e₂.id → e₁ = e₂) ∧
    (∀ e ∈ s.tbl, findSess e.id s.tbl = some e) ∧
    (∀ e ∈ s.tbl, ∀ ls, ∃ e' ∈ (exec s ls).tbl, e'.id = e.id ∧ e'.owner = e.owner ∧
        ∀ e'' ∈ (exec s ls).tbl, e''.id = e.id → e'' = e') := by
  have hi := reach_inv hr hfix
  refine ⟨ids_nodup hi, fun e₁ h₁ e₂ h₂ h => entry_unique hi h₁ h₂ h, fun e he => findSess_mem hi he, ?_⟩
  intro e he ls
  obtain ⟨e', h1, h2, h3, _⟩ := exec_keeps s ls e he
  have hi' := reach_inv (reach_exec hr ls) hfix
  exact ⟨e', h1, h2, h3, fun e'' h'' hid => entry_unique hi' h'' h1 (hid.trans h2.symm)⟩

/-! ## 3. dead after removal -/

/-- Once a session has been removed (whatever began the close: DELETE, idle timeout, server-side close
— also one that lands while the creating POST is still between `Connect` and the publication —, failed
initialize), then after **every** continuation: it is still removed, is not a key of `h.sessions` nor
listed by `Server.Sessions()`, has no timer and no handler in flight, every POST, GET and DELETE
carrying its id — from any user, the owner included — is answered 404 and changes nothing, and neither
its timer nor a close can act on it any more. -/
theorem dead_after_removal {cfg : Cfg} {s : State} (hr : Reach cfg s) (hfix : cfg.publishChecks = true)
    {e : Sess} (he : e ∈ s.tbl) (hrem : e.removed = true) (ls : List Label) :
    let s' := exec s ls
    (∃ e' ∈ s'.tbl, e'.id = e.id ∧ e'.owner = e.owner ∧ e'.removed = true ∧ e'.inMap = false ∧
        e'.timer = .nil ∧ e'.busy = 0 ∧ e'.initBusy = 0) ∧
    e.id ∉ liveIds s' ∧ e.id ∉ serverIds s' ∧
    (∀ u k, step s' (.postBegin (some e.id) u k) = some (s', .reject 404)) ∧
    (∀ u, step s' (.get (some e.id) u) = some (s', .reject 404)) ∧
    (∀ u, step s' (.delete (some e.id) u) = some (s', .reject 404)) ∧
    step s' (.timerFire e.id) = none ∧ step s' (.serverClose e.id) = none ∧
    step s' (.closeDone e.id) = none ∧ (∀ b, step s' (.handlerDone e.id b) = none) := by
  intro s'
  have hr' : Reach cfg s' := reach_exec hr ls
  have hi' := reach_inv hr' hfix
  obtain ⟨e', h1, h2, h3, h4, _⟩ := exec_keeps s ls e he
  have hrem' := h4 hrem
  have hg := (hi'.good e' h1).removed hrem'
  have hgt := ((hi'.good e' h1).unpublished hg.1).1
  have hst := stateful_of_mem hi' h1
  have hl : ∀ u, lookup s'.tbl e.id u = .error 404 := by
    intro u; rw [← h2]; exact lookup_removed hi' h1 hg.1 u
  have hf : findSess e.id s'.tbl = some e' := by rw [← h2]; exact findSess_mem hi' h1
  have hmod : ∀ f : Sess → Option Sess, f e' = none → modify e.id f s'.tbl = none := by
    intro f hfe
    cases hm : modify e.id f s'.tbl with
    | none => rfl
    | some t =>
      obtain ⟨_, e1, _, e1', _, _, _, _, h5, h6⟩ := modify_some hm
      rw [hf] at h6; cases h6; rw [hfe] at h5; cases h5
  have huniq : ∀ x ∈ s'.tbl, x.id = e.id → x = e' := fun x hx hid => entry_unique hi' hx h1 (hid.trans h2.symm)
  refine ⟨⟨e', h1, h2, h3, hrem', hg.1, hgt, hg.2.1, hg.2.2.1⟩, ?_, ?_, ?_, ?_, ?_, ?_, ?_, ?_, ?_⟩
  · intro hmem
    simp only [liveIds, List.mem_map, List.mem_filter] at hmem
    obtain ⟨x, ⟨hx, hxr⟩, hid⟩ := hmem
    have := huniq x hx hid
    subst this; simp [hg.1] at hxr
  · intro hmem
    simp only [serverIds, List.mem_map, List.mem_filter] at hmem
    obtain ⟨x, ⟨hx, hxr⟩, hid⟩ := hmem
    have := huniq x hx hid
    subst this; simp [hrem'] at hxr
  · intro u k; simp [step, hst, stepStateful, hl]
  · intro u; simp [step, hst, stepStateful, hl]
  · intro u; simp [step, hst, stepStateful, hl]
  · simp [step, hst, stepStateful, hmod (timerFireF s'.now) (by simp [timerFireF, hrem'])]
  · simp [step, hst, stepStateful, hmod closeF (by simp [closeF, hrem'])]
  · simp [step, hst, stepStateful, hmod (closeDoneF s'.closeFails) (by simp [closeDoneF, hrem'])]
  · intro b; simp [step, hst, stepStateful, hmod (handlerDoneF b) (by simp [handlerDoneF, hrem'])]

/-- Each of the four ways a session ends begins the close of exactly that session: an accepted DELETE,
the idle timer's callback, a server-side close, and the end of a creating POST that did not
initialize. -/
theorem removal_causes_begin_close {cfg : Cfg} {s s' : State} {i : Nat} (hr : Reach cfg s)
    (hfix : cfg.publishChecks = true) :
    (∀ u, step s (.delete (some i) u) = some (s', .closeAccepted) →
        ∃ e' ∈ s'.tbl, e'.id = i ∧ e'.closing = true) ∧
    (∀ r, step s (.timerFire i) = some (s', r) → ∃ e' ∈ s'.tbl, e'.id = i ∧ e'.closing = true ∧ e'.timer = .stopped) ∧
    (∀ r, step s (.serverClose i) = some (s', r) → ∃ e' ∈ s'.tbl, e'.id = i ∧ e'.closing = true) ∧
    (∀ r e, step s (.postEnd (some i) true) = some (s', r) → findSess i s.tbl = some e →
        e.initialized = false → e.removed = false → ∃ e' ∈ s'.tbl, e'.id = i ∧ e'.closing = true) := by
  have hi := reach_inv hr hfix
  have key : ∀ (f : Sess → Option Sess) (t : List Sess), modify i f s.tbl = some t →
      ∃ e e', findSess i s.tbl = some e ∧ f e = some e' ∧ e' ∈ t ∧ e.id = i := by
    intro f t hm
    obtain ⟨pre, e, post, e', _, h2, _, h4, h5, h6⟩ := modify_some hm
    exact ⟨e, e', h6, h5, by rw [h2]; simp, h4⟩
  refine ⟨?_, ?_, ?_, ?_⟩
  · intro u h
    unfold step at h
    split at h
    · simp [stepStateless] at h
    · simp only [stepStateful] at h
      split at h
      · cases h
      · rename_i e hl
        have hlk := lookup_ok hl
        have hmem := (findSess_some hlk.1).1
        have hrem := (good_inMap (hi.good e hmem) hlk.2.1).1
        split at h
        · rename_i hm
          obtain ⟨t, ht⟩ := modify_enabled (f := closeF) (e' := { e with closing := true }) hlk.1
            (by simp [closeF, hrem])
          rw [ht] at hm; cases hm
        · rename_i t hm
          cases h
          obtain ⟨e, e', _, h2, h3, h4⟩ := key _ _ hm
          unfold closeF at h2
          split at h2 <;> cases h2
          exact ⟨_, h3, h4, rfl⟩
  · intro r h
    unfold step at h
    split at h
    · simp [stepStateless] at h
    · simp only [stepStateful] at h
      split at h
      · cases h
      · rename_i t hm
        cases h
        obtain ⟨e, e', _, h2, h3, h4⟩ := key _ _ hm
        unfold timerFireF at h2
        split at h2
        · cases h2
        · split at h2
          · split at h2 <;> cases h2
            exact ⟨_, h3, h4, rfl, rfl⟩
          · cases h2
  · intro r h
    unfold step at h
    split at h
    · simp [stepStateless] at h
    · simp only [stepStateful] at h
      split at h
      · cases h
      · rename_i t hm
        cases h
        obtain ⟨e, e', _, h2, h3, h4⟩ := key _ _ hm
        unfold closeF at h2
        split at h2 <;> cases h2
        exact ⟨_, h3, h4, rfl⟩
  · intro r e h hf hinit hrem
    unfold step at h
    split at h
    · simp [stepStateless] at h
    · simp only [stepStateful] at h
      split at h
      · cases h
      · rename_i t hm
        cases h
        obtain ⟨e0, e', h1, h2, h3, h4⟩ := key _ _ hm
        rw [hf] at h1; cases h1
        refine ⟨e', h3, (endPost_fields h2).1.trans h4, ?_⟩
        unfold endPost at h2
        split at h2
        · cases h2
        split at h2
        · cases h2
        split at h2
        · cases h2
        by_cases hz : e.refs - 1 = 0 <;> cases ht : e.timer <;> simp only [ht, hz] at h2 <;>
          simp at h2 <;> subst h2 <;> simp [hinit, hrem]

/-- A close that has begun stays begun until the entry is removed, and it *can* complete as soon as no
handler is in flight: `closeDone` is enabled, removes the entry and takes it out of the map (after
which `dead_after_removal` applies) — whether or not closing the connection reports an error
(`s.closeFails`: the configured event store's `SessionClosed` fails); the error is only recorded. -/
theorem close_completes {cfg : Cfg} {s : State} (hr : Reach cfg s) (hfix : cfg.publishChecks = true)
    {e : Sess} (he : e ∈ s.tbl) (hc : e.closing = true) :
    (∀ ls, ∃ e' ∈ (exec s ls).tbl, e'.id = e.id ∧ e'.closing = true) ∧
    (e.removed = false → e.busy = 0 → e.initBusy = 0 →
      ∃ s', step s (.closeDone e.id) = some (s', .tau) ∧
        ∃ e' ∈ s'.tbl, e'.id = e.id ∧ e'.removed = true ∧ e'.inMap = false ∧ e'.timer = .nil ∧
          e'.closeErr = s.closeFails) := by
  have hi := reach_inv hr hfix
  refine ⟨fun ls => ?_, ?_⟩
  · obtain ⟨e', h1, h2, _, _, h5⟩ := exec_keeps s ls e he
    exact ⟨e', h1, h2, h5 hc⟩
  · intro hrem hb hib
    have hf := findSess_mem hi he
    have hcd : closeDoneF s.closeFails e =
        some { e with removed := true, inMap := false, timer := .nil, closeErr := s.closeFails } := by
      simp [closeDoneF, hrem, hc, hb, hib]
    obtain ⟨t, ht⟩ := modify_enabled hf hcd
    have hst := stateful_of_mem hi he
    refine ⟨{ s with tbl := t }, by simp [step, hst, stepStateful, ht], ?_⟩
    obtain ⟨pre, e1, post, e1', _, p2, _, _, p5, p6⟩ := modify_some ht
    rw [hf] at p6; cases p6
    rw [hcd] at p5; cases p5
    exact ⟨{ e with removed := true, inMap := false, timer := .nil, closeErr := s.closeFails },
      by rw [p2]; simp, rfl, rfl, rfl, rfl, rfl⟩

/-- The environment's label changes nothing but the set of failing event-store methods. -/
theorem faults_only_change_environment (s : State) (f : Faults) :
    step s (.faults f) = some ({ s with faults := f }, .tau) := by
  unfold step
  split <;> simp [stepStateless, stepStateful]

/-- **Close completion is total in the collaborators' outcomes.**  Take any reachable state and any
session whose close has begun (by DELETE, idle timeout, server-side close or failed initialize:
`removal_causes_begin_close`) and that has no handler in flight.  Let the environment choose *any* set
`f` of failing event-store methods for the moment the connection is closed.  Then the close completes;
afterwards the entry is removed, it is neither a key of `h.sessions` nor listed by `Server.Sessions()`,
its timer is gone, and every POST, GET and DELETE with its id is answered 404 and changes nothing.  The
only trace of the collaborator's failure is the error that `Close()` reports
(`closeErr = eventStore ∧ f.closed`).  No outcome of the collaborator leaves the entry behind. -/
theorem close_total {cfg : Cfg} {s : State} (hr : Reach cfg s) (hfix : cfg.publishChecks = true)
    {e : Sess} (he : e ∈ s.tbl) (hc : e.closing = true) (hrem : e.removed = false)
    (hb : e.busy = 0) (hib : e.initBusy = 0) (f : Faults) :
    ∃ s₁ s₂, step s (.faults f) = some (s₁, .tau) ∧ step s₁ (.closeDone e.id) = some (s₂, .tau) ∧
      (∃ e' ∈ s₂.tbl, e'.id = e.id ∧ e'.owner = e.owner ∧ e'.removed = true ∧ e'.inMap = false ∧
          e'.timer = .nil ∧ e'.closeErr = (cfg.eventStore && f.closed)) ∧
      e.id ∉ liveIds s₂ ∧ e.id ∉ serverIds s₂ ∧
      (∀ u k, step s₂ (.postBegin (some e.id) u k) = some (s₂, .reject 404)) ∧
      (∀ u, step s₂ (.get (some e.id) u) = some (s₂, .reject 404)) ∧
      (∀ u, step s₂ (.delete (some e.id) u) = some (s₂, .reject 404)) := by
  have h1 := faults_only_change_environment s f
  have hr1 : Reach cfg { s with faults := f } := reach_step hr h1
  have he1 : e ∈ ({ s with faults := f } : State).tbl := he
  obtain ⟨s₂, h2, e', he', hid, hrm, him, htm, hce⟩ := (close_completes hr1 hfix he1 hc).2 hrem hb hib
  have hr2 : Reach cfg s₂ := reach_step hr1 h2
  have hd := dead_after_removal hr2 hfix he' hrm []
  simp only [exec] at hd
  obtain ⟨_, d2, d3, d4, d5, d6, _⟩ := hd
  have hi2 := reach_inv hr2 hfix
  have how : e'.owner = e.owner := by
    obtain ⟨x, hx, hxid, hxo, _⟩ := step_keeps h2 e he1
    have := entry_unique hi2 hx he' (hxid.trans hid.symm)
    rw [← this]; exact hxo
  have hcfg := reach_cfg hr
  refine ⟨_, s₂, h1, h2, ⟨e', he', hid, how, hrm, him, htm, ?_⟩, ?_, ?_, ?_, ?_, ?_⟩
  · rw [hce]; simp [State.closeFails, hcfg]
  · rw [← hid]; exact d2
  · rw [← hid]; exact d3
  · rw [← hid]; exact d4
  · rw [← hid]; exact d5
  · rw [← hid]; exact d6

/-- Until it is taken, the completion of a close stays enabled: once a close has begun and no handler
is in flight, then after **every** continuation — further requests, clock ticks, timer callbacks,
repeated closes, and every change of mind of the event store — the session is still closing, still has
no handler in flight (nothing is handed to a closing session), and either it has been removed or
`closeDone` is enabled.  So nothing the clients or the collaborators do can make a session that has
ended stay. -/
theorem close_stays_enabled {cfg : Cfg} {s : State} (hr : Reach cfg s) (hfix : cfg.publishChecks = true)
    {e : Sess} (he : e ∈ s.tbl) (hc : e.closing = true) (hb : e.busy = 0) (hib : e.initBusy = 0)
    (ls : List Label) :
    ∃ e' ∈ (exec s ls).tbl, e'.id = e.id ∧ e'.closing = true ∧ e'.busy = 0 ∧ e'.initBusy = 0 ∧
      (e'.removed = true ∨ ∃ s', step (exec s ls) (.closeDone e.id) = some (s', .tau)) := by
  obtain ⟨e', h1, h2, h3, h4, h5⟩ := exec_keeps_quiet s ls e he ⟨hc, hb, hib⟩
  refine ⟨e', h1, h2, h3, h4, h5, ?_⟩
  cases hrem : e'.removed with
  | true => exact Or.inl rfl
  | false =>
    obtain ⟨s', hs', _⟩ := (close_completes (reach_exec hr ls) hfix h1 h3).2 hrem h4 h5
    exact Or.inr ⟨s', by rw [← h2]; exact hs'⟩

/-- A close error is only ever reported for a session that is gone, and only with an event store: in
every reachable state an entry whose `Close()` reports an error is removed, out of the handler's table,
without timer or handlers. -/
theorem close_error_leaves_nothing_behind {cfg : Cfg} {s : State} (hr : Reach cfg s)
    (hfix : cfg.publishChecks = true) {e : Sess} (he : e ∈ s.tbl) (herr : e.closeErr = true) :
    cfg.eventStore = true ∧ e.removed = true ∧ e.inMap = false ∧ e.timer = .nil ∧ e.busy = 0 ∧
      e.initBusy = 0 ∧ e.id ∉ liveIds s ∧ e.id ∉ serverIds s := by
  have hi := reach_inv hr hfix
  have hg := hi.good e he
  have h1 := hg.closeErr herr
  have h2 := hg.removed h1.1
  have hd := dead_after_removal hr hfix he h1.1 []
  simp only [exec] at hd
  exact ⟨by rw [← reach_cfg hr]; exact h1.2, h1.1, h2.1, (hg.unpublished h2.1).1, h2.2.1, h2.2.2.1, hd.2.1, hd.2.2.1⟩

/-- Non-vacuity: the three ways a published session ends, each with `SessionClosed` failing at that
moment: the entry is removed, `Close()` reports the error. -/
example :
    ((exec (init ⟨false, 100, true, true⟩) [.postBegin none (some 1) .init, .publish 0, .handlerDone 0 true,
        .postEnd (some 0) true, .faults { closed := true }, .delete (some 0) (some 1), .closeDone 0]).tbl.map
      (fun e => (e.removed, e.inMap, e.closeErr))) = [(true, false, true)] := by decide

example :
    ((exec (init ⟨false, 100, true, true⟩) [.postBegin none (some 1) .init, .publish 0, .handlerDone 0 true,
        .postEnd (some 0) true, .faults { closed := true }, .tick 100, .timerFire 0, .closeDone 0]).tbl.map
      (fun e => (e.removed, e.inMap, e.closeErr))) = [(true, false, true)] := by decide

example :
    ((exec (init ⟨false, 100, true, true⟩) [.postBegin none (some 1) .init, .publish 0, .handlerDone 0 true,
        .postEnd (some 0) true, .faults { closed := true }, .serverClose 0, .closeDone 0]).tbl.map
      (fun e => (e.removed, e.inMap, e.closeErr))) = [(true, false, true)] := by decide

/-- … and the fourth: a creating POST whose stream the event store refuses to open is answered 500, did
not initialize, and its session is closed and forgotten (with the close error reported as well). -/
example :
    let s := exec (init ⟨false, 100, true, true⟩) [.faults { closed := true, reqOpen := true },
        .postBegin none (some 1) .init]
    (step s (.publish 0)).map (·.2) = some (.storeRefused 500) ∧
    ((exec s [.publish 0, .postEnd (some 0) true, .closeDone 0]).tbl.map
      (fun e => (e.removed, e.inMap, e.closeErr))) = [(true, false, true)] := by decide

/-- Without an event store nothing fails, whatever the environment says. -/
example :
    ((exec (init ⟨false, 100, true, false⟩) [.faults { closed := true, connOpen := true, reqOpen := true },
        .postBegin none (some 1) .init, .publish 0, .handlerDone 0 true, .postEnd (some 0) true,
        .serverClose 0, .closeDone 0]).tbl.map
      (fun e => (e.removed, e.inMap, e.closeErr))) = [(true, false, false)] := by decide

/-- The handler's map and the server's list agree except while a POST is creating the session: every
key of `h.sessions` is a live server session, and a live server session that is not (yet) a key is one
whose creating POST has not reached the publication. -/
theorem map_agrees_with_server {cfg : Cfg} {s : State} (hr : Reach cfg s) (hfix : cfg.publishChecks = true) :
    ∀ e ∈ s.tbl, (e.inMap = true → e.removed = false) ∧
      (e.removed = false → e.inMap = false → e.creating = true ∧ e.pending.isSome = true) := by
  intro e he
  have hg := (reach_inv hr hfix).good e he
  refine ⟨fun hm => (good_inMap hg hm).1, fun hrem hm => ?_⟩
  rcases (hg.unpublished hm).2 with h | h
  · rw [hrem] at h; cases h
  · exact ⟨(hg.pending h).1, h⟩

/-- Non-vacuity: a session is created, initialized, idles for exactly its timeout, the timer fires, the
close completes — and the entry is removed. -/
example :
    ((exec (init ⟨false, 100, true, false⟩) [.postBegin none (some 1) .init, .publish 0, .handlerDone 0 true,
        .postEnd (some 0) true, .tick 100, .timerFire 0, .closeDone 0]).tbl.map (·.removed)) = [true] := by decide

/-- … while one millisecond earlier the timer cannot fire and the session stays. -/
example :
    ((exec (init ⟨false, 100, true, false⟩) [.postBegin none (some 1) .init, .publish 0, .handlerDone 0 true,
        .postEnd (some 0) true, .tick 99, .timerFire 0, .closeDone 0]).tbl.map (·.removed)) = [false] := by decide

/-- F20, repaired: the server closes the session between `Connect` and the publication; the
publication then leaves nothing in the map. -/
example :
    ((exec (init ⟨false, 100, true, false⟩) [.postBegin none (some 1) .init, .serverClose 0, .closeDone 0, .publish 0,
        .postEnd (some 0) true]).tbl.map (fun e => (e.removed, e.inMap))) = [(true, false)] := by decide

/-- F20, the defect: with the unconditional publication of the original code, the same schedule leaves
a removed session in `h.sessions`; GET and DELETE with its id are then served instead of answered 404,
for ever (nothing can remove the entry: its timer never fires and `closeDone` is not enabled). -/
theorem zombie_without_publish_check :
    let s := exec (init ⟨false, 100, false, false⟩) [.postBegin none (some 1) .init, .serverClose 0, .closeDone 0,
        .publish 0, .postEnd (some 0) true, .tick 1000]
    Reach ⟨false, 100, false, false⟩ s ∧
    s.tbl.map (fun e => (e.removed, e.inMap)) = [(true, true)] ∧ liveIds s = [0] ∧ serverIds s = [] ∧
    step s (.get (some 0) (some 1)) = some (s, .stream) ∧
    step s (.delete (some 0) (some 1)) = some (s, .closeAccepted) ∧
    step s (.timerFire 0) = none ∧ step s (.closeDone 0) = none := by
  refine ⟨⟨_, rfl⟩, ?_⟩
  decide

/-! ## 4. owner binding -/

/-- A session in the map that was created by an authenticated user `o` answers every POST, GET and
DELETE that carries its id but comes from a different user, or from no user at all, with 403 — and the
state is **unchanged** (no ref taken, timer untouched, nothing delivered, no close). -/
theorem owner_binding {cfg : Cfg} {s : State} (hr : Reach cfg s) (hfix : cfg.publishChecks = true)
    {e : Sess} (he : e ∈ s.tbl) (hlive : e.inMap = true) {o : Nat} (ho : e.owner = some o)
    {u : User} (hu : u ≠ some o) :
    (∀ k, step s (.postBegin (some e.id) u k) = some (s, .reject 403)) ∧
    step s (.get (some e.id) u) = some (s, .reject 403) ∧
    step s (.delete (some e.id) u) = some (s, .reject 403) := by
  have hi := reach_inv hr hfix
  have hst := stateful_of_mem hi he
  have hl := lookup_foreign hi he hlive ho hu
  refine ⟨fun k => ?_, ?_, ?_⟩ <;> simp [step, hst, stepStateful, hl]

/-- The owner (and anybody, for a session created without a user id) is let through: the binding does
not lock the legitimate user out.  (With an event store whose replay fails the transport answers the
GET 400 after the session layer has let it through; the state is unchanged either way.) -/
theorem owner_admitted {cfg : Cfg} {s : State} (hr : Reach cfg s) (hfix : cfg.publishChecks = true)
    {e : Sess} (he : e ∈ s.tbl) (hlive : e.inMap = true) {u : User} (hu : e.owner = none ∨ e.owner = u) :
    lookup s.tbl e.id u = .ok e ∧
    step s (.get (some e.id) u) = some (s, if s.replayFails then .storeRefused 400 else .stream) := by
  have hi := reach_inv hr hfix
  have hst := stateful_of_mem hi he
  have hl : lookup s.tbl e.id u = .ok e := by
    unfold lookup
    rw [findSess_mem hi he]
    rcases hu with h | h
    · simp [hlive, h]
    · cases ho : e.owner with
      | none => simp [hlive, ho]
      | some o => simp [hlive, ho]; rw [← h, ho]
  refine ⟨hl, ?_⟩
  cases hrf : s.replayFails <;> simp [step, hst, stepStateful, hl, hrf, stReplayFailed, Generated.Sessions.replayFailed]

example : ∃ s, Reach ⟨false, 100, true, false⟩ s ∧ ∃ e ∈ s.tbl, e.inMap = true ∧ e.owner = some 1 :=
  ⟨_, ⟨[.postBegin none (some 1) .init, .publish 0], rfl⟩, _, List.mem_cons_self, by decide, by decide⟩

/-- A failing event store cannot end, open or hijack a session through a request.  When the transport
answers with an error status because the event store failed (`storeRefused`):
* a GET was answered 400 after it had passed `lookupSession` (entry in the map, entitled user), and the
  state is unchanged;
* a POST with a session id was answered 500 after it had passed `lookupSession`; it carries a call, and
  the only change is that the POST is counted (`startPOST`, to be undone by the `endPOST` that
  follows): nothing was handed to the server session, no close began, nothing was removed. -/
theorem store_refusal_is_harmless {cfg : Cfg} {s s' : State} {i : Nat} {u : User} (hr : Reach cfg s)
    (hfix : cfg.publishChecks = true) (hsf : cfg.stateless = false) :
    (∀ c, step s (.get (some i) u) = some (s', .storeRefused c) →
      c = 400 ∧ s' = s ∧ cfg.eventStore = true ∧ ∃ e, lookup s.tbl i u = .ok e) ∧
    (∀ k c, step s (.postBegin (some i) u k) = some (s', .storeRefused c) →
      c = 500 ∧ cfg.eventStore = true ∧ k.hasCall = true ∧
      ∃ e, lookup s.tbl i u = .ok e ∧ startTimer e ∈ s'.tbl ∧ s'.tbl.length = s.tbl.length ∧
        (startTimer e).busy = e.busy ∧ (startTimer e).initBusy = e.initBusy ∧
        (startTimer e).closing = e.closing ∧ (startTimer e).removed = false ∧ (startTimer e).inMap = true) := by
  have hi := reach_inv hr hfix
  have hcfg := reach_cfg hr
  have hst : s.cfg.stateless = false := by rw [hcfg]; exact hsf
  refine ⟨?_, ?_⟩
  · intro c h
    unfold step at h
    split at h
    · rename_i hx; rw [hst] at hx; cases hx
    simp only [stepStateful] at h
    split at h
    · cases h
    · rename_i e hl
      split at h
      · rename_i hrf
        cases h
        simp only [State.replayFails, Bool.and_eq_true] at hrf
        exact ⟨by decide, rfl, by rw [← hcfg]; exact hrf.1, e, hl⟩
      · cases h
  · intro k c h
    unfold step at h
    split at h
    · rename_i hx; rw [hst] at hx; cases hx
    simp only [stepStateful] at h
    split at h
    · cases h
    · rename_i e hl
      split at h
      · cases h
      · rename_i t hm
        simp only [postResp] at h
        split at h
        · cases h
        · rename_i hac
          cases h
          have hac : s.accepts k = false := by simpa using hac
          simp only [State.accepts, Bool.not_eq_false', Bool.and_eq_true, State.openFails] at hac
          have hlk := lookup_ok hl
          obtain ⟨pre, e1, post, e1', p1, p2, _, _, p5, p6⟩ := modify_some hm
          rw [hlk.1] at p6; cases p6
          have he' : e1' = startTimer e := by
            have : s.accepts k = false := by simp [State.accepts, State.openFails, hac]
            simp [startPost, deliver, this] at p5
            exact p5.symm
          have hs := startTimer_fields e
          have hmem := (findSess_some hlk.1).1
          have hrm := (good_inMap (hi.good e hmem) hlk.2.1).1
          refine ⟨by decide, by rw [← hcfg]; exact hac.2.1, hac.1, e, hl, ?_, by simp [p1, p2],
            hs.2.2.2.2.2.2.2.1, hs.2.2.2.2.2.2.2.2, hs.2.2.2.1, by rw [hs.1]; exact hrm, by rw [hs.2.2.2.2.2.1]; exact hlk.2.1⟩
          rw [p2, ← he']; simp

/-! ## 5. the idle timer never fires while a POST is in progress -/

/-- In every reachable state: a session with a POST in progress has no armed timer (so its callback
cannot be scheduled); the timer callback can only run for a live session with **no** POST in progress
whose deadline has passed, and that deadline is exactly one full `SessionTimeout` after the instant the
session last became idle.  (`posts` is the ghost count of POSTs between `startPOST` and `endPOST`; for
the creating POST it counts from `Connect`.) -/
theorem timer_never_fires_during_post {cfg : Cfg} {s : State} (hr : Reach cfg s)
    (hfix : cfg.publishChecks = true) :
    (∀ e ∈ s.tbl, 0 < e.posts → e.timer.isArmed = false) ∧
    (∀ i s' r, step s (.timerFire i) = some (s', r) →
      ∃ e ∈ s.tbl, e.id = i ∧ e.posts = 0 ∧ e.removed = false ∧
        ∃ d, e.timer = .armed d ∧ d ≤ s.now ∧ d = e.idleSince + cfg.timeout ∧ e.idleSince ≤ s.now) := by
  have hi := reach_inv hr hfix
  have hcfg := reach_cfg hr
  refine ⟨?_, ?_⟩
  · intro e he hp
    have hg := hi.good e he
    cases ht : e.timer with
    | nil => rfl
    | stopped => rfl
    | armed d =>
      have h1 := hg.refs_posts (by simp [ht])
      have h2 := (hg.armed d ht).1
      omega
  · intro i s' r h
    unfold step at h
    split at h
    · simp [stepStateless] at h
    · simp only [stepStateful] at h
      split at h
      · cases h
      · rename_i t hm
        obtain ⟨pre, e, post, e', p1, _, _, p4, p5, p6⟩ := modify_some hm
        have he : e ∈ s.tbl := (findSess_some p6).1
        have hg := hi.good e he
        unfold timerFireF at p5
        split at p5
        · cases p5
        · rename_i hrem
          split at p5
          · rename_i d ht
            split at p5
            · rename_i hd
              have h1 := hg.refs_posts (by simp [ht])
              have h2 := hg.armed d ht
              refine ⟨e, he, p4, by omega, by simpa using hrem, d, ht, hd, ?_, hg.idle⟩
              rw [← hcfg]; exact h2.2
            · cases p5
          · cases p5

/-- The Go `assert(i.refs >= 0, "negative ref count")` in `endPOST` can never fail: whenever a POST
ends on a session whose timer has not been stopped for good, `refs` is at least 1. -/
theorem refs_assert_never_fails {cfg : Cfg} {s s' : State} {r : Resp} {i : Nat} {c : Bool} {e : Sess}
    (hr : Reach cfg s) (hfix : cfg.publishChecks = true)
    (h : step s (.postEnd (some i) c) = some (s', r)) (hf : findSess i s.tbl = some e)
    (ht : e.timer ≠ .nil) : 0 < e.refs := by
  have hi := reach_inv hr hfix
  have hg := hi.good e (findSess_some hf).1
  unfold step at h
  split at h
  · simp [stepStateless] at h
  · simp only [stepStateful] at h
    split at h
    · cases h
    · rename_i t hm
      obtain ⟨_, e1, _, e1', _, _, _, _, p5, p6⟩ := modify_some hm
      rw [hf] at p6; cases p6
      have := (endPost_fields p5).2.2.2.2.2
      have := hg.refs_posts ht
      omega

/-- Non-vacuity: with a POST in progress across the whole timeout the timer label is not enabled … -/
example :
    step (exec (init ⟨false, 100, true, false⟩) [.postBegin none (some 1) .init, .publish 0, .handlerDone 0 true,
        .postEnd (some 0) true, .postBegin (some 0) (some 1) .call, .tick 500]) (.timerFire 0) = none := by decide

/-- … and it is as soon as the POST has ended and a full timeout has passed again. -/
example :
    (step (exec (init ⟨false, 100, true, false⟩) [.postBegin none (some 1) .init, .publish 0, .handlerDone 0 true,
        .postEnd (some 0) true, .postBegin (some 0) (some 1) .call, .tick 500, .handlerDone 0 false,
        .postEnd (some 0) false, .tick 100])
      (.timerFire 0)).isSome = true := by decide

/-! ## 6. stateless endpoints -/

/-- On a stateless endpoint, in every reachable state: no session is ever kept, no response ever
carries an `Mcp-Session-Id`, a POST is treated the same whatever session id and user it carries (it is
handed to a temporary session — or refused with 500 when the event store does not let the temporary
session connect), and GET, DELETE and any other method are answered 405 without any effect. -/
theorem stateless_no_ids_405 {cfg : Cfg} {s : State} (hr : Reach cfg s) (hfix : cfg.publishChecks = true)
    (hst : cfg.stateless = true) :
    s.tbl = [] ∧ liveIds s = [] ∧ serverIds s = [] ∧
    (∀ sid u k, step s (.postBegin sid u k) = step s (.postBegin none none k)) ∧
    (∀ sid u k, s.connectFails = false → s.accepts k = true →
      step s (.postBegin sid u k) = some ({ s with eph := s.eph + 1 }, .forward none true)) ∧
    (∀ sid u, step s (.get sid u) = some (s, .reject 405)) ∧
    (∀ sid u, step s (.delete sid u) = some (s, .reject 405)) ∧
    (∀ sid u, step s (.other sid u) = some (s, .reject 405)) ∧
    (∀ l s' i d, step s l ≠ some (s', .forward (some i) d)) := by
  have hi := reach_inv hr hfix
  have hs : s.cfg.stateless = true := by rw [reach_cfg hr]; exact hst
  have ht := hi.stateless hs
  refine ⟨ht, by simp [liveIds, ht], by simp [serverIds, ht], ?_, ?_, ?_, ?_, ?_, ?_⟩
  · intro sid u k; simp [step, hs, stepStateless]
  · intro sid u k hcf hac; simp [step, hs, stepStateless, hcf, postResp, hac]
  · intro sid u; simp [step, hs, stepStateless, status_codes.2.2.1]
  · intro sid u; simp [step, hs, stepStateless, status_codes.2.2.1]
  · intro sid u; simp [step, hs, stepStateless, status_codes.2.2.1]
  · intro l s' i d h
    have := (id_minted_only_on_creating_post hr hfix h).1
    rw [hs] at this; cases this

example : Reach ⟨true, 100, true, false⟩ (exec (init ⟨true, 100, true, false⟩) [.postBegin (some 7) none .init, .get (some 7) none]) :=
  ⟨_, rfl⟩


/-! ## 7. POSTs whose body arrives in pieces; what a closed session leaves behind (C05 ∩ C11) -/

/-- **A POST is in progress from the arrival of its request headers.**  When the headers of a POST with a
session id have passed `lookupSession` (label `postHead`, answered by the transport's `forward`: it now reads
the body), the session's count of POSTs in progress is positive and its idle timer is not armed — in that
state, and it cannot be armed again before an `endPOST`: by `timer_never_fires_during_post` no reachable
state has a POST in progress and an armed timer.  The body arrives in a later label (`postBody`). -/
theorem post_in_progress_from_headers {cfg : Cfg} {s s' : State} {i : Nat} {u : User} {d : Bool}
    (hr : Reach cfg s) (hfix : cfg.publishChecks = true)
    (h : step s (.postHead (some i) u) = some (s', .forward none d)) :
    ∃ e ∈ s.tbl, ∃ e' ∈ s'.tbl, lookup s.tbl i u = .ok e ∧ e'.id = i ∧ e'.posts = e.posts + 1 ∧ e'.upl = e.upl + 1 ∧
      e'.timer.isArmed = false ∧ e'.busy = e.busy ∧ e'.initBusy = e.initBusy ∧ d = !e.closing := by
  have hr' : Reach cfg s' := reach_step hr h
  have hi := reach_inv hr hfix
  unfold step at h
  split at h
  · simp [stepStateless] at h
  · simp only [stepStateful] at h
    split at h
    · cases h
    · rename_i e hl
      split at h
      · cases h
      · rename_i t hm
        simp only [Option.some.injEq, Prod.mk.injEq, Resp.forward.injEq, true_and] at h
        obtain ⟨hs', hd⟩ := h
        subst hs'
        obtain ⟨pre, e1, post, e1', p1, p2, _, p4, p5, p6⟩ := modify_some hm
        have hlk := lookup_ok hl
        rw [hlk.1] at p6; cases p6
        cases p5
        have hf := headF_fields e
        have hmem' : headF e ∈ ({ s with tbl := t } : State).tbl := by show headF e ∈ t; rw [p2]; simp
        refine ⟨e, (findSess_some hlk.1).1, headF e, hmem', hl, by rw [hf.2.1]; exact p4, hf.2.2.2.2.1, hf.2.2.2.2.2.2.2.2.2, ?_,
          hf.2.2.2.2.2.2.2.1, hf.2.2.2.2.2.2.2.2.1, hd.symm⟩
        exact (timer_never_fires_during_post hr' hfix).1 _ hmem' (by rw [hf.2.2.2.2.1]; omega)

/-- The arrival of the body hands the message over and changes nothing else: the POST stays in progress (it
ends with `postEnd`), the timer and `refs` are untouched; nothing is delivered to a session whose `Close`
has begun — in particular to one that is closed and gone. -/
theorem body_arrival_only_delivers {s s' : State} {i : Nat} {k : Kind} {r : Resp}
    (h : step s (.postBody i k) = some (s', r)) :
    ∃ e ∈ s.tbl, ∃ e' ∈ s'.tbl, e.id = i ∧ e'.id = i ∧ e'.posts = e.posts ∧ e'.timer = e.timer ∧ e'.refs = e.refs ∧
      e'.removed = e.removed ∧ e'.inMap = e.inMap ∧ e.upl ≠ 0 ∧
      (e.closing = true → e'.busy = e.busy ∧ e'.initBusy = e.initBusy) := by
  unfold step at h
  split at h
  · simp [stepStateless] at h
  · simp only [stepStateful] at h
    split at h
    · cases h
    split at h
    · cases h
    · split at h
      · cases h
      · rename_i t hm
        cases h
        obtain ⟨pre, e1, post, e1', p1, p2, _, p4, p5, p6⟩ := modify_some hm
        have hf := bodyF_fields p5
        exact ⟨e1, (findSess_some p6).1, e1', by show e1' ∈ t; rw [p2]; simp, p4, by rw [hf.2.1]; exact p4, hf.2.2.2.2.1,
          hf.2.2.2.2.2.2.1, hf.2.2.2.2.2.2.2.1, hf.1, hf.2.2.2.2.2.1, hf.2.2.2.2.2.2.2.2.1, hf.2.2.2.2.2.2.2.2.2⟩

/-- **closed_session_timer_never_rearmed** (C05 "shutdown leaves no timer behind", C11 "closed and forgotten").
Once a session has been closed (`removed`: the connection is closed, the session is disconnected from the server,
`onClose` has run — by DELETE, idle timeout, server-side close or failed initialize, with or without an error of
the event store), then after EVERY continuation — in particular the POSTs that were still in progress when it
was closed (their bodies arriving, `postBody`; their ending, `postEnd`), new requests with its id, clock ticks,
repeated closes, any fault script — the session is still closed, it is neither a key of `h.sessions` nor listed by
the server, its idle timer is `nil` (stopped for good, hence not armed), and the timer callback is not enabled. -/
theorem closed_session_timer_never_rearmed {cfg : Cfg} {s : State} (hr : Reach cfg s)
    (hfix : cfg.publishChecks = true) {e : Sess} (he : e ∈ s.tbl) (hrem : e.removed = true) (ls : List Label) :
    ∃ e' ∈ (exec s ls).tbl, e'.id = e.id ∧ e'.removed = true ∧ e'.inMap = false ∧ e'.timer = .nil ∧
      e'.timer.isArmed = false ∧ e.id ∉ liveIds (exec s ls) ∧ e.id ∉ serverIds (exec s ls) ∧
      step (exec s ls) (.timerFire e.id) = none := by
  obtain ⟨e', h1, h2, _, h4, _⟩ := exec_keeps s ls e he
  have hr' := reach_exec hr ls
  have hi := reach_inv hr' hfix
  have hg := hi.good e' h1
  have hrm := h4 hrem
  have hmap := (hg.removed hrm).1
  have htm := (hg.unpublished hmap).1
  have hd := dead_after_removal hr' hfix h1 hrm []
  simp only [exec] at hd
  refine ⟨e', h1, h2, hrm, hmap, htm, by rw [htm]; rfl, by rw [← h2]; exact hd.2.1, by rw [← h2]; exact hd.2.2.1, ?_⟩
  cases hst : step (exec s ls) (.timerFire e.id) with
  | none => rfl
  | some p =>
    exfalso
    obtain ⟨s', r⟩ := p
    obtain ⟨x, hx, hxid, _, hxr, _⟩ := (timer_never_fires_during_post hr' hfix).2 e.id s' r hst
    have := entry_unique hi hx h1 (hxid.trans h2.symm)
    rw [this, hrm] at hxr; cases hxr

/-- Non-vacuity, and the scenario of the seeded change C05-m11: a POST whose headers have arrived is in progress
while its session is deleted (no handler is running: the close completes at once); the body arrives and the POST
ends on the closed session — the timer stays `nil`, nothing is delivered, every label stays harmless. -/
example :
    let s := exec (init ⟨false, 100, true, false⟩) [.postBegin none (some 1) .init, .publish 0, .handlerDone 0 true,
        .postEnd (some 0) true, .postHead (some 0) (some 1), .delete (some 0) (some 1), .closeDone 0]
    (s.tbl.map fun e => (e.removed, e.timer, e.posts, e.upl, e.refs)) = [(true, Timer.nil, 1, 1, 1)] ∧
    ((exec s [.postBody 0 .call, .postEnd (some 0) false, .tick 1000]).tbl.map
      fun e => (e.removed, e.timer, e.posts, e.upl, e.busy)) = [(true, Timer.nil, 0, 0, 0)] ∧
    (step s (.postBody 0 .call)).map (·.2) = some (.forward none false) := by decide

/-- **The sentinel is needed** (what C05-m11 removes): `endPOST` *without* the "timer == nil: stopped for good"
test — `refs` is decremented and the timer re-armed whenever it reaches 0, as for a live session — arms the idle
timer of a closed session when a POST that outlived the close ends. -/
def endPostNoSentinel (now timeout : Nat) (e : Sess) : Sess :=
  if timeout = 0 then { e with posts := e.posts - 1 }
  else if e.refs - 1 = 0 then { e with posts := e.posts - 1, refs := e.refs - 1, timer := .armed (now + timeout), idleSince := now }
  else { e with posts := e.posts - 1, refs := e.refs - 1 }

theorem timer_rearmed_without_sentinel :
    ∃ s e, Reach ⟨false, 100, true, false⟩ s ∧ e ∈ s.tbl ∧ e.removed = true ∧ e.timer = .nil ∧
      (endPostNoSentinel s.now s.cfg.timeout e).timer.isArmed = true :=
  ⟨_, _, ⟨[.postBegin none (some 1) .init, .publish 0, .handlerDone 0 true, .postEnd (some 0) true,
      .postHead (some 0) (some 1), .delete (some 0) (some 1), .closeDone 0, .postBody 0 .call], rfl⟩,
    List.mem_singleton.mpr rfl, rfl, rfl, rfl⟩

/-- **Closing is total, whatever the store answers, also with POSTs in progress** (C05 "Close … returns and the
session is removed", the clause C05-m12 breaks).  A session whose close has begun and that has no handler in
flight — whatever its number of POSTs in progress (bodies still on their way) and whatever set `f` of event-store
methods fails at that moment, `SessionClosed` included — completes its close in one label: the connection is
done, the session is disconnected from the server and `onClose` has run (`removed`), it is out of `h.sessions`,
its timer is stopped for good; the store's error is only reported.  Until that label is taken it stays enabled
(`close_stays_enabled`), and afterwards nothing re-arms or re-lists the session (`closed_session_timer_never_rearmed`). -/
theorem close_total_with_posts_in_progress {cfg : Cfg} {s : State} (hr : Reach cfg s) (hfix : cfg.publishChecks = true)
    {e : Sess} (he : e ∈ s.tbl) (hc : e.closing = true) (hrem : e.removed = false)
    (hb : e.busy = 0) (hib : e.initBusy = 0) (f : Faults) (ls : List Label) :
    ∃ s₁ s₂, step s (.faults f) = some (s₁, .tau) ∧ step s₁ (.closeDone e.id) = some (s₂, .tau) ∧
      ∃ e' ∈ (exec s₂ ls).tbl, e'.id = e.id ∧ e'.removed = true ∧ e'.inMap = false ∧ e'.timer = .nil ∧
        e.id ∉ liveIds (exec s₂ ls) ∧ e.id ∉ serverIds (exec s₂ ls) := by
  obtain ⟨s₁, s₂, h1, h2, ⟨e2, he2, hid, _, hrm, _, _, _⟩, _⟩ := close_total hr hfix he hc hrem hb hib f
  have hr2 : Reach cfg s₂ := reach_step (reach_step hr h1) h2
  obtain ⟨e', h', a, b, c, d, _, g, k, _⟩ := closed_session_timer_never_rearmed hr2 hfix he2 hrm ls
  exact ⟨s₁, s₂, h1, h2, e', h', a.trans hid, b, c, d, by rw [← hid]; exact g, by rw [← hid]; exact k⟩

/-- **A close that bails out on the store's error never completes** (what C05-m12 does): if closing the connection
returned the error of `SessionClosed` *without* marking the connection done, the completion of the close would not
be enabled while the store fails — the session stays listed by the server and in the handler's table. -/
def closeDoneBailF (err : Bool) (e : Sess) : Option Sess := if err then none else closeDoneF false e

theorem close_that_bails_never_completes (e : Sess) : closeDoneBailF true e = none := rfl

example : ∀ e : Sess, e.closing = true → e.removed = false → e.busy = 0 → e.initBusy = 0 →
    (closeDoneF true e).isSome = true ∧ closeDoneBailF true e = none := by
  intro e h1 h2 h3 h4; simp [closeDoneF, closeDoneBailF, h1, h2, h3, h4]

end Sessions
