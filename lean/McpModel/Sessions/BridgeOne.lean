import McpModel.Sessions.BridgePend
import McpModel.Sessions.BridgeQuiet
/-!
Bridge (E7/C11): the general step for an operation that moves ONE entry of the model's table (a POST on
an existing session, release, abandon, DELETE, server-side close), including the completions it triggers.
-/
namespace Sessions

/-- the harness-side list of asynchronous requests, without the liveness of the sessions being closed -/
structure PendOkW (P : List Pend) (nslow nasync : Nat) (released : List Nat) (next : Nat) : Prop where
  tags : (P.map (·.tag)).Nodup
  slots : (P.filterMap slotOf).Nodup
  shape : ∀ p ∈ P,
    match p.kind with
    | .slow _ slot => p.tag = .p slot ∧ 1 ≤ slot ∧ slot ≤ nslow ∧ slot ∉ released
    | .run _ slot => p.tag = .r slot ∧ 1 ≤ slot ∧ slot ≤ nslow ∧ slot ∉ released
    | .del _ _ => ∃ n, p.tag = .d n ∧ n ≤ nasync
    | .cls _ => ∃ n, p.tag = .c n ∧ n ≤ nasync
    | .upl _ n _ => p.tag = .u n ∧ n ≤ nasync
  minted : ∀ p ∈ P, ∀ i, sidOf p = some i → i < next
  sids : ∀ p ∈ P, (sidOf p).isSome = true
  relLe : ∀ k ∈ released, k ≤ nslow

theorem PendOk.weak {d : RState} (h : PendOk d) : PendOkW d.pend d.nslow d.nasync d.released d.st.next := by
  refine ⟨h.tags, h.slots, ?_, h.minted, h.sids, h.relLe⟩
  intro p hp
  have := h.shape p hp
  cases hk : p.kind with
  | slow a b => rw [hk] at this; exact this
  | run a b => rw [hk] at this; exact this
  | upl a b c => rw [hk] at this; exact this
  | del i f => rw [hk] at this; exact this.1
  | cls i => rw [hk] at this; exact this.1

theorem keepOf_live {s : State} {p : Pend} (h : keepOf s p = true) :
    match p.kind with
    | .del i _ => isLive s i = true
    | .cls i => isLive s i = true
    | _ => True := by
  unfold keepOf at h
  cases hk : p.kind <;> simp_all

theorem filter_map_sublist {α β} (q : α → Bool) (f : α → β) (l : List α) : ((l.filter q).map f).Sublist (l.map f) :=
  List.Sublist.map f List.filter_sublist

theorem filter_filterMap_sublist {α β} (q : α → Bool) (f : α → Option β) (l : List α) :
    ((l.filter q).filterMap f).Sublist (l.filterMap f) :=
  List.Sublist.filterMap f List.filter_sublist

theorem PendOkW.strong {P : List Pend} {ns na : Nat} {rel : List Nat} {st : State} (h : PendOkW P ns na rel st.next) :
    PendOk { st := st, nslow := ns, nasync := na, released := rel, pend := P.filter (keepOf st) } := by
  refine ⟨List.Nodup.sublist (filter_map_sublist _ _ _) h.tags,
    List.Nodup.sublist (filter_filterMap_sublist _ _ _) h.slots, ?_, ?_, ?_, ?_⟩
  · intro p hp
    have hp' := List.mem_filter.mp hp
    have hsh := h.shape p hp'.1
    have hl := keepOf_live hp'.2
    cases hk : p.kind with
    | slow a b => rw [hk] at hsh; exact hsh
    | run a b => rw [hk] at hsh; exact hsh
    | upl a b c => rw [hk] at hsh; exact hsh
    | del i f => rw [hk] at hsh hl; exact ⟨hsh, hl⟩
    | cls i => rw [hk] at hsh hl; exact ⟨hsh, hl⟩
  · intro p hp; exact h.minted p (List.mem_filter.mp hp).1
  · intro p hp; exact h.sids p (List.mem_filter.mp hp).1
  · exact h.relLe

theorem isLive_eq {s : State} {i : Nat} {e : Sess} (h : findSess i s.tbl = some e) : isLive s i = !e.removed := by
  simp [isLive, h]

theorem bookDone_append (now : Nat) (tbl : List MSess) (pend : List (Tag × Name)) (d1 d2 : List (Tag × Nat)) :
    bookDone now tbl pend (d1 ++ d2) = bookDone now (bookDone now tbl pend d1).1 (bookDone now tbl pend d1).2 d2 := by
  unfold bookDone
  rw [List.foldl_append]

theorem pend_unique {P : List Pend} (hn : (P.map (·.tag)).Nodup) {p q : Pend} (hp : p ∈ P) (hq : q ∈ P)
    (ht : p.tag = q.tag) : p = q := by
  induction P with
  | nil => cases hp
  | cons x P ih =>
    simp only [List.map_cons, List.nodup_cons] at hn
    cases hp with
    | head =>
      cases hq with
      | head => rfl
      | tail _ hq' => exact absurd (List.mem_map.mpr ⟨q, hq', ht.symm⟩) hn.1
    | tail _ hp' =>
      cases hq with
      | head => exact absurd (List.mem_map.mpr ⟨p, hp', ht⟩) hn.1
      | tail _ hq' => exact ih hn.2 hp' hq'

theorem pendOf_sid {p : Pend} {x : Tag × Name} (h : pendOf p = some x) : ∃ i, sidOf p = some i ∧ x.2 = sname i := by
  unfold pendOf at h
  unfold sidOf
  cases hk : p.kind with
  | slow a b =>
    cases a with
    | none => simp [hk] at h
    | some v => simp [hk] at h; exact ⟨v, rfl, by rw [← h]⟩
  | run a b => simp [hk] at h
  | del i f =>
    cases f with
    | false => simp [hk] at h
    | true => simp [hk] at h; exact ⟨i, rfl, by rw [← h]⟩
  | cls i => simp [hk] at h; exact ⟨i, rfl, by rw [← h]⟩
  | upl i n usr => simp [hk] at h; exact ⟨i, rfl, by rw [← h]⟩

theorem isLive_lift_ne {s : State} {i j : Nat} {G : Sess → Sess} (hG : KeepsId G) (h : j ≠ i) (t : List Sess)
    (ht : t = s.tbl.map (lift i G)) (s2 : State) (h2 : s2.tbl = t) : isLive s2 j = isLive s j := by
  unfold isLive
  rw [h2, ht, findSess_map_lift hG, if_neg h]

/-- a related table stays related when the session, now removed, is booked dead -/
theorem relPreAt_dead {cfg : Cfg} {P : List Pend} {tbl : List MSess} {e : Sess} (h : RelPreAt cfg P tbl e)
    (hr : e.removed = true) : RelPreAt cfg P (monUpd tbl (sname e.id) mDead) e := by
  unfold RelPreAt at h ⊢
  rw [monFind_monUpd_self keepsName_mDead]
  cases hf : monFind tbl (sname e.id) with
  | none => rw [hf] at h; exact h
  | some a =>
    rw [hf] at h
    simp only [Option.map_some]
    apply rel_nonlive
    · exact h.owner
    · simp [mDead]
    · intro _; exact hr
    · left; exact hr

/-- **one entry moves** -/
theorem sim_one_op' {cfg : Cfg} {d d' : RState} {m : Mon} {o : Obs} (hs : Sim cfg d m) {op : Op}
    {i : Nat} {G : Sess → Sess} {st1 st2 : State} {P : List Pend} {status : St} {hdr : Option Name} {hang : Bool} {done0 : List (Tag × Nat)}
    {log : List LogEnt} {ns' na' : Nat} {rel' : List Nat} {tblX : List MSess}
    (hmo : modelOp d op = some { st := st1, status := status, hdr := hdr, hang := hang, done := done0, log := log, pend := P, nslow := ns', nasync := na', released := rel' })
    (hset : st1 = st2 ∨ settle st1 = st2)
    (htbl : st2.tbl = d.st.tbl.map (lift i G)) (hG : KeepsId G) (hcfg : st2.cfg = d.st.cfg) (hnext : st2.next = d.st.next)
    (hnow : st2.now = d.st.now) (hinv : Inv st2)
    (hpw : PendOkW P ns' na' rel' d.st.next)
    (hcntP : ∀ j, j ≠ i → nsOf P j = nsOf d.pend j ∧ nrOf P j = nrOf d.pend j)
    (hliveP : ∀ p ∈ P, ∀ j, sidOf p = some j → j ≠ i → keepOf d.st p = true)
    (hbook : bookDone m.now
      (bookSlots (bookAnswer cfg (effFaults cfg m) m.now (tagOf m op) m.tbl m.pend op status).1
        (bookAnswer cfg (effFaults cfg m) m.now (tagOf m op) m.tbl m.pend op status).2 m.run op status).1
      (bookAnswer cfg (effFaults cfg m) m.now (tagOf m op) m.tbl m.pend op status).2 done0 = (tblX, P.filterMap pendOf))
    (hrun : (bookSlots (bookAnswer cfg (effFaults cfg m) m.now (tagOf m op) m.tbl m.pend op status).1
        (bookAnswer cfg (effFaults cfg m) m.now (tagOf m op) m.tbl m.pend op status).2 m.run op status).2 = P.filterMap runOf)
    (hmonX : ∀ j, j ≠ i → monFind tblX (sname j) = monFind m.tbl (sname j))
    (hnodupX : (tblX.map (·.name)).Nodup) (hmintedX : ∀ a ∈ tblX, ∃ j, j < d.st.next ∧ a.name = sname j)
    (htarget : ∀ e ∈ d.st.tbl, e.id = i → EOk cfg d.st.now (nsOf P i) (nrOf P i) (G e) ∧ RelPreAt cfg P tblX (G e))
    (hans : chkAnswerO cfg (effFaults cfg m) m.tbl op.req status = none)
    (hlog : chkLogOp cfg m.pend op status log = none)
    (hnoid : chkNoId cfg op.req status hdr = false)
    (hmint : chkMint cfg m.tbl op.req status hdr = none)
    (hhdr : ∀ h, hdr = some h → h = sname i ∧ (monFind tblX (sname i)).isSome = true)
    (hnotick : nowAfter m op = m.now) (hfault : faultsAfter m op status = st2.faults)
    (hcnt : countersAfter m op status = (ns', na'))
    (hop : replayOp d op = some (d', o)) :
    (monStep cfg m op o).viol = none ∧ Sim cfg d' (monStep cfg m op o).mon := by
  have hst2 : st2.cfg.stateless = false := by rw [hcfg]; exact hs.stateful_st
  have hcfg' : st2.cfg = cfg := by rw [hcfg]; exact hs.cfg_eq
  -- the model side: everything is settled already
  have hP0 := tblpre_one hs (pend' := P) (tbl2 := tblX) htbl hG hcfg' hnext hnow hinv hcntP hmonX htarget hnodupX hmintedX
  have hsettle : settle st2 = st2 := by
    apply settle_settled hinv hst2
    intro e he
    exact settleE_of_eok _ (hP0.2 e he)
  have hs1 : settle st1 = st2 := by
    rcases hset with h | h
    · rw [h]; exact hsettle
    · exact h
  simp only [replayOp, hmo, hs1, completions_eq] at hop
  simp only [Option.some.injEq, Prod.mk.injEq] at hop
  obtain ⟨hd', ho⟩ := hop
  subst hd'; subst ho
  -- requests that complete now belong to session `i`, which is removed
  have hnk : ∀ p ∈ P, keepOf st2 p = false → sidOf p = some i ∧ ((∀ k, p.tag ≠ .p k) ∧ (∀ k, p.tag ≠ .u k)) ∧ isLive st2 i = false := by
    intro p hp hk
    have hsh := hpw.shape p hp
    have key : ∀ j, sidOf p = some j → isLive st2 j = false → keepOf d.st p = isLive d.st j →
        ((∀ k, p.tag ≠ .p k) ∧ (∀ k, p.tag ≠ .u k)) → sidOf p = some i ∧ ((∀ k, p.tag ≠ .p k) ∧ (∀ k, p.tag ≠ .u k)) ∧ isLive st2 i = false := by
      intro j hj hl hkd htag
      by_cases hji : j = i
      · subst hji; exact ⟨hj, htag, hl⟩
      · exfalso
        have h1 := hliveP p hp j hj hji
        rw [hkd, ← isLive_lift_ne hG hji _ rfl st2 htbl, hl] at h1
        cases h1
    unfold keepOf at hk
    cases hkind : p.kind with
    | slow a b => rw [hkind] at hk; cases hk
    | run a b => rw [hkind] at hk; cases hk
    | upl a b c => rw [hkind] at hk; cases hk
    | del j f =>
      rw [hkind] at hk hsh
      obtain ⟨n, hn, _⟩ := hsh
      exact key j (by simp [sidOf, hkind]) hk (by simp [keepOf, hkind])
        ⟨(by intro k hk'; rw [hn] at hk'; cases hk'), (by intro k hk'; rw [hn] at hk'; cases hk')⟩
    | cls j =>
      rw [hkind] at hk hsh
      obtain ⟨n, hn, _⟩ := hsh
      exact key j (by simp [sidOf, hkind]) hk (by simp [keepOf, hkind])
        ⟨(by intro k hk'; rw [hn] at hk'; cases hk'), (by intro k hk'; rw [hn] at hk'; cases hk')⟩
  -- the monitor's bookkeeping of the completions
  have hexp : m.tbl.map (expire cfg (nowAfter m op)) = m.tbl := by rw [hnotick]; exact hs.expire_id
  have hdead := bookDone_dead m.now (sname i) (P.filterMap (doneOf st2)) tblX (P.filterMap pendOf) (by
    intro c hc x hx hxc
    obtain ⟨q, hq, hqc⟩ := List.mem_filterMap.mp hc
    obtain ⟨q', hq', hqx⟩ := List.mem_filterMap.mp hx
    have hqt := doneOf_tag hqc
    have hq't := pendOf_tag hqx
    have : q' = q := pend_unique hpw.tags hq' hq (by rw [← hq't, hxc, hqt.1])
    subst this
    have hnkq := hnk q' hq' hqt.2
    obtain ⟨j, hj, hxn⟩ := pendOf_sid hqx
    rw [hnkq.1] at hj
    cases hj
    exact ⟨hxn, by rw [hqt.1]; exact hnkq.2.1.1, by rw [hqt.1]; exact hnkq.2.1.2⟩)
  have hpend2 := pend_after_completions (s := st2) hpw.tags m.now tblX
  -- the table after the bookkeeping: `tblX`, possibly with session `i` booked dead
  have htbl2 : ∃ tbl2, (bookDone m.now tblX (P.filterMap pendOf) (P.filterMap (doneOf st2))).1 = tbl2 ∧
      (∀ j, j ≠ i → monFind tbl2 (sname j) = monFind m.tbl (sname j)) ∧
      (tbl2.map (·.name)).Nodup ∧ (∀ a ∈ tbl2, ∃ j, j < d.st.next ∧ a.name = sname j) ∧
      (∀ e ∈ d.st.tbl, e.id = i → RelPreAt cfg P tbl2 (G e)) ∧
      ((monFind tblX (sname i)).isSome = true → (monFind tbl2 (sname i)).isSome = true) := by
    rcases hdead with h | ⟨h, c, hc, x, hx, hxc⟩
    · exact ⟨tblX, h, hmonX, hnodupX, hmintedX, fun e he hid => (htarget e he hid).2, id⟩
    · refine ⟨monUpd tblX (sname i) mDead, h, ?_, ?_, ?_, ?_, ?_⟩
      · intro j hj; rw [monFind_monUpd_ne keepsName_mDead _ (sname_ne hj)]; exact hmonX j hj
      · rw [monUpd_names keepsName_mDead]; exact hnodupX
      · intro a ha
        obtain ⟨b, hb, hab⟩ := monUpd_mem keepsName_mDead ha
        obtain ⟨j, hj, hn⟩ := hmintedX b hb
        exact ⟨j, hj, by rw [hab]; exact hn⟩
      · intro e he hid
        obtain ⟨q, hq, hqc⟩ := List.mem_filterMap.mp hc
        have hl := (hnk q hq (doneOf_tag hqc).2).2.2
        have hfe : findSess i st2.tbl = some (G e) := by
          rw [htbl, findSess_map_lift hG, if_pos rfl, ← hid, findSess_mem hs.inv he]; rfl
        rw [isLive_eq hfe] at hl
        have hr : (G e).removed = true := by simpa using hl
        have := relPreAt_dead (htarget e he hid).2 hr
        rw [hG e, hid] at this
        exact this
      · intro hsome
        rw [monFind_monUpd_self keepsName_mDead]
        cases hf : monFind tblX (sname i) with
        | none => rw [hf] at hsome; cases hsome
        | some x => rfl
  obtain ⟨tbl2, htbl2eq, hmon2, hnodup2, hminted2, htarget2, hsome2⟩ := htbl2
  -- the relation for the new state
  have hcntP' : ∀ j, j ≠ i → nsOf (P.filter (keepOf st2)) j = nsOf d.pend j ∧ nrOf (P.filter (keepOf st2)) j = nrOf d.pend j := by
    intro j hj; rw [nsOf_filter_keep, nrOf_filter_keep]; exact hcntP j hj
  have hrelP' : ∀ e ∈ d.st.tbl, e.id = i →
      EOk cfg d.st.now (nsOf (P.filter (keepOf st2)) i) (nrOf (P.filter (keepOf st2)) i) (G e) ∧
      RelPreAt cfg (P.filter (keepOf st2)) tbl2 (G e) := by
    intro e he hid
    rw [nsOf_filter_keep, nrOf_filter_keep]
    refine ⟨(htarget e he hid).1, ?_⟩
    have := htarget2 e he hid
    unfold RelPreAt at this ⊢
    rw [nsOf_filter_keep, nrOf_filter_keep]
    exact this
  have hP1 := tblpre_one hs (pend' := P.filter (keepOf st2)) (tbl2 := tbl2) htbl hG hcfg' hnext hnow hinv hcntP' hmon2 hrelP' hnodup2 hminted2
  have htc := table_checks hP1.1 hs.stateful (nowAfter m op) op.req status hdr
  have hnf : ∀ (ow : Owner), noteFailedInit (nowAfter m op) ow hdr (reapDying ((showMap st2).map (·.name)) tbl2) =
      reapDying ((showMap st2).map (·.name)) tbl2 := by
    intro ow
    unfold noteFailedInit
    cases hh : hdr with
    | none => rfl
    | some h =>
      obtain ⟨hn, hsome⟩ := hhdr h hh
      have : (monFind (reapDying ((showMap st2).map (·.name)) tbl2) h).isSome = true := by
        rw [hn, reapDying_eq, monFind_map (keepsName_reap1 _)]
        have := hsome2 hsome
        cases hf : monFind tbl2 (sname i) with
        | none => rw [hf] at this; cases this
        | some x => rfl
      cases hf : monFind (reapDying ((showMap st2).map (·.name)) tbl2) h with
      | none => rw [hf] at this; cases this
      | some x => simp [hf]
  -- the bookkeeping, as `monStep` computes it
  have hbd : bookDone (nowAfter m op)
      (bookSlots (bookAnswer cfg (effFaults cfg m) (nowAfter m op) (tagOf m op) (m.tbl.map (expire cfg (nowAfter m op))) m.pend op status).1
        (bookAnswer cfg (effFaults cfg m) (nowAfter m op) (tagOf m op) (m.tbl.map (expire cfg (nowAfter m op))) m.pend op status).2 m.run op status).1
      (bookAnswer cfg (effFaults cfg m) (nowAfter m op) (tagOf m op) (m.tbl.map (expire cfg (nowAfter m op))) m.pend op status).2
      (done0 ++ P.filterMap (doneOf st2)) = (tbl2, (P.filter (keepOf st2)).filterMap pendOf) := by
    rw [hexp, hnotick, bookDone_append, hbook]
    exact Prod.ext htbl2eq hpend2
  constructor
  · apply monStep_viol_none
    · rw [hexp]; exact hans
    · exact hlog
    · rw [hexp]; exact hmint
    · show (scanMap cfg (nowAfter m op) op.req status hdr _ (showMap st2)).2 = none
      rw [hbd, htc.1]
    · exact htc.2.1
    · show chkGone _ (scanMap cfg (nowAfter m op) op.req status hdr _ (showMap st2)).1 = none
      rw [hbd, htc.1]; exact htc.2.2.1
    · exact htc.2.2.2.1
    · exact hnoid
    · exact chkClose_model hinv (fun e he => ⟨_, _, hP1.2 e he⟩)
  · obtain ⟨e1, e2, e3, e4, e5, e6, e7⟩ := monStep_mon cfg m op
      { status := status, hdr := hdr, hang := hang, done := done0 ++ P.filterMap (doneOf st2), map := showMap st2, srv := showSrv st2, log := log, stale := showStale st2 }
    apply sim_finish (tbl2 := tbl2) (d' := { st := st2, nslow := ns', nasync := na', released := rel', pend := P.filter (keepOf st2) })
      hP1.1 hP1.2 hcfg' hs.stateful
    · rw [e1]
      show noteFailedInit _ _ hdr (reapDying _ (scanMap cfg (nowAfter m op) op.req status hdr _ (showMap st2)).1) = _
      rw [hbd, htc.1]; exact hnf _
    · rw [e2, hnotick, hnow]; exact hs.now
    · rw [e5]; show faultsAfter m op status = _
      exact hfault
    · rw [e6]; show (countersAfter m op status).1 = _; rw [hcnt]
    · rw [e7]; show (countersAfter m op status).2 = _; rw [hcnt]
    · rw [e3]
      show (bookDone _ _ _ (done0 ++ P.filterMap (doneOf st2))).2 = _
      rw [hbd]
    · rw [e4]
      show (bookSlots _ _ m.run op status).2 = _
      rw [hexp, hnotick, hrun, runOf_filter_keep]
    · have hpw' : PendOkW P ns' na' rel' st2.next := by rw [hnext]; exact hpw
      exact hpw'.strong

/-- … with the event store's script unchanged -/
theorem sim_one_op {cfg : Cfg} {d d' : RState} {m : Mon} {o : Obs} (hs : Sim cfg d m) {op : Op}
    {i : Nat} {G : Sess → Sess} {st1 st2 : State} {P : List Pend} {status : St} {hdr : Option Name} {hang : Bool} {done0 : List (Tag × Nat)}
    {log : List LogEnt} {ns' na' : Nat} {rel' : List Nat} {tblX : List MSess}
    (hmo : modelOp d op = some { st := st1, status := status, hdr := hdr, hang := hang, done := done0, log := log, pend := P, nslow := ns', nasync := na', released := rel' })
    (hset : st1 = st2 ∨ settle st1 = st2)
    (htbl : st2.tbl = d.st.tbl.map (lift i G)) (hG : KeepsId G) (hcfg : st2.cfg = d.st.cfg) (hnext : st2.next = d.st.next)
    (hnow : st2.now = d.st.now) (hfl : st2.faults = d.st.faults) (hinv : Inv st2)
    (hpw : PendOkW P ns' na' rel' d.st.next)
    (hcntP : ∀ j, j ≠ i → nsOf P j = nsOf d.pend j ∧ nrOf P j = nrOf d.pend j)
    (hliveP : ∀ p ∈ P, ∀ j, sidOf p = some j → j ≠ i → keepOf d.st p = true)
    (hbook : bookDone m.now
      (bookSlots (bookAnswer cfg (effFaults cfg m) m.now (tagOf m op) m.tbl m.pend op status).1
        (bookAnswer cfg (effFaults cfg m) m.now (tagOf m op) m.tbl m.pend op status).2 m.run op status).1
      (bookAnswer cfg (effFaults cfg m) m.now (tagOf m op) m.tbl m.pend op status).2 done0 = (tblX, P.filterMap pendOf))
    (hrun : (bookSlots (bookAnswer cfg (effFaults cfg m) m.now (tagOf m op) m.tbl m.pend op status).1
        (bookAnswer cfg (effFaults cfg m) m.now (tagOf m op) m.tbl m.pend op status).2 m.run op status).2 = P.filterMap runOf)
    (hmonX : ∀ j, j ≠ i → monFind tblX (sname j) = monFind m.tbl (sname j))
    (hnodupX : (tblX.map (·.name)).Nodup) (hmintedX : ∀ a ∈ tblX, ∃ j, j < d.st.next ∧ a.name = sname j)
    (htarget : ∀ e ∈ d.st.tbl, e.id = i → EOk cfg d.st.now (nsOf P i) (nrOf P i) (G e) ∧ RelPreAt cfg P tblX (G e))
    (hans : chkAnswerO cfg (effFaults cfg m) m.tbl op.req status = none)
    (hlog : chkLogOp cfg m.pend op status log = none)
    (hnoid : chkNoId cfg op.req status hdr = false)
    (hmint : chkMint cfg m.tbl op.req status hdr = none)
    (hhdr : ∀ h, hdr = some h → h = sname i ∧ (monFind tblX (sname i)).isSome = true)
    (hnotick : nowAfter m op = m.now) (hfault : faultsAfter m op status = m.faults)
    (hcnt : countersAfter m op status = (ns', na'))
    (hop : replayOp d op = some (d', o)) :
    (monStep cfg m op o).viol = none ∧ Sim cfg d' (monStep cfg m op o).mon :=
  sim_one_op' hs hmo hset htbl hG hcfg hnext hnow hinv hpw hcntP hliveP hbook hrun hmonX hnodupX hmintedX htarget hans hlog hnoid hmint hhdr hnotick
    (hfault.trans (hs.faults.trans hfl.symm)) hcnt hop

end Sessions
