import McpModel.Sessions.Props
import McpModel.Sessions.Replay
import McpModel.Sessions.Monitor
/-!
Bridge (E7/C11), layer A+B: list-level normal forms.

* Model side: with pairwise distinct ids (`NodupIds`, a consequence of `Inv`) every label that moves one
  entry acts on the table as `List.map (lift i g)`; the settling at quiescence is `List.map settleE`; the
  completions are a `filterMap`/`filter`.
* Monitor side: `monFind` through `map`, `monUpd`, `++`.
-/
namespace Sessions

/-! ### model side -/

def lift (i : Nat) (g : Sess → Sess) (e : Sess) : Sess := if e.id = i then g e else e

def tryF (f : Sess → Option Sess) (e : Sess) : Sess := (f e).getD e

abbrev NodupIds (t : List Sess) : Prop := (t.map (·.id)).Nodup

/-- entry functions that keep the id -/
def KeepsId (g : Sess → Sess) : Prop := ∀ e, (g e).id = e.id

theorem keepsId_lift {i : Nat} {g : Sess → Sess} (h : KeepsId g) : KeepsId (lift i g) := by
  intro e; unfold lift; split
  · exact h e
  · rfl

theorem keepsId_comp {g₁ g₂ : Sess → Sess} (h₁ : KeepsId g₁) (h₂ : KeepsId g₂) : KeepsId (g₂ ∘ g₁) := by
  intro e; simp [Function.comp, h₂ (g₁ e), h₁ e]

theorem map_ids {g : Sess → Sess} (h : KeepsId g) (t : List Sess) : (t.map g).map (·.id) = t.map (·.id) := by
  induction t with
  | nil => rfl
  | cons x t ih => simp [h x, ih]

theorem nodupIds_map {g : Sess → Sess} (h : KeepsId g) {t : List Sess} (hn : NodupIds t) : NodupIds (t.map g) := by
  unfold NodupIds; rw [map_ids h]; exact hn

theorem map_lift_of_not_mem {i : Nat} {g : Sess → Sess} {t : List Sess} (h : ∀ x ∈ t, x.id ≠ i) :
    t.map (lift i g) = t := by
  induction t with
  | nil => rfl
  | cons x t ih =>
    have hx : x.id ≠ i := h x List.mem_cons_self
    simp [lift, hx, ih (fun y hy => h y (List.mem_cons_of_mem _ hy))]

theorem findSess_map {g : Sess → Sess} (h : KeepsId g) (j : Nat) (t : List Sess) :
    findSess j (t.map g) = (findSess j t).map g := by
  induction t with
  | nil => rfl
  | cons x t ih =>
    simp only [List.map_cons, findSess, h x]
    split
    · rfl
    · exact ih

theorem findSess_append (j : Nat) (t u : List Sess) :
    findSess j (t ++ u) = match findSess j t with | some e => some e | none => findSess j u := by
  induction t with
  | nil => simp [findSess]
  | cons x t ih =>
    simp only [List.cons_append, findSess]
    split
    · rfl
    · exact ih

theorem findSess_map_lift {i : Nat} {g : Sess → Sess} (h : KeepsId g) (j : Nat) (t : List Sess) :
    findSess j (t.map (lift i g)) = if j = i then (findSess j t).map g else findSess j t := by
  rw [findSess_map (keepsId_lift h)]
  cases hf : findSess j t with
  | none => simp
  | some e =>
    have hid := (findSess_some hf).2
    simp only [Option.map_some, lift, hid]
    split <;> rfl

/-- `modify` = map, whether or not the entry function is enabled. -/
theorem modify_getD {i : Nat} {f : Sess → Option Sess} {t : List Sess} (hn : NodupIds t) :
    (modify i f t).getD t = t.map (lift i (tryF f)) := by
  induction t with
  | nil => rfl
  | cons x t ih =>
    have hn' : NodupIds t := (List.nodup_cons.mp hn).2
    simp only [modify]
    split
    · rename_i hx
      have hnot : ∀ y ∈ t, y.id ≠ i := by
        intro y hy hyi
        have := (List.nodup_cons.mp hn).1
        exact this (List.mem_map.mpr ⟨y, hy, by simp [hyi, hx]⟩)
      rw [List.map_cons, map_lift_of_not_mem hnot]
      cases hf : f x <;> simp [lift, hx, tryF, hf]
    · rename_i hx
      rw [List.map_cons]
      have ih' := ih hn'
      cases hm : modify i f t with
      | none => rw [hm] at ih'; simp only [Option.getD_none] at ih'; simp [lift, hx, ← ih']
      | some t' => rw [hm] at ih'; simp only [Option.getD_some] at ih'; simp [lift, hx, ← ih']

theorem modify_isSome {i : Nat} {f : Sess → Option Sess} {t : List Sess} {e e' : Sess}
    (hf : findSess i t = some e) (he : f e = some e') : ∃ t', modify i f t = some t' :=
  modify_enabled hf he

theorem modify_eq_map {i : Nat} {f : Sess → Option Sess} {t : List Sess} {e e' : Sess} (hn : NodupIds t)
    (hf : findSess i t = some e) (he : f e = some e') : modify i f t = some (t.map (lift i (tryF f))) := by
  obtain ⟨t', ht'⟩ := modify_enabled hf he
  have := modify_getD (i := i) (f := f) hn
  rw [ht'] at this
  simp at this
  rw [ht', this]

/-- The tables of two states agree up to the other fields. -/
theorem State.ext' {s : State} {t : List Sess} (h : t = s.tbl) : { s with tbl := t } = s := by
  subst h; rfl

theorem doL_handlerDone {s : State} (hst : s.cfg.stateless = false) (hn : NodupIds s.tbl) (i : Nat) (b : Bool) :
    doL s (.handlerDone i b) = { s with tbl := s.tbl.map (lift i (tryF (handlerDoneF b))) } := by
  have h := modify_getD (i := i) (f := handlerDoneF b) hn
  simp only [doL, step, hst, stepStateful]
  cases hm : modify i (handlerDoneF b) s.tbl with
  | none => rw [hm] at h; simp at h; simp [← h]
  | some t => rw [hm] at h; simp at h; simp [h]

theorem doL_postEnd {s : State} (hst : s.cfg.stateless = false) (hn : NodupIds s.tbl) (i : Nat) (c : Bool) :
    doL s (.postEnd (some i) c) = { s with tbl := s.tbl.map (lift i (tryF (endPost s.now s.cfg.timeout c))) } := by
  have h := modify_getD (i := i) (f := endPost s.now s.cfg.timeout c) hn
  simp only [doL, step, hst, stepStateful]
  cases hm : modify i (endPost s.now s.cfg.timeout c) s.tbl with
  | none => rw [hm] at h; simp at h; simp [← h]
  | some t => rw [hm] at h; simp at h; simp [h]

theorem doL_timerFire {s : State} (hst : s.cfg.stateless = false) (hn : NodupIds s.tbl) (i : Nat) :
    doL s (.timerFire i) = { s with tbl := s.tbl.map (lift i (tryF (timerFireF s.now))) } := by
  have h := modify_getD (i := i) (f := timerFireF s.now) hn
  simp only [doL, step, hst, stepStateful]
  cases hm : modify i (timerFireF s.now) s.tbl with
  | none => rw [hm] at h; simp at h; simp [← h]
  | some t => rw [hm] at h; simp at h; simp [h]

theorem doL_serverClose {s : State} (hst : s.cfg.stateless = false) (hn : NodupIds s.tbl) (i : Nat) :
    doL s (.serverClose i) = { s with tbl := s.tbl.map (lift i (tryF closeF)) } := by
  have h := modify_getD (i := i) (f := closeF) hn
  simp only [doL, step, hst, stepStateful]
  cases hm : modify i closeF s.tbl with
  | none => rw [hm] at h; simp at h; simp [← h]
  | some t => rw [hm] at h; simp at h; simp [h]

theorem doL_closeDone {s : State} (hst : s.cfg.stateless = false) (hn : NodupIds s.tbl) (i : Nat) :
    doL s (.closeDone i) = { s with tbl := s.tbl.map (lift i (tryF (closeDoneF s.closeFails))) } := by
  have h := modify_getD (i := i) (f := closeDoneF s.closeFails) hn
  simp only [doL, step, hst, stepStateful]
  cases hm : modify i (closeDoneF s.closeFails) s.tbl with
  | none => rw [hm] at h; simp at h; simp [← h]
  | some t => rw [hm] at h; simp at h; simp [h]

theorem doL_tick (s : State) (n : Nat) : doL s (.tick n) = { s with now := s.now + n } := by
  by_cases h : s.cfg.stateless = true <;> simp [doL, step, h, stepStateless, stepStateful]

theorem doL_faults (s : State) (f : Faults) : doL s (.faults f) = { s with faults := f } := by
  by_cases h : s.cfg.stateless = true <;> simp [doL, step, h, stepStateless, stepStateful]

/-! entry functions keep the id -/

theorem keepsId_tryF {f : Sess → Option Sess} (h : ∀ e e', f e = some e' → e'.id = e.id) : KeepsId (tryF f) := by
  intro e; unfold tryF
  cases hf : f e with
  | none => rfl
  | some e' => exact h e e' hf

theorem handlerDoneF_id {b : Bool} {e e' : Sess} (h : handlerDoneF b e = some e') : e'.id = e.id := by
  unfold handlerDoneF at h
  split at h
  · cases h
  · split at h <;> split at h <;> cases h <;> rfl

theorem timerFireF_id {now : Nat} {e e' : Sess} (h : timerFireF now e = some e') : e'.id = e.id := by
  unfold timerFireF at h
  split at h
  · cases h
  · split at h
    · split at h <;> cases h; rfl
    · cases h

theorem closeF_id {e e' : Sess} (h : closeF e = some e') : e'.id = e.id := by
  unfold closeF at h; split at h <;> cases h; rfl

theorem closeDoneF_id {c : Bool} {e e' : Sess} (h : closeDoneF c e = some e') : e'.id = e.id := by
  unfold closeDoneF at h; split at h <;> cases h; rfl

theorem endPost_id {now t : Nat} {c : Bool} {e e' : Sess} (h : endPost now t c e = some e') : e'.id = e.id :=
  (endPost_fields h).1

theorem startPost_id (ok : Bool) (k : Kind) (e : Sess) : (startPost ok k e).id = e.id := by
  unfold startPost
  rw [(deliver_fields ok k (startTimer e)).2.2.2.2.2.2.1, (startTimer_fields e).2.1]

theorem keepsId_handlerDone (b : Bool) : KeepsId (tryF (handlerDoneF b)) := keepsId_tryF fun _ _ h => handlerDoneF_id h
theorem keepsId_timerFire (n : Nat) : KeepsId (tryF (timerFireF n)) := keepsId_tryF fun _ _ h => timerFireF_id h
theorem keepsId_close : KeepsId (tryF closeF) := keepsId_tryF fun _ _ h => closeF_id h
theorem keepsId_closeDone (c : Bool) : KeepsId (tryF (closeDoneF c)) := keepsId_tryF fun _ _ h => closeDoneF_id h
theorem keepsId_endPost (n t : Nat) (c : Bool) : KeepsId (tryF (endPost n t c)) := keepsId_tryF fun _ _ h => endPost_id h
theorem keepsId_startPost (ok : Bool) (k : Kind) : KeepsId (startPost ok k) := startPost_id ok k

/-! ### settling -/

/-- What quiescence does to one entry: an expired timer fires, a close without handlers completes. -/
def settleE (now : Nat) (closeFails : Bool) (e : Sess) : Sess :=
  tryF (closeDoneF closeFails) (tryF (timerFireF now) e)

theorem keepsId_settleE (now : Nat) (cf : Bool) : KeepsId (settleE now cf) := by
  intro e; unfold settleE
  rw [keepsId_closeDone cf, keepsId_timerFire now]

theorem lift_lift {i : Nat} {g₁ g₂ : Sess → Sess} (h₁ : KeepsId g₁) (e : Sess) :
    lift i g₂ (lift i g₁ e) = lift i (g₂ ∘ g₁) e := by
  unfold lift
  by_cases h : e.id = i
  · simp [h, h₁ e]
  · simp [h]

/-- one round of the settling loop -/
def settle1 (s : State) (i : Nat) : State := doL (doL s (.timerFire i)) (.closeDone i)

theorem settle1_eq {s : State} (hst : s.cfg.stateless = false) (hn : NodupIds s.tbl) (i : Nat) :
    settle1 s i = { s with tbl := s.tbl.map (lift i (settleE s.now s.closeFails)) } := by
  unfold settle1
  rw [doL_timerFire hst hn]
  rw [doL_closeDone (by exact hst) (nodupIds_map (keepsId_lift (keepsId_timerFire _)) hn)]
  simp only [List.map_map]
  congr 1
  apply List.map_congr_left
  intro e _
  simp only [Function.comp]
  rw [lift_lift (keepsId_timerFire _)]
  rfl

theorem settle_fold_eq (s : State) (l : List Sess) :
    l.foldl (fun s e => doL (doL s (.timerFire e.id)) (.closeDone e.id)) s = (l.map (·.id)).foldl settle1 s := by
  induction l generalizing s with
  | nil => rfl
  | cons x l ih => simp only [List.foldl_cons, List.map_cons]; rw [ih]; rfl

theorem settle_ids_eq :
    ∀ (ids : List Nat) (s : State), s.cfg.stateless = false → NodupIds s.tbl → ids.Nodup →
      ids.foldl settle1 s =
        { s with tbl := s.tbl.map (fun x => if x.id ∈ ids then settleE s.now s.closeFails x else x) } := by
  intro ids
  induction ids with
  | nil => intro s _ _ _; simp
  | cons i ids ih =>
    intro s hst hn hids
    rw [List.foldl_cons, settle1_eq hst hn i]
    have hn' : NodupIds (s.tbl.map (lift i (settleE s.now s.closeFails))) :=
      nodupIds_map (keepsId_lift (keepsId_settleE _ _)) hn
    rw [ih { s with tbl := s.tbl.map (lift i (settleE s.now s.closeFails)) } hst hn' (List.nodup_cons.mp hids).2]
    show ({ s with tbl := (s.tbl.map (lift i (settleE s.now s.closeFails))).map _ } : State) = _
    congr 1
    rw [List.map_map]
    apply List.map_congr_left
    intro e _
    show (if (lift i (settleE s.now s.closeFails) e).id ∈ ids then settleE s.now s.closeFails (lift i (settleE s.now s.closeFails) e)
          else lift i (settleE s.now s.closeFails) e) = _
    simp only [lift]
    by_cases he : e.id = i
    · have hni : i ∉ ids := (List.nodup_cons.mp hids).1
      simp [he, keepsId_settleE s.now s.closeFails e, hni]
    · simp [he]

/-- **settling is entrywise** -/
theorem settle_eq {s : State} (hst : s.cfg.stateless = false) (hn : NodupIds s.tbl) :
    settle s = { s with tbl := s.tbl.map (settleE s.now s.closeFails) } := by
  unfold settle
  rw [settle_fold_eq]
  rw [settle_ids_eq (s.tbl.map (·.id)) s hst hn hn]
  congr 1
  apply List.map_congr_left
  intro e he
  have : e.id ∈ s.tbl.map (·.id) := List.mem_map.mpr ⟨e, he, rfl⟩
  simp [this]

theorem settle_stateless {s : State} (ht : s.tbl = []) : settle s = s := by
  unfold settle; rw [ht]; rfl

/-! ### completions -/

def doneOf (s : State) (p : Pend) : Option (Tag × Nat) :=
  match p.kind with
  | .del i _ => if isLive s i then none else some (p.tag, stDeleted)
  | .cls i => if isLive s i then none else some (p.tag, if closeErrOf s i then 2 else 1)
  | _ => none

def keepOf (s : State) (p : Pend) : Bool :=
  match p.kind with
  | .del i _ => isLive s i
  | .cls i => isLive s i
  | _ => true

theorem completions_eq (s : State) (pend : List Pend) :
    completions s pend = (pend.filterMap (doneOf s), pend.filter (keepOf s)) := by
  unfold completions
  have : ∀ (l : List Pend) (d0 : List (Tag × Nat)) (k0 : List Pend),
      l.foldl (fun (acc : List (Tag × Nat) × List Pend) p =>
        let (done, keep) := acc
        match p.kind with
        | .del i _ => if isLive s i then (done, keep ++ [p]) else (done ++ [(p.tag, stDeleted)], keep)
        | .cls i => if isLive s i then (done, keep ++ [p])
                    else (done ++ [(p.tag, if closeErrOf s i then 2 else 1)], keep)
        | .slow _ _ => (done, keep ++ [p])
        | .run _ _ => (done, keep ++ [p])
        | .upl _ _ _ => (done, keep ++ [p])) (d0, k0)
      = (d0 ++ l.filterMap (doneOf s), k0 ++ l.filter (keepOf s)) := by
    intro l
    induction l with
    | nil => intro d0 k0; simp
    | cons p l ih =>
      intro d0 k0
      simp only [List.foldl_cons]
      cases hk : p.kind with
      | slow a b => simp [ih, doneOf, keepOf, hk]
      | run a b => simp [ih, doneOf, keepOf, hk]
      | upl a b c => simp [ih, doneOf, keepOf, hk]
      | del i f =>
        by_cases hl : isLive s i <;> simp [ih, doneOf, keepOf, hk, hl]
      | cls i =>
        by_cases hl : isLive s i <;> simp [ih, doneOf, keepOf, hk, hl]
  have h := this pend [] []
  simp only [List.nil_append] at h
  exact h

/-! ### monitor side -/

def KeepsName (g : MSess → MSess) : Prop := ∀ a, (g a).name = a.name

theorem monFind_map {g : MSess → MSess} (h : KeepsName g) (t : List MSess) (n : Name) :
    monFind (t.map g) n = (monFind t n).map g := by
  unfold monFind
  induction t with
  | nil => rfl
  | cons x t ih =>
    simp only [List.map_cons, List.find?_cons, h x]
    split
    · rfl
    · exact ih

theorem monUpd_eq_map (t : List MSess) (n : Name) (f : MSess → MSess) :
    monUpd t n f = t.map (fun e => if e.name == n then f e else e) := rfl

theorem monFind_monUpd {f : MSess → MSess} (h : KeepsName f) (t : List MSess) (n n' : Name) :
    monFind (monUpd t n f) n' = (monFind t n').map (fun a => if n' = n then f a else a) := by
  rw [monUpd_eq_map, monFind_map]
  · cases hf : monFind t n' with
    | none => rfl
    | some a =>
      have : a.name = n' := by
        unfold monFind at hf
        have := List.find?_some hf
        simpa using this
      simp [this]
  · intro a
    show (if (a.name == n) = true then f a else a).name = a.name
    split
    · exact h a
    · rfl

theorem monFind_append (t u : List MSess) (n : Name) :
    monFind (t ++ u) n = match monFind t n with | some a => some a | none => monFind u n := by
  unfold monFind
  rw [List.find?_append]
  cases List.find? (fun x => x.name == n) t <;> rfl

theorem monFind_name {t : List MSess} {n : Name} {a : MSess} (h : monFind t n = some a) : a.name = n ∧ a ∈ t := by
  unfold monFind at h
  exact ⟨by simpa using List.find?_some h, List.mem_of_find?_eq_some h⟩

theorem monFind_of_mem {t : List MSess} (hn : (t.map (·.name)).Nodup) {a : MSess} (h : a ∈ t) :
    monFind t a.name = some a := by
  unfold monFind
  induction t with
  | nil => cases h
  | cons x t ih =>
    simp only [List.map_cons, List.nodup_cons] at hn
    simp only [List.find?_cons]
    cases h with
    | head => simp
    | tail _ hm =>
      have hne : (x.name == a.name) = false := by
        have : x.name ≠ a.name := fun he => hn.1 (List.mem_map.mpr ⟨a, hm, he.symm⟩)
        simp [this]
      simp [hne, ih hn.2 hm]

theorem monFind_none {t : List MSess} {n : Name} (h : monFind t n = none) : ∀ a ∈ t, a.name ≠ n := by
  unfold monFind at h
  intro a ha
  have := List.find?_eq_none.mp h a ha
  simpa using this

end Sessions
