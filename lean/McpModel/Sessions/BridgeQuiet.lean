import McpModel.Sessions.BridgeSim
/-!
Bridge (E7/C11): operations that change nothing but the harness's counters (refused requests, GET,
other methods, no-ops), and the reading of `lookupSession` on the monitor's table.
-/
namespace Sessions

theorem Sim.tblpre {cfg : Cfg} {d : RState} {m : Mon} (hs : Sim cfg d m) : TblPre cfg d.st d.pend m.tbl := by
  refine ⟨hs.inv, hs.stateful_st, fun e he => (hs.eok e he).inMap, hs.mnodup, hs.minted, ?_⟩
  intro e he
  have := hs.rel e he
  unfold RelAt at this
  unfold RelPreAt
  cases hf : monFind m.tbl (sname e.id) with
  | none => rw [hf] at this; exact this
  | some a => rw [hf] at this; exact this.toERelPre

theorem firstViol_none {α} : firstViol (none : Option α) none = none := rfl

/-- a POST that is not answered yet is not judged; every other answer is judged as before -/
theorem chkAnswerOp_of_O {cfg : Cfg} {fl : Faults} {tbl : List MSess} {op : Op} {st : St}
    (h : chkAnswerO cfg fl tbl op.req st = none) : chkAnswerOp cfg fl tbl op st = none := by
  unfold chkAnswerOp
  split
  · split
    · rfl
    · exact h
  · exact h

theorem chkLogOp_eq {cfg : Cfg} {pend : List (Tag × Name)} {op : Op} {st : St} {log : List LogEnt}
    (h : ∀ n f, op ≠ .body n f) : chkLogOp cfg pend op st log = chkLog cfg op.req st log := by
  cases op <;> first | rfl | exact absurd rfl (h _ _)

theorem chkLogOp_nil (cfg : Cfg) (pend : List (Tag × Name)) (op : Op) (st : St) : chkLogOp cfg pend op st [] = none := by
  unfold chkLogOp
  split
  · unfold chkBodyLog; split <;> simp [firstSome]
  · unfold chkLog; cases op.req <;> simp [firstSome]

/-- the model's snapshot shows no session whose close is stuck and no armed timer of a session that is gone -/
theorem chkClose_model {cfg : Cfg} {st : State} (hi : Inv st)
    (hk : ∀ e ∈ st.tbl, ∃ ns nr, EOk cfg st.now ns nr e) : chkClose (showMap st) (showStale st) = none := by
  have h1 : firstSome (fun (e : MapEnt) => if e.closing && e.busy == 0 then some (CloseClause.stuck e.name) else none)
      (showMap st) = none := by
    apply firstSome_none
    intro x hx
    rw [showMap_eq] at hx
    obtain ⟨e, he, rfl⟩ := List.mem_map.mp hx
    have hm := List.mem_filter.mp he
    obtain ⟨ns, nr, hke⟩ := hk e hm.1
    have hr : e.removed = false := by
      have := hke.inMap; rw [hm.2] at this
      cases hr : e.removed with
      | false => rfl
      | true => rw [hr] at this; cases this
    cases hc : e.closing with
    | false => simp [entOf, hc]
    | true =>
      have := hke.quiet hc hr
      have hb := hke.busy
      have : (e.busy + e.initBusy == 0) = false := by simp; omega
      simp [entOf, hc, this]
  have h2 : showStale st = [] := by
    unfold showStale
    rw [List.map_eq_nil_iff, List.filter_eq_nil_iff]
    intro e he hx
    simp only [Bool.and_eq_true, Bool.not_eq_true'] at hx
    have := ((hi.good e he).unpublished hx.1).1
    rw [this] at hx
    cases hx.2
  unfold chkClose
  rw [h1, h2]
  rfl

/-- `monStep` reports nothing when every check is silent. -/
theorem monStep_viol_none {cfg : Cfg} {m : Mon} {op : Op} {o : Obs}
    (h1 : chkAnswerO cfg (effFaults cfg m) (m.tbl.map (expire cfg (nowAfter m op))) op.req o.status = none)
    (h2 : chkLogOp cfg m.pend op o.status o.log = none)
    (h3 : chkMint cfg (m.tbl.map (expire cfg (nowAfter m op))) op.req o.status o.hdr = none)
    (h5a : (scanMap cfg (nowAfter m op) op.req o.status o.hdr
      (bookDone (nowAfter m op)
        (bookSlots (bookAnswer cfg (effFaults cfg m) (nowAfter m op) (tagOf m op) (m.tbl.map (expire cfg (nowAfter m op))) m.pend op o.status).1
          (bookAnswer cfg (effFaults cfg m) (nowAfter m op) (tagOf m op) (m.tbl.map (expire cfg (nowAfter m op))) m.pend op o.status).2 m.run op o.status).1
        (bookAnswer cfg (effFaults cfg m) (nowAfter m op) (tagOf m op) (m.tbl.map (expire cfg (nowAfter m op))) m.pend op o.status).2 o.done).1
      o.map).2 = none)
    (h5b : chkKeys o.map = none)
    (h5c : chkGone (o.map.map (·.name)) (scanMap cfg (nowAfter m op) op.req o.status o.hdr
      (bookDone (nowAfter m op)
        (bookSlots (bookAnswer cfg (effFaults cfg m) (nowAfter m op) (tagOf m op) (m.tbl.map (expire cfg (nowAfter m op))) m.pend op o.status).1
          (bookAnswer cfg (effFaults cfg m) (nowAfter m op) (tagOf m op) (m.tbl.map (expire cfg (nowAfter m op))) m.pend op o.status).2 m.run op o.status).1
        (bookAnswer cfg (effFaults cfg m) (nowAfter m op) (tagOf m op) (m.tbl.map (expire cfg (nowAfter m op))) m.pend op o.status).2 o.done).1
      o.map).1 = none)
    (h5d : chkSrv cfg (o.map.map (·.name)) o.srv = none)
    (h5e : chkNoId cfg op.req o.status o.hdr = false)
    (h6 : chkClose o.map o.stale = none) :
    (monStep cfg m op o).viol = none := by
  simp only [monStep]
  rw [chkAnswerOp_of_O h1, h2, h3, h5a, h5b, h5c, h5d, h5e, h6]
  simp [firstViol]

/-- the monitor's state after a record, field by field -/
theorem monStep_mon (cfg : Cfg) (m : Mon) (op : Op) (o : Obs) :
    let now := nowAfter m op
    let tbl0 := m.tbl.map (expire cfg now)
    let ba := bookAnswer cfg (effFaults cfg m) now (tagOf m op) tbl0 m.pend op o.status
    let bs := bookSlots ba.1 ba.2 m.run op o.status
    let bd := bookDone now bs.1 ba.2 o.done
    let sm := scanMap cfg now op.req o.status o.hdr bd.1 o.map
    (monStep cfg m op o).mon.tbl =
      noteFailedInit now (reqOwner op.req) o.hdr
        (reapDying (o.map.map (·.name)) sm.1) ∧
    (monStep cfg m op o).mon.now = now ∧
    (monStep cfg m op o).mon.pend = bd.2 ∧
    (monStep cfg m op o).mon.run = bs.2 ∧
    (monStep cfg m op o).mon.faults = faultsAfter m op o.status ∧
    (monStep cfg m op o).mon.nslow = (countersAfter m op o.status).1 ∧
    (monStep cfg m op o).mon.nasync = (countersAfter m op o.status).2 := by
  refine ⟨rfl, rfl, rfl, rfl, rfl, rfl, rfl⟩

theorem chkLog_nil (cfg : Cfg) (req : Option Req) (st : St) : chkLog cfg req st [] = none := by
  unfold chkLog
  cases req <;> simp [firstSome]

theorem pendOk_counters {d : RState} (h : PendOk d) {ns na : Nat} (h1 : d.nslow ≤ ns) (h2 : d.nasync ≤ na) :
    PendOk { d with nslow := ns, nasync := na } := by
  refine ⟨h.tags, h.slots, ?_, h.minted, h.sids, fun k hk => Nat.le_trans (h.relLe k hk) h1⟩
  intro p hp
  have := h.shape p hp
  cases hk : p.kind with
  | slow a b => rw [hk] at this; exact ⟨this.1, this.2.1, Nat.le_trans this.2.2.1 h1, this.2.2.2⟩
  | run a b => rw [hk] at this; exact ⟨this.1, this.2.1, Nat.le_trans this.2.2.1 h1, this.2.2.2⟩
  | upl a b c => rw [hk] at this; exact ⟨this.1, Nat.le_trans this.2 h2⟩
  | del i f =>
    rw [hk] at this
    obtain ⟨⟨n, hn, hle⟩, hl⟩ := this
    exact ⟨⟨n, hn, Nat.le_trans hle h2⟩, hl⟩
  | cls i =>
    rw [hk] at this
    obtain ⟨⟨n, hn, hle⟩, hl⟩ := this
    exact ⟨⟨n, hn, Nat.le_trans hle h2⟩, hl⟩

/-- **quiet operations**: the model's state does not move, the monitor books nothing. -/
theorem sim_quiet {cfg : Cfg} {d : RState} {m : Mon} (hs : Sim cfg d m) (op : Op) (st : St) (hang : Bool)
    (hans : chkAnswerO cfg (effFaults cfg m) m.tbl op.req st = none)
    (hbook : bookAnswer cfg (effFaults cfg m) m.now (tagOf m op) m.tbl m.pend op st = (m.tbl, m.pend))
    (hslots : bookSlots m.tbl m.pend m.run op st = (m.tbl, m.run))
    (hnotick : nowAfter m op = m.now)
    (hfault : faultsAfter m op st = m.faults)
    (hnoid : chkNoId cfg op.req st none = false)
    (hns : d.nslow ≤ (countersAfter m op st).1) (hna : d.nasync ≤ (countersAfter m op st).2) :
    let o : Obs := { status := st, hang := hang, map := showMap d.st, srv := showSrv d.st, stale := showStale d.st }
    (monStep cfg m op o).viol = none ∧
    Sim cfg { d with nslow := (countersAfter m op st).1, nasync := (countersAfter m op st).2 } (monStep cfg m op o).mon := by
  intro o
  have hexp : m.tbl.map (expire cfg (nowAfter m op)) = m.tbl := by rw [hnotick]; exact hs.expire_id
  have hpre := hs.tblpre
  have htc := table_checks hpre hs.stateful (nowAfter m op) op.req st none
  have hbd : ∀ (t : List MSess) (p : List (Tag × Name)), bookDone (nowAfter m op) t p [] = (t, p) := fun _ _ => rfl
  constructor
  · apply monStep_viol_none
    · rw [hexp]; exact hans
    · exact chkLogOp_nil _ _ _ _
    · rfl
    · show (scanMap cfg (nowAfter m op) op.req st none _ (showMap d.st)).2 = none
      rw [hexp, hnotick, hbook, hslots, ← hnotick, hbd, htc.1]
    · exact htc.2.1
    · show chkGone _ (scanMap cfg (nowAfter m op) op.req st none _ (showMap d.st)).1 = none
      rw [hexp, hnotick, hbook, hslots, ← hnotick, hbd, htc.1]; exact htc.2.2.1
    · exact htc.2.2.2.1
    · exact hnoid
    · exact chkClose_model hs.inv (fun e he => ⟨_, _, hs.eok e he⟩)
  · obtain ⟨e1, e2, e3, e4, e5, e6, e7⟩ := monStep_mon cfg m op o
    apply sim_finish (tbl2 := m.tbl) (d' := { d with nslow := (countersAfter m op st).1, nasync := (countersAfter m op st).2 }) hpre hs.eok hs.cfg_eq hs.stateful
    · rw [e1]
      show noteFailedInit _ _ none (reapDying _ (scanMap cfg (nowAfter m op) op.req st none _ (showMap d.st)).1) = _
      rw [hexp, hnotick, hbook, hslots, ← hnotick, hbd, htc.1]
      rfl
    · rw [e2, hnotick]; exact hs.now
    · rw [e5]; show faultsAfter m op st = _
      rw [hfault]; exact hs.faults
    · rw [e6]
    · rw [e7]
    · rw [e3]
      show (bookDone _ _ _ []).2 = _
      rw [hexp, hnotick, hbook, hslots, ← hnotick, hbd]; exact hs.pend
    · rw [e4]
      show (bookSlots _ _ m.run op st).2 = _
      rw [hexp, hnotick, hbook, hslots]; exact hs.run
    · exact pendOk_counters hs.pok hns hna

end Sessions
