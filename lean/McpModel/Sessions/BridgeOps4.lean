import McpModel.Sessions.BridgeOps3
import McpModel.Sessions.BridgePend2
/-!
Bridge (E7/C11): release of a parked handler, abandoning a pending POST.
-/
namespace Sessions

theorem map_lift_id (i : Nat) (t : List Sess) : t.map (lift i id) = t := by
  conv => rhs; rw [← List.map_id t]
  apply List.map_congr_left
  intro e _; simp [lift]

/-- facts about the session of a parked POST / running handler -/
theorem Sim.busy_entry {cfg : Cfg} {d : RState} {m : Mon} (hs : Sim cfg d m) {i : Nat} (hi : i < d.st.next)
    (hb : nsOf d.pend i + nrOf d.pend i ≠ 0) :
    ∃ e a, findSess i d.st.tbl = some e ∧ e ∈ d.st.tbl ∧ e.id = i ∧ e.removed = false ∧
      EOk cfg d.st.now (nsOf d.pend i) (nrOf d.pend i) e ∧ Good cfg d.st.now e ∧
      monFind m.tbl (sname i) = some a ∧ ERel cfg (nsOf d.pend i) (nrOf d.pend i) e a := by
  obtain ⟨e, hfe⟩ := findSess_of_lt hs.inv hi
  have hmem := (findSess_some hfe).1
  have hid := (findSess_some hfe).2
  have hk := hs.eok e hmem
  have hg := hs.good hmem
  rw [hid] at hk
  have hr : e.removed = false := by
    cases hr : e.removed with
    | false => rfl
    | true => have := (hg.removed hr).2.1; have := hk.busy; omega
  have hrel := hs.rel e hmem
  unfold RelAt at hrel
  rw [hid] at hrel
  cases ha : monFind m.tbl (sname i) with
  | none => rw [ha] at hrel; rw [hr] at hrel; cases hrel
  | some a => rw [ha] at hrel; exact ⟨e, a, hfe, hmem, hid, hr, hk, hg, rfl, hrel⟩

theorem sim_release {cfg : Cfg} {d d' : RState} {m : Mon} {o : Obs} (hs : Sim cfg d m) (k : Nat)
    (hop : replayOp d (.release k) = some (d', o)) :
    (monStep cfg m (.release k) o).viol = none ∧ Sim cfg d' (monStep cfg m (.release k) o).mon := by
  have hst := hs.stateful_st
  have hreq : (Op.release k).req = none := rfl
  have hnid := inv_nodupIds hs.inv
  have hba : ∀ st, bookAnswer cfg (effFaults cfg m) m.now (tagOf m (.release k)) m.tbl m.pend (.release k) st = (m.tbl, m.pend) := by
    intro st; simp [bookAnswer, hs.stateful]
  have hpw := hs.pok.weak
  by_cases hno : (k = 0 || k > d.nslow || d.released.contains k) = true
  · -- nothing to release
    have hmo : modelOp d (.release k) = some { st := d.st, status := .noop, pend := d.pend, nslow := d.nslow, nasync := d.nasync, released := d.released } := by
      simp only [modelOp]; rw [if_pos hno]
    refine sim_quiet_op hs hmo rfl rfl rfl rfl rfl rfl (by simp [countersAfter, hs.nslow, hs.nasync]) (by rw [hreq]; rfl)
      (hba _) ?_ rfl rfl (by simp [chkNoId, hreq]) (Nat.le_refl _) (Nat.le_refl _) hop
    simp only [bookSlots]
    rw [hs.run, find_runOf_none]
    intro q hq x hx
    obtain ⟨hsl, i, hki, _⟩ := runOf_slot hx
    have := hs.pok.shape q hq
    rw [hki] at this
    intro hxk
    rw [hxk] at this
    simp only [Bool.or_eq_true, decide_eq_true_eq, List.contains_eq_mem] at hno
    rcases hno with (h | h) | h
    · omega
    · omega
    · exact this.2.2.2 (by simpa using h)
  · have hno' : (k = 0 || k > d.nslow || d.released.contains k) = false := by simpa using hno
    have hkle : k ≤ d.nslow := by
      simp only [Bool.or_eq_false_iff, decide_eq_false_iff_not] at hno'
      omega
    cases hfind : d.pend.find? (slotIs k) with
    | none =>
      -- the slot was never used by a request that is still around
      have hnoslot : ∀ q ∈ d.pend, slotOf q ≠ some k := by
        intro q hq hsl
        have := List.find?_eq_none.mp hfind q hq
        unfold slotIs at this
        unfold slotOf at hsl
        cases hqk : q.kind <;> rw [hqk] at hsl this <;> simp_all
      have hmo : modelOp d (.release k) = some { st := d.st, status := .ok, hdr := none, hang := false, done := [], log := [], pend := d.pend, nslow := d.nslow, nasync := d.nasync, released := d.released ++ [k] } := by
        simp only [modelOp]; rw [if_neg hno, hfind]
      apply sim_one_op (i := 0) (G := id) hs hmo (Or.inl rfl) (by rw [map_lift_id 0]) (fun _ => rfl) rfl rfl rfl rfl hs.inv
        (pendOkW_release hpw k hnoslot hkle) (fun j _ => ⟨rfl, rfl⟩) (fun p hp j _ _ => hs.pok.keep hp) (tblX := m.tbl)
      · rw [hba]
        simp only [bookSlots]
        rw [hs.run, find_runOf_none (fun q hq x hx => by
          intro hxk; exact hnoslot q hq (by rw [← hxk]; exact (runOf_slot hx).1))]
        show bookDone _ _ _ [] = _
        simp [bookDone, hs.pend]
      · rw [hba]
        simp only [bookSlots]
        rw [hs.run, find_runOf_none (fun q hq x hx => by
          intro hxk; exact hnoslot q hq (by rw [← hxk]; exact (runOf_slot hx).1))]
      · intro j _; rfl
      · exact hs.mnodup
      · exact hs.minted
      · intro e he hid0
        have hk0 := hs.eok e he
        have hrel0 := hs.rel e he
        rw [hid0] at hk0
        refine ⟨hk0, ?_⟩
        unfold RelAt at hrel0
        show match monFind m.tbl (sname e.id) with
          | some a => ERelPre cfg (nsOf d.pend e.id) (nrOf d.pend e.id) e a
          | none => e.removed = true
        cases hf : monFind m.tbl (sname e.id) with
        | none => rw [hf] at hrel0; exact hrel0
        | some a => rw [hf] at hrel0; exact hrel0.toERelPre
      · rw [hreq]; rfl
      · exact chkLogOp_nil _ _ _ _
      · simp [chkNoId, hreq]
      · rfl
      · intro h hh; cases hh
      · rfl
      · rfl
      · simp [countersAfter, hs.nslow, hs.nasync]
      · exact hop
    | some p =>
      obtain ⟨hp, hpred⟩ := mem_of_find? hfind
      unfold slotIs at hpred
      have hshape := hs.pok.shape p hp
      have hsid := hs.pok.sids p hp
      cases hpk : p.kind with
      | del j f => rw [hpk] at hpred; cases hpred
      | cls j => rw [hpk] at hpred; cases hpred
      | upl j n usr => rw [hpk] at hpred; cases hpred
      | slow sid slot =>
        rw [hpk] at hpred hshape
        have hslot : slot = k := by simpa using hpred
        subst hslot
        cases sid with
        | none => simp [sidOf, hpk] at hsid
        | some i =>
          have hi : i < d.st.next := hs.pok.minted p hp i (by simp [sidOf, hpk])
          have hptag : p.tag = .p slot := hshape.1
          have hslow : isSlowOf i p = true := by simp [isSlowOf, hpk]
          have hns1 := nsOf_filter_tag hs.pok.tags hp i
          rw [hslow] at hns1
          simp only [if_true] at hns1
          have hnr1 := nrOf_filter_tag hs.pok.tags hp i
          have hrunp : isRunOf i p = false := by simp [isRunOf, hpk]
          rw [hrunp] at hnr1
          simp only [Bool.false_eq_true, if_false, Nat.add_zero] at hnr1
          obtain ⟨e, a, hfe, hmem, hid, hr, hk, hg, ha, hrel⟩ := hs.busy_entry hi (by omega)
          have hns : nsOf d.pend i ≠ 0 := by omega
          have htouniq : ∀ e' ∈ d.st.tbl, e'.id = i → e' = e := fun e' he' hid' => entry_unique hs.inv he' hmem (by rw [hid', hid])
          -- the model side
          have hd1 := doL_handlerDone hst hnid i false
          have hn1 : NodupIds (d.st.tbl.map (lift i (tryF (handlerDoneF false)))) := nodupIds_map (keepsId_lift (keepsId_handlerDone _)) hnid
          have hd2 := doL_postEnd (s := { d.st with tbl := d.st.tbl.map (lift i (tryF (handlerDoneF false))) }) hst hn1 i false
          have hg0 : KeepsId (tryF (endPost d.st.now d.st.cfg.timeout false) ∘ tryF (handlerDoneF false)) :=
            keepsId_comp (keepsId_handlerDone _) (keepsId_endPost _ _ _)
          have hsettle := settle_lift hs.inv hst (i := i) hg0 (fun e he _ => hs.settleE_id _ _ rfl e he)
          have hG : KeepsId (settleE d.st.now d.st.closeFails ∘ (tryF (endPost d.st.now d.st.cfg.timeout false) ∘ tryF (handlerDoneF false))) :=
            keepsId_comp hg0 (keepsId_settleE _ _)
          have hst1 : doL (doL d.st (.handlerDone i false)) (.postEnd (some i) false) =
              { d.st with tbl := d.st.tbl.map (lift i (tryF (endPost d.st.now d.st.cfg.timeout false) ∘ tryF (handlerDoneF false))) } := by
            rw [hd1, hd2]
            show ({ d.st with tbl := (d.st.tbl.map _).map _ } : State) = _
            rw [map_lift_comp (keepsId_handlerDone _)]
          have hGe : (settleE d.st.now d.st.closeFails ∘ (tryF (endPost d.st.now d.st.cfg.timeout false) ∘ tryF (handlerDoneF false))) e =
              settleE d.st.now d.st.closeFails (endE d.st.now cfg.timeout (hdoneE e)) := by
            show settleE _ _ (tryF _ (tryF _ e)) = _
            rw [hdone_eq hr (by rw [hk.busy]; omega), endPost_eq (e := hdoneE e) (by show e.posts ≠ 0; rw [hk.posts]; omega) hk.creating, hs.cfg_eq]
          have hq := eokq_release hk hg hr hns
          have hmo : modelOp d (.release slot) = some { st := doL (doL d.st (.handlerDone i false)) (.postEnd (some i) false), status := .ok, hdr := none, hang := false, done := [(p.tag, 200)], log := [], pend := d.pend.filter (fun q => q.tag != p.tag), nslow := d.nslow, nasync := d.nasync, released := d.released ++ [slot] } := by
            simp only [modelOp]; rw [if_neg hno, hfind]; simp only [hpk]
          have hrun0 : m.run.find? (·.1 == slot) = none := by
            rw [hs.run]
            apply find_runOf_none
            intro q hq x hx hxk
            have h1 := (runOf_slot hx).1
            rw [hxk] at h1
            have := slot_unique hs.pok.slots hq hp h1 (by simp [slotOf, hpk])
            subst this
            simp [runOf, hpk] at hx
          have hpo : pendOf p = some (p.tag, sname i) := by simp [pendOf, hpk]
          have hinv1 : Inv { d.st with tbl := d.st.tbl.map (lift i (settleE d.st.now d.st.closeFails ∘ (tryF (endPost d.st.now d.st.cfg.timeout false) ∘ tryF (handlerDoneF false)))) } := by
            rw [← hsettle, ← hst1]; exact settle_inv (doL_inv (doL_inv hs.inv _) _)
          have hPslot : ∀ q ∈ d.pend.filter (fun q => q.tag != p.tag), slotOf q ≠ some slot := by
            intro q hq hsl
            have hq' := filter_tag_sub _ _ q hq
            have := slot_unique hs.pok.slots hq'.1 hp hsl (by simp [slotOf, hpk])
            exact hq'.2 (by rw [this])
          apply sim_one_op (st2 := { d.st with tbl := d.st.tbl.map (lift i (settleE d.st.now d.st.closeFails ∘ (tryF (endPost d.st.now d.st.cfg.timeout false) ∘ tryF (handlerDoneF false)))) })
            hs hmo (Or.inr (by rw [hst1]; exact hsettle)) rfl hG rfl rfl rfl rfl hinv1
            (pendOkW_release (pendOkW_filter hpw _) slot hPslot hkle)
            (tblX := monUpd m.tbl (sname i) (mPostDone m.now))
          · intro j hj
            have h1 := nsOf_filter_tag hs.pok.tags hp j
            have h2 := nrOf_filter_tag hs.pok.tags hp j
            have s1 : isSlowOf j p = false := by simp [isSlowOf, hpk]; exact fun h => hj h.symm
            have s2 : isRunOf j p = false := by simp [isRunOf, hpk]
            rw [s1] at h1; rw [s2] at h2
            simp at h1 h2
            exact ⟨h1, h2⟩
          · intro q hq j _ _; exact hs.pok.keep (filter_tag_sub _ _ q hq).1
          · rw [hba]
            simp only [bookSlots, hrun0]
            show bookDone1 m.now (m.tbl, m.pend) (p.tag, 200) = _
            unfold bookDone1
            simp only []
            rw [hs.pend, find_pendOf hs.pok.tags hp hpo]
            simp only [hptag]
            rw [← hptag, filterMap_pendOf_filter d.pend (fun t => t != p.tag)]
            rfl
          · rw [hba]
            simp only [bookSlots, hrun0]
            rw [hs.run, runOf_filter_tag_other hs.pok.tags hp (by simp [runOf, hpk])]
          · intro j hj; exact monFind_monUpd_ne (keepsName_mPostDone _) _ (sname_ne hj)
          · rw [monUpd_names (keepsName_mPostDone _)]; exact hs.mnodup
          · intro x hx
            obtain ⟨b, hb, hxb⟩ := monUpd_mem (keepsName_mPostDone _) hx
            obtain ⟨j, hj, hn⟩ := hs.minted b hb
            exact ⟨j, hj, by rw [hxb]; exact hn⟩
          · intro e' he' hid'
            rw [htouniq e' he' hid', hGe]
            have e1 : nsOf (d.pend.filter (fun q => q.tag != p.tag)) i = nsOf d.pend i - 1 := by omega
            rw [e1, hnr1]
            refine ⟨eok_settle _ hq, ?_⟩
            have hGid : (settleE d.st.now d.st.closeFails (endE d.st.now cfg.timeout (hdoneE e))).id = i := by
              rw [keepsId_settleE, (endE_fields _ _ _).1]; exact hid
            unfold RelPreAt
            rw [hGid, monFind_monUpd_self (keepsName_mPostDone _), ha, e1, hnr1, hs.now]
            simp only [Option.map_some]
            apply relpre_settle _ _ hq.notDue
            exact rel_endE (rel_hdoneE hrel.toERelPre) (fun hl => (hrel.cnt hl).2) hk.posts
              (fun ht => hg.refs_posts ht) (fun h => hk.tmr h) hns
          · rw [hreq]; rfl
          · exact chkLogOp_nil _ _ _ _
          · simp [chkNoId, hreq]
          · rfl
          · intro h hh; cases hh
          · rfl
          · rfl
          · simp [countersAfter, hs.nslow, hs.nasync]
          · exact hop
      | run i slot =>
        rw [hpk] at hpred hshape
        have hslot : slot = k := by simpa using hpred
        subst hslot
        have hi : i < d.st.next := hs.pok.minted p hp i (by simp [sidOf, hpk])
        have hptag : p.tag = .r slot := hshape.1
        have hns1 := nsOf_filter_tag hs.pok.tags hp i
        have hslowp : isSlowOf i p = false := by simp [isSlowOf, hpk]
        rw [hslowp] at hns1
        simp only [Bool.false_eq_true, if_false, Nat.add_zero] at hns1
        have hnr1 := nrOf_filter_tag hs.pok.tags hp i
        have hrunp : isRunOf i p = true := by simp [isRunOf, hpk]
        rw [hrunp] at hnr1
        simp only [if_true] at hnr1
        obtain ⟨e, a, hfe, hmem, hid, hr, hk, hg, ha, hrel⟩ := hs.busy_entry hi (by omega)
        have hnr : nrOf d.pend i ≠ 0 := by omega
        have htouniq : ∀ e' ∈ d.st.tbl, e'.id = i → e' = e := fun e' he' hid' => entry_unique hs.inv he' hmem (by rw [hid', hid])
        have hd1 := doL_handlerDone hst hnid i false
        have hsettle := settle_lift hs.inv hst (i := i) (keepsId_handlerDone false) (fun e he _ => hs.settleE_id _ _ rfl e he)
        have hG : KeepsId (settleE d.st.now d.st.closeFails ∘ tryF (handlerDoneF false)) :=
          keepsId_comp (keepsId_handlerDone _) (keepsId_settleE _ _)
        have hGe : (settleE d.st.now d.st.closeFails ∘ tryF (handlerDoneF false)) e = settleE d.st.now d.st.closeFails (hdoneE e) := by
          show settleE _ _ (tryF _ e) = _
          rw [hdone_eq hr (by rw [hk.busy]; omega)]
        have hq := eokq_runDone hk hnr
        have hmo : modelOp d (.release slot) = some { st := doL d.st (.handlerDone i false), status := .ok, hdr := none, hang := false, done := [], log := [], pend := d.pend.filter (fun q => q.tag != p.tag), nslow := d.nslow, nasync := d.nasync, released := d.released ++ [slot] } := by
          simp only [modelOp]; rw [if_neg hno, hfind]; simp only [hpk]
        have hro : runOf p = some (slot, sname i) := by simp [runOf, hpk]
        have hrun1 : m.run.find? (·.1 == slot) = some (slot, sname i) := by
          rw [hs.run]; exact find_runOf hs.pok.slots hp hro
        have hinv1 : Inv { d.st with tbl := d.st.tbl.map (lift i (settleE d.st.now d.st.closeFails ∘ tryF (handlerDoneF false))) } := by
          rw [← hsettle, ← hd1]; exact settle_inv (doL_inv hs.inv _)
        have hPslot : ∀ q ∈ d.pend.filter (fun q => q.tag != p.tag), slotOf q ≠ some slot := by
          intro q hq hsl
          have hq' := filter_tag_sub _ _ q hq
          have := slot_unique hs.pok.slots hq'.1 hp hsl (by simp [slotOf, hpk])
          exact hq'.2 (by rw [this])
        apply sim_one_op (st2 := { d.st with tbl := d.st.tbl.map (lift i (settleE d.st.now d.st.closeFails ∘ tryF (handlerDoneF false))) })
          hs hmo (Or.inr (by rw [hd1]; exact hsettle)) rfl hG rfl rfl rfl rfl hinv1
          (pendOkW_release (pendOkW_filter hpw _) slot hPslot hkle)
          (tblX := monUpd m.tbl (sname i) mRunDec)
        · intro j hj
          have h1 := nsOf_filter_tag hs.pok.tags hp j
          have h2 := nrOf_filter_tag hs.pok.tags hp j
          have s1 : isSlowOf j p = false := by simp [isSlowOf, hpk]
          have s2 : isRunOf j p = false := by simp [isRunOf, hpk]; exact fun h => hj h.symm
          rw [s1] at h1; rw [s2] at h2
          simp at h1 h2
          exact ⟨h1, h2⟩
        · intro q hq j _ _; exact hs.pok.keep (filter_tag_sub _ _ q hq).1
        · rw [hba]
          simp only [bookSlots, hrun1]
          show bookDone _ _ _ [] = _
          simp only [bookDone, List.foldl_nil]
          rw [hs.pend, filterMap_filter_tag_other pendOf hs.pok.tags hp (by simp [pendOf, hpk])]
          rfl
        · rw [hba]
          simp only [bookSlots, hrun1]
          rw [hs.run, runOf_filter_tag_run (k := slot) hs.pok.tags hs.pok.slots hp (by simp [slotOf, hpk])]
        · intro j hj; exact monFind_monUpd_ne keepsName_mRunDec _ (sname_ne hj)
        · rw [monUpd_names keepsName_mRunDec]; exact hs.mnodup
        · intro x hx
          obtain ⟨b, hb, hxb⟩ := monUpd_mem keepsName_mRunDec hx
          obtain ⟨j, hj, hn⟩ := hs.minted b hb
          exact ⟨j, hj, by rw [hxb]; exact hn⟩
        · intro e' he' hid'
          rw [htouniq e' he' hid', hGe]
          have e1 : nrOf (d.pend.filter (fun q => q.tag != p.tag)) i = nrOf d.pend i - 1 := by omega
          rw [e1, hns1]
          refine ⟨eok_settle _ hq, ?_⟩
          have hGid : (settleE d.st.now d.st.closeFails (hdoneE e)).id = i := by
            rw [keepsId_settleE]; exact hid
          unfold RelPreAt
          rw [hGid, monFind_monUpd_self keepsName_mRunDec, ha, e1, hns1]
          simp only [Option.map_some]
          apply relpre_settle _ _ hq.notDue
          exact rel_runDec (rel_hdoneE hrel.toERelPre)
        · rw [hreq]; rfl
        · exact chkLogOp_nil _ _ _ _
        · simp [chkNoId, hreq]
        · rfl
        · intro h hh; cases hh
        · rfl
        · rfl
        · simp [countersAfter, hs.nslow, hs.nasync]
        · exact hop

theorem pendOkW_append_run {P : List Pend} {ns na : Nat} {rel : List Nat} {next : Nat} (h : PendOkW P ns na rel next)
    {i k : Nat} (hi : i < next) (hk1 : 1 ≤ k) (hk2 : k ≤ ns) (hk3 : k ∉ rel) (hslot : ∀ q ∈ P, slotOf q ≠ some k) :
    PendOkW (P ++ [Pend.mk (.r k) (.run i k)]) ns na rel next := by
  have hfresh : ∀ q ∈ P, q.tag ≠ .r k := by
    intro q hq hqt
    have := h.shape q hq
    have hs := hslot q hq
    cases hqk : q.kind with
    | slow a b => rw [hqk] at this; rw [this.1] at hqt; cases hqt
    | run a b => rw [hqk] at this; rw [this.1] at hqt; cases hqt; exact hs (by simp [slotOf, hqk])
    | del j f => rw [hqk] at this; obtain ⟨n, hn, _⟩ := this; rw [hn] at hqt; cases hqt
    | cls j => rw [hqk] at this; obtain ⟨n, hn, _⟩ := this; rw [hn] at hqt; cases hqt
    | upl a b c => rw [hqk] at this; rw [this.1] at hqt; cases hqt
  refine ⟨?_, ?_, ?_, ?_, ?_, h.relLe⟩
  · rw [List.map_append, List.nodup_append]
    refine ⟨h.tags, by simp, ?_⟩
    intro a ha b hb hab
    simp at hb; subst hb
    obtain ⟨q, hq, rfl⟩ := List.mem_map.mp ha
    exact hfresh q hq hab
  · rw [List.filterMap_append, List.nodup_append]
    refine ⟨h.slots, by simp [slotOf], ?_⟩
    intro a ha b hb hab
    simp [slotOf] at hb; subst hb
    obtain ⟨q, hq, hqa⟩ := List.mem_filterMap.mp ha
    exact hslot q hq (by rw [hqa, hab])
  · intro q hq
    rcases List.mem_append.mp hq with hq | hq
    · exact h.shape q hq
    · simp at hq; subst hq; exact ⟨rfl, hk1, hk2, hk3⟩
  · intro q hq j hj
    rcases List.mem_append.mp hq with hq | hq
    · exact h.minted q hq j hj
    · simp at hq; subst hq; simp [sidOf] at hj; omega
  · intro q hq
    rcases List.mem_append.mp hq with hq | hq
    · exact h.sids q hq
    · simp at hq; subst hq; rfl

theorem sim_abandon {cfg : Cfg} {d d' : RState} {m : Mon} {o : Obs} (hs : Sim cfg d m) (k : Nat)
    (hop : replayOp d (.abandon k) = some (d', o)) :
    (monStep cfg m (.abandon k) o).viol = none ∧ Sim cfg d' (monStep cfg m (.abandon k) o).mon := by
  have hst := hs.stateful_st
  have hreq : (Op.abandon k).req = none := rfl
  have hnid := inv_nodupIds hs.inv
  have hba : ∀ st, bookAnswer cfg (effFaults cfg m) m.now (tagOf m (.abandon k)) m.tbl m.pend (.abandon k) st = (m.tbl, m.pend) := by
    intro st; simp [bookAnswer, hs.stateful]
  have hpw := hs.pok.weak
  have noop : modelOp d (.abandon k) = some { st := d.st, status := .noop, pend := d.pend, nslow := d.nslow, nasync := d.nasync, released := d.released } →
      (monStep cfg m (.abandon k) o).viol = none ∧ Sim cfg d' (monStep cfg m (.abandon k) o).mon := by
    intro hmo
    exact sim_quiet_op hs hmo rfl rfl rfl rfl rfl rfl (by simp [countersAfter, hs.nslow, hs.nasync]) (by rw [hreq]; rfl)
      (hba _) (by simp [bookSlots]) rfl rfl (by simp [chkNoId, hreq]) (Nat.le_refl _) (Nat.le_refl _) hop
  cases hfind : d.pend.find? (fun p => p.tag == Tag.p k) with
  | none => apply noop; simp only [modelOp, hfind]
  | some p =>
    obtain ⟨hp, hpred⟩ := mem_of_find? hfind
    have hptag : p.tag = .p k := by simpa using hpred
    have hshape := hs.pok.shape p hp
    have hsid := hs.pok.sids p hp
    cases hpk : p.kind with
    | run j s => rw [hpk] at hshape; rw [hshape.1] at hptag; cases hptag
    | del j f => rw [hpk] at hshape; obtain ⟨⟨n, hn, _⟩, _⟩ := hshape; rw [hn] at hptag; cases hptag
    | cls j => rw [hpk] at hshape; obtain ⟨⟨n, hn, _⟩, _⟩ := hshape; rw [hn] at hptag; cases hptag
    | upl j n usr => rw [hpk] at hshape; rw [hshape.1] at hptag; cases hptag
    | slow sid slot =>
      rw [hpk] at hshape
      have hslot : slot = k := by have := hshape.1; rw [hptag] at this; cases this; rfl
      subst hslot
      cases sid with
      | none => simp [sidOf, hpk] at hsid
      | some i =>
        have hi : i < d.st.next := hs.pok.minted p hp i (by simp [sidOf, hpk])
        have hslow : isSlowOf i p = true := by simp [isSlowOf, hpk]
        have hns1 := nsOf_filter_tag hs.pok.tags hp i
        rw [hslow] at hns1
        simp only [if_true] at hns1
        have hnr1 := nrOf_filter_tag hs.pok.tags hp i
        have hrunp : isRunOf i p = false := by simp [isRunOf, hpk]
        rw [hrunp] at hnr1
        simp only [Bool.false_eq_true, if_false, Nat.add_zero] at hnr1
        obtain ⟨e, a, hfe, hmem, hid, hr, hk, hg, ha, hrel⟩ := hs.busy_entry hi (by omega)
        have hns : nsOf d.pend i ≠ 0 := by omega
        have htouniq : ∀ e' ∈ d.st.tbl, e'.id = i → e' = e := fun e' he' hid' => entry_unique hs.inv he' hmem (by rw [hid', hid])
        have hd1 := doL_postEnd hst hnid i false
        have hsettle := settle_lift hs.inv hst (i := i) (keepsId_endPost d.st.now d.st.cfg.timeout false) (fun e he _ => hs.settleE_id _ _ rfl e he)
        have hG : KeepsId (settleE d.st.now d.st.closeFails ∘ tryF (endPost d.st.now d.st.cfg.timeout false)) :=
          keepsId_comp (keepsId_endPost _ _ _) (keepsId_settleE _ _)
        have hGe : (settleE d.st.now d.st.closeFails ∘ tryF (endPost d.st.now d.st.cfg.timeout false)) e =
            settleE d.st.now d.st.closeFails (endE d.st.now cfg.timeout e) := by
          show settleE _ _ (tryF _ e) = _
          rw [endPost_eq (by rw [hk.posts]; omega) hk.creating, hs.cfg_eq]
        have hq := eokq_abandon hk hg hr hns
        have hmo : modelOp d (.abandon slot) = some { st := doL d.st (.postEnd (some i) false), status := .ok, hdr := none, hang := false, done := [(Tag.p slot, 200)], log := [], pend := d.pend.filter (fun q => q.tag != Tag.p slot) ++ [Pend.mk (.r slot) (.run i slot)], nslow := d.nslow, nasync := d.nasync, released := d.released } := by
          simp only [modelOp, hfind, hpk]
        have hpo : pendOf p = some (p.tag, sname i) := by simp [pendOf, hpk]
        have hfp : m.pend.find? (·.1 == Tag.p slot) = some (p.tag, sname i) := by
          rw [hs.pend, ← hptag]; exact find_pendOf hs.pok.tags hp hpo
        have hinv1 : Inv { d.st with tbl := d.st.tbl.map (lift i (settleE d.st.now d.st.closeFails ∘ tryF (endPost d.st.now d.st.cfg.timeout false))) } := by
          rw [← hsettle, ← hd1]; exact settle_inv (doL_inv hs.inv _)
        have hPslot : ∀ q ∈ d.pend.filter (fun q => q.tag != Tag.p slot), slotOf q ≠ some slot := by
          intro q hq hsl
          have hq' := filter_tag_sub _ _ q hq
          have := slot_unique hs.pok.slots hq'.1 hp hsl (by simp [slotOf, hpk])
          exact hq'.2 (by rw [this, hptag])
        have hrestP : d.pend.filter (fun q => q.tag != Tag.p slot) = d.pend.filter (fun q => q.tag != p.tag) := by rw [hptag]
        have hnsP : ∀ j, nsOf (d.pend.filter (fun q => q.tag != Tag.p slot) ++ [Pend.mk (.r slot) (.run i slot)]) j =
              nsOf (d.pend.filter (fun q => q.tag != p.tag)) j ∧
            nrOf (d.pend.filter (fun q => q.tag != Tag.p slot) ++ [Pend.mk (.r slot) (.run i slot)]) j =
              nrOf (d.pend.filter (fun q => q.tag != p.tag)) j + (if j = i then 1 else 0) := by
          intro j
          rw [hrestP]
          refine ⟨nsOf_append_other _ _ _ rfl, ?_⟩
          simp only [nrOf, List.filter_append, List.length_append]
          by_cases hji : j = i
          · simp [isRunOf, hji]
          · have : (i == j) = false := by simp; exact fun h => hji h.symm
            simp [isRunOf, hji, this]
        apply sim_one_op (st2 := { d.st with tbl := d.st.tbl.map (lift i (settleE d.st.now d.st.closeFails ∘ tryF (endPost d.st.now d.st.cfg.timeout false))) })
          hs hmo (Or.inr (by rw [hd1]; exact hsettle)) rfl hG rfl rfl rfl rfl hinv1
          (pendOkW_append_run (pendOkW_filter hpw _) hi hshape.2.1 hshape.2.2.1 hshape.2.2.2 hPslot)
          (tblX := monUpd m.tbl (sname i) (mPostDone m.now ∘ mRunInc))
        · intro j hj
          have h1 := nsOf_filter_tag hs.pok.tags hp j
          have h2 := nrOf_filter_tag hs.pok.tags hp j
          have s1 : isSlowOf j p = false := by simp [isSlowOf, hpk]; exact fun h => hj h.symm
          have s2 : isRunOf j p = false := by simp [isRunOf, hpk]
          rw [s1] at h1; rw [s2] at h2
          simp at h1 h2
          rw [(hnsP j).1, (hnsP j).2, if_neg hj]
          exact ⟨h1, by omega⟩
        · intro q hq j hj hji
          rcases List.mem_append.mp hq with hq | hq
          · exact hs.pok.keep (filter_tag_sub _ _ q hq).1
          · simp at hq; subst hq; rfl
        · rw [hba]
          simp only [bookSlots, beq_self_eq_true, if_true, hfp]
          show bookDone1 m.now (monUpd m.tbl (sname i) _, m.pend) (Tag.p slot, 200) = _
          unfold bookDone1
          simp only [hfp]
          show (monUpd (monUpd m.tbl (sname i) mRunInc) (sname i) (mPostDone m.now), m.pend.filter (fun x => x.1 != Tag.p slot)) = _
          rw [monUpd_monUpd _ _ keepsName_mRunInc]
          congr 1
          rw [List.filterMap_append, hrestP, hs.pend, ← hptag, filterMap_pendOf_filter d.pend (fun t => t != p.tag)]
          simp [pendOf]
        · rw [hba]
          simp only [bookSlots, beq_self_eq_true, if_true, hfp]
          rw [List.filterMap_append, hrestP, runOf_filter_tag_other hs.pok.tags hp (by simp [runOf, hpk]), hs.run]
          simp [runOf]
        · intro j hj
          exact monFind_monUpd_ne (fun x => by show (mPostDone m.now (mRunInc x)).name = x.name; rw [keepsName_mPostDone]; rfl) _ (sname_ne hj)
        · rw [monUpd_names (fun x => by show (mPostDone m.now (mRunInc x)).name = x.name; rw [keepsName_mPostDone]; rfl)]; exact hs.mnodup
        · intro x hx
          obtain ⟨b, hb, hxb⟩ := monUpd_mem (fun x => by show (mPostDone m.now (mRunInc x)).name = x.name; rw [keepsName_mPostDone]; rfl) hx
          obtain ⟨j, hj, hn⟩ := hs.minted b hb
          exact ⟨j, hj, by rw [hxb]; exact hn⟩
        · intro e' he' hid'
          rw [htouniq e' he' hid', hGe]
          have e1 : nsOf (d.pend.filter (fun q => q.tag != Tag.p slot) ++ [Pend.mk (.r slot) (.run i slot)]) i = nsOf d.pend i - 1 := by
            rw [(hnsP i).1]; omega
          have e2 : nrOf (d.pend.filter (fun q => q.tag != Tag.p slot) ++ [Pend.mk (.r slot) (.run i slot)]) i = nrOf d.pend i + 1 := by
            rw [(hnsP i).2, if_pos rfl, hnr1]
          rw [e1, e2]
          refine ⟨eok_settle _ hq, ?_⟩
          have hGid : (settleE d.st.now d.st.closeFails (endE d.st.now cfg.timeout e)).id = i := by
            rw [keepsId_settleE, (endE_fields _ _ _).1]; exact hid
          unfold RelPreAt
          rw [hGid, monFind_monUpd_self (fun x => by show (mPostDone m.now (mRunInc x)).name = x.name; rw [keepsName_mPostDone]; rfl), ha, e1, e2, hs.now]
          simp only [Option.map_some, Function.comp]
          apply relpre_settle _ _ hq.notDue
          have hri := rel_runInc hrel.toERelPre
          exact rel_endE hri (fun hl => (hri.cnt hl).2) hk.posts (fun ht => hg.refs_posts ht) (fun h => hk.tmr h) hns
        · rw [hreq]; rfl
        · exact chkLogOp_nil _ _ _ _
        · simp [chkNoId, hreq]
        · rfl
        · intro h hh; cases hh
        · rfl
        · rfl
        · simp [countersAfter, hs.nslow, hs.nasync]
        · exact hop

end Sessions
