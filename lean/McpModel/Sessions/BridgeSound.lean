import McpModel.Sessions.Bridge
import McpModel.Sessions.Complete
/-!
# E7 / C11: the model satisfies every clause of the property, as read on observation traces

`monitor_silent_iff`: the monitor is silent on a trace iff every clause predicate of Sound.lean holds of it.
`model_satisfies_P`: on the observation trace of ANY operation list of the model every clause predicate
holds (`monitor_accepts_model` + `monitor_complete`) — the property, as the monitor reads it on
observations, is a theorem about the model, for all histories.
-/
namespace Sessions

theorem monitor_silent_iff (cfg : Cfg) (tr : Trace) : runMon cfg tr = none ↔ ∀ c, P_of cfg c tr := by
  constructor
  · exact fun h c => monitor_complete h c
  · intro h
    cases hr : runMon cfg tr with
    | none => rfl
    | some jc =>
      obtain ⟨j, c⟩ := jc
      exact absurd (h c) (monitor_sound hr)

theorem model_satisfies_P (cfg : Cfg) (hfix : cfg.publishChecks = true) (ops : List Op) (c : Clause) :
    P_of cfg c (modelTrace cfg ops) :=
  monitor_complete (monitor_accepts_model cfg hfix ops) c

/-- … and the end-of-case predicate holds of the model's final record. -/
theorem model_satisfies_PEnd (cfg : Cfg) (hfix : cfg.publishChecks = true) (ops : List Op) :
    PEnd (some { stuck := 0, map := endLeft (replayFrom (.init cfg) ops), srv := 0 }) := by
  rw [endLeft_zero (sim_after_model cfg hfix ops)]
  rfl

/-- Non-vacuity of the clause predicates: they are not satisfied by every trace.  A terminated session
(DELETE answered 204) that is honoured afterwards refutes `P_deadAnswered`; the monitor reports exactly that. -/
example :
    let cfg : Cfg := ⟨false, 100, true, false⟩
    let s1 : MapEnt := { name := .s 1, owner := .u 1 }
    let tr : Trace := [
      (.post .absent (.u 1) .init, { status := .code 200, hdr := some (.s 1), map := [s1], srv := [.s 1] }),
      (.delete (.s 1) (.u 1), { status := .code 204 }),
      (.get (.s 1) (.u 1), { status := .code 200 })]
    runMon cfg tr = some (2, .ans (.deadAnswered .get (.code 200))) := by
  decide

example :
    let cfg : Cfg := ⟨false, 100, true, false⟩
    let s1 : MapEnt := { name := .s 1, owner := .u 1 }
    let tr : Trace := [
      (.post .absent (.u 1) .init, { status := .code 200, hdr := some (.s 1), map := [s1], srv := [.s 1] }),
      (.delete (.s 1) (.u 1), { status := .code 204 }),
      (.get (.s 1) (.u 1), { status := .code 200 })]
    ¬ P_deadAnswered cfg .get (.code 200) tr :=
  sound_deadAnswered .get (.code 200) (j := 2) (by decide)

end Sessions
