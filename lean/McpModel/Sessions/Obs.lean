import McpModel.Sessions.Model
/-!
E7 — the typed record language of the `http` stream (C11): harness operations and observations.

The driver (Driver.lean) parses the blank-separated tokens of a record into an `Op` and the
implementation's observation string into an `Obs`; the typed model replay (Replay.lean) produces an
`Obs` for the same `Op`; the typed monitor (Monitor.lean) judges the implementation's `Obs`.  Every
field that the implementation controls has a `raw` constructor, so parsing is total and the clause
texts can print exactly what was observed; the operations (written by the harness generator) have no
`raw` escape: an operation that does not parse is answered `bad-op` by the driver.

Core Lean only (linked into the driver).
-/
namespace Sessions

/-- A session name as the harness prints it: `s<k>` = the k-th id minted by `GetSessionID`, `e` = the
empty id (temporary session of a stateless endpoint), `x<n>` = an id that was never minted (the harness
prints the hex of the raw id), anything else verbatim. -/
inductive Name where
  | s (k : Nat)
  | e
  | x (n : Nat)
  | raw (str : String)
deriving DecidableEq, Repr

/-- The identity a request is sent with: no `TokenInfo`, a `TokenInfo` with an empty `UserID`, user n. -/
inductive UserTok where
  | anon | ue | u (n : Nat)
deriving DecidableEq, Repr

/-- The user a handler saw, as printed in the invocation log. -/
inductive LogWho where
  | tok (u : UserTok)
  | raw (str : String)
deriving DecidableEq, Repr

/-- `sessionInfo.userID` as printed: `-` (empty), `u<n>`, anything else verbatim. -/
inductive Owner where
  | unbound
  | u (n : Nat)
  | raw (str : String)
deriving DecidableEq, Repr

/-- First word of an observation: an HTTP status, `pending` (no answer at quiescence), or the outcome
of a non-request operation (`ok`, `noop`, `err`). -/
inductive St where
  | code (n : Nat)
  | pending | ok | noop | err
  | raw (str : String)
deriving DecidableEq, Repr

/-- What a POST carries (harness vocabulary). `slow` = a `tools/call` whose handler blocks until released. -/
inductive PKind where
  | init | badinit | ping | notif | slow
deriving DecidableEq, Repr

/-- Session reference of an operation: none, `s<k>`, `x<n>` (never minted). -/
inductive Ref where
  | absent
  | s (k : Nat)
  | x (n : Nat)
deriving DecidableEq, Repr

/-- Tag of an asynchronous completion: `p<slot>` slow POST, `q<n>` other request, `d<n>` DELETE,
`c<n>` server-side close, `r<slot>` (model-internal: handler of an abandoned POST), `u<n>` the n-th POST
whose body arrives in pieces (`postb`). -/
inductive Tag where
  | p (n : Nat) | q (n : Nat) | d (n : Nat) | c (n : Nat) | r (n : Nat) | u (n : Nat)
  | raw (str : String)
deriving DecidableEq, Repr

inductive Op where
  | post (ref : Ref) (u : UserTok) (k : PKind)
  | postx (u : UserTok) (k : PKind)
  | release (slot : Nat)
  | abandon (slot : Nat)
  | get (ref : Ref) (u : UserTok)
  | delete (ref : Ref) (u : UserTok)
  | other (ref : Ref) (u : UserTok)
  | tick (ms : Nat)
  | fault (f : Faults)
  | close (ref : Ref)
  | postb (ref : Ref) (u : UserTok)   -- the HEADERS of a POST (a `ping`) arrive; its body follows in pieces
  | body (n : Nat) (fin : Bool)       -- a piece of the body of the n-th such POST arrives; `fin`: the last one
deriving DecidableEq, Repr

/-- JSON-RPC method of a handler invocation (only rendered, never judged). -/
inductive Method where
  | initialize | ping | initialized | toolsCall
  | raw (str : String)
deriving DecidableEq, Repr

/-- One entry of `h.sessions` as printed: `<name>[!key]/<owner>/r<refs>/t<0|1>/c<0|1>/h<handlers in flight>`. -/
structure MapEnt where
  name : Name
  badKey : Bool := false     -- the table key differs from the id of the session stored under it
  owner : Owner
  refs : Nat := 0
  timer : Bool := false
  closing : Bool := false
  busy : Nat := 0            -- request handlers of the session that have been entered and have not returned
deriving DecidableEq, Repr

/-- One handler invocation: `<session>/<user>/<method>`. -/
structure LogEnt where
  sess : Name
  who : LogWho
  method : Method
deriving DecidableEq, Repr

/-- One observation, taken at quiescence. -/
structure Obs where
  status : St
  hdr : Option Name := none          -- `Mcp-Session-Id` of the response
  hang : Bool := false               -- a GET whose stream stays open (rendered, never judged)
  done : List (Tag × Nat) := []      -- asynchronous completions with their status
  map : List MapEnt := []            -- `h.sessions`
  srv : List Name := []              -- `Server.Sessions()`
  log : List LogEnt := []            -- handler invocations during this operation
  stale : List Name := []            -- sessions that have left `h.sessions` whose idle timer is armed
  closed : List Name := []           -- (`legacy` / `noids` cases only) sessions for which the event store's
                                     -- `SessionClosed` was called during this operation
deriving DecidableEq, Repr

/-! ### reading operations -/

def PKind.kind : PKind → Kind
  | .init => .init
  | .badinit => .badInit
  | .ping => .call
  | .slow => .call
  | .notif => .notif

def UserTok.user : UserTok → User
  | .anon | .ue => none
  | .u n => some n

/-- The owner a session created by this identity is bound to. -/
def UserTok.owner : UserTok → Owner
  | .anon | .ue => .unbound
  | .u n => .u n

/-- `sessionInfo.userID` of the model. -/
def ownerOf : User → Owner
  | none => .unbound
  | some n => .u n

/-- The name under which the harness prints the session an operation refers to. -/
def Ref.name : Ref → Option Name
  | .absent => none
  | .s k => some (.s k)
  | .x n => some (.x n)

/-- The model id a reference stands for: the (k-1)-th minted id, or an id that has not been minted. -/
def Ref.sid (next : Nat) : Ref → Option Nat
  | .absent => none
  | .s k => if 1 ≤ k ∧ k - 1 < next then some (k - 1) else some (next + k)
  | .x n => some (next + n)

/-- Name of the model's session `i`. -/
def sname (i : Nat) : Name := .s (i + 1)

end Sessions
