import McpModel.Sessions.Ephemeral
/-!
E7 — theorems about the configurations without kept sessions (Ephemeral.lean): a stateless endpoint under the
compatibility parameter `allowsessionsinstateless=1` (`legacy`) and a stateful endpoint whose `GetSessionID`
returns `""` (`noIds`).

* what C11 says about them, over **all** operation histories (every element of every observation trace of the
  model): nothing is ever kept, the server lists exactly the POSTs in progress, `noIds` never issues or honours an
  id, `legacy` names in its answer the session the request named, mints a fresh id for every POST without one, and
  its DELETE changes nothing;
* the bridge `eph_monitor_accepts_model`: the property monitor `judge` is silent on every observation trace of the
  model;
* soundness of the monitor's checks: a reported clause refutes the corresponding statement of the property on the
  observation it was reported for.
-/
namespace Sessions.Eph

/-! ## the regenerated constants are the numbers of the property text -/

/-- 404 / 400 / 405 / 204 as the property (and the compatibility parameter's documentation) says. -/
theorem eph_status_codes :
    stNotFound = 404 ∧ stMissingIdGet = 400 ∧ stMissingIdDelete = 400 ∧ stOtherMethod = 405 ∧
    stStatelessNotPost = 405 ∧ stLegacyDeleteMissingId = 400 ∧ stLegacyDeleteOK = 204 := by decide

/-! ## invariant of the model -/

/-- Names of temporary sessions in progress were minted (`legacy`) or are empty (`noIds`). -/
structure Good (s : State) : Prop where
  ord : ∀ p ∈ s.slow, nameOrd p.name ≤ s.next
  empty : s.mode = .noIds → ∀ p ∈ s.slow, p.name = .e

theorem good_init (m : Mode) (es : Bool) : Good { mode := m, es := es } := ⟨by simp, by simp⟩

theorem tempName_ord {s : State} {ref : Ref} {nm : Name} (h : tempName s ref = some nm) :
    nameOrd nm ≤ s.next + 1 := by
  cases ref with
  | absent =>
    cases hm : s.mode <;> simp [tempName, hm] at h <;> subst h <;> simp [nameOrd]
  | s k =>
    simp only [tempName] at h
    split at h
    · simp at h; subst h; simp [nameOrd]; omega
    · simp at h
  | x n => simp [tempName] at h; subst h; simp [nameOrd]

theorem tempName_ord_ref {s : State} {ref : Ref} {nm : Name} (h : tempName s ref = some nm) (hr : ref ≠ .absent) :
    nameOrd nm ≤ s.next := by
  cases ref with
  | absent => exact absurd rfl hr
  | s k =>
    simp only [tempName] at h
    split at h
    · simp at h; subst h; simp [nameOrd]; omega
    · simp at h
  | x n => simp [tempName] at h; subst h; simp [nameOrd]

theorem mode_step {s s' : State} {op : Op} {o : Obs} (h : modelOp s op = some (s', o)) : s'.mode = s.mode := by
  cases op <;> simp only [modelOp] at h
  case post ref u k =>
    split at h
    · simp at h; rw [← h.1]; split <;> rfl
    · split at h
      · simp at h
      · cases k <;> simp at h <;> rw [← h.1] <;> (repeat' split) <;> rfl
  case release k =>
    split at h
    · simp at h; rw [← h.1]
    · split at h <;> simp at h <;> rw [← h.1]
  case get ref u => cases hm : s.mode <;> simp [hm] at h <;> rw [← h.1] <;> exact hm
  case delete ref u => cases hm : s.mode <;> simp [hm] at h <;> rw [← h.1] <;> exact hm
  case other ref u => cases hm : s.mode <;> simp [hm] at h <;> rw [← h.1] <;> exact hm
  case tick n => simp at h; rw [← h.1]
  case fault f => simp at h; rw [← h.1]
  case abandon k => simp at h; rw [← h.1]
  case close ref =>
    split at h
    · split at h <;> simp at h <;> rw [← h.1]
    · simp at h; rw [← h.1]
  all_goals simp at h

/-- the environment's operations: the store starts / stops failing, the server closes a temporary session -/
def isEnv : Op → Bool
  | .fault _ | .close _ => true
  | _ => false

theorem op_trichotomy (op : Op) :
    (∃ ref u k, op = .post ref u k) ∨ (∃ k, op = .release k) ∨ isEnv op = true ∨
    ((∀ ref u k, op ≠ .post ref u k) ∧ (∀ k, op ≠ .release k) ∧ isEnv op = false) := by
  cases op <;> simp [isEnv]

theorem filter_split (l : List Nat) (k : Nat) :
    (l.filter (· == k)).length + (l.filter (· != k)).length = l.length := by
  induction l with
  | nil => simp
  | cons a t ih => by_cases h : a = k <;> simp [h] <;> omega

theorem cls_filter (l : List Nat) (v : Nat) :
    ((l.map fun _ => ((Tag.c 0, v) : Tag × Nat)).filter isPostTag) = [] := by
  induction l <;> simp_all [isPostTag]

/-! ## what one operation does (the only place where `modelOp` is unfolded) -/

/-- A POST: refused by `lookupSession` (`noIds`, with an id), or served by a temporary session. -/
theorem post_cases {s s' : State} {o : Obs} {ref : Ref} {u : UserTok} {k : PKind}
    (h : modelOp s (.post ref u k) = some (s', o)) :
    (s.mode = .noIds ∧ ref ≠ .absent ∧ o = rejectObs s' stNotFound ∧ s'.slow = s.slow ∧ s'.next = s.next) ∨
    (¬(s.mode = .noIds ∧ ref ≠ .absent) ∧ ∃ nm, tempName s ref = some nm ∧
      s'.next = (if s.mode = .legacy ∧ ref = .absent then s.next + 1 else s.next) ∧
      o.log = logOf nm u k ∧ o.map = [] ∧ o.stale = [] ∧ o.srv = names s' ∧ o.done = [] ∧
      (k = .slow → o.status = .pending ∧ o.hdr = none ∧ ∃ slot, s'.slow = s.slow ++ [⟨slot, nm⟩]) ∧
      (k ≠ .slow → s'.slow = s.slow ∧ o.hdr = hdrOf k nm ∧
        o.status = (if k = .notif then .code 202 else .code 200))) := by
  simp only [modelOp] at h
  split at h
  · rename_i hc
    simp at hc h
    left
    obtain ⟨h1, h2⟩ := h
    subst h1; subst h2
    refine ⟨hc.1, hc.2, rfl, ?_, ?_⟩ <;> split <;> rfl
  · rename_i hc
    simp at hc
    right
    refine ⟨fun ⟨a, b⟩ => b (hc a), ?_⟩
    split at h
    · simp at h
    · rename_i nm hn
      refine ⟨nm, hn, ?_⟩
      cases k <;> simp at h <;> obtain ⟨h1, h2⟩ := h <;> subst h1 <;> subst h2 <;>
        simp [names, hdrOf] <;> (repeat' split) <;> simp_all

/-- `release`: at most the POST in that slot ends. -/
theorem release_cases {s s' : State} {o : Obs} {k : Nat} (h : modelOp s (.release k) = some (s', o)) :
    s'.mode = s.mode ∧ s'.next = s.next ∧ o.hdr = none ∧ o.log = [] ∧ o.map = [] ∧ o.stale = [] ∧ o.srv = names s' ∧
    o.status ≠ .pending ∧ (∀ p ∈ s'.slow, p ∈ s.slow) ∧
    s'.slow.length + s'.closing.length + o.done.length ≤ s.slow.length + s.closing.length := by
  simp only [modelOp] at h
  split at h
  · simp at h; obtain ⟨h1, h2⟩ := h; subst h1; subst h2; simp
  · split at h
    · rename_i q hq
      simp at h; obtain ⟨h1, h2⟩ := h; subst h1; subst h2
      simp [names]
      refine ⟨fun p hp _ => hp, ?_⟩
      have hm := List.mem_of_find?_eq_some hq
      have hp := List.find?_some hq
      have : (List.filter (fun x => x.slot != k) s.slow).length < s.slow.length := by
        apply List.length_filter_lt_length_iff_exists.mpr
        exact ⟨q, hm, by simpa using hp⟩
      have := filter_split s.closing k
      omega
    · simp at h; obtain ⟨h1, h2⟩ := h; subst h1; subst h2; simp

/-- GET, DELETE, other methods, `tick`, `fault`: answered at once, nothing changes. -/
theorem quiet_cases {s s' : State} {o : Obs} {op : Op} (h : modelOp s op = some (s', o))
    (hp : ∀ ref u k, op ≠ .post ref u k) (hr : ∀ k, op ≠ .release k) (hq : isEnv op = false) :
    s' = s ∧ o.hdr = none ∧ o.log = [] ∧ o.map = [] ∧ o.stale = [] ∧ o.srv = names s ∧ o.done = [] ∧
    o.status ≠ .pending := by
  cases op <;> simp only [modelOp] at h
  case post ref u k => exact absurd rfl (hp ref u k)
  case release k => exact absurd rfl (hr k)
  case get ref u => cases hm : s.mode <;> simp [hm] at h <;> obtain ⟨h1, h2⟩ := h <;> subst h1 <;> subst h2 <;> simp [rejectObs]
  case delete ref u => cases hm : s.mode <;> simp [hm] at h <;> obtain ⟨h1, h2⟩ := h <;> subst h1 <;> subst h2 <;> simp [rejectObs]
  case other ref u => cases hm : s.mode <;> simp [hm] at h <;> obtain ⟨h1, h2⟩ := h <;> subst h1 <;> subst h2 <;> simp [rejectObs]
  case tick n => simp at h; obtain ⟨h1, h2⟩ := h; subst h1; subst h2; simp
  case fault f => simp [isEnv] at hq
  case close ref => simp [isEnv] at hq
  case abandon k => simp at h; obtain ⟨h1, h2⟩ := h; subst h1; subst h2; simp; split <;> simp
  all_goals simp at h

/-- … and the event store is told nothing. -/
theorem quiet_closed {s s' : State} {o : Obs} {op : Op} (h : modelOp s op = some (s', o))
    (hp : ∀ ref u k, op ≠ .post ref u k) (hr : ∀ k, op ≠ .release k) (hq : isEnv op = false) : o.closed = [] := by
  cases op <;> simp only [modelOp] at h
  case post ref u k => exact absurd rfl (hp ref u k)
  case release k => exact absurd rfl (hr k)
  case get ref u => cases hm : s.mode <;> simp [hm] at h <;> obtain ⟨h1, h2⟩ := h <;> subst h1 <;> subst h2 <;> simp [rejectObs]
  case delete ref u => cases hm : s.mode <;> simp [hm] at h <;> obtain ⟨h1, h2⟩ := h <;> subst h1 <;> subst h2 <;> simp [rejectObs]
  case other ref u => cases hm : s.mode <;> simp [hm] at h <;> obtain ⟨h1, h2⟩ := h <;> subst h1 <;> subst h2 <;> simp [rejectObs]
  case tick n => simp at h; obtain ⟨h1, h2⟩ := h; subst h1; subst h2; simp
  case fault f => simp [isEnv] at hq
  case close ref => simp [isEnv] at hq
  case abandon k => simp at h; obtain ⟨h1, h2⟩ := h; subst h1; subst h2; simp
  all_goals simp at h

/-- `fault`, `close`: the environment acts — no temporary session begins or ends, nothing is answered to a client;
a server-side `Close()` that found its session waits (`pending`) for the running handler. -/
theorem env_cases {s s' : State} {o : Obs} {op : Op} (h : modelOp s op = some (s', o)) (he : isEnv op = true) :
    s'.slow = s.slow ∧ s'.next = s.next ∧ o.hdr = none ∧ o.log = [] ∧ o.map = [] ∧ o.stale = [] ∧ o.srv = names s' ∧
    o.done = [] ∧ o.closed = [] ∧ served s.mode op = false ∧ chkAnswer s.mode op o.status = none ∧
    s'.closing.length = s.closing.length + (if o.status = .pending then 1 else 0) := by
  cases op <;> simp [isEnv] at he <;> simp only [modelOp] at h
  case fault f =>
    simp at h; obtain ⟨h1, h2⟩ := h; subst h1; subst h2
    simp [names, served, chkAnswer]; split <;> simp
  case close ref =>
    split at h
    · split at h
      · simp at h; obtain ⟨h1, h2⟩ := h; subst h1; subst h2; simp [names, served, chkAnswer]
      · simp at h; obtain ⟨h1, h2⟩ := h; subst h1; subst h2; simp [names, served, chkAnswer]
      · simp at h
    · simp at h; obtain ⟨h1, h2⟩ := h; subst h1; subst h2; simp [names, served, chkAnswer]

theorem es_step {s s' : State} {op : Op} {o : Obs} (h : modelOp s op = some (s', o)) : s'.es = s.es := by
  cases op <;> simp only [modelOp] at h
  case post ref u k =>
    split at h
    · simp at h; rw [← h.1]; split <;> rfl
    · split at h
      · simp at h
      · cases k <;> simp at h <;> rw [← h.1] <;> (repeat' split) <;> rfl
  case release k =>
    split at h
    · simp at h; rw [← h.1]
    · split at h <;> simp at h <;> rw [← h.1]
  case get ref u => cases hm : s.mode <;> simp [hm] at h <;> rw [← h.1]
  case delete ref u => cases hm : s.mode <;> simp [hm] at h <;> rw [← h.1]
  case other ref u => cases hm : s.mode <;> simp [hm] at h <;> rw [← h.1]
  case tick n => simp at h; rw [← h.1]
  case fault f => simp at h; rw [← h.1]
  case abandon k => simp at h; rw [← h.1]
  case close ref =>
    split at h
    · split at h <;> simp at h <;> rw [← h.1]
    · simp at h; rw [← h.1]
  all_goals simp at h

/-- **The event store is told exactly once per temporary session that ends** (`streamableServerConn.Close` →
`EventStore.SessionClosed`): once when a served POST is answered, once per completion of a parked POST — also when the
client has gone away (`abandon`) and whatever `SessionClosed` returns; never for a refused request, never without a store. -/
theorem told_step {s s' : State} {op : Op} {o : Obs} (h : modelOp s op = some (s', o)) :
    o.closed.length = if s.es then ended s.mode op o else 0 := by
  rcases op_trichotomy op with ⟨ref, u, k, rfl⟩ | ⟨k, rfl⟩ | he | ⟨hp, hr, hq⟩
  · simp only [modelOp] at h
    split at h
    · rename_i hc
      simp at hc h
      obtain ⟨h1, h2⟩ := h
      subst h1; subst h2
      simp [rejectObs, ended, served, hc.1, hc.2]
    · rename_i hc
      simp at hc
      have hserved : served s.mode (.post ref u k) = true := by
        simp only [served]
        cases hm : s.mode
        · simp
        · by_cases ha : ref = .absent
          · simp [ha]
          · exact absurd (hc hm) ha
      split at h
      · simp at h
      · rename_i nm hn
        cases k <;> simp at h <;> obtain ⟨h1, h2⟩ := h <;> subst h1 <;> subst h2 <;>
          simp [ended, hserved, told] <;> (try split) <;> simp
  · simp only [modelOp] at h
    split at h
    · simp at h; obtain ⟨h1, h2⟩ := h; subst h1; subst h2; simp [ended, served]
    · split at h
      · simp at h; obtain ⟨h1, h2⟩ := h; subst h1; subst h2
        simp [ended, served, told, List.filter_cons, isPostTag, cls_filter]; split <;> simp
      · simp at h; obtain ⟨h1, h2⟩ := h; subst h1; subst h2; simp [ended, served]
  · obtain ⟨_, _, _, _, _, _, _, hd, hc, hs, _, _⟩ := env_cases h he
    simp [hc, ended, hs, hd]
  · have hc := quiet_closed h hp hr hq
    have hd := (quiet_cases h hp hr hq).2.2.2.2.2.2.1
    have hs : served s.mode op = false := by
      cases op <;> simp [served]
      case post ref u k => exact absurd rfl (hp ref u k)
    simp [hc, ended, hs, hd]

/-! ## one step -/

theorem next_mono {s s' : State} {op : Op} {o : Obs} (h : modelOp s op = some (s', o)) : s.next ≤ s'.next := by
  rcases op_trichotomy op with ⟨ref, u, k, rfl⟩ | ⟨k, rfl⟩ | he | ⟨hp, hr, hq⟩
  · rcases post_cases h with ⟨_, _, _, _, hn⟩ | ⟨_, nm, _, hn, _⟩
    · omega
    · rw [hn]; split <;> omega
  · have := (release_cases h).2.1; omega
  · have := (env_cases h he).2.1; omega
  · rw [(quiet_cases h hp hr hq).1]; exact Nat.le_refl _

theorem good_step {s s' : State} {op : Op} {o : Obs} (g : Good s) (h : modelOp s op = some (s', o)) : Good s' := by
  have hmode := mode_step h
  have hmono := next_mono h
  rcases op_trichotomy op with ⟨ref, u, k, rfl⟩ | ⟨k, rfl⟩ | he | ⟨hp, hr, hq⟩
  · rcases post_cases h with ⟨_, _, _, hs, hn⟩ | ⟨hc, nm, hnm, hn, _, _, _, _, _, hslow, hfast⟩
    · exact ⟨by rw [hs, hn]; exact g.ord, by rw [hs, hmode]; exact g.empty⟩
    · by_cases hk : k = .slow
      · obtain ⟨_, _, slot, hs⟩ := hslow hk
        constructor
        · intro p hp
          rw [hs] at hp
          rcases List.mem_append.mp hp with hp | hp
          · exact Nat.le_trans (g.ord p hp) hmono
          · simp at hp; subst hp
            show nameOrd nm ≤ s'.next
            by_cases ha : ref = .absent
            · have := tempName_ord hnm
              rw [hn]
              by_cases hl : s.mode = .legacy
              · simp [hl, ha]; exact this
              · have hno : s.mode = .noIds := by cases hm : s.mode <;> simp_all
                subst ha
                simp [tempName, hno] at hnm
                subst hnm; simp [nameOrd]
            · exact Nat.le_trans (tempName_ord_ref hnm ha) hmono
        · intro hno p hp
          rw [hmode] at hno
          rw [hs] at hp
          rcases List.mem_append.mp hp with hp | hp
          · exact g.empty hno p hp
          · simp at hp; subst hp
            show nm = .e
            have ha : ref = .absent := by
              by_cases ha : ref = .absent
              · exact ha
              · exact absurd ⟨hno, ha⟩ hc
            subst ha
            simp [tempName, hno] at hnm
            exact hnm.symm
      · obtain ⟨hs, _, _⟩ := hfast hk
        exact ⟨fun p hp => by rw [hs] at hp; exact Nat.le_trans (g.ord p hp) hmono,
               fun hno p hp => by rw [hs] at hp; rw [hmode] at hno; exact g.empty hno p hp⟩
  · obtain ⟨_, _, _, _, _, _, _, _, hsub, _⟩ := release_cases h
    exact ⟨fun p hp => Nat.le_trans (g.ord p (hsub p hp)) hmono,
           fun hno p hp => by rw [hmode] at hno; exact g.empty hno p (hsub p hp)⟩
  · obtain ⟨hs, hn, _⟩ := env_cases h he
    exact ⟨fun p hp => by rw [hs] at hp; rw [hn]; exact g.ord p hp,
           fun hno p hp => by rw [hs] at hp; rw [hmode] at hno; exact g.empty hno p hp⟩
  · rw [(quiet_cases h hp hr hq).1]; exact g

/-- **Nothing is kept** and **the server lists exactly the POSTs in progress**: after every operation the
handler's table is empty, no idle timer exists, and `Server.Sessions()` is the list of the temporary sessions
whose POST has not ended — a temporary session is closed and forgotten when its POST ends. -/
theorem nothing_kept_step {s s' : State} {op : Op} {o : Obs} (h : modelOp s op = some (s', o)) :
    o.map = [] ∧ o.stale = [] ∧ o.srv = names s' := by
  rcases op_trichotomy op with ⟨ref, u, k, rfl⟩ | ⟨k, rfl⟩ | he | ⟨hp, hr, hq⟩
  · rcases post_cases h with ⟨_, _, ho, _, _⟩ | ⟨_, nm, _, _, _, hm, hst, hsrv, _⟩
    · subst ho; simp [rejectObs]
    · exact ⟨hm, hst, hsrv⟩
  · obtain ⟨_, _, _, _, hm, hst, hsrv, _⟩ := release_cases h
    exact ⟨hm, hst, hsrv⟩
  · obtain ⟨_, _, _, _, hm, hst, hsrv, _⟩ := env_cases h he
    exact ⟨hm, hst, hsrv⟩
  · obtain ⟨hs, _, _, hm, hst, hsrv, _⟩ := quiet_cases h hp hr hq
    rw [hs]; exact ⟨hm, hst, hsrv⟩

theorem closing_post {s s' : State} {o : Obs} {ref : Ref} {u : UserTok} {k : PKind}
    (h : modelOp s (.post ref u k) = some (s', o)) : s'.closing = s.closing := by
  simp only [modelOp] at h
  split at h
  · simp at h; rw [← h.1]; split <;> rfl
  · split at h
    · simp at h
    · cases k <;> simp at h <;> rw [← h.1] <;> (repeat' split) <;> rfl

/-- What is in progress (parked POSTs and server-side `Close()` calls that wait for one) is counted by the answers:
one more for each `pending`, one less for each completion. -/
theorem inprog_step {s s' : State} {op : Op} {o : Obs} (h : modelOp s op = some (s', o)) :
    s'.slow.length + s'.closing.length + o.done.length ≤
      s.slow.length + s.closing.length + (if o.status = .pending then 1 else 0) := by
  rcases op_trichotomy op with ⟨ref, u, k, rfl⟩ | ⟨k, rfl⟩ | he | ⟨hp, hr, hq⟩
  · have hcl := closing_post h
    rcases post_cases h with ⟨_, _, ho, hs, _⟩ | ⟨_, nm, _, _, _, _, _, _, hd, hslow, hfast⟩
    · subst ho; simp [rejectObs, hs, hcl]
    · by_cases hk : k = .slow
      · obtain ⟨hst, _, slot, hs⟩ := hslow hk
        simp [hd, hst, hs, hcl]; omega
      · obtain ⟨hs, _, _⟩ := hfast hk
        simp [hd, hs, hcl]
  · have := (release_cases h).2.2.2.2.2.2.2.2.2
    omega
  · obtain ⟨hs, _, _, _, _, _, _, hd, _, _, _, hc⟩ := env_cases h he
    rw [hs, hd, hc]; simp; omega
  · obtain ⟨hs, _, _, _, _, _, hd, _⟩ := quiet_cases h hp hr hq
    simp [hs, hd]

/-- `noIds` **neither issues nor shows an id**: no `Mcp-Session-Id`, every handler runs on a session without id,
every server session is one without id. -/
theorem noids_step {s s' : State} {op : Op} {o : Obs} (hm : s.mode = .noIds) (g : Good s)
    (h : modelOp s op = some (s', o)) :
    o.hdr = none ∧ (∀ l ∈ o.log, l.sess = .e) ∧ (∀ n ∈ o.srv, n = .e) := by
  have g' := good_step g h
  have hm' : s'.mode = .noIds := by rw [mode_step h]; exact hm
  have hsrv : ∀ n ∈ o.srv, n = .e := by
    rw [(nothing_kept_step h).2.2]
    intro n hn
    simp [names] at hn
    obtain ⟨p, hp, rfl⟩ := hn
    exact g'.empty hm' p hp
  refine ⟨?_, ?_, hsrv⟩
  · rcases op_trichotomy op with ⟨ref, u, k, rfl⟩ | ⟨k, rfl⟩ | he | ⟨hp, hr, hq⟩
    · rcases post_cases h with ⟨_, _, ho, _, _⟩ | ⟨hc, nm, hnm, _, _, _, _, _, _, hslow, hfast⟩
      · subst ho; simp [rejectObs]
      · by_cases hk : k = .slow
        · exact (hslow hk).2.1
        · have ha : ref = .absent := by
            by_cases ha : ref = .absent
            · exact ha
            · exact absurd ⟨hm, ha⟩ hc
          subst ha
          simp [tempName, hm] at hnm
          subst hnm
          rw [(hfast hk).2.1]
          cases k <;> simp [hdrOf]
    · exact (release_cases h).2.2.1
    · exact (env_cases h he).2.2.1
    · exact (quiet_cases h hp hr hq).2.1
  · rcases op_trichotomy op with ⟨ref, u, k, rfl⟩ | ⟨k, rfl⟩ | he | ⟨hp, hr, hq⟩
    · rcases post_cases h with ⟨_, _, ho, _, _⟩ | ⟨hc, nm, hnm, _, hl, _⟩
      · subst ho; simp [rejectObs]
      · have ha : ref = .absent := by
          by_cases ha : ref = .absent
          · exact ha
          · exact absurd ⟨hm, ha⟩ hc
        subst ha
        simp [tempName, hm] at hnm
        subst hnm
        rw [hl]
        cases k <;> simp [logOf]
    · rw [(release_cases h).2.2.2.1]; simp
    · rw [(env_cases h he).2.2.2.1]; simp
    · rw [(quiet_cases h hp hr hq).2.2.1]; simp

/-- `noIds` **honours no id**: a POST, GET or DELETE that carries a session id is answered 404, reaches no
handler and leaves everything as it was. -/
theorem noids_ids_dead {s s' : State} {o : Obs} {op : Op} {ref : Ref} {u : UserTok} (hm : s.mode = .noIds)
    (hop : (∃ k, op = .post ref u k) ∨ op = .get ref u ∨ op = .delete ref u) (hr : ref ≠ .absent)
    (h : modelOp s op = some (s', o)) :
    o.status = .code 404 ∧ o.log = [] ∧ s'.slow = s.slow ∧ o.hdr = none := by
  rcases hop with ⟨k, rfl⟩ | rfl | rfl
  · rcases post_cases h with ⟨_, _, ho, hs, _⟩ | ⟨hc, _⟩
    · subst ho; exact ⟨by simp [rejectObs]; decide, by simp [rejectObs], hs, by simp [rejectObs]⟩
    · exact absurd ⟨hm, hr⟩ hc
  · simp [modelOp, hm, hr] at h
    obtain ⟨h1, h2⟩ := h; subst h1; subst h2
    exact ⟨by simp [rejectObs]; decide, by simp [rejectObs], rfl, by simp [rejectObs]⟩
  · simp [modelOp, hm, hr] at h
    obtain ⟨h1, h2⟩ := h; subst h1; subst h2
    exact ⟨by simp [rejectObs]; decide, by simp [rejectObs], rfl, by simp [rejectObs]⟩

/-- `legacy`: an `Mcp-Session-Id` is only on the answer to an `initialize`, and it names the session **the request
named**; when the request named none it is the id minted for this request — larger than every id minted before,
hence the name of no earlier session. -/
theorem legacy_hdr {s s' : State} {op : Op} {o : Obs} {h : Name} (hm : s.mode = .legacy)
    (hs : modelOp s op = some (s', o)) (hh : o.hdr = some h) :
    ∃ ref u k, op = .post ref u k ∧ isInit k = true ∧ (∀ n, ref.name = some n → h = n) ∧
      (ref = .absent → h = .s (s.next + 1) ∧ s'.next = s.next + 1) := by
  rcases op_trichotomy op with ⟨ref, u, k, rfl⟩ | ⟨k, rfl⟩ | he | ⟨hp, hr, hq⟩
  · refine ⟨ref, u, k, rfl, ?_⟩
    rcases post_cases hs with ⟨hno, _⟩ | ⟨_, nm, hnm, hn, _, _, _, _, _, hslow, hfast⟩
    · rw [hm] at hno; cases hno
    · by_cases hk : k = .slow
      · rw [(hslow hk).2.1] at hh; cases hh
      · rw [(hfast hk).2.1] at hh
        have hi : isInit k = true ∧ h = nm := by
          cases k <;> simp [hdrOf] at hh <;> simp [isInit] <;> exact hh.2.symm
        obtain ⟨hi, rfl⟩ := hi
        refine ⟨hi, ?_, ?_⟩
        · intro n hn
          cases ref with
          | absent => simp [Ref.name] at hn
          | s j =>
            simp [Ref.name] at hn; subst hn
            simp only [tempName] at hnm
            split at hnm <;> simp at hnm
            exact hnm.symm
          | x j =>
            simp [Ref.name] at hn; subst hn
            simp [tempName] at hnm; exact hnm.symm
        · intro ha
          subst ha
          simp [tempName, hm] at hnm
          exact ⟨hnm.symm, by rw [hn]; simp [hm]⟩
  · rw [(release_cases hs).2.2.1] at hh; cases hh
  · rw [(env_cases hs he).2.2.1] at hh; cases hh
  · rw [(quiet_cases hs hp hr hq).2.1] at hh; cases hh

/-- `legacy`: every POST without a session id consumes a fresh id of `GetSessionID` (whether or not the answer
names it). -/
theorem legacy_mints_per_post {s s' : State} {o : Obs} {u : UserTok} {k : PKind} (hm : s.mode = .legacy)
    (h : modelOp s (.post .absent u k) = some (s', o)) : s'.next = s.next + 1 := by
  rcases post_cases h with ⟨hno, _⟩ | ⟨_, nm, _, hn, _⟩
  · rw [hm] at hno; cases hno
  · rw [hn]; simp [hm]

/-- `legacy`: DELETE is a no-op that only demands an id (204 with, 400 without); GET and other methods are
refused with 405; none of them changes anything or reaches a handler. -/
theorem legacy_delete_noop {s s' : State} {o : Obs} {ref : Ref} {u : UserTok} (hm : s.mode = .legacy)
    (h : modelOp s (.delete ref u) = some (s', o)) :
    s' = s ∧ o.status = .code (if ref = .absent then 400 else 204) ∧ o.log = [] := by
  simp [modelOp, hm] at h
  obtain ⟨h1, h2⟩ := h; subst h1; subst h2
  refine ⟨rfl, ?_, by simp [rejectObs]⟩
  by_cases ha : ref = .absent <;> simp [rejectObs, ha] <;> decide

theorem legacy_405 {s s' : State} {o : Obs} {ref : Ref} {u : UserTok} {op : Op} (hm : s.mode = .legacy)
    (hop : op = .get ref u ∨ op = .other ref u) (h : modelOp s op = some (s', o)) :
    s' = s ∧ o.status = .code 405 ∧ o.log = [] := by
  rcases hop with rfl | rfl <;> simp [modelOp, hm] at h <;> obtain ⟨h1, h2⟩ := h <;> subst h1 <;> subst h2 <;>
    exact ⟨rfl, by simp [rejectObs]; decide, by simp [rejectObs]⟩

/-- A handler runs on the temporary session of its own request, with the identity the request carried. -/
theorem log_routed {s s' : State} {o : Obs} {ref : Ref} {u : UserTok} {k : PKind}
    (h : modelOp s (.post ref u k) = some (s', o)) :
    ∀ l ∈ o.log, tempName s ref = some l.sess ∧ l.who = .tok u := by
  rcases post_cases h with ⟨_, _, ho, _, _⟩ | ⟨_, nm, hnm, _, hl, _⟩
  · subst ho; simp [rejectObs]
  · rw [hl]
    intro l hl
    cases k <;> simp [logOf] at hl <;> subst hl <;> exact ⟨hnm, rfl⟩

/-! ## all histories -/

/-- Every element of an observation trace is one step of the model from a state that satisfies the invariant and
has the configuration the trace started with. -/
theorem trace_mem {s : State} (g : Good s) {ops : List Op} {p : Op × Obs} (hp : p ∈ modelTraceFrom s ops) :
    ∃ s0 s1, Good s0 ∧ s0.mode = s.mode ∧ modelOp s0 p.1 = some (s1, p.2) := by
  induction ops generalizing s with
  | nil => simp [modelTraceFrom] at hp
  | cons op ops ih =>
    simp only [modelTraceFrom] at hp
    split at hp
    · rename_i s' o hs
      rcases List.mem_cons.mp hp with rfl | hp
      · exact ⟨s, s', g, rfl, hs⟩
      · obtain ⟨s0, s1, g0, hm0, h0⟩ := ih (good_step g hs) hp
        exact ⟨s0, s1, g0, by rw [hm0, mode_step hs], h0⟩
    · exact ih g hp

/-- **C11 on an endpoint that keeps no session, over all histories**: whatever the requests, the handler's table
stays empty and no idle timer ever exists. -/
theorem eph_nothing_kept (m : Mode) (es : Bool) (ops : List Op) :
    ∀ p ∈ modelTrace m es ops, p.2.map = [] ∧ p.2.stale = [] := by
  intro p hp
  obtain ⟨s0, s1, _, _, h⟩ := trace_mem (good_init m es) hp
  exact ⟨(nothing_kept_step h).1, (nothing_kept_step h).2.1⟩

/-- **`GetSessionID` returning "" (all histories)**: no response carries an `Mcp-Session-Id`, no handler and no
server session ever has an id, and every POST / GET / DELETE that carries a session id is answered 404 without
reaching a handler — no id is minted, so none is honoured. -/
theorem noids_neither_issues_nor_honours (es : Bool) (ops : List Op) :
    ∀ p ∈ modelTrace .noIds es ops,
      p.2.hdr = none ∧ (∀ l ∈ p.2.log, l.sess = .e) ∧ (∀ n ∈ p.2.srv, n = .e) ∧
      (∀ ref u, ref ≠ .absent → ((∃ k, p.1 = .post ref u k) ∨ p.1 = .get ref u ∨ p.1 = .delete ref u) →
        p.2.status = .code 404 ∧ p.2.log = []) := by
  intro p hp
  obtain ⟨s0, s1, g0, hm0, h⟩ := trace_mem (good_init .noIds es) hp
  have hm : s0.mode = .noIds := hm0
  obtain ⟨a, b, c⟩ := noids_step hm g0 h
  refine ⟨a, b, c, ?_⟩
  intro ref u hr hop
  have := noids_ids_dead hm hop hr h
  exact ⟨this.1, this.2.1⟩

/-- **The compatibility mode of a stateless endpoint (all histories)**: an `Mcp-Session-Id` appears only on the
answer to an `initialize` and names the session the request named; DELETE answers 204 / 400 and GET / other
methods 405 without any effect; handlers run on the session of their own request. -/
theorem legacy_answers (es : Bool) (ops : List Op) :
    ∀ p ∈ modelTrace .legacy es ops,
      (∀ h, p.2.hdr = some h → ∃ ref u k, p.1 = .post ref u k ∧ isInit k = true ∧ (∀ n, ref.name = some n → h = n)) ∧
      (∀ ref u, p.1 = .delete ref u → p.2.status = .code (if ref = .absent then 400 else 204) ∧ p.2.log = []) ∧
      (∀ ref u, p.1 = .get ref u ∨ p.1 = .other ref u → p.2.status = .code 405 ∧ p.2.log = []) ∧
      (∀ ref u k n, p.1 = .post ref u k → ref.name = some n → ∀ l ∈ p.2.log, l.sess = n ∧ l.who = .tok u) := by
  intro p hp
  obtain ⟨s0, s1, g0, hm0, h⟩ := trace_mem (good_init .legacy es) hp
  have hm : s0.mode = .legacy := hm0
  refine ⟨?_, ?_, ?_, ?_⟩
  · intro hd hh
    obtain ⟨ref, u, k, e, hi, hn, _⟩ := legacy_hdr hm h hh
    exact ⟨ref, u, k, e, hi, hn⟩
  · intro ref u e
    rw [e] at h
    exact (legacy_delete_noop hm h).2
  · intro ref u e
    exact (legacy_405 hm e h).2
  · intro ref u k n e hn l hl
    rw [e] at h
    obtain ⟨ht, hw⟩ := log_routed h l hl
    refine ⟨?_, hw⟩
    cases ref with
    | absent => simp [Ref.name] at hn
    | s j =>
      simp [Ref.name] at hn; subst hn
      simp only [tempName] at ht
      split at ht <;> simp at ht
      exact ht.symm
    | x j =>
      simp [Ref.name] at hn; subst hn
      simp [tempName] at ht; exact ht.symm

/-- The ordinal of the id that the answer to a POST without a session id names. -/
def mintOf (p : Op × Obs) : Option Nat :=
  match p.1 with
  | .post .absent _ _ => p.2.hdr.map nameOrd
  | _ => none

def mintedOrds (t : List (Op × Obs)) : List Nat := t.filterMap mintOf

theorem minted_from {s : State} (hm : s.mode = .legacy) (ops : List Op) :
    (∀ n ∈ mintedOrds (modelTraceFrom s ops), s.next < n) ∧
    (mintedOrds (modelTraceFrom s ops)).Pairwise (· < ·) := by
  induction ops generalizing s with
  | nil => simp [modelTraceFrom, mintedOrds]
  | cons op ops ih =>
    simp only [modelTraceFrom]
    split
    · rename_i s' o hs
      have hm' : s'.mode = .legacy := by rw [mode_step hs]; exact hm
      obtain ⟨ih1, ih2⟩ := ih hm'
      have hmono := next_mono hs
      simp only [mintedOrds, List.filterMap_cons]
      cases hmint : mintOf (op, o) with
      | none =>
        exact ⟨fun n hn => Nat.lt_of_le_of_lt hmono (ih1 n hn), ih2⟩
      | some k =>
        -- the head answer names the id minted for it
        have hk : k = s.next + 1 ∧ s'.next = s.next + 1 := by
          simp only [mintOf] at hmint
          split at hmint
          · rename_i u kk
            cases hh : o.hdr with
            | none => simp [hh] at hmint
            | some h =>
              simp [hh] at hmint
              obtain ⟨_, _, _, e, _, _, f⟩ := legacy_hdr hm hs hh
              cases e
              obtain ⟨rfl, n1⟩ := f rfl
              simp [nameOrd] at hmint
              exact ⟨hmint.symm, n1⟩
          · simp at hmint
        obtain ⟨rfl, hn'⟩ := hk
        refine ⟨?_, ?_⟩
        · intro n hn
          rcases List.mem_cons.mp hn with rfl | hn
          · omega
          · have := ih1 n hn; omega
        · exact List.pairwise_cons.mpr ⟨fun n hn => by have := ih1 n hn; omega, ih2⟩
    · exact ih hm

/-- **Minted ids are fresh (all histories)**: along every run of the compatibility mode the ids named by the
answers to POSTs without a session id are strictly increasing in the order of `GetSessionID`'s calls — two such
answers never name the same session. -/
theorem legacy_minted_fresh (es : Bool) (ops : List Op) : (mintedOrds (modelTrace .legacy es ops)).Pairwise (· < ·) :=
  (minted_from (s := { mode := .legacy, es := es }) rfl ops).2

/-! ## the bridge: the monitor is silent on the model -/

theorem temp_le_next {s : State} {ref : Ref} {nm : Name} (hnm : tempName s ref = some nm) :
    nameOrd nm ≤ (if s.mode = .legacy ∧ ref = .absent then s.next + 1 else s.next) := by
  by_cases ha : ref = .absent
  · subst ha
    cases hm : s.mode <;> simp [tempName, hm] at hnm <;> subst hnm <;> simp [nameOrd]
  · have := tempName_ord_ref hnm ha
    simp [ha]; exact this

theorem foldl_max_le {l : List Name} {a b : Nat} (ha : a ≤ b) (hl : ∀ n ∈ l, nameOrd n ≤ b) :
    l.foldl (fun a n => max a (nameOrd n)) a ≤ b := by
  induction l generalizing a with
  | nil => simpa using ha
  | cons x t ih =>
    simp only [List.foldl_cons]
    apply ih
    · exact Nat.max_le.mpr ⟨ha, hl x (by simp)⟩
    · intro n hn; exact hl n (by simp [hn])

theorem maxOrd_le {l : List Name} {b : Nat} (hl : ∀ n ∈ l, nameOrd n ≤ b) : maxOrd l ≤ b :=
  foldl_max_le (Nat.zero_le _) hl

/-- Everything an observation of the model shows (header, handlers' sessions, server sessions) has been minted. -/
theorem shown_le_next {s s' : State} {op : Op} {o : Obs} (g : Good s) (h : modelOp s op = some (s', o)) :
    (∀ hd, o.hdr = some hd → nameOrd hd ≤ s'.next) ∧ (∀ l ∈ o.log, nameOrd l.sess ≤ s'.next) ∧
    (∀ n ∈ o.srv, nameOrd n ≤ s'.next) := by
  have g' := good_step g h
  have hsrv : ∀ n ∈ o.srv, nameOrd n ≤ s'.next := by
    rw [(nothing_kept_step h).2.2]
    intro n hn
    simp [names] at hn
    obtain ⟨p, hp, rfl⟩ := hn
    exact g'.ord p hp
  rcases op_trichotomy op with ⟨ref, u, k, rfl⟩ | ⟨k, rfl⟩ | he | ⟨hp, hr, hq⟩
  · rcases post_cases h with ⟨_, _, ho, _, _⟩ | ⟨_, nm, hnm, hn, hl, _, _, _, _, hslow, hfast⟩
    · subst ho; exact ⟨by simp [rejectObs], by simp [rejectObs], hsrv⟩
    · have hnm' : nameOrd nm ≤ s'.next := by rw [hn]; exact temp_le_next hnm
      refine ⟨?_, ?_, hsrv⟩
      · intro hd hh
        by_cases hk : k = .slow
        · rw [(hslow hk).2.1] at hh; cases hh
        · rw [(hfast hk).2.1] at hh
          have : hd = nm := by cases k <;> simp [hdrOf] at hh <;> exact hh.2.symm
          subst this; exact hnm'
      · rw [hl]; intro l hl
        have : l.sess = nm := by cases k <;> simp [logOf] at hl <;> subst hl <;> rfl
        rw [this]; exact hnm'
  · obtain ⟨_, _, hh, hl, _⟩ := release_cases h
    exact ⟨by simp [hh], by simp [hl], hsrv⟩
  · obtain ⟨_, _, hh, hl, _⟩ := env_cases h he
    exact ⟨by simp [hh], by simp [hl], hsrv⟩
  · obtain ⟨_, hh, hl, _⟩ := quiet_cases h hp hr hq
    exact ⟨by simp [hh], by simp [hl], hsrv⟩

/-- The monitor's bookkeeping follows the model. -/
structure Rel (s : State) (ms : MState) : Prop where
  mode : ms.mode = s.mode
  es : ms.es = s.es
  inprog : s.slow.length + s.closing.length ≤ ms.inprog
  seen : ms.seen ≤ s.next

theorem answer_model {s s' : State} {op : Op} {o : Obs} (h : modelOp s op = some (s', o)) :
    chkAnswer s.mode op o.status = none := by
  rcases op_trichotomy op with ⟨ref, u, k, rfl⟩ | ⟨k, rfl⟩ | he | ⟨hp, hr, hq⟩
  · rcases post_cases h with ⟨hm, hr, ho, _, _⟩ | ⟨hc, nm, _, _, _, _, _, _, _, hslow, hfast⟩
    · subst ho; simp [chkAnswer, hm, hr, rejectObs]
    · have hc' : ¬(s.mode = .noIds ∧ ref ≠ .absent) := hc
      by_cases hk : k = .slow
      · simp only [chkAnswer]
        rw [(hslow hk).1]
        split
        · rename_i hx; simp at hx; exact absurd hx hc'
        · simp
      · simp only [chkAnswer]
        rw [(hfast hk).2.2]
        split
        · rename_i hx; simp at hx; exact absurd hx hc'
        · split <;> simp
  · simp [chkAnswer]
  · exact (env_cases h he).2.2.2.2.2.2.2.2.2.2.1
  · cases op <;> simp only [modelOp] at h
    case post ref u k => exact absurd rfl (hp ref u k)
    case release k => exact absurd rfl (hr k)
    case get ref u =>
      cases hm : s.mode <;> simp [hm] at h <;> obtain ⟨_, h2⟩ := h <;> subst h2 <;> simp [chkAnswer, rejectObs]
      · decide
      · split <;> simp_all <;> decide
    case delete ref u =>
      cases hm : s.mode <;> simp [hm] at h <;> obtain ⟨_, h2⟩ := h <;> subst h2 <;> simp [chkAnswer, rejectObs] <;>
        split <;> simp_all <;> decide
    case other ref u =>
      cases hm : s.mode <;> simp [hm] at h <;> obtain ⟨_, h2⟩ := h <;> subst h2 <;> simp [chkAnswer, rejectObs] <;> decide
    case tick n => simp [chkAnswer]
    case fault f => simp [chkAnswer]
    case abandon k => simp [chkAnswer]
    case close ref => simp [isEnv] at hq
    all_goals simp at h

theorem hdr_model {s s' : State} {ms : MState} {op : Op} {o : Obs} (g : Good s) (r : Rel s ms)
    (h : modelOp s op = some (s', o)) : chkHdr ms op o.hdr = none := by
  cases hh : o.hdr with
  | none => simp [chkHdr]
  | some hd =>
    cases hm : s.mode with
    | noIds => rw [(noids_step hm g h).1] at hh; cases hh
    | legacy =>
      obtain ⟨ref, u, k, rfl, hi, hn, ha⟩ := legacy_hdr hm h hh
      have hmm : ms.mode = .legacy := by rw [r.mode]; exact hm
      simp only [chkHdr, hmm, hi]
      cases hrn : ref.name with
      | some n => simp [hn n hrn]
      | none =>
        have : ref = .absent := by cases ref <;> simp [Ref.name] at hrn; rfl
        obtain ⟨rfl, _⟩ := ha this
        have := r.seen
        simp [nameOrd]; omega

theorem log_model {s s' : State} {op : Op} {o : Obs} (g : Good s) (h : modelOp s op = some (s', o)) :
    chkLog s.mode op o.log = none := by
  by_cases he : o.log = []
  · simp [chkLog, he]
  · rcases op_trichotomy op with ⟨ref, u, k, rfl⟩ | ⟨k, rfl⟩ | hev | ⟨hp, hr, hq⟩
    · rcases post_cases h with ⟨_, _, ho, _, _⟩ | ⟨hc, nm, hnm, _, hl, _⟩
      · subst ho; simp [rejectObs] at he
      · have hserved : served s.mode (.post ref u k) = true := by
          simp only [served]
          cases hm : s.mode
          · simp
          · by_cases ha : ref = .absent
            · simp [ha]
            · exact absurd ⟨hm, ha⟩ hc
        have hne : o.log.isEmpty = false := by cases hlog : o.log <;> simp_all
        simp only [chkLog, hne, hserved]
        cases hm : s.mode with
        | noIds =>
          have := (noids_step hm g h).2.1
          simp
          intro l hl; exact this l hl
        | legacy =>
          simp
          cases hrn : ref.name with
          | none => simp
          | some n =>
            simp
            intro l hl
            have ht := (log_routed h l hl).1
            cases ref with
            | absent => simp [Ref.name] at hrn
            | s j =>
              simp [Ref.name] at hrn; subst hrn
              simp only [tempName] at ht
              split at ht <;> simp at ht
              exact ht.symm
            | x j =>
              simp [Ref.name] at hrn; subst hrn
              simp [tempName] at ht; exact ht.symm
    · exact absurd (release_cases h).2.2.2.1 he
    · exact absurd (env_cases h hev).2.2.2.1 he
    · exact absurd (quiet_cases h hp hr hq).2.2.1 he

theorem book_model {s s' : State} {ms : MState} {op : Op} {o : Obs} (r : Rel s ms)
    (h : modelOp s op = some (s', o)) : s'.slow.length + s'.closing.length ≤ bookInprog ms o := by
  have h1 := inprog_step h
  have h2 := r.inprog
  simp only [bookInprog]
  by_cases hp : o.status = .pending
  · simp [hp] at h1 ⊢; omega
  · have : (o.status == St.pending) = false := by simpa using hp
    simp [hp, this] at h1 ⊢; omega

theorem kept_model {s s' : State} {ms : MState} {op : Op} {o : Obs} (g : Good s) (r : Rel s ms)
    (h : modelOp s op = some (s', o)) : chkKept ms o = none := by
  obtain ⟨hmap, hstale, hsrv⟩ := nothing_kept_step h
  have hb := book_model r h
  have hlen : o.srv.length = s'.slow.length := by rw [hsrv]; simp [names]
  simp only [chkKept, hmap, hstale]
  have : ¬ (o.srv.length > bookInprog ms o) := by omega
  simp [this]
  intro hm
  have hm' : s.mode = .noIds := by rw [← r.mode]; exact hm
  intro n hn
  exact (noids_step hm' g h).2.2 n hn

theorem told_model {s s' : State} {ms : MState} {op : Op} {o : Obs} (r : Rel s ms)
    (h : modelOp s op = some (s', o)) : chkTold ms op o = none := by
  simp only [chkTold, r.es, r.mode, told_step h]
  simp

theorem judge_model {s s' : State} {ms : MState} {op : Op} {o : Obs} (g : Good s) (r : Rel s ms)
    (h : modelOp s op = some (s', o)) : (judge ms op o).1 = none ∧ Rel s' (judge ms op o).2 := by
  constructor
  · simp only [judge]
    rw [told_model r h, r.mode, answer_model h, hdr_model g r h, log_model g h, kept_model g r h]
    simp [firstOf]
  · obtain ⟨a, b, c⟩ := shown_le_next g h
    have hmono := next_mono h
    refine ⟨by simp [judge, r.mode, mode_step h], by simp [judge, r.es, es_step h], by simpa [judge] using book_model r h, ?_⟩
    simp only [judge]
    refine Nat.max_le.mpr ⟨Nat.le_trans r.seen hmono, Nat.max_le.mpr ⟨?_, Nat.max_le.mpr ⟨?_, ?_⟩⟩⟩
    · apply maxOrd_le
      intro n hn
      cases hh : o.hdr with
      | none => simp [hh] at hn
      | some hd => simp [hh] at hn; rw [hn]; exact a hd hh
    · apply maxOrd_le
      intro n hn
      simp at hn
      obtain ⟨l, hl, rfl⟩ := hn
      exact b l hl
    · exact maxOrd_le c

theorem runJudge_model {s : State} {ms : MState} (g : Good s) (r : Rel s ms) (ops : List Op) :
    runJudge ms (modelTraceFrom s ops) = none := by
  induction ops generalizing s ms with
  | nil => simp [modelTraceFrom, runJudge]
  | cons op ops ih =>
    simp only [modelTraceFrom]
    split
    · rename_i s' o hs
      obtain ⟨h1, h2⟩ := judge_model g r hs
      simp only [runJudge]
      cases hj : judge ms op o with
      | mk v ms' =>
        rw [hj] at h1 h2
        simp at h1; subst h1
        exact ih (good_step g hs) h2
    · exact ih g r

/-- **The monitor is silent on the model**: over every operation history of either configuration, no clause of
the property monitor is violated by the model's own observations. -/
theorem eph_monitor_accepts_model (m : Mode) (es : Bool) (ops : List Op) :
    runJudge { mode := m, es := es } (modelTrace m es ops) = none :=
  runJudge_model (good_init m es) ⟨rfl, rfl, by simp, by simp⟩ ops

/-! ## soundness and completeness of the monitor: a clause is reported exactly when the property fails -/

/-- The answer C11 (for `legacy`: the documentation of the compatibility parameter) demands. -/
def AnswerOK (m : Mode) (op : Op) (st : St) : Prop :=
  match op with
  | .post ref _ _ =>
    if m = .noIds ∧ ref ≠ .absent then st = .code 404        -- an id that was never minted is not honoured
    else st = .code 200 ∨ st = .code 202 ∨ st = .pending      -- served by a temporary session
  | .get ref _ =>
    match m with
    | .legacy => st = .code 405
    | .noIds => if ref = .absent then st = .code 400 else st = .code 404
  | .delete ref _ =>
    match m with
    | .legacy => if ref = .absent then st = .code 400 else st = .code 204
    | .noIds => if ref = .absent then st = .code 400 else st = .code 404
  | .other _ _ => st = .code 405
  | _ => True

theorem or3_iff {a b c : Prop} [Decidable a] [Decidable b] : (¬a → ¬b → c) ↔ a ∨ b ∨ c := by
  by_cases ha : a <;> by_cases hb : b <;> simp [ha, hb]

theorem chkAnswer_iff (m : Mode) (op : Op) (st : St) : chkAnswer m op st = none ↔ AnswerOK m op st := by
  have e404 : stNotFound = 404 := by decide
  cases op <;> simp only [chkAnswer, AnswerOK]
  case post ref u k =>
    cases m <;> by_cases ha : ref = .absent <;> simp [ha, e404] <;> exact or3_iff
  case get ref u =>
    cases m <;> by_cases ha : ref = .absent <;> simp [ha, e404]
  case delete ref u =>
    cases m <;> by_cases ha : ref = .absent <;> simp [ha, e404]
  case other ref u => simp

/-- An `Mcp-Session-Id` may only be on the answer of the compatibility mode to an `initialize`; it names the
session the request named, or — the request named none — a session that nothing has shown before. -/
def HdrOK (ms : MState) (op : Op) (hdr : Option Name) : Prop :=
  ∀ h, hdr = some h → ms.mode = .legacy ∧ ∃ ref u k, op = .post ref u k ∧ isInit k = true ∧
    (∀ n, ref.name = some n → h = n) ∧ (ref.name = none → ms.seen < nameOrd h)

theorem chkHdr_iff (ms : MState) (op : Op) (hdr : Option Name) : chkHdr ms op hdr = none ↔ HdrOK ms op hdr := by
  cases hdr with
  | none => simp [chkHdr, HdrOK]
  | some h =>
    have hP : HdrOK ms op (some h) ↔ (ms.mode = .legacy ∧ ∃ ref u k, op = .post ref u k ∧ isInit k = true ∧
        (∀ n, ref.name = some n → h = n) ∧ (ref.name = none → ms.seen < nameOrd h)) := by
      simp only [HdrOK]
      constructor
      · intro hh; exact hh h rfl
      · intro hh h' e; cases e; exact hh
    rw [hP]
    simp only [chkHdr]
    cases hm : ms.mode with
    | noIds => simp
    | legacy =>
      cases op
      case post ref u k =>
        constructor
        · intro hc
          have hi : isInit k = true := by
            cases hi : isInit k
            · simp [hi] at hc
            · rfl
          refine ⟨rfl, ref, u, k, rfl, hi, ?_, ?_⟩
          · intro n hn; simp [hi, hn] at hc; exact hc
          · intro hn; simp [hi, hn] at hc; exact hc
        · rintro ⟨_, ref', u', k', e, hi, h1, h2⟩
          cases e
          simp only [hi]
          cases hrn : ref.name with
          | some n => simp [h1 n hrn]
          | none => simp; exact h2 hrn
      all_goals simp

/-- Handlers run only for requests a temporary session serves, and on that request's session. -/
def LogOK (m : Mode) (op : Op) (log : List LogEnt) : Prop :=
  log ≠ [] → served m op = true ∧ (m = .noIds → ∀ l ∈ log, l.sess = .e) ∧
    (m = .legacy → ∀ ref u k n, op = .post ref u k → ref.name = some n → ∀ l ∈ log, l.sess = n)

theorem chkLog_iff (m : Mode) (op : Op) (log : List LogEnt) : chkLog m op log = none ↔ LogOK m op log := by
  simp only [chkLog, LogOK]
  cases log with
  | nil => simp
  | cons l0 t =>
    simp only [List.isEmpty_cons, Bool.false_eq_true, if_false]
    cases hs : served m op
    · simp
    · cases m with
      | noIds => simp
      | legacy =>
        cases op <;> simp [served] at hs ⊢
        case post ref u k =>
          cases hrn : ref.name with
          | none =>
            simp
            intro r u' k' n e _ _ hn
            subst e; rw [hrn] at hn; cases hn
          | some n =>
            simp
            constructor
            · intro h r u' k' n' e _ _ hn
              subst e; rw [hrn] at hn; cases hn; exact h
            · intro h; exact h ref u k n rfl rfl rfl hrn

/-- Nothing is kept. -/
def KeptOK (ms : MState) (o : Obs) : Prop :=
  o.map = [] ∧ o.srv.length ≤ bookInprog ms o ∧ (ms.mode = .noIds → ∀ n ∈ o.srv, n = .e) ∧ o.stale = []

theorem chkKept_iff (ms : MState) (o : Obs) : chkKept ms o = none ↔ KeptOK ms o := by
  unfold chkKept KeptOK
  split
  · rename_i h; simp at h; simp [h]
  · rename_i h; simp at h
    split
    · rename_i h2; simp [h]; intro; omega
    · rename_i h2
      split
      · rename_i h3; simp at h3
        obtain ⟨hm, x, hx, hne⟩ := h3
        simp [h]
        intro _ hall; exact absurd (hall hm x hx) hne
      · rename_i h3
        split
        · rename_i h4; simp at h4; simp [h, h4]
        · rename_i h4; simp at h4; simp at h3
          simp [h, h4]; exact ⟨by omega, h3⟩

/-- The event store hears of every temporary session that ends, once. -/
def ToldOK (ms : MState) (op : Op) (o : Obs) : Prop :=
  o.closed.length = if ms.es then ended ms.mode op o else 0

theorem chkTold_iff (ms : MState) (op : Op) (o : Obs) : chkTold ms op o = none ↔ ToldOK ms op o := by
  simp [chkTold, ToldOK]

theorem firstOf_none {l : List (Option EClause)} : firstOf l = none ↔ ∀ x ∈ l, x = none := by
  induction l with
  | nil => simp [firstOf]
  | cons a t ih => cases a <;> simp [firstOf, ih]

/-- **Sound and complete**: the monitor reports a clause on an observation of the implementation exactly when
that observation fails one of the four statements of the property (`AnswerOK`, `HdrOK`, `LogOK`, `KeptOK`). -/
theorem eph_monitor_silent_iff (ms : MState) (op : Op) (o : Obs) :
    (judge ms op o).1 = none ↔
      AnswerOK ms.mode op o.status ∧ HdrOK ms op o.hdr ∧ LogOK ms.mode op o.log ∧ KeptOK ms o ∧ ToldOK ms op o := by
  simp only [judge, firstOf_none]
  simp [chkAnswer_iff, chkHdr_iff, chkLog_iff, chkKept_iff, chkTold_iff]

/-- the soundness half: a reported clause refutes the property on that observation -/
theorem eph_monitor_sound (ms : MState) (op : Op) (o : Obs) (c : EClause) (h : (judge ms op o).1 = some c) :
    ¬(AnswerOK ms.mode op o.status ∧ HdrOK ms op o.hdr ∧ LogOK ms.mode op o.log ∧ KeptOK ms o ∧ ToldOK ms op o) := by
  intro hp
  rw [(eph_monitor_silent_iff ms op o).mpr hp] at h
  cases h

/-- non-vacuity: the monitor does report — an id honoured by `noIds`, an `Mcp-Session-Id` issued by it, a session
kept by `legacy`, a foreign name in its answer. -/
example : (judge { mode := .noIds } (.get (.x 1) .anon) { status := .code 200 }).1 = some (.unknownHonoured .get (.code 200)) := by decide
example : (judge { mode := .noIds } (.post .absent .anon .init) { status := .code 200, hdr := some (.s 1) }).1 = some .issued := by decide
example : (judge { mode := .legacy } (.post (.x 1) .anon .init) { status := .code 200, hdr := some (.x 2) }).1 = some .hdrDifferent := by decide
example : (judge { mode := .legacy } (.delete (.x 1) .anon) { status := .code 204, srv := [.x 1] }).1 = some .notClosed := by decide

/-! ## totality of the replay -/

/-- The operations of these configurations' alphabet (what the harness generates for them). -/
def inScope (s : State) : Op → Bool
  | .post (.s k) _ _ => s.mode == .noIds || (1 ≤ k && k ≤ s.next)
  | .post _ _ _ | .release _ | .get _ _ | .delete _ _ | .other _ _ | .tick _ | .fault _ | .abandon _ => true
  | _ => false

/-- **The replay is total on the alphabet**: the model answers every operation in scope (so a `bad-op` of the
driver in a `legacy` / `noids` case can only come from an operation outside the alphabet). -/
theorem modelOp_total (s : State) (op : Op) (h : inScope s op = true) : ∃ r, modelOp s op = some r := by
  cases op <;> simp only [inScope] at h <;> simp only [modelOp]
  case post ref u k =>
    cases hm : s.mode <;> cases ref <;> simp [hm, tempName] at h ⊢
    all_goals first
      | (cases k <;> simp)
      | (split <;> first | (cases k <;> simp) | skip)
    all_goals simp_all
  case release k => split <;> (try split) <;> simp
  case get ref u => cases s.mode <;> simp
  case delete ref u => cases s.mode <;> simp
  case other ref u => cases s.mode <;> simp
  case tick n => simp
  case fault f => simp
  case abandon k => simp
  all_goals simp at h

/-- **All histories**: on an endpoint that keeps no session, with an event store, `SessionClosed` is called once for
every temporary session that ends and never otherwise; without a store never. -/
theorem eph_store_told (m : Mode) (es : Bool) (ops : List Op) :
    ∀ p ∈ modelTrace m es ops, p.2.closed.length = if es then ended m p.1 p.2 else 0 := by
  intro p hp
  have key : ∀ (s : State) (ops : List Op), s.mode = m → s.es = es → ∀ p ∈ modelTraceFrom s ops,
      p.2.closed.length = if es then ended m p.1 p.2 else 0 := by
    intro s ops
    induction ops generalizing s with
    | nil => intro _ _ p hp; simp [modelTraceFrom] at hp
    | cons op ops ih =>
      intro hm he p hp
      simp only [modelTraceFrom] at hp
      split at hp
      · rename_i s' o hs
        rcases List.mem_cons.mp hp with rfl | hp
        · have := told_step hs
          rw [hm, he] at this; exact this
        · exact ih s' (by rw [mode_step hs]; exact hm) (by rw [es_step hs]; exact he) p hp
      · exact ih s hm he p hp
  exact key { mode := m, es := es } ops rfl rfl p hp

end Sessions.Eph
