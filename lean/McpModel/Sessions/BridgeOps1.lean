import McpModel.Sessions.BridgeQuiet
/-!
Bridge (E7/C11): the operations GET, other methods, refused requests and no-ops.
-/
namespace Sessions

/-- a record that leaves the replay state alone (but for the counters) -/
theorem replayOp_quiet {cfg : Cfg} {d : RState} {m : Mon} (hs : Sim cfg d m) {op : Op} {mo : ROut}
    (hmo : modelOp d op = some mo) (h1 : mo.st = d.st) (h2 : mo.pend = d.pend) (h3 : mo.done = [])
    (h4 : mo.log = []) (h5 : mo.hdr = none) (h6 : mo.released = d.released) :
    replayOp d op = some ({ d with nslow := mo.nslow, nasync := mo.nasync },
      { status := mo.status, hang := mo.hang, map := showMap d.st, srv := showSrv d.st, stale := showStale d.st }) := by
  simp only [replayOp, hmo, h1, h2, h3, h4, h5, h6, hs.settle, hs.pok.completions, List.append_nil]

/-- `lookupSession` on the model's table, read on the monitor's -/
theorem lookup_mon {cfg : Cfg} {d : RState} {m : Mon} (hs : Sim cfg d m) {i : Nat} (hi : i < d.st.next) (u : UserTok) :
    match lookup d.st.tbl i u.user with
    | .error c => (c = 404 ∧ ∀ a, monFind m.tbl (sname i) = some a → a.life = .dead) ∨
                  (c = 403 ∧ ∃ a, monFind m.tbl (sname i) = some a ∧ a.life ≠ .dead ∧ entitled a.owner u = false)
    | .ok e => findSess i d.st.tbl = some e ∧ e.removed = false ∧
        ∃ a, monFind m.tbl (sname i) = some a ∧ a.life ≠ .dead ∧ entitled a.owner u = true ∧
          ERel cfg (nsOf d.pend i) (nrOf d.pend i) e a := by
  obtain ⟨e, hfe⟩ := findSess_of_lt hs.inv hi
  have hmem := (findSess_some hfe).1
  have hid := (findSess_some hfe).2
  have hk := hs.eok e hmem
  have hrel := hs.rel e hmem
  unfold RelAt at hrel
  rw [hid] at hrel hk
  unfold lookup
  rw [hfe]
  cases hr : e.removed with
  | true =>
    have him : e.inMap = false := by rw [hk.inMap, hr]; rfl
    simp only [him, Bool.not_false, if_true]
    left
    refine ⟨by decide, ?_⟩
    intro a ha
    rw [ha] at hrel
    exact hrel.removed hr
  | false =>
    have him : e.inMap = true := by rw [hk.inMap, hr]; rfl
    simp only [him, Bool.not_true, Bool.false_eq_true, if_false]
    cases hf : monFind m.tbl (sname i) with
    | none => rw [hf] at hrel; rw [hr] at hrel; cases hrel
    | some a =>
      rw [hf] at hrel
      have hnd : a.life ≠ .dead := fun hd => by have := hrel.dead hd; rw [hr] at this; cases this
      have hent := entitled_ownerOf e.owner u
      rw [← hrel.owner] at hent
      cases ho : e.owner with
      | none =>
        rw [ho] at hent
        exact ⟨rfl, hr, a, rfl, hnd, hent, hrel⟩
      | some x =>
        rw [ho] at hent
        simp only [] at hent ⊢
        by_cases hu : u.user = some x
        · rw [if_pos hu]
          exact ⟨rfl, hr, a, rfl, hnd, by rw [hent]; simp [hu], hrel⟩
        · rw [if_neg hu]
          right
          exact ⟨by decide, a, rfl, hnd, by rw [hent]; simp [hu]⟩

/-- the expected answer of a request that `lookupSession` refuses, or that names no minted id -/
theorem chkAnswer_refused {cfg : Cfg} {d : RState} {m : Mon} (hs : Sim cfg d m) (fl : Faults) (r : Req)
    (hv : r.verb ≠ .other) {i : Nat} {n : Name} (hn : r.ref.name = some n)
    (h : (d.st.next ≤ i ∧ monFind m.tbl n = none ∧ c = 404) ∨
         (i < d.st.next ∧ n = sname i ∧ lookup d.st.tbl i r.user.user = .error c)) :
    chkAnswer cfg fl m.tbl r (.code c) = none := by
  unfold chkAnswer
  rw [hs.stateful]
  have hv' : (r.verb == Verb.other) = false := by simp [hv]
  simp only [Bool.false_eq_true, if_false, hv', hn]
  rcases h with ⟨_, hf, hc⟩ | ⟨hi, hname, hl⟩
  · rw [hf, hc]; simp
  · have := lookup_mon hs hi r.user
    rw [hl] at this
    rw [hname]
    rcases this with ⟨hc, hdead⟩ | ⟨hc, a, ha, hnd, hent⟩
    · subst hc
      cases hf : monFind m.tbl (sname i) with
      | none => simp
      | some a => simp [hdead a hf]
    · subst hc
      rw [ha]
      simp only [hent]
      cases hl : a.life with
      | dead => exact absurd hl hnd
      | dying => simp
      | live => simp

/-- the expected answer of a request that `lookupSession` lets through -/
theorem chkAnswer_admitted {cfg : Cfg} {d : RState} {m : Mon} (hs : Sim cfg d m) (fl : Faults) (r : Req)
    (hv : r.verb ≠ .other) {i : Nat} (hi : i < d.st.next) (hn : r.ref.name = some (sname i)) {e : Sess}
    (hl : lookup d.st.tbl i r.user.user = .ok e) (st : St) (h403 : st ≠ .code 403) (h404 : st ≠ .code 404)
    (hok : (st.accepted2xx || (r.verb == .post && r.kind != some .notif && fl.reqOpen && st == .code 500) ||
            (r.verb == .get && fl.after && st == .code 400)) = true) :
    chkAnswer cfg fl m.tbl r st = none := by
  unfold chkAnswer
  rw [hs.stateful]
  have hv' : (r.verb == Verb.other) = false := by simp [hv]
  simp only [Bool.false_eq_true, if_false, hv', hn]
  have := lookup_mon hs hi r.user
  rw [hl] at this
  obtain ⟨_, _, a, ha, hnd, hent, _⟩ := this
  rw [ha]
  simp only [hent]
  have e403 : (st == St.code 403) = false := by simp [h403]
  have e404 : (st == St.code 404) = false := by simp [h404]
  cases hlf : a.life with
  | dead => exact absurd hlf hnd
  | dying => simp [e403]
  | live =>
    simp only [Bool.not_true, Bool.false_eq_true, if_false, e403, e404]
    rw [hok]; simp

/-- a quiet record, end to end -/
theorem sim_quiet_op {cfg : Cfg} {d d' : RState} {m : Mon} {o : Obs} (hs : Sim cfg d m) {op : Op} {mo : ROut}
    (hmo : modelOp d op = some mo) (h1 : mo.st = d.st) (h2 : mo.pend = d.pend) (h3 : mo.done = [])
    (h4 : mo.log = []) (h5 : mo.hdr = none) (h6 : mo.released = d.released)
    (hcnt : countersAfter m op mo.status = (mo.nslow, mo.nasync))
    (hans : chkAnswerO cfg (effFaults cfg m) m.tbl op.req mo.status = none)
    (hbook : bookAnswer cfg (effFaults cfg m) m.now (tagOf m op) m.tbl m.pend op mo.status = (m.tbl, m.pend))
    (hslots : bookSlots m.tbl m.pend m.run op mo.status = (m.tbl, m.run))
    (hnotick : nowAfter m op = m.now) (hfault : faultsAfter m op mo.status = m.faults)
    (hnoid : chkNoId cfg op.req mo.status none = false)
    (hns : d.nslow ≤ mo.nslow) (hna : d.nasync ≤ mo.nasync)
    (hop : replayOp d op = some (d', o)) :
    (monStep cfg m op o).viol = none ∧ Sim cfg d' (monStep cfg m op o).mon := by
  rw [replayOp_quiet hs hmo h1 h2 h3 h4 h5 h6] at hop
  simp only [Option.some.injEq, Prod.mk.injEq] at hop
  obtain ⟨rfl, rfl⟩ := hop
  have := sim_quiet hs op mo.status mo.hang hans hbook hslots hnotick hfault hnoid
    (by rw [hcnt]; exact hns) (by rw [hcnt]; exact hna)
  simp only [hcnt] at this
  exact this

theorem Sim.effFaults_after {cfg : Cfg} {d : RState} {m : Mon} (hs : Sim cfg d m) :
    (effFaults cfg m).after = d.st.replayFails ∧ (effFaults cfg m).reqOpen = d.st.openFails ∧
    (effFaults cfg m).connOpen = d.st.connectFails := by
  unfold effFaults State.replayFails State.openFails State.connectFails
  rw [hs.cfg_eq, hs.faults]
  cases cfg.eventStore <;> simp

/-! ### GET -/

theorem sim_get {cfg : Cfg} {d d' : RState} {m : Mon} {o : Obs} (hs : Sim cfg d m) (ref : Ref) (u : UserTok)
    (hop : replayOp d (.get ref u) = some (d', o)) :
    (monStep cfg m (.get ref u) o).viol = none ∧ Sim cfg d' (monStep cfg m (.get ref u) o).mon := by
  have hst := hs.stateful_st
  have hbook : ∀ st, bookAnswer cfg (effFaults cfg m) m.now (tagOf m (.get ref u)) m.tbl m.pend (.get ref u) st = (m.tbl, m.pend) := by
    intro st; simp [bookAnswer, hs.stateful]
  have hcnt : ∀ st, countersAfter m (.get ref u) st = (d.nslow, d.nasync + 1) := by
    intro st; simp [countersAfter, hs.nslow, hs.nasync]
  have hreq : (Op.get ref u).req = some { verb := .get, ref := ref, user := u } := rfl
  have fin : ∀ (st : St) (hang : Bool),
      modelOp d (.get ref u) = some { st := d.st, status := st, hang := hang, pend := d.pend, nslow := d.nslow, nasync := d.nasync + 1, released := d.released } →
      chkAnswer cfg (effFaults cfg m) m.tbl { verb := .get, ref := ref, user := u } st = none →
      (monStep cfg m (.get ref u) o).viol = none ∧ Sim cfg d' (monStep cfg m (.get ref u) o).mon := by
    intro st hang hmo hans
    exact sim_quiet_op hs hmo rfl rfl rfl rfl rfl rfl (hcnt st) (by rw [hreq]; exact hans) (hbook st) rfl rfl rfl
      (by simp [chkNoId, hreq]) (Nat.le_refl _) (Nat.le_succ _) hop
  rcases ref_cases hs ref with ⟨hr, hsid, hname⟩ | ⟨i, hi, hsid, hname⟩ | ⟨j, n, hsid, hj, hname, hnone⟩
  · apply fin (.code 400) false
    · simp [modelOp, hsid, step, hst, stepStateful, stMissingIdGet, Generated.Sessions.serveStatefulGETMissingID]
    · simp [chkAnswer, hs.stateful, hname]
  · cases hl : lookup d.st.tbl i u.user with
    | error c =>
      apply fin (.code c) false
      · simp [modelOp, hsid, step, hst, stepStateful, hl]
      · exact chkAnswer_refused hs _ _ (by simp) hname (Or.inr ⟨hi, rfl, hl⟩)
    | ok e =>
      cases hrf : d.st.replayFails with
      | true =>
        apply fin (.code 400) false
        · simp [modelOp, hsid, step, hst, stepStateful, hl, hrf, stReplayFailed, Generated.Sessions.replayFailed]
        · apply chkAnswer_admitted hs _ _ (by simp) hi hname hl <;> simp [hs.effFaults_after.1, hrf]
      | false =>
        apply fin (.code 200) true
        · simp [modelOp, hsid, step, hst, stepStateful, hl, hrf]
        · apply chkAnswer_admitted hs _ _ (by simp) hi hname hl <;> simp [St.accepted2xx]
  · have hf := findSess_none_of_ge hs.inv hj
    have hl : lookup d.st.tbl j u.user = .error 404 := by simp [lookup, hf, stNotFound, Generated.Sessions.lookupMissing]
    apply fin (.code 404) false
    · simp [modelOp, hsid, step, hst, stepStateful, hl]
    · exact chkAnswer_refused hs _ _ (by simp) hname (Or.inl ⟨hj, hnone, rfl⟩)

/-! ### other methods -/

theorem sim_other {cfg : Cfg} {d d' : RState} {m : Mon} {o : Obs} (hs : Sim cfg d m) (ref : Ref) (u : UserTok)
    (hop : replayOp d (.other ref u) = some (d', o)) :
    (monStep cfg m (.other ref u) o).viol = none ∧ Sim cfg d' (monStep cfg m (.other ref u) o).mon := by
  have hst := hs.stateful_st
  have hmo : modelOp d (.other ref u) = some { st := d.st, status := .code 405, pend := d.pend, nslow := d.nslow, nasync := d.nasync + 1, released := d.released } := by
    simp [modelOp, step, hst, stepStateful, stOtherMethod, Generated.Sessions.statefulOtherMethod]
  exact sim_quiet_op hs hmo rfl rfl rfl rfl rfl rfl (by simp [countersAfter, hs.nslow, hs.nasync])
    (by simp [chkAnswerO, Op.req, chkAnswer, hs.stateful]) (by simp [bookAnswer, hs.stateful]) rfl rfl rfl
    (by simp [chkNoId, Op.req]) (Nat.le_refl _) (Nat.le_succ _) hop

end Sessions
