import McpModel.Sessions.Sound
/-!
# Completeness of the C11 monitor (E7): silence means that every clause holds

`record_complete`: if the checks of a record yield no clause, every clause of the property (the record-level
predicates of Sound.lean) holds of that record; `monitor_complete`: if the monitor reports nothing on a
trace, `P_of cfg c tr` holds for EVERY clause `c`.  Together with `monitor_sound`: the monitor reports a
clause on a trace iff some clause of the property fails on it (and the clause it reports is one that fails).
-/
namespace Sessions

theorem complete_chkAnswer {cfg : Cfg} {fl : Faults} {tbl : List MSess} {r : Req} {st : St}
    (h : chkAnswer cfg fl tbl r st = none) (c : AnsClause) : PAns cfg fl tbl r st c := by
  unfold chkAnswer at h
  simp only [] at h
  cases c <;> simp only [PAns, Refusal, RefusalLive] <;> (repeat' split at h) <;>
    (first | (cases h; done) | grind | (simp_all; done))

theorem complete_chkMint {cfg : Cfg} {tbl : List MSess} {req : Option Req} {st : St} {hdr : Option Name}
    (h : chkMint cfg tbl req st hdr = none) (c : MintClause) : PMint cfg tbl req st hdr c := by
  unfold chkMint at h
  cases c <;> simp only [PMint] <;> (repeat' split at h) <;>
    (first | (cases h; done) | grind | (simp_all; done))

theorem firstSome_eq_none {α β} {f : α → Option β} {l : List α} (h : firstSome f l = none) : ∀ x ∈ l, f x = none := by
  induction l with
  | nil => intro x hx; cases hx
  | cons a t ih =>
    simp only [firstSome] at h
    cases ha : f a with
    | some b => rw [ha] at h; cases h
    | none =>
      rw [ha] at h
      intro x hx
      cases hx with
      | head => exact ha
      | tail _ hx' => exact ih h x hx'

theorem complete_chkLog {cfg : Cfg} {req : Option Req} {st : St} {log : List LogEnt}
    (h : chkLog cfg req st log = none) (c : LogClause) : PLog cfg req st log c := by
  unfold chkLog at h
  cases req with
  | none =>
    simp only [] at h
    split at h
    · cases h
    · cases c <;> simp only [PLog] <;> simp_all
  | some r =>
    simp only [] at h
    split at h
    · cases h
    · rename_i hrj
      have hall := firstSome_eq_none h
      cases c <;> simp only [PLog]
      · intro r' hr' hst; cases hr'
        cases hl : log with
        | nil => rfl
        | cons x t => simp [hst, hl] at hrj
      · intro r' hr' l hl; cases hr'
        have := hall l hl
        by_cases hw : l.who = .tok r.user
        · exact hw
        · simp [hw] at this
      · intro hsl r' hr' l hl; cases hr'
        have := hall l hl
        by_cases hw : l.who = .tok r.user
        · simp [hw, hsl] at this; exact this
        · simp [hw] at this
      · intro hsl r' n hr' hn l hl; cases hr'
        have := hall l hl
        by_cases hw : l.who = .tok r.user
        · simp [hw, hsl, hn] at this; exact this
        · simp [hw] at this
      · intro hr'; cases hr'

theorem length_eraseDups_le {α} [BEq α] : ∀ (n : Nat) (l : List α), l.length ≤ n → l.eraseDups.length ≤ l.length := by
  intro n
  induction n with
  | zero => intro l hl; have : l = [] := List.length_eq_zero_iff.mp (by omega); subst this; simp
  | succ n ih =>
    intro l hl
    cases l with
    | nil => simp
    | cons a t =>
      rw [List.eraseDups_cons]
      have h1 : (t.filter (fun b => !b == a)).length ≤ t.length := List.length_filter_le _ _
      have h2 := ih (t.filter (fun b => !b == a)) (by simp at hl; omega)
      simp only [List.length_cons]
      omega

theorem nodup_of_eraseDups_length {α} [BEq α] [LawfulBEq α] : ∀ (n : Nat) (l : List α), l.length ≤ n →
    l.eraseDups.length = l.length → l.Nodup := by
  intro n
  induction n with
  | zero => intro l hl _; have : l = [] := List.length_eq_zero_iff.mp (by omega); subst this; simp
  | succ n ih =>
    intro l hl h
    cases l with
    | nil => simp
    | cons a t =>
      rw [List.eraseDups_cons] at h
      simp only [List.length_cons] at h hl
      have h1 : (t.filter (fun b => !b == a)).length ≤ t.length := List.length_filter_le _ _
      have h2 := length_eraseDups_le _ (t.filter (fun b => !b == a)) (Nat.le_refl _)
      have hfl : (t.filter (fun b => !b == a)).length = t.length := by omega
      have hfe : t.filter (fun b => !b == a) = t := List.filter_eq_self.mpr (by
        have := List.length_filter_eq_length_iff.mp hfl
        exact this)
      rw [hfe] at h
      rw [List.nodup_cons]
      refine ⟨?_, ih t (by omega) (by omega)⟩
      intro hmem
      have := (List.filter_eq_self.mp hfe) a hmem
      simp at this

theorem complete_chkKeys {map : List MapEnt} (h : chkKeys map = none) (c : KeyClause) : PKeys map c := by
  unfold chkKeys at h
  simp only [] at h
  split at h
  · cases h
  · rename_i hd
    split at h
    · cases h
    · rename_i hb
      cases c <;> simp only [PKeys]
      · exact nodup_of_eraseDups_length _ _ (Nat.le_refl _) (by simpa using hd)
      · intro e he
        cases hbk : e.badKey with
        | false => rfl
        | true => exact absurd (List.any_eq_true.mpr ⟨e, he, hbk⟩) hb

theorem complete_chkGone {names : List Name} {tbl : List MSess} (h : chkGone names tbl = none) (c : GoneClause) :
    PGone names tbl c := by
  unfold chkGone at h
  have hall := firstSome_eq_none h
  cases c <;> simp only [PGone] <;> intro a ha hl hp <;> have := hall a ha <;>
    (by_cases hm : a.name ∈ names
     · exact hm
     · simp [hl, hm] at this)

theorem complete_chkSrv {cfg : Cfg} {names srv : List Name} (h : chkSrv cfg names srv = none) (c : SrvClause) :
    PSrv cfg names srv c := by
  unfold chkSrv at h
  cases hsl : cfg.stateless with
  | true =>
    rw [hsl] at h
    simp only [if_true] at h
    cases c <;> simp only [PSrv, hsl] <;> (try (intro hx; cases hx))
    intro n hn
    split at h
    · cases h
    · rename_i ha
      by_cases hne : n = .e
      · exact hne
      · exact absurd (List.any_eq_true.mpr ⟨n, hn, by simp [hne]⟩) ha
  | false =>
    rw [hsl] at h
    simp only [Bool.false_eq_true, if_false] at h
    have h1 : firstSome (fun n => if names.contains n then none else some (SrvClause.notForgotten n)) srv = none := by
      cases hx : firstSome (fun n => if names.contains n then none else some (SrvClause.notForgotten n)) srv with
      | none => rfl
      | some y => rw [hx] at h; cases h
    rw [h1] at h
    have h2 : firstSome (fun n => if srv.contains n then none else some (SrvClause.tableKeeps n)) names = none := h
    cases c <;> simp only [PSrv, hsl] <;> (try (intro hx; cases hx))
    · intro n hn
      have := firstSome_eq_none h1 n hn
      by_cases hm : n ∈ names
      · exact hm
      · simp [hm] at this
    · intro n hn
      have := firstSome_eq_none h2 n hn
      by_cases hm : n ∈ srv
      · exact hm
      · simp [hm] at this

theorem complete_chkNoId {cfg : Cfg} {req : Option Req} {st : St} {hdr : Option Name} (h : chkNoId cfg req st hdr = false) :
    PNoId cfg req st hdr := by
  intro r hr h1 h2 h3 h4 h5
  subst hr
  unfold chkNoId at h
  cases hdr with
  | some x => rfl
  | none => simp [h1, h2, h3, h4, h5] at h

theorem complete_judgeEntry {cfg : Cfg} {now : Nat} {req : Option Req} {st : St} {hdr : Option Name} {tbl : List MSess}
    {ent : MapEnt} (h : (judgeEntry cfg now req st hdr tbl ent).2 = none) (c : TblClause) :
    PTbl cfg req st hdr tbl ent c := by
  unfold judgeEntry at h
  cases hf : monFind tbl ent.name with
  | some e =>
    rw [hf] at h
    simp only [] at h
    cases c <;> simp only [PTbl, hf] <;> (repeat' split at h) <;>
      (first | (cases h; done) | grind | (simp_all; done))
  | none =>
    rw [hf] at h
    simp only [] at h
    cases req with
    | none =>
      simp only [reqRacy, Bool.false_eq_true, if_false] at h
      split at h <;> cases h
    | some r =>
      cases hr : r.racy with
      | true => simp only [reqRacy, hr, if_true] at h; cases h
      | false =>
        simp only [reqRacy, hr, Bool.false_eq_true, if_false] at h
        cases c <;> simp only [PTbl, hf, reqRacy] <;> (repeat' split at h) <;>
          (first | (cases h; done) | grind | (simp_all; done))

theorem scanMap_none {cfg : Cfg} {now : Nat} {req : Option Req} {st : St} {hdr : Option Name} :
    ∀ {l : List MapEnt} {tbl : List MSess}, (scanMap cfg now req st hdr tbl l).2 = none →
      ∀ pre ent post, l = pre ++ ent :: post →
        (judgeEntry cfg now req st hdr (scanMap cfg now req st hdr tbl pre).1 ent).2 = none := by
  intro l
  induction l with
  | nil => intro tbl _ pre ent post hl; cases pre <;> cases hl
  | cons x rest ih =>
    intro tbl h pre ent post hl
    simp only [scanMap] at h
    have hx : (judgeEntry cfg now req st hdr tbl x).2 = none := by
      cases hj : (judgeEntry cfg now req st hdr tbl x).2 with
      | none => rfl
      | some y => rw [hj] at h; cases h
    rw [hx] at h
    cases pre with
    | nil =>
      simp only [List.nil_append, List.cons.injEq] at hl
      rw [← hl.1]; simpa [scanMap] using hx
    | cons p pre' =>
      simp only [List.cons_append, List.cons.injEq] at hl
      rw [← hl.1]
      have := ih (tbl := (judgeEntry cfg now req st hdr tbl x).1) h pre' ent post hl.2
      simpa [scanMap] using this

theorem firstViol_none_iff' {α} {a b : Option α} (h : firstViol a b = none) : a = none ∧ b = none := by
  cases a with
  | some x => cases h
  | none => exact ⟨rfl, h⟩

theorem complete_chkBodyLog {pend : List (Tag × Name)} {n : Nat} {log : List LogEnt}
    (h : chkBodyLog pend n log = none) (c : LogClause) : PBodyLog pend n log c := by
  unfold chkBodyLog at h
  cases hf : pend.find? (·.1 == Tag.u n) with
  | none =>
    rw [hf] at h
    simp only [] at h
    split at h
    · cases h
    · rename_i hne
      cases c <;> simp only [PBodyLog]
      · intro t nm hx; rw [hf] at hx; cases hx
      · intro _
        cases hl : log with
        | nil => rfl
        | cons x t => simp [hl] at hne
  | some x =>
    obtain ⟨t, nm⟩ := x
    rw [hf] at h
    simp only [] at h
    have hall := firstSome_eq_none h
    cases c <;> simp only [PBodyLog]
    · intro t' nm' hx l hl
      rw [hf] at hx
      cases hx
      have := hall l hl
      simp only [ite_eq_right_iff] at this
      cases hs : (l.sess != nm) with
      | false => simpa using hs
      | true => exact absurd (this hs) (by simp)
    · intro hx; rw [hf] at hx; cases hx

theorem complete_chkClose {map : List MapEnt} {stale : List Name} (h : chkClose map stale = none) (c : CloseClause) :
    PClose map stale c := by
  unfold chkClose at h
  have h1 := firstSome_eq_none (firstViol_none_iff' h).1
  have h2 := firstSome_eq_none (firstViol_none_iff' h).2
  cases c <;> simp only [PClose]
  · intro e he hc hb
    have := h1 e he
    simp [hc, hb] at this
  · cases hs : stale with
    | nil => rfl
    | cons x t => have := h2 x (by rw [hs]; simp); cases this

theorem firstViol_none_iff {α} {a b : Option α} (h : firstViol a b = none) : a = none ∧ b = none := by
  cases a with
  | some x => cases h
  | none => exact ⟨rfl, h⟩

theorem viol_none_raw {cfg : Cfg} {m : Mon} {op : Op} {o : Obs} (h : (monStep cfg m op o).viol = none) :
    rawViol cfg m op o = none := by
  have hv : (monStep cfg m op o).viol =
      (if (o.map.map (·.name)).any (monStep cfg m op o).mon.zombies.contains then (rawViol cfg m op o).map zombieWrap
       else rawViol cfg m op o) := rfl
  rw [hv] at h
  split at h
  · cases hr : rawViol cfg m op o with
    | none => rfl
    | some c => rw [hr] at h; cases h
  · exact h

theorem map_none {α β} {f : α → β} {v : Option α} (h : v.map f = none) : v = none := by
  cases v with
  | none => rfl
  | some a => cases h

theorem runMonFrom_none {cfg : Cfg} : ∀ {tr : Trace} {m : Mon} {i : Nat}, runMonFrom cfg m i tr = none →
    ∀ pre op o post, tr = pre ++ (op, o) :: post → (monStep cfg (monAfter cfg m pre) op o).viol = none := by
  intro tr
  induction tr with
  | nil => intro m i _ pre op o post h; cases pre <;> cases h
  | cons x tr ih =>
    intro m i h pre op o post htr
    obtain ⟨op0, o0⟩ := x
    simp only [runMonFrom] at h
    cases hv : (monStep cfg m op0 o0).viol with
    | some c => rw [hv] at h; cases h
    | none =>
      rw [hv] at h
      cases pre with
      | nil =>
        simp only [List.nil_append, List.cons.injEq, Prod.mk.injEq] at htr
        obtain ⟨⟨rfl, rfl⟩, _⟩ := htr
        exact hv
      | cons p pre' =>
        simp only [List.cons_append, List.cons.injEq] at htr
        rw [← htr.1]
        exact ih h pre' op o post htr.2

/-- **monitor_complete**: when the monitor reports nothing on a trace, every clause of the property holds of it. -/
theorem monitor_complete {cfg : Cfg} {tr : Trace} (h : runMon cfg tr = none) (c : Clause) : P_of cfg c tr := by
  induction c with
  | zombieThen c ih => exact ih
  | ans x =>
    intro pre op o post r htr hr hansw
    have hraw := viol_none_raw (runMonFrom_none h pre op o post htr)
    unfold rawViol at hraw
    have h0 := map_none (firstViol_none_iff hraw).1
    have h1 : chkAnswerO cfg (effFaults cfg (monAfter cfg {} pre)) ((monAfter cfg {} pre).tbl.map (expire cfg (nowAfter (monAfter cfg {} pre) op))) op.req o.status = none := by
      unfold chkAnswerOp at h0
      split at h0
      · rename_i ref u
        split at h0
        · rename_i hpd
          exact absurd (by simpa using hpd) (hansw ref u rfl)
        · exact h0
      · exact h0
    unfold chkAnswerO at h1
    rw [hr] at h1
    exact complete_chkAnswer h1 x
  | log x =>
    intro pre op o post htr
    have hraw := viol_none_raw (runMonFrom_none h pre op o post htr)
    unfold rawViol at hraw
    have h2 := map_none (firstViol_none_iff (firstViol_none_iff hraw).2).1
    show PLogOp cfg (monAfter cfg {} pre).pend op o.status o.log x
    cases op <;> simp only [chkLogOp] at h2 <;> simp only [PLogOp] <;>
      first | exact complete_chkBodyLog h2 x | exact complete_chkLog h2 x
  | mint x =>
    intro pre op o post htr
    have hraw := viol_none_raw (runMonFrom_none h pre op o post htr)
    unfold rawViol at hraw
    exact complete_chkMint (map_none (firstViol_none_iff (firstViol_none_iff (firstViol_none_iff hraw).2).2).1) x
  | tbl x =>
    intro pre op o post seen ent rest htr hl
    have hraw := viol_none_raw (runMonFrom_none h pre op o post htr)
    unfold rawViol at hraw
    have h4 := map_none (firstViol_none_iff (firstViol_none_iff (firstViol_none_iff (firstViol_none_iff hraw).2).2).2).1
    exact complete_judgeEntry (scanMap_none h4 seen ent rest hl) x
  | key x =>
    intro pre op o post htr
    have hraw := viol_none_raw (runMonFrom_none h pre op o post htr)
    unfold rawViol at hraw
    exact complete_chkKeys (map_none (firstViol_none_iff (firstViol_none_iff (firstViol_none_iff (firstViol_none_iff (firstViol_none_iff hraw).2).2).2).2).1) x
  | gone x =>
    intro pre op o post htr
    have hraw := viol_none_raw (runMonFrom_none h pre op o post htr)
    unfold rawViol at hraw
    exact complete_chkGone (map_none (firstViol_none_iff (firstViol_none_iff (firstViol_none_iff (firstViol_none_iff (firstViol_none_iff (firstViol_none_iff hraw).2).2).2).2).2).1) x
  | srv x =>
    intro pre op o post htr
    have hraw := viol_none_raw (runMonFrom_none h pre op o post htr)
    unfold rawViol at hraw
    exact complete_chkSrv (map_none (firstViol_none_iff (firstViol_none_iff (firstViol_none_iff (firstViol_none_iff (firstViol_none_iff (firstViol_none_iff (firstViol_none_iff hraw).2).2).2).2).2).2).1) x
  | noId =>
    intro pre op o post htr
    have hraw := viol_none_raw (runMonFrom_none h pre op o post htr)
    unfold rawViol at hraw
    have h8 := (firstViol_none_iff (firstViol_none_iff (firstViol_none_iff (firstViol_none_iff (firstViol_none_iff (firstViol_none_iff (firstViol_none_iff (firstViol_none_iff hraw).2).2).2).2).2).2).2).1
    apply complete_chkNoId
    cases hn : chkNoId cfg op.req o.status o.hdr with
    | false => rfl
    | true => rw [hn] at h8; cases h8

  | close x =>
    intro pre op o post htr
    have hraw := viol_none_raw (runMonFrom_none h pre op o post htr)
    unfold rawViol at hraw
    exact complete_chkClose (map_none (firstViol_none_iff (firstViol_none_iff (firstViol_none_iff (firstViol_none_iff (firstViol_none_iff (firstViol_none_iff (firstViol_none_iff (firstViol_none_iff hraw).2).2).2).2).2).2).2).2) x

end Sessions
