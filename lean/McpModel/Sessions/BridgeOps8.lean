import McpModel.Sessions.BridgeOps7
/-!
Bridge (E7/C11 ∩ C05): POSTs whose body arrives in pieces — `postb` (the request headers arrive: `lookupSession`,
`startPOST`, the transport blocks reading the body) and `body` (a piece / the last piece arrives: the message is
handed over unless `Close` has begun, answered, the POST ends).  Between the two the POST is in progress without a
handler: closes complete, the idle timer stays stopped.
-/
namespace Sessions

/-! ### entry level -/

/-- net effect of the arrival of the last piece: the POST ends (`endPOST`), whatever was or was not delivered -/
def bodyE (now T : Nat) (e : Sess) : Sess := endE now T { e with upl := e.upl - 1 }

theorem eok_head {cfg : Cfg} {now ns nr : Nat} {e : Sess} (h : EOk cfg now ns nr e) (hg : Good cfg now e)
    (hr : e.removed = false) : EOk cfg now ns nr (headF e) := by
  obtain ⟨⟨h1, h2, h3, h4, h5, h6, h7, h8, h9⟩, h10⟩ := h
  have g2 : ∀ d, e.timer = .armed d → e.refs = 0 := fun d hd => (hg.armed d hd).1
  clear hg
  rcases e with ⟨id, owner, refs, timer, closing, removed, inMap, pending, initialized, creating, busy, initBusy, posts, idleSince, closeErr, upl⟩
  simp only [] at *
  subst hr
  cases timer <;> (try by_cases h0 : refs = 0) <;>
    (refine ⟨⟨?_, ?_, ?_, ?_, ?_, ?_, ?_, ?_, ?_⟩, ?_⟩ <;> simp_all [headF, startTimer, Timer.isArmed] <;> (try omega))

theorem rel_head {cfg : Cfg} {ns nr : Nat} {e : Sess} {a : MSess} (h : ERel cfg ns nr e a) (hr : e.removed = false) :
    ERelPre cfg ns nr (headF e) (mPend a) := by
  have hf := headF_fields e
  by_cases hl : a.life = .live
  · have hc := (h.live.mp hl).2
    refine ⟨?_, ?_, ?_, ?_, ?_⟩
    · rw [hf.2.2.1]; exact h.owner
    · intro hd; simp [mPend, hl] at hd
    · rw [hf.1, hf.2.2.2.1]; simp [mPend, hl, hr, hc]
    · intro _; have := h.cnt hl; rw [hf.2.2.2.2.2.2.2.2.2]; simp [mPend, this.1, this.2]; omega
    · intro _ _ hu; rw [hf.2.2.2.2.2.2.2.2.2] at hu; omega
  · apply rel_nonlive
    · rw [hf.2.2.1]; exact h.owner
    · simpa [mPend] using hl
    · intro hd
      have : a.life = .dead := by simpa [mPend] using hd
      have := h.dead this; rw [hr] at this; cases this
    · right; rw [hf.2.2.2.1]
      cases hc : e.closing with
      | true => rfl
      | false => exact absurd (h.live.mpr ⟨hr, hc⟩) hl

theorem bodyE_fields (now T : Nat) (e : Sess) : (bodyE now T e).id = e.id ∧ (bodyE now T e).owner = e.owner ∧
    (bodyE now T e).removed = e.removed ∧ (bodyE now T e).closing = e.closing ∧
    (bodyE now T e).timer = (match e.timer with | .nil => .nil | t => if e.refs - 1 = 0 then .armed (now + T) else t) ∧
    (bodyE now T e).upl = e.upl - 1 := by
  obtain ⟨f1, f2, f3, f4, f5, _, _, f8⟩ := endE_fields now T { e with upl := e.upl - 1 }
  exact ⟨f1, f2, f3, f4, f5, f8⟩

theorem eokq_body {cfg : Cfg} {now ns nr : Nat} {e : Sess} (h : EOk cfg now ns nr e) (hg : Good cfg now e)
    (hu : e.upl ≠ 0) : EOkQ cfg now ns nr (bodyE now cfg.timeout e) := by
  obtain ⟨⟨h1, h2, h3, h4, h5, h6, h7, h8, h9⟩, h10⟩ := h
  have g1 := hg.refs_posts
  have g6 := hg.no_timeout
  have g3 : e.removed = true → e.timer = .nil := fun hr => (hg.unpublished (hg.removed hr).1).1
  have hT : e.timer ≠ .nil → 0 < cfg.timeout := fun ht => Nat.pos_of_ne_zero (fun h => ht (g6 h))
  clear hg
  rcases e with ⟨id, owner, refs, timer, closing, removed, inMap, pending, initialized, creating, busy, initBusy, posts, idleSince, closeErr, upl⟩
  simp only [] at *
  cases timer <;> (try by_cases h0 : refs - 1 = 0) <;>
    (refine ⟨?_, ?_, ?_, ?_, ?_, ?_, ?_, ?_, ?_⟩ <;> simp_all [bodyE, endE, Timer.isArmed] <;> (try omega))

/-- the monitor's bookkeeping of the completion `u<n>` against the arrival of the body and `endPOST` -/
theorem rel_body {cfg : Cfg} {now ns nr : Nat} {e : Sess} {a : MSess}
    (h : ERelPre cfg ns nr e a) (hp : e.posts = ns + e.upl) (hu : e.upl ≠ 0)
    (hrp : e.timer ≠ .nil → e.refs = e.posts) (htm : e.removed = false → (e.timer = .nil ↔ cfg.timeout = 0)) :
    ERelPre cfg ns nr (bodyE now cfg.timeout e) (mPostDone now a) := by
  obtain ⟨f1, f2, f3, f4, f5, f6⟩ := bodyE_fields now cfg.timeout e
  have hlife : (mPostDone now a).life = a.life := by unfold mPostDone; split <;> rfl
  refine ⟨?_, ?_, ?_, ?_, ?_⟩
  · rw [f2, ← h.owner]; unfold mPostDone; split <;> rfl
  · rw [hlife, f3]; exact h.dead
  · rw [hlife, f3, f4]; exact h.live
  · rw [hlife, f6]; intro hl
    have c := h.cnt hl
    unfold mPostDone
    split
    · rename_i hle; exact ⟨by simp; omega, by simpa using c.2⟩
    · rename_i hle; exact ⟨by simp; omega, by simpa using c.2⟩
  · rw [hlife, f6]; intro hl hz hu0 hT
    have c := h.cnt hl
    have hr := (h.live.mp hl).1
    have hap : a.posts ≤ 1 := by omega
    have hid : (mPostDone now a).idleSince = now := by simp [mPostDone, hap]
    rw [hid, f5]
    have htn : e.timer ≠ .nil := fun hx => hT ((htm hr).mp hx)
    have hrf : e.refs - 1 = 0 := by rw [hrp htn, hp]; omega
    cases ht : e.timer with
    | nil => exact absurd ht htn
    | stopped => simp [hrf]
    | armed d => simp [hrf]

/-- the labels of the arrival of the last piece, on the entry -/
theorem body_eq {now T : Nat} {e : Sess} (ok : Bool) (hcr : e.creating = false) (hp : e.posts ≠ 0) (hu : e.upl ≠ 0)
    (hpn : e.pending = none) (hrc : e.removed = true → e.closing = true) :
    tryF (endPost now T false) (hdK .call (ok && !e.closing) (tryF (bodyF ok .call) e)) = bodyE now T e := by
  rcases e with ⟨id, owner, refs, timer, closing, removed, inMap, pending, initialized, creating, busy, initBusy, posts, idleSince, closeErr, upl⟩
  simp only [] at hcr hp hu hpn hrc
  subst hcr; subst hpn
  cases ok <;> cases closing <;> cases removed <;> cases timer <;>
    simp_all [hdK, bodyF, deliver, tryF, handlerDoneF, endPost, bodyE, endE] <;>
    (try (by_cases h0 : refs - 1 = 0 <;> simp [h0]))

/-! ### the labels on the table -/

theorem step_postHead_ok {s : State} (hst : s.cfg.stateless = false) (hn : NodupIds s.tbl) {i : Nat} {u : User} {e : Sess}
    (hl : lookup s.tbl i u = .ok e) :
    step s (.postHead (some i) u) = some ({ s with tbl := s.tbl.map (lift i headF) }, .forward none (!e.closing)) := by
  have hfe := (lookup_ok hl).1
  have hm := modify_eq_map (f := fun x => some (headF x)) hn hfe rfl
  simp only [step, hst, stepStateful, hl, Bool.false_eq_true, if_false, hm]
  have : (tryF fun x => some (headF x)) = headF := by funext x; simp [tryF]
  rw [this]

theorem step_postHead_err {s : State} (hst : s.cfg.stateless = false) {i : Nat} {u : User} {c : Nat}
    (hl : lookup s.tbl i u = .error c) : step s (.postHead (some i) u) = some (s, .reject c) := by
  simp [step, hst, stepStateful, hl]

theorem step_postBody_ok {s : State} (hst : s.cfg.stateless = false) (hn : NodupIds s.tbl) {i : Nat} {e e' : Sess}
    (hfe : findSess i s.tbl = some e) (hb : bodyF (s.accepts .call) .call e = some e') :
    step s (.postBody i .call) =
      some ({ s with tbl := s.tbl.map (lift i (tryF (bodyF (s.accepts .call) .call))) }, postResp s .call none e.closing) := by
  have hm := modify_eq_map hn hfe hb
  simp only [step, hst, stepStateful, hfe, Bool.false_eq_true, if_false, hm, Kind.isInitialize]

theorem step_postBody_none {s : State} (hst : s.cfg.stateless = false) {i : Nat} {e : Sess}
    (hfe : findSess i s.tbl = some e) (hb : bodyF (s.accepts .call) .call e = none) :
    step s (.postBody i .call) = none := by
  have : modify i (bodyF (s.accepts .call) .call) s.tbl = none := by
    cases hm : modify i (bodyF (s.accepts .call) .call) s.tbl with
    | none => rfl
    | some t =>
      obtain ⟨_, e1, _, e1', _, _, _, _, p5, p6⟩ := modify_some hm
      rw [hfe] at p6; cases p6
      rw [hb] at p5; cases p5
  simp only [step, hst, stepStateful, hfe, Bool.false_eq_true, if_false, this, Kind.isInitialize]


/-! ### the list of asynchronous requests -/

theorem nsOf_append_upl (P : List Pend) (t : Tag) (i n : Nat) (u : UserTok) (j : Nat) :
    nsOf (P ++ [Pend.mk t (.upl i n u)]) j = nsOf P j ∧ nrOf (P ++ [Pend.mk t (.upl i n u)]) j = nrOf P j :=
  ⟨nsOf_append_other _ _ _ rfl, nrOf_append_other _ _ _ rfl⟩

theorem pendOkW_append_upl {P : List Pend} {ns na : Nat} {rel : List Nat} {next : Nat} (h : PendOkW P ns na rel next)
    {i : Nat} (hi : i < next) (u : UserTok) :
    PendOkW (P ++ [Pend.mk (.u (na + 1)) (.upl i (na + 1) u)]) ns (na + 1) rel next := by
  have hfresh : ∀ q ∈ P, q.tag ≠ .u (na + 1) := by
    intro q hq hqt
    have := h.shape q hq
    cases hqk : q.kind with
    | slow a b => rw [hqk] at this; rw [this.1] at hqt; cases hqt
    | run a b => rw [hqk] at this; rw [this.1] at hqt; cases hqt
    | del j f => rw [hqk] at this; obtain ⟨n, hn, _⟩ := this; rw [hn] at hqt; cases hqt
    | cls j => rw [hqk] at this; obtain ⟨n, hn, _⟩ := this; rw [hn] at hqt; cases hqt
    | upl a b c => rw [hqk] at this; rw [this.1] at hqt; cases hqt; omega
  refine ⟨?_, ?_, ?_, ?_, ?_, h.relLe⟩
  · rw [List.map_append, List.nodup_append]
    refine ⟨h.tags, by simp, ?_⟩
    intro a ha b hb hab
    simp at hb; subst hb
    obtain ⟨q, hq, rfl⟩ := List.mem_map.mp ha
    exact hfresh q hq hab
  · have hslot : slotOf (Pend.mk (.u (na + 1)) (.upl i (na + 1) u)) = none := rfl
    rw [List.filterMap_append]; simp [hslot]; exact h.slots
  · intro q hq
    rcases List.mem_append.mp hq with hq | hq
    · have := h.shape q hq
      cases hqk : q.kind with
      | slow a b => rw [hqk] at this; exact this
      | run a b => rw [hqk] at this; exact this
      | del j f => rw [hqk] at this; obtain ⟨n, hn, hle⟩ := this; exact ⟨n, hn, by omega⟩
      | cls j => rw [hqk] at this; obtain ⟨n, hn, hle⟩ := this; exact ⟨n, hn, by omega⟩
      | upl a b c => rw [hqk] at this; exact ⟨this.1, by have := this.2; omega⟩
    · simp at hq; subst hq; exact ⟨rfl, Nat.le_refl _⟩
  · intro q hq j hj
    rcases List.mem_append.mp hq with hq | hq
    · exact h.minted q hq j hj
    · simp at hq; subst hq; simp [sidOf] at hj; omega
  · intro q hq
    rcases List.mem_append.mp hq with hq | hq
    · exact h.sids q hq
    · simp at hq; subst hq; rfl

/-! ### `postb`: the request headers arrive -/

theorem bookAnswer_postb_refused (cfg : Cfg) (fl : Faults) (now : Nat) (tag : Tag) (tbl : List MSess)
    (pend : List (Tag × Name)) (ref : Ref) (u : UserTok) (c : Nat) :
    bookAnswer cfg fl now tag tbl pend (.postb ref u) (.code c) = (tbl, pend) := by
  simp only [bookAnswer]
  split
  · rfl
  · cases ref.name with
    | none => rfl
    | some n => simp

theorem sim_postb {cfg : Cfg} {d d' : RState} {m : Mon} {o : Obs} (hs : Sim cfg d m) (ref : Ref) (u : UserTok)
    (hop : replayOp d (.postb ref u) = some (d', o)) :
    (monStep cfg m (.postb ref u) o).viol = none ∧ Sim cfg d' (monStep cfg m (.postb ref u) o).mon := by
  have hst := hs.stateful_st
  have hnid := inv_nodupIds hs.inv
  have hreq : (Op.postb ref u).req = some { verb := .post, ref := ref, user := u, kind := some .ping } := rfl
  have hcnt : ∀ st, countersAfter m (.postb ref u) st = (d.nslow, d.nasync + 1) := by
    intro st; simp [countersAfter, hs.nslow, hs.nasync]
  have hpw := hs.pok.weak
  have fin : ∀ (c : Nat), (c = 403 ∨ c = 404) →
      modelOp d (.postb ref u) = some { st := d.st, status := .code c, pend := d.pend, nslow := d.nslow, nasync := d.nasync + 1, released := d.released } →
      chkAnswer cfg (effFaults cfg m) m.tbl { verb := .post, ref := ref, user := u, kind := some .ping } (.code c) = none →
      (monStep cfg m (.postb ref u) o).viol = none ∧ Sim cfg d' (monStep cfg m (.postb ref u) o).mon := by
    intro c hc hmo hans
    exact sim_quiet_op hs hmo rfl rfl rfl rfl rfl rfl (hcnt _) (by rw [hreq]; exact hans)
      (bookAnswer_postb_refused _ _ _ _ _ _ _ _ _) rfl rfl rfl
      (by rcases hc with h | h <;> subst h <;> simp [chkNoId, hreq, St.accepted2xx])
      (Nat.le_refl _) (Nat.le_succ _) hop
  rcases ref_cases hs ref with ⟨hr, hsid, _⟩ | ⟨i, hi, hsid, hname⟩ | ⟨j, n, hsid, hj, hname, hnone⟩
  · -- no session id: not an operation of the model
    subst hr
    simp [replayOp, modelOp, hst, Ref.sid, step, stepStateful] at hop
  · cases hl : lookup d.st.tbl i u.user with
    | error c =>
      have hlm := lookup_mon hs hi u
      rw [hl] at hlm
      have hc : c = 403 ∨ c = 404 := by rcases hlm with ⟨h, _⟩ | ⟨h, _⟩ <;> omega
      apply fin c hc
      · simp only [modelOp, hsid, hst, Bool.false_eq_true, if_false, step_postHead_err hst hl]
      · exact chkAnswer_refused hs _ _ (by simp) hname (Or.inr ⟨hi, rfl, hl⟩)
    | ok e =>
      have hlm := lookup_mon hs hi u
      rw [hl] at hlm
      obtain ⟨hfe, hr, a, ha, hnd, hent, hrel⟩ := hlm
      have hmem := (findSess_some hfe).1
      have hid := (findSess_some hfe).2
      have hk := hs.eok e hmem
      have hg := hs.good hmem
      rw [hid] at hk
      have htouniq : ∀ e' ∈ d.st.tbl, e'.id = i → e' = e := fun e' he' hid' => entry_unique hs.inv he' hmem (by rw [hid', hid])
      have hstep := step_postHead_ok hst hnid hl
      have hkH : KeepsId headF := fun x => (headF_fields x).2.1
      have hke := eok_head hk hg hr
      have hG : KeepsId (settleE d.st.now d.st.closeFails ∘ headF) := keepsId_comp hkH (keepsId_settleE _ _)
      have hsettle := settle_lift hs.inv hst (i := i) hkH (fun e he _ => hs.settleE_id _ _ rfl e he)
      have hGe : (settleE d.st.now d.st.closeFails ∘ headF) e = headF e := settleE_of_eok _ hke
      have hinv2 : Inv { d.st with tbl := d.st.tbl.map (lift i (settleE d.st.now d.st.closeFails ∘ headF)) } := by
        rw [← hsettle]; exact settle_inv (step_inv hs.inv hstep)
      have hmo : modelOp d (.postb ref u) = some { st := { d.st with tbl := d.st.tbl.map (lift i headF) }, status := .pending, hdr := none, hang := false, done := [], log := [], pend := d.pend ++ [Pend.mk (.u (d.nasync + 1)) (.upl i (d.nasync + 1) u)], nslow := d.nslow, nasync := d.nasync + 1, released := d.released } := by
        simp only [modelOp, hsid, hst, Bool.false_eq_true, if_false, hstep, Option.getD_some]
      have hba : bookAnswer cfg (effFaults cfg m) m.now (tagOf m (.postb ref u)) m.tbl m.pend (.postb ref u) .pending =
          (monUpd m.tbl (sname i) mPend, (d.pend ++ [Pend.mk (.u (d.nasync + 1)) (.upl i (d.nasync + 1) u)]).filterMap pendOf) := by
        simp [bookAnswer, hs.stateful, hname, ha, hent, tagOf, hs.nasync, hs.pend, pendOf]
        rfl
      apply sim_one_op (st2 := { d.st with tbl := d.st.tbl.map (lift i (settleE d.st.now d.st.closeFails ∘ headF)) })
        hs hmo (Or.inr hsettle) rfl hG rfl rfl rfl rfl hinv2 (pendOkW_append_upl hpw hi u)
        (tblX := monUpd m.tbl (sname i) mPend)
      · intro j _; exact nsOf_append_upl _ _ _ _ _ _
      · intro p hp j hj hji
        rcases List.mem_append.mp hp with hp | hp
        · exact hs.pok.keep hp
        · simp at hp; subst hp; rfl
      · rw [hba]; show bookDone _ _ _ [] = _; simp [bookSlots, bookDone]
      · rw [hba]
        simp only [bookSlots]
        rw [hs.run, List.filterMap_append]
        simp [runOf]
      · intro j hj; exact monFind_monUpd_ne keepsName_mPend _ (sname_ne hj)
      · rw [monUpd_names keepsName_mPend]; exact hs.mnodup
      · intro x hx
        obtain ⟨b, hb, hxb⟩ := monUpd_mem keepsName_mPend hx
        obtain ⟨j, hj, hn⟩ := hs.minted b hb
        exact ⟨j, hj, by rw [hxb]; exact hn⟩
      · intro e' he' hid'
        rw [htouniq e' he' hid', hGe, (nsOf_append_upl _ _ _ _ _ _).1, (nsOf_append_upl _ _ _ _ _ _).2]
        refine ⟨hke, ?_⟩
        unfold RelPreAt
        rw [(headF_fields e).2.1, hid, monFind_monUpd_self keepsName_mPend, ha, (nsOf_append_upl _ _ _ _ _ _).1, (nsOf_append_upl _ _ _ _ _ _).2]
        simp only [Option.map_some]
        exact rel_head hrel hr
      · rw [hreq]
        exact chkAnswer_admitted hs _ _ (by simp) hi hname hl _ (by simp) (by simp) (by simp [St.accepted2xx])
      · exact chkLogOp_nil _ _ _ _
      · simp [chkNoId, hreq]
      · rfl
      · intro h hh; cases hh
      · rfl
      · rfl
      · exact hcnt _
      · exact hop
  · have hf := findSess_none_of_ge hs.inv hj
    have hl : lookup d.st.tbl j u.user = .error 404 := by simp [lookup, hf, stNotFound, Generated.Sessions.lookupMissing]
    apply fin 404 (Or.inr rfl)
    · simp only [modelOp, hsid, hst, Bool.false_eq_true, if_false, step_postHead_err hst hl]
    · exact chkAnswer_refused hs _ _ (by simp) hname (Or.inl ⟨hj, hnone, rfl⟩)


/-! ### `body`: a piece of the body arrives -/

theorem keepsId_bodyF (ok : Bool) (k : Kind) : KeepsId (tryF (bodyF ok k)) :=
  keepsId_tryF fun _ _ h => (bodyF_fields h).2.1

theorem sim_body {cfg : Cfg} {d d' : RState} {m : Mon} {o : Obs} (hs : Sim cfg d m) (n : Nat) (fin : Bool)
    (hop : replayOp d (.body n fin) = some (d', o)) :
    (monStep cfg m (.body n fin) o).viol = none ∧ Sim cfg d' (monStep cfg m (.body n fin) o).mon := by
  have hst := hs.stateful_st
  have hreq : (Op.body n fin).req = none := rfl
  have hnid := inv_nodupIds hs.inv
  have hba : ∀ st, bookAnswer cfg (effFaults cfg m) m.now (tagOf m (.body n fin)) m.tbl m.pend (.body n fin) st = (m.tbl, m.pend) := by
    intro st; simp [bookAnswer, hs.stateful]
  have hpw := hs.pok.weak
  -- nothing happens: no such POST in progress, or a piece that is not the last one
  have quiet : ∀ (status : St),
      modelOp d (.body n fin) = some { st := d.st, status := status, pend := d.pend, nslow := d.nslow, nasync := d.nasync, released := d.released } →
      (monStep cfg m (.body n fin) o).viol = none ∧ Sim cfg d' (monStep cfg m (.body n fin) o).mon := by
    intro status hmo
    exact sim_quiet_op hs hmo rfl rfl rfl rfl rfl rfl (by simp [countersAfter, hs.nslow, hs.nasync]) (by rw [hreq]; rfl)
      (hba _) rfl rfl rfl (by simp [chkNoId, hreq]) (Nat.le_refl _) (Nat.le_refl _) hop
  cases hfind : d.pend.find? (fun p => p.tag == Tag.u n) with
  | none => apply quiet .noop; simp only [modelOp, hst, Bool.false_eq_true, if_false, hfind]
  | some p =>
    obtain ⟨hp, hpred⟩ := mem_of_find? hfind
    have hptag : p.tag = .u n := by simpa using hpred
    cases fin with
    | false => apply quiet .ok; simp only [modelOp, hst, Bool.false_eq_true, if_false, hfind, Bool.not_false, if_true]
    | true =>
      have hshape := hs.pok.shape p hp
      cases hpk : p.kind with
      | slow a b => apply quiet .noop; simp only [modelOp, hst, Bool.false_eq_true, if_false, hfind, Bool.not_true, hpk]
      | run a b => apply quiet .noop; simp only [modelOp, hst, Bool.false_eq_true, if_false, hfind, Bool.not_true, hpk]
      | del a b => apply quiet .noop; simp only [modelOp, hst, Bool.false_eq_true, if_false, hfind, Bool.not_true, hpk]
      | cls a => apply quiet .noop; simp only [modelOp, hst, Bool.false_eq_true, if_false, hfind, Bool.not_true, hpk]
      | upl i n' usr =>
        have hi : i < d.st.next := hs.pok.minted p hp i (by simp [sidOf, hpk])
        obtain ⟨e, hfe⟩ := findSess_of_lt hs.inv hi
        have hmem := (findSess_some hfe).1
        have hid := (findSess_some hfe).2
        have hk := hs.eok e hmem
        have hg := hs.good hmem
        have hrel := hs.rel e hmem
        rw [hid] at hk
        cases hb : bodyF (d.st.accepts .call) .call e with
        | none =>
          -- (never: the body of a POST in progress can always arrive)
          apply quiet .noop
          simp only [modelOp, hst, Bool.false_eq_true, if_false, hfind, Bool.not_true, hpk, step_postBody_none hst hfe hb]
        | some e1 =>
          have hu : e.upl ≠ 0 := (bodyF_fields hb).2.2.2.2.2.2.2.2.1
          have hstep := step_postBody_ok hst hnid hfe hb
          have htouniq : ∀ e' ∈ d.st.tbl, e'.id = i → e' = e := fun e' he' hid' => entry_unique hs.inv he' hmem (by rw [hid', hid])
          have hrc : e.removed = true → e.closing = true := fun h => (hg.removed h).2.2.2
          have hpne : e.posts ≠ 0 := by rw [hk.posts]; omega
          -- the pending request leaves the list
          have hns1 := nsOf_filter_tag hs.pok.tags hp
          have hnr1 := nrOf_filter_tag hs.pok.tags hp
          have hcntP : ∀ j, nsOf (d.pend.filter (fun q => q.tag != p.tag)) j = nsOf d.pend j ∧
              nrOf (d.pend.filter (fun q => q.tag != p.tag)) j = nrOf d.pend j := by
            intro j
            have h1 := hns1 j
            have h2 := hnr1 j
            have s1 : isSlowOf j p = false := by simp [isSlowOf, hpk]
            have s2 : isRunOf j p = false := by simp [isRunOf, hpk]
            rw [s1] at h1; rw [s2] at h2
            simp at h1 h2
            exact ⟨h1, h2⟩
          have hpo : pendOf p = some (p.tag, sname i) := by simp [pendOf, hpk]
          have hq := eokq_body hk hg hu
          -- the common end
          have key : ∀ (ok : Bool) (st3 : State) (c : Nat) (log : List LogEnt),
              st3 = { d.st with tbl := d.st.tbl.map (lift i (tryF (endPost d.st.now d.st.cfg.timeout false) ∘ (hdK .call (ok && !e.closing) ∘ tryF (bodyF ok .call)))) } →
              Inv st3 →
              modelOp d (.body n true) = some { st := st3, status := .ok, hdr := none, hang := false, done := [(p.tag, c)], log := log, pend := d.pend.filter (fun q => q.tag != p.tag), nslow := d.nslow, nasync := d.nasync, released := d.released } →
              (∀ l ∈ log, l.sess = sname i) →
              (monStep cfg m (.body n true) o).viol = none ∧ Sim cfg d' (monStep cfg m (.body n true) o).mon := by
            intro ok st3 c log hst3 hinv3 hmo hlog
            subst hst3
            have hGk : KeepsId (tryF (endPost d.st.now d.st.cfg.timeout false) ∘ (hdK .call (ok && !e.closing) ∘ tryF (bodyF ok .call))) :=
              keepsId_comp (keepsId_comp (keepsId_bodyF _ _) (keepsId_hdK _ _)) (keepsId_endPost _ _ _)
            have hsettle := settle_lift hs.inv hst (i := i) hGk (fun e he _ => hs.settleE_id _ _ rfl e he)
            have hG : KeepsId (settleE d.st.now d.st.closeFails ∘ (tryF (endPost d.st.now d.st.cfg.timeout false) ∘ (hdK .call (ok && !e.closing) ∘ tryF (bodyF ok .call)))) :=
              keepsId_comp hGk (keepsId_settleE _ _)
            have hGe : (settleE d.st.now d.st.closeFails ∘ (tryF (endPost d.st.now d.st.cfg.timeout false) ∘ (hdK .call (ok && !e.closing) ∘ tryF (bodyF ok .call)))) e =
                settleE d.st.now d.st.closeFails (bodyE d.st.now cfg.timeout e) := by
              show settleE _ _ (tryF _ (hdK _ _ (tryF _ e))) = _
              rw [body_eq ok hk.creating hpne hu hk.pending hrc, hs.cfg_eq]
            have hinv2 : Inv { d.st with tbl := d.st.tbl.map (lift i (settleE d.st.now d.st.closeFails ∘ (tryF (endPost d.st.now d.st.cfg.timeout false) ∘ (hdK .call (ok && !e.closing) ∘ tryF (bodyF ok .call))))) } := by
              rw [← hsettle]; exact settle_inv hinv3
            apply sim_one_op (st2 := { d.st with tbl := d.st.tbl.map (lift i (settleE d.st.now d.st.closeFails ∘ (tryF (endPost d.st.now d.st.cfg.timeout false) ∘ (hdK .call (ok && !e.closing) ∘ tryF (bodyF ok .call))))) })
              hs hmo (Or.inr hsettle) rfl hG rfl rfl rfl rfl hinv2 (pendOkW_filter hpw _)
              (tblX := monUpd m.tbl (sname i) (mPostDone m.now))
            · intro j _; exact hcntP j
            · intro q hq j _ _; exact hs.pok.keep (filter_tag_sub _ _ q hq).1
            · rw [hba]
              simp only [bookSlots]
              show bookDone1 m.now (m.tbl, m.pend) (p.tag, c) = _
              unfold bookDone1
              simp only []
              rw [hs.pend, find_pendOf hs.pok.tags hp hpo]
              simp only [hptag]
              rw [← hptag, filterMap_pendOf_filter d.pend (fun t => t != p.tag)]
              rfl
            · rw [hba]
              simp only [bookSlots]
              rw [hs.run, runOf_filter_tag_other hs.pok.tags hp (by simp [runOf, hpk])]
            · intro j hj; exact monFind_monUpd_ne (keepsName_mPostDone _) _ (sname_ne hj)
            · rw [monUpd_names (keepsName_mPostDone _)]; exact hs.mnodup
            · intro x hx
              obtain ⟨b, hb', hxb⟩ := monUpd_mem (keepsName_mPostDone _) hx
              obtain ⟨j, hj, hn⟩ := hs.minted b hb'
              exact ⟨j, hj, by rw [hxb]; exact hn⟩
            · intro e' he' hid'
              rw [htouniq e' he' hid', hGe, (hcntP i).1, (hcntP i).2]
              refine ⟨eok_settle _ hq, ?_⟩
              have hGid : (settleE d.st.now d.st.closeFails (bodyE d.st.now cfg.timeout e)).id = i := by
                rw [keepsId_settleE, (bodyE_fields _ _ _).1]; exact hid
              unfold RelPreAt
              rw [hGid, monFind_monUpd_self (keepsName_mPostDone _), (hcntP i).1, (hcntP i).2, hs.now]
              unfold RelAt at hrel
              rw [hid] at hrel
              cases hf : monFind m.tbl (sname i) with
              | none =>
                rw [hf] at hrel
                simp only [Option.map_none]
                have : (bodyE d.st.now cfg.timeout e).removed = true := by rw [(bodyE_fields _ _ _).2.2.1]; exact hrel
                rw [settleE_removed_id this]; exact this
              | some a =>
                rw [hf] at hrel
                simp only [Option.map_some]
                apply relpre_settle _ _ hq.notDue
                exact rel_body hrel.toERelPre hk.posts hu (fun ht => hg.refs_posts ht) (fun h => hk.tmr h)
            · rw [hreq]; rfl
            · show chkBodyLog m.pend n log = none
              unfold chkBodyLog
              rw [hs.pend, ← hptag, find_pendOf hs.pok.tags hp hpo]
              simp only []
              apply firstSome_none
              intro l hl
              simp [hlog l hl]
            · simp [chkNoId, hreq]
            · rfl
            · intro h hh; cases hh
            · rfl
            · rfl
            · simp [countersAfter, hs.nslow, hs.nasync]
            · exact hop
          have hn1 : NodupIds (d.st.tbl.map (lift i (tryF (bodyF (d.st.accepts .call) .call)))) :=
            nodupIds_map (keepsId_lift (keepsId_bodyF _ _)) hnid
          cases hacc : d.st.accepts .call with
          | false =>
            rw [hacc] at hstep hn1
            have hresp : postResp d.st .call none e.closing = .storeRefused 500 := by
              simp [postResp, hacc, stStoreOpenFailed, Generated.Sessions.storeOpenFailed]
            rw [hresp] at hstep
            apply key false (doL { d.st with tbl := d.st.tbl.map (lift i (tryF (bodyF false .call))) } (.postEnd (some i) false)) 500 []
            · rw [doL_postEnd (s := { d.st with tbl := d.st.tbl.map (lift i (tryF (bodyF false .call))) }) hst hn1]
              show ({ d.st with tbl := (d.st.tbl.map _).map _ } : State) = _
              rw [map_lift_comp (keepsId_bodyF _ _)]
              simp only [Bool.false_and, hdK_false]
              rfl
            · exact doL_inv (step_inv hs.inv hstep) _
            · simp only [modelOp, hst, Bool.false_eq_true, if_false, hfind, Bool.not_true, hpk, hstep]
            · intro l hl; cases hl
          | true =>
            rw [hacc] at hstep hn1
            have hresp : postResp d.st .call none e.closing = .forward none (!e.closing) := by
              simp [postResp, hacc]
            rw [hresp] at hstep
            have hrun := runHandler_eq (s1 := { d.st with tbl := d.st.tbl.map (lift i (tryF (bodyF true .call))) }) hst hn1 i .call (!e.closing)
            have hn2 : NodupIds ((d.st.tbl.map (lift i (tryF (bodyF true .call)))).map (lift i (hdK .call (!e.closing)))) :=
              nodupIds_map (keepsId_lift (keepsId_hdK _ _)) hn1
            apply key true (doL (runHandler { d.st with tbl := d.st.tbl.map (lift i (tryF (bodyF true .call))) } i .call (!e.closing)) (.postEnd (some i) false))
              200 (if (!e.closing) = true then [⟨sname i, .tok usr, .ping⟩] else [])
            · rw [hrun, doL_postEnd (s := { d.st with tbl := (d.st.tbl.map (lift i (tryF (bodyF true .call)))).map (lift i (hdK .call (!e.closing))) }) hst hn2]
              show ({ d.st with tbl := ((d.st.tbl.map _).map _).map _ } : State) = _
              rw [map_lift_comp (keepsId_bodyF _ _), map_lift_comp]
              · simp only [Bool.true_and]
              · exact keepsId_comp (keepsId_bodyF _ _) (keepsId_hdK _ _)
            · exact doL_inv (runHandler_inv (step_inv hs.inv hstep) _ _ _) _
            · simp only [modelOp, hst, Bool.false_eq_true, if_false, hfind, Bool.not_true, hpk, hstep]
            · intro l hl
              split at hl
              · simp at hl; subst hl; rfl
              · cases hl


/-! ### a body that arrives at once -/

/-- **A POST whose body arrives together with its headers is the special case**: for a POST with a session id that
`lookupSession` lets through (and that does not carry `initialize`), the label `postBegin` is `postHead` followed by
`postBody` — same state, same answer. -/
theorem post_is_head_then_body {s : State} (hi : Inv s) (hst : s.cfg.stateless = false) {i : Nat} {u : User} {k : Kind} {e : Sess}
    (hk : k.isInitialize = false) (hl : lookup s.tbl i u = .ok e) :
    ∃ s1, step s (.postHead (some i) u) = some (s1, .forward none (!e.closing)) ∧
      step s1 (.postBody i k) = step s (.postBegin (some i) u k) := by
  have hn := inv_nodupIds hi
  have hlk := lookup_ok hl
  have hmem := (findSess_some hlk.1).1
  have hpn := (good_inMap (hi.good e hmem) hlk.2.1).2
  have hkH : KeepsId headF := fun x => (headF_fields x).2.1
  refine ⟨{ s with tbl := s.tbl.map (lift i headF) }, step_postHead_ok hst hn hl, ?_⟩
  rw [step_postBegin_ok hst hn hl k]
  have hn1 : NodupIds (s.tbl.map (lift i headF)) := nodupIds_map (keepsId_lift hkH) hn
  have hfe1 : findSess i (s.tbl.map (lift i headF)) = some (headF e) := by
    rw [findSess_map_lift hkH, if_pos rfl, hlk.1]; rfl
  have hbody : ∀ x : Sess, x.pending = none → tryF (bodyF (s.accepts k) k) (headF x) = startPost (s.accepts k) k x := by
    intro x hx
    rcases x with ⟨id, owner, refs, timer, closing, removed, inMap, pending, initialized, creating, busy, initBusy, posts, idleSince, closeErr, upl⟩
    simp only [] at hx
    subst hx
    cases timer <;> simp [tryF, bodyF, headF, startPost, startTimer]
  have hb : bodyF (s.accepts k) k (headF e) = some (startPost (s.accepts k) k e) := by
    have := hbody e hpn
    unfold tryF at this
    cases hbf : bodyF (s.accepts k) k (headF e) with
    | some y => rw [hbf] at this; simpa using this
    | none =>
      exfalso
      have hf := headF_fields e
      unfold bodyF at hbf
      rw [if_neg (by rw [hf.2.2.2.2.2.2.2.2.2, hf.2.2.2.2.2.2.1, hpn]; simp)] at hbf
      cases hbf
  have hm := modify_eq_map hn1 hfe1 hb
  have hacc : ({ s with tbl := s.tbl.map (lift i headF) } : State).accepts k = s.accepts k := rfl
  simp only [step, hst, stepStateful, hk, Bool.false_eq_true, if_false, hfe1, hacc, hm]
  have htbl : (s.tbl.map (lift i headF)).map (lift i (tryF (bodyF (s.accepts k) k))) = s.tbl.map (lift i (startPost (s.accepts k) k)) := by
    rw [map_lift_comp hkH]
    apply List.map_congr_left
    intro x hx
    unfold lift
    by_cases hxi : x.id = i
    · rw [if_pos hxi, if_pos hxi]
      have : x = e := entry_unique hi hx hmem (by rw [hxi, (findSess_some hlk.1).2])
      rw [this]; exact hbody e hpn
    · rw [if_neg hxi, if_neg hxi]
  rw [htbl]
  have hcl : (headF e).closing = e.closing := (headF_fields e).2.2.2.1
  simp [postResp, hk, hcl, State.accepts, State.openFails]

end Sessions
