import McpModel.Sessions.BridgeOps2
/-!
Bridge (E7/C11): server-side close.
-/
namespace Sessions

def dyingF (a : MSess) : MSess := if a.life == .live then { a with life := .dying } else a

theorem keepsName_dyingF : KeepsName dyingF := by intro a; unfold dyingF; split <;> rfl

theorem dyingF_eq (a : MSess) : dyingF a = if a.life = .live then mDying a else a := by
  unfold dyingF mDying
  cases a.life <;> simp

theorem sim_close {cfg : Cfg} {d d' : RState} {m : Mon} {o : Obs} (hs : Sim cfg d m) (ref : Ref)
    (hop : replayOp d (.close ref) = some (d', o)) :
    (monStep cfg m (.close ref) o).viol = none ∧ Sim cfg d' (monStep cfg m (.close ref) o).mon := by
  have hst := hs.stateful_st
  have hreq : (Op.close ref).req = none := rfl
  have noop : modelOp d (.close ref) = some { st := d.st, status := .noop, pend := d.pend, nslow := d.nslow, nasync := d.nasync, released := d.released } →
      (monStep cfg m (.close ref) o).viol = none ∧ Sim cfg d' (monStep cfg m (.close ref) o).mon := by
    intro hmo
    refine sim_quiet_op hs hmo rfl rfl rfl rfl rfl rfl (by simp [countersAfter, hs.nslow, hs.nasync]) (by rw [hreq]; rfl)
      ?_ rfl rfl rfl (by simp [chkNoId, hreq]) (Nat.le_refl _) (Nat.le_refl _) hop
    simp only [bookAnswer]
    split
    · rfl
    · cases ref.name with
      | none => rfl
      | some n => simp
  rcases ref_cases hs ref with ⟨hr, hsid, hname⟩ | ⟨i, hi, hsid, hname⟩ | ⟨j, n, hsid, hj, hname, hnone⟩
  · apply noop; simp [modelOp, hsid]
  · obtain ⟨e, hfe⟩ := findSess_of_lt hs.inv hi
    have hmem := (findSess_some hfe).1
    have hid := (findSess_some hfe).2
    cases hr : e.removed with
    | true => apply noop; simp [modelOp, hsid, isLive, hfe, hr]
    | false =>
      have hk := hs.eok e hmem
      rw [hid] at hk
      have hrel0 := hs.rel e hmem
      unfold RelAt at hrel0
      rw [hid] at hrel0
      cases ha : monFind m.tbl (sname i) with
      | none => rw [ha] at hrel0; rw [hr] at hrel0; cases hrel0
      | some a =>
      rw [ha] at hrel0
      have hrel : ERel cfg (nsOf d.pend i) (nrOf d.pend i) e a := hrel0
      have hnid := inv_nodupIds hs.inv
      have hdoL := doL_serverClose hst hnid i
      have hG : KeepsId (settleE d.st.now d.st.closeFails ∘ tryF closeF) := keepsId_comp keepsId_close (keepsId_settleE _ _)
      have hsettle := settle_lift hs.inv hst (i := i) keepsId_close (fun e he _ => hs.settleE_id _ _ rfl e he)
      obtain ⟨g1, g2, g3, g4, g5, g6⟩ := closeG_facts (cf := d.st.closeFails) hk hr
      have hinv2 : Inv { d.st with tbl := d.st.tbl.map (lift i (settleE d.st.now d.st.closeFails ∘ tryF closeF)) } := by
        rw [← hsettle, ← hdoL]; exact settle_inv (doL_inv hs.inv _)
      have hf2 : findSess i (d.st.tbl.map (lift i (settleE d.st.now d.st.closeFails ∘ tryF closeF))) =
          some ((settleE d.st.now d.st.closeFails ∘ tryF closeF) e) := by
        rw [findSess_map_lift hG, if_pos rfl, hfe]; rfl
      have hlive2 : isLive { d.st with tbl := d.st.tbl.map (lift i (settleE d.st.now d.st.closeFails ∘ tryF closeF)) } i =
          !decide (nsOf d.pend i + nrOf d.pend i = 0) := by
        rw [isLive_eq hf2, g3]
      have hlive1 : isLive d.st i = true := by rw [isLive_eq hfe, hr]; rfl
      have htouniq : ∀ e' ∈ d.st.tbl, e'.id = i → e' = e := fun e' he' hid' => entry_unique hs.inv he' hmem (by rw [hid', hid])
      by_cases hbz : nsOf d.pend i + nrOf d.pend i = 0
      · -- the close completes at once
        have hmo : ∃ stt, (stt = St.ok ∨ stt = St.err) ∧ modelOp d (.close ref) = some { st := { d.st with tbl := d.st.tbl.map (lift i (settleE d.st.now d.st.closeFails ∘ tryF closeF)) }, status := stt, hdr := none, hang := false, done := [], log := [], pend := d.pend, nslow := d.nslow, nasync := d.nasync + 1, released := d.released } := by
          simp only [modelOp, hsid, hst, hlive1, hdoL, hsettle, hlive2, hbz]
          cases closeErrOf { d.st with tbl := d.st.tbl.map (lift i (settleE d.st.now d.st.closeFails ∘ tryF closeF)) } i
          · exact ⟨.ok, Or.inl rfl, by simp⟩
          · exact ⟨.err, Or.inr rfl, by simp⟩
        obtain ⟨stt, hstt, hmo⟩ := hmo
        have hba : bookAnswer cfg (effFaults cfg m) m.now (tagOf m (.close ref)) m.tbl m.pend (.close ref) stt =
            (monUpd m.tbl (sname i) mDead, m.pend) := by
          rcases hstt with h | h <;> subst h <;> simp [bookAnswer, hs.stateful, hname] <;> rfl
        have hne : stt ≠ .noop := by rcases hstt with h | h <;> subst h <;> simp
        apply sim_one_op hs hmo (Or.inl rfl) rfl hG rfl rfl rfl rfl hinv2 (pendOkW_counters hs.pok.weak (Nat.le_refl _) (Nat.le_succ _))
          (fun j _ => ⟨rfl, rfl⟩) (fun p hp j _ _ => hs.pok.keep hp)
          (tblX := monUpd m.tbl (sname i) mDead)
        · rw [hba]; show bookDone _ _ _ [] = _; simp [bookSlots, bookDone, hs.pend]
        · rw [hba]; simp [bookSlots, hs.run]
        · intro j hj; exact monFind_monUpd_ne keepsName_mDead _ (sname_ne hj)
        · rw [monUpd_names keepsName_mDead]; exact hs.mnodup
        · intro x hx
          obtain ⟨b, hb, hxb⟩ := monUpd_mem keepsName_mDead hx
          obtain ⟨j, hj, hn⟩ := hs.minted b hb
          exact ⟨j, hj, by rw [hxb]; exact hn⟩
        · intro e' he' hid'
          rw [htouniq e' he' hid']
          refine ⟨g2, ?_⟩
          unfold RelPreAt
          rw [g4, hid, monFind_monUpd_self keepsName_mDead, ha]
          simp only [Option.map_some]
          apply rel_nonlive
          · rw [g5]; exact hrel.owner
          · simp [mDead]
          · intro _; rw [g3]; simp [hbz]
          · left; rw [g3]; simp [hbz]
        · rw [hreq]; rfl
        · exact chkLogOp_nil _ _ _ _
        · simp [chkNoId, hreq]
        · rfl
        · intro h hh; cases hh
        · rfl
        · rfl
        · simp [countersAfter, hne, hs.nslow, hs.nasync]
        · exact hop
      · -- handlers are still running: `Close()` waits
        have hmo : modelOp d (.close ref) = some { st := { d.st with tbl := d.st.tbl.map (lift i (settleE d.st.now d.st.closeFails ∘ tryF closeF)) }, status := .pending, hdr := none, hang := false, done := [], log := [], pend := d.pend ++ [Pend.mk (Tag.c (d.nasync + 1)) (PendKind.cls i)], nslow := d.nslow, nasync := d.nasync + 1, released := d.released } := by
          simp only [modelOp, hsid, hst, hlive1, hdoL, hsettle, hlive2, hbz]
          simp
        have hba : bookAnswer cfg (effFaults cfg m) m.now (tagOf m (.close ref)) m.tbl m.pend (.close ref) .pending =
            (monUpd m.tbl (sname i) dyingF, (d.pend ++ [Pend.mk (Tag.c (d.nasync + 1)) (PendKind.cls i)]).filterMap pendOf) := by
          simp [bookAnswer, hs.stateful, hname, tagOf, hs.nasync, hs.pend, pendOf]
          congr 1
          funext x
          unfold dyingF
          cases x.life <;> simp
        have hnsP : ∀ j, nsOf (d.pend ++ [Pend.mk (Tag.c (d.nasync + 1)) (PendKind.cls i)]) j = nsOf d.pend j ∧
            nrOf (d.pend ++ [Pend.mk (Tag.c (d.nasync + 1)) (PendKind.cls i)]) j = nrOf d.pend j :=
          fun j => ⟨nsOf_append_other _ _ _ rfl, nrOf_append_other _ _ _ rfl⟩
        apply sim_one_op hs hmo (Or.inl rfl) rfl hG rfl rfl rfl rfl hinv2
          (pendOkW_append_close hs.pok.weak (Pend.mk (Tag.c (d.nasync + 1)) (PendKind.cls i)) hi (Or.inr ⟨rfl, rfl⟩))
          (fun j _ => hnsP j)
          (tblX := monUpd m.tbl (sname i) dyingF)
        · intro p hp j hj hji
          rcases List.mem_append.mp hp with hp | hp
          · exact hs.pok.keep hp
          · simp at hp; subst hp
            simp [sidOf] at hj; exact absurd hj.symm hji
        · rw [hba]; show bookDone _ _ _ [] = _; simp [bookSlots, bookDone]
        · rw [hba]
          simp only [bookSlots]
          rw [hs.run, List.filterMap_append]
          simp [runOf]
        · intro j hj; exact monFind_monUpd_ne keepsName_dyingF _ (sname_ne hj)
        · rw [monUpd_names keepsName_dyingF]; exact hs.mnodup
        · intro x hx
          obtain ⟨b, hb, hxb⟩ := monUpd_mem keepsName_dyingF hx
          obtain ⟨j, hj, hn⟩ := hs.minted b hb
          exact ⟨j, hj, by rw [hxb]; exact hn⟩
        · intro e' he' hid'
          rw [htouniq e' he' hid', (hnsP i).1, (hnsP i).2]
          refine ⟨g2, ?_⟩
          unfold RelPreAt
          rw [g4, hid, monFind_monUpd_self keepsName_dyingF, ha, (hnsP i).1, (hnsP i).2]
          simp only [Option.map_some]
          rw [g1, dyingF_eq]
          exact relpre_settle _ (rel_closing hrel.toERelPre hr) (eokq_close hk).notDue
        · rw [hreq]; rfl
        · exact chkLogOp_nil _ _ _ _
        · simp [chkNoId, hreq]
        · rfl
        · intro h hh; cases hh
        · rfl
        · rfl
        · simp [countersAfter, hs.nslow, hs.nasync]
        · exact hop
  · apply noop
    have hf := findSess_none_of_ge hs.inv hj
    simp [modelOp, hsid, isLive, hf]

end Sessions
