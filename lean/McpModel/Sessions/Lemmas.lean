import McpModel.Sessions.Model
/-!
Helper lemmas for E7: shape of `modify`, the per-entry invariant `Good`, and the global invariant
`Inv` with its preservation by every label.
-/
namespace Sessions

/-! ### `findSess` / `modify` -/

theorem findSess_some {i : Nat} {t : List Sess} {e : Sess} (h : findSess i t = some e) :
    e ∈ t ∧ e.id = i := by
  induction t with
  | nil => simp [findSess] at h
  | cons x t ih =>
    simp only [findSess] at h
    split at h
    · cases h; exact ⟨List.mem_cons_self, by assumption⟩
    · have := ih h; exact ⟨List.mem_cons_of_mem _ this.1, this.2⟩

theorem findSess_none {i : Nat} {t : List Sess} (h : findSess i t = none) : ∀ e ∈ t, e.id ≠ i := by
  induction t with
  | nil => intro e he; cases he
  | cons x t ih =>
    simp only [findSess] at h
    split at h
    · cases h
    · intro e he
      cases he with
      | head => assumption
      | tail _ hm => exact ih h e hm

/-- `modify` rewrites exactly the first entry with id `i` — the one `findSess` returns. -/
theorem modify_some {i : Nat} {f : Sess → Option Sess} {t t' : List Sess} (h : modify i f t = some t') :
    ∃ pre e post e', t = pre ++ e :: post ∧ t' = pre ++ e' :: post ∧ (∀ x ∈ pre, x.id ≠ i) ∧
      e.id = i ∧ f e = some e' ∧ findSess i t = some e := by
  induction t generalizing t' with
  | nil => simp [modify] at h
  | cons x t ih =>
    simp only [modify] at h
    split at h
    · rename_i hx
      split at h
      · rename_i e' he'
        cases h
        exact ⟨[], x, t, e', rfl, rfl, (by intro y hy; cases hy), hx, he', (by simp [findSess, hx])⟩
      · cases h
    · rename_i hx
      split at h
      · rename_i t'' ht''
        cases h
        obtain ⟨pre, e, post, e', h1, h2, h3, h4, h5, h6⟩ := ih ht''
        refine ⟨x :: pre, e, post, e', by simp [h1], by simp [h2], ?_, h4, h5, by simp [findSess, hx, h6]⟩
        intro y hy
        cases hy with
        | head => exact hx
        | tail _ hm => exact h3 y hm
      · cases h

theorem modify_enabled {i : Nat} {f : Sess → Option Sess} {t : List Sess} {e e' : Sess}
    (h : findSess i t = some e) (hf : f e = some e') : ∃ t', modify i f t = some t' := by
  induction t with
  | nil => simp [findSess] at h
  | cons x t ih =>
    simp only [findSess] at h
    split at h
    · rename_i hx
      cases h
      exact ⟨e' :: t, by simp [modify, hx, hf]⟩
    · rename_i hx
      obtain ⟨t', ht'⟩ := ih h
      exact ⟨x :: t', by simp [modify, hx, ht']⟩

/-! ### the per-entry invariant -/

/-- What holds of every entry of the table in every reachable state (with the repaired publication). -/
structure Good (cfg : Cfg) (now : Nat) (e : Sess) : Prop where
  refs_posts : e.timer ≠ .nil → e.refs = e.posts
  armed : ∀ d, e.timer = .armed d → e.refs = 0 ∧ d = e.idleSince + cfg.timeout
  removed : e.removed = true → e.inMap = false ∧ e.busy = 0 ∧ e.initBusy = 0 ∧ e.closing = true
  unpublished : e.inMap = false → e.timer = .nil ∧ (e.removed = true ∨ e.pending.isSome = true)
  pending : e.pending.isSome = true →
    e.creating = true ∧ e.inMap = false ∧ e.busy = 0 ∧ e.initBusy = 0 ∧ e.posts = 1
  no_timeout : cfg.timeout = 0 → e.timer = .nil
  creating : e.creating = true → 1 ≤ e.posts
  idle : e.idleSince ≤ now
  closeErr : e.closeErr = true → e.removed = true ∧ cfg.eventStore = true

theorem Good.mono {cfg : Cfg} {now now' : Nat} {e : Sess} (h : Good cfg now e) (hn : now ≤ now') :
    Good cfg now' e :=
  { h with idle := Nat.le_trans h.idle hn }

theorem good_newSess (s : State) (u : User) (k : Kind) : Good s.cfg s.now (newSess s u k) := by
  constructor <;> simp [newSess]

theorem good_failedSess (s : State) (u : User) : Good s.cfg s.now (failedSess s u) := by
  constructor <;> simp [failedSess]

/-- Changes that leave timer, counters, publication and creation state alone keep `Good` on an entry
that is not removed and not waiting for publication. -/
theorem good_frame {cfg : Cfg} {now : Nat} {e e' : Sess} (h : Good cfg now e) (hr : e'.removed = false)
    (hp : e'.pending = none) (hp0 : e.pending = none)
    (h1 : e'.timer = e.timer) (h2 : e'.refs = e.refs) (h3 : e'.posts = e.posts)
    (h4 : e'.creating = e.creating) (h5 : e'.idleSince = e.idleSince) (h6 : e'.inMap = e.inMap)
    (h7 : e.removed = false) (h8 : e'.closeErr = e.closeErr) : Good cfg now e' := by
  obtain ⟨g1, g2, g3, g4, g5, g6, g7, g8, g9⟩ := h
  constructor
  · rw [h1, h2, h3]; exact g1
  · intro d hd; rw [h1] at hd; rw [h2, h5]; exact g2 d hd
  · intro hx; rw [hr] at hx; cases hx
  · intro hx; rw [h6] at hx; rw [h1]
    have := g4 hx
    rw [h7, hp0] at this
    simp at this
  · intro hx; rw [hp] at hx; cases hx
  · intro hx; rw [h1]; exact g6 hx
  · intro hx; rw [h4] at hx; rw [h3]; exact g7 hx
  · rw [h5]; exact g8
  · intro hx; rw [h8] at hx; have := (g9 hx).1; rw [h7] at this; cases this

/-- An entry that is in the map is neither removed nor waiting for publication. -/
theorem good_inMap {cfg : Cfg} {now : Nat} {e : Sess} (h : Good cfg now e) (hm : e.inMap = true) :
    e.removed = false ∧ e.pending = none := by
  refine ⟨?_, ?_⟩
  · cases hr : e.removed with
    | false => rfl
    | true => have := (h.removed hr).1; rw [hm] at this; cases this
  · cases hp : e.pending with
    | none => rfl
    | some k => have := (h.pending (by simp [hp])).2.1; rw [hm] at this; cases this

theorem good_startTimer {cfg : Cfg} {now : Nat} {e : Sess} (h : Good cfg now e) (hm : e.inMap = true) :
    Good cfg now (startTimer e) := by
  have ⟨hr, hp⟩ := good_inMap h hm
  obtain ⟨g1, g2, g3, g4, g5, g6, g7, g8, g9⟩ := h
  cases ht : e.timer with
  | nil =>
    simp only [startTimer, ht]
    constructor <;> simp_all <;> omega
  | stopped =>
    have := g1 (by simp [ht])
    simp only [startTimer, ht]
    constructor <;> simp_all
  | armed d =>
    have := g1 (by simp [ht])
    have := (g2 d ht).1
    simp only [startTimer, ht]
    constructor <;> simp_all

theorem deliver_fields (ok : Bool) (k : Kind) (e : Sess) :
    (deliver ok k e).removed = e.removed ∧ (deliver ok k e).timer = e.timer ∧ (deliver ok k e).refs = e.refs ∧
    (deliver ok k e).posts = e.posts ∧ (deliver ok k e).creating = e.creating ∧
    (deliver ok k e).idleSince = e.idleSince ∧ (deliver ok k e).id = e.id ∧ (deliver ok k e).owner = e.owner ∧
    (deliver ok k e).closing = e.closing ∧ (deliver ok k e).inMap = e.inMap ∧ (deliver ok k e).pending = e.pending ∧
    (deliver ok k e).closeErr = e.closeErr := by
  unfold deliver
  split
  · simp
  · cases k <;> simp

/-- Nothing is handed to a session whose close has begun. -/
theorem deliver_closing (ok : Bool) (k : Kind) {e : Sess} (h : e.closing = true) : deliver ok k e = e := by
  simp [deliver, h]

theorem startTimer_fields (e : Sess) :
    (startTimer e).removed = e.removed ∧ (startTimer e).id = e.id ∧ (startTimer e).owner = e.owner ∧
    (startTimer e).closing = e.closing ∧ (startTimer e).posts = e.posts + 1 ∧
    (startTimer e).inMap = e.inMap ∧ (startTimer e).pending = e.pending ∧
    (startTimer e).busy = e.busy ∧ (startTimer e).initBusy = e.initBusy := by
  unfold startTimer
  split <;> simp

theorem good_deliver {cfg : Cfg} {now : Nat} {e : Sess} (ok : Bool) (k : Kind) (h : Good cfg now e)
    (hm : e.inMap = true) : Good cfg now (deliver ok k e) := by
  have ⟨hr, hp⟩ := good_inMap h hm
  have hf := deliver_fields ok k e
  exact good_frame h (by rw [hf.1, hr]) (by rw [hf.2.2.2.2.2.2.2.2.2.2.1, hp]) hp hf.2.1 hf.2.2.1 hf.2.2.2.1
    hf.2.2.2.2.1 hf.2.2.2.2.2.1 hf.2.2.2.2.2.2.2.2.2.1 hr hf.2.2.2.2.2.2.2.2.2.2.2

theorem good_startPost {cfg : Cfg} {now : Nat} {e : Sess} (ok : Bool) (k : Kind) (h : Good cfg now e)
    (hm : e.inMap = true) : Good cfg now (startPost ok k e) := by
  have h1 := good_startTimer h hm
  have hs := startTimer_fields e
  show Good cfg now (deliver ok k (startTimer e))
  exact good_deliver ok k h1 (by rw [hs.2.2.2.2.2.1, hm])

theorem good_publish {cfg : Cfg} {now : Nat} {e e' : Sess} {ok : Bool} (h : Good cfg now e)
    (he : publishF true cfg.timeout ok e = some e') : Good cfg now e' := by
  unfold publishF at he
  split at he
  · cases he
  · rename_i k hk
    have hp := h.pending (by simp [hk])
    have hu := h.unpublished hp.2.1
    by_cases hr : e.removed = true
    · simp only [hr, Bool.and_self, if_true] at he
      cases he
      have hrm := h.removed hr
      obtain ⟨g1, g2, g3, g4, g5, g6, g7, g8, g9⟩ := h
      constructor <;> simp_all
    · have hr : e.removed = false := by simpa using hr
      simp only [hr, Bool.and_false] at he
      simp at he
      subst he
      have base : Good cfg now (publishedSess cfg.timeout e) := by
        obtain ⟨g1, g2, g3, g4, g5, g6, g7, g8, g9⟩ := h
        unfold publishedSess
        by_cases hz : cfg.timeout = 0
        · constructor <;> simp_all
        · constructor <;> simp_all
      exact good_deliver ok k base (by simp [publishedSess])

theorem good_endPost {cfg : Cfg} {now : Nat} {e e' : Sess} (creator : Bool) (h : Good cfg now e)
    (he : endPost now cfg.timeout creator e = some e') : Good cfg now e' := by
  obtain ⟨g1, g2, g3, g4, g5, g6, g7, g8, g9⟩ := h
  unfold endPost at he
  split at he
  · cases he
  split at he
  · cases he
  split at he
  · cases he
  rename_i hp hc1 hc2
  cases ht : e.timer with
  | nil =>
    simp only [ht] at he
    cases creator
    · simp at he; subst he
      constructor <;> simp_all <;> (first | omega | (intro hcr; have := g7 hcr; have := hc2 hcr; omega) | (cases hcr : e.creating <;> simp_all <;> omega))
    · simp at he; subst he
      constructor <;> simp_all
  | stopped =>
    have hrp := g1 (by simp [ht])
    simp only [ht] at he
    by_cases hz : e.refs - 1 = 0
    · simp only [hz] at he
      cases creator
      · simp at he; subst he
        constructor <;> simp_all <;> (first | omega | (intro hcr; have := g7 hcr; have := hc2 hcr; omega) | (cases hcr : e.creating <;> simp_all <;> omega))
      · simp at he; subst he
        constructor <;> simp_all <;> (first | omega | (intro hcr; have := g7 hcr; have := hc2 hcr; omega) | (cases hcr : e.creating <;> simp_all <;> omega))
    · simp only [hz] at he
      cases creator
      · simp at he; subst he
        constructor <;> simp_all <;> (first | omega | (intro hcr; have := g7 hcr; have := hc2 hcr; omega) | (cases hcr : e.creating <;> simp_all <;> omega))
      · simp at he; subst he
        constructor <;> simp_all
  | armed d =>
    have hrp := g1 (by simp [ht])
    have h0 := (g2 d ht).1
    omega

theorem good_handlerDone {cfg : Cfg} {now : Nat} {e e' : Sess} (b : Bool) (h : Good cfg now e)
    (he : handlerDoneF b e = some e') : Good cfg now e' := by
  have hpn : e.busy ≠ 0 ∨ e.initBusy ≠ 0 → e.pending = none := by
    intro hb
    cases hp : e.pending with
    | none => rfl
    | some k =>
      have := h.pending (by simp [hp])
      omega
  unfold handlerDoneF at he
  split at he
  · cases he
  rename_i hr
  have hr : e.removed = false := by simpa using hr
  split at he
  · split at he
    · cases he
    · rename_i hb
      cases he
      have hp := hpn (Or.inr hb)
      exact good_frame h hr hp hp rfl rfl rfl rfl rfl rfl hr rfl
  · split at he
    · cases he
    · rename_i hb
      cases he
      have hp := hpn (Or.inl hb)
      exact good_frame h hr hp hp rfl rfl rfl rfl rfl rfl hr rfl

theorem good_timerFire {cfg : Cfg} {now : Nat} {e e' : Sess} (h : Good cfg now e)
    (he : timerFireF now e = some e') : Good cfg now e' := by
  obtain ⟨g1, g2, g3, g4, g5, g6, g7, g8, g9⟩ := h
  unfold timerFireF at he
  split at he
  · cases he
  split at he
  · rename_i d ht
    split at he
    · cases he
      have := g1 (by simp [ht])
      constructor <;> simp_all
    · cases he
  · cases he

theorem good_close {cfg : Cfg} {now : Nat} {e e' : Sess} (h : Good cfg now e)
    (he : closeF e = some e') : Good cfg now e' := by
  obtain ⟨g1, g2, g3, g4, g5, g6, g7, g8, g9⟩ := h
  unfold closeF at he
  split at he
  · cases he
  · cases he
    constructor <;> simp_all

theorem good_closeDone {cfg : Cfg} {now : Nat} {e e' : Sess} {err : Bool} (h : Good cfg now e)
    (herr : err = true → cfg.eventStore = true) (he : closeDoneF err e = some e') : Good cfg now e' := by
  obtain ⟨g1, g2, g3, g4, g5, g6, g7, g8, g9⟩ := h
  unfold closeDoneF at he
  split at he
  · cases he
  · rename_i hc
    cases he
    constructor <;> simp_all

theorem good_upl {cfg : Cfg} {now : Nat} {e : Sess} (n : Nat) (h : Good cfg now e) : Good cfg now { e with upl := n } := by
  obtain ⟨g1, g2, g3, g4, g5, g6, g7, g8, g9⟩ := h
  exact ⟨g1, g2, g3, g4, g5, g6, g7, g8, g9⟩

theorem good_head {cfg : Cfg} {now : Nat} {e : Sess} (h : Good cfg now e) (hm : e.inMap = true) :
    Good cfg now (headF e) := good_upl _ (good_startTimer h hm)

theorem good_body {cfg : Cfg} {now : Nat} {e e' : Sess} {ok : Bool} {k : Kind} (h : Good cfg now e)
    (he : bodyF ok k e = some e') : Good cfg now e' := by
  unfold bodyF at he
  split at he
  · cases he
  · rename_i hc
    cases he
    have hp : e.pending = none := by
      cases hp : e.pending with
      | none => rfl
      | some x => simp [hp] at hc
    by_cases hcl : e.closing = true
    · rw [deliver_closing ok k (e := { e with upl := e.upl - 1 }) hcl]; exact good_upl _ h
    · have hcl : e.closing = false := by simpa using hcl
      have hr : e.removed = false := by
        cases hr : e.removed with
        | false => rfl
        | true => have := (h.removed hr).2.2.2; rw [hcl] at this; cases this
      have hf := deliver_fields ok k { e with upl := e.upl - 1 }
      exact good_frame (good_upl (e.upl - 1) h) (by rw [hf.1]; exact hr) (by rw [hf.2.2.2.2.2.2.2.2.2.2.1]; exact hp) hp
        hf.2.1 hf.2.2.1 hf.2.2.2.1 hf.2.2.2.2.1 hf.2.2.2.2.2.1 hf.2.2.2.2.2.2.2.2.2.1 hr hf.2.2.2.2.2.2.2.2.2.2.2

theorem headF_fields (e : Sess) :
    (headF e).removed = e.removed ∧ (headF e).id = e.id ∧ (headF e).owner = e.owner ∧
    (headF e).closing = e.closing ∧ (headF e).posts = e.posts + 1 ∧
    (headF e).inMap = e.inMap ∧ (headF e).pending = e.pending ∧
    (headF e).busy = e.busy ∧ (headF e).initBusy = e.initBusy ∧ (headF e).upl = e.upl + 1 := by
  have hs := startTimer_fields e
  exact ⟨hs.1, hs.2.1, hs.2.2.1, hs.2.2.2.1, hs.2.2.2.2.1, hs.2.2.2.2.2.1, hs.2.2.2.2.2.2.1, hs.2.2.2.2.2.2.2.1,
    hs.2.2.2.2.2.2.2.2, rfl⟩

theorem bodyF_fields {ok : Bool} {k : Kind} {e e' : Sess} (h : bodyF ok k e = some e') :
    e'.removed = e.removed ∧ e'.id = e.id ∧ e'.owner = e.owner ∧ e'.closing = e.closing ∧ e'.posts = e.posts ∧
    e'.inMap = e.inMap ∧ e'.timer = e.timer ∧ e'.refs = e.refs ∧ e.upl ≠ 0 ∧
    (e.closing = true → e'.busy = e.busy ∧ e'.initBusy = e.initBusy) := by
  unfold bodyF at h
  split at h
  · cases h
  · rename_i hc
    cases h
    have hf := deliver_fields ok k { e with upl := e.upl - 1 }
    refine ⟨hf.1, hf.2.2.2.2.2.2.1, hf.2.2.2.2.2.2.2.1, hf.2.2.2.2.2.2.2.2.1, hf.2.2.2.1, hf.2.2.2.2.2.2.2.2.2.1,
      hf.2.1, hf.2.2.1, ?_, ?_⟩
    · intro h0; simp [h0] at hc
    · intro hcl
      rw [deliver_closing ok k (e := { e with upl := e.upl - 1 }) hcl]
      exact ⟨rfl, rfl⟩

/-! ### one label, seen from the table -/

/-- How a single entry can move in one label. -/
inductive Move (s : State) : Sess → Sess → Prop where
  | start (e : Sess) (ok : Bool) (k : Kind) (u : User) : lookup s.tbl e.id u = .ok e → Move s e (startPost ok k e)
  | hdone (e e' : Sess) (b : Bool) : handlerDoneF b e = some e' → Move s e e'
  | pend (e e' : Sess) (c : Bool) : endPost s.now s.cfg.timeout c e = some e' → Move s e e'
  | publish (e e' : Sess) (ok : Bool) : publishF s.cfg.publishChecks s.cfg.timeout ok e = some e' → Move s e e'
  | fire (e e' : Sess) : timerFireF s.now e = some e' → Move s e e'
  | close (e e' : Sess) : closeF e = some e' → Move s e e'
  | cdone (e e' : Sess) : closeDoneF s.closeFails e = some e' → Move s e e'
  | head (e : Sess) (u : User) : lookup s.tbl e.id u = .ok e → Move s e (headF e)
  | body (e e' : Sess) (ok : Bool) (k : Kind) : bodyF ok k e = some e' → Move s e e'

theorem lookup_ok {t : List Sess} {i : Nat} {u : User} {e : Sess} (h : lookup t i u = .ok e) :
    findSess i t = some e ∧ e.inMap = true ∧ (e.owner = none ∨ e.owner = u) := by
  unfold lookup at h
  split at h
  · cases h
  · rename_i e0 hf
    split at h
    · cases h
    · rename_i hr
      split at h
      · rename_i ho
        cases h
        exact ⟨hf, by simpa using hr, Or.inl ho⟩
      · rename_i o ho
        split at h
        · rename_i hu
          cases h
          exact ⟨hf, by simpa using hr, Or.inr (by rw [ho, hu])⟩
        · cases h

/-- The three shapes of a step: table untouched, an id minted (a session created, or — when the
event store refuses `Connect` — an id that never names a session), one entry moved. -/
theorem step_cases {s s' : State} {l : Label} {r : Resp} (h : step s l = some (s', r)) :
    s'.cfg = s.cfg ∧ s.now ≤ s'.now ∧
    ((s'.tbl = s.tbl ∧ s'.next = s.next) ∨
     (∃ u k e0, l = .postBegin none u k ∧ s.cfg.stateless = false ∧ s'.tbl = s.tbl ++ [e0] ∧
        ((e0 = newSess s u k ∧ s.connectFails = false ∧ r = .tau) ∨
         (e0 = failedSess s u ∧ s.connectFails = true ∧ r = .reject stConnectFailed)) ∧
        s'.next = s.next + 1 ∧ s'.now = s.now) ∨
     (∃ pre e post e', s.tbl = pre ++ e :: post ∧ s'.tbl = pre ++ e' :: post ∧
        (∀ x ∈ pre, x.id ≠ e.id) ∧ Move s e e' ∧ s'.next = s.next ∧ s'.now = s.now ∧
        s.cfg.stateless = false)) := by
  unfold step at h
  split at h
  · -- stateless
    cases l <;> simp only [stepStateless] at h
    case postBegin => split at h <;> (cases h; simp)
    case postEnd sid c =>
      cases sid <;> simp only [] at h
      · split at h
        · cases h
        · cases h; simp
      · cases h
    case get => cases h; simp
    case delete => cases h; simp
    case other => cases h; simp
    case tick => cases h; simp
    case faults => cases h; simp
    all_goals cases h
  · rename_i hst
    have hst : s.cfg.stateless = false := by simpa using hst
    have mv : ∀ {i : Nat} {f : Sess → Option Sess} {t : List Sess}, modify i f s.tbl = some t →
        (∀ e e', findSess i s.tbl = some e → f e = some e' → Move s e e') →
        ∃ pre e post e', s.tbl = pre ++ e :: post ∧ t = pre ++ e' :: post ∧
          (∀ x ∈ pre, x.id ≠ e.id) ∧ Move s e e' := by
      intro i f t hm hmove
      obtain ⟨pre, e, post, e', h1, h2, h3, h4, h5, h6⟩ := modify_some hm
      exact ⟨pre, e, post, e', h1, h2, by rw [h4]; exact h3, hmove e e' h6 h5⟩
    cases l <;> simp only [stepStateful] at h
    case postBegin sid u k =>
      cases sid <;> simp only [] at h
      · split at h
        · rename_i hcf
          cases h
          exact ⟨rfl, Nat.le_refl _, Or.inr (Or.inl ⟨u, k, _, rfl, hst, rfl, Or.inr ⟨rfl, hcf, rfl⟩, rfl, rfl⟩)⟩
        · rename_i hcf
          cases h
          exact ⟨rfl, Nat.le_refl _, Or.inr (Or.inl ⟨u, k, _, rfl, hst, rfl,
            Or.inl ⟨rfl, by simpa using hcf, rfl⟩, rfl, rfl⟩)⟩
      · rename_i i
        split at h
        · cases h; simp
        · rename_i e hl
          split at h
          · cases h
          · rename_i t hm
            cases h
            obtain ⟨pre, e1, post, e', h1, h2, h3, h4⟩ := mv hm (by
              intro e1 e' hf he'
              have := lookup_ok hl
              rw [this.1] at hf; cases hf
              cases he'
              have hid := (findSess_some this.1).2
              exact Move.start e _ k u (by rw [hid]; exact hl))
            exact ⟨rfl, Nat.le_refl _, Or.inr (Or.inr ⟨pre, e1, post, e', h1, h2, h3, h4, rfl, rfl, hst⟩)⟩
    case postHead sid u =>
      cases sid <;> simp only [] at h
      · cases h
      · rename_i i
        split at h
        · cases h; simp
        · rename_i e hl
          split at h
          · cases h
          · rename_i t hm
            cases h
            obtain ⟨pre, e1, post, e', h1, h2, h3, h4⟩ := mv hm (by
              intro e1 e' hf he'
              have := lookup_ok hl
              rw [this.1] at hf; cases hf
              cases he'
              have hid := (findSess_some this.1).2
              exact Move.head e u (by rw [hid]; exact hl))
            exact ⟨rfl, Nat.le_refl _, Or.inr (Or.inr ⟨pre, e1, post, e', h1, h2, h3, h4, rfl, rfl, hst⟩)⟩
    case postBody i k =>
      split at h
      · cases h
      split at h
      · cases h
      · split at h
        · cases h
        · rename_i t hm
          cases h
          obtain ⟨pre, e1, post, e', h1, h2, h3, h4⟩ := mv hm (fun e e' _ he' => Move.body e e' _ k he')
          exact ⟨rfl, Nat.le_refl _, Or.inr (Or.inr ⟨pre, e1, post, e', h1, h2, h3, h4, rfl, rfl, hst⟩)⟩
    case handlerDone i b =>
      split at h
      · cases h
      · rename_i t hm
        cases h
        obtain ⟨pre, e1, post, e', h1, h2, h3, h4⟩ := mv hm (fun e e' _ he' => Move.hdone e e' b he')
        exact ⟨rfl, Nat.le_refl _, Or.inr (Or.inr ⟨pre, e1, post, e', h1, h2, h3, h4, rfl, rfl, hst⟩)⟩
    case postEnd sid c =>
      cases sid <;> simp only [] at h
      · cases h
      · split at h
        · cases h
        · rename_i t hm
          cases h
          obtain ⟨pre, e1, post, e', h1, h2, h3, h4⟩ := mv hm (fun e e' _ he' => Move.pend e e' c he')
          exact ⟨rfl, Nat.le_refl _, Or.inr (Or.inr ⟨pre, e1, post, e', h1, h2, h3, h4, rfl, rfl, hst⟩)⟩
    case get sid u =>
      cases sid <;> simp only [] at h
      · cases h; simp
      · split at h
        · cases h; simp
        · split at h <;> (cases h; simp)
    case delete sid u =>
      cases sid <;> simp only [] at h
      · cases h; simp
      · split at h
        · cases h; simp
        · split at h
          · cases h; simp
          · rename_i t hm
            cases h
            obtain ⟨pre, e1, post, e', h1, h2, h3, h4⟩ := mv hm (fun e e' _ he' => Move.close e e' he')
            exact ⟨rfl, Nat.le_refl _, Or.inr (Or.inr ⟨pre, e1, post, e', h1, h2, h3, h4, rfl, rfl, hst⟩)⟩
    case publish i =>
      split at h
      · rename_i e hf
        split at h
        · rename_i k hk
          split at h
          · rename_i t hm
            cases h
            obtain ⟨pre, e1, post, e', h1, h2, h3, h4⟩ := mv hm (fun e e' _ he' => Move.publish e e' _ he')
            exact ⟨rfl, Nat.le_refl _, Or.inr (Or.inr ⟨pre, e1, post, e', h1, h2, h3, h4, rfl, rfl, hst⟩)⟩
          · cases h
        · cases h
      · cases h
    case other => cases h; simp
    case tick d => cases h; simp
    case faults f => cases h; simp
    case timerFire i =>
      split at h
      · cases h
      · rename_i t hm
        cases h
        obtain ⟨pre, e1, post, e', h1, h2, h3, h4⟩ := mv hm (fun e e' _ he' => Move.fire e e' he')
        exact ⟨rfl, Nat.le_refl _, Or.inr (Or.inr ⟨pre, e1, post, e', h1, h2, h3, h4, rfl, rfl, hst⟩)⟩
    case serverClose i =>
      split at h
      · cases h
      · rename_i t hm
        cases h
        obtain ⟨pre, e1, post, e', h1, h2, h3, h4⟩ := mv hm (fun e e' _ he' => Move.close e e' he')
        exact ⟨rfl, Nat.le_refl _, Or.inr (Or.inr ⟨pre, e1, post, e', h1, h2, h3, h4, rfl, rfl, hst⟩)⟩
    case closeDone i =>
      split at h
      · cases h
      · rename_i t hm
        cases h
        obtain ⟨pre, e1, post, e', h1, h2, h3, h4⟩ := mv hm (fun e e' _ he' => Move.cdone e e' he')
        exact ⟨rfl, Nat.le_refl _, Or.inr (Or.inr ⟨pre, e1, post, e', h1, h2, h3, h4, rfl, rfl, hst⟩)⟩

theorem endPost_fields {now timeout : Nat} {c : Bool} {e e' : Sess} (h : endPost now timeout c e = some e') :
    e'.id = e.id ∧ e'.owner = e.owner ∧ e'.removed = e.removed ∧ (e.closing = true → e'.closing = true) ∧
    e'.posts = e.posts - 1 ∧ 0 < e.posts := by
  unfold endPost at h
  split at h
  · cases h
  split at h
  · cases h
  split at h
  · cases h
  rename_i hp _ _
  have hp : 0 < e.posts := Nat.pos_of_ne_zero hp
  by_cases hz : e.refs - 1 = 0 <;> cases ht : e.timer <;> simp only [ht, hz] at h <;> cases c <;>
    simp at h <;> subst h <;> simp_all

theorem move_fields {s : State} {e e' : Sess} (h : Move s e e') :
    e'.id = e.id ∧ e'.owner = e.owner ∧ (e.removed = true → e'.removed = true) ∧
    (e.closing = true → e'.closing = true) := by
  match h with
  | .start _ ok k u hl =>
    have hd := deliver_fields ok k (startTimer e)
    have hs := startTimer_fields e
    refine ⟨?_, ?_, ?_, ?_⟩
    · show (deliver ok k (startTimer e)).id = e.id; rw [hd.2.2.2.2.2.2.1, hs.2.1]
    · show (deliver ok k (startTimer e)).owner = e.owner; rw [hd.2.2.2.2.2.2.2.1, hs.2.2.1]
    · show e.removed = true → (deliver ok k (startTimer e)).removed = true; rw [hd.1, hs.1]; exact id
    · show e.closing = true → (deliver ok k (startTimer e)).closing = true; rw [hd.2.2.2.2.2.2.2.2.1, hs.2.2.2.1]; exact id
  | .hdone _ _ b he =>
    unfold handlerDoneF at he
    split at he
    · cases he
    · split at he <;> split at he <;> cases he <;> simp_all
  | .pend _ _ c he =>
    have := endPost_fields he
    exact ⟨this.1, this.2.1, by rw [this.2.2.1]; exact id, this.2.2.2.1⟩
  | .publish _ _ ok he =>
    unfold publishF at he
    split at he
    · cases he
    · rename_i k _
      split at he
      · cases he; simp
      · cases he
        have hd := deliver_fields ok k (publishedSess s.cfg.timeout e)
        refine ⟨?_, ?_, ?_, ?_⟩
        · rw [hd.2.2.2.2.2.2.1]; rfl
        · rw [hd.2.2.2.2.2.2.2.1]; rfl
        · rw [hd.1]; exact id
        · rw [hd.2.2.2.2.2.2.2.2.1]; exact id
  | .fire _ _ he =>
    unfold timerFireF at he
    split at he
    · cases he
    · split at he
      · split at he <;> cases he; simp_all
      · cases he
  | .close _ _ he =>
    unfold closeF at he
    split at he <;> cases he; simp_all
  | .cdone _ _ he =>
    unfold closeDoneF at he
    split at he <;> cases he; simp_all
  | .head _ u hl =>
    have hf := headF_fields e
    exact ⟨hf.2.1, hf.2.2.1, by rw [hf.1]; exact id, by rw [hf.2.2.2.1]; exact id⟩
  | .body _ _ ok k he =>
    have hf := bodyF_fields he
    exact ⟨hf.2.1, hf.2.2.1, by rw [hf.1]; exact id, by rw [hf.2.2.2.1]; exact id⟩

/-- A session whose close has begun and that has no handler in flight. -/
def Quiet (e : Sess) : Prop := e.closing = true ∧ e.busy = 0 ∧ e.initBusy = 0

theorem endPost_busy {now timeout : Nat} {c : Bool} {e e' : Sess} (h : endPost now timeout c e = some e') :
    e'.busy = e.busy ∧ e'.initBusy = e.initBusy := by
  unfold endPost at h
  split at h
  · cases h
  split at h
  · cases h
  split at h
  · cases h
  by_cases hz : e.refs - 1 = 0 <;> cases ht : e.timer <;> simp only [ht, hz] at h <;> cases c <;>
    simp at h <;> subst h <;> simp_all

/-- No label can hand a message to a closing session or reopen it: `Quiet` is kept by every move. -/
theorem move_quiet {s : State} {e e' : Sess} (h : Move s e e') (hq : Quiet e) : Quiet e' := by
  obtain ⟨hc, hb, hib⟩ := hq
  match h with
  | .start _ ok k u hl =>
    have hs := startTimer_fields e
    have hc' : (startTimer e).closing = true := by rw [hs.2.2.2.1]; exact hc
    show Quiet (deliver ok k (startTimer e))
    rw [deliver_closing ok k hc']
    exact ⟨hc', by rw [hs.2.2.2.2.2.2.2.1]; exact hb, by rw [hs.2.2.2.2.2.2.2.2]; exact hib⟩
  | .hdone _ _ b he =>
    simp [handlerDoneF, hb, hib] at he
  | .pend _ _ c he =>
    have h1 := endPost_fields he
    have h2 := endPost_busy he
    exact ⟨h1.2.2.2.1 hc, by rw [h2.1]; exact hb, by rw [h2.2]; exact hib⟩
  | .publish _ _ ok he =>
    unfold publishF at he
    split at he
    · cases he
    · rename_i k _
      split at he
      · cases he; exact ⟨hc, hb, hib⟩
      · cases he
        have hc' : (publishedSess s.cfg.timeout e).closing = true := hc
        rw [deliver_closing ok k hc']
        exact ⟨hc, hb, hib⟩
  | .fire _ _ he =>
    unfold timerFireF at he
    split at he
    · cases he
    · split at he
      · split at he <;> cases he
        exact ⟨rfl, hb, hib⟩
      · cases he
  | .close _ _ he =>
    unfold closeF at he
    split at he <;> cases he
    exact ⟨rfl, hb, hib⟩
  | .cdone _ _ he =>
    unfold closeDoneF at he
    split at he <;> cases he
    exact ⟨hc, hb, hib⟩
  | .head _ u hl =>
    have hf := headF_fields e
    exact ⟨by rw [hf.2.2.2.1]; exact hc, by rw [hf.2.2.2.2.2.2.2.1]; exact hb, by rw [hf.2.2.2.2.2.2.2.2.1]; exact hib⟩
  | .body _ _ ok k he =>
    have hf := bodyF_fields he
    have := hf.2.2.2.2.2.2.2.2.2 hc
    exact ⟨by rw [hf.2.2.2.1]; exact hc, by rw [this.1]; exact hb, by rw [this.2]; exact hib⟩

theorem move_good {s : State} {e e' : Sess} (hfix : s.cfg.publishChecks = true)
    (hg : Good s.cfg s.now e) (h : Move s e e') : Good s.cfg s.now e' := by
  match h with
  | .publish _ _ ok he => rw [hfix] at he; exact good_publish hg he
  | .start _ ok k u hl => exact good_startPost ok k hg (lookup_ok hl).2.1
  | .hdone _ _ b he => exact good_handlerDone b hg he
  | .pend _ _ c he => exact good_endPost c hg he
  | .fire _ _ he => exact good_timerFire hg he
  | .close _ _ he => exact good_close hg he
  | .cdone _ _ he =>
    exact good_closeDone hg (by intro hx; simp [State.closeFails] at hx; exact hx.1) he
  | .head _ u hl => exact good_head hg (lookup_ok hl).2.1
  | .body _ _ ok k he => exact good_body hg he

/-! ### the global invariant -/

structure Inv (s : State) : Prop where
  fixed : s.cfg.publishChecks = true
  ids : s.tbl.map (·.id) = List.range s.next
  good : ∀ e ∈ s.tbl, Good s.cfg s.now e
  stateless : s.cfg.stateless = true → s.tbl = []

theorem inv_init (cfg : Cfg) (hfix : cfg.publishChecks = true) : Inv (init cfg) := by
  constructor <;> simp [init, hfix]

theorem step_inv {s s' : State} {l : Label} {r : Resp} (hi : Inv s) (h : step s l = some (s', r)) :
    Inv s' := by
  obtain ⟨hc, hn, hcase⟩ := step_cases h
  rcases hcase with ⟨ht, hx⟩ | ⟨u, k, e0, _, hst, ht, he0, hx, hnow⟩ | ⟨pre, e, post, e', h1, h2, h3, hm, hx, hnow, hst⟩
  · exact ⟨by rw [hc]; exact hi.fixed, by rw [ht, hx]; exact hi.ids,
      by rw [ht, hc]; exact fun e he => (hi.good e he).mono hn, by rw [ht, hc]; exact hi.stateless⟩
  · refine ⟨by rw [hc]; exact hi.fixed, ?_, ?_, ?_⟩
    · rw [ht, hx, List.map_append, hi.ids, List.range_succ]
      rcases he0 with ⟨h0, _⟩ | ⟨h0, _⟩ <;> simp [h0, newSess, failedSess]
    · rw [ht, hc, hnow]
      intro e he
      rcases List.mem_append.mp he with he | he
      · exact hi.good e he
      · simp at he; subst he
        rcases he0 with ⟨h0, _⟩ | ⟨h0, _⟩
        · rw [h0]; exact good_newSess s u k
        · rw [h0]; exact good_failedSess s u
    · rw [hc, hst]; intro hx; cases hx
  · have hf := move_fields hm
    refine ⟨by rw [hc]; exact hi.fixed, ?_, ?_, ?_⟩
    · rw [h2, hx, ← hi.ids, h1]; simp [hf.1]
    · rw [h2, hc, hnow]
      intro x hx
      have hg : ∀ y ∈ pre ++ e :: post, Good s.cfg s.now y := by rw [← h1]; exact hi.good
      rcases List.mem_append.mp hx with hx | hx
      · exact hg x (List.mem_append_left _ hx)
      · cases hx with
        | head => exact move_good hi.fixed (hg e (by simp)) hm
        | tail _ hx => exact hg x (List.mem_append_right _ (List.mem_cons_of_mem _ hx))
    · rw [hc, hst]; intro hx; cases hx

theorem exec_inv {s : State} (hi : Inv s) (ls : List Label) : Inv (exec s ls) := by
  induction ls generalizing s with
  | nil => exact hi
  | cons l ls ih =>
    simp only [exec]
    split
    · rename_i s' r h; exact ih (step_inv hi h)
    · exact ih hi

/-- Reachable states: what some label list leads to from the initial state. -/
def Reach (cfg : Cfg) (s : State) : Prop := ∃ ls, exec (init cfg) ls = s

/-- Reachable states satisfy the invariant — provided the publication is the repaired one (F20). -/
theorem reach_inv {cfg : Cfg} {s : State} (h : Reach cfg s) (hfix : cfg.publishChecks = true) : Inv s := by
  obtain ⟨ls, rfl⟩ := h
  exact exec_inv (inv_init cfg hfix) ls

theorem exec_append (s : State) (a b : List Label) : exec s (a ++ b) = exec (exec s a) b := by
  induction a generalizing s with
  | nil => rfl
  | cons l a ih =>
    simp only [List.cons_append, exec]
    split <;> exact ih _

theorem reach_exec {cfg : Cfg} {s : State} (h : Reach cfg s) (ls : List Label) : Reach cfg (exec s ls) := by
  obtain ⟨l0, rfl⟩ := h
  exact ⟨l0 ++ ls, exec_append _ _ _⟩

theorem reach_step {cfg : Cfg} {s s' : State} {l : Label} {r : Resp} (h : Reach cfg s)
    (hs : step s l = some (s', r)) : Reach cfg s' := by
  have := reach_exec h [l]
  simpa [exec, hs] using this

theorem step_cfg {s s' : State} {l : Label} {r : Resp} (h : step s l = some (s', r)) : s'.cfg = s.cfg :=
  (step_cases h).1

theorem exec_cfg (s : State) (ls : List Label) : (exec s ls).cfg = s.cfg := by
  induction ls generalizing s with
  | nil => rfl
  | cons l ls ih =>
    simp only [exec]
    split
    · rename_i s' r h; rw [ih, step_cfg h]
    · exact ih _

theorem reach_cfg {cfg : Cfg} {s : State} (h : Reach cfg s) : s.cfg = cfg := by
  obtain ⟨ls, rfl⟩ := h
  rw [exec_cfg]; rfl

end Sessions
