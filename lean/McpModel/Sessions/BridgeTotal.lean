import McpModel.Sessions.Bridge
/-!
# E7 / C11: every operation has an observation (the bridge theorem skips nothing)

`modelTrace` skips an operation only when `replayOp` yields none.  `replayOp_total`: in every state related to
the monitor's (hence in every state the replay reaches) `replayOp` yields an observation for every
operation in scope (`Op.inScope`: all but `postx` / `postb` / `body` on a stateless endpoint and `postb` without a
session id, which have no meaning there and are never generated).
So `monitor_accepts_model` speaks about one record per operation: `modelTrace_length`.
-/
namespace Sessions

theorem step_postBegin_some_isSome {s : State} (hst : s.cfg.stateless = false) (hi : Inv s) (i : Nat) (u : User) (k : Kind) :
    (∃ c, step s (.postBegin (some i) u k) = some (s, .reject c)) ∨
    (∃ s' hdr dlv, step s (.postBegin (some i) u k) = some (s', .forward hdr dlv)) ∨
    (∃ s' c, step s (.postBegin (some i) u k) = some (s', .storeRefused c)) := by
  cases hl : lookup s.tbl i u with
  | error c => left; exact ⟨c, step_postBegin_err hst hl k⟩
  | ok e =>
    rw [step_postBegin_ok hst (inv_nodupIds hi) hl k]
    unfold postResp
    split
    · right; left; exact ⟨_, _, _, rfl⟩
    · right; right; exact ⟨_, _, rfl⟩

/-- The operations that have a meaning in a configuration: no `postx` on a stateless endpoint (no session is ever
published there); a POST whose body arrives in pieces (`postb`, `body`) only on a stateful endpoint, and `postb` only
with a session id (the creation path reads its body after the publication: not modelled apart).  The harness
generates no others and answers `bad-op` to the latter. -/
def Op.inScope (cfg : Cfg) : Op → Bool
  | .postx _ _ => !cfg.stateless
  | .postb ref _ => !cfg.stateless && ref != .absent
  | .body _ _ => !cfg.stateless
  | _ => true

/-- the exclusions are needed: outside the scope the replay has no observation … -/
example : replayOp (.init ⟨true, 100, true, false⟩) (.postx .anon .init) = none ∧
    replayOp (.init ⟨true, 100, true, false⟩) (.postb (.s 1) .anon) = none ∧
    replayOp (.init ⟨true, 100, true, false⟩) (.body 1 true) = none ∧
    replayOp (.init ⟨false, 100, true, false⟩) (.postb .absent .anon) = none := by decide

/-- … and the scope is not empty for any operation shape on a stateful endpoint -/
example : Op.inScope ⟨false, 100, true, false⟩ (.postb (.s 1) (.u 1)) = true ∧ Op.inScope ⟨false, 100, true, false⟩ (.body 2 true) = true ∧
    Op.inScope ⟨false, 100, true, false⟩ (.postx (.u 1) .init) = true := by decide

theorem modelOp_total {cfg : Cfg} {d : RState} {m : Mon} (hs : SimAny cfg d m) (op : Op)
    (hsc : op.inScope cfg = true) : ∃ mo, modelOp d op = some mo := by
  have hinv : Inv d.st := by
    rcases hs with ⟨_, hs⟩ | ⟨_, hs⟩
    · exact hs.inv
    · exact hs.inv
  have hcfg : d.st.cfg = cfg := by
    rcases hs with ⟨_, hs⟩ | ⟨_, hs⟩
    · exact hs.cfg_eq
    · exact hs.cfg_eq
  cases hsl : d.st.cfg.stateless with
  | true =>
    -- stateless: every request label is enabled
    cases op with
    | post ref u kind =>
      cases hcf : d.st.connectFails <;> cases hacc : d.st.accepts kind.kind <;>
        simp only [modelOp, hsl, Bool.not_true, Bool.and_false, Bool.false_eq_true, if_false, step, if_true, stepStateless,
          hcf, postResp, hacc] <;>
        first | exact ⟨_, rfl⟩ | (split <;> exact ⟨_, rfl⟩)
    | postx u kind => rw [← hcfg] at hsc; simp [Op.inScope, hsl] at hsc
    | postb ref u => rw [← hcfg] at hsc; simp [Op.inScope, hsl] at hsc
    | body n fin => rw [← hcfg] at hsc; simp [Op.inScope, hsl] at hsc
    | release k =>
      simp only [modelOp]
      split
      · exact ⟨_, rfl⟩
      · split
        · split <;> exact ⟨_, rfl⟩
        · exact ⟨_, rfl⟩
    | abandon k =>
      simp only [modelOp]
      split
      · exact ⟨_, rfl⟩
      · split <;> exact ⟨_, rfl⟩
    | get ref u => simp only [modelOp, step, hsl, if_true, stepStateless]; exact ⟨_, rfl⟩
    | delete ref u => simp only [modelOp, step, hsl, if_true, stepStateless]; exact ⟨_, rfl⟩
    | other ref u => simp only [modelOp, step, hsl, if_true, stepStateless]; exact ⟨_, rfl⟩
    | tick n => exact ⟨_, rfl⟩
    | fault f => simp only [modelOp]; split <;> exact ⟨_, rfl⟩
    | close ref =>
      simp only [modelOp]
      split
      · split <;> (try split) <;> exact ⟨_, rfl⟩
      · exact ⟨_, rfl⟩
  | false =>
    cases op with
    | post ref u kind =>
      cases hsid : ref.sid d.st.next with
      | none =>
        cases hcf : d.st.connectFails with
        | true =>
          simp only [modelOp, hsid, Option.isNone_none, hsl, Bool.not_false, Bool.and_self, if_true,
            step_postBegin_none hsl, hcf]
          exact ⟨_, rfl⟩
        | false =>
          have hpub := step_publish_new hsl hinv (x := newSess d.st u.user kind.kind) (k := kind.kind) rfl rfl
          cases hacc : d.st.accepts kind.kind <;>
            simp only [modelOp, hsid, Option.isNone_none, hsl, Bool.not_false, Bool.and_self, if_true,
              step_postBegin_none hsl, hcf, Bool.false_eq_true, if_false, hpub, postResp, hacc] <;>
            first | exact ⟨_, rfl⟩ | (split <;> exact ⟨_, rfl⟩)
      | some i =>
        simp only [modelOp, hsid, Option.isNone_some, Bool.false_and, Bool.false_eq_true, if_false]
        rcases step_postBegin_some_isSome hsl hinv i u.user kind.kind with ⟨c, h⟩ | ⟨s', hdr, dlv, h⟩ | ⟨s', c, h⟩
        · rw [h]; exact ⟨_, rfl⟩
        · rw [h]; simp only [hsl, Bool.false_eq_true, if_false]; split <;> exact ⟨_, rfl⟩
        · rw [h]; simp only [hsl, Bool.false_eq_true, if_false]; exact ⟨_, rfl⟩
    | postx u kind =>
      cases hcf : d.st.connectFails with
      | true =>
        simp only [modelOp, hsl, Bool.false_eq_true, if_false, step_postBegin_none hsl, hcf, if_true]
        exact ⟨_, rfl⟩
      | false =>
        have hx1id : (tryF (closeDoneF d.st.closeFails) (tryF closeF (newSess d.st u.user kind.kind))).id = d.st.next := by
          rw [keepsId_closeDone, keepsId_close]; rfl
        have hx1p : (tryF (closeDoneF d.st.closeFails) (tryF closeF (newSess d.st u.user kind.kind))).pending = some kind.kind := by
          simp [tryF, closeF, closeDoneF, newSess]
        have hst1 : doL (doL (withNew d.st (newSess d.st u.user kind.kind)) (.serverClose d.st.next)) (.closeDone d.st.next) =
            withNew d.st (tryF (closeDoneF d.st.closeFails) (tryF closeF (newSess d.st u.user kind.kind))) := by
          rw [doL_serverClose_new hsl hinv (x := newSess d.st u.user kind.kind) rfl, doL_closeDone_new hsl hinv (by rw [keepsId_close]; rfl)]
        have hpub := step_publish_new hsl hinv hx1id hx1p
        cases hacc : d.st.accepts kind.kind <;>
          simp only [modelOp, hsl, Bool.false_eq_true, if_false, step_postBegin_none hsl, hcf, hst1, hpub, postResp, hacc, if_true] <;>
          exact ⟨_, rfl⟩
    | release k =>
      simp only [modelOp]
      split
      · exact ⟨_, rfl⟩
      · split
        · split <;> exact ⟨_, rfl⟩
        · exact ⟨_, rfl⟩
    | abandon k =>
      simp only [modelOp]
      split
      · exact ⟨_, rfl⟩
      · split <;> exact ⟨_, rfl⟩
    | get ref u =>
      cases hsid : ref.sid d.st.next with
      | none => simp only [modelOp, hsid, step, hsl, Bool.false_eq_true, if_false, stepStateful]; exact ⟨_, rfl⟩
      | some i =>
        cases hl : lookup d.st.tbl i u.user with
        | error c => simp only [modelOp, hsid, step, hsl, Bool.false_eq_true, if_false, stepStateful, hl]; exact ⟨_, rfl⟩
        | ok e =>
          cases hrf : d.st.replayFails <;>
            simp only [modelOp, hsid, step, hsl, Bool.false_eq_true, if_false, stepStateful, hl, hrf, if_true] <;> exact ⟨_, rfl⟩
    | delete ref u =>
      cases hsid : ref.sid d.st.next with
      | none => simp only [modelOp, hsid, step, hsl, Bool.false_eq_true, if_false, stepStateful]; exact ⟨_, rfl⟩
      | some i =>
        cases hl : lookup d.st.tbl i u.user with
        | error c => simp only [modelOp, hsid, step, hsl, Bool.false_eq_true, if_false, stepStateful, hl]; exact ⟨_, rfl⟩
        | ok e =>
          simp only [modelOp, hsid, step_delete_ok hsl (inv_nodupIds hinv) hl]
          split <;> exact ⟨_, rfl⟩
    | other ref u => simp only [modelOp, step, hsl, Bool.false_eq_true, if_false, stepStateful]; exact ⟨_, rfl⟩
    | tick n => exact ⟨_, rfl⟩
    | fault f => simp only [modelOp]; split <;> exact ⟨_, rfl⟩
    | close ref =>
      simp only [modelOp]
      split
      · split <;> (try split) <;> exact ⟨_, rfl⟩
      · exact ⟨_, rfl⟩
    | postb ref u =>
      cases hsid : ref.sid d.st.next with
      | none =>
        cases ref with
        | absent => simp [Op.inScope] at hsc
        | s k => simp [Ref.sid] at hsid; split at hsid <;> cases hsid
        | x n => simp [Ref.sid] at hsid
      | some i =>
        cases hl : lookup d.st.tbl i u.user with
        | error c =>
          simp only [modelOp, hsid, hsl, Bool.false_eq_true, if_false, step_postHead_err hsl hl]
          exact ⟨_, rfl⟩
        | ok e =>
          simp only [modelOp, hsid, hsl, Bool.false_eq_true, if_false, step_postHead_ok hsl (inv_nodupIds hinv) hl]
          exact ⟨_, rfl⟩
    | body n fin =>
      simp only [modelOp, hsl, Bool.false_eq_true, if_false]
      split
      · exact ⟨_, rfl⟩
      · split
        · exact ⟨_, rfl⟩
        · split
          · split <;> exact ⟨_, rfl⟩
          · exact ⟨_, rfl⟩

/-- **replayOp_total** -/
theorem replayOp_total {cfg : Cfg} {d : RState} {m : Mon} (hs : SimAny cfg d m) (op : Op)
    (hsc : op.inScope cfg = true) : ∃ d' o, replayOp d op = some (d', o) := by
  obtain ⟨mo, hmo⟩ := modelOp_total hs op hsc
  simp only [replayOp, hmo]
  exact ⟨_, _, rfl⟩

/-- the model's trace has one record per operation in scope -/
theorem modelTraceFrom_length {cfg : Cfg} : ∀ (ops : List Op) (d : RState) (m : Mon), SimAny cfg d m →
    (∀ op ∈ ops, op.inScope cfg = true) →
    (modelTraceFrom d ops).length = ops.length := by
  intro ops
  induction ops with
  | nil => intro d m _ _; rfl
  | cons op ops ih =>
    intro d m hs hpx
    obtain ⟨d', o, hop⟩ := replayOp_total hs op (hpx op List.mem_cons_self)
    simp only [modelTraceFrom, hop, List.length_cons]
    rw [ih d' _ (sim_step hs op hop).2 (fun op' hop' => hpx op' (List.mem_cons_of_mem _ hop'))]

theorem modelTrace_length (cfg : Cfg) (hfix : cfg.publishChecks = true) (ops : List Op)
    (hpx : ∀ op ∈ ops, op.inScope cfg = true) :
    (modelTrace cfg ops).length = ops.length :=
  modelTraceFrom_length ops (.init cfg) {} (sim_init cfg hfix) hpx

end Sessions
