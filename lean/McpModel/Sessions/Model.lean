import McpModel.Generated.SessionsGen
/-!
E7 — model of the session layer of `mcp.StreamableHTTPHandler` (mcp/streamable.go:47-125 sessionInfo,
refs, idle timer; 341-460 ServeHTTP, stateless path; 554-757 serveStateful*, lookupSession, creation
path, onClose removal, DELETE).  Serves C11, and the session half of C05 (closing terminates and leaves
no timer behind).

A labelled transition system.  One label = one atomic section of the Go code:

* `postBegin`   with a session id: `lookupSession` (critical section under `h.mu` + the owner check on
                the immutable `userID`) followed by `startPOST` (critical section under `timerMu`) and
                the hand-over of the message to the session's transport; without a session id:
                `GetSessionID` + `Server.Connect` — the new server session exists and is listed by
                `Server.Sessions()`, but is not yet in `h.sessions`.
* `postHead`    the request HEADERS of a POST with a session id have arrived: `lookupSession` + `startPOST`; the
                session's transport now blocks reading the body.  The POST is in progress from here (`posts`, and the
                ghost `upl` = POSTs in progress whose body is still on its way); no handler is in flight for it, so a
                close of the session can complete while it lasts.
* `postBody`    the body of such a POST is complete: the message is handed to the server session — unless its `Close`
                has begun (then the connection answers itself; on a closed session nothing is delivered at all).
                `postBegin` with a session id is `postHead` and `postBody` back to back (a body that arrives at once).
* `publish`     the rest of the creation path: `time.AfterFunc`, the publication critical section
                under `h.mu` (F20: it must not publish a session whose `onClose` has already run),
                `startPOST`, hand-over of the creating POST's message to the transport.
* `handlerDone` a request handler of the server session returns (for `initialize`: sets
                `InitializeParams`).
* `postEnd`     the deferred `endPOST` (under `timerMu`); for the creating POST also the deferred
                "initialization failed → `session.Close()`" check, which runs right after it.
* `get`         `lookupSession`, then the transport serves the standalone stream.
* `delete`      `lookupSession`, then `session.Close()` begins; 204 is written when it returns.
* `other`       any other HTTP method.
* `tick d`      the virtual clock advances.
* `timerFire`   the runtime runs the `AfterFunc` callback, which calls `session.Close()`.
* `serverClose` the server closes the session itself (`ServerSession.Close`, keep-alive failure).
* `closeDone`   `conn.Close()` completes (possible once no handler is in flight), the session is
                disconnected from `Server.sessions`, and `onClose` (under `h.mu`) stops the timer for
                good and deletes the map entry.  (DESIGN §5 C11: modelled as one label.)  Closing the
                connection may *report an error* (`streamableServerConn.Close` returns what
                `EventStore.SessionClosed` returned); `ServerSession.Close` hands that error to its
                caller **after** running `onClose` (structural fact `sessions.close_runs_onclose`), so
                the label removes the entry on the error outcome exactly as on the normal one and only
                records the error (`closeErr`).
* `faults f`    the environment: from now on the methods of the configured `EventStore` named by `f`
                fail.  The collaborator's outcomes are an input of the session layer, like the clock.
                With a failing `Open` the transport refuses a creating POST at `Connect` (the id was
                minted, no session ever exists) or answers a POST that carries a call with an error
                status after the session layer has let it through; with a failing `After` a GET is
                answered with an error status by the transport; a failing `Append` changes nothing
                at this layer.

Removed entries stay in the model's table, flagged `removed` (server-side session closed and
forgotten, `onClose` done); `inMap` says whether the id is a key of `h.sessions`.  Keeping the history
is what lets "an id addresses one session" and "dead after removal" be stated at all.  Ghost fields
(never read by the modelled code): `posts`, `idleSince`.

F20 (found by this engine, repaired by fixes/F20-publish-after-close.patch): a server-side close that
lands between `Connect` and the publication ran `onClose` before there was anything to delete, and the
unconditional publication then left a dead session in `h.sessions` for ever.  `Cfg.publishChecks`
selects the repaired publication (`true`, regenerated from the source) or the original one (`false`,
kept for the counter-example theorem).

Session ids are minted by `ServerOptions.GetSessionID` (default `crypto/rand.Text`): modelled as a
counter, i.e. freshness of minted ids is part of the trusted base.

Core Lean only (linked into the driver).
-/
namespace Sessions

/-- regenerated from mcp/streamable.go on every run -/
def stNotFound : Nat := Generated.Sessions.lookupMissing
def stForbidden : Nat := Generated.Sessions.lookupUserMismatch
def stMissingIdGet : Nat := Generated.Sessions.serveStatefulGETMissingID
def stMissingIdDelete : Nat := Generated.Sessions.serveStatefulDELETEMissingID
def stDeleted : Nat := Generated.Sessions.deleteOK
def stStatelessNotPost : Nat := Generated.Sessions.statelessNotPost
def stOtherMethod : Nat := Generated.Sessions.statefulOtherMethod
def stConnectFailed : Nat := Generated.Sessions.connectFailed
def stStoreOpenFailed : Nat := Generated.Sessions.storeOpenFailed
def stReplayFailed : Nat := Generated.Sessions.replayFailed

/-- The user id of the request's `TokenInfo`; `none` = no `TokenInfo` or an empty `UserID`. -/
abbrev User := Option Nat

/-- What a POST carries. `call` = any call other than `initialize`. -/
inductive Kind where
  | init | badInit | call | notif
deriving DecidableEq, Repr

def Kind.isInitialize : Kind → Bool
  | .init | .badInit => true
  | _ => false

/-- The POST carries a call (so the transport opens a logical stream for its answer). -/
def Kind.hasCall : Kind → Bool
  | .notif => false
  | _ => true

/-- Which methods of the configured `EventStore` currently fail (chosen by the environment). -/
structure Faults where
  closed : Bool := false     -- `SessionClosed` returns an error: closing the connection reports it
  connOpen : Bool := false   -- `Open` of the standalone stream fails: `Transport.Connect` fails
  reqOpen : Bool := false    -- `Open` of a request's stream fails
  append : Bool := false     -- `Append` fails
  after : Bool := false      -- `After` (replay) fails
deriving DecidableEq, Repr

/-- `sessionInfo.timer`: `nil` (no timeout configured, or stopped for good by `stopTimer`),
a stopped/expired timer object, or an armed one with its deadline. -/
inductive Timer where
  | nil | stopped | armed (deadline : Nat)
deriving DecidableEq, Repr

def Timer.isArmed : Timer → Bool
  | .armed _ => true
  | _ => false

structure Sess where
  id : Nat
  owner : User
  refs : Nat
  timer : Timer
  closing : Bool          -- `Close` has begun on the server session (`connClosing`)
  removed : Bool          -- server session closed, disconnected from the server, `onClose` has run
  inMap : Bool            -- the id is a key of `h.sessions`
  pending : Option Kind   -- creating POST between `Connect` and publication: its message
  initialized : Bool      -- `InitializeParams() != nil`
  creating : Bool         -- the creating POST has not ended yet
  busy : Nat              -- handlers in flight other than `initialize`
  initBusy : Nat          -- `initialize` handlers in flight
  posts : Nat             -- ghost: POSTs in progress on this session
  idleSince : Nat         -- ghost: instant at which `refs` last dropped to 0
  closeErr : Bool         -- closing the connection reported an error: what every `Close()` returns
  upl : Nat := 0          -- ghost: POSTs in progress whose body has not arrived yet (counted in `posts` too)
deriving DecidableEq, Repr

structure Cfg where
  stateless : Bool
  timeout : Nat           -- `SessionTimeout` in ms; 0 = none
  publishChecks : Bool := true  -- F20: the publication skips a session whose `onClose` has already run
  eventStore : Bool := false    -- `StreamableHTTPOptions.EventStore` is set
deriving DecidableEq, Repr

structure State where
  cfg : Cfg
  now : Nat
  next : Nat              -- number of ids minted so far
  tbl : List Sess
  eph : Nat               -- stateless: temporary sessions in progress
  faults : Faults         -- environment: the event store's methods that currently fail
deriving DecidableEq, Repr

def init (cfg : Cfg) : State := { cfg := cfg, now := 0, next := 0, tbl := [], eph := 0, faults := {} }

/-- Without an event store nothing can fail. -/
def State.connectFails (s : State) : Bool := s.cfg.eventStore && s.faults.connOpen
def State.openFails (s : State) : Bool := s.cfg.eventStore && s.faults.reqOpen
def State.closeFails (s : State) : Bool := s.cfg.eventStore && s.faults.closed
def State.replayFails (s : State) : Bool := s.cfg.eventStore && s.faults.after

inductive Label where
  | postBegin (sid : Option Nat) (u : User) (k : Kind)
  | postHead (sid : Option Nat) (u : User)
  | postBody (sid : Nat) (k : Kind)
  | handlerDone (sid : Nat) (isInit : Bool)
  | publish (sid : Nat)
  | postEnd (sid : Option Nat) (creator : Bool)
  | get (sid : Option Nat) (u : User)
  | delete (sid : Option Nat) (u : User)
  | other (sid : Option Nat) (u : User)
  | tick (d : Nat)
  | timerFire (sid : Nat)
  | serverClose (sid : Nat)
  | closeDone (sid : Nat)
  | faults (f : Faults)
deriving DecidableEq, Repr

/-- What the session layer does with a request. -/
inductive Resp where
  | tau                                           -- internal label, nothing observable
  | reject (status : Nat)                         -- answered by the handler itself
  | forward (hdr : Option Nat) (deliver : Bool)   -- POST handed to the session's transport; `hdr` = the
                                                  -- `Mcp-Session-Id` response header; `deliver` = the
                                                  -- server session still accepts the message
  | stream                                        -- GET handed to the session's transport
  | storeRefused (status : Nat)                   -- the session layer let the request through; the
                                                  -- transport answered with an error status because
                                                  -- the event store failed
  | closeAccepted                                 -- DELETE accepted: `Close()` called, then 204
deriving DecidableEq, Repr

def findSess (i : Nat) : List Sess → Option Sess
  | [] => none
  | e :: t => if e.id = i then some e else findSess i t

/-- Apply `f` to the first entry with id `i`; `none` if there is none or `f` refuses. -/
def modify (i : Nat) (f : Sess → Option Sess) : List Sess → Option (List Sess)
  | [] => none
  | e :: t =>
    if e.id = i then
      match f e with
      | some e' => some (e' :: t)
      | none => none
    else
      match modify i f t with
      | some t' => some (e :: t')
      | none => none

/-- `lookupSession`: the status to answer with, or the entry of `h.sessions`. -/
def lookup (tbl : List Sess) (i : Nat) (u : User) : Except Nat Sess :=
  match findSess i tbl with
  | none => .error stNotFound
  | some e =>
    if !e.inMap then .error stNotFound
    else match e.owner with
      | none => .ok e
      | some o => if u = some o then .ok e else .error stForbidden

/-- `startPOST`: stop the timer when this is the first POST in progress, count the POST. -/
def startTimer (e : Sess) : Sess :=
  match e.timer with
  | .nil => { e with posts := e.posts + 1 }
  | t => { e with posts := e.posts + 1, refs := e.refs + 1, timer := if e.refs = 0 then .stopped else t }

/-- Hand-over of the message to the server session.  Once `Close` has begun no handler is started any
more: the connection answers a new call itself (server closing) — and since the F26 repair of the write
gate that answer, like the answer of a handler admitted before the close, *is* delivered, so the POST is
answered and ends instead of hanging until the session is gone.  `ok = false`: the transport could not
open the stream for the answer and hands nothing over. -/
def deliver (ok : Bool) (k : Kind) (e : Sess) : Sess :=
  if e.closing || !ok then e
  else match k with
    | .init => { e with initBusy := e.initBusy + 1 }
    | .badInit | .call => { e with busy := e.busy + 1 }
    | .notif => e

def startPost (ok : Bool) (k : Kind) (e : Sess) : Sess := deliver ok k (startTimer e)

/-- The request HEADERS of a POST have arrived (`lookupSession`, `startPOST`); the transport now reads the
body, which is still on its way: the POST is in progress, nothing has been handed over. -/
def headF (e : Sess) : Sess := { startTimer e with upl := e.upl + 1 }

/-- The body of such a POST is complete: the message is handed to the server session (if its `Close`
has not begun — on a session that is closed and gone nothing is delivered). -/
def bodyF (ok : Bool) (k : Kind) (e : Sess) : Option Sess :=
  if e.upl = 0 || e.pending.isSome then none
  else some (deliver ok k { e with upl := e.upl - 1 })

/-- The transport can open the stream a POST of kind `k` needs. -/
def State.accepts (s : State) (k : Kind) : Bool := !(k.hasCall && s.openFails)

/-- What the transport answers to a POST that the session layer let through. -/
def postResp (s : State) (k : Kind) (hdr : Option Nat) (closing : Bool) : Resp :=
  if s.accepts k then .forward hdr (!closing) else .storeRefused stStoreOpenFailed

/-- `endPOST`, then (creating POST only) the failed-initialize cleanup. -/
def endPost (now timeout : Nat) (creator : Bool) (e : Sess) : Option Sess :=
  if e.posts = 0 then none
  else if creator && (!e.creating || e.pending.isSome) then none
  else if !creator && e.creating && e.posts = 1 then none
  else
    let e := { e with posts := e.posts - 1 }
    let e := match e.timer with
      | .nil => e
      | t =>
        if e.refs - 1 = 0 then { e with refs := e.refs - 1, timer := .armed (now + timeout), idleSince := now }
        else { e with refs := e.refs - 1, timer := t }
    if creator then
      some { e with creating := false, closing := e.closing || (!e.initialized && !e.removed) }
    else some e

def handlerDoneF (isInit : Bool) (e : Sess) : Option Sess :=
  if e.removed then none
  else if isInit then
    if e.initBusy = 0 then none else some { e with initBusy := e.initBusy - 1, initialized := true }
  else
    if e.busy = 0 then none else some { e with busy := e.busy - 1 }

def timerFireF (now : Nat) (e : Sess) : Option Sess :=
  if e.removed then none
  else match e.timer with
    | .armed d => if d ≤ now then some { e with timer := .stopped, closing := true } else none
    | _ => none

def closeF (e : Sess) : Option Sess :=
  if e.removed then none else some { e with closing := true }

/-- `err`: closing the connection reported an error.  The entry is removed all the same. -/
def closeDoneF (err : Bool) (e : Sess) : Option Sess :=
  if e.removed || !e.closing || e.busy ≠ 0 || e.initBusy ≠ 0 then none
  else some { e with removed := true, inMap := false, timer := .nil, closeErr := err }

/-- `Server.Connect` on the creation path: the server session exists, nothing is published yet. -/
def newSess (s : State) (u : User) (k : Kind) : Sess :=
  { id := s.next, owner := u, refs := 0, timer := .nil,
    closing := false, removed := false, inMap := false, pending := some k,
    initialized := false, creating := true, busy := 0, initBusy := 0,
    posts := 1, idleSince := s.now, closeErr := false }

/-- `Transport.Connect` failed on the creation path: the id was minted, no session ever exists. -/
def failedSess (s : State) (u : User) : Sess :=
  { id := s.next, owner := u, refs := 0, timer := .nil,
    closing := true, removed := true, inMap := false, pending := none,
    initialized := false, creating := false, busy := 0, initBusy := 0,
    posts := 0, idleSince := s.now, closeErr := false }

/-- `time.AfterFunc`, insertion into `h.sessions`, `startPOST` (which stops the fresh timer). -/
def publishedSess (timeout : Nat) (e : Sess) : Sess :=
  { e with pending := none, inMap := true,
           timer := (if timeout = 0 then Timer.nil else Timer.stopped),
           refs := (if timeout = 0 then 0 else 1) }

/-- The rest of the creation path: timer, publication under `h.mu`, `startPOST`, hand-over. -/
def publishF (checks : Bool) (timeout : Nat) (ok : Bool) (e : Sess) : Option Sess :=
  match e.pending with
  | none => none
  | some k =>
    if checks && e.removed then some { e with pending := none }
    else some (deliver ok k (publishedSess timeout e))

def stepStateless (s : State) : Label → Option (State × Resp)
  | .postBegin _ _ k =>
    if s.connectFails then some (s, .reject stConnectFailed)
    else some ({ s with eph := s.eph + 1 }, postResp s k none false)
  | .faults f => some ({ s with faults := f }, .tau)
  | .postEnd none _ => if s.eph = 0 then none else some ({ s with eph := s.eph - 1 }, .tau)
  | .get _ _ => some (s, .reject stStatelessNotPost)
  | .delete _ _ => some (s, .reject stStatelessNotPost)
  | .other _ _ => some (s, .reject stStatelessNotPost)
  | .tick d => some ({ s with now := s.now + d }, .tau)
  | _ => none

def stepStateful (s : State) : Label → Option (State × Resp)
  | .postBegin none u k =>
    if s.connectFails then
      some ({ s with tbl := s.tbl ++ [failedSess s u], next := s.next + 1 }, .reject stConnectFailed)
    else
      some ({ s with tbl := s.tbl ++ [newSess s u k], next := s.next + 1 }, .tau)
  | .publish i =>
    match findSess i s.tbl with
    | some e =>
      match e.pending with
      | some k =>
        match modify i (publishF s.cfg.publishChecks s.cfg.timeout (s.accepts k)) s.tbl with
        | some t =>
          some ({ s with tbl := t }, postResp s k (if k.isInitialize then some i else none) e.closing)
        | none => none
      | none => none
    | none => none
  | .postBegin (some i) u k =>
    match lookup s.tbl i u with
    | .error st => some (s, .reject st)
    | .ok e =>
      match modify i (fun x => some (startPost (s.accepts k) k x)) s.tbl with
      | none => none
      | some t => some ({ s with tbl := t }, postResp s k (if k.isInitialize then some i else none) e.closing)
  | .postHead none _ => none     -- (a creating POST reads its body after the publication: not modelled apart)
  | .postHead (some i) u =>
    match lookup s.tbl i u with
    | .error st => some (s, .reject st)
    | .ok e =>
      match modify i (fun x => some (headF x)) s.tbl with
      | none => none
      | some t => some ({ s with tbl := t }, .forward none (!e.closing))
  | .postBody i k =>
    -- (a piecewise body that carries `initialize` is not modelled: the label is for calls and notifications)
    if k.isInitialize then none
    else match findSess i s.tbl with
    | none => none
    | some e =>
      match modify i (bodyF (s.accepts k) k) s.tbl with
      | none => none
      | some t => some ({ s with tbl := t }, postResp s k none e.closing)
  | .handlerDone i isInit =>
    match modify i (handlerDoneF isInit) s.tbl with
    | none => none
    | some t => some ({ s with tbl := t }, .tau)
  | .postEnd none _ => none
  | .postEnd (some i) creator =>
    match modify i (endPost s.now s.cfg.timeout creator) s.tbl with
    | none => none
    | some t => some ({ s with tbl := t }, .tau)
  | .get none _ => some (s, .reject stMissingIdGet)
  | .get (some i) u =>
    match lookup s.tbl i u with
    | .error st => some (s, .reject st)
    | .ok _ => if s.replayFails then some (s, .storeRefused stReplayFailed) else some (s, .stream)
  | .delete none _ => some (s, .reject stMissingIdDelete)
  | .delete (some i) u =>
    match lookup s.tbl i u with
    | .error st => some (s, .reject st)
    | .ok _ =>
      match modify i closeF s.tbl with
      | none => some (s, .closeAccepted)       -- `Close` on an already closed session is a no-op
      | some t => some ({ s with tbl := t }, .closeAccepted)
  | .other _ _ => some (s, .reject stOtherMethod)
  | .tick d => some ({ s with now := s.now + d }, .tau)
  | .timerFire i =>
    match modify i (timerFireF s.now) s.tbl with
    | none => none
    | some t => some ({ s with tbl := t }, .tau)
  | .serverClose i =>
    match modify i closeF s.tbl with
    | none => none
    | some t => some ({ s with tbl := t }, .tau)
  | .closeDone i =>
    match modify i (closeDoneF s.closeFails) s.tbl with
    | none => none
    | some t => some ({ s with tbl := t }, .tau)
  | .faults f => some ({ s with faults := f }, .tau)

/-- One label. `none` = the label is not enabled in `s`. -/
def step (s : State) (l : Label) : Option (State × Resp) :=
  if s.cfg.stateless then stepStateless s l else stepStateful s l

/-- Run a label list; labels that are not enabled are skipped (so *every* list is a schedule). -/
def exec (s : State) : List Label → State
  | [] => s
  | l :: ls =>
    match step s l with
    | some (s', _) => exec s' ls
    | none => exec s ls

/-- The responses along a run, oldest first (internal labels and disabled labels give none). -/
def trace (s : State) : List Label → List (Label × Resp)
  | [] => []
  | l :: ls =>
    match step s l with
    | some (s', r) => (l, r) :: trace s' ls
    | none => trace s ls

/-- Keys of `h.sessions`. -/
def liveIds (s : State) : List Nat := (s.tbl.filter (fun e => e.inMap)).map (·.id)

/-- `Server.Sessions()` (stateful endpoint). -/
def serverIds (s : State) : List Nat := (s.tbl.filter (fun e => !e.removed)).map (·.id)

end Sessions
