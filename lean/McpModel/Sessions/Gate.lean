import McpModel.Sessions.Replay
import McpModel.Sessions.Monitor
/-!
E7 — requests that `StreamableHTTPHandler` refuses **before the session layer** (mcp/streamable.go
`serveStatefulPOST` / `serveStateless`: the `Content-Type` check (415), the `Accept` check (400), `getServer`
returning nil on the creation path (400); `serveStatefulGET`: the `Accept` check (400); `ServeHTTP` itself: DNS rebinding protection and cross-origin protection, 403 —
the same status as a user mismatch, from the session's owner too).  They come before the
`Mcp-Session-Id` header is even read, so C11 demands of them exactly one thing: **no effect** — whatever id and
identity they carry, no session is looked up, created or kept alive, no id is minted, no idle timer is stopped or
re-armed, no handler runs.

That is stated by reduction: for the model and for the monitor such a request *is* a `tick 0` (the operation in
which nothing happens and no time passes: the whole table, the server's list, the handler log and the timers of
departed sessions are compared / judged exactly as after any operation) plus the status of its answer.  Nothing of
the proved tower changes; GateProps.lean lifts `sim_step` to these requests.  Core Lean only.
-/
namespace Sessions

/-- why the request is refused -/
inductive Why where
  | ctype        -- POST whose Content-Type is not application/json
  | accept       -- POST whose Accept lacks application/json or text/event-stream
  | getAccept    -- GET whose Accept lacks text/event-stream
  | noServer     -- POST without a session id for which `getServer` returns nil
  | origin       -- POST from another origin (`Sec-Fetch-Site: cross-site`) with `CrossOriginProtection` configured
  | host         -- request that arrived on a loopback address with a foreign `Host` (DNS rebinding protection)
deriving DecidableEq, Repr

/-- regenerated from mcp/streamable.go on every run -/
def Why.status (stateless : Bool) : Why → Nat
  | .ctype => if stateless then Generated.Sessions.statelessBadContentType else Generated.Sessions.statefulBadContentType
  | .accept => if stateless then Generated.Sessions.statelessBadAccept else Generated.Sessions.statefulBadAccept
  | .getAccept => if stateless then Generated.Sessions.statelessNotPost else Generated.Sessions.statefulGETBadAccept
  | .noServer => if stateless then Generated.Sessions.statelessNoServer else Generated.Sessions.statefulNoServer
  | .origin => Generated.Sessions.serveCrossOrigin
  | .host => Generated.Sessions.serveBadHost

/-- The model's observation of a refused request: the status, and the unchanged world. -/
def gateModel (d : RState) (w : Why) : Option (RState × Obs) :=
  match replayOp d (.tick 0) with
  | some (d', o) => some (d', { o with status := .code (w.status d.st.cfg.stateless) })
  | none => none

/-- answered with a client-error status -/
def St.refused4xx : St → Bool
  | .code n => 400 ≤ n && n < 500
  | _ => false

inductive GateClause where
  | answered (w : Why) (st : St)     -- served (or not answered) instead of being refused
  | effect (c : Clause)              -- the refused request had an effect: the clause a `tick 0` would have violated
deriving Repr

/-- The monitor on a refused request: it is refused (C11 does not say with which status: that it is the status of
the first failing check — 415 / 400 / 405, not the 403 / 404 of the session lookup — is part of the comparison with
the model, `Why.status`), and nothing else has happened. -/
def gateJudge (cfg : Cfg) (m : Mon) (w : Why) (o : Obs) : Mon × Option GateClause :=
  let r := monStep cfg m (.tick 0) { o with status := .ok }
  (r.mon, if !o.status.refused4xx then some (.answered w o.status) else r.viol.map .effect)

end Sessions
