import McpModel.Sessions.BridgeLemmas
/-!
Bridge (E7/C11): the simulation relation between the replay state of the model (`RState`) and the state
of the monitor (`Mon`), and the table checks on a snapshot of a related model state.

* `EOk`   — what holds of every entry of the model's table at quiescence (nothing pending, nothing due);
* `ERel`  — how the monitor's abstract session corresponds to the model's entry: `dead ↔ removed`,
            `live ↔ ¬removed ∧ ¬closing`, POSTs in progress = parked handlers' POSTs, idle deadline = the timer's;
* `PendOk`/`pendOf`/`runOf` — the monitor's tag tables are images of the harness-side list of asynchronous requests;
* `Sim`   — all of it, for a stateful endpoint; `SimSL` for a stateless one.
-/
namespace Sessions

/-! ### counting the asynchronous requests of a session -/

def isSlowOf (i : Nat) (p : Pend) : Bool :=
  match p.kind with
  | .slow (some j) _ => j == i
  | _ => false

def isRunOf (i : Nat) (p : Pend) : Bool :=
  match p.kind with
  | .run j _ => j == i
  | _ => false

/-- POSTs of session `i` whose handler is parked (slow POSTs in progress) -/
def nsOf (pend : List Pend) (i : Nat) : Nat := (pend.filter (isSlowOf i)).length

/-- handlers of session `i` that outlived their (abandoned) POST -/
def nrOf (pend : List Pend) (i : Nat) : Nat := (pend.filter (isRunOf i)).length

/-- the monitor's `pend` entry of an asynchronous request -/
def pendOf (p : Pend) : Option (Tag × Name) :=
  match p.kind with
  | .slow (some i) _ => some (p.tag, sname i)
  | .del i true => some (p.tag, sname i)
  | .cls i => some (p.tag, sname i)
  | .upl i _ _ => some (p.tag, sname i)
  | _ => none

/-- the monitor's `run` entry -/
def runOf (p : Pend) : Option (Nat × Name) :=
  match p.kind with
  | .run i slot => some (slot, sname i)
  | _ => none

def slotOf (p : Pend) : Option Nat :=
  match p.kind with
  | .slow _ s => some s
  | .run _ s => some s
  | _ => none

/-- the session an asynchronous request belongs to -/
def sidOf (p : Pend) : Option Nat :=
  match p.kind with
  | .slow s _ => s
  | .run i _ => some i
  | .del i _ => some i
  | .cls i => some i
  | .upl i _ _ => some i

/-! ### entries -/

/-- The model's entry between the labels of an operation and the settling: nothing is waiting for
publication, no `initialize` is in flight, the counters agree with the asynchronous requests
(`ns` parked POSTs, `nr` handlers without POST; the POSTs in progress are the parked ones and those whose
body is still on its way, `e.upl`), no timer is overdue. -/
structure EOkQ (cfg : Cfg) (now ns nr : Nat) (e : Sess) : Prop where
  pending : e.pending = none
  creating : e.creating = false
  initBusy : e.initBusy = 0
  busy : e.busy = ns + nr
  posts : e.posts = ns + e.upl
  inMap : e.inMap = !e.removed
  tmr : e.removed = false → (e.timer = .nil ↔ cfg.timeout = 0)
  armed : e.removed = false → e.closing = false → e.timer ≠ .nil → e.refs = 0 → e.timer.isArmed = true
  notDue : ∀ d, e.timer = .armed d → now < d

/-- … and at quiescence: a close that could complete has completed. -/
structure EOk (cfg : Cfg) (now ns nr : Nat) (e : Sess) : Prop extends EOkQ cfg now ns nr e where
  quiet : e.closing = true → e.removed = false → ns + nr ≠ 0

/-- The monitor's abstract session `a` against the model's entry `e`, before dying sessions that left the table are reaped. -/
structure ERelPre (cfg : Cfg) (ns nr : Nat) (e : Sess) (a : MSess) : Prop where
  owner : a.owner = ownerOf e.owner
  dead : a.life = .dead → e.removed = true
  live : a.life = .live ↔ (e.removed = false ∧ e.closing = false)
  cnt : a.life = .live → a.posts = ns + e.upl ∧ a.running = nr
  idle : a.life = .live → ns = 0 → e.upl = 0 → cfg.timeout ≠ 0 → e.timer = .armed (a.idleSince + cfg.timeout)

structure ERel (cfg : Cfg) (ns nr : Nat) (e : Sess) (a : MSess) : Prop extends ERelPre cfg ns nr e a where
  removed : e.removed = true → a.life = .dead

/-- the monitor's view of one model entry: a related abstract session, or none for a session that is gone -/
def RelAt (cfg : Cfg) (pend : List Pend) (tbl : List MSess) (e : Sess) : Prop :=
  match monFind tbl (sname e.id) with
  | some a => ERel cfg (nsOf pend e.id) (nrOf pend e.id) e a
  | none => e.removed = true

def RelPreAt (cfg : Cfg) (pend : List Pend) (tbl : List MSess) (e : Sess) : Prop :=
  match monFind tbl (sname e.id) with
  | some a => ERelPre cfg (nsOf pend e.id) (nrOf pend e.id) e a
  | none => e.removed = true

/-! ### the list of asynchronous requests -/

structure PendOk (d : RState) : Prop where
  tags : (d.pend.map (·.tag)).Nodup
  slots : (d.pend.filterMap slotOf).Nodup
  shape : ∀ p ∈ d.pend,
    match p.kind with
    | .slow _ slot => p.tag = .p slot ∧ 1 ≤ slot ∧ slot ≤ d.nslow ∧ slot ∉ d.released
    | .run _ slot => p.tag = .r slot ∧ 1 ≤ slot ∧ slot ≤ d.nslow ∧ slot ∉ d.released
    | .del i _ => (∃ n, p.tag = .d n ∧ n ≤ d.nasync) ∧ isLive d.st i = true
    | .cls i => (∃ n, p.tag = .c n ∧ n ≤ d.nasync) ∧ isLive d.st i = true
    | .upl _ n _ => p.tag = .u n ∧ n ≤ d.nasync
  minted : ∀ p ∈ d.pend, ∀ i, sidOf p = some i → i < d.st.next
  sids : ∀ p ∈ d.pend, (sidOf p).isSome = true    -- (stateful endpoint: every request belongs to a session)
  relLe : ∀ k ∈ d.released, k ≤ d.nslow

/-! ### the simulation relation -/

structure Sim (cfg : Cfg) (d : RState) (m : Mon) : Prop where
  cfg_eq : d.st.cfg = cfg
  inv : Inv d.st
  stateful : cfg.stateless = false
  now : m.now = d.st.now
  faults : m.faults = d.st.faults
  nslow : m.nslow = d.nslow
  nasync : m.nasync = d.nasync
  mnodup : (m.tbl.map (·.name)).Nodup
  minted : ∀ a ∈ m.tbl, ∃ i, i < d.st.next ∧ a.name = sname i
  eok : ∀ e ∈ d.st.tbl, EOk cfg d.st.now (nsOf d.pend e.id) (nrOf d.pend e.id) e
  rel : ∀ e ∈ d.st.tbl, RelAt cfg d.pend m.tbl e
  pend : m.pend = d.pend.filterMap pendOf
  run : m.run = d.pend.filterMap runOf
  pok : PendOk d

/-- stateless endpoint: the model keeps no table, the monitor learns of no session -/
structure SimSL (cfg : Cfg) (d : RState) (m : Mon) : Prop where
  cfg_eq : d.st.cfg = cfg
  inv : Inv d.st
  stateless : cfg.stateless = true
  faults : m.faults = d.st.faults
  mtbl : m.tbl = []
  mpend : m.pend = []
  mrun : m.run = []

/-! ### basic facts -/

theorem sname_inj {i j : Nat} (h : sname i = sname j) : i = j := by
  simp only [sname, Name.s.injEq] at h; omega

theorem ownerOf_user (u : UserTok) : ownerOf u.user = u.owner := by cases u <;> rfl

/-- `lookupSession`'s owner check is the monitor's `entitled` on the printed owner. -/
theorem entitled_ownerOf (o : User) (u : UserTok) :
    entitled (ownerOf o) u = (match o with | none => true | some x => decide (u.user = some x)) := by
  cases o with
  | none => simp [entitled, ownerOf]
  | some x =>
    cases u with
    | anon => simp [entitled, ownerOf, UserTok.user]
    | ue => simp [entitled, ownerOf, UserTok.user]
    | u n =>
      by_cases h : x = n
      · subst h; simp [entitled, ownerOf, UserTok.user]
      · have h' : n ≠ x := fun hh => h hh.symm
        simp [entitled, ownerOf, UserTok.user, h, h']

theorem inv_nodupIds {s : State} (hi : Inv s) : NodupIds s.tbl := ids_nodup hi

theorem findSess_of_lt {s : State} (hi : Inv s) {i : Nat} (h : i < s.next) : ∃ e, findSess i s.tbl = some e := by
  have : i ∈ s.tbl.map (·.id) := by rw [hi.ids]; exact List.mem_range.mpr h
  obtain ⟨e, he, hid⟩ := List.mem_map.mp this
  exact ⟨e, by rw [← hid]; exact findSess_mem hi he⟩

theorem findSess_none_of_ge {s : State} (hi : Inv s) {i : Nat} (h : s.next ≤ i) : findSess i s.tbl = none := by
  cases hf : findSess i s.tbl with
  | none => rfl
  | some e =>
    have := findSess_some hf
    have := ids_lt hi e this.1
    omega

theorem doL_inv {s : State} (hi : Inv s) (l : Label) : Inv (doL s l) := by
  unfold doL
  split
  · rename_i s' r h; exact step_inv hi h
  · exact hi

theorem settle_inv {s : State} (hi : Inv s) : Inv (settle s) := by
  unfold settle
  have : ∀ (l : List Sess) (s : State), Inv s →
      Inv (l.foldl (fun s e => doL (doL s (.timerFire e.id)) (.closeDone e.id)) s) := by
    intro l
    induction l with
    | nil => intro s h; exact h
    | cons x l ih => intro s h; exact ih _ (doL_inv (doL_inv h _) _)
  exact this _ _ hi

end Sessions
