import McpModel.Sessions.BridgeAppend
/-!
Bridge (E7/C11): POST without a session id on a stateful endpoint (`post -`), and the same with a
server-side close between `Connect` and the publication (`postx`).
-/
namespace Sessions

/-- the entry of a new session after its creating POST has ended and the table has settled -/
def createdE (now T : Nat) (cf : Bool) (e0 : Sess) (k : Kind) (ok : Bool) : Sess :=
  settleE now cf (tryF (endPost now T true) (hdK k ok (tryF (publishF true T ok) e0)))

/-- … when the server closed it between `Connect` and the publication -/
def racyE (now T : Nat) (cf : Bool) (e0 : Sess) (ok : Bool) : Sess :=
  settleE now cf (tryF (endPost now T true) (tryF (publishF true T ok) (tryF (closeDoneF cf) (tryF closeF e0))))

theorem created_facts (cfg : Cfg) (s : State) (hcfg : s.cfg = cfg) (u : User) (k : Kind) (ok : Bool) (cf : Bool) :
    let E := createdE s.now cfg.timeout cf (newSess s u k) k ok
    E.id = s.next ∧ E.owner = u ∧ EOk cfg s.now 0 0 E ∧
    (if k = .init ∧ ok = true then E.removed = false ∧ E.closing = false ∧ (cfg.timeout ≠ 0 → E.timer = .armed (s.now + cfg.timeout))
     else E.removed = true) := by
  intro E
  have hle : cfg.timeout ≠ 0 → (s.now + cfg.timeout ≤ s.now) = False := by intro h; simp; omega
  by_cases hT : cfg.timeout = 0 <;> cases k <;> cases ok <;>
    (refine ⟨?_, ?_, ⟨⟨?_, ?_, ?_, ?_, ?_, ?_, ?_, ?_, ?_⟩, ?_⟩, ?_⟩ <;>
      simp [E, createdE, newSess, publishF, publishedSess, deliver, hdK, tryF, handlerDoneF, endPost, settleE, timerFireF,
        closeDoneF, hT, Timer.isArmed, hle] <;> (try omega))

theorem racy_facts (cfg : Cfg) (s : State) (u : User) (k : Kind) (ok : Bool) (cf : Bool) :
    let E := racyE s.now cfg.timeout cf (newSess s u k) ok
    E.id = s.next ∧ E.owner = u ∧ EOk cfg s.now 0 0 E ∧ E.removed = true := by
  intro E
  by_cases hT : cfg.timeout = 0 <;> cases ok <;>
    (refine ⟨?_, ?_, ⟨⟨?_, ?_, ?_, ?_, ?_, ?_, ?_, ?_, ?_⟩, ?_⟩, ?_⟩ <;>
      simp [E, racyE, newSess, publishF, closeF, tryF, endPost, settleE, timerFireF, closeDoneF, hT, Timer.isArmed])

theorem failed_facts (cfg : Cfg) (s : State) (u : User) :
    (failedSess s u).id = s.next ∧ (failedSess s u).owner = u ∧ EOk cfg s.now 0 0 (failedSess s u) ∧ (failedSess s u).removed = true := by
  refine ⟨rfl, rfl, ⟨⟨?_, ?_, ?_, ?_, ?_, ?_, ?_, ?_, ?_⟩, ?_⟩, rfl⟩ <;> simp [failedSess]

/-- a session that has just been created has no POST whose body is still on its way -/
theorem created_upl (s : State) (T : Nat) (u : User) (k : Kind) (ok : Bool) (cf : Bool) :
    (createdE s.now T cf (newSess s u k) k ok).upl = 0 := by
  by_cases hT : T = 0 <;> cases k <;> cases ok <;>
    simp [createdE, newSess, publishF, publishedSess, deliver, hdK, tryF, handlerDoneF, endPost, settleE, timerFireF,
      closeDoneF, hT] <;> (repeat' split) <;> rfl

theorem racy_upl (s : State) (T : Nat) (u : User) (k : Kind) (ok : Bool) (cf : Bool) :
    (racyE s.now T cf (newSess s u k) ok).upl = 0 := by
  by_cases hT : T = 0 <;> cases ok <;>
    simp [racyE, newSess, publishF, closeF, tryF, endPost, settleE, timerFireF, closeDoneF, hT] <;> (repeat' split) <;> rfl

/-! ### the table with one new entry -/

def withNew (s : State) (x : Sess) : State := { s with tbl := s.tbl ++ [x], next := s.next + 1 }

theorem map_lift_append_new {t : List Sess} {E : Sess} {next : Nat} (hlt : ∀ e ∈ t, e.id < next) (hE : E.id = next)
    (g : Sess → Sess) : (t ++ [E]).map (lift next g) = t ++ [g E] := by
  rw [List.map_append, map_lift_of_not_mem (fun x hx => Nat.ne_of_lt (hlt x hx))]
  simp [lift, hE]

theorem withNew_nodup {s : State} (hi : Inv s) {x : Sess} (hx : x.id = s.next) : NodupIds (s.tbl ++ [x]) := by
  unfold NodupIds
  rw [List.map_append, List.nodup_append]
  refine ⟨inv_nodupIds hi, by simp, ?_⟩
  intro a ha b hb hab
  simp at hb; subst hb
  obtain ⟨e, he, rfl⟩ := List.mem_map.mp ha
  have := ids_lt hi e he
  omega

theorem withNew_lift {s : State} (hi : Inv s) {x : Sess} (hx : x.id = s.next) (g : Sess → Sess) :
    ({ withNew s x with tbl := (withNew s x).tbl.map (lift s.next g) } : State) = withNew s (g x) := by
  show ({ withNew s x with tbl := (s.tbl ++ [x]).map (lift s.next g) } : State) = _
  rw [map_lift_append_new (ids_lt hi) hx]
  rfl

theorem doL_handlerDone_new {s : State} (hst : s.cfg.stateless = false) (hi : Inv s) {x : Sess} (hx : x.id = s.next) (b : Bool) :
    doL (withNew s x) (.handlerDone s.next b) = withNew s (tryF (handlerDoneF b) x) := by
  rw [doL_handlerDone (s := withNew s x) hst (withNew_nodup hi hx)]
  exact withNew_lift hi hx _

theorem doL_postEnd_new {s : State} (hst : s.cfg.stateless = false) (hi : Inv s) {x : Sess} (hx : x.id = s.next) (c : Bool) :
    doL (withNew s x) (.postEnd (some s.next) c) = withNew s (tryF (endPost s.now s.cfg.timeout c) x) := by
  rw [doL_postEnd (s := withNew s x) hst (withNew_nodup hi hx)]
  exact withNew_lift hi hx _

theorem doL_serverClose_new {s : State} (hst : s.cfg.stateless = false) (hi : Inv s) {x : Sess} (hx : x.id = s.next) :
    doL (withNew s x) (.serverClose s.next) = withNew s (tryF closeF x) := by
  rw [doL_serverClose (s := withNew s x) hst (withNew_nodup hi hx)]
  exact withNew_lift hi hx _

theorem doL_closeDone_new {s : State} (hst : s.cfg.stateless = false) (hi : Inv s) {x : Sess} (hx : x.id = s.next) :
    doL (withNew s x) (.closeDone s.next) = withNew s (tryF (closeDoneF s.closeFails) x) := by
  rw [doL_closeDone (s := withNew s x) hst (withNew_nodup hi hx)]
  exact withNew_lift hi hx _

theorem runHandler_new {s : State} (hst : s.cfg.stateless = false) (hi : Inv s) {x : Sess} (hx : x.id = s.next) (k : Kind) (dlv : Bool) :
    runHandler (withNew s x) s.next k dlv = withNew s (hdK k dlv x) := by
  rw [runHandler_eq (s1 := withNew s x) hst (withNew_nodup hi hx)]
  exact withNew_lift hi hx _

theorem settle_new {s : State} (hst : s.cfg.stateless = false) (hi : Inv s) {x : Sess} (hx : x.id = s.next)
    (hset : ∀ e ∈ s.tbl, settleE s.now s.closeFails e = e) :
    settle (withNew s x) = withNew s (settleE s.now s.closeFails x) := by
  rw [settle_eq (s := withNew s x) hst (withNew_nodup hi hx)]
  show ({ withNew s x with tbl := (s.tbl ++ [x]).map (settleE s.now s.closeFails) } : State) = _
  rw [List.map_append]
  have : s.tbl.map (settleE s.now s.closeFails) = s.tbl := by
    conv => rhs; rw [← List.map_id s.tbl]
    apply List.map_congr_left
    intro e he; simp [hset e he]
  rw [this]
  rfl

theorem step_postBegin_none {s : State} (hst : s.cfg.stateless = false) (u : User) (k : Kind) :
    step s (.postBegin none u k) =
      some (if s.connectFails then (withNew s (failedSess s u), .reject 500) else (withNew s (newSess s u k), .tau)) := by
  simp only [step, hst, stepStateful, Bool.false_eq_true, if_false]
  split <;> simp [withNew, stConnectFailed, Generated.Sessions.connectFailed]

theorem findSess_new {s : State} (hi : Inv s) {x : Sess} (hx : x.id = s.next) : findSess s.next (withNew s x).tbl = some x := by
  show findSess s.next (s.tbl ++ [x]) = _
  rw [findSess_append_new (ids_lt hi) hx, if_pos rfl]

theorem step_publish_new {s : State} (hst : s.cfg.stateless = false) (hi : Inv s) {x : Sess} (hx : x.id = s.next) {k : Kind}
    (hp : x.pending = some k) :
    step (withNew s x) (.publish s.next) =
      some (withNew s (tryF (publishF true s.cfg.timeout (s.accepts k)) x),
            postResp s k (if k.isInitialize then some s.next else none) x.closing) := by
  have hfix : s.cfg.publishChecks = true := hi.fixed
  have hf := findSess_new hi hx
  have hpub : ∃ e', publishF true s.cfg.timeout (s.accepts k) x = some e' := by
    unfold publishF; rw [hp]; simp only []; split <;> exact ⟨_, rfl⟩
  obtain ⟨e', he'⟩ := hpub
  have hm := modify_eq_map (f := publishF true s.cfg.timeout (s.accepts k)) (withNew_nodup hi hx) hf he'
  have hacc : (withNew s x).accepts k = s.accepts k := rfl
  simp only [step, show (withNew s x).cfg.stateless = false from hst, stepStateful, Bool.false_eq_true, if_false, hf, hp,
    show (withNew s x).cfg.publishChecks = true from hfix, show (withNew s x).cfg.timeout = s.cfg.timeout from rfl, hacc]
  have hm' : modify s.next (publishF true s.cfg.timeout (s.accepts k)) (withNew s x).tbl =
      some ((s.tbl ++ [x]).map (lift s.next (tryF (publishF true s.cfg.timeout (s.accepts k))))) := hm
  rw [hm', map_lift_append_new (ids_lt hi) hx]
  rfl

end Sessions
