import McpModel.Sessions.BridgeSim
/-!
Bridge (E7/C11): the monitor's tag table (`pend`) against the harness-side list of asynchronous requests
under completions.
-/
namespace Sessions

/-! ### `bookDone` -/

theorem bookDone1_pend (now : Nat) (acc : List MSess × List (Tag × Name)) (c : Tag × Nat) :
    (bookDone1 now acc c).2 = acc.2.filter (·.1 != c.1) := by
  unfold bookDone1
  cases hf : acc.2.find? (·.1 == c.1) with
  | none =>
    simp only []
    symm
    apply List.filter_eq_self.mpr
    intro x hx
    have := List.find?_eq_none.mp hf x hx
    simpa using this
  | some x =>
    obtain ⟨t, nm⟩ := x
    cases c.1 <;> rfl

theorem bookDone_pend (now : Nat) (tbl : List MSess) (pend : List (Tag × Name)) (done : List (Tag × Nat)) :
    (bookDone now tbl pend done).2 = pend.filter (fun x => !(done.map (·.1)).contains x.1) := by
  unfold bookDone
  induction done generalizing tbl pend with
  | nil =>
    simp only [List.foldl_nil, List.map_nil, List.contains_nil, Bool.not_false]
    exact (List.filter_eq_self.mpr (fun _ _ => rfl)).symm
  | cons c rest ih =>
    simp only [List.foldl_cons]
    have := ih (bookDone1 now (tbl, pend) c).1 (bookDone1 now (tbl, pend) c).2
    rw [show (bookDone1 now (tbl, pend) c) = ((bookDone1 now (tbl, pend) c).1, (bookDone1 now (tbl, pend) c).2) from rfl]
    rw [this, bookDone1_pend, List.filter_filter]
    apply List.filter_congr
    intro x _
    simp only [List.map_cons, List.contains_cons, Bool.not_or, bne, Bool.and_comm]

theorem keepsName_mDead : KeepsName mDead := fun _ => rfl
theorem keepsName_mDying : KeepsName mDying := fun _ => rfl
theorem keepsName_mPend : KeepsName mPend := fun _ => rfl
theorem keepsName_mRunInc : KeepsName mRunInc := fun _ => rfl
theorem keepsName_mRunDec : KeepsName mRunDec := fun _ => rfl
theorem keepsName_mTouch (now : Nat) : KeepsName (mTouch now) := by intro a; unfold mTouch; split <;> rfl
theorem keepsName_mPostDone (now : Nat) : KeepsName (mPostDone now) := by intro a; unfold mPostDone; split <;> rfl

theorem monUpd_monUpd (t : List MSess) (n : Name) {f g : MSess → MSess} (hf : KeepsName f) :
    monUpd (monUpd t n f) n g = monUpd t n (g ∘ f) := by
  simp only [monUpd_eq_map, List.map_map]
  apply List.map_congr_left
  intro a _
  simp only [Function.comp]
  by_cases h : a.name = n
  · simp [h, hf a]
  · simp [h]

theorem mDead_mDead : mDead ∘ mDead = mDead := rfl

/-- completions of DELETEs / server-side closes, all of the session called `n`: at most "`n` is dead" is booked -/
theorem bookDone_dead (now : Nat) (n : Name) : ∀ (done : List (Tag × Nat)) (tbl : List MSess) (pend : List (Tag × Name)),
    (∀ c ∈ done, ∀ x ∈ pend, x.1 = c.1 → x.2 = n ∧ (∀ k, c.1 ≠ .p k) ∧ (∀ k, c.1 ≠ .u k)) →
    (bookDone now tbl pend done).1 = tbl ∨
    ((bookDone now tbl pend done).1 = monUpd tbl n mDead ∧ ∃ c ∈ done, ∃ x ∈ pend, x.1 = c.1) := by
  intro done
  induction done with
  | nil => intro tbl pend _; left; rfl
  | cons c rest ih =>
    intro tbl pend h
    unfold bookDone
    simp only [List.foldl_cons]
    have hsub : ∀ x, x ∈ (bookDone1 now (tbl, pend) c).2 → x ∈ pend := by
      intro x hx; rw [bookDone1_pend] at hx; exact (List.mem_filter.mp hx).1
    have h' : ∀ c' ∈ rest, ∀ x ∈ (bookDone1 now (tbl, pend) c).2, x.1 = c'.1 → x.2 = n ∧ (∀ k, c'.1 ≠ .p k) ∧ (∀ k, c'.1 ≠ .u k) :=
      fun c' hc' x hx => h c' (List.mem_cons_of_mem _ hc') x (hsub x hx)
    have hrec := ih (bookDone1 now (tbl, pend) c).1 (bookDone1 now (tbl, pend) c).2 h'
    unfold bookDone at hrec
    rw [show (bookDone1 now (tbl, pend) c) = ((bookDone1 now (tbl, pend) c).1, (bookDone1 now (tbl, pend) c).2) from rfl]
    -- what the first completion did
    have h1 : (bookDone1 now (tbl, pend) c).1 = tbl ∨
        ((bookDone1 now (tbl, pend) c).1 = monUpd tbl n mDead ∧ ∃ x ∈ pend, x.1 = c.1) := by
      unfold bookDone1
      cases hf : pend.find? (·.1 == c.1) with
      | none => left; rfl
      | some x =>
        obtain ⟨t, nm⟩ := x
        have hx := List.mem_of_find?_eq_some hf
        have ht : t = c.1 := by simpa using List.find?_some hf
        have := h c List.mem_cons_self (t, nm) hx ht
        right
        simp only [] at this
        obtain ⟨hnm, hnp, hnu⟩ := this
        subst hnm
        refine ⟨?_, (t, nm), hx, ht⟩
        cases hc : c.1 with
        | p k => exact absurd hc (hnp k)
        | u k => exact absurd hc (hnu k)
        | q k => rfl
        | d k => rfl
        | c k => rfl
        | r k => rfl
        | raw s => rfl
    rcases h1 with h1 | ⟨h1, x, hx, hxc⟩
    · rw [h1] at hrec ⊢
      rcases hrec with hr | ⟨hr, c', hc', y, hy, hyc⟩
      · left; exact hr
      · right; exact ⟨hr, c', List.mem_cons_of_mem _ hc', y, hsub y hy, hyc⟩
    · rw [h1] at hrec ⊢
      right
      rcases hrec with hr | ⟨hr, _⟩
      · exact ⟨hr, c, List.mem_cons_self, x, hx, hxc⟩
      · refine ⟨?_, c, List.mem_cons_self, x, hx, hxc⟩
        rw [hr, monUpd_monUpd _ _ keepsName_mDead, mDead_mDead]

/-! ### filtering by tag commutes with `pendOf` -/

theorem pendOf_tag {p : Pend} {x : Tag × Name} (h : pendOf p = some x) : x.1 = p.tag := by
  unfold pendOf at h
  split at h <;> first | (cases h; rfl) | cases h

theorem filterMap_pendOf_filter (P : List Pend) (q : Tag → Bool) :
    (P.filterMap pendOf).filter (fun x => q x.1) = (P.filter (fun p => q p.tag)).filterMap pendOf := by
  induction P with
  | nil => rfl
  | cons p P ih =>
    simp only [List.filterMap_cons, List.filter_cons]
    cases hp : pendOf p with
    | none =>
      simp only []
      split
      · simp [hp, ih]
      · exact ih
    | some x =>
      have := pendOf_tag hp
      simp only [List.filter_cons, this]
      split
      · simp [hp, ih]
      · exact ih

theorem doneOf_tag {s : State} {p : Pend} {c : Tag × Nat} (h : doneOf s p = some c) : c.1 = p.tag ∧ keepOf s p = false := by
  unfold doneOf at h
  unfold keepOf
  split at h
  · split at h
    · cases h
    · rename_i hl; cases h; exact ⟨rfl, by simpa using hl⟩
  · split at h
    · cases h
    · rename_i hl; cases h; exact ⟨rfl, by simpa using hl⟩
  · cases h

theorem doneOf_of_not_keep {s : State} {p : Pend} (h : keepOf s p = false) : ∃ c, doneOf s p = some c ∧ c.1 = p.tag := by
  unfold keepOf at h
  unfold doneOf
  split at h
  · simp [h]
  · simp [h]
  · cases h

/-- with pairwise distinct tags, "its tag is among the completed" is "it completed" -/
theorem filter_keepOf_eq {s : State} {P : List Pend} (hn : (P.map (·.tag)).Nodup) :
    P.filter (fun p => !((P.filterMap (doneOf s)).map (·.1)).contains p.tag) = P.filter (keepOf s) := by
  apply List.filter_congr
  intro p hp
  cases hk : keepOf s p with
  | false =>
    obtain ⟨c, hc, hct⟩ := doneOf_of_not_keep hk
    have : p.tag ∈ (P.filterMap (doneOf s)).map (·.1) :=
      List.mem_map.mpr ⟨c, List.mem_filterMap.mpr ⟨p, hp, hc⟩, hct⟩
    simpa using this
  | true =>
    have : ¬ p.tag ∈ (P.filterMap (doneOf s)).map (·.1) := by
      intro hm
      obtain ⟨c, hc, hct⟩ := List.mem_map.mp hm
      obtain ⟨q, hq, hqc⟩ := List.mem_filterMap.mp hc
      have hqt := doneOf_tag hqc
      have hpq : q = p := by
        have htag : q.tag = p.tag := by rw [← hqt.1, hct]
        -- distinct tags
        clear hc hm hqc hk
        induction P with
        | nil => cases hp
        | cons x P ih =>
          simp only [List.map_cons, List.nodup_cons] at hn
          cases hp with
          | head =>
            cases hq with
            | head => rfl
            | tail _ hq' => exact absurd (List.mem_map.mpr ⟨q, hq', htag⟩) hn.1
          | tail _ hp' =>
            cases hq with
            | head => exact absurd (List.mem_map.mpr ⟨p, hp', htag.symm⟩) hn.1
            | tail _ hq' => exact ih hn.2 hp' hq'
      rw [hpq] at hqt
      rw [hk] at hqt; cases hqt.2
    simpa using this

/-- the monitor's tag table after the completions = the image of what the harness still waits for -/
theorem pend_after_completions {s : State} {P : List Pend} (hn : (P.map (·.tag)).Nodup) (now : Nat) (tbl : List MSess) :
    (bookDone now tbl (P.filterMap pendOf) (P.filterMap (doneOf s))).2 = (P.filter (keepOf s)).filterMap pendOf := by
  rw [bookDone_pend, filterMap_pendOf_filter P (fun t => !((P.filterMap (doneOf s)).map (·.1)).contains t),
    filter_keepOf_eq hn]

/-! ### counting under the list operations -/

theorem isSlowOf_keep {s : State} {i : Nat} {p : Pend} (h : isSlowOf i p = true) : keepOf s p = true := by
  unfold isSlowOf at h; unfold keepOf
  cases hk : p.kind <;> simp_all

theorem isRunOf_keep {s : State} {i : Nat} {p : Pend} (h : isRunOf i p = true) : keepOf s p = true := by
  unfold isRunOf at h; unfold keepOf
  cases hk : p.kind <;> simp_all

theorem nsOf_filter_keep (s : State) (P : List Pend) (i : Nat) : nsOf (P.filter (keepOf s)) i = nsOf P i := by
  unfold nsOf
  rw [List.filter_filter]
  congr 1
  apply List.filter_congr
  intro p _
  cases h : isSlowOf i p with
  | false => simp
  | true => simp [isSlowOf_keep h]

theorem nrOf_filter_keep (s : State) (P : List Pend) (i : Nat) : nrOf (P.filter (keepOf s)) i = nrOf P i := by
  unfold nrOf
  rw [List.filter_filter]
  congr 1
  apply List.filter_congr
  intro p _
  cases h : isRunOf i p with
  | false => simp
  | true => simp [isRunOf_keep h]

theorem runOf_filter_keep (s : State) (P : List Pend) : (P.filter (keepOf s)).filterMap runOf = P.filterMap runOf := by
  induction P with
  | nil => rfl
  | cons p P ih =>
    simp only [List.filter_cons]
    cases hk : keepOf s p with
    | true => simp only [if_true, List.filterMap_cons, ih]
    | false =>
      have : runOf p = none := by
        unfold keepOf at hk; unfold runOf
        cases hkk : p.kind <;> simp_all
      simp [this, ih]

end Sessions
